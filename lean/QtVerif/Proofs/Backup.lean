import QtVerif.Model.Backup
import QtVerif.Proofs.Config
/-! Helper lemmas for C20 (backup/restore round-trip). -/
namespace QtVerif.Backup
open QtVerif.Config

theorem applyFields_ok (cfg : Cfg) (t : Port) (fs : Fields)
    (h : ∀ a ∈ fs, Stable cfg a.1 a.2) : (applyFields cfg t fs).2 = true := by
  induction fs generalizing t with
  | nil => rfl
  | cons a r ih =>
    obtain ⟨n, v⟩ := a
    simp only [applyFields]
    have h1 : (setAttr cfg t n v).2 = true := by
      simp only [setAttr]
      cases ht : t.attrs n with
      | none => rfl
      | some old => rw [h (n, v) (List.mem_cons_self) old]
    have h2 := ih (setAttr cfg t n v).1 (fun a ha => h a (List.mem_cons_of_mem _ ha))
    simp [h1, h2]

/-- the target has the same attribute support as the source and attribute values of the same JSON type -/
structure Compatible (t p : Port) : Prop where
  pdef : t.pdef = p.pdef
  support : ∀ n, (t.attrs n).isSome = (p.attrs n).isSome
  types : ∀ n v w, p.attrs n = some v → t.attrs n = some w → sameCtor w v = true

theorem mem_savedFields {attrs : String → Option AVal} {ns : List String} {n : String} {v : AVal}
    (h : (n, v) ∈ savedFields attrs ns) : attrs n = some v := by
  simp only [savedFields, List.mem_filterMap] at h
  obtain ⟨m, _, hm⟩ := h
  cases ha : attrs m with
  | none => rw [ha] at hm; cases hm
  | some w =>
    rw [ha] at hm
    simp only [Option.map_some, Option.some.injEq, Prod.mk.injEq] at hm
    obtain ⟨rfl, rfl⟩ := hm
    exact ha

/-- applying all attributes of `p` (as GET reports them) to a compatible port gives `p`'s attributes -/
theorem apply_doc_attrs (cfg : Cfg) (p t : Port) (hp : WF cfg p) (hc : Compatible t p) :
    (applyFields cfg t (savedFields p.attrs (names p.pdef.defaults))).1.attrs = p.attrs := by
  funext n
  rw [applyFields_attrs, foldAttr_nodup cfg n _ _ (nodup_savedFields _ _ hp.def_wf.1), lookupF_savedFields]
  have hs := hp.support n
  have ht := hc.support n
  by_cases hm : n ∈ names p.pdef.defaults
  · rw [if_pos hm]
    cases hpn : p.attrs n with
    | none =>
      rw [hpn] at ht
      simp only
      cases h : t.attrs n with
      | none => rfl
      | some w => rw [h] at ht; cases ht
    | some v =>
      rw [hpn] at ht
      simp only
      cases h : t.attrs n with
      | none => rw [h] at ht; cases ht
      | some w => rw [hp.stable n v hpn w]
  · rw [if_neg hm]
    simp only
    have hl := lookupF_none_of_not_mem hm
    rw [hl] at hs
    cases hpn : p.attrs n with
    | none =>
      rw [hpn] at ht
      cases h : t.attrs n with
      | none => rfl
      | some w => rw [h] at ht; cases ht
    | some v => rw [hpn] at hs; cases hs

theorem validEntry_doc (p t : Port) (hc : Compatible t p) :
    validEntry t (savedFields p.attrs (names p.pdef.defaults)) = true := by
  simp only [validEntry, List.all_eq_true]
  intro a ha
  obtain ⟨n, v⟩ := a
  have hv := mem_savedFields ha
  simp only
  cases h : t.attrs n with
  | none => rfl
  | some w => exact hc.types n v w hv h

/-- restoring the GET entry of `p` onto a compatible existing port, or onto nothing when `p` is virtual -/
theorem restoreOn_doc (cfg : Cfg) (p t : Port) (id : String) (hp : WF cfg p) (hc : Compatible t p) :
    ∃ r, restoreOn cfg (some t) (docOf id p) = .ok (some r) ∧ r.pdef = p.pdef ∧ r.attrs = p.attrs ∧
      (enabledOf p = true → r.value = p.value) := by
  have hv := validEntry_doc p t hc
  have hok : (applyFields cfg t (savedFields p.attrs (names p.pdef.defaults))).2 = true :=
    applyFields_ok cfg t _ (fun a ha => hp.stable a.1 a.2 (mem_savedFields ha))
  have ha := apply_doc_attrs cfg p t hp hc
  have hr := applyFields_rest cfg t (savedFields p.attrs (names p.pdef.defaults))
  have hen : enabledOf (applyFields cfg t (savedFields p.attrs (names p.pdef.defaults))).1 = enabledOf p := by
    simp only [enabledOf, boolAttr, ha]
  refine ⟨(if enabledOf (applyFields cfg t (savedFields p.attrs (names p.pdef.defaults))).1
      then { (applyFields cfg t (savedFields p.attrs (names p.pdef.defaults))).1 with value := (docOf id p).value }
      else (applyFields cfg t (savedFields p.attrs (names p.pdef.defaults))).1), ?_, ?_, ?_, ?_⟩
  · have e1 : restoreOn cfg (some t) (docOf id p) =
        (if ¬ validEntry t (docOf id p).attrs = true then .error .invalidField else
          if ¬ (applyFields cfg t (docOf id p).attrs).2 = true then .error .invalidField else
          .ok (some (if enabledOf (applyFields cfg t (docOf id p).attrs).1
            then { (applyFields cfg t (docOf id p).attrs).1 with value := (docOf id p).value }
            else (applyFields cfg t (docOf id p).attrs).1))) := rfl
    have e2 : (docOf id p).attrs = savedFields p.attrs (names p.pdef.defaults) := rfl
    rw [e1, e2, if_neg (by rw [hv]; simp), if_neg (by rw [hok]; simp)]
  · by_cases he : enabledOf p = true
    · simp only [hen, he, if_true]; exact hr.1.trans hc.pdef
    · simp only [hen, he]; exact hr.1.trans hc.pdef
  · by_cases he : enabledOf p = true
    · simp only [hen, he, if_true]; exact ha
    · simp only [hen, he]; exact ha
  · intro he
    simp only [hen, he, if_true]
    simp only [docOf, he, if_true]

theorem putBody_err_names_entry (cfg : Cfg) (ports : String → Option Port) (docs : List PortDoc) (id : String)
    (e : EntryErr) (h : (putBody cfg ports docs).2 = .err id e) :
    ∃ d ∈ docs, d.id = id ∧ ∃ tgt, restoreOn cfg tgt d = .error e := by
  induction docs generalizing ports with
  | nil => simp [putBody] at h
  | cons d r ih =>
    simp only [putBody] at h
    cases hr : restoreOn cfg (ports d.id) d with
    | error e' =>
      rw [hr] at h
      simp only [PutResp.err.injEq] at h
      exact ⟨d, List.mem_cons_self, h.1, ports d.id, h.2 ▸ hr⟩
    | ok o =>
      rw [hr] at h
      cases o with
      | none =>
        obtain ⟨d', hd, h1, h2⟩ := ih ports h
        exact ⟨d', List.mem_cons_of_mem _ hd, h1, h2⟩
      | some q =>
        obtain ⟨d', hd, h1, h2⟩ := ih _ h
        exact ⟨d', List.mem_cons_of_mem _ hd, h1, h2⟩

/-- entries are processed independently: with distinct ids, an accepted document leaves under every entry's id
exactly what the loop body produced for it from the port that was there when the PUT started -/
theorem putBody_ok_entry (cfg : Cfg) (ports : String → Option Port) (docs : List PortDoc)
    (nd : (docs.map (·.id)).Nodup) (h : (putBody cfg ports docs).2 = .ok) :
    ∀ d ∈ docs, ∃ o, restoreOn cfg (ports d.id) d = .ok o ∧
      (putBody cfg ports docs).1 d.id = (match o with | some q => some q | none => ports d.id) := by
  induction docs generalizing ports with
  | nil => intro d hd; cases hd
  | cons d r ih =>
    simp only [List.map_cons, List.nodup_cons] at nd
    have other : ∀ (pp : String → Option Port) (l : List PortDoc) (x : String),
        x ∉ l.map (·.id) → (putBody cfg pp l).1 x = pp x := by
      intro pp l
      induction l generalizing pp with
      | nil => intro x _; rfl
      | cons a l ihl =>
        intro x hx
        simp only [List.map_cons, List.mem_cons, not_or] at hx
        simp only [putBody]
        cases restoreOn cfg (pp a.id) a with
        | error e => exact upd_other _ _ _ _ hx.1
        | ok o =>
          cases o with
          | none => exact ihl pp x hx.2
          | some q => simp only; rw [ihl _ x hx.2, upd_other _ _ _ _ hx.1]
    intro d' hd'
    simp only [putBody] at h ⊢
    cases hr : restoreOn cfg (ports d.id) d with
    | error e => rw [hr] at h; cases h
    | ok o =>
      rw [hr] at h
      rcases List.mem_cons.mp hd' with rfl | hmem
      · refine ⟨o, hr, ?_⟩
        cases o with
        | none => simp only; exact other ports r d'.id nd.1
        | some q => simp only; rw [other _ r d'.id nd.1, upd_self]
      · have hne : d'.id ≠ d.id := by
          intro e
          exact nd.1 (e ▸ List.mem_map_of_mem (f := (·.id)) hmem)
        cases o with
        | none => exact ih ports nd.2 h d' hmem
        | some q =>
          simp only at h ⊢
          obtain ⟨o', h1, h2⟩ := ih _ nd.2 h d' hmem
          rw [upd_other _ _ _ _ hne] at h1 h2
          exact ⟨o', h1, h2⟩

/-- a document whose entries are all accepted on the ports that were there when the PUT started (distinct ids) is
accepted as a whole -/
theorem putBody_accepts (cfg : Cfg) (src : List (String × Port)) (ports : String → Option Port)
    (nd : (src.map (·.1)).Nodup)
    (h : ∀ x ∈ src, ∃ r, restoreOn cfg (ports x.1) (docOf x.1 x.2) = .ok (some r)) :
    (putBody cfg ports (src.map (fun x => docOf x.1 x.2))).2 = .ok := by
  induction src generalizing ports with
  | nil => rfl
  | cons x r ih =>
    simp only [List.map_cons, List.nodup_cons] at nd
    obtain ⟨q, hq⟩ := h x List.mem_cons_self
    have hid : (docOf x.1 x.2).id = x.1 := rfl
    simp only [List.map_cons, putBody, hid, hq]
    apply ih _ nd.2
    intro y hy
    have hne : y.1 ≠ x.1 := fun e => nd.1 (e ▸ List.mem_map_of_mem (f := (·.1)) hy)
    rw [upd_other _ _ _ _ hne]
    exact h y (List.mem_cons_of_mem _ hy)

theorem firstInvalid_spec (docs : List (Option (String × Slave))) (i j : Nat) (h : firstInvalid docs i = some j) :
    i ≤ j ∧ docs[j - i]? = some none ∧ ∀ m, m < j - i → ∃ x, docs[m]? = some (some x) := by
  induction docs generalizing i with
  | nil => simp [firstInvalid] at h
  | cons d r ih =>
    cases d with
    | none =>
      simp only [firstInvalid, Option.some.injEq] at h
      subst h
      refine ⟨Nat.le_refl _, by simp, ?_⟩
      intro m hm; omega
    | some x =>
      simp only [firstInvalid] at h
      obtain ⟨h1, h2, h3⟩ := ih (i + 1) h
      refine ⟨by omega, ?_, ?_⟩
      · have : j - i = (j - (i + 1)) + 1 := by omega
        rw [this, List.getElem?_cons_succ]; exact h2
      · intro m hm
        cases m with
        | zero => exact ⟨x, by simp⟩
        | succ m =>
          rw [List.getElem?_cons_succ]
          exact h3 m (by omega)

theorem firstInvalid_none (docs : List (Option (String × Slave))) (i : Nat) (h : ∀ d ∈ docs, d ≠ none) :
    firstInvalid docs i = none := by
  induction docs generalizing i with
  | nil => rfl
  | cons d r ih =>
    cases d with
    | none => exact absurd rfl (h none List.mem_cons_self)
    | some x => simp only [firstInvalid]; exact ih (i + 1) (fun d hd => h d (List.mem_cons_of_mem _ hd))

end QtVerif.Backup
