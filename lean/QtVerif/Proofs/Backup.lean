import QtVerif.Model.Backup
import QtVerif.Proofs.Config
/-! Helper lemmas for C20 (backup/restore round-trip). -/
namespace QtVerif.Backup
open QtVerif.Config

theorem applyFields_ok (cfg : Cfg) (t : Port) (fs : Fields)
    (h : ∀ a ∈ fs, Stable cfg a.1 a.2) : (applyFields cfg t fs).2 = true := by
  induction fs generalizing t with
  | nil => rfl
  | cons a r ih =>
    obtain ⟨n, v⟩ := a
    simp only [applyFields]
    have h1 : (setAttr cfg t n v).2 = true := by
      simp only [setAttr]
      cases ht : t.attrs n with
      | none => rfl
      | some old => rw [h (n, v) (List.mem_cons_self) old]
    have h2 := ih (setAttr cfg t n v).1 (fun a ha => h a (List.mem_cons_of_mem _ ha))
    simp [h1, h2]

/-- the target has the same attribute support as the source and attribute values of the same JSON type -/
structure Compatible (t p : Port) : Prop where
  pdef : t.pdef = p.pdef
  support : ∀ n, (t.attrs n).isSome = (p.attrs n).isSome
  types : ∀ n v w, p.attrs n = some v → t.attrs n = some w → sameCtor w v = true

theorem mem_savedFields {attrs : String → Option AVal} {ns : List String} {n : String} {v : AVal}
    (h : (n, v) ∈ savedFields attrs ns) : attrs n = some v := by
  simp only [savedFields, List.mem_filterMap] at h
  obtain ⟨m, _, hm⟩ := h
  cases ha : attrs m with
  | none => rw [ha] at hm; cases hm
  | some w =>
    rw [ha] at hm
    simp only [Option.map_some, Option.some.injEq, Prod.mk.injEq] at hm
    obtain ⟨rfl, rfl⟩ := hm
    exact ha

/-- applying all attributes of `p` (as GET reports them) to a compatible port gives `p`'s attributes -/
theorem apply_doc_attrs (cfg : Cfg) (p t : Port) (hp : WF cfg p) (hc : Compatible t p) :
    (applyFields cfg t (savedFields p.attrs (names p.pdef.defaults))).1.attrs = p.attrs := by
  funext n
  rw [applyFields_attrs, foldAttr_nodup cfg n _ _ (nodup_savedFields _ _ hp.def_wf.1), lookupF_savedFields]
  have hs := hp.support n
  have ht := hc.support n
  by_cases hm : n ∈ names p.pdef.defaults
  · rw [if_pos hm]
    cases hpn : p.attrs n with
    | none =>
      rw [hpn] at ht
      simp only
      cases h : t.attrs n with
      | none => rfl
      | some w => rw [h] at ht; cases ht
    | some v =>
      rw [hpn] at ht
      simp only
      cases h : t.attrs n with
      | none => rw [h] at ht; cases ht
      | some w => rw [hp.stable n v hpn w]
  · rw [if_neg hm]
    simp only
    have hl := lookupF_none_of_not_mem hm
    rw [hl] at hs
    cases hpn : p.attrs n with
    | none =>
      rw [hpn] at ht
      cases h : t.attrs n with
      | none => rfl
      | some w => rw [h] at ht; cases ht
    | some v => rw [hpn] at hs; cases hs

theorem validEntry_doc (p t : Port) (hc : Compatible t p) :
    validEntry t (savedFields p.attrs (names p.pdef.defaults)) = true := by
  simp only [validEntry, List.all_eq_true]
  intro a ha
  obtain ⟨n, v⟩ := a
  have hv := mem_savedFields ha
  simp only
  cases h : t.attrs n with
  | none => rfl
  | some w => exact hc.types n v w hv h

/-- restoring the GET entry of `p` onto a compatible existing port, or onto nothing when `p` is virtual -/
theorem restoreOn_doc (cfg : Cfg) (p t : Port) (id : String) (hp : WF cfg p) (hc : Compatible t p) :
    ∃ r, restoreOn cfg (some t) (docOf id p) = .ok (some r) ∧ r.pdef = p.pdef ∧ r.attrs = p.attrs ∧
      (enabledOf p = true → r.value = p.value) := by
  have hv := validEntry_doc p t hc
  have hok : (applyFields cfg t (savedFields p.attrs (names p.pdef.defaults))).2 = true :=
    applyFields_ok cfg t _ (fun a ha => hp.stable a.1 a.2 (mem_savedFields ha))
  have ha := apply_doc_attrs cfg p t hp hc
  have hr := applyFields_rest cfg t (savedFields p.attrs (names p.pdef.defaults))
  have hen : enabledOf (applyFields cfg t (savedFields p.attrs (names p.pdef.defaults))).1 = enabledOf p := by
    simp only [enabledOf, boolAttr, ha]
  refine ⟨(if enabledOf (applyFields cfg t (savedFields p.attrs (names p.pdef.defaults))).1
      then { (applyFields cfg t (savedFields p.attrs (names p.pdef.defaults))).1 with value := (docOf id p).value }
      else (applyFields cfg t (savedFields p.attrs (names p.pdef.defaults))).1), ?_, ?_, ?_, ?_⟩
  · have e1 : restoreOn cfg (some t) (docOf id p) =
        (if ¬ validEntry t (docOf id p).attrs = true then .error .invalidField else
          if ¬ (applyFields cfg t (docOf id p).attrs).2 = true then .error .invalidField else
          .ok (some (if enabledOf (applyFields cfg t (docOf id p).attrs).1
            then { (applyFields cfg t (docOf id p).attrs).1 with value := (docOf id p).value }
            else (applyFields cfg t (docOf id p).attrs).1))) := rfl
    have e2 : (docOf id p).attrs = savedFields p.attrs (names p.pdef.defaults) := rfl
    rw [e1, e2, if_neg (by rw [hv]; simp), if_neg (by rw [hok]; simp)]
  · by_cases he : enabledOf p = true
    · simp only [hen, he, if_true]; exact hr.1.trans hc.pdef
    · simp only [hen, he]; exact hr.1.trans hc.pdef
  · by_cases he : enabledOf p = true
    · simp only [hen, he, if_true]; exact ha
    · simp only [hen, he]; exact ha
  · intro he
    simp only [hen, he, if_true]
    simp only [docOf, he, if_true]

theorem putBody_err_names_entry (cfg : Cfg) (lc : LoopCheck) (ports : String → Option Port) (docs : List PortDoc)
    (id : String) (e : EntryErr) (h : (putBody cfg lc ports docs).2 = .err id e) :
    ∃ d ∈ docs, d.id = id ∧ ∃ m tgt, restoreChk cfg lc m tgt d = .error e := by
  induction docs generalizing ports with
  | nil => simp [putBody] at h
  | cons d r ih =>
    simp only [putBody] at h
    cases hr : restoreChk cfg lc (exprMap ports) (ports d.id) d with
    | error e' =>
      rw [hr] at h
      simp only [PutResp.err.injEq] at h
      exact ⟨d, List.mem_cons_self, h.1, exprMap ports, ports d.id, h.2 ▸ hr⟩
    | ok o =>
      rw [hr] at h
      cases o with
      | none =>
        obtain ⟨d', hd, h1, h2⟩ := ih ports h
        exact ⟨d', List.mem_cons_of_mem _ hd, h1, h2⟩
      | some q =>
        obtain ⟨d', hd, h1, h2⟩ := ih _ h
        exact ⟨d', List.mem_cons_of_mem _ hd, h1, h2⟩

/-- entries only touch the port registered under their own id -/
theorem putBody_other (cfg : Cfg) (lc : LoopCheck) (ports : String → Option Port) (docs : List PortDoc) (x : String)
    (hx : x ∉ docs.map (·.id)) : (putBody cfg lc ports docs).1 x = ports x := by
  induction docs generalizing ports with
  | nil => rfl
  | cons a l ih =>
    simp only [List.map_cons, List.mem_cons, not_or] at hx
    simp only [putBody]
    cases restoreChk cfg lc (exprMap ports) (ports a.id) a with
    | error e => exact upd_other _ _ _ _ hx.1
    | ok o =>
      cases o with
      | none => exact ih ports hx.2
      | some q => simp only; rw [ih _ hx.2, upd_other _ _ _ _ hx.1]

/-- accepted entries in front of a document: the rest runs on the state they leave -/
theorem putBody_append (cfg : Cfg) (lc : LoopCheck) (ports : String → Option Port) (pre l : List PortDoc)
    (h : (putBody cfg lc ports pre).2 = .ok) :
    putBody cfg lc ports (pre ++ l) = putBody cfg lc (putBody cfg lc ports pre).1 l := by
  induction pre generalizing ports with
  | nil => rfl
  | cons d r ih =>
    simp only [List.cons_append, putBody] at h ⊢
    cases hr : restoreChk cfg lc (exprMap ports) (ports d.id) d with
    | error e => rw [hr] at h; cases h
    | ok o =>
      rw [hr] at h
      cases o with
      | none => exact ih ports h
      | some q => exact ih _ h

/-- **the error names the FIRST failing entry, judged on the ACTUAL intermediate state**: the document splits as
`pre ++ d :: post`, the whole prefix `pre` is accepted from the start state, and `d` is refused by the loop body run on
exactly the ports (and the expressions they carry) that `pre` left behind; what remains registered is that state plus
the port the creation step of `d` added -/
theorem putBody_first_failing (cfg : Cfg) (lc : LoopCheck) (ports : String → Option Port) (docs : List PortDoc)
    (id : String) (e : EntryErr) (h : (putBody cfg lc ports docs).2 = .err id e) :
    ∃ pre d post, docs = pre ++ d :: post ∧ d.id = id ∧ (putBody cfg lc ports pre).2 = .ok ∧
      restoreChk cfg lc (exprMap (putBody cfg lc ports pre).1) ((putBody cfg lc ports pre).1 d.id) d = .error e ∧
      (putBody cfg lc ports docs).1 =
        upd (putBody cfg lc ports pre).1 d.id (createdFor cfg ((putBody cfg lc ports pre).1 d.id) d) := by
  induction docs generalizing ports with
  | nil => simp [putBody] at h
  | cons d r ih =>
    cases hr : restoreChk cfg lc (exprMap ports) (ports d.id) d with
    | error e' =>
      simp only [putBody, hr, PutResp.err.injEq] at h
      refine ⟨[], d, r, rfl, h.1, rfl, ?_, ?_⟩
      · simp only [putBody]; exact h.2 ▸ hr
      · simp only [putBody, hr]
    | ok o =>
      cases o with
      | none =>
        have h' : (putBody cfg lc ports r).2 = .err id e := by simpa only [putBody, hr] using h
        obtain ⟨pre, d', post, e1, e2, e3, e4, e5⟩ := ih ports h'
        have hp : putBody cfg lc ports (d :: pre) = putBody cfg lc ports pre := by simp only [putBody, hr]
        refine ⟨d :: pre, d', post, by rw [e1]; rfl, e2, ?_, ?_, ?_⟩
        · rw [hp]; exact e3
        · rw [hp]; exact e4
        · rw [hp, ← e5]; simp only [putBody, hr]
      | some q =>
        have h' : (putBody cfg lc (upd ports d.id (some q)) r).2 = .err id e := by simpa only [putBody, hr] using h
        obtain ⟨pre, d', post, e1, e2, e3, e4, e5⟩ := ih _ h'
        have hp : putBody cfg lc ports (d :: pre) = putBody cfg lc (upd ports d.id (some q)) pre := by
          simp only [putBody, hr]
        refine ⟨d :: pre, d', post, by rw [e1]; rfl, e2, ?_, ?_, ?_⟩
        · rw [hp]; exact e3
        · rw [hp]; exact e4
        · rw [hp, ← e5]; simp only [putBody, hr]

/-- what the reset phase leaves is never a virtual port -/
theorem startPort_not_virtual (c : Bool) (b : Option Port) (q : Port) (h : startPort c b = some q) :
    q.pdef.virtual = false := by
  unfold startPort afterReset at h
  cases b with
  | none => cases h
  | some p =>
    simp only at h
    cases hv : p.pdef.virtual with
    | true => rw [hv] at h; cases h
    | false =>
      rw [hv] at h
      simp only [Bool.false_eq_true, if_false, Option.map_some, Option.some.injEq] at h
      subst h
      cases c <;> simpa [clearExpr] using hv

/-- the reset phase, case by case: a virtual port of the target is gone, a missing port stays missing, any other port
stays registered with its expression cleared (repaired code) and nothing else touched (`port.reset()` =
`load_from_data({})` applies no attribute) -/
theorem startPort_cases (c : Bool) (b : Option Port) :
    (b = none → startPort c b = none) ∧
    (∀ p, b = some p → p.pdef.virtual = true → startPort c b = none) ∧
    (∀ p, b = some p → p.pdef.virtual = false → startPort c b = some (clearExpr c p)) := by
  refine ⟨fun h => by subst h; rfl, fun p h hv => ?_, fun p h hv => ?_⟩
  · subst h; simp [startPort, afterReset, hv]
  · subst h; simp [startPort, afterReset, hv]

/-- GET /ports over an enumeration `ids` of port ids (the registry is a function here): the entries of the registered
ports among `ids`, in that order -/
def getPorts (ports : String → Option Port) (ids : List String) : List PortDoc :=
  ids.filterMap (fun id => (ports id).map (docOf id))

/-- the source hub's registry, from the list of its ports -/
def srcPorts (src : List (String × Port)) : String → Option Port :=
  fun id => (src.find? (fun x => x.1 = id)).map (·.2)

/-- GET reports the same entry for two ports with the same definition, attributes and (if enabled) value -/
theorem docOf_congr (id : String) (r p : Port) (h1 : r.pdef = p.pdef) (h2 : r.attrs = p.attrs)
    (h3 : enabledOf p = true → r.value = p.value) : docOf id r = docOf id p := by
  have he : enabledOf r = enabledOf p := by simp only [enabledOf, boolAttr, h2]
  simp only [docOf, h1, h2, he]
  cases hp : enabledOf p with
  | false => rfl
  | true => simp [h3 hp]

theorem filterMap_map_of_forall {α β γ : Type} (l : List α) (g : α → β) (f : β → Option γ) (k : α → γ)
    (h : ∀ x ∈ l, f (g x) = some (k x)) : (l.map g).filterMap f = l.map k := by
  induction l with
  | nil => rfl
  | cons a r ih =>
    simp only [List.map_cons, List.filterMap_cons, h a List.mem_cons_self]
    rw [ih (fun x hx => h x (List.mem_cons_of_mem _ hx))]

theorem find_none_of_not_mem (src : List (String × Port)) (id : String) (h : id ∉ src.map (·.1)) :
    src.find? (fun x => x.1 = id) = none := by
  induction src with
  | nil => rfl
  | cons a r ih =>
    simp only [List.map_cons, List.mem_cons, not_or] at h
    simp only [List.find?_cons]
    have : ¬ a.1 = id := fun e => h.1 e.symm
    simp only [this, decide_false]
    exact ih h.2

/-- the expressions the hub carries are "below" the source's: every port has no expression or the source's -/
def Below (S m : String → String) : Prop := ∀ id, m id = "" ∨ m id = S id

theorem exprText_congr (p q : Port) (h : p.attrs = q.attrs) : exprText (some p) = exprText (some q) := by
  simp only [exprText, h]

/-- the whole document: if every entry is accepted on the port registered under its id at the start, whatever
expressions below the source's the other ports carry, then the document is accepted and every entry's port ends up as
the loop body produced it (distinct ids: later entries do not touch it) -/
theorem putBody_roundtrip (cfg : Cfg) (lc : LoopCheck) (S : String → String) (src : List (String × Port))
    (ports : String → Option Port) (nd : (src.map (·.1)).Nodup)
    (hb : Below S (exprMap ports))
    (hS : ∀ x ∈ src, S x.1 = exprText (some x.2))
    (hstep : ∀ x ∈ src, ∀ m, Below S m → ∃ r, restoreChk cfg lc m (ports x.1) (docOf x.1 x.2) = .ok (some r) ∧
      r.pdef = x.2.pdef ∧ r.attrs = x.2.attrs ∧ (enabledOf x.2 = true → r.value = x.2.value)) :
    (putBody cfg lc ports (src.map (fun x => docOf x.1 x.2))).2 = .ok ∧
    ∀ x ∈ src, ∃ r, (putBody cfg lc ports (src.map (fun x => docOf x.1 x.2))).1 x.1 = some r ∧
      r.pdef = x.2.pdef ∧ r.attrs = x.2.attrs ∧ (enabledOf x.2 = true → r.value = x.2.value) := by
  induction src generalizing ports with
  | nil => exact ⟨rfl, fun x hx => by cases hx⟩
  | cons x rest ih =>
    simp only [List.map_cons, List.nodup_cons] at nd
    obtain ⟨r, hr, h1, h2, h3⟩ := hstep x List.mem_cons_self (exprMap ports) hb
    have hid : (docOf x.1 x.2).id = x.1 := rfl
    have hne : ∀ y ∈ rest, y.1 ≠ x.1 := fun y hy e => nd.1 (e ▸ List.mem_map_of_mem (f := (·.1)) hy)
    have hb' : Below S (exprMap (upd ports x.1 (some r))) := by
      intro id
      by_cases e : id = x.1
      · subst e
        right
        simp only [exprMap, upd_self]
        rw [exprText_congr r x.2 h2]
        exact (hS x List.mem_cons_self).symm
      · simp only [exprMap, upd_other _ _ _ _ e]
        exact hb id
    have ih' := ih (upd ports x.1 (some r)) nd.2 hb' (fun y hy => hS y (List.mem_cons_of_mem _ hy))
      (fun y hy m hm => by
        rw [upd_other _ _ _ _ (hne y hy)]
        exact hstep y (List.mem_cons_of_mem _ hy) m hm)
    simp only [List.map_cons, putBody, hid, hr]
    refine ⟨ih'.1, ?_⟩
    intro y hy
    rcases List.mem_cons.mp hy with rfl | hm
    · refine ⟨r, ?_, h1, h2, h3⟩
      rw [putBody_other cfg lc _ _ y.1 (by rw [List.map_map]; exact nd.1), upd_self]
    · exact ih'.2 y hm

theorem loopRefused_false (cfg : Cfg) (lc : LoopCheck) (m : String → String) (target : Option Port) (d : PortDoc)
    (hl : ∀ c, entryExpr cfg d = some c → lc m d.id c = false) : loopRefused cfg lc m target d = false := by
  unfold loopRefused
  cases createdFor cfg target d with
  | none => rfl
  | some p =>
    simp only
    cases h : entryExpr cfg d with
    | none => simp
    | some c => simp [hl c h]

theorem restoreChk_doc (cfg : Cfg) (lc : LoopCheck) (m : String → String) (p t : Port) (id : String) (hp : WF cfg p)
    (hc : Compatible t p) (hl : ∀ c, entryExpr cfg (docOf id p) = some c → lc m id c = false) :
    ∃ r, restoreChk cfg lc m (some t) (docOf id p) = .ok (some r) ∧ r.pdef = p.pdef ∧ r.attrs = p.attrs ∧
      (enabledOf p = true → r.value = p.value) := by
  unfold restoreChk
  rw [loopRefused_false cfg lc m (some t) (docOf id p) hl]
  exact restoreOn_doc cfg p t id hp hc

theorem exprText_startPort_true (b : Option Port) : exprText (startPort true b) = "" := by
  unfold startPort
  cases afterReset b with
  | none => rfl
  | some p =>
    simp only [Option.map_some, exprText, clearExpr, if_true]
    cases p.attrs "expression" <;> rfl

theorem find_of_nodup (src : List (String × Port)) (nd : (src.map (·.1)).Nodup) (x : String × Port) (hx : x ∈ src) :
    src.find? (fun y => y.1 = x.1) = some x := by
  induction src with
  | nil => cases hx
  | cons a r ih =>
    simp only [List.map_cons, List.nodup_cons] at nd
    simp only [List.find?_cons]
    rcases List.mem_cons.mp hx with rfl | hm
    · simp
    · have : a.1 ≠ x.1 := fun e => nd.1 (e ▸ List.mem_map_of_mem (f := (·.1)) hm)
      simp only [this, decide_false]
      exact ih nd.2 hm

/-- a loop check is monotone when removing expressions cannot create a loop -/
def Mono (lc : LoopCheck) : Prop :=
  ∀ m m' id c, (∀ x, m x = "" ∨ m x = m' x) → lc m' id c = false → lc m id c = false

theorem reach_mono (refs : String → List String) (hr : refs "" = []) (m m' : String → String) (t : String)
    (hm : ∀ x, m x = "" ∨ m x = m' x) (f : Nat) (fr : List String)
    (h : reach refs m t f fr = true) : reach refs m' t f fr = true := by
  induction f generalizing fr with
  | zero => simp [reach] at h
  | succ f ih =>
    simp only [reach, List.any_eq_true, Bool.or_eq_true] at h ⊢
    obtain ⟨x, hx, hor⟩ := h
    refine ⟨x, hx, ?_⟩
    rcases hm x with e | e
    · rw [e, hr] at hor
      rcases hor with h1 | h1
      · simp at h1
      · cases f with
        | zero => simp [reach] at h1
        | succ g => simp [reach] at h1
    · rw [← e]
      rcases hor with h1 | h1
      · exact Or.inl h1
      · exact Or.inr (ih _ h1)

theorem mono_loopsWith (refs : String → List String) (hr : refs "" = []) (fuel : Nat) : Mono (loopsWith refs fuel) := by
  intro m m' id c hm h
  unfold loopsWith at h ⊢
  cases hq : reach refs m id fuel ((refs c).filter (fun x => x != id)) with
  | false => rfl
  | true => rw [reach_mono refs hr m m' id hm fuel _ hq] at h; cases h

theorem firstInvalid_spec (docs : List (Option (String × Slave))) (i j : Nat) (h : firstInvalid docs i = some j) :
    i ≤ j ∧ docs[j - i]? = some none ∧ ∀ m, m < j - i → ∃ x, docs[m]? = some (some x) := by
  induction docs generalizing i with
  | nil => simp [firstInvalid] at h
  | cons d r ih =>
    cases d with
    | none =>
      simp only [firstInvalid, Option.some.injEq] at h
      subst h
      refine ⟨Nat.le_refl _, by simp, ?_⟩
      intro m hm; omega
    | some x =>
      simp only [firstInvalid] at h
      obtain ⟨h1, h2, h3⟩ := ih (i + 1) h
      refine ⟨by omega, ?_, ?_⟩
      · have : j - i = (j - (i + 1)) + 1 := by omega
        rw [this, List.getElem?_cons_succ]; exact h2
      · intro m hm
        cases m with
        | zero => exact ⟨x, by simp⟩
        | succ m =>
          rw [List.getElem?_cons_succ]
          exact h3 m (by omega)

theorem firstInvalid_none (docs : List (Option (String × Slave))) (i : Nat) (h : ∀ d ∈ docs, d ≠ none) :
    firstInvalid docs i = none := by
  induction docs generalizing i with
  | nil => rfl
  | cons d r ih =>
    cases d with
    | none => exact absurd rfl (h none List.mem_cons_self)
    | some x => simp only [firstInvalid]; exact ih (i + 1) (fun d hd => h d (List.mem_cons_of_mem _ hd))

end QtVerif.Backup
