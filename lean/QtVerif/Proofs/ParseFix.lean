import QtVerif.Proofs.ParseSound
/-! Printing well-formed trees, well-formedness of accepted trees, error kinds (fuel is never exhausted, the
`empty` reason, the decision taken for a call with fine arguments). Helper lemmas for C03. -/
set_option linter.unusedSimpArgs false
namespace QtVerif.Parse
open QtVerif.Syntax

/-! ### printing a well-formed tree gives a text of the grammar -/

theorem size_pos (e : Expr) : 0 < e.size := by
  cases e <;> simp [Expr.size] <;> omega

theorem print_call (n : String) (args : List Expr) :
    (Expr.call n args).print.toList = n.toList ++ '(' :: (printArgs args).toList ++ [')'] := by
  simp [Expr.print, String.toList_append]

theorem printArgs_cons2 (a b : Expr) (r : List Expr) :
    (printArgs (a :: b :: r)).toList = a.print.toList ++ ',' :: ' ' :: (printArgs (b :: r)).toList := by
  simp [printArgs, String.toList_append]

theorem printArgs_one (a : Expr) : (printArgs [a]).toList = a.print.toList := by simp [printArgs]

theorem dargs_print (env : Env) (n : Nat)
    (hIH : ∀ a : Expr, a.size < n → WF env a → Core env a a.print.toList) :
    ∀ (args : List Expr), sizeArgs args < n → WFArgs env args → args ≠ [] → ∀ ws, AllSpace ws →
      DArgs env args (ws ++ (printArgs args).toList) := by
  intro args
  induction args with
  | nil => intro _ _ h; exact absurd rfl h
  | cons a r ih =>
    intro hsz hwf _ ws hws
    rw [WFArgs] at hwf
    rw [sizeArgs] at hsz
    have ha : Core env a a.print.toList := hIH a (by omega) hwf.1
    cases r with
    | nil =>
      rw [DArgs, printArgs_one]
      exact ⟨ws, a.print.toList, [], by simp, hws, allSpace_nil, ha⟩
    | cons b r' =>
      rw [DArgs, printArgs_cons2]
      refine ⟨ws ++ a.print.toList, ' ' :: (printArgs (b :: r')).toList, by simp,
        ⟨ws, a.print.toList, [], by simp, hws, allSpace_nil, ha⟩, ?_⟩
      have := ih (by have := size_pos a; omega) hwf.2 (by simp) [' '] (by intro c hc; simp at hc; subst hc; decide)
      simpa using this

theorem core_print (env : Env) : ∀ (n : Nat) (e : Expr), e.size < n → WF env e → Core env e e.print.toList := by
  intro n
  induction n with
  | zero => intro e h; omega
  | succ n ih =>
    intro e hsz hwf
    cases e with
    | lit t => rw [WF] at hwf; rw [Core]; exact ⟨by simp [Expr.print], by simpa [Expr.print] using hwf⟩
    | portVal id =>
      rw [WF] at hwf; rw [Core]
      exact ⟨by simp [Expr.print, String.toList_append], hwf⟩
    | selfVal => rw [Core]; simp [Expr.print]
    | portRef id =>
      rw [WF] at hwf; rw [Core]
      exact ⟨by simp [Expr.print, String.toList_append], hwf⟩
    | selfRef => rw [Core]; simp [Expr.print]
    | call nm args =>
      rw [WF] at hwf
      obtain ⟨f, hl, hcn, hen, hnt, har, hk, hwa⟩ := hwf
      rw [Expr.size] at hsz
      rw [Core, print_call]
      refine ⟨f, nm.toList, [], (printArgs args).toList, by simp, hnt, allSpace_nil, fun _ => rfl, hl, hen,
        by rw [hcn]; simp, har, hk, ?_⟩
      by_cases hne : args = []
      · subst hne; rw [DArgs]; simp [printArgs]
      · have := dargs_print env n ih args (by omega) hwa hne [] allSpace_nil
        simpa using this

theorem derives_print (env : Env) {e : Expr} (h : WF env e) : Derives env e e.print.toList :=
  ⟨[], e.print.toList, [], by simp, allSpace_nil, allSpace_nil, core_print env (e.size + 1) e (by omega) h⟩

/-! ### what the parser accepts is well-formed (for a registry whose printed names are its keys) -/

theorem wfArgs_of_all2 (env : Env) {args : List Expr} {ts : List (List Char)}
    (h : All2 (fun e (_ : List Char) => WF env e) args ts) : WFArgs env args := by
  induction h with
  | nil => rw [WFArgs]; trivial
  | cons h1 _ ih => rw [WFArgs]; exact ⟨h1, ih⟩

theorem derives_wf (env : Env) (hreg : RegCanonical env.reg) : ∀ (n : Nat) (e : Expr) (s : List Char),
    s.length < n → Derives env e s → WF env e := by
  intro n
  induction n with
  | zero => intro e s h; omega
  | succ n ih =>
    intro e s hlen h
    obtain ⟨ws1, core, ws2, rfl, h1, h2, hc⟩ := h
    cases e with
    | lit t => rw [Core] at hc; rw [WF]; obtain ⟨rfl, hl⟩ := hc; exact hl
    | portVal id => rw [Core] at hc; rw [WF]; exact hc.2
    | selfVal => rw [WF]; trivial
    | portRef id => rw [Core] at hc; rw [WF]; exact hc.2
    | selfRef => rw [WF]; trivial
    | call nm args =>
      rw [Core] at hc
      obtain ⟨f, fname, ws, body, rfl, hn, hws, hfw, hl, hen, rfl, har, hk, hd⟩ := hc
      obtain ⟨g, hg, hgc, hge, hgn, hmin, hmax, hkinds⟩ := hreg fname f hl hen
      obtain ⟨ts, rfl, hf⟩ := dargs_texts env args body hd
      rw [WF]
      refine ⟨g, by simpa using hg, by simpa using hgc, hge, by simpa using hgn, ?_, by rw [hkinds]; exact hk, ?_⟩
      · simpa [ArityOK, tooFew, tooMany, hmin, hmax] using har
      · apply wfArgs_of_all2 env (ts := ts)
        refine all2_imp hf ?_
        intro a _ t ht hder
        have := mem_joinC_length ht
        simp only [List.length_append, List.length_cons] at hlen
        exact ih a t (by omega) hder

/-! ### error kinds -/

theorem step_err_kind {pos : Nat} {st : ScanSt} {c : Char} {er : Err} (h : step pos st c = .error er) :
    er.kind = .unexpectedChar ∨ er.kind = .unbalanced := by
  unfold step at h
  repeat' split at h
  all_goals first | (cases h; simp) | cases h

theorem scanLoop_err_kind {pos : Nat} : ∀ (s : List Char) {st : ScanSt} {er : Err},
    scanLoop pos st s = .error er → er.kind = .unexpectedChar ∨ er.kind = .unbalanced := by
  intro s
  induction s with
  | nil => intro st er h; simp [scanLoop] at h
  | cons c cs ih =>
    intro st er h
    simp only [scanLoop] at h
    cases hs : step pos st c with
    | error e => rw [hs] at h; cases h; exact step_err_kind hs
    | ok st' => rw [hs] at h; exact ih h

theorem finish_err_kind {pos : Nat} {st : ScanSt} {er : Err} (h : finish pos st = .error er) :
    er.kind = .unexpectedChar ∨ er.kind = .unexpectedEnd := by
  unfold finish at h
  repeat' split at h
  all_goals first | (cases h; simp) | cases h

theorem scan_err_kind {pos : Nat} {s : List Char} {er : Err} (h : scan pos s = .error er) :
    er.kind = .unexpectedChar ∨ er.kind = .unbalanced ∨ er.kind = .unexpectedEnd := by
  unfold scan at h
  cases hl : scanLoop pos {} s with
  | error e => rw [hl] at h; cases h; rcases scanLoop_err_kind s hl with h | h <;> simp [h]
  | ok st =>
    rw [hl] at h
    rcases finish_err_kind h with h | h <;> simp [h]

theorem mapArgs_err {f : Nat → List Char → Except Err Expr} : ∀ {sargs : List (List Char × Nat)} {er : Err},
    mapArgs f sargs = .error er → ∃ a ∈ sargs, f a.2 a.1 = .error er := by
  intro sargs
  induction sargs with
  | nil => intro er h; simp [mapArgs] at h
  | cons a r ih =>
    intro er h
    rcases a with ⟨a, sp⟩
    simp only [mapArgs] at h
    cases h1 : f sp a with
    | error e => rw [h1] at h; cases h; exact ⟨(a, sp), List.mem_cons_self, h1⟩
    | ok x =>
      rw [h1] at h; simp only at h
      cases h2 : mapArgs f r with
      | error e =>
        rw [h2] at h; cases h
        obtain ⟨b, hb, hf⟩ := ih h2
        exact ⟨b, List.mem_cons_of_mem _ hb, hf⟩
      | ok xs => rw [h2] at h; cases h

theorem trim_length_le (s : List Char) : (trim s).length ≤ s.length := by
  obtain ⟨w1, w2, -, -, hs, -⟩ := trim_decomp s
  have := congrArg List.length hs
  simp only [List.length_append] at this
  omega

/-- An error of `parseCall` is an error of the scanner, of the name/registry/arity/kind checks, or the error
of the recursive parse of an argument text that is not blank and strictly shorter than the text. -/
theorem parseCall_err (env : Env) (rec : Nat → List Char → Except Err Expr) {pos : Nat} {s : List Char} {er : Err}
    (h : parseCall env rec pos s = .error er) :
    (er.kind = .unexpectedChar ∨ er.kind = .unbalanced ∨ er.kind = .unexpectedEnd ∨ er.kind = .unknownFunction ∨
      er.kind = .invalidArgNum ∨ er.kind = .invalidArgKind) ∨
    ∃ p a, a.length < s.length ∧ trim a ≠ [] ∧ rec p a = .error er := by
  simp only [parseCall] at h
  cases hsc : scan (pos + lead s) (trim s) with
  | error e =>
    rw [hsc] at h; cases h
    rcases scan_err_kind hsc with h | h | h <;> simp [h]
  | ok res =>
    rcases res with ⟨rawName, sargs⟩
    rw [hsc] at h; simp only at h
    obtain ⟨tail, -, hcore, hnb⟩ := scan_decomp hsc
    split at h
    · cases h; simp
    · split at h
      · cases h; simp
      · split at h
        · cases h; simp
        · split at h
          · cases h; simp
          · split at h
            · cases h; simp
            · split at h
              · rename_i e hma
                cases h
                right
                obtain ⟨a, ha, hf⟩ := mapArgs_err hma
                refine ⟨_, a.1, ?_, hnb a ha, hf⟩
                have h1 : a.1 ∈ sargs.map Prod.fst := List.mem_map.mpr ⟨a, ha, rfl⟩
                have h2 := mem_joinC_length h1
                have h3 := trim_length_le s
                have h4 := congrArg List.length hcore
                simp only [List.length_append, List.length_cons] at h4
                omega
              · split at h
                · cases h; simp
                · cases h

theorem parsePort_err_kind {pos : Nat} {s : List Char} {er : Err} (h : parsePort pos s = .error er) :
    er.kind = .unexpectedChar ∨ er.kind = .crash := by
  simp only [parsePort] at h
  repeat' split at h
  all_goals first | (cases h; simp) | cases h

theorem parseLiteral_err_kind {env : Env} {pos : Nat} {s : List Char} {er : Err}
    (h : parseLiteral env pos s = .error er) :
    er.kind = .unexpectedChar ∨ er.kind = .crash ∨ (er.kind = .empty ∧ trim s = []) := by
  simp only [parseLiteral] at h
  split at h
  · rename_i he; cases h; right; right; exact ⟨rfl, by simpa using he⟩
  · repeat' split at h
    all_goals first | (cases h; simp) | cases h

/-- The model never runs out of fuel, and `EmptyExpression` is reported only for blank texts. -/
theorem err_aux (env : Env) : ∀ (n pos : Nat) (s : List Char) (er : Err), s.length < n →
    parseFuel env n pos s = .error er → er.kind ≠ .fuel ∧ (er.kind = .empty → trim s = []) := by
  intro n
  induction n with
  | zero => intro pos s er h; omega
  | succ n ih =>
    intro pos s er hlen h
    rw [parseFuel_succ] at h
    split at h
    · rcases parsePort_err_kind h with h | h <;> simp [h]
    · split at h
      · rcases parseCall_err env _ h with h | ⟨p, a, hla, hnb, hrec⟩
        · rcases h with h | h | h | h | h | h <;> simp [h]
        · have h3 := trim_length_le s
          have := ih p a er (by omega) hrec
          exact ⟨this.1, fun he => absurd (this.2 he) hnb⟩
      · rcases parseLiteral_err_kind h with h | h | ⟨h, ht⟩
        · simp [h]
        · simp [h]
        · refine ⟨by simp [h], fun _ => ?_⟩
          have : trim (trim s) = trim s := trim_tight (trim_decomp s).choose_spec.choose_spec.2.2.2
          rw [this] at ht; exact ht

/-! ### the documented cause of each rejection of a call whose arguments are fine -/

/-- the outcome with the error reduced to its reason -/
def outcomeKind (r : Except Err Expr) : Except ErrKind Expr :=
  match r with
  | .ok e => .ok e
  | .error er => .error er.kind

/-- what `Function.parse` decides once the text has the shape `NAME ws ( t₁ , … , tₙ )` and the `tᵢ` parse to `args` -/
def callDecision (env : Env) (fname : List Char) (args : List Expr) : Except ErrKind Expr :=
  match lookup env.reg fname with
  | none => .error .unknownFunction
  | some f =>
    if !f.enabled then .error .unknownFunction
    else if tooFew f args.length || tooMany f args.length then .error .invalidArgNum
    else match firstBadKind f.kinds 0 args with
      | some _ => .error .invalidArgKind
      | none => .ok (.call (String.ofList f.canon) args)

theorem call_decision (env : Env) (rec : Nat → List Char → Except Err Expr) (pos : Nat)
    {fname ws : List Char} {ts : List (List Char)} {args : List Expr}
    (hn : NameText fname) (hws : AllSpace ws) (hfw : fname = [] → ws = [])
    (hts : All2 (fun e t => Bal false t ∧ trim t ≠ [] ∧ ∀ p, rec p t = .ok e) args ts) :
    outcomeKind (parseCall env rec pos (fname ++ ws ++ '(' :: joinC ts ++ [')'])) = callDecision env fname args := by
  have hcore : Tight (fname ++ ws ++ '(' :: joinC ts ++ [')']) := by
    constructor
    · intro c hc
      cases fname with
      | nil => rw [hfw rfl] at hc; simp at hc; subst hc; decide
      | cons a r => simp at hc; subst hc; exact nameChar_not_space (hn _ List.mem_cons_self)
    · intro c hc
      have h0 : ∀ l : List Char, (l ++ [')']).getLast? = some ')' := fun l => by simp
      have : (fname ++ ws ++ '(' :: joinC ts ++ [')']).getLast? = some ')' := by
        simpa using h0 (fname ++ ws ++ '(' :: joinC ts)
      rw [this] at hc; cases hc; decide
  have hhd : ∀ c ∈ fname ++ ws, c ≠ '(' ∧ c ≠ ')' := by
    intro c hc
    have : isSpecial c = false := by
      rcases List.mem_append.mp hc with h | h
      · exact nameChar_not_special (hn c h)
      · exact space_not_special (hws c h)
    exact ⟨(noPC_of_not_special this).1, (noPC_of_not_special this).2.1⟩
  have hb : ∀ t ∈ ts, Bal false t ∧ trim t ≠ [] := by
    intro t ht
    obtain ⟨a, -, h1, h2, -⟩ := forall2_right_mem hts t ht
    exact ⟨h1, h2⟩
  obtain ⟨sargs, hscan, hmap⟩ := scan_call (pos + lead (fname ++ ws ++ '(' :: joinC ts ++ [')'])) (fname ++ ws) ts hhd hb
  have htr : trim (fname ++ ws) = fname := by
    have := trim_wrap (ws1 := []) allSpace_nil hws
      (tight_of_noSpace (s := fname) (fun c hc => nameChar_not_space (hn c hc)))
    simpa using this
  have hlen : sargs.length = args.length := by
    have := all2_length hts
    rw [← hmap] at this; simp at this; omega
  have hmapargs : mapArgs (fun sp a => rec (pos + lead (fname ++ ws ++ '(' :: joinC ts ++ [')']) + sp) a) sargs
      = .ok args := by
    apply mapArgs_of_forall2
    rw [← hmap] at hts
    have h3 := all2_of_map_left (R := fun t e => Bal false t ∧ trim t ≠ [] ∧ ∀ p, rec p t = .ok e)
      Prod.fst (all2_flip hts)
    exact all2_imp h3 (fun a _ e _ h => h.2.2 _)
  unfold parseCall callDecision
  simp only [trim_tight hcore]
  rw [hscan]
  simp only [htr, firstNot_none hn, hlen, hmapargs]
  cases hl : lookup env.reg fname with
  | none => simp [outcomeKind]
  | some f =>
    simp only
    cases f.enabled with
    | false => simp [outcomeKind]
    | true =>
      cases tooFew f args.length with
      | true => simp [outcomeKind]
      | false =>
        cases tooMany f args.length with
        | true => simp [outcomeKind]
        | false =>
          cases firstBadKind f.kinds 0 args with
          | none => simp [outcomeKind]
          | some i => simp [outcomeKind]

end QtVerif.Parse
