import QtVerif.Proofs.HistoryApi
/-!
Helper lemmas for property C18, third part: operations that overlap at their single await point (a by-timestamp query
suspended in its persistence call while removals / recordings / other queries run, a removal suspended between its
cache invalidation and its persistence call).  Core Lean only.
-/
set_option autoImplicit false
namespace QtVerif.History


theorem foldl_preserves_mem (P : State → Prop) (g : State → Nat → State) (ids : List Nat)
    (h : ∀ s pid, pid ∈ ids → P s → P (g s pid)) (st : State) (h0 : P st) : P (ids.foldl g st) := by
  induction ids generalizing st with
  | nil => exact h0
  | cons a l ih =>
    exact ih (fun s pid hp => h s pid (List.mem_cons_of_mem _ hp)) _ (h _ _ List.mem_cons_self h0)

/-- What an atomic operation leaves alone for a port whose cache dict it does not pop: the answers for timestamps
before the clock, and every port's type. -/
structure Untouched (st st1 : State) (pid : Nat) (T : Int) : Prop where
  ptype : ∀ q, ptypeOf st1 q = ptypeOf st q
  newest : ∀ t, t < T → newestLE st1.store pid t = newestLE st.store pid t

theorem Untouched.refl (st : State) (pid : Nat) (T : Int) : Untouched st st pid T := ⟨fun _ => rfl, fun _ _ => rfl⟩

theorem Untouched.trans {a b c : State} {pid : Nat} {T : Int} (h1 : Untouched a b pid T) (h2 : Untouched b c pid T) :
    Untouched a c pid T :=
  ⟨fun q => (h2.ptype q).trans (h1.ptype q), fun t ht => (h2.newest t ht).trans (h1.newest t ht)⟩

theorem Benign.untouched {st st1 : State} {now : Int} (b : Benign st st1 now) (pid : Nat) (T : Int) (hT : T ≤ now) :
    Untouched st st1 pid T := by
  refine ⟨b.ptype, ?_⟩
  intro t ht
  rcases b.store with hs | ⟨s, hs, hts⟩
  · rw [hs]
  · rw [hs, newestLE_append_later _ _ _ _ (by omega)]

theorem hRemove_untouched (st : State) (pids : List Nat) (frm to : Option Int) (pid : Nat) (T : Int)
    (hne : pids ≠ []) (hp : pid ∉ pids) : Untouched st (hRemove st pids frm to) pid T :=
  ⟨fun _ => rfl, fun t _ => newestLE_remove_other st.store pids frm to pid t hne hp⟩

theorem janitorTick_untouched (cfg : Cfg) (st : State) (now : Int) (pid : Nat) (T : Int)
    (hp : pid ∉ popped cfg st (.tick now)) :
    Untouched st (janitorTick cfg st now) pid T ∧ (janitorTick cfg st now).ports = st.ports := by
  unfold janitorTick
  by_cases hn : ¬ now > cfg.oldLimit
  · rw [if_pos hn]; exact ⟨Untouched.refl _ _ _, rfl⟩
  · rw [if_neg hn]
    simp only [popped, if_neg hn] at hp
    apply foldl_preserves_mem (fun s => Untouched st s pid T ∧ s.ports = st.ports) _ _ _ _ ⟨Untouched.refl _ _ _, rfl⟩
    intro s id hid ⟨hu, hports⟩
    have hf : findPort s id = findPort st id := findPort_congr st s hports id
    rw [hf]
    cases hfp : findPort st id with
    | none => exact ⟨hu, hports⟩
    | some p =>
      simp only [janitorPort]
      by_cases hr : p.retention ≤ 0
      · rw [if_pos hr]; exact ⟨hu, hports⟩
      · rw [if_neg hr]
        have hpid : p.id = id := findPort_id st id p hfp
        have hne : pid ≠ id := by
          intro he
          apply hp
          rw [List.mem_filter]
          refine ⟨he ▸ hid, ?_⟩
          rw [he, hfp]
          simp only [decide_eq_true_eq]; omega
        refine ⟨hu.trans (hRemove_untouched s [p.id] _ _ pid T (by simp) ?_), hports⟩
        rw [hpid]; simpa using hne

theorem samplerTick_untouched (cfg : Cfg) (st : State) (now : Int) (pid : Nat) (T : Int) (hT : T ≤ now) :
    Untouched st (samplerTick cfg st now) pid T := by
  unfold samplerTick
  split
  · exact Untouched.refl _ _ _
  · apply foldl_preserves (fun s => Untouched st s pid T) _ _ _ _ (Untouched.refl _ _ _)
    intro s id hs
    cases hf : findPort s id with
    | none => exact hs
    | some p =>
      have hid := findPort_id s id p hf
      exact hs.trans ((samplePort_benign s p (by rw [hid]; exact hf) now).untouched pid T hT)

/-- An atomic operation does not touch the answers (for past timestamps) of a port whose dict it does not pop. -/
theorem step_untouched (cfg : Cfg) (st : State) (T : Int) (op : Op) (hop : opOK T op) (pid : Nat)
    (hp : pid ∉ popped cfg st op) : Untouched st (step cfg st op).1 pid T := by
  cases op with
  | range p frm to limit desc => exact Untouched.refl _ _ _
  | byTs p now tss =>
    have s1 := hByTs_store cfg st p (ptypeOf st p) now tss
    exact ⟨fun q => ptypeOf_congr _ _ s1.2 q, fun t _ => by
      show newestLE (hByTs cfg st p (ptypeOf st p) now tss).1.store pid t = _
      rw [s1.1]⟩
  | remove pids frm to =>
    simp only [opOK] at hop
    exact hRemove_untouched st pids frm to pid T hop (by simpa [popped] using hp)
  | record p now v =>
    simp only [opOK] at hop
    exact (hSave_benign st p v now).untouched pid T hop
  | poll p now v =>
    simp only [opOK] at hop
    exact (poll_benign cfg st p now v).untouched pid T hop
  | tick now =>
    simp only [opOK] at hop
    have hj := janitorTick_untouched cfg st now pid T hp
    exact hj.1.trans (samplerTick_untouched cfg _ now pid T hop)

/-- Port types never change. -/
theorem step_ptypeOf (cfg : Cfg) (st : State) (op : Op) (q : Nat) : ptypeOf (step cfg st op).1 q = ptypeOf st q := by
  cases op with
  | range p frm to limit desc => rfl
  | byTs p now tss => exact ptypeOf_congr _ _ (hByTs_store cfg st p (ptypeOf st p) now tss).2 q
  | remove pids frm to => rfl
  | record p now v => exact (hSave_benign st p v now).ptype q
  | poll p now v => exact (poll_benign cfg st p now v).ptype q
  | tick now =>
    show ptypeOf (samplerTick cfg (janitorTick cfg st now) now) q = _
    have h1 := (samplerTick_untouched cfg (janitorTick cfg st now) now 0 now (Int.le_refl _)).ptype q
    rw [h1]
    -- the janitor does not touch the ports
    have : (janitorTick cfg st now).ports = st.ports := by
      unfold janitorTick
      split
      · rfl
      · apply foldl_preserves (fun s => s.ports = st.ports) _ _ _ _ rfl
        intro s id hs
        cases findPort s id with
        | none => exact hs
        | some p =>
          simp only [janitorPort]
          split
          · exact hs
          · exact hs
    exact ptypeOf_congr _ _ this q


/-! ### operations overlapping at their await point -/

/-- An in-flight by-timestamp query is consistent with the state: it started in the past, knows the port's type, and —
unless the dict it is bound to has been popped — what it fetched for the timestamps it is going to memoise is still what
the store answers. -/
def FlightOK (cfg : Cfg) (st : State) (T : Int) (fl : Flight) : Prop :=
  fl.now ≤ T ∧ fl.pt = ptypeOf st fl.pid ∧
  ∀ vals, fl.fetched = some vals →
    ∃ store0, vals = pByTs store0 fl.pid fl.missed ∧
      (fl.orphan = false → ∀ t ∈ fl.missed, fl.now - t > cfg.minAge → newestLE store0 fl.pid t = newestLE st.store fl.pid t)

def SInv (cfg : Cfg) (s : SState) (T : Int) : Prop :=
  CacheOK s.st T ∧ ∀ fl ∈ s.flights, FlightOK cfg s.st T fl

/-- Well-formed split histories: the clock does not run backwards and removals name a port. -/
def sOpOK (T : Int) : SOp → Prop
  | .atomic op => opOK T op
  | .getBegin _ _ now _ => T ≤ now
  | .getFetch _ => True
  | .getEnd _ => True
  | .delBegin _ => True
  | .delExec pids _ _ => pids ≠ []

def sOpTime (T : Int) : SOp → Int
  | .atomic op => opTime T op
  | .getBegin _ _ now _ => now
  | _ => T

def SMonotone : Int → List SOp → Prop
  | _, [] => True
  | T, op :: ops => sOpOK T op ∧ SMonotone (sOpTime T op) ops

instance (T : Int) (op : SOp) : Decidable (sOpOK T op) := by
  cases op <;> unfold sOpOK <;> infer_instance

instance decSMonotone : (T : Int) → (ops : List SOp) → Decidable (SMonotone T ops)
  | _, [] => isTrue trivial
  | T, op :: ops =>
    have := decSMonotone (sOpTime T op) ops
    inferInstanceAs (Decidable (sOpOK T op ∧ SMonotone (sOpTime T op) ops))

theorem opTime_ge (T : Int) (op : Op) (h : opOK T op) : T ≤ opTime T op := by
  cases op <;> simp only [opOK, opTime] at * <;> omega

theorem FlightOK_mono (cfg : Cfg) (st : State) (T T1 : Int) (fl : Flight) (hT : T ≤ T1) (h : FlightOK cfg st T fl) :
    FlightOK cfg st T1 fl := ⟨by have := h.1; omega, h.2.1, h.2.2⟩

theorem mem_orphanFlights (pids : List Nat) (fls : List Flight) (fl : Flight) (h : fl ∈ orphanFlights pids fls) :
    ∃ f0 ∈ fls, (pids.contains f0.pid = true ∧ fl = { f0 with orphan := true }) ∨ (pids.contains f0.pid = false ∧ fl = f0) := by
  unfold orphanFlights at h
  obtain ⟨f0, hf0, rfl⟩ := List.mem_map.mp h
  refine ⟨f0, hf0, ?_⟩
  cases hc : pids.contains f0.pid
  · right; simp
  · left; simp

/-- A state change that keeps port types, and keeps the answers for past timestamps of every port it does not orphan,
keeps the flights consistent. -/
theorem flights_step (cfg : Cfg) (st st1 : State) (T T1 : Int) (hT : T ≤ T1) (pids : List Nat) (fls : List Flight)
    (hpt : ∀ q, ptypeOf st1 q = ptypeOf st q)
    (hun : ∀ pid, pid ∉ pids → ∀ t, t < T → newestLE st1.store pid t = newestLE st.store pid t)
    (h0 : 0 ≤ cfg.minAge)
    (h : ∀ fl ∈ fls, FlightOK cfg st T fl) :
    ∀ fl ∈ orphanFlights pids fls, FlightOK cfg st1 T1 fl := by
  intro fl hfl
  obtain ⟨f0, hf0, hcase⟩ := mem_orphanFlights pids fls fl hfl
  obtain ⟨a, b, c⟩ := h f0 hf0
  rcases hcase with ⟨_, rfl⟩ | ⟨hc, rfl⟩
  · refine ⟨by show f0.now ≤ T1; omega, by show f0.pt = ptypeOf st1 f0.pid; rw [hpt]; exact b, ?_⟩
    intro vals hv
    obtain ⟨s0, e1, _⟩ := c vals hv
    exact ⟨s0, e1, fun ho => by simp at ho⟩
  · refine ⟨by omega, by rw [hpt]; exact b, ?_⟩
    intro vals hv
    obtain ⟨s0, e1, e2⟩ := c vals hv
    refine ⟨s0, e1, ?_⟩
    intro ho t ht hage
    have hnp : fl.pid ∉ pids := by
      intro hin
      have : pids.contains fl.pid = true := by simpa using hin
      rw [this] at hc; cases hc
    rw [e2 ho t ht hage, hun fl.pid hnp t (by omega)]

theorem orphanFlights_nil (fls : List Flight) : orphanFlights [] fls = fls := by
  unfold orphanFlights
  simp

/-- The answers an in-flight query writes into the live cache are consistent. -/
theorem flightEnd_ok (cfg : Cfg) (hl : cfg.lateDict = false) (h0 : 0 ≤ cfg.minAge) (st : State) (T : Int)
    (fl : Flight) (hok : CacheOK st T) (hf : FlightOK cfg st T fl) (hsome : fl.fetched.isSome = true) :
    CacheOK (flightEnd cfg st fl).1 T ∧ (flightEnd cfg st fl).1.store = st.store ∧
    (flightEnd cfg st fl).1.ports = st.ports := by
  obtain ⟨vals, hv⟩ := Option.isSome_iff_exists.mp hsome
  obtain ⟨hnow, hpt, hfetch⟩ := hf
  obtain ⟨store0, e1, e2⟩ := hfetch vals hv
  unfold flightEnd
  simp only [hl, Bool.false_or, hv, Option.getD_some]
  cases ho : fl.orphan with
  | true =>
    simp only [Bool.not_true, Bool.false_eq_true, if_false]
    exact ⟨hok, trivial, trivial⟩
  | false =>
    simp only [Bool.not_false, if_true]
    refine ⟨?_, trivial, trivial⟩
    intro pid' t' v hc
    rw [e1, zip_fetched] at hc
    show t' < T ∧ v = fresh st.store pid' (ptypeOf st pid') t'
    rcases storeFetched_cache cfg fl.pid fl.now (fresh store0 fl.pid fl.pt) fl.missed _ _ pid' t' v hc with h1 | ⟨h1, h2, h3, h4⟩
    · exact hok pid' t' v h1
    · subst h1
      refine ⟨by omega, ?_⟩
      rw [h4, ← hpt]
      unfold fresh
      rw [e2 ho t' h2 h3]


theorem mem_flights_of_find (s : SState) (k : Nat) (fl : Flight) (h : findFlight s k = some fl) : fl ∈ s.flights := by
  unfold findFlight at h
  exact List.mem_of_find?_eq_some h

theorem cacheDrop_ok (st : State) (pids : List Nat) (T : Int) (hok : CacheOK st T) :
    CacheOK { st with cache := cacheDrop st.cache pids } T := by
  intro pid t v hv
  obtain ⟨_, h2⟩ := cacheGet_cacheDrop st.cache pids pid t v hv
  exact hok pid t v h2

/-- **The invariant for overlapping operations.** -/
theorem sStep_inv (cfg : Cfg) (hr : cfg.repaired = true) (hl : cfg.lateDict = false) (hpa : cfg.popAfter = true)
    (h0 : 0 ≤ cfg.minAge) (s : SState) (T : Int) (hinv : SInv cfg s T) (op : SOp) (hop : sOpOK T op) :
    SInv cfg (sStep cfg s op).1 (sOpTime T op) := by
  obtain ⟨hok, hfl⟩ := hinv
  cases op with
  | atomic op =>
    simp only [sOpOK] at hop
    have hT := opTime_ge T op hop
    refine ⟨(step_sim cfg hr h0 s.st T hok op hop).2.2, ?_⟩
    show ∀ fl ∈ orphanFlights (popped cfg s.st op) s.flights, FlightOK cfg (step cfg s.st op).1 (opTime T op) fl
    apply flights_step cfg s.st _ T _ hT _ _ (step_ptypeOf cfg s.st op) _ h0 hfl
    intro pid hp t ht
    exact (step_untouched cfg s.st T op hop pid hp).newest t ht
  | getBegin k pid now tss =>
    simp only [sOpOK] at hop
    simp only [sStep, sOpTime]
    split
    · -- no miss: the query completes at once, exactly like the atomic operation
      have hs := step_sim cfg hr h0 s.st T hok (.byTs pid now tss) hop
      have s1 := hByTs_store cfg s.st pid (ptypeOf s.st pid) now tss
      refine ⟨hs.2.2, ?_⟩
      intro fl hf
      obtain ⟨a, b, c⟩ := hfl fl hf
      refine ⟨by omega, ?_, ?_⟩
      · show fl.pt = ptypeOf (hByTs cfg s.st pid (ptypeOf s.st pid) now tss).1 fl.pid
        rw [ptypeOf_congr _ _ s1.2]; exact b
      · show ∀ vals, fl.fetched = some vals → ∃ store0, vals = pByTs store0 fl.pid fl.missed ∧
          (fl.orphan = false → ∀ t ∈ fl.missed, fl.now - t > cfg.minAge →
            newestLE store0 fl.pid t = newestLE (hByTs cfg s.st pid (ptypeOf s.st pid) now tss).1.store fl.pid t)
        rw [s1.1]; exact c
    · refine ⟨CacheOK_mono s.st T now hop hok, ?_⟩
      intro fl hf
      rcases List.mem_cons.mp hf with rfl | hf
      · exact ⟨Int.le_refl _, rfl, fun vals hv => by simp [flightBegin] at hv⟩
      · exact FlightOK_mono cfg s.st T now fl hop (hfl fl ((List.mem_filter.mp hf).1))
  | getFetch k =>
    simp only [sStep, sOpTime]
    refine ⟨hok, ?_⟩
    intro fl hf
    obtain ⟨f0, hf0, rfl⟩ := List.mem_map.mp hf
    obtain ⟨a, b, c⟩ := hfl f0 hf0
    by_cases hc : (f0.k == k && f0.fetched.isNone) = true
    · rw [if_pos hc]
      refine ⟨a, b, ?_⟩
      intro vals hv
      simp only [Option.some.injEq] at hv
      exact ⟨s.st.store, hv.symm, fun _ _ _ _ => rfl⟩
    · rw [if_neg hc]; exact ⟨a, b, c⟩
  | getEnd k =>
    simp only [sStep, sOpTime]
    cases hfind : findFlight s k with
    | none => exact ⟨hok, hfl⟩
    | some fl =>
      simp only
      by_cases hnone : fl.fetched.isNone = true
      · rw [if_pos hnone]; exact ⟨hok, hfl⟩
      · rw [if_neg hnone]
        have hsome : fl.fetched.isSome = true := by
          cases hh : fl.fetched with
          | none => simp [hh] at hnone
          | some v => rfl
        have hmem := mem_flights_of_find s k fl hfind
        obtain ⟨e1, e2, e3⟩ := flightEnd_ok cfg hl h0 s.st T fl hok (hfl fl hmem) hsome
        refine ⟨e1, ?_⟩
        intro f hf
        obtain ⟨a, b, c⟩ := hfl f ((List.mem_filter.mp hf).1)
        refine ⟨a, ?_, ?_⟩
        · show f.pt = ptypeOf (flightEnd cfg s.st fl).1 f.pid
          rw [ptypeOf_congr _ _ e3]; exact b
        · show ∀ vals, f.fetched = some vals → ∃ store0, vals = pByTs store0 f.pid f.missed ∧
            (f.orphan = false → ∀ t ∈ f.missed, f.now - t > cfg.minAge →
              newestLE store0 f.pid t = newestLE (flightEnd cfg s.st fl).1.store f.pid t)
          rw [e2]; exact c
  | delBegin pids =>
    simp only [sStep, sOpTime]
    refine ⟨cacheDrop_ok s.st pids T hok, ?_⟩
    exact flights_step cfg s.st _ T T (Int.le_refl _) pids s.flights (fun _ => rfl) (fun _ _ _ _ => rfl) h0 hfl
  | delExec pids frm to =>
    simp only [sOpOK] at hop
    simp only [sStep, sOpTime, hpa, if_true]
    refine ⟨hRemove_ok s.st pids frm to T hop hok, ?_⟩
    show ∀ fl ∈ orphanFlights pids s.flights, FlightOK cfg (hRemove s.st pids frm to) T fl
    apply flights_step cfg s.st (hRemove s.st pids frm to) T T (Int.le_refl _) pids s.flights (fun _ => rfl) _ h0 hfl
    intro pid hp t ht
    exact (hRemove_untouched s.st pids frm to pid T hop hp).newest t ht

theorem sRun_inv (cfg : Cfg) (hr : cfg.repaired = true) (hl : cfg.lateDict = false) (hpa : cfg.popAfter = true)
    (h0 : 0 ≤ cfg.minAge) (ops : List SOp) (s : SState) (T : Int) (hinv : SInv cfg s T) (hm : SMonotone T ops) :
    ∃ T', SInv cfg (sRun cfg s ops).1 T' := by
  induction ops generalizing s T with
  | nil => exact ⟨T, hinv⟩
  | cons op ops ih =>
    have h1 := sStep_inv cfg hr hl hpa h0 s T hinv op hm.1
    obtain ⟨T', h2⟩ := ih (sStep cfg s op).1 (sOpTime T op) h1 hm.2
    exact ⟨T', h2⟩

/-- What a resumed by-timestamp query answers: per requested timestamp, in request order, the value memoised when it
started, else what the store answered when its persistence query executed. -/
theorem flightEnd_out (cfg : Cfg) (hr : cfg.repaired = true) (st0 st : State) (k pid : Nat) (pt : PType) (now : Int)
    (tss : List Int) (store1 : List Sample) (orphan : Bool) :
    (flightEnd cfg st { flightBegin st0 k pid pt now tss with
        fetched := some (pByTs store1 pid (flightBegin st0 k pid pt now tss).missed), orphan := orphan }).2 =
      tss.map (fun t => entry t (match cacheGet st0.cache pid t with
                                  | some v => v
                                  | none => fresh store1 pid pt t)) := by
  unfold flightEnd flightBegin
  simp only [Option.getD_some, zip_fetched, hr, if_true]
  apply List.map_congr_left
  intro t ht
  congr 1
  rw [storeFetched_results, foldl_hits]
  cases hc : cacheGet st0.cache pid t with
  | none =>
    have : t ∈ tss.filter (fun t => (cacheGet st0.cache pid t).isNone) := by
      simp [List.mem_filter, ht, hc]
    simp [this]
  | some v =>
    have h1 : ¬ t ∈ tss.filter (fun t => (cacheGet st0.cache pid t).isNone) := by
      simp [List.mem_filter, hc]
    have h2 : t ∈ tss.filter (fun t => (cacheGet st0.cache pid t).isSome) := by
      simp [List.mem_filter, ht, hc]
    simp [h1, h2]

end QtVerif.History
