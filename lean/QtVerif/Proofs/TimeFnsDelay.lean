import QtVerif.Proofs.TimeFns
/-!
C16 — DELAY: the representation invariant of the queue (`DelayInv`: the queue holds exactly the input changes that
are not yet `d` old, the current value is the value of the latest change that is) and the temporal specification that
follows from it, stated on changes (`delay_last`) and on samples (`delayedValue_eq_sample`). Carrier `Int`.
-/
namespace QtVerif.TimeFns
open Num

/-! ## DELAY -/

def delayStep' (P : Params) (d : Int) (m : Mem Int) (x : Int × Int) : Mem Int × Res Int × Int :=
  delayStep P m x.1 x.2 d

/-- Value of the newest sample (`prev` if there is none). -/
def lastVal (prev : Option Int) : List (Int × Int) → Option Int
  | [] => prev
  | x :: r => lastVal (some x.2) r

/-- The samples at which the input changed (the first sample counts as a change). -/
def changes (prev : Option Int) : List (Int × Int) → List (Int × Int)
  | [] => []
  | x :: r => if differs x.2 prev then x :: changes (some x.2) r else changes (some x.2) r

/-- A change at time `c.1` is due at `now` when it is at least `d` old. -/
def due (now d : Int) (c : Int × Int) : Bool := decide (d ≤ now - c.1)

/-- The input "as it was `d` ago": the value set by the latest change that is at least `d` old, the first input if
there is none yet. -/
def delayedValue (first now d : Int) (cs : List (Int × Int)) : Int :=
  (((cs.filter (due now d)).getLast?).map (·.2)).getD first

def lastTime (h : List (Int × Int)) : Int := (h.getLast?.map (·.1)).getD 0

def TimeSorted (h : List (Int × Int)) : Prop := h.Pairwise (fun a b => a.1 ≤ b.1)

theorem lastVal_snoc (prev : Option Int) (h : List (Int × Int)) (x : Int × Int) :
    lastVal prev (h ++ [x]) = some x.2 := by
  induction h generalizing prev with
  | nil => rfl
  | cons y r ih => simp only [List.cons_append, lastVal]; exact ih _

theorem changes_snoc (prev : Option Int) (h : List (Int × Int)) (x : Int × Int) :
    changes prev (h ++ [x]) = changes prev h ++ cond (differs x.2 (lastVal prev h)) [x] [] := by
  induction h generalizing prev with
  | nil => simp only [List.nil_append, changes, lastVal]; cases differs x.2 prev <;> simp
  | cons y r ih =>
    simp only [List.cons_append, changes, lastVal]
    split <;> simp [ih]

theorem changes_sublist (prev : Option Int) (h : List (Int × Int)) : (changes prev h).Sublist h := by
  induction h generalizing prev with
  | nil => simp [changes]
  | cons y r ih =>
    simp only [changes]
    split
    · exact (ih _).cons_cons y
    · exact (ih _).cons y

theorem changes_sorted (prev : Option Int) (h : List (Int × Int)) (hs : TimeSorted h) :
    TimeSorted (changes prev h) := List.Pairwise.sublist (changes_sublist prev h) hs

/-- On a time-sorted queue the pop loop removes exactly the due entries; the current value becomes the value of the
newest due entry. -/
theorem popDue_sorted (now d : Int) (q : List (Int × Int)) (c : Int) (hs : TimeSorted q) :
    popDue now d q c = (q.filter (fun e => !due now d e), (((q.filter (due now d)).getLast?).map (·.2)).getD c) := by
  induction q generalizing c with
  | nil => simp [popDue]
  | cons e r ih =>
    obtain ⟨t, v⟩ := e
    unfold TimeSorted at hs
    rw [List.pairwise_cons] at hs
    simp only [popDue, int_le, int_ofInt]
    by_cases hd : d ≤ now - t
    · simp only [hd, decide_true, if_true]
      rw [ih v hs.2]
      have hdue : due now d (t, v) = true := by simp [due, hd]
      simp only [List.filter_cons, hdue, Bool.not_true, Bool.false_eq_true, if_false, if_true]
      congr 1
      cases hf : List.filter (due now d) r with
      | nil => simp
      | cons z zs =>
        rw [List.getLast?_cons_cons]
        cases hgl : (z :: zs).getLast? with
        | none => simp at hgl
        | some w => simp
    · simp only [hd, decide_false, Bool.false_eq_true, if_false]
      have hnd : due now d (t, v) = false := by simp [due, hd]
      have hall : ∀ z ∈ r, due now d z = false := by
        intro z hz
        have := hs.1 z hz
        simp only [due, decide_eq_false_iff_not]
        simp only at this
        omega
      have h1 : r.filter (fun e => !due now d e) = r := by
        apply List.filter_eq_self.mpr; intro z hz; simp [hall z hz]
      have h2 : r.filter (due now d) = [] := by
        apply List.filter_eq_nil_iff.mpr; intro z hz; simp [hall z hz]
      simp [hnd, h1, h2]

def firstVal (h : List (Int × Int)) : Int := (h.head?.map (·.2)).getD 0

theorem sorted_filter_split (now d : Int) (l : List (Int × Int)) (hs : TimeSorted l) :
    l = l.filter (due now d) ++ l.filter (fun e => !due now d e) := by
  induction l with
  | nil => simp
  | cons e r ih =>
    unfold TimeSorted at hs
    rw [List.pairwise_cons] at hs
    by_cases hd : due now d e = true
    · simp only [List.filter_cons, hd, if_true, Bool.not_true, Bool.false_eq_true, if_false, List.cons_append]
      congr 1; exact ih hs.2
    · have hall : ∀ z ∈ r, due now d z = false := by
        intro z hz
        have := hs.1 z hz
        simp only [due, decide_eq_true_eq, decide_eq_false_iff_not] at hd ⊢
        omega
      have h1 : r.filter (fun e => !due now d e) = r := by
        apply List.filter_eq_self.mpr; intro z hz; simp [hall z hz]
      have h2 : r.filter (due now d) = [] := by
        apply List.filter_eq_nil_iff.mpr; intro z hz; simp [hall z hz]
      simp only [Bool.not_eq_true] at hd
      simp [hd, h1, h2]

theorem getLast?_append_map {β γ : Type} (f : β → γ) (A B : List β) (dflt : γ) :
    (((A ++ B).getLast?).map f).getD dflt = ((B.getLast?).map f).getD (((A.getLast?).map f).getD dflt) := by
  cases B with
  | nil => simp
  | cons b bs =>
    rw [List.getLast?_append]
    cases hgl : (b :: bs).getLast? with
    | none => simp at hgl
    | some w => simp

structure DelayInv (d : Int) (h : List (Int × Int)) (m : Mem Int) : Prop where
  v : m.v = lastVal none h
  q : m.q = (changes none h).filter (fun e => !due (lastTime h) d e)
  c : h ≠ [] → m.c = some (delayedValue (firstVal h) (lastTime h) d (changes none h))
  c0 : h = [] → m.c = none

theorem lastTime_snoc (h : List (Int × Int)) (x : Int × Int) : lastTime (h ++ [x]) = x.1 := by simp [lastTime]

theorem firstVal_snoc (h : List (Int × Int)) (x : Int × Int) :
    firstVal (h ++ [x]) = if h = [] then x.2 else firstVal h := by
  cases h <;> simp [firstVal]

theorem lastTime_le (h : List (Int × Int)) (x : Int × Int) (hne : h ≠ []) (hs : TimeSorted (h ++ [x])) :
    lastTime h ≤ x.1 := by
  unfold TimeSorted at hs
  rw [List.pairwise_append] at hs
  have hl : h.getLast? = some (h.getLast hne) := List.getLast?_eq_some_getLast hne
  simp only [lastTime, hl, Option.map_some, Option.getD_some]
  exact hs.2.2 _ (List.getLast_mem hne) x (by simp)

theorem delay_step_inv (P : Params) (hH : 1 ≤ P.H) (d : Int) (h : List (Int × Int)) (x : Int × Int) (m : Mem Int)
    (hs : TimeSorted (h ++ [x])) (hinv : DelayInv d h m)
    (hno : ((changes none h).filter (fun e => !due (lastTime h) d e)).length < P.H) :
    DelayInv d (h ++ [x]) (delayStep' P d m x).1 ∧
    (delayStep' P d m x).2.1 = .ok (delayedValue (firstVal (h ++ [x])) x.1 d (changes none (h ++ [x]))) := by
  have hH0 : (P.H == 0) = false := by simp; omega
  have hsh : TimeSorted h := by unfold TimeSorted at hs ⊢; exact (List.pairwise_append.mp hs).1
  have hcs : TimeSorted (changes none h) := changes_sorted none h hsh
  -- the queue before the pop loop
  have hdrop : dropOld P.H m.q = m.q := by
    unfold dropOld
    rw [hinv.q]
    have : ((changes none h).filter (fun e => !due (lastTime h) d e)).length - (P.H - 1) = 0 := by omega
    rw [this, List.drop_zero]
  have hx : ((x.1, x.2) : Int × Int) = x := rfl
  have hq1 : (if differs x.2 m.v = true then dropOld P.H m.q ++ [(x.1, x.2)] else m.q)
      = m.q ++ cond (differs x.2 m.v) [x] [] := by
    cases hdv : differs x.2 m.v <;> simp [hdrop]
  have hle : ∀ e ∈ changes none h, e.1 ≤ x.1 := by
    intro e he
    have hmem := (changes_sublist none h).subset he
    unfold TimeSorted at hs
    exact (List.pairwise_append.mp hs).2.2 e hmem x (by simp)
  have hsq1 : TimeSorted (m.q ++ cond (differs x.2 m.v) [x] []) := by
    unfold TimeSorted
    rw [List.pairwise_append]
    refine ⟨?_, ?_, ?_⟩
    · rw [hinv.q]; exact List.Pairwise.sublist List.filter_sublist hcs
    · cases differs x.2 m.v <;> simp
    · intro a ha b hb
      rw [hinv.q] at ha
      have ha' := hle a (List.mem_filter.mp ha).1
      cases hdv : differs x.2 m.v <;> simp [hdv] at hb
      subst hb; exact ha'
  -- due at the old time ⇒ due at the new time
  have hmonoDue : h ≠ [] → ∀ e, due (lastTime h) d e = true → due x.1 d e = true := by
    intro hne e he
    have := lastTime_le h x hne hs
    simp only [due, decide_eq_true_eq] at he ⊢
    omega
  unfold delayStep' delayStep
  simp only [hH0, Bool.and_false, Bool.false_eq_true, if_false, hq1]
  rw [popDue_sorted x.1 d _ _ hsq1]
  simp only
  have hcx : changes none (h ++ [x]) = changes none h ++ cond (differs x.2 m.v) [x] [] := by
    rw [changes_snoc, hinv.v]
  -- the new queue
  have hqnew : (m.q ++ cond (differs x.2 m.v) [x] []).filter (fun e => !due x.1 d e)
      = (changes none (h ++ [x])).filter (fun e => !due (lastTime (h ++ [x])) d e) := by
    rw [lastTime_snoc, hcx, List.filter_append, List.filter_append, hinv.q, List.filter_filter]
    congr 1
    apply List.filter_congr
    intro e he
    by_cases hne : h = []
    · subst hne; simp [changes] at he
    · cases hdl : due (lastTime h) d e
      · simp
      · simp [hmonoDue hne e hdl]
  -- the new current value
  have hcur : (((m.q ++ cond (differs x.2 m.v) [x] []).filter (due x.1 d)).getLast?.map (·.2)).getD (m.c.getD x.2)
      = delayedValue (firstVal (h ++ [x])) x.1 d (changes none (h ++ [x])) := by
    unfold delayedValue
    rw [hcx, List.filter_append (changes none h)]
    have hsplit := sorted_filter_split (lastTime h) d (changes none h) hcs
    have hA : (changes none h).filter (due x.1 d)
        = (changes none h).filter (due (lastTime h) d) ++ m.q.filter (due x.1 d) := by
      conv => lhs; rw [hsplit]
      rw [List.filter_append, hinv.q]
      congr 1
      rw [List.filter_filter]
      apply List.filter_congr
      intro e he
      by_cases hne : h = []
      · subst hne; simp [changes] at he
      · cases hdl : due (lastTime h) d e
        · simp
        · simp [hmonoDue hne e hdl]
    rw [hA, List.append_assoc, ← List.filter_append, getLast?_append_map]
    congr 1
    by_cases hne : h = []
    · subst hne
      simp [hinv.c0 rfl, changes, firstVal]
    · rw [hinv.c hne, firstVal_snoc]
      simp [hne, delayedValue]
  refine ⟨⟨?_, ?_, ?_, ?_⟩, ?_⟩
  · simp only [lastVal_snoc]
    cases hdv : differs x.2 m.v
    · simp only [Bool.false_eq_true, if_false]
      cases hmv : m.v with
      | none => simp [differs, hmv] at hdv
      | some l => simp [differs, hmv] at hdv; simp [hdv]
    · simp
  · exact hqnew
  · intro _; rw [lastTime_snoc, hcur]
  · intro hnil; simp at hnil
  · rw [hcur]

/-- Number of input changes that are not yet `d` old at the time of the newest sample (= the queue length). -/
def pendingChanges (d : Int) (h : List (Int × Int)) : Nat :=
  ((changes none h).filter (fun e => !due (lastTime h) d e)).length

/-- "At most HISTORY_SIZE transitions pending": before every evaluation fewer than `H` changes are waiting. -/
def NoOverflow (H : Nat) (d : Int) (h : List (Int × Int)) : Prop :=
  ∀ k, k < h.length → pendingChanges d (h.take k) < H

theorem delay_inv (P : Params) (hH : 1 ≤ P.H) (d : Int) (h : List (Int × Int)) (hs : TimeSorted h)
    (hno : NoOverflow P.H d h) : DelayInv d h (memAfter (delayStep' P d) {} h) := by
  induction h using snoc_induction with
  | nil => exact ⟨rfl, by simp [changes, memAfter], by simp, fun _ => rfl⟩
  | snoc h x ih =>
    rw [memAfter_append]
    have hsh : TimeSorted h := by unfold TimeSorted at hs ⊢; exact (List.pairwise_append.mp hs).1
    have hnoh : NoOverflow P.H d h := by
      intro k hk
      have := hno k (by simp; omega)
      rwa [List.take_append_of_le_length (by omega)] at this
    have hlast : pendingChanges d h < P.H := by
      have := hno h.length (by simp)
      rwa [List.take_append_of_le_length (Nat.le_refl _), List.take_length] at this
    exact (delay_step_inv P hH d h x _ hs (ih hsh hnoh) hlast).1

/-- **DELAY over any history** (constant delay, non-decreasing evaluation times with any gaps and jumps, fewer than
HISTORY_SIZE changes pending before each evaluation): the newest output is the input as it was `d` ago — the value set
by the latest input change that is at least `d` old, the first input while there is none. -/
theorem delay_last (P : Params) (hH : 1 ≤ P.H) (d : Int) (h : List (Int × Int)) (x : Int × Int)
    (hs : TimeSorted (h ++ [x])) (hno : NoOverflow P.H d (h ++ [x])) :
    (runFn (delayStep' P d) {} (h ++ [x])).getLast?
      = some (.ok (delayedValue (firstVal (h ++ [x])) x.1 d (changes none (h ++ [x])))) := by
  rw [runFn_getLast]
  have hsh : TimeSorted h := by unfold TimeSorted at hs ⊢; exact (List.pairwise_append.mp hs).1
  have hnoh : NoOverflow P.H d h := by
    intro k hk
    have := hno k (by simp; omega)
    rwa [List.take_append_of_le_length (by omega)] at this
  have hlast : pendingChanges d h < P.H := by
    have := hno h.length (by simp)
    rwa [List.take_append_of_le_length (Nat.le_refl _), List.take_length] at this
  rw [(delay_step_inv P hH d h x _ hs (delay_inv P hH d h hsh hnoh) hlast).2]

/-- Beyond the bound nothing breaks, the oldest pending changes are forgotten: the queue never holds more than
HISTORY_SIZE entries, for every history. -/
theorem delay_queue_bounded (P : Params) (hH : 1 ≤ P.H) (d : Int) (m : Mem Int) (x : Int × Int)
    (hm : m.q.length ≤ P.H) : (delayStep' P d m x).1.q.length ≤ P.H := by
  have hH0 : (P.H == 0) = false := by simp; omega
  unfold delayStep' delayStep
  simp only [hH0, Bool.and_false, Bool.false_eq_true, if_false]
  have hpop : ∀ (q : List (Int × Int)) (c : Int), (popDue x.1 d q c).1.length ≤ q.length := by
    intro q
    induction q with
    | nil => intro c; simp [popDue]
    | cons e r ih =>
      intro c
      simp only [popDue]
      split
      · exact Nat.le_trans (ih _) (by simp)
      · simp
  refine Nat.le_trans (hpop _ _) ?_
  split
  · simp only [List.length_append, List.length_singleton, dropOld, List.length_drop]; omega
  · exact hm

/-! ### The same statement on samples: the value of the latest change at or before `τ` is the value of the latest
sample at or before `τ` (the input is constant between changes). -/

theorem lastVal_getLast (prev : Option Int) (l : List (Int × Int)) :
    lastVal prev l = match l.getLast? with | some w => some w.2 | none => prev := by
  induction l using snoc_induction with
  | nil => rfl
  | snoc h x _ => rw [lastVal_snoc]; simp

theorem changes_last (h : List (Int × Int)) (hne : h ≠ []) :
    ((changes none h).getLast?).map (·.2) = (h.getLast?).map (·.2) := by
  induction h using snoc_induction with
  | nil => exact absurd rfl hne
  | snoc h x ih =>
    rw [changes_snoc]
    have hx : (h ++ [x]).getLast? = some x := by simp
    rw [hx]
    cases hdv : differs x.2 (lastVal none h)
    · simp only [cond_false, List.append_nil]
      cases h with
      | nil => simp [differs, lastVal] at hdv
      | cons y r =>
        rw [ih (by simp)]
        rw [lastVal_getLast] at hdv
        cases hgl : (y :: r).getLast? with
        | none => simp at hgl
        | some w =>
          simp only [hgl, differs, Bool.not_eq_false', int_eq, decide_eq_true_eq] at hdv
          simp [hdv]
    · simp

theorem changes_take_filter (τ : Int) (h : List (Int × Int)) (hs : TimeSorted h) :
    (changes none h).filter (fun e => decide (e.1 ≤ τ)) = changes none (h.filter (fun e => decide (e.1 ≤ τ))) := by
  induction h using snoc_induction with
  | nil => simp [changes]
  | snoc h x ih =>
    have hsh : TimeSorted h := by unfold TimeSorted at hs ⊢; exact (List.pairwise_append.mp hs).1
    rw [changes_snoc, List.filter_append, List.filter_append, ih hsh]
    by_cases hx : x.1 ≤ τ
    · -- everything is at or before τ
      have hall : h.filter (fun e => decide (e.1 ≤ τ)) = h := by
        apply List.filter_eq_self.mpr
        intro e he
        have := (List.pairwise_append.mp hs).2.2 e he x (by simp)
        simp; omega
      have hfx : [x].filter (fun e => decide (e.1 ≤ τ)) = [x] := by simp [hx]
      rw [hall, hfx, changes_snoc]
      congr 1
      cases differs x.2 (lastVal none h) <;> simp [hx]
    · have hfx : [x].filter (fun e => decide (e.1 ≤ τ)) = [] := by simp [hx]
      rw [hfx, List.append_nil]
      cases differs x.2 (lastVal none h) <;> simp [hx]

/-- The delayed value on SAMPLES: the value of the newest sample at or before `now - d` (first sample if none). -/
theorem delayedValue_eq_sample (first now d : Int) (h : List (Int × Int)) (hs : TimeSorted h) :
    delayedValue first now d (changes none h)
      = (((h.filter (fun e => decide (e.1 ≤ now - d))).getLast?).map (·.2)).getD first := by
  unfold delayedValue
  have hdue : (due now d) = (fun e : Int × Int => decide (e.1 ≤ now - d)) := by
    funext e; simp only [due]; congr 1; apply propext; constructor <;> intro <;> omega
  rw [hdue, changes_take_filter (now - d) h hs]
  by_cases hne : h.filter (fun e => decide (e.1 ≤ now - d)) = []
  · rw [hne]; simp [changes]
  · rw [changes_last _ hne]

end QtVerif.TimeFns
