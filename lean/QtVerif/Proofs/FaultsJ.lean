import QtVerif.Model.Faults
import QtVerif.Proofs.FaultsI
namespace QtVerif.Faults

/-- invariant of a hub that consists of stable healthy ports only -/
def InvH (H : PortId → Bool) (s : State) : Prop := AllIn H s.ports ∧ s.errs = [] ∧ s.loopAlive = true

/-- The polling pass on the effect view (kind and time of the pass do not matter). -/
def apass (P : Params) (E : Env) (A : AState) : AState :=
  ⟨pushEvals E A.full ((A.ports.flatMap chg1).map (fun c => c.1)) (snapshot (A.ports.map adoptReg)) (A.ports.map adoptReg),
   (deliver E 0 P.nh (A.out, false) (A.ports.flatMap chg1)).1.filter Obs.isEffect, false⟩

theorem deliverTo_effect (E : Env) (now now' : Nat) (c : PortId × Val × Val)
    (hh : ∀ j nw o n, E.hd j c.1 nw o n ≠ .escape) (st st' : List Obs × Bool) (j : Nat)
    (h1 : st.2 = false) (h2 : st'.2 = false) (h3 : st.1.filter Obs.isEffect = st'.1.filter Obs.isEffect) :
    (deliverTo E now c st j).2 = false ∧ (deliverTo E now' c st' j).2 = false ∧
    (deliverTo E now c st j).1.filter Obs.isEffect = (deliverTo E now' c st' j).1.filter Obs.isEffect := by
  unfold deliverTo
  have a1 : (E.hd j c.1 now c.2.1 c.2.2 == XOut.escape) = false := by
    have := hh j now c.2.1 c.2.2
    cases h : E.hd j c.1 now c.2.1 c.2.2 <;> simp_all
  have a2 : (E.hd j c.1 now' c.2.1 c.2.2 == XOut.escape) = false := by
    have := hh j now' c.2.1 c.2.2
    cases h : E.hd j c.1 now' c.2.1 c.2.2 <;> simp_all
  simp [h1, h2, a1, a2, List.filter_cons, Obs.isEffect, h3]

theorem inner_effect (E : Env) (now now' : Nat) (c : PortId × Val × Val)
    (hh : ∀ j nw o n, E.hd j c.1 nw o n ≠ .escape) :
    ∀ (js : List Nat) (st st' : List Obs × Bool), st.2 = false → st'.2 = false →
      st.1.filter Obs.isEffect = st'.1.filter Obs.isEffect →
      (js.foldl (deliverTo E now c) st).2 = false ∧ (js.foldl (deliverTo E now' c) st').2 = false ∧
      (js.foldl (deliverTo E now c) st).1.filter Obs.isEffect = (js.foldl (deliverTo E now' c) st').1.filter Obs.isEffect := by
  intro js
  induction js with
  | nil => intro st st' h1 h2 h3; exact ⟨h1, h2, h3⟩
  | cons j js ih =>
    intro st st' h1 h2 h3
    obtain ⟨b1, b2, b3⟩ := deliverTo_effect E now now' c hh st st' j h1 h2 h3
    simp only [List.foldl_cons]
    exact ih _ _ b1 b2 b3

theorem deliver_effect (E : Env) (now now' nh : Nat) :
    ∀ (cs : List (PortId × Val × Val)) (st st' : List Obs × Bool),
      (∀ c ∈ cs, ∀ j nw o n, E.hd j c.1 nw o n ≠ .escape) → st.2 = false → st'.2 = false →
      st.1.filter Obs.isEffect = st'.1.filter Obs.isEffect →
      (deliver E now nh st cs).2 = false ∧ (deliver E now' nh st' cs).2 = false ∧
      (deliver E now nh st cs).1.filter Obs.isEffect = (deliver E now' nh st' cs).1.filter Obs.isEffect := by
  intro cs
  induction cs with
  | nil => intro st st' _ h1 h2 h3; exact ⟨h1, h2, h3⟩
  | cons c cs ih =>
    intro st st' hh h1 h2 h3
    obtain ⟨b1, b2, b3⟩ := inner_effect E now now' c (hh c (by simp)) (List.range nh) st st' h1 h2 h3
    simp only [deliver, List.foldl_cons]
    exact ih _ _ (fun x hx => hh x (by simp [hx])) b1 b2 b3

theorem chg1_strip (q : Port) : chg1 (strip q) = chg1 q := rfl

theorem chg1_id (q : Port) : ∀ c ∈ chg1 q, c.1 = q.id := by
  intro c hc
  unfold chg1 at hc
  split at hc
  · simp at hc; rw [hc]
  · cases hc

theorem snapshot_strip (ps : List Port) : snapshot (ps.map strip) = snapshot ps := by
  unfold snapshot
  induction ps with
  | nil => rfl
  | cons p ps ih =>
    by_cases he : p.enabled = true <;> simp_all [strip]

theorem pushOne_strip (E : Env) (full : Bool) (ch : List PortId) (sn : Snap) (q : Port) :
    strip (pushOne E full ch sn q) = pushOne E full ch sn (strip q) := by
  unfold pushOne
  have e1 : (strip q).id = q.id := rfl
  have e2 : (strip q).enabled = q.enabled := rfl
  rw [e1, e2]
  cases E.deps q.id with
  | none => rfl
  | some ds => simp only []; split <;> rfl

theorem pushEvals_strip (E : Env) (full : Bool) (ch : List PortId) (sn : Snap) (ps : List Port) :
    (pushEvals E full ch sn ps).map strip = pushEvals E full ch sn (ps.map strip) := by
  unfold pushEvals
  simp only [List.map_map]
  apply List.map_congr_left
  intro q _
  exact pushOne_strip E full ch sn q

/-- **A pass over stable healthy ports, on the effect view**: a function of the effect view alone. -/
theorem abs_pass (H : PortId → Bool) (P : Params) (E : Env) (hst : Stable E H) (k : PassKind) (now : Nat) (s : State)
    (hinv : InvH H s) : abs (pass P E k now s) = apass P E (abs s) ∧ InvH H (pass P E k now s) := by
  obtain ⟨hall, herr, hal⟩ := hinv
  unfold pass
  simp only [hal, Bool.not_true, Bool.and_false, Bool.false_eq_true, if_false]
  obtain ⟨f1, f2, f3, f4, f5⟩ := pollAll_stable P E H hst now (now / P.ups != s.lastSec) s.ports
    ⟨s.errs, s.trace, [], false⟩ hall herr rfl
  have hids := pollAll_ids P E now (now / P.ups != s.lastSec) s.ports ⟨s.errs, s.trace, [], false⟩
  generalize pollAll P E now (now / P.ups != s.lastSec) ⟨s.errs, s.trace, [], false⟩ s.ports = r at *
  simp only [List.nil_append] at f4
  have hcs : ∀ c ∈ r.1.changed, ∀ j nw o n, E.hd j c.1 nw o n ≠ .escape := by
    intro c hc
    rw [f4] at hc
    obtain ⟨q, hq, hcq⟩ := List.mem_flatMap.mp hc
    rw [chg1_id q c hcq]
    exact (hst q.id (hall q hq)).2.2
  obtain ⟨d1, _, d3⟩ := deliver_effect E now 0 P.nh r.1.changed (r.1.trace, false)
    (s.trace.filter Obs.isEffect, false) hcs rfl rfl (by simp only [f3, List.filter_filter, Bool.and_self])
  simp only [f2, d1, Bool.false_eq_true, if_false]
  have hall' : AllIn H r.2 := AllIn_of_ids H s.ports r.2 hids hall
  refine ⟨?_, ⟨AllIn_of_ids H r.2 _ (pushEvals_ids E _ _ _ r.2) hall', f1, rfl⟩⟩
  have hch : (s.ports.map strip).flatMap chg1 = s.ports.flatMap chg1 := by
    rw [List.flatMap_map]; rfl
  have had : (s.ports.map strip).map adoptReg = r.2.map strip := by
    rw [f5, List.map_map]; rfl
  rw [f4] at d3
  simp only [abs, apass, hch, had, snapshot_strip, pushEvals_strip, f4, d3]
end QtVerif.Faults
