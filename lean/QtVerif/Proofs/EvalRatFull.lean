import QtVerif.Proofs.EvalRatSpecs
import QtVerif.Proofs.EvalSort
/-!
C02 helper lemmas over the exact rational carrier `exactRat`, any number of arguments / points:
* `sum()` of n floats is the exact sum (the Neumaier compensation stays 0), so AVG = Σ/n and lies between MIN and MAX;
* n-point LUTLI: the table is sorted (EvalSort), the scan stops at the two points bracketing x, the result is the linear
  interpolation between them and lies between their y's; outside the table it clamps to the first / last point.
-/
set_option linter.unusedSimpArgs false
set_option linter.unusedSectionVars false
namespace QtVerif.Eval
open QtVerif.Syntax QtVerif.Num
attribute [local instance] exactRat

/-! ### comparisons of rational "floats" -/

theorem rvlt (a b : Rat) : vlt (Val.f a) (Val.f b) = decide (a < b) := by simp [vlt, Val.num, PyFloat.lt]
theorem rveq (a b : Rat) : veq (Val.f a) (Val.f b) = decide (a = b) := by simp [veq, Val.num, PyFloat.beq]

theorem weakOrderOn_ratFloats (S : List (Val Rat)) (h : ∀ v ∈ S, ∃ a : Rat, v = .f a) : WeakOrderOn S := by
  constructor
  · intro a ha b hb hab
    obtain ⟨x, rfl⟩ := h a ha
    obtain ⟨y, rfl⟩ := h b hb
    rw [rvlt] at hab ⊢
    simp at hab ⊢
    grind
  · intro a ha b hb c hc hac
    obtain ⟨x, rfl⟩ := h a ha
    obtain ⟨y, rfl⟩ := h b hb
    obtain ⟨z, rfl⟩ := h c hc
    rw [rvlt] at hac
    rw [rvlt, rvlt]
    simp at hac ⊢
    grind

/-! ### `sum()` of n floats is exact -/

theorem sumStep_flt (f x : Rat) : sumStep (.flt f 0) (Val.f x) = .flt (f + x) 0 := by
  simp only [sumStep, PyFloat.add, PyFloat.sub, PyFloat.le, PyFloat.abs]
  congr 1
  split <;> grind

theorem sumFold_flt (xs : List Rat) : ∀ f : Rat, (xs.map Val.f).foldl sumStep (.flt f 0) = .flt (f + xs.sum) 0 := by
  induction xs with
  | nil => intro f; simp only [List.map, List.foldl, List.sum_nil]; congr 1; grind
  | cons x rest ih =>
    intro f
    simp only [List.map, List.foldl, sumStep_flt, ih, List.sum_cons]
    congr 1
    grind

theorem pySum_ratFloats (x : Rat) (rest : List Rat) :
    pySum ((x :: rest).map Val.f) = .ok (.f ((x :: rest).sum)) := by
  have h1 : sumStep (.fast 0) (Val.f x) = .flt x 0 := by
    simp [sumStep, Val.int?, vadd, arith, toFloat, PyFloat.ofInt, PyFloat.add, PyFloat.zero]
    grind
  simp only [pySum, List.map, List.foldl, h1, sumFold_flt, sumDone, applyComp, List.sum_cons]
  simp [PyFloat.beq, PyFloat.zero]

/-! ### AVG -/

theorem sum_ge_of_le (lo : Rat) (xs : List Rat) (h : ∀ x ∈ xs, lo ≤ x) : lo * (xs.length : Rat) ≤ xs.sum := by
  induction xs with
  | nil => simp
  | cons x rest ih =>
    have h1 := h x (by simp)
    have h2 := ih (fun y hy => h y (List.mem_cons_of_mem _ hy))
    simp only [List.length_cons, List.sum_cons]
    have : ((rest.length + 1 : Nat) : Rat) = (rest.length : Rat) + 1 := by simp
    rw [this]
    grind

theorem sum_le_of_le (hi : Rat) (xs : List Rat) (h : ∀ x ∈ xs, x ≤ hi) : xs.sum ≤ hi * (xs.length : Rat) := by
  induction xs with
  | nil => simp
  | cons x rest ih =>
    have h1 := h x (by simp)
    have h2 := ih (fun y hy => h y (List.mem_cons_of_mem _ hy))
    simp only [List.length_cons, List.sum_cons]
    have : ((rest.length + 1 : Nat) : Rat) = (rest.length : Rat) + 1 := by simp
    rw [this]
    grind

/-- dividing by a positive count keeps the bounds -/
theorem div_between (lo hi s n : Rat) (hn : 0 < n) (h1 : lo * n ≤ s) (h2 : s ≤ hi * n) : lo ≤ s / n ∧ s / n ≤ hi := by
  have hi' : 0 ≤ n⁻¹ := Rat.le_of_lt (Rat.inv_pos.mpr hn)
  have hc : n * n⁻¹ = 1 := Rat.mul_inv_cancel _ (by grind)
  have e1 : lo * (n * n⁻¹) = lo := by rw [hc, Rat.mul_one]
  have e2 : hi * (n * n⁻¹) = hi := by rw [hc, Rat.mul_one]
  have p1 : 0 ≤ (s - lo * n) * n⁻¹ := Rat.mul_nonneg (by grind) hi'
  have p2 : 0 ≤ (hi * n - s) * n⁻¹ := Rat.mul_nonneg (by grind) hi'
  rw [Rat.div_def]
  constructor <;> grind

theorem rat_avg_value (x y : Rat) (rest : List Rat) (now : Int) :
    applyFn true now "AVG" ((x :: y :: rest).map Val.f) =
      .val (.f ((x :: y :: rest).sum / ((x :: y :: rest).length : Rat))) := by
  show fnAvg ((x :: y :: rest).map Val.f) = _
  have hs := pySum_ratFloats x (y :: rest)
  simp only [List.map] at hs
  simp only [fnAvg, List.map, hs]
  simp [vdiv, Val.int?, toFloat, PyFloat.ofInt, PyFloat.div, ofExcept, Rat.intCast_natCast]


/-- **AVG of any number of arguments lies between their MIN and MAX** (exact carrier), and is Σ/n. -/
theorem rat_avg_between (x y : Rat) (rest : List Rat) (now : Int) :
    ∃ lo hi m : Rat,
      applyFn true now "MIN" ((x :: y :: rest).map Val.f) = .val (.f lo) ∧
      applyFn true now "MAX" ((x :: y :: rest).map Val.f) = .val (.f hi) ∧
      applyFn true now "AVG" ((x :: y :: rest).map Val.f) = .val (.f m) ∧
      lo ∈ x :: y :: rest ∧ hi ∈ x :: y :: rest ∧ (∀ v ∈ x :: y :: rest, lo ≤ v ∧ v ≤ hi) ∧
      m * ((x :: y :: rest).length : Rat) = (x :: y :: rest).sum ∧ lo ≤ m ∧ m ≤ hi := by
  have hS : ∀ v ∈ (x :: y :: rest).map Val.f, ∃ a : Rat, v = .f a := by
    intro v hv; obtain ⟨a, _, rfl⟩ := List.mem_map.mp hv; exact ⟨a, rfl⟩
  have w := weakOrderOn_ratFloats _ hS
  have hmem : ∀ v ∈ (y :: rest).map Val.f, v ∈ (x :: y :: rest).map Val.f := by
    intro v hv; simp only [List.map] at hv ⊢; exact List.mem_cons_of_mem _ hv
  obtain ⟨a1, a2, a3⟩ := minFold_spec _ w ((y :: rest).map Val.f) (Val.f x) (by simp) hmem
  obtain ⟨b1, b2, b3⟩ := maxFold_spec _ w ((y :: rest).map Val.f) (Val.f x) (by simp) hmem
  have a1' : minFold (Val.f x) ((y :: rest).map Val.f) ∈ (x :: y :: rest).map Val.f := by simpa using a1
  have b1' : maxFold (Val.f x) ((y :: rest).map Val.f) ∈ (x :: y :: rest).map Val.f := by simpa using b1
  obtain ⟨lo, hlo, elo⟩ := List.mem_map.mp a1'
  obtain ⟨hi, hhi, ehi⟩ := List.mem_map.mp b1'
  have hbounds : ∀ v ∈ x :: y :: rest, lo ≤ v ∧ v ≤ hi := by
    intro v hv
    have hv' : Val.f v ∈ Val.f x :: (y :: rest).map Val.f := by
      have : Val.f v ∈ (x :: y :: rest).map Val.f := List.mem_map.mpr ⟨v, hv, rfl⟩
      simpa using this
    constructor
    · have : vlt (Val.f v) (minFold (Val.f x) ((y :: rest).map Val.f)) = false := by
        rcases List.mem_cons.mp hv' with h | h
        · rw [h]; exact a2
        · exact a3 _ h
      rw [← elo, rvlt] at this
      simp at this; exact Rat.not_lt.mp this
    · have : vlt (maxFold (Val.f x) ((y :: rest).map Val.f)) (Val.f v) = false := by
        rcases List.mem_cons.mp hv' with h | h
        · rw [h]; exact b2
        · exact b3 _ h
      rw [← ehi, rvlt] at this
      simp at this; exact Rat.not_lt.mp this
  have hn : (0 : Rat) < ((x :: y :: rest).length : Rat) := by
    simp only [List.length_cons]
    have : ((rest.length + 1 + 1 : Nat) : Rat) = (rest.length : Rat) + 1 + 1 := by simp
    rw [this]
    have : (0 : Rat) ≤ (rest.length : Rat) := Rat.natCast_nonneg
    grind
  have h1 := sum_ge_of_le lo (x :: y :: rest) (fun v hv => (hbounds v hv).1)
  have h2 := sum_le_of_le hi (x :: y :: rest) (fun v hv => (hbounds v hv).2)
  obtain ⟨d1, d2⟩ := div_between lo hi _ _ hn h1 h2
  refine ⟨lo, hi, (x :: y :: rest).sum / ((x :: y :: rest).length : Rat), ?_, ?_, rat_avg_value x y rest now,
    hlo, hhi, hbounds, ?_, d1, d2⟩
  · show fnMin ((x :: y :: rest).map Val.f) = _
    simp only [List.map, fnMin]
    simp only [List.map] at elo
    rw [elo]
  · show fnMax ((x :: y :: rest).map Val.f) = _
    simp only [List.map, fnMax]
    simp only [List.map] at ehi
    rw [ehi]
  · rw [Rat.div_def, Rat.mul_assoc, Rat.mul_comm _⁻¹, Rat.mul_inv_cancel _ (by grind), Rat.mul_one]


/-! ### n-point LUTLI -/

/-- a table point with rational coordinates -/
def toPt (p : Rat × Rat) : Pt Rat := (.f p.1, .f p.2)
def IsR (p : Pt Rat) : Prop := ∃ a b : Rat, p = (.f a, .f b)
def ratOf : Val Rat → Rat
  | .f a => a
  | _ => 0
/-- x and y of a point -/
def kx (p : Pt Rat) : Rat := ratOf p.1
def ky (p : Pt Rat) : Rat := ratOf p.2

/-- `y` is what LUTLI returns at `x` between the points `p` and `q` (`p.x ≤ x ≤ q.x`): the linear interpolation — the
first point's y on a vertical segment — which lies between the two y's. -/
def Interp (x : Rat) (p q : Pt Rat) (y : Rat) : Prop :=
  (kx p = kx q → y = ky p) ∧
  (kx p < kx q → y = ky p + (ky q - ky p) * (x - kx p) / (kx q - kx p)) ∧
  min (ky p) (ky q) ≤ y ∧ y ≤ max (ky p) (ky q)

theorem rat_interp (x a1 b1 a2 b2 : Rat) (h : a1 ≠ a2) :
    interp (Val.f x) (Val.f a1, Val.f b1) (Val.f a2, Val.f b2) = .val (.f (b1 + (b2 - b1) * (x - a1) / (a2 - a1))) := by
  have a5 : ¬ a2 - a1 = 0 := by grind
  simp [interp, vsub, vmul, vadd, arith, Val.int?, toFloat, PyFloat.sub, PyFloat.mul, PyFloat.add, truthy, PyFloat.zero,
    PyFloat.beq, a5, vdiv, PyFloat.div, ofExcept]

theorem rat_interp_between (x a1 b1 a2 b2 : Rat) (h12 : a1 < a2) (h1 : a1 ≤ x) (h2 : x ≤ a2) :
    min b1 b2 ≤ b1 + (b2 - b1) * (x - a1) / (a2 - a1) ∧ b1 + (b2 - b1) * (x - a1) / (a2 - a1) ≤ max b1 b2 := by
  obtain ⟨y, _, hy, hlo, hhi⟩ := rat_lutli2_between x a1 b1 a2 b2 0 h12 h1 h2
  rw [hy] at hlo hhi
  exact ⟨hlo, hhi⟩

/-- The scan of `LUTLIFunction._eval` over a table sorted by x, entered with the first point at or left of `x`:
either x is right of every point and the last (largest-x) point's y comes out, or it stops at the two consecutive
points bracketing x. -/
theorem lutliGo_rat (x : Rat) : ∀ (l : List (Pt Rat)) (p1 : Pt Rat),
    (∀ p ∈ p1 :: l, IsR p) → (p1 :: l).Pairwise (fun p q => kx p ≤ kx q) → kx p1 ≤ x →
    ∃ y : Rat, lutliGo (Val.f x) (p1 :: l) = .val (.f y) ∧
      (((∀ r ∈ p1 :: l, kx r < x) ∧ ∃ p ∈ p1 :: l, y = ky p ∧ ∀ r ∈ p1 :: l, kx r ≤ kx p) ∨
       (∃ p ∈ p1 :: l, ∃ q ∈ p1 :: l, kx p1 ≤ kx p ∧ kx p ≤ x ∧ x ≤ kx q ∧
          (∀ r ∈ p1 :: l, kx r ≤ kx p ∨ kx q ≤ kx r) ∧ Interp x p q y)) := by
  intro l
  induction l with
  | nil =>
    intro p1 hR _ h1
    obtain ⟨a, b, rfl⟩ := hR p1 (by simp)
    refine ⟨b, by simp [lutliGo], ?_⟩
    have hk : kx (Val.f a, Val.f b) = a := rfl
    have hy : ky (Val.f a, Val.f b) = b := rfl
    by_cases hlt : a < x
    · left
      refine ⟨?_, (Val.f a, Val.f b), by simp, hy.symm, ?_⟩
      · intro r hr; simp at hr; rw [hr, hk]; exact hlt
      · intro r hr; simp at hr; rw [hr]; exact Rat.le_refl
    · right
      rw [hk] at h1
      have hax : a = x := by grind
      refine ⟨(Val.f a, Val.f b), by simp, (Val.f a, Val.f b), by simp, Rat.le_refl, ?_, ?_, ?_, ?_⟩
      · rw [hk]; exact h1
      · rw [hk, hax]; exact Rat.le_refl
      · intro r hr; simp at hr; rw [hr]; exact Or.inl Rat.le_refl
      · refine ⟨fun _ => hy.symm, ?_, ?_, ?_⟩
        · intro h; exact absurd h Rat.lt_irrefl
        · rw [hy]; grind
        · rw [hy]; grind
  | cons p2 rest ih =>
    intro p1 hR hs h1
    obtain ⟨a1, b1, rfl⟩ := hR p1 (by simp)
    obtain ⟨a2, b2, rfl⟩ := hR p2 (by simp)
    have hk1 : kx (Val.f a1, Val.f b1) = a1 := rfl
    have hy1 : ky (Val.f a1, Val.f b1) = b1 := rfl
    have hk2 : kx (Val.f a2, Val.f b2) = a2 := rfl
    have hy2 : ky (Val.f a2, Val.f b2) = b2 := rfl
    rw [List.pairwise_cons] at hs
    have h12 : a1 ≤ a2 := by have := hs.1 (Val.f a2, Val.f b2) (by simp); rwa [hk1, hk2] at this
    have hs2 := hs.2
    rw [List.pairwise_cons] at hs2
    rw [hk1] at h1
    simp only [lutliGo, vgt, rvlt, rveq]
    by_cases hgt : a2 < x
    · simp only [hgt, decide_true, if_true]
      obtain ⟨y, hres, hcase⟩ := ih (Val.f a2, Val.f b2) (fun p hp => hR p (List.mem_cons_of_mem _ hp)) hs.2
        (by rw [hk2]; exact Rat.le_of_lt hgt)
      refine ⟨y, hres, ?_⟩
      rcases hcase with ⟨hall, p, hp, hyp, hmax⟩ | ⟨p, hp, q, hq, hpk, hpx, hxq, hbet, hint⟩
      · left
        refine ⟨?_, p, List.mem_cons_of_mem _ hp, hyp, ?_⟩
        · intro r hr
          rcases List.mem_cons.mp hr with h | h
          · rw [h, hk1]; grind
          · exact hall r h
        · intro r hr
          rcases List.mem_cons.mp hr with h | h
          · have := hmax (Val.f a2, Val.f b2) (by simp)
            rw [h, hk1]; rw [hk2] at this; exact Rat.le_trans h12 this
          · exact hmax r h
      · right
        rw [hk2] at hpk
        refine ⟨p, List.mem_cons_of_mem _ hp, q, List.mem_cons_of_mem _ hq, ?_, hpx, hxq, ?_, hint⟩
        · rw [hk1]; exact Rat.le_trans h12 hpk
        · intro r hr
          rcases List.mem_cons.mp hr with h | h
          · left; rw [h, hk1]; exact Rat.le_trans h12 hpk
          · exact hbet r h
    · simp only [hgt, decide_false, Bool.false_eq_true, if_false]
      have hx2 : x ≤ a2 := Rat.not_lt.mp hgt
      have hbet : ∀ r ∈ (Val.f a1, Val.f b1) :: (Val.f a2, Val.f b2) :: rest,
          kx r ≤ kx (Val.f a1, Val.f b1) ∨ kx (Val.f a2, Val.f b2) ≤ kx r := by
        intro r hr
        rcases List.mem_cons.mp hr with h | h
        · left; rw [h]; exact Rat.le_refl
        · right
          rcases List.mem_cons.mp h with h' | h'
          · rw [h']; exact Rat.le_refl
          · exact hs2.1 r h'
      by_cases heq : a1 = a2
      · have hd : decide (a1 = a2) = true := by simp [heq]
        simp only [hd, if_true]
        refine ⟨b1, rfl, Or.inr ⟨(Val.f a1, Val.f b1), by simp, (Val.f a2, Val.f b2), by simp, Rat.le_refl, ?_, ?_, hbet, ?_⟩⟩
        · rw [hk1]; exact h1
        · rw [hk2]; exact hx2
        · refine ⟨fun _ => hy1.symm, ?_, ?_, ?_⟩
          · intro h; rw [hk1, hk2, heq] at h; exact absurd h Rat.lt_irrefl
          · rw [hy1, hy2]; grind
          · rw [hy1, hy2]; grind
      · have hd : decide (a1 = a2) = false := by simp [heq]
        simp only [hd, Bool.false_eq_true, if_false]
        have hlt : a1 < a2 := by grind
        obtain ⟨hb1, hb2⟩ := rat_interp_between x a1 b1 a2 b2 hlt h1 hx2
        refine ⟨b1 + (b2 - b1) * (x - a1) / (a2 - a1), rat_interp x a1 b1 a2 b2 heq,
          Or.inr ⟨(Val.f a1, Val.f b1), by simp, (Val.f a2, Val.f b2), by simp, Rat.le_refl, ?_, ?_, hbet, ?_⟩⟩
        · rw [hk1]; exact h1
        · rw [hk2]; exact hx2
        · refine ⟨?_, fun _ => ?_, ?_, ?_⟩
          · intro h; rw [hk1, hk2] at h; exact absurd h heq
          · rw [hk1, hk2, hy1, hy2]
          · rw [hy1, hy2]; exact hb1
          · rw [hy1, hy2]; exact hb2


/-- **n-point LUTLI over the exact carrier** (any number of points, any order, equal x's allowed): left of the table
it yields the y of a point with the smallest x, right of it the y of a point with the largest x; inside, it is the
linear interpolation between two table points `p`, `q` that bracket x with no table point strictly between them, and
lies between their y's. -/
theorem lutli_rat_spec (x : Rat) (pts : List (Rat × Rat)) (hne : pts ≠ []) :
    ∃ y : Rat, lutli (Val.f x) (pts.map toPt) = .val (.f y) ∧
      (((∀ r ∈ pts, x < r.1) ∧ ∃ p ∈ pts, y = p.2 ∧ ∀ r ∈ pts, p.1 ≤ r.1) ∨
       ((∀ r ∈ pts, r.1 < x) ∧ ∃ p ∈ pts, y = p.2 ∧ ∀ r ∈ pts, r.1 ≤ p.1) ∨
       (∃ p ∈ pts, ∃ q ∈ pts, p.1 ≤ x ∧ x ≤ q.1 ∧ (∀ r ∈ pts, r.1 ≤ p.1 ∨ q.1 ≤ r.1) ∧
          (p.1 = q.1 → y = p.2) ∧ (p.1 < q.1 → y = p.2 + (q.2 - p.2) * (x - p.1) / (q.1 - p.1)) ∧
          min p.2 q.2 ≤ y ∧ y ≤ max p.2 q.2)) := by
  have hkeys : ∀ v ∈ (pts.map toPt).map (·.1), ∃ a : Rat, v = .f a := by
    intro v hv
    obtain ⟨q, hq, rfl⟩ := List.mem_map.mp hv
    obtain ⟨r, _, rfl⟩ := List.mem_map.mp hq
    exact ⟨r.1, rfl⟩
  have hsorted := sortPts_sorted (pts.map toPt) (weakOrderOn_ratFloats _ hkeys)
  have hmem := mem_sortPts (pts.map toPt)
  have hlen := sortPts_length (pts.map toPt)
  -- membership both ways between the sorted table and `pts`
  have hfrom : ∀ q ∈ sortPts (pts.map toPt), ∃ r ∈ pts, q = toPt r := by
    intro q hq
    obtain ⟨r, hr, rfl⟩ := List.mem_map.mp ((hmem q).mp hq)
    exact ⟨r, hr, rfl⟩
  have hto : ∀ r ∈ pts, toPt r ∈ sortPts (pts.map toPt) := fun r hr => (hmem _).mpr (List.mem_map.mpr ⟨r, hr, rfl⟩)
  have hR : ∀ q ∈ sortPts (pts.map toPt), IsR q := by
    intro q hq; obtain ⟨r, _, rfl⟩ := hfrom q hq; exact ⟨r.1, r.2, rfl⟩
  have hpw : (sortPts (pts.map toPt)).Pairwise (fun p q => kx p ≤ kx q) := by
    refine List.Pairwise.imp_of_mem ?_ hsorted
    intro p q hp hq hle
    obtain ⟨a, b, rfl⟩ := hR p hp
    obtain ⟨c, d, rfl⟩ := hR q hq
    have : vlt (Val.f c) (Val.f a) = false := hle
    rw [rvlt] at this
    simp at this
    exact Rat.not_lt.mp this
  unfold lutli
  cases hsp : sortPts (pts.map toPt) with
  | nil =>
    rw [hsp] at hlen; simp at hlen; exact absurd (List.eq_nil_of_length_eq_zero hlen.symm) hne
  | cons p rest =>
    rw [hsp] at hfrom hto hR hpw
    obtain ⟨r0, hr0, rfl⟩ := hfrom p (by simp)
    have hk0 : kx (toPt r0) = r0.1 := rfl
    simp only [toPt, rvlt]
    by_cases hlt : x < r0.1
    · simp only [hlt, decide_true, if_true]
      refine ⟨r0.2, rfl, Or.inl ⟨?_, r0, hr0, rfl, ?_⟩⟩
      · intro r hr
        have h1 := hto r hr
        rw [List.pairwise_cons] at hpw
        rcases List.mem_cons.mp h1 with h | h
        · have : r.1 = r0.1 := by have := congrArg kx h; exact this
          rw [this]; exact hlt
        · have := hpw.1 _ h
          have e : kx (toPt r) = r.1 := rfl
          rw [hk0, e] at this
          grind
      · intro r hr
        have h1 := hto r hr
        rw [List.pairwise_cons] at hpw
        rcases List.mem_cons.mp h1 with h | h
        · have : r.1 = r0.1 := by have := congrArg kx h; exact this
          rw [this]; exact Rat.le_refl
        · have := hpw.1 _ h
          exact this
    · simp only [hlt, decide_false, Bool.false_eq_true, if_false]
      obtain ⟨y, hres, hcase⟩ := lutliGo_rat x rest (toPt r0) hR hpw (by rw [hk0]; exact Rat.not_lt.mp hlt)
      refine ⟨y, hres, Or.inr ?_⟩
      rcases hcase with ⟨hall, p, hp, hyp, hmax⟩ | ⟨p, hp, q, hq, _, hpx, hxq, hbet, hi1, hi2, hi3, hi4⟩
      · left
        obtain ⟨rp, hrp, rfl⟩ := hfrom p hp
        exact ⟨fun r hr => hall _ (hto r hr), rp, hrp, hyp, fun r hr => hmax _ (hto r hr)⟩
      · right
        obtain ⟨rp, hrp, rfl⟩ := hfrom p hp
        obtain ⟨rq, hrq, rfl⟩ := hfrom q hq
        exact ⟨rp, hrp, rq, hrq, hpx, hxq, fun r hr => hbet _ (hto r hr), hi1, hi2, hi3, hi4⟩


/-- the argument list `x1, y1, x2, y2, …` of a table -/
def flatPts : List (Rat × Rat) → List (Val Rat)
  | [] => []
  | p :: rest => .f p.1 :: .f p.2 :: flatPts rest

theorem pairUp_flatPts (pts : List (Rat × Rat)) : pairUp (flatPts pts) = pts.map toPt := by
  induction pts with
  | nil => rfl
  | cons p rest ih => simp [flatPts, pairUp, ih, toPt]

theorem applyFn_lutli_flat (x : Rat) (p q : Rat × Rat) (rest : List (Rat × Rat)) (now : Int) :
    applyFn true now "LUTLI" (Val.f x :: flatPts (p :: q :: rest)) = lutli (Val.f x) ((p :: q :: rest).map toPt) := by
  show fnLutli (Val.f x :: flatPts (p :: q :: rest)) = _
  rw [← pairUp_flatPts]
  rfl

end QtVerif.Eval
