import QtVerif.Model.Faults
import QtVerif.Proofs.FaultsD
namespace QtVerif.Faults

/-- No driver call ever raises something that `except Exception` does not catch. -/
def NoEscape (E : Env) : Prop := ∀ p n, E.rd p n ≠ .escape ∧ E.hb p n ≠ .escape
def NoEscapeH (E : Env) : Prop := ∀ j p now o n, E.hd j p now o n ≠ .escape

/-- the read fails: SkipRead, an Exception, or worse -/
def ROut.failing : ROut → Bool
  | .skip | .raise | .escape => true
  | _ => false

/-- what a read outcome makes of the last value -/
def ROut.adopted (o : ROut) (reg last : Val) : Val :=
  match o with
  | .ok => reg
  | .val v => v
  | _ => last

theorem hbStep_fields (E : Env) (sec : Bool) (a : Acc) (p : Port) :
    (hbStep E sec a p).2.id = p.id ∧ (hbStep E sec a p).2.nrd = p.nrd ∧ (hbStep E sec a p).2.last = p.last ∧
    (hbStep E sec a p).2.reg = p.reg ∧ (hbStep E sec a p).2.enabled = p.enabled ∧
    (hbStep E sec a p).1.errs = a.errs ∧ (hbStep E sec a p).1.changed = a.changed := by
  unfold hbStep; cases sec <;> simp

theorem hbStep_noabort (E : Env) (hne : NoEscape E) (sec : Bool) (a : Acc) (p : Port) (ha : a.aborted = false) :
    (hbStep E sec a p).1.aborted = false := by
  unfold hbStep
  cases sec
  · simpa using ha
  · have := (hne p.id p.nhb).2
    cases h : E.hb p.id p.nhb <;> simp_all

/-- the read part of one port's step, when it is reached -/
theorem readStep_spec (P : Params) (E : Env) (now : Nat) (a : Acc) (p : Port) :
    ((errContains P.retry now a.errs p.id).1 = true → readStep P E now a p = (a, p)) ∧
    ((errContains P.retry now a.errs p.id).1 = false →
      (readStep P E now a p).2.nrd = p.nrd + 1 ∧
      (readStep P E now a p).2.last = (E.rd p.id p.nrd).adopted p.reg p.last ∧
      (readStep P E now a p).1.trace.head? = some (.read p.id (E.rd p.id p.nrd))) := by
  constructor
  · intro h; unfold readStep; simp [h]
  · intro h
    unfold readStep
    simp only [h, Bool.false_eq_true, if_false]
    cases E.rd p.id p.nrd <;> simp [adopt, ROut.adopted] <;> split <;> simp_all

theorem readStep_noabort (P : Params) (E : Env) (hne : NoEscape E) (now : Nat) (a : Acc) (p : Port)
    (ha : a.aborted = false) : (readStep P E now a p).1.aborted = false := by
  unfold readStep
  split
  · exact ha
  · have := (hne p.id p.nrd).1
    cases h : E.rd p.id p.nrd <;> simp_all [adopt] <;> split <;> simp_all

theorem pollPort_noabort (P : Params) (E : Env) (hne : NoEscape E) (now : Nat) (sec : Bool) (a : Acc) (p : Port)
    (ha : a.aborted = false) : (pollPort P E now sec a p).1.aborted = false := by
  unfold pollPort
  split
  · exact ha
  · have h1 := hbStep_noabort E hne sec a p ha
    simp only [h1, Bool.false_eq_true, if_false]
    exact readStep_noabort P E hne now _ _ h1

theorem pollAll_noabort (P : Params) (E : Env) (hne : NoEscape E) (now : Nat) (sec : Bool) :
    ∀ (ps : List Port) (a : Acc), a.aborted = false → (pollAll P E now sec a ps).1.aborted = false := by
  intro ps
  induction ps with
  | nil => intro a ha; exact ha
  | cons p ps ih => intro a ha; simp only [pollAll]; exact ih _ (pollPort_noabort P E hne now sec a p ha)

theorem inner_noabort (E : Env) (hneh : NoEscapeH E) (now : Nat) (c : PortId × Val × Val) :
    ∀ (js : List Nat) (st : List Obs × Bool), st.2 = false → (js.foldl (deliverTo E now c) st).2 = false := by
  intro js
  induction js with
  | nil => intro st h; exact h
  | cons j js ih =>
    intro st h
    simp only [List.foldl_cons]
    apply ih
    unfold deliverTo
    have := hneh j c.1 now c.2.1 c.2.2
    cases h' : E.hd j c.1 now c.2.1 c.2.2 <;> simp_all

theorem deliver_noabort (E : Env) (hneh : NoEscapeH E) (now nh : Nat) :
    ∀ (cs : List (PortId × Val × Val)) (st : List Obs × Bool), st.2 = false → (deliver E now nh st cs).2 = false := by
  intro cs
  induction cs with
  | nil => intro st h; exact h
  | cons c cs ih =>
    intro st h
    simp only [deliver, List.foldl_cons]
    exact ih _ (inner_noabort E hneh now c _ st h)

theorem pass_alive (P : Params) (E : Env) (hne : NoEscape E) (hneh : NoEscapeH E) (k : PassKind) (now : Nat) (s : State) :
    (pass P E k now s).loopAlive = s.loopAlive := by
  unfold pass
  split
  · rfl
  · have h1 := pollAll_noabort P E hne now (now / P.ups != s.lastSec) s.ports ⟨s.errs, s.trace, [], false⟩ rfl
    simp only [h1, Bool.false_eq_true, if_false]
    have h2 := deliver_noabort E hneh now P.nh
      (pollAll P E now (now / P.ups != s.lastSec) ⟨s.errs, s.trace, [], false⟩ s.ports).1.changed
      ((pollAll P E now (now / P.ups != s.lastSec) ⟨s.errs, s.trace, [], false⟩ s.ports).1.trace, false) rfl
    simp only [h2, Bool.false_eq_true, if_false]

theorem step_alive (P : Params) (E : Env) (hne : NoEscape E) (hneh : NoEscapeH E) (s : State) (a : Action) :
    (step P E s a).loopAlive = s.loopAlive := by
  cases a with
  | pass k now => exact pass_alive P E hne hneh k now s
  | _ => rfl

theorem run_alive (P : Params) (E : Env) (hne : NoEscape E) (hneh : NoEscapeH E) :
    ∀ (σ : List Action) (s : State), (run P E s σ).loopAlive = s.loopAlive := by
  intro σ
  induction σ with
  | nil => intro s; rfl
  | cons a σ ih =>
    intro s
    simp only [run, List.foldl_cons] at ih ⊢
    rw [ih, step_alive P E hne hneh]

/-- what one port's step does to that port, when the pass reaches it un-aborted -/
theorem pollPort_spec (P : Params) (E : Env) (hne : NoEscape E) (now : Nat) (sec : Bool) (a : Acc) (p : Port)
    (ha : a.aborted = false) (hen : p.enabled = true) :
    ((errContains P.retry now a.errs p.id).1 = true →
        (pollPort P E now sec a p).2.nrd = p.nrd ∧ (pollPort P E now sec a p).2.last = p.last) ∧
    ((errContains P.retry now a.errs p.id).1 = false →
        (pollPort P E now sec a p).2.nrd = p.nrd + 1 ∧
        (pollPort P E now sec a p).2.last = (E.rd p.id p.nrd).adopted p.reg p.last) := by
  unfold pollPort
  simp only [ha, hen, Bool.not_true, Bool.or_self, Bool.false_eq_true, if_false]
  have h1 := hbStep_noabort E hne sec a p ha
  simp only [h1, Bool.false_eq_true, if_false]
  obtain ⟨f1, f2, f3, f4, _, f6, _⟩ := hbStep_fields E sec a p
  have sp := readStep_spec P E now (hbStep E sec a p).1 (hbStep E sec a p).2
  rw [f1, f2, f3, f4, f6] at sp
  constructor
  · intro h; rw [sp.1 h]; exact ⟨f2, f3⟩
  · intro h; exact ⟨(sp.2 h).1, (sp.2 h).2.1⟩

/-- a failing read (and a port that is not read at all) keeps the last value, whatever else happens -/
theorem pollPort_keeps (P : Params) (E : Env) (now : Nat) (sec : Bool) (a : Acc) (p : Port)
    (hf : (E.rd p.id p.nrd).failing = true) : (pollPort P E now sec a p).2.last = p.last := by
  unfold pollPort
  split
  · rfl
  · obtain ⟨f1, f2, f3, _, _, _, _⟩ := hbStep_fields E sec a p
    split
    · exact f3
    · rw [← f3]
      have hf' : (E.rd (hbStep E sec a p).2.id (hbStep E sec a p).2.nrd).failing = true := by rw [f1, f2]; exact hf
      generalize (hbStep E sec a p).1 = a' at *
      generalize (hbStep E sec a p).2 = p' at *
      unfold readStep
      split
      · rfl
      · cases h : E.rd p'.id p'.nrd <;> simp_all [ROut.failing]
end QtVerif.Faults
