import QtVerif.Model.Core
/-!
C01 — the scheduler invariant (DESIGN Appendix A.3, adapted to the code as read):

for every port `p` carrying an expression `e`
* `MI` (machine facts): the eval task's program counter, the write queue and the in-flight write fit together; while
  the eval task is idle or has a computed result, the port is `Fresh`: its last read value equals the driver register
  (what the confirming poll of the repaired `_eval_and_write` establishes), or a forced evaluation that will be
  preceded by a poll of the port is outstanding (`FO`; what taking the forced set before polling establishes);
* `SI` (semantic facts, for enabled `p` not reading itself): either an obligation is outstanding (`Pending`: forced
  flag / forced set, captured by the running pass, a dependency in the running pass's changed set, or the newest
  queued snapshot agrees with the current values on `deps e`), or the eval queue is empty and the thing in flight
  (computed result, submitted write, written-but-unconfirmed register) is the right one / the port holds the right value.

`inv_step`: every action preserves `Inv`; `inv_quiescent`: a quiescent state satisfying `Inv` is converged.
-/
namespace QtVerif.Core
variable {E : Type}

def Current (cfg : Cfg E) (s : State E) (e : E) (σ : View) : Prop :=
  ∀ q, q ∈ cfg.deps e → (s.port q).enabled = true → σ q = cellOf (s.port q).lastRead

/-- An outstanding obligation: a future evaluation of `p` with a snapshot that is current is guaranteed. -/
def Pending (cfg : Cfg E) (s : State E) (p : PortId) (e : E) : Prop :=
  p ∈ s.forced ∨ s.forceAll = true
  ∨ (∃ ps, s.pass = some ps ∧ (ps.all = true ∨ p ∈ ps.forced ∨ ∃ q, q ∈ cfg.deps e ∧ q ∈ ps.changed))
  ∨ (∃ σ, (s.port p).evalQ.getLast? = some σ ∧ Current cfg s e σ)

/-- A forced evaluation of `p` is outstanding that will be preceded by a poll of `p`: the force is still global
(the next pass takes it before polling), or the running pass took it and has not reached `p` yet. -/
def FO (s : State E) (p : PortId) : Prop :=
  p ∈ s.forced ∨ s.forceAll = true ∨ ∃ ps, s.pass = some ps ∧ (ps.all = true ∨ p ∈ ps.forced) ∧ p ∈ ps.todo

/-- The last read value is the driver's register, or a forced evaluation preceded by a poll is outstanding. -/
def Fresh (s : State E) (p : PortId) : Prop :=
  (s.port p).enabled = true → (s.port p).drv = (s.port p).lastRead ∨ FO s p

def MI (s : State E) (p : PortId) : Prop :=
  match (s.port p).ev with
  | .idle => (s.port p).wq = [] ∧ (s.port p).wr = none ∧ Fresh s p
  | .computed _ => (s.port p).wq = [] ∧ (s.port p).wr = none ∧ Fresh s p
  | .waitW => (∃ x, (s.port p).wq = [x] ∧ (s.port p).wr = none) ∨ ((s.port p).wq = [] ∧ ∃ x, (s.port p).wr = some x)
  | .confirmWant => (s.port p).wq = [] ∧ (s.port p).wr = none
  | .confirmRun => (s.port p).wq = [] ∧ (s.port p).wr = none ∧
      ∃ ps, s.pass = some ps ∧ ps.owner = .evaler p ∧ (p ∉ ps.todo → Fresh s p)

def SI (cfg : Cfg E) (s : State E) (p : PortId) (e : E) : Prop :=
  Pending cfg s p e ∨ ((s.port p).evalQ = [] ∧
    match (s.port p).ev with
    | .idle => Good cfg s p e (s.port p).lastRead
    | .computed r => r = cfg.evalE e (view s)
    | .waitW => ∀ x, (x ∈ (s.port p).wq ∨ (s.port p).wr = some x) → Good cfg s p e x
    | .confirmWant => Good cfg s p e (s.port p).drv
    | .confirmRun => Good cfg s p e (s.port p).drv)

def PassOk (s : State E) : Prop :=
  ∀ ps, s.pass = some ps → ps.todo.Nodup ∧ (ps.handling = true → ps.todo = [])

def Inv (cfg : Cfg E) (s : State E) : Prop :=
  PassOk s ∧ ∀ p, p < cfg.n → ∀ e, (s.port p).expr = some e →
    MI s p ∧ ((s.port p).enabled = true → p ∉ cfg.deps e → SI cfg s p e)

/-! ### frame lemmas -/

/-- `s'` shows the same values as `s` on the ports `e` reads. -/
def SameOn (cfg : Cfg E) (e : E) (s s' : State E) : Prop :=
  ∀ q, q ∈ cfg.deps e → (s'.port q).enabled = (s.port q).enabled ∧ (s'.port q).lastRead = (s.port q).lastRead

def SameView (s s' : State E) : Prop :=
  ∀ q, (s'.port q).enabled = (s.port q).enabled ∧ (s'.port q).lastRead = (s.port q).lastRead

theorem SameView.on {cfg : Cfg E} {s s' : State E} (h : SameView s s') (e : E) : SameOn cfg e s s' :=
  fun q _ => h q

theorem eval_congr {cfg : Cfg E} (hfr : Frame cfg) {s s' : State E} {e} (h : SameOn cfg e s s') :
    cfg.evalE e (view s') = cfg.evalE e (view s) := by
  apply hfr
  intro q hq
  simp [view, (h q hq).1, (h q hq).2]

theorem Good_congr {cfg : Cfg E} (hfr : Frame cfg) {s s' : State E} {e} (h : SameOn cfg e s s') (p x) :
    Good cfg s' p e x ↔ Good cfg s p e x := by
  simp [Good, eval_congr hfr h]

theorem Current_congr {cfg : Cfg E} {s s' : State E} {e} (h : SameOn cfg e s s') (σ) :
    Current cfg s' e σ ↔ Current cfg s e σ := by
  constructor
  · intro hc q hq hen
    have := hc q hq (by rw [(h q hq).1]; exact hen)
    rw [(h q hq).2] at this; exact this
  · intro hc q hq hen
    have := hc q hq (by rw [← (h q hq).1]; exact hen)
    rw [(h q hq).2]; exact this

/-- How the forced set / flag and the running pass may evolve without losing an obligation. -/
structure ObMono (s s' : State E) : Prop where
  forced : ∀ x, x ∈ s.forced → x ∈ s'.forced ∨ ∃ ps', s'.pass = some ps' ∧ x ∈ ps'.forced
  all : s.forceAll = true → s'.forceAll = true ∨ ∃ ps', s'.pass = some ps' ∧ ps'.all = true
  pass : ∀ ps, s.pass = some ps → ∃ ps', s'.pass = some ps' ∧ (ps.all = true → ps'.all = true) ∧
    (∀ x, x ∈ ps.forced → x ∈ ps'.forced) ∧ (∀ x, x ∈ ps.changed → x ∈ ps'.changed)

theorem ObMono.same {s s' : State E} (hf : ∀ x, x ∈ s.forced → x ∈ s'.forced)
    (hfa : s.forceAll = true → s'.forceAll = true) (hp : s'.pass = s.pass) : ObMono s s' :=
  ⟨fun x h => .inl (hf x h), fun h => .inl (hfa h), fun ps h => ⟨ps, by rw [hp]; exact h, id, fun _ h => h, fun _ h => h⟩⟩

theorem Pending_mono {cfg : Cfg E} {s s' : State E} {p e}
    (hv : SameOn cfg e s s') (hm : ObMono s s') (hq : (s'.port p).evalQ = (s.port p).evalQ) :
    Pending cfg s p e → Pending cfg s' p e := by
  intro h
  rcases h with h | h | ⟨ps, h0, h⟩ | ⟨σ, h1, h2⟩
  · rcases hm.forced _ h with h | ⟨ps', h1, h2⟩
    · exact .inl h
    · exact .inr (.inr (.inl ⟨ps', h1, .inr (.inl h2)⟩))
  · rcases hm.all h with h | ⟨ps', h1, h2⟩
    · exact .inr (.inl h)
    · exact .inr (.inr (.inl ⟨ps', h1, .inl h2⟩))
  · obtain ⟨ps', h1, ha, hf, hc⟩ := hm.pass ps h0
    refine .inr (.inr (.inl ⟨ps', h1, ?_⟩))
    rcases h with h | h | ⟨q, hq1, hq2⟩
    · exact .inl (ha h)
    · exact .inr (.inl (hf _ h))
    · exact .inr (.inr ⟨q, hq1, hc _ hq2⟩)
  · exact .inr (.inr (.inr ⟨σ, by rw [hq]; exact h1, (Current_congr hv σ).2 h2⟩))

theorem FO_pending {cfg : Cfg E} {s : State E} {p : PortId} (e : E) (h : FO s p) : Pending cfg s p e := by
  rcases h with h | h | ⟨ps, h1, h2, _⟩
  · exact .inl h
  · exact .inr (.inl h)
  · refine .inr (.inr (.inl ⟨ps, h1, ?_⟩))
    rcases h2 with h2 | h2
    · exact .inl h2
    · exact .inr (.inl h2)

/-- `FO` survives when the forced set / flag only grow and the pass is the same. -/
theorem FO_same {s s' : State E} {p} (hf : ∀ x, x ∈ s.forced → x ∈ s'.forced)
    (hfa : s.forceAll = true → s'.forceAll = true) (hp : s'.pass = s.pass) : FO s p → FO s' p := by
  intro h
  rcases h with h | h | h
  · exact .inl (hf _ h)
  · exact .inr (.inl (hfa h))
  · exact .inr (.inr (by rw [hp]; exact h))

theorem Fresh_other {s s' : State E} {p} (hport : s'.port p = s.port p)
    (hfo : (s.port p).enabled = true → FO s p → FO s' p ∨ (s.port p).drv = (s.port p).lastRead) :
    Fresh s p → Fresh s' p := by
  intro h hen
  rw [hport] at hen ⊢
  rcases h hen with h | h
  · exact .inl h
  · rcases hfo hen h with h | h
    · exact .inr h
    · exact .inl h

/-- `MI` of a port whose record the action does not touch. -/
theorem MI_other {s s' : State E} {p} (hport : s'.port p = s.port p)
    (hpass : ∀ ps, s.pass = some ps → ps.owner = .evaler p → (s.port p).ev = .confirmRun →
      ∃ ps', s'.pass = some ps' ∧ ps'.owner = .evaler p ∧ (p ∉ ps'.todo → p ∉ ps.todo ∨ Fresh s' p))
    (hfo : (s.port p).enabled = true → FO s p → FO s' p ∨ (s.port p).drv = (s.port p).lastRead) :
    MI s p → MI s' p := by
  intro h
  have hfr := Fresh_other hport hfo
  simp only [MI, hport] at h ⊢
  have h2 := h
  split <;> rename_i hev <;> simp only [hev] at h2
  · exact ⟨h2.1, h2.2.1, hfr h2.2.2⟩
  · exact ⟨h2.1, h2.2.1, hfr h2.2.2⟩
  · exact h2
  · exact h2
  · obtain ⟨a, b, ps, h3, h4, h5⟩ := h2
    obtain ⟨ps', g1, g2, g3⟩ := hpass ps h3 h4 hev
    refine ⟨a, b, ps', g1, g2, fun hn => ?_⟩
    rcases g3 hn with g | g
    · exact hfr (h5 g)
    · exact g

theorem MI_other_same {s s' : State E} {p} (hport : s'.port p = s.port p) (hpass : s'.pass = s.pass)
    (hf : ∀ x, x ∈ s.forced → x ∈ s'.forced) (hfa : s.forceAll = true → s'.forceAll = true) :
    MI s p → MI s' p :=
  MI_other hport (fun ps h1 h2 _ => ⟨ps, by rw [hpass]; exact h1, h2, fun h => .inl h⟩)
    (fun _ h => .inl (FO_same hf hfa hpass h))

theorem SI_other {cfg : Cfg E} (hfr : Frame cfg) {s s' : State E} {p e}
    (hv : SameOn cfg e s s') (hm : ObMono s s') (hport : s'.port p = s.port p) :
    SI cfg s p e → SI cfg s' p e := by
  intro h
  rcases h with h | ⟨h1, h2⟩
  · exact .inl (Pending_mono hv hm (by rw [hport]) h)
  · refine .inr ⟨by rw [hport]; exact h1, ?_⟩
    rw [hport]
    simp only [Good_congr hfr hv, eval_congr hfr hv]
    exact h2

theorem setPort_same (s : State E) (a : PortId) (f : PortSt E → PortSt E) :
    (s.setPort a f).port a = f (s.port a) := by simp [State.setPort]

theorem setPort_other (s : State E) {a p : PortId} (f : PortSt E → PortSt E) (h : p ≠ a) :
    (s.setPort a f).port p = s.port p := by simp [State.setPort, h]

theorem sameView_setPort (s : State E) (a : PortId) (f : PortSt E → PortSt E)
    (h : (f (s.port a)).enabled = (s.port a).enabled ∧ (f (s.port a)).lastRead = (s.port a).lastRead) :
    SameView s (s.setPort a f) := by
  intro q
  by_cases hq : q = a
  · subst hq; simp [State.setPort, h]
  · simp [State.setPort, hq]

theorem quiet_iff (P : PortSt E) :
    P.quiet = true ↔ P.evalQ = [] ∧ P.ev = .idle ∧ P.wq = [] ∧ P.wr = none := by
  simp [PortSt.quiet, List.isEmpty_iff, Option.isNone_iff_eq_none, and_assoc]

/-- An action that touches only the record of port `a`, keeps every shown value, only adds to the forced set / flag
and leaves the pass alone: only port `a` has to be re-examined. -/
theorem inv_local {cfg : Cfg E} (hfr : Frame cfg) {s s' : State E} (a : PortId) (hI : Inv cfg s)
    (hv : SameView s s') (hf : ∀ x, x ∈ s.forced → x ∈ s'.forced) (hfa : s.forceAll = true → s'.forceAll = true)
    (hpass : s'.pass = s.pass)
    (hoth : ∀ p, p ≠ a → s'.port p = s.port p)
    (ha : a < cfg.n → ∀ e, (s'.port a).expr = some e →
      MI s' a ∧ ((s'.port a).enabled = true → a ∉ cfg.deps e → SI cfg s' a e)) : Inv cfg s' := by
  obtain ⟨hP, hA⟩ := hI
  refine ⟨by intro ps h; rw [hpass] at h; exact hP ps h, fun p hp e he => ?_⟩
  by_cases hpa : p = a
  · subst hpa; exact ha hp e he
  · have hport := hoth p hpa
    rw [hport] at he
    obtain ⟨hM, hS⟩ := hA p hp e he
    exact ⟨MI_other_same hport hpass hf hfa hM,
      fun hen hd => SI_other hfr (hv.on e) (ObMono.same hf hfa hpass) hport (hS (by rw [hport] at hen; exact hen) hd)⟩

/-- `inv_local` for `s' = s.setPort a f` (plus obligations only growing) with `f` keeping what is shown. -/
theorem inv_setPort {cfg : Cfg E} (hfr : Frame cfg) {s : State E} (a : PortId) (f : PortSt E → PortSt E)
    (hI : Inv cfg s) (hf : ∀ P, (f P).enabled = P.enabled ∧ (f P).lastRead = P.lastRead)
    (ha : SameView s (s.setPort a f) → a < cfg.n → ∀ e, (f (s.port a)).expr = some e →
      MI (s.setPort a f) a ∧ ((f (s.port a)).enabled = true → a ∉ cfg.deps e → SI cfg (s.setPort a f) a e)) :
    Inv cfg (s.setPort a f) := by
  have hv : SameView s (s.setPort a f) := sameView_setPort _ _ _ (hf _)
  refine inv_local hfr a hI hv (fun _ h => h) id rfl (fun p hp => setPort_other s _ hp) ?_
  intro hp e he
  simp only [setPort_same] at he ⊢
  exact ha hv hp e he

/-- `Fresh` of the touched port when the record keeps `enabled`, `drv`, `lastRead`. -/
theorem Fresh_setPort {s : State E} {a : PortId} {f : PortSt E → PortSt E}
    (h1 : (f (s.port a)).enabled = (s.port a).enabled) (h2 : (f (s.port a)).drv = (s.port a).drv)
    (h3 : (f (s.port a)).lastRead = (s.port a).lastRead) : Fresh s a → Fresh (s.setPort a f) a := by
  intro h hen
  simp only [setPort_same, h1, h2, h3] at hen ⊢
  rcases h hen with h | h
  · exact .inl h
  · exact .inr h

theorem Pending_setPort {cfg : Cfg E} {s : State E} {a : PortId} {f : PortSt E → PortSt E} {e}
    (hv : SameView s (s.setPort a f)) (hq : (f (s.port a)).evalQ = (s.port a).evalQ) :
    Pending cfg s a e → Pending cfg (s.setPort a f) a e :=
  Pending_mono (hv.on e) (ObMono.same (fun _ h => h) id rfl) (by simp [setPort_same, hq])

/-- What an evaluation sees through a snapshot that is current is the current view (on the ports it reads). -/
theorem eff_current {cfg : Cfg E} {s : State E} {e σ} (h : Current cfg s e σ) :
    ∀ q, q ∈ cfg.deps e → eff s σ q = view s q := by
  intro q hq
  simp only [eff, view]
  split
  · rename_i hen
    rw [h q hq hen]
    cases (s.port q).lastRead <;> simp [cellOf]
  · rfl

/-! ### the actions -/

theorem inv_init (cfg : Cfg E) (p0 : PortId → PortSt E) (h0 : InitOk p0) : Inv cfg (State.init p0) := by
  refine ⟨by intro ps h; simp [State.init] at h, fun p _ e he => ?_⟩
  have hq := h0 p
  simp only [State.init] at he
  rw [quiet_iff] at hq
  obtain ⟨h1, h2, h3, h4⟩ := hq
  refine ⟨?_, fun _ _ => .inl (.inr (.inl rfl))⟩
  simp only [MI, State.init, h2]
  exact ⟨h3, h4, fun _ => .inr (.inr (.inl rfl))⟩

theorem inv_writeBegin {cfg : Cfg E} (hfr : Frame cfg) (s s' : State E) (a : PortId) (hI : Inv cfg s)
    (h : step? cfg s (.writeBegin a) = some s') : Inv cfg s' := by
  simp only [step?] at h
  split at h
  · split at h
    · simp at h
    · rename_i x rest hq
      simp at h; subst h
      have hv : SameView s (s.setPort a fun P => { P with wq := rest, wr := some x }) :=
        sameView_setPort _ _ _ (by simp)
      refine inv_local hfr a hI hv (fun _ h => h) id rfl (fun p hp => setPort_other s _ hp) ?_
      intro hp e he
      simp only [setPort_same] at he ⊢
      obtain ⟨hM, hS⟩ := hI.2 a hp e he
      constructor
      · simp only [MI, setPort_same] at hM ⊢
        have := hM
        split <;> rename_i hev <;> simp only [hev] at this
        · simp [hq] at this
        · simp [hq] at this
        · rcases this with ⟨y, h1, h2⟩ | ⟨h1, _⟩
          · rw [hq] at h1
            simp at h1
            exact .inr ⟨h1.2, _, rfl⟩
          · simp [hq] at h1
        · simp [hq] at this
        · simp [hq] at this
      · intro hen hd
        rcases hS hen hd with hS | ⟨h1, h2⟩
        · exact .inl (Pending_mono (hv.on e) (ObMono.same (fun _ h => h) id rfl) (by simp [setPort_same]) hS)
        · refine .inr ⟨by simp [setPort_same]; exact h1, ?_⟩
          simp only [setPort_same, Good_congr hfr (hv.on e), eval_congr hfr (hv.on e)]
          split <;> rename_i hev <;> simp only [hev] at h2 <;> first | (simp_all; done) | grind
  · simp at h

theorem inv_writeEnd {cfg : Cfg E} (hfr : Frame cfg) (hrc : cfg.repConfirm = true) (s s' : State E) (a : PortId)
    (hI : Inv cfg s) (h : step? cfg s (.writeEnd a) = some s') : Inv cfg s' := by
  simp only [step?] at h
  split at h
  · rename_i x hw
    simp at h; subst h
    refine inv_setPort hfr a _ hI (by intro P; simp) ?_
    intro hv hp e he
    simp only at he
    obtain ⟨hM, hS⟩ := hI.2 a hp e he
    -- the only program counter compatible with an in-flight write is `waitW`
    have hev : (s.port a).ev = .waitW := by
      have := hM
      simp only [MI] at this
      split at this <;> rename_i hev <;> simp_all
    have hwq : (s.port a).wq = [] := by
      have := hM
      simp only [MI, hev] at this
      rcases this with ⟨y, _, h2⟩ | ⟨h1, _⟩
      · simp [hw] at h2
      · exact h1
    constructor
    · simp only [MI, setPort_same, hev, hrc, ↓reduceIte] at hM ⊢
      exact ⟨hwq, trivial⟩
    · intro hen hd
      rcases hS hen hd with hS | ⟨h1, h2⟩
      · exact .inl (Pending_setPort hv rfl hS)
      · refine .inr ⟨by simp [setPort_same]; exact h1, ?_⟩
        simp only [hev] at h2
        have hG := (Good_congr hfr (hv.on e) a x).2 (h2 x (.inr hw))
        simp only [setPort_same, hev, hrc, ↓reduceIte] at hG ⊢
        exact hG
  · simp at h

theorem inv_evalCmp {cfg : Cfg E} (hfr : Frame cfg) (s s' : State E) (a : PortId)
    (hI : Inv cfg s) (h : step? cfg s (.evalCmp a) = some s') : Inv cfg s' := by
  simp only [step?] at h
  split at h
  · rename_i r hev
    -- common shape: the port's record changes in `ev` and `wq` only
    have key : ∀ (f : PortSt E → PortSt E) (ev' : Ev) (wq' : List (Option Int)),
        s.setPort a f = s' → (∀ P, (f P).enabled = P.enabled ∧ (f P).lastRead = P.lastRead) →
        f (s.port a) = { s.port a with ev := ev', wq := wq' } →
        (ev' = .idle ∧ wq' = (s.port a).wq ∧ (∀ e, r = cfg.evalE e (view s) → Good cfg s a e (s.port a).lastRead)
          ∨ ∃ x, ev' = .waitW ∧ wq' = (s.port a).wq ++ [x] ∧ (∀ e, r = cfg.evalE e (view s) → Good cfg s a e x)) →
        Inv cfg s' := by
      intro f ev' wq' hs' hfv hfa hcase
      subst hs'
      refine inv_setPort hfr a f hI hfv ?_
      intro hv hp e he
      rw [hfa] at he
      simp only at he
      obtain ⟨hM, hS⟩ := hI.2 a hp e he
      have hM2 := hM
      simp only [MI, hev] at hM2
      constructor
      · simp only [MI, setPort_same, hfa]
        have hfresh : Fresh (s.setPort a f) a :=
          Fresh_setPort (by rw [hfa]) (by rw [hfa]) (by rw [hfa]) hM2.2.2
        rcases hcase with ⟨h1, h2, _⟩ | ⟨x, h1, h2, _⟩
        · subst h1; subst h2; exact ⟨hM2.1, hM2.2.1, hfresh⟩
        · subst h1; subst h2; exact .inl ⟨x, by simp [hM2.1], hM2.2.1⟩
      · intro hen hd
        rw [hfa] at hen
        rcases hS hen hd with hS | ⟨h1, h2⟩
        · exact .inl (Pending_setPort hv (by rw [hfa]) hS)
        · refine .inr ⟨by simp [setPort_same, hfa]; exact h1, ?_⟩
          simp only [hev] at h2
          simp only [setPort_same, Good_congr hfr (hv.on e), hfa]
          rcases hcase with ⟨g1, _, g3⟩ | ⟨x, g1, g2, g3⟩
          · subst g1; exact g3 e h2
          · subst g1; subst g2
            intro y hy
            simp [hM2.1, hM2.2.1] at hy
            subst hy; exact g3 e h2
    cases r with
    | error =>
      simp at h
      exact key _ .idle (s.port a).wq h (by intro P; simp) rfl (.inl ⟨rfl, rfl, fun e he => by simp [Good, ← he]⟩)
    | val x =>
      simp only at h
      split at h
      · rename_i hc
        simp at h
        exact key _ .idle (s.port a).wq h (by intro P; simp) rfl
          (.inl ⟨rfl, rfl, fun e he => by simp [Good, ← he, hc]⟩)
      · simp at h
        exact key _ .waitW ((s.port a).wq ++ [some (cfg.adapt a x)]) h (by intro P; simp) rfl
          (.inr ⟨_, rfl, rfl, fun e he => by simp [Good, ← he]⟩)
    | unavail =>
      simp only at h
      split at h
      · rename_i hc
        simp at h
        exact key _ .idle (s.port a).wq h (by intro P; simp) rfl
          (.inl ⟨rfl, rfl, fun e he => by simp [Good, ← he, hc]⟩)
      · simp at h
        exact key _ .waitW ((s.port a).wq ++ [none]) h (by intro P; simp) rfl
          (.inr ⟨_, rfl, rfl, fun e he => by simp [Good, ← he]⟩)
  · simp at h

theorem inv_setSource {cfg : Cfg E} (hfr : Frame cfg) (s s' : State E) (a : PortId) (v : Option Int)
    (hI : Inv cfg s) (h : step? cfg s (.setSource a v) = some s') : Inv cfg s' := by
  simp only [step?] at h
  split at h
  · rename_i hg
    simp at h; subst h
    refine inv_setPort hfr a _ hI (by intro P; simp) ?_
    intro _ _ e he
    simp only at he
    simp [he] at hg
  · simp at h

theorem inv_apiWrite {cfg : Cfg E} (hfr : Frame cfg) (s s' : State E) (a : PortId) (v : Option Int)
    (hI : Inv cfg s) (h : step? cfg s (.apiWrite a v) = some s') : Inv cfg s' := by
  simp only [step?] at h
  split at h
  · rename_i hg
    simp at h; subst h
    refine inv_setPort hfr a _ hI (by intro P; simp) ?_
    intro _ _ e he
    simp only at he
    simp [he] at hg
  · simp at h

theorem inv_clearExpr {cfg : Cfg E} (hfr : Frame cfg) (s s' : State E) (a : PortId)
    (hI : Inv cfg s) (h : step? cfg s (.clearExpr a) = some s') : Inv cfg s' := by
  simp only [step?] at h
  simp at h; subst h
  refine inv_setPort hfr a _ hI (by intro P; simp) ?_
  intro _ _ e he
  simp at he

/-- `MI` of a port whose record changes in `expr` only, when a forced evaluation of it is outstanding afterwards. -/
theorem MI_reexpr {s s' : State E} {p} (eo : Option E) (hport : s'.port p = { s.port p with expr := eo })
    (hpass : s'.pass = s.pass) (hfo : FO s' p) : MI s p → MI s' p := by
  intro h
  have hfresh : Fresh s' p := fun _ => .inr hfo
  simp only [MI, hport, hpass] at h ⊢
  have h2 := h
  split <;> rename_i hev <;> simp only [hev] at h2
  · exact ⟨h2.1, h2.2.1, hfresh⟩
  · exact ⟨h2.1, h2.2.1, hfresh⟩
  · exact h2
  · exact h2
  · obtain ⟨a, b, ps, h3, h4, _⟩ := h2
    exact ⟨a, b, ps, h3, h4, fun _ => hfresh⟩

theorem inv_setExpr {cfg : Cfg E} (hfr : Frame cfg) (s s' : State E) (a : PortId) (e0 : E)
    (hI : Inv cfg s) (h : step? cfg s (.setExpr a e0) = some s') : Inv cfg s' := by
  simp only [step?] at h
  split at h
  · rename_i hg
    simp at h; subst h
    have hv : SameView s { (s.setPort a fun P => { P with expr := some e0 }) with forced := a :: s.forced } := by
      intro q
      have := sameView_setPort s a (fun P => { P with expr := some e0 }) (by simp) q
      exact this
    refine inv_local hfr a hI hv (fun _ h => List.mem_cons_of_mem _ h) id rfl
      (fun p hp => by simp [State.setPort, hp]) ?_
    intro hp e he
    refine ⟨?_, fun _ _ => .inl (.inl (by simp))⟩
    simp only [Bool.or_eq_true, quiet_iff] at hg
    rcases hg with hg | ⟨g1, g2, g3, g4⟩
    · -- re-assignment: the machine facts of the port are those it had
      obtain ⟨e1, he1⟩ := Option.isSome_iff_exists.1 hg
      exact MI_reexpr (s := s) (some e0) (by simp [State.setPort]) rfl (.inl (by simp)) (hI.2 a hp e1 he1).1
    · simp only [MI, State.setPort, if_true, g2, g3, g4]
      exact ⟨trivial, trivial, fun _ => .inr (.inl (by simp))⟩
  · simp at h

theorem inv_evalTake {cfg : Cfg E} (hfr : Frame cfg) (s s' : State E) (a : PortId)
    (hI : Inv cfg s) (h : step? cfg s (.evalTake a) = some s') : Inv cfg s' := by
  simp only [step?] at h
  split at h
  · rename_i hidle
    split at h
    · simp at h
    · rename_i σ rest hq
      split at h
      · rename_i hex
        simp at h; subst h
        refine inv_setPort hfr a _ hI (by intro P; simp) ?_
        intro _ _ e he
        simp [hex] at he
      · rename_i e0 hex
        simp at h; subst h
        refine inv_setPort hfr a _ hI (by intro P; simp) ?_
        intro hv hp e he
        simp only [hex, Option.some.injEq] at he
        subst he
        obtain ⟨hM, hS⟩ := hI.2 a hp e0 hex
        constructor
        · have hfresh := Fresh_setPort (s := s) (a := a)
            (f := fun P => { P with evalQ := rest, ev := .computed (cfg.evalE e0 (eff s σ)) }) rfl rfl rfl
          simp only [MI, setPort_same, hidle] at hM ⊢
          exact ⟨hM.1, hM.2.1, hfresh hM.2.2⟩
        · intro hen hd
          rcases hS hen hd with hS | ⟨h1, _⟩
          · -- an obligation is outstanding
            rcases hS with hS | hS | hS | ⟨τ, t1, t2⟩
            · exact .inl (.inl hS)
            · exact .inl (.inr (.inl hS))
            · exact .inl (.inr (.inr (.inl hS)))
            · cases rest with
              | nil =>
                -- the snapshot taken is the newest one and it is current: the computed result is current
                simp [hq] at t1
                subst t1
                refine .inr ⟨by simp [setPort_same], ?_⟩
                simp only [setPort_same, eval_congr hfr (hv.on e0)]
                exact hfr _ _ _ (eff_current t2)
              | cons σ2 rest2 =>
                refine .inl (.inr (.inr (.inr ⟨τ, ?_, (Current_congr (hv.on e0) τ).2 t2⟩)))
                simp only [setPort_same]
                rw [hq] at t1
                simpa [List.getLast?_cons_cons] using t1
          · simp [hq] at h1
  · simp at h

/-- `MI` when only the `enabled` flag of the port's record changes (enabling forces an evaluation). -/
theorem MI_enabled {s s' : State E} {p} (b : Bool) (hport : s'.port p = { s.port p with enabled := b })
    (hpass : s'.pass = s.pass) (hfo : b = true → FO s' p) : MI s p → MI s' p := by
  intro h
  have hfresh : Fresh s' p := by
    intro hen
    rw [hport] at hen
    exact .inr (hfo hen)
  simp only [MI, hport, hpass] at h ⊢
  have h2 := h
  split <;> rename_i hev <;> simp only [hev] at h2
  · exact ⟨h2.1, h2.2.1, hfresh⟩
  · exact ⟨h2.1, h2.2.1, hfresh⟩
  · exact h2
  · exact h2
  · obtain ⟨a, b, ps, h3, h4, _⟩ := h2
    exact ⟨a, b, ps, h3, h4, fun _ => hfresh⟩

theorem inv_enable {cfg : Cfg E} (hrf : cfg.repForce = true) (s s' : State E) (a : PortId)
    (hI : Inv cfg s) (h : step? cfg s (.enable a) = some s') : Inv cfg s' := by
  simp only [step?] at h
  split at h
  · simp at h
  · simp at h; subst h
    refine ⟨hI.1, fun p hp e he => ⟨?_, fun _ _ => .inl (.inr (.inl (by simp [hrf])))⟩⟩
    by_cases hpa : p = a
    · subst hpa
      simp only [setPort_same] at he
      exact MI_enabled (s := s) true (by simp [State.setPort]) rfl
        (fun _ => .inr (.inl (by simp [hrf]))) (hI.2 p hp e he).1
    · have hport := setPort_other s (fun P => { P with enabled := true }) hpa
      simp only [hport] at he
      exact MI_other_same (s := s) (by simp [State.setPort, hpa]) rfl
        (fun x hx => by simp only; split <;> simp [hx]) (fun hx => by simp [hx]) (hI.2 p hp e he).1

theorem inv_disable {cfg : Cfg E} (hrf : cfg.repForce = true) (s s' : State E) (a : PortId)
    (hI : Inv cfg s) (h : step? cfg s (.disable a) = some s') : Inv cfg s' := by
  simp only [step?] at h
  split at h
  · rename_i hg
    simp at h; subst h
    refine ⟨hI.1, fun p hp e he => ⟨?_, fun _ _ => .inl (.inr (.inl (by simp [hrf])))⟩⟩
    by_cases hpa : p = a
    · subst hpa
      simp only [setPort_same] at he
      exact MI_enabled (s := s) false (by simp [State.setPort]) rfl (by simp) (hI.2 p hp e he).1
    · have hport := setPort_other s (fun P => { P with enabled := false }) hpa
      simp only [hport] at he
      exact MI_other_same (s := s) (by simp [State.setPort, hpa]) rfl (fun _ hx => hx) (fun hx => by simp [hx])
        (hI.2 p hp e he).1
  · simp at h

/-- State after `passBegin o` of the repaired scheduler, for a port table `port'`. -/
def beginState (cfg : Cfg E) (s : State E) (o : Owner) (port' : PortId → PortSt E) : State E :=
  ⟨port', [], false, some ⟨o, List.range cfg.n, [], false, s.forced, s.forceAll⟩⟩

theorem passOk_begin (cfg : Cfg E) (s : State E) (o : Owner) (port' : PortId → PortSt E) :
    PassOk (beginState cfg s o port') := by
  intro ps h
  simp [beginState] at h; subst h
  exact ⟨List.nodup_range, by simp⟩

theorem obMono_begin (cfg : Cfg E) (s : State E) (o : Owner) (port' : PortId → PortSt E) (hn : s.pass = none) :
    ObMono s (beginState cfg s o port') :=
  ⟨fun x h => .inr ⟨_, rfl, h⟩, fun h => .inr ⟨_, rfl, h⟩, fun ps h => by simp [hn] at h⟩

theorem FO_begin (cfg : Cfg E) (s : State E) (o : Owner) (port' : PortId → PortSt E) (hn : s.pass = none)
    {p : PortId} (hp : p < cfg.n) : FO s p → FO (beginState cfg s o port') p := by
  intro h
  refine .inr (.inr ⟨_, rfl, ?_, List.mem_range.2 hp⟩)
  rcases h with h | h | ⟨ps, h1, _⟩
  · exact .inr h
  · exact .inl h
  · simp [hn] at h1

/-- Beginning a pass that leaves every port record alone. -/
theorem inv_passBegin_plain {cfg : Cfg E} (hfr : Frame cfg) (s : State E) (o : Owner) (hI : Inv cfg s)
    (hn : s.pass = none) : Inv cfg (beginState cfg s o s.port) := by
  refine ⟨passOk_begin _ _ _ _, fun p hp e he => ?_⟩
  obtain ⟨hM, hS⟩ := hI.2 p hp e he
  refine ⟨MI_other (s := s) rfl (fun ps h => by simp [hn] at h) (fun _ h => .inl (FO_begin cfg s o _ hn hp h)) hM,
    fun hen hd => ?_⟩
  exact SI_other (s := s) hfr (fun q _ => ⟨rfl, rfl⟩) (obMono_begin cfg s o _ hn) rfl (hS hen hd)

theorem inv_passBegin {cfg : Cfg E} (hfr : Frame cfg) (hcap : cfg.repCapture = true) (s s' : State E) (o : Owner)
    (hI : Inv cfg s) (h : step? cfg s (.passBegin o) = some s') : Inv cfg s' := by
  simp only [step?, hcap, if_true] at h
  split at h
  · simp at h
  · rename_i hn
    simp at hn
    cases o with
    | anon => simp at h; subst h; exact inv_passBegin_plain hfr s .anon hI hn
    | writer p =>
      simp only at h
      split at h
      · simp at h; subst h; exact inv_passBegin_plain hfr s (.writer p) hI hn
      · simp at h
    | evaler a =>
      simp only at h
      split at h
      · rename_i hev
        simp at h; subst h
        have hs' : ∀ (t : State E), t = beginState cfg s (.evaler a)
            (fun q => if q = a then { s.port q with ev := .confirmRun } else s.port q) → Inv cfg t := by
          intro t ht
          subst ht
          have hv : SameView s (beginState cfg s (.evaler a)
              (fun q => if q = a then { s.port q with ev := .confirmRun } else s.port q)) := by
            intro q
            by_cases hq : q = a <;> simp [beginState, hq]
          have hm := obMono_begin cfg s (.evaler a)
            (fun q => if q = a then { s.port q with ev := .confirmRun } else s.port q) hn
          refine ⟨passOk_begin _ _ _ _, fun p hp e he => ?_⟩
          by_cases hpa : p = a
          · subst hpa
            simp only [beginState, if_true] at he
            obtain ⟨hM, hS⟩ := hI.2 p hp e he
            constructor
            · simp only [MI, beginState, if_true, hev] at hM ⊢
              refine ⟨hM.1, hM.2, _, rfl, rfl, fun hnot => ?_⟩
              exact absurd (List.mem_range.2 hp) hnot
            · intro hen hd
              rcases hS (by simpa [beginState] using hen) hd with hS | ⟨h1, h2⟩
              · exact .inl (Pending_mono (hv.on e) hm (by simp [beginState]) hS)
              · refine .inr ⟨by simp [beginState]; exact h1, ?_⟩
                simp only [hev] at h2
                have hG := (Good_congr hfr (hv.on e) p (s.port p).drv).2 h2
                simpa [beginState] using hG
          · have hport : (beginState cfg s (.evaler a)
                (fun q => if q = a then { s.port q with ev := .confirmRun } else s.port q)).port p = s.port p := by
              simp [beginState, hpa]
            rw [hport] at he
            obtain ⟨hM, hS⟩ := hI.2 p hp e he
            refine ⟨MI_other hport (fun ps h => by simp [hn] at h)
              (fun _ h => .inl (FO_begin cfg s _ _ hn hp h)) hM, fun hen hd => ?_⟩
            exact SI_other hfr (hv.on e) hm hport (hS (by rw [hport] at hen; exact hen) hd)
        exact hs' _ (by simp [beginState, State.setPort])
      · simp at h

theorem inv_passHandleA {cfg : Cfg E} (hfr : Frame cfg) (hcap : cfg.repCapture = true) (s s' : State E)
    (hI : Inv cfg s) (h : step? cfg s .passHandleA = some s') : Inv cfg s' := by
  simp only [step?, hcap, if_true] at h
  split at h
  · rename_i ps hps
    split at h
    · simp at h
    · rename_i hg
      simp at hg
      simp at h; subst h
      obtain ⟨hn, _⟩ := hI.1 ps hps
      have hm : ObMono s ⟨s.port, s.forced, s.forceAll,
          some ⟨ps.owner, ps.todo, ps.changed, true, ps.forced, ps.all⟩⟩ :=
        ⟨fun x h => .inl h, fun h => .inl h,
         fun ps0 h0 => by
           rw [hps] at h0; cases h0
           exact ⟨_, rfl, id, fun _ h => h, fun _ h => h⟩⟩
      refine ⟨?_, fun p hp e he => ?_⟩
      · intro ps1 h1
        simp at h1; subst h1
        exact ⟨hn, fun _ => hg.2⟩
      · obtain ⟨hM, hS⟩ := hI.2 p hp e he
        refine ⟨MI_other (s := s) rfl (fun ps0 h0 h1 _ => ?_) (fun _ hfo => .inl ?_) hM, fun hen hd => ?_⟩
        · rw [hps] at h0; cases h0
          exact ⟨_, rfl, h1, fun h => .inl h⟩
        · rcases hfo with hfo | hfo | ⟨ps0, h0, h1, h2⟩
          · exact .inl hfo
          · exact .inr (.inl hfo)
          · rw [hps] at h0; cases h0
            exact .inr (.inr ⟨_, rfl, h1, h2⟩)
        · exact SI_other (s := s) hfr (fun q _ => ⟨rfl, rfl⟩) hm rfl (hS hen hd)
  · simp at h

theorem inv_passRead {cfg : Cfg E} (hfr : Frame cfg) (s s' : State E)
    (hI : Inv cfg s) (h : step? cfg s .passRead = some s') : Inv cfg s' := by
  simp only [step?] at h
  split at h
  · rename_i ps hps
    split at h
    · simp at h
    · rename_i hnh
      simp at hnh
      split at h
      · simp at h
      · rename_i q rest htodo
        obtain ⟨hnd, _⟩ := hI.1 ps hps
        rw [htodo] at hnd
        -- an outstanding forced evaluation of a port other than the one just polled stays outstanding
        have hfo_other : ∀ (t : State E) (p : PortId) (chg : List PortId), p ≠ q → t.forced = s.forced →
            t.forceAll = s.forceAll → t.pass = some ⟨ps.owner, rest, chg, ps.handling, ps.forced, ps.all⟩ →
            FO s p → FO t p := by
          intro t p chg hpq h1 h2 h3 hfo
          rcases hfo with hfo | hfo | ⟨ps0, h0, g1, g2⟩
          · exact .inl (by rw [h1]; exact hfo)
          · exact .inr (.inl (by rw [h2]; exact hfo))
          · rw [hps] at h0; cases h0
            refine .inr (.inr ⟨_, h3, g1, ?_⟩)
            rw [htodo] at g2
            simp at g2
            rcases g2 with g2 | g2
            · exact absurd g2 hpq
            · exact g2
        have hqr : q ∉ rest := (List.nodup_cons.1 hnd).1
        have hndr : rest.Nodup := (List.nodup_cons.1 hnd).2
        split at h
        · -- a change is detected: `set_last_read_value`, `changed_set.add`
          rename_i hg
          simp at hg
          simp at h; subst h
          have hm : ObMono s ⟨(s.setPort q fun P => { P with lastRead := P.drv }).port, s.forced, s.forceAll,
              some ⟨ps.owner, rest, q :: ps.changed, ps.handling, ps.forced, ps.all⟩⟩ :=
            ⟨fun x h => .inl h, fun h => .inl h, fun ps0 h0 => by
              rw [hps] at h0; cases h0
              exact ⟨_, rfl, id, fun _ h => h, fun _ h => List.mem_cons_of_mem _ h⟩⟩
          refine ⟨?_, fun p hp e he => ?_⟩
          · intro ps1 h1
            simp at h1; subst h1
            exact ⟨hndr, by simp [hnh]⟩
          · by_cases hpq : p = q
            · subst hpq
              simp only [setPort_same] at he
              obtain ⟨hM, hS⟩ := hI.2 p hp e he
              constructor
              · have hfresh : Fresh ⟨(s.setPort p fun P => { P with lastRead := P.drv }).port, s.forced, s.forceAll,
                    some ⟨ps.owner, rest, p :: ps.changed, ps.handling, ps.forced, ps.all⟩⟩ p := by
                  intro _
                  exact .inl (by simp [State.setPort])
                simp only [MI, setPort_same, hps] at hM ⊢
                have hM2 := hM
                split <;> rename_i hev <;> simp only [hev] at hM2
                · exact ⟨hM2.1, hM2.2.1, hfresh⟩
                · exact ⟨hM2.1, hM2.2.1, hfresh⟩
                · exact hM2
                · exact hM2
                · obtain ⟨a, b, ps0, h3, h4, _⟩ := hM2
                  cases h3
                  exact ⟨a, b, _, rfl, h4, fun _ => hfresh⟩
              · intro hen hd
                have hso : SameOn cfg e s ⟨(s.setPort p fun P => { P with lastRead := P.drv }).port, s.forced,
                    s.forceAll, some ⟨ps.owner, rest, p :: ps.changed, ps.handling, ps.forced, ps.all⟩⟩ := by
                  intro x hx
                  have hxp : x ≠ p := fun hxp => hd (hxp ▸ hx)
                  simp [State.setPort, hxp]
                have hen0 : (s.port p).enabled = true := by simpa [setPort_same] using hen
                -- while idle / computed a stale last read value means a forced evaluation is outstanding
                have hstale : Fresh s p → Pending cfg ⟨(s.setPort p fun P => { P with lastRead := P.drv }).port,
                    s.forced, s.forceAll, some ⟨ps.owner, rest, p :: ps.changed, ps.handling, ps.forced, ps.all⟩⟩
                    p e := by
                  intro hf
                  rcases hf hen0 with hf | hf
                  · exact absurd hf hg.2
                  · exact Pending_mono hso hm (by simp [setPort_same]) (FO_pending e hf)
                rcases hS hen0 hd with hS | ⟨h1, h2⟩
                · exact .inl (Pending_mono hso hm (by simp [setPort_same]) hS)
                · have hM2 := hM
                  simp only [MI] at hM2
                  cases hev : (s.port p).ev with
                  | idle => simp only [hev] at hM2; exact .inl (hstale hM2.2.2)
                  | computed r => simp only [hev] at hM2; exact .inl (hstale hM2.2.2)
                  | waitW =>
                    refine .inr ⟨by simp [setPort_same]; exact h1, ?_⟩
                    simp only [setPort_same, hev] at h2 ⊢
                    intro x hx; exact (Good_congr hfr hso p x).2 (h2 x hx)
                  | confirmWant =>
                    refine .inr ⟨by simp [setPort_same]; exact h1, ?_⟩
                    simp only [setPort_same, hev] at h2 ⊢
                    exact (Good_congr hfr hso p _).2 h2
                  | confirmRun =>
                    refine .inr ⟨by simp [setPort_same]; exact h1, ?_⟩
                    simp only [setPort_same, hev] at h2 ⊢
                    exact (Good_congr hfr hso p _).2 h2
            · have hport : (s.setPort q fun P => { P with lastRead := P.drv }).port p = s.port p :=
                setPort_other s _ hpq
              simp only [hport] at he
              obtain ⟨hM, hS⟩ := hI.2 p hp e he
              constructor
              · refine MI_other (s := s) hport (fun ps0 h0 h1 _ => ?_)
                  (fun _ hfo => .inl (hfo_other _ p _ hpq rfl rfl rfl hfo)) hM
                rw [hps] at h0; cases h0
                refine ⟨_, rfl, h1, fun hnot => .inl ?_⟩
                rw [htodo]
                simp at hnot ⊢
                exact ⟨hpq, hnot⟩
              · intro hen hd
                by_cases hqd : q ∈ cfg.deps e
                · exact .inl (.inr (.inr (.inl ⟨_, rfl, .inr (.inr ⟨q, hqd, List.mem_cons_self⟩)⟩)))
                · have hso : SameOn cfg e s ⟨(s.setPort q fun P => { P with lastRead := P.drv }).port, s.forced,
                      s.forceAll, some ⟨ps.owner, rest, q :: ps.changed, ps.handling, ps.forced, ps.all⟩⟩ := by
                    intro x hx
                    have hxq : x ≠ q := fun hxq => hqd (hxq ▸ hx)
                    simp [State.setPort, hxq]
                  exact SI_other hfr hso hm hport (hS (by simpa [hport] using hen) hd)
        · -- no change
          rename_i hg
          simp at hg
          simp at h; subst h
          have hm : ObMono s ⟨s.port, s.forced, s.forceAll,
              some ⟨ps.owner, rest, ps.changed, ps.handling, ps.forced, ps.all⟩⟩ :=
            ⟨fun x h => .inl h, fun h => .inl h, fun ps0 h0 => by
              rw [hps] at h0; cases h0
              exact ⟨_, rfl, id, fun _ h => h, fun _ h => h⟩⟩
          refine ⟨?_, fun p hp e he => ?_⟩
          · intro ps1 h1
            simp at h1; subst h1
            exact ⟨hndr, by simp [hnh]⟩
          · obtain ⟨hM, hS⟩ := hI.2 p hp e he
            constructor
            · refine MI_other (s := s) rfl (fun ps0 h0 h1 hev => ?_) (fun hen hfo => ?_) hM
              · rw [hps] at h0; cases h0
                refine ⟨_, rfl, h1, fun hnot => ?_⟩
                by_cases hpq : p = q
                · subst hpq
                  exact .inr (fun hen => .inl (hg hen))
                · left
                  rw [htodo]
                  simp at hnot ⊢
                  exact ⟨hpq, hnot⟩
              · by_cases hpq : p = q
                · subst hpq
                  exact .inr (hg hen)
                · exact .inl (hfo_other _ p _ hpq rfl rfl rfl hfo)
            · intro hen hd
              exact SI_other (s := s) hfr (fun _ _ => ⟨rfl, rfl⟩) hm rfl (hS hen hd)
  · simp at h

/-- A failing / skipped read of a port without expression is a stuttering step for every expression port. -/
theorem inv_passSkip {cfg : Cfg E} (hfr : Frame cfg) (s s' : State E)
    (hI : Inv cfg s) (h : step? cfg s .passSkip = some s') : Inv cfg s' := by
  simp only [step?] at h
  split at h
  · rename_i ps hps
    split at h
    · simp at h
    · rename_i hnh
      simp at hnh
      split at h
      · simp at h
      · rename_i q rest htodo
        split at h
        · rename_i hq
          simp at h; subst h
          obtain ⟨hnd, _⟩ := hI.1 ps hps
          rw [htodo] at hnd
          have hndr : rest.Nodup := (List.nodup_cons.1 hnd).2
          have hm : ObMono s ⟨s.port, s.forced, s.forceAll,
              some ⟨ps.owner, rest, ps.changed, ps.handling, ps.forced, ps.all⟩⟩ :=
            ⟨fun x h => .inl h, fun h => .inl h, fun ps0 h0 => by
              rw [hps] at h0; cases h0
              exact ⟨_, rfl, id, fun _ h => h, fun _ h => h⟩⟩
          refine ⟨?_, fun p hp e he => ?_⟩
          · intro ps1 h1
            simp at h1; subst h1
            exact ⟨hndr, by simp [hnh]⟩
          · obtain ⟨hM, hS⟩ := hI.2 p hp e he
            -- the skipped port carries no expression, `p` does
            have hpq : p ≠ q := by
              intro hpq
              subst hpq
              simp only at he
              simp [he] at hq
            constructor
            · refine MI_other (s := s) rfl (fun ps0 h0 h1 _ => ?_) (fun _ hfo => .inl ?_) hM
              · rw [hps] at h0; cases h0
                refine ⟨_, rfl, h1, fun hnot => .inl ?_⟩
                rw [htodo]
                simp at hnot ⊢
                exact ⟨hpq, hnot⟩
              · rcases hfo with hfo | hfo | ⟨ps0, h0, g1, g2⟩
                · exact .inl hfo
                · exact .inr (.inl hfo)
                · rw [hps] at h0; cases h0
                  refine .inr (.inr ⟨_, rfl, g1, ?_⟩)
                  rw [htodo] at g2
                  simp at g2
                  rcases g2 with g2 | g2
                  · exact absurd g2 hpq
                  · exact g2
            · intro hen hd
              exact SI_other (s := s) hfr (fun _ _ => ⟨rfl, rfl⟩) hm rfl (hS hen hd)
        · simp at h
  · simp at h

/-- The port table after `passHandleB` (same expression as in `step?`). -/
def hbPort (cfg : Cfg E) (s : State E) (ps : Pass) : PortId → PortSt E :=
  let snap := view s
  let port1 : PortId → PortSt E := fun q =>
    if pushed cfg s ps q then { s.port q with evalQ := (s.port q).evalQ ++ [snap] } else s.port q
  fun q =>
    match ps.owner with
    | .anon => port1 q
    | .writer p => if q = p then { port1 q with wConfirm := false } else port1 q
    | .evaler p =>
      if q = p ∧ (port1 q).ev = .confirmRun then { port1 q with ev := .idle } else port1 q

theorem step_handleB (cfg : Cfg E) (s : State E) (ps : Pass) (h1 : s.pass = some ps) (h2 : ps.handling = true) :
    step? cfg s .passHandleB = some { s with port := hbPort cfg s ps, pass := none } := by
  simp only [step?, h1, h2]
  rfl

theorem hb_fields (cfg : Cfg E) (s : State E) (ps : Pass) (q : PortId) :
    (hbPort cfg s ps q).enabled = (s.port q).enabled ∧ (hbPort cfg s ps q).expr = (s.port q).expr ∧
    (hbPort cfg s ps q).lastRead = (s.port q).lastRead ∧ (hbPort cfg s ps q).drv = (s.port q).drv ∧
    (hbPort cfg s ps q).wq = (s.port q).wq ∧ (hbPort cfg s ps q).wr = (s.port q).wr ∧
    (hbPort cfg s ps q).evalQ =
      (if pushed cfg s ps q then (s.port q).evalQ ++ [view s] else (s.port q).evalQ) ∧
    (hbPort cfg s ps q).ev =
      (if ps.owner = .evaler q ∧ (s.port q).ev = .confirmRun then .idle else (s.port q).ev) := by
  simp only [hbPort]
  cases ps.owner with
  | anon => by_cases hp : pushed cfg s ps q = true <;> simp [hp]
  | writer p =>
    by_cases hq : q = p
    · subst hq; by_cases hp : pushed cfg s ps q = true <;> simp [hp]
    · by_cases hp : pushed cfg s ps q = true <;> simp [hp, hq]
  | evaler p =>
    by_cases hq : q = p
    · subst hq
      by_cases hp : pushed cfg s ps q = true <;> by_cases hc : (s.port q).ev = .confirmRun <;> simp [hp, hc]
    · have hq' : ¬ p = q := fun h => hq h.symm
      by_cases hp : pushed cfg s ps q = true <;> simp [hp, hq, hq']

theorem pushed_of {cfg : Cfg E} {s : State E} {ps : Pass} {p : PortId} {e : E} (hp : p < cfg.n)
    (hen : (s.port p).enabled = true) (he : (s.port p).expr = some e) (hd : p ∉ cfg.deps e)
    (h : ps.all = true ∨ p ∈ ps.forced ∨ ∃ q, q ∈ cfg.deps e ∧ q ∈ ps.changed) :
    pushed cfg s ps p = true := by
  simp only [pushed, hp, hen, he, trig, decide_true, Bool.true_and, Bool.or_eq_true, List.contains_eq_mem,
    decide_eq_true_eq, List.any_eq_true, Bool.and_eq_true, bne_iff_ne, ne_eq]
  rcases h with h | h | ⟨q, h1, h2⟩
  · exact .inl (.inl h)
  · exact .inl (.inr h)
  · exact .inr ⟨q, h1, fun hqp => hd (hqp ▸ h1), h2⟩

theorem enabled_of_pushed {cfg : Cfg E} {s : State E} {ps : Pass} {p : PortId}
    (h : pushed cfg s ps p = true) : (s.port p).enabled = true := by
  simp only [pushed, Bool.and_eq_true] at h
  exact h.1.2

theorem inv_passHandleB {cfg : Cfg E} (hfr : Frame cfg) (s s' : State E)
    (hI : Inv cfg s) (h : step? cfg s .passHandleB = some s') : Inv cfg s' := by
  cases hps : s.pass with
  | none => simp [step?, hps] at h
  | some ps =>
    by_cases hh : ps.handling = true
    · rw [step_handleB cfg s ps hps hh] at h
      simp at h; subst h
      have htodo : ps.todo = [] := (hI.1 ps hps).2 hh
      have hv : SameView s { s with port := hbPort cfg s ps, pass := none } :=
        fun q => ⟨(hb_fields cfg s ps q).1, (hb_fields cfg s ps q).2.2.1⟩
      refine ⟨by intro ps1 h1; simp at h1, fun p hp e he => ?_⟩
      obtain ⟨f1, f2, f3, f4, f5, f6, f7, f8⟩ := hb_fields cfg s ps p
      simp only at he
      rw [f2] at he
      obtain ⟨hM, hS⟩ := hI.2 p hp e he
      -- facts about a port whose confirming pass this was
      have hconf : (s.port p).ev = .confirmRun →
          ps.owner = .evaler p ∧ (s.port p).wq = [] ∧ (s.port p).wr = none ∧ Fresh s p := by
        intro hev
        have := hM
        simp only [MI, hev] at this
        obtain ⟨a, b, ps0, h3, h4, h5⟩ := this
        rw [hps] at h3; cases h3
        exact ⟨h4, a, b, h5 (by simp [htodo])⟩
      -- freshness of a port is kept (no record shows another value; the forced set / flag are as before)
      have hfresh_keep : Fresh s p → Fresh { s with port := hbPort cfg s ps, pass := none } p := by
        intro hf hen
        simp only [f1, f3, f4] at hen ⊢
        rcases hf hen with hf | hf
        · exact .inl hf
        · rcases hf with hf | hf | ⟨ps0, h0, _, g2⟩
          · exact .inr (.inl hf)
          · exact .inr (.inr (.inl hf))
          · rw [hps] at h0; cases h0
            simp [htodo] at g2
      constructor
      · simp only [MI, f5, f6, f8]
        by_cases hc : ps.owner = .evaler p ∧ (s.port p).ev = .confirmRun
        · simp only [hc, and_self, if_true]
          obtain ⟨_, a, b, c⟩ := hconf hc.2
          exact ⟨a, b, hfresh_keep c⟩
        · simp only [hc, if_false]
          have hM2 := hM
          simp only [MI] at hM2
          split <;> rename_i hev <;> simp only [hev] at hM2
          · exact ⟨hM2.1, hM2.2.1, hfresh_keep hM2.2.2⟩
          · exact ⟨hM2.1, hM2.2.1, hfresh_keep hM2.2.2⟩
          · exact hM2
          · exact hM2
          · exact absurd ⟨(hconf hev).1, hev⟩ hc
      · intro hen hd
        rw [f1] at hen
        by_cases hpush : pushed cfg s ps p = true
        · -- a fresh snapshot has just been queued
          refine .inl (.inr (.inr (.inr ⟨view s, ?_, ?_⟩)))
          · simp [f7, hpush]
          · intro q _ henq
            have g := hb_fields cfg s ps q
            simp only at henq
            rw [g.1] at henq
            simp only [g.2.2.1]
            simp [view, henq]
        · rcases hS hen hd with hS | ⟨h1, h2⟩
          · rcases hS with hS | hS | ⟨ps0, h0, hS⟩ | ⟨σ, t1, t2⟩
            · exact .inl (.inl hS)
            · exact .inl (.inr (.inl hS))
            · rw [hps] at h0; cases h0
              exact absurd (pushed_of hp hen he hd hS) hpush
            · refine .inl (.inr (.inr (.inr ⟨σ, ?_, (Current_congr (hv.on e) σ).2 t2⟩)))
              simp only [f7, hpush]
              exact t1
          · by_cases hc : ps.owner = .evaler p ∧ (s.port p).ev = .confirmRun
            · obtain ⟨_, _, _, c⟩ := hconf hc.2
              rcases c hen with c | c
              · refine .inr ⟨by simp only [f7, hpush]; simpa using h1, ?_⟩
                simp only [f3, f4, f5, f6, f8]
                simp only [hc, and_self, if_true]
                simp only [hc.2] at h2
                rw [← c]
                exact (Good_congr hfr (hv.on e) p _).2 h2
              · -- the confirming pass did not poll the port (it was disabled at its turn): a forced evaluation is outstanding
                rcases c with c | c | ⟨ps0, h0, _, g2⟩
                · exact .inl (.inl c)
                · exact .inl (.inr (.inl c))
                · rw [hps] at h0; cases h0
                  simp [htodo] at g2
            · refine .inr ⟨by simp only [f7, hpush]; simpa using h1, ?_⟩
              simp only [f3, f4, f5, f6, f8]
              simp only [hc, if_false]
              simp only [Good_congr hfr (hv.on e), eval_congr hfr (hv.on e)]
              exact h2
    · simp [step?, hps, hh] at h

/-- Every action of the repaired scheduler preserves the invariant. -/
theorem inv_step {cfg : Cfg E} (hfr : Frame cfg) (hrc : cfg.repConfirm = true) (hrf : cfg.repForce = true)
    (hcap : cfg.repCapture = true) (s s' : State E) (a : Act E) (hI : Inv cfg s) (h : step? cfg s a = some s') : Inv cfg s' := by
  cases a with
  | passBegin o => exact inv_passBegin hfr hcap s s' o hI h
  | passRead => exact inv_passRead hfr s s' hI h
  | passSkip => exact inv_passSkip hfr s s' hI h
  | passHandleA => exact inv_passHandleA hfr hcap s s' hI h
  | passHandleB => exact inv_passHandleB hfr s s' hI h
  | evalTake p => exact inv_evalTake hfr s s' p hI h
  | evalCmp p => exact inv_evalCmp hfr s s' p hI h
  | writeBegin p => exact inv_writeBegin hfr s s' p hI h
  | writeEnd p => exact inv_writeEnd hfr hrc s s' p hI h
  | setSource p v => exact inv_setSource hfr s s' p v hI h
  | apiWrite p v => exact inv_apiWrite hfr s s' p v hI h
  | enable p => exact inv_enable hrf s s' p hI h
  | disable p => exact inv_disable hrf s s' p hI h
  | hookDone p => simp only [step?, Option.some.injEq] at h; subst h; exact hI
  | setExpr p e => exact inv_setExpr hfr s s' p e hI h
  | clearExpr p => exact inv_clearExpr hfr s s' p hI h

theorem inv_reach {cfg : Cfg E} (hfr : Frame cfg) (hrc : cfg.repConfirm = true) (hrf : cfg.repForce = true)
    (hcap : cfg.repCapture = true) (p0 : PortId → PortSt E) (h0 : InitOk p0) {s : State E} (hr : Reach cfg p0 s) : Inv cfg s := by
  induction hr with
  | init => exact inv_init cfg p0 h0
  | step a _ hs ih => exact inv_step hfr hrc hrf hcap _ _ a ih hs

/-- In a quiescent state no obligation can be outstanding, so every port is settled. -/
theorem inv_quiescent {cfg : Cfg E} {s : State E} (hI : Inv cfg s) (hq : Quiescent cfg s) : Converged cfg s := by
  intro p hp e he hen hd
  obtain ⟨q1, q2, q3, q4⟩ := hq
  obtain ⟨q5, _⟩ := q4 p hp
  rw [quiet_iff] at q5
  obtain ⟨g1, g2, _, _⟩ := q5
  rcases (hI.2 p hp e he).2 hen hd with hS | ⟨_, h2⟩
  · rcases hS with hS | hS | ⟨ps, h0, _⟩ | ⟨σ, t1, _⟩
    · simp [q2] at hS
    · simp [q3] at hS
    · simp [q1] at h0
    · simp [g1] at t1
  · simp only [g2] at h2
    exact h2

theorem view_congr {s s' : State E} (h : SameView s s') : view s' = view s := by
  funext q; simp [view, h q]

/-- A pass whose changed set contains no port read by `e` (nothing forced) queues no evaluation for the port and
touches neither its value, its register nor its write queue. -/
theorem handleB_unrelated (cfg : Cfg E) (s s' : State E) (ps : Pass) (p : PortId) (e : E)
    (hps : s.pass = some ps) (hst : step? cfg s .passHandleB = some s') (he : (s.port p).expr = some e)
    (hall : ps.all = false) (hf : p ∉ ps.forced) (hc : ∀ q, q ∈ ps.changed → q ∉ cfg.deps e) :
    (s'.port p).evalQ = (s.port p).evalQ ∧ (s'.port p).lastRead = (s.port p).lastRead ∧
      (s'.port p).drv = (s.port p).drv ∧ (s'.port p).wq = (s.port p).wq := by
  by_cases hh : ps.handling = true
  · rw [step_handleB cfg s ps hps hh] at hst
    simp at hst; subst hst
    obtain ⟨_, _, f3, f4, f5, _, f7, _⟩ := hb_fields cfg s ps p
    have hnp : pushed cfg s ps p = false := by
      cases hpu : pushed cfg s ps p with
      | false => rfl
      | true =>
        exfalso
        simp only [pushed, he, trig, hall, Bool.false_or, Bool.and_eq_true, Bool.or_eq_true, List.contains_eq_mem,
          decide_eq_true_eq, List.any_eq_true, bne_iff_ne] at hpu
        rcases hpu.2 with h | ⟨q, hq, _, hq2⟩
        · exact hf h
        · exact hc q hq2 hq
    refine ⟨?_, f3, f4, f5⟩
    simp only [f7, hnp]
    simp
  · simp [step?, hps, hh] at hst

/-- When a pass that carries an obligation for `p` ends, the current view is queued as the newest snapshot. -/
theorem handleB_queues (cfg : Cfg E) (s s' : State E) (ps : Pass) (p : PortId) (e : E)
    (hps : s.pass = some ps) (hst : step? cfg s .passHandleB = some s') (hp : p < cfg.n)
    (hen : (s.port p).enabled = true) (he : (s.port p).expr = some e) (hd : p ∉ cfg.deps e)
    (hob : ps.all = true ∨ p ∈ ps.forced ∨ ∃ q, q ∈ cfg.deps e ∧ q ∈ ps.changed) :
    (s'.port p).evalQ.getLast? = some (view s') ∧ Current cfg s' e (view s') := by
  by_cases hh : ps.handling = true
  · rw [step_handleB cfg s ps hps hh] at hst
    simp at hst; subst hst
    have hv : SameView s { s with port := hbPort cfg s ps, pass := none } :=
      fun q => ⟨(hb_fields cfg s ps q).1, (hb_fields cfg s ps q).2.2.1⟩
    obtain ⟨_, _, _, _, _, _, f7, _⟩ := hb_fields cfg s ps p
    refine ⟨?_, ?_⟩
    · simp only [f7, pushed_of hp hen he hd hob, view_congr hv]
      simp
    · intro q _ henq
      simp only at henq
      simp [view, henq]
  · simp [step?, hps, hh] at hst

/-- The pass step that detects a change of `q` makes `q` a member of the running pass's changed set. -/
theorem passRead_detects (cfg : Cfg E) (s s' : State E) (ps : Pass) (q : PortId) (rest : List PortId)
    (p : PortId) (e : E) (hps : s.pass = some ps) (hh : ps.handling = false) (ht : ps.todo = q :: rest)
    (hen : (s.port q).enabled = true) (hchg : (s.port q).drv ≠ (s.port q).lastRead)
    (hst : step? cfg s .passRead = some s') (hq : q ∈ cfg.deps e) :
    (s'.port q).lastRead = (s.port q).drv ∧ Pending cfg s' p e := by
  simp [step?, hps, hh, ht, hen, hchg] at hst
  subst hst
  exact ⟨by simp [State.setPort], .inr (.inr (.inl ⟨_, rfl, .inr (.inr ⟨q, hq, List.mem_cons_self⟩)⟩))⟩

end QtVerif.Core
