import QtVerif.Model.Slave
/-!
Helper lemmas for C13 (offline edits are pending, kept, pushed exactly once before the refresh, then cleared).
-/
namespace QtVerif.Slave

/-! ### Lookups -/

theorem findPort_updPort_p (l : List MPort) (i j : Nat) (f : MPort → MPort) (hf : ∀ p, (f p).id = p.id) :
    findPort (updPort l i f) j = (findPort l j).map (fun p => if p.id == i then f p else p) := by
  induction l with
  | nil => rfl
  | cons a t ih =>
    unfold updPort findPort at *
    simp only [List.map_cons, List.find?_cons]
    have e : (if a.id == i then f a else a).id = a.id := by split <;> simp [hf]
    rw [e]
    cases h2 : a.id == j
    · exact ih
    · rfl

theorem findPort_erasePort_ne (l : List MPort) (i j : Nat) (h : j ≠ i) :
    findPort (erasePort l i) j = findPort l j := by
  induction l with
  | nil => rfl
  | cons a t ih =>
    unfold erasePort findPort at *
    simp only [List.filter_cons]
    by_cases h1 : a.id == i
    · simp only [h1, Bool.not_true, Bool.false_eq_true, if_false, List.find?_cons]
      have : (a.id == j) = false := by
        simp only [beq_iff_eq] at h1
        simp only [beq_eq_false_iff_ne]
        omega
      simp only [this]; exact ih
    · simp only [h1, Bool.not_false, if_true, List.find?_cons]
      by_cases h2 : a.id == j
      · simp [h2]
      · simp only [h2]; exact ih

theorem findPort_append_ne (l : List MPort) (p : MPort) (j : Nat) (h : p.id ≠ j) :
    findPort (l ++ [p]) j = findPort l j := by
  unfold findPort
  rw [List.find?_append]
  cases hh : l.find? (fun p => p.id == j) with
  | some x => rfl
  | none =>
    simp only [Option.none_or, List.find?_cons, List.find?_nil]
    have : (p.id == j) = false := by simp only [beq_eq_false_iff_ne]; exact h
    simp [this]

theorem findPort_some_id {l : List MPort} {j : Nat} {p : MPort} (h : findPort l j = some p) : p.id = j := by
  unfold findPort at h
  have := List.find?_some h
  simpa using this

theorem findPort_mem_p {l : List MPort} {j : Nat} {p : MPort} (h : findPort l j = some p) : p ∈ l := by
  unfold findPort at h
  exact List.mem_of_find?_eq_some h

/-! ### What is kept of a port across incoming messages -/

/-- The pending edits of `p` are still there in `p'`: same pending names, same pending-value flag, every pending
attribute still has the value the user set, and — provided the remote queue was empty when the value was edited —
the same cached (user) value, with the remote queue still empty. -/
def Kept (p p' : MPort) : Prop :=
  p'.prov = p.prov ∧ p'.provValue = p.provValue ∧
  (p.pendValue.isSome → p.rq = [] → p'.cached = p.cached) ∧
  (∀ n ∈ p.prov, ∀ v, p.attrs.get? n = some v → p'.attrs.get? n = some v) ∧
  (p.pendValue.isSome → p.rq = [] → p'.rq = [])

theorem Kept.refl (p : MPort) : Kept p p := ⟨rfl, rfl, fun _ _ => rfl, fun _ _ _ h => h, fun _ h => h⟩

theorem Kept.trans {a b c : MPort} (h1 : Kept a b) (h2 : Kept b c) : Kept a c := by
  obtain ⟨a1, a2, a3, a4, a5⟩ := h1
  obtain ⟨b1, b2, b3, b4, b5⟩ := h2
  have hb : a.pendValue.isSome → a.rq = [] → b.pendValue.isSome := by
    intro hp hr
    unfold MPort.pendValue at *
    rw [a2, a3 hp hr]; exact hp
  refine ⟨by rw [b1, a1], by rw [b2, a2], ?_, ?_, ?_⟩
  · intro hp hr
    rw [b3 (hb hp hr) (a5 hp hr), a3 hp hr]
  · intro n hn v hv
    exact b4 n (by rw [a1]; exact hn) v (a4 n hn v hv)
  · intro hp hr
    exact b5 (hb hp hr) (a5 hp hr)

/-! ### Attribute maps -/

theorem Attrs.get?_set_same (a : Attrs) (n : Nat) (v : Int) : (Attrs.set a n v).get? n = some v := by
  induction a with
  | nil => simp [Attrs.set, Attrs.get?]
  | cons kv t ih =>
    obtain ⟨k, w⟩ := kv
    unfold Attrs.set
    by_cases h : k == n
    · simp [h, Attrs.get?]
    · simp only [h, Bool.false_eq_true, if_false]
      unfold Attrs.get? at *
      simp only [List.find?_cons, h]
      exact ih

theorem Attrs.get?_set_other (a : Attrs) (n m : Nat) (v : Int) (h : m ≠ n) :
    (Attrs.set a n v).get? m = a.get? m := by
  induction a with
  | nil =>
    have : (n == m) = false := by simp only [beq_eq_false_iff_ne]; omega
    simp [Attrs.set, Attrs.get?, this]
  | cons kv t ih =>
    obtain ⟨k, w⟩ := kv
    unfold Attrs.set
    by_cases h1 : k == n
    · have hk : (k == m) = false := by
        simp only [beq_iff_eq] at h1
        simp only [beq_eq_false_iff_ne]; omega
      simp [h1, Attrs.get?, hk]
    · simp only [h1, Bool.false_eq_true, if_false]
      unfold Attrs.get? at *
      simp only [List.find?_cons]
      by_cases h2 : k == m
      · simp [h2]
      · simp only [h2]; exact ih

/-- After `update a other`, a key of `other` maps to its LAST value in `other`; here: if every entry of `other`
for key `n` carries `v` and there is one, the result maps `n` to `v`. -/
theorem Attrs.get?_update_of_mem (a other : Attrs) (n : Nat) (v : Int)
    (hm : (n, v) ∈ other) (hu : ∀ w, (n, w) ∈ other → w = v) : (Attrs.update a other).get? n = some v := by
  unfold Attrs.update
  induction other generalizing a with
  | nil => cases hm
  | cons kv t ih =>
    simp only [List.foldl_cons]
    by_cases ht : (n, v) ∈ t
    · exact ih _ ht (fun w hw => hu w (List.mem_cons_of_mem _ hw))
    · have hkv : kv = (n, v) := by
        cases hm with
        | head => rfl
        | tail _ h => exact absurd h ht
      subst hkv
      -- no later entry for n: the value set now survives the rest of the fold
      have hnone : ∀ w, (n, w) ∉ t := by
        intro w hw
        have := hu w (List.mem_cons_of_mem _ hw)
        subst this
        exact ht hw
      clear ih hm hu ht
      have key : ∀ (b : Attrs), b.get? n = some v →
          (t.foldl (fun acc kv => Attrs.set acc kv.1 kv.2) b).get? n = some v := by
        induction t with
        | nil => intro b hb; exact hb
        | cons x r ihr =>
          intro b hb
          simp only [List.foldl_cons]
          apply ihr (fun w hw => hnone w (List.mem_cons_of_mem _ hw))
          have hx : x.1 ≠ n := by
            intro hx
            apply hnone x.2
            have : x = (n, x.2) := by rw [← hx]
            rw [this]
            exact List.mem_cons_self ..
          rw [Attrs.get?_set_other _ _ _ _ (fun h => hx h.symm)]
          exact hb
      exact key _ (Attrs.get?_set_same _ _ _)

theorem mem_pendAttrs {p : MPort} {n : Nat} {v : Int} :
    (n, v) ∈ p.pendAttrs ↔ n ∈ p.prov ∧ p.attrs.get? n = some v := by
  unfold MPort.pendAttrs
  simp only [List.mem_filterMap, Option.map_eq_some_iff, Prod.mk.injEq]
  constructor
  · rintro ⟨a, ha, w, hw, rfl, rfl⟩
    exact ⟨ha, hw⟩
  · rintro ⟨h1, h2⟩
    exact ⟨n, h1, v, h2, rfl, rfl⟩

/-! ### One incoming event keeps the pending edits (repaired handlers) -/

theorem applyPortUpdate_id (fix : Fix) (p : MPort) (msg : PortMsg) : (applyPortUpdate fix p msg).1.id = p.id := by
  unfold applyPortUpdate MPort.push
  simp only
  split <;> rfl

theorem applyPortUpdate_kept (vb kv : Bool) (p : MPort) (msg : PortMsg) :
    Kept p (applyPortUpdate ⟨vb, true, kv⟩ p msg).1 := by
  unfold applyPortUpdate
  simp only [if_true, Bool.true_and]
  refine ⟨?_, ?_, ?_, ?_, ?_⟩
  · split <;> rfl
  · split <;> rfl
  · intro _ _; split <;> rfl
  · intro n hn v hv
    have hm : (n, v) ∈ p.pendAttrs := mem_pendAttrs.mpr ⟨hn, hv⟩
    have hu : ∀ w, (n, w) ∈ p.pendAttrs → w = v := by
      intro w hw
      have := (mem_pendAttrs.mp hw).2
      rw [hv] at this
      exact (Option.some.inj this).symm
    have := Attrs.get?_update_of_mem msg.attrs p.pendAttrs n v hm hu
    split <;> exact this
  · intro hp hr
    simp only [hp, if_true]
    exact hr

theorem push_id (p : MPort) (v : PVal) : (p.push v).id = p.id := rfl

/-- The device's pending attributes with their values. -/
def DevKept (m m' : Master) : Prop :=
  m'.devProv = m.devProv ∧ ∀ n ∈ m.devProv, ∀ v, m.dev.get? n = some v → m'.dev.get? n = some v

theorem Attrs.has_iff_mem_keys_p (a : Attrs) (n : Nat) : a.has n = true ↔ n ∈ a.keys := by
  unfold Attrs.has Attrs.keys
  simp only [List.any_eq_true, beq_iff_eq, List.mem_map]

theorem pendDev_has {m : Master} {n : Nat} {v : Int} (hn : n ∈ m.devProv) (hv : m.dev.get? n = some v) :
    m.pendDev.has n = true := by
  unfold Master.pendDev Attrs.has
  simp only [List.any_eq_true, List.mem_filterMap, Option.map_eq_some_iff, beq_iff_eq]
  exact ⟨(n, v), ⟨n, hn, v, hv, rfl⟩, rfl⟩

/-- A device update that mentions every pending name is dropped as a whole while something is pending;
the pending device attributes are therefore kept. -/
theorem handleDeviceUpdate_kept (m : Master) (a : Attrs) (hrep : ∀ n ∈ m.devProv, a.has n = true) :
    ∀ m', handleDeviceUpdate m a = .ok m' → DevKept m m' := by
  intro m' h
  unfold handleDeviceUpdate at h
  split at h
  · cases h
  · rename_i hany
    cases h
    refine ⟨rfl, ?_⟩
    intro n hn v hv
    exfalso
    apply hany
    simp only [List.any_eq_true]
    exact ⟨n, (Attrs.has_iff_mem_keys_p a n).mp (hrep n hn), pendDev_has hn hv⟩

theorem stepEvent_valueChange_p (fix : Fix) (m : Master) (i : Nat) (v : PVal) :
    stepEvent fix m (.valueChange i v) =
      match findPort m.ports i with
      | none => m
      | some p => if p.pendValue.isSome then m else if p.lastRemote == v then m
                  else { m with ports := updPort m.ports i (fun q => q.push v) } := by
  simp only [stepEvent, handleEvent, handleValueChange]
  cases findPort m.ports i with
  | none => rfl
  | some p =>
    by_cases h1 : p.pendValue.isSome
    · simp [h1, Except.map]
    · by_cases h2 : p.lastRemote == v
      · simp [h1, h2, Except.map]
      · simp [h1, h2, Except.map]

theorem stepEvent_portUpdate_p (fix : Fix) (m : Master) (msg : PortMsg) :
    stepEvent fix m (.portUpdate msg) =
      match findPort m.ports msg.id with
      | none => m
      | some _ => { m with ports := updPort m.ports msg.id (fun q => (applyPortUpdate fix q msg).1) } := by
  simp only [stepEvent, handleEvent, handlePortUpdate]
  cases findPort m.ports msg.id with
  | none => rfl
  | some p => rfl

theorem stepEvent_portAdd_p (fix : Fix) (m : Master) (msg : PortMsg) :
    stepEvent fix m (.portAdd msg) =
      match findPort m.ports msg.id with
      | some _ => m
      | none => { m with ports := m.ports ++ [mkPort msg] } := by
  simp only [stepEvent, handleEvent, handlePortAdd]
  cases findPort m.ports msg.id with
  | none => rfl
  | some p => rfl

theorem stepEvent_portRemove_p (fix : Fix) (m : Master) (i : Nat) :
    stepEvent fix m (.portRemove i) =
      match findPort m.ports i with
      | none => m
      | some _ => { m with ports := erasePort m.ports i } := by
  simp only [stepEvent, handleEvent, handlePortRemove]
  cases findPort m.ports i with
  | none => rfl
  | some p => rfl

theorem stepEvent_deviceUpdate_p (fix : Fix) (m : Master) (a : Attrs) :
    stepEvent fix m (.deviceUpdate a) =
      if a.keys.any (fun n => m.pendDev.has n) then m else { m with dev := a } := by
  simp only [stepEvent, handleEvent, handleDeviceUpdate]
  by_cases h : a.keys.any (fun n => m.pendDev.has n)
  · simp [h, Except.map]
  · simp [h, Except.map]

/-- Ports part: one event (handled by the repaired `_handle_port_update`) keeps the pending edits of every port
that is not removed by it. -/
theorem stepEvent_port_kept (vb kv : Bool) (m : Master) (e : Ev) (id : Nat) (p : MPort)
    (hp : findPort m.ports id = some p) (hne : e ≠ .portRemove id) :
    ∃ p', findPort (stepEvent ⟨vb, true, kv⟩ m e).ports id = some p' ∧ Kept p p' := by
  cases e with
  | valueChange i v =>
    rw [stepEvent_valueChange_p]
    cases hf : findPort m.ports i with
    | none => exact ⟨p, hp, Kept.refl p⟩
    | some q =>
      simp only
      by_cases h1 : q.pendValue.isSome
      · simp only [h1, if_true]; exact ⟨p, hp, Kept.refl p⟩
      · simp only [h1, Bool.false_eq_true, if_false]
        by_cases h2 : q.lastRemote == v
        · simp only [h2, if_true]; exact ⟨p, hp, Kept.refl p⟩
        · simp only [h2, Bool.false_eq_true, if_false]
          rw [findPort_updPort_p _ _ _ _ (fun q => push_id q v), hp]
          simp only [Option.map_some]
          by_cases h3 : p.id == i
          · simp only [h3, if_true]
            refine ⟨_, rfl, rfl, rfl, fun _ _ => rfl, fun _ _ _ h => h, ?_⟩
            intro hpv _
            have hpi : p.id = id := findPort_some_id hp
            simp only [beq_iff_eq] at h3
            have : id = i := by omega
            subst this
            rw [hp] at hf
            cases hf
            exact absurd hpv h1
          · simp only [h3, Bool.false_eq_true, if_false]
            exact ⟨p, rfl, Kept.refl p⟩
  | portUpdate msg =>
    rw [stepEvent_portUpdate_p]
    cases hf : findPort m.ports msg.id with
    | none => exact ⟨p, hp, Kept.refl p⟩
    | some q =>
      simp only
      rw [findPort_updPort_p _ _ _ _ (fun q => applyPortUpdate_id _ q msg), hp]
      simp only [Option.map_some]
      by_cases h3 : p.id == msg.id
      · simp only [h3, if_true]
        exact ⟨_, rfl, applyPortUpdate_kept vb kv p msg⟩
      · simp only [h3, Bool.false_eq_true, if_false]
        exact ⟨p, rfl, Kept.refl p⟩
  | portAdd msg =>
    rw [stepEvent_portAdd_p]
    cases hf : findPort m.ports msg.id with
    | some q => exact ⟨p, hp, Kept.refl p⟩
    | none =>
      simp only
      have hne' : (mkPort msg).id ≠ id := by
        intro h
        have : msg.id = id := h
        rw [this, hp] at hf
        cases hf
      rw [findPort_append_ne _ _ _ hne']
      exact ⟨p, hp, Kept.refl p⟩
  | portRemove i =>
    rw [stepEvent_portRemove_p]
    cases hf : findPort m.ports i with
    | none => exact ⟨p, hp, Kept.refl p⟩
    | some q =>
      simp only
      have : id ≠ i := by
        intro h
        apply hne
        rw [h]
      rw [findPort_erasePort_ne _ _ _ this]
      exact ⟨p, hp, Kept.refl p⟩
  | deviceUpdate a =>
    rw [stepEvent_deviceUpdate_p]
    split
    · exact ⟨p, hp, Kept.refl p⟩
    · exact ⟨p, hp, Kept.refl p⟩

theorem stepEvent_dev_kept (fix : Fix) (m : Master) (e : Ev)
    (hrep : ∀ a, e = .deviceUpdate a → ∀ n ∈ m.devProv, a.has n = true) :
    DevKept m (stepEvent fix m e) := by
  have hrefl : DevKept m m := ⟨rfl, fun _ _ _ h => h⟩
  cases e with
  | valueChange i v =>
    rw [stepEvent_valueChange_p]
    cases findPort m.ports i with
    | none => exact hrefl
    | some q =>
      simp only
      split
      · exact hrefl
      · split <;> exact hrefl
  | portUpdate msg =>
    rw [stepEvent_portUpdate_p]
    cases findPort m.ports msg.id <;> exact hrefl
  | portAdd msg =>
    rw [stepEvent_portAdd_p]
    cases findPort m.ports msg.id <;> exact hrefl
  | portRemove i =>
    rw [stepEvent_portRemove_p]
    cases findPort m.ports i <;> exact hrefl
  | deviceUpdate a =>
    rw [stepEvent_deviceUpdate_p]
    split
    · exact hrefl
    · rename_i hany
      refine ⟨rfl, ?_⟩
      intro n hn v hv
      exfalso
      apply hany
      simp only [List.any_eq_true]
      exact ⟨n, (Attrs.has_iff_mem_keys_p a n).mp (hrep a rfl n hn), pendDev_has hn hv⟩

/-! ### The hub's ticks keep the pending edits (the remote queue is empty while a value is pending) -/

theorem drainPort_id (fix : Fix) (n : Nat) (p : MPort) : (drainPort fix n p).2.id = p.id := by
  induction n generalizing p with
  | zero => rfl
  | succ k ih =>
    unfold drainPort
    split
    · rfl
    · simp only
      rw [ih]
      unfold tickPort
      split
      · rfl
      · split <;> rfl

theorem drainPort_nil (fix : Fix) (n : Nat) (p : MPort) (h : p.rq = []) : (drainPort fix n p).2 = p := by
  cases n with
  | zero => rfl
  | succ k =>
    unfold drainPort
    simp [h]

theorem drainPort_static (fix : Fix) (n : Nat) (p : MPort) :
    (drainPort fix n p).2.prov = p.prov ∧ (drainPort fix n p).2.provValue = p.provValue ∧
    (drainPort fix n p).2.attrs = p.attrs := by
  induction n generalizing p with
  | zero => exact ⟨rfl, rfl, rfl⟩
  | succ k ih =>
    unfold drainPort
    split
    · exact ⟨rfl, rfl, rfl⟩
    · simp only
      have := ih (tickPort fix p).2
      have ht : (tickPort fix p).2.prov = p.prov ∧ (tickPort fix p).2.provValue = p.provValue ∧
          (tickPort fix p).2.attrs = p.attrs := by
        unfold tickPort
        split
        · exact ⟨rfl, rfl, rfl⟩
        · split <;> exact ⟨rfl, rfl, rfl⟩
      exact ⟨this.1.trans ht.1, this.2.1.trans ht.2.1, this.2.2.trans ht.2.2⟩

theorem drainPort_kept (fix : Fix) (n : Nat) (p : MPort) : Kept p (drainPort fix n p).2 := by
  obtain ⟨h1, h2, h3⟩ := drainPort_static fix n p
  refine ⟨h1, h2, ?_, ?_, ?_⟩
  · intro _ hr; rw [drainPort_nil fix _ _ hr]
  · intro k _ v hv; rw [h3]; exact hv
  · intro _ hr; rw [drainPort_nil fix _ _ hr]; exact hr

theorem drain_port_kept (fix : Fix) (m : Master) (id : Nat) (p : MPort) (hp : findPort m.ports id = some p) :
    ∃ p', findPort (drain fix m).2.ports id = some p' ∧ Kept p p' := by
  unfold drain
  simp only [List.map_map]
  have : findPort (m.ports.map ((fun x => x.2) ∘ fun p => drainPort fix p.rq.length p)) id
      = (findPort m.ports id).map (fun p => (drainPort fix p.rq.length p).2) := by
    unfold findPort
    rw [List.find?_map]
    have : ((fun p => p.id == id) ∘ (fun x => x.2) ∘ fun p => drainPort fix p.rq.length p)
        = (fun p : MPort => p.id == id) := by
      funext q
      simp only [Function.comp, drainPort_id]
    rw [this]
    rfl
  rw [this, hp]
  exact ⟨_, rfl, drainPort_kept fix _ p⟩

/-- What reaches the master between an offline edit and the reconnect: events reported by the slave (handled by
the listen loop before `apply_provisioning`) and ticks of the hub's polling loop. -/
inductive Inc
  | ev (e : Ev)
  | tick
  deriving DecidableEq, Repr

def stepInc (fix : Fix) (m : Master) : Inc → Master
  | .ev e => stepEvent fix m e
  | .tick => (drain fix m).2

def runInc (fix : Fix) (m : Master) (l : List Inc) : Master := l.foldl (stepInc fix) m

theorem runInc_port_kept (vb kv : Bool) (id : Nat) (incs : List Inc) :
    ∀ (m : Master) (p : MPort), findPort m.ports id = some p → Inc.ev (.portRemove id) ∉ incs →
      ∃ p', findPort (runInc ⟨vb, true, kv⟩ m incs).ports id = some p' ∧ Kept p p' := by
  induction incs with
  | nil => intro m p hp _; exact ⟨p, hp, Kept.refl p⟩
  | cons x r ih =>
    intro m p hp hnr
    have hx : x ≠ Inc.ev (.portRemove id) := fun h => hnr (h ▸ List.mem_cons_self ..)
    have hr : Inc.ev (.portRemove id) ∉ r := fun h => hnr (List.mem_cons_of_mem _ h)
    have step : ∃ p1, findPort (stepInc ⟨vb, true, kv⟩ m x).ports id = some p1 ∧ Kept p p1 := by
      cases x with
      | ev e => exact stepEvent_port_kept vb kv m e id p hp (fun h => hx (by rw [h]))
      | tick => exact drain_port_kept _ m id p hp
    obtain ⟨p1, hp1, k1⟩ := step
    obtain ⟨p', hp', k2⟩ := ih _ p1 hp1 hr
    exact ⟨p', hp', k1.trans k2⟩

/-! ### The pending VALUE under the repaired `read_value` (`keepPendingValue`): kept whatever is queued

As found, a tick replaces `_cached_value` by the popped value, so a pending value survives only if the remote queue
is empty (`Kept`, third and fifth clause). Repaired, a tick leaves `_cached_value` alone while a value is pending;
no event handler touches `_cached_value` or the `value` entry of `_provisioning`. -/

/-- The `value` entry of `_provisioning` is the same and, when set, so is `_cached_value`. -/
def KeptV (p p' : MPort) : Prop := p'.provValue = p.provValue ∧ (p.provValue = true → p'.cached = p.cached)

theorem KeptV.refl (p : MPort) : KeptV p p := ⟨rfl, fun _ => rfl⟩

theorem KeptV.trans {a b c : MPort} (h1 : KeptV a b) (h2 : KeptV b c) : KeptV a c :=
  ⟨h2.1.trans h1.1, fun h => (h2.2 (h1.1.trans h)).trans (h1.2 h)⟩

theorem KeptV.pendValue {p p' : MPort} (k : KeptV p p') {u : Int} (hv : p.pendValue = some u) :
    p'.pendValue = some u := by
  unfold MPort.pendValue at *
  cases hpv : p.provValue with
  | false => rw [hpv] at hv; cases hv
  | true =>
    rw [hpv] at hv
    rw [k.1, hpv, k.2 hpv]; exact hv

theorem applyPortUpdate_keptV (fix : Fix) (p : MPort) (msg : PortMsg) : KeptV p (applyPortUpdate fix p msg).1 := by
  unfold applyPortUpdate
  simp only
  constructor
  · split <;> rfl
  · intro _; split <;> rfl

theorem tickPort_keptV (fix : Fix) (hk : fix.keepPendingValue = true) (p : MPort) : KeptV p (tickPort fix p).2 := by
  unfold tickPort
  split
  · exact KeptV.refl p
  · split
    · exact KeptV.refl p
    · refine ⟨rfl, ?_⟩
      intro hpv
      simp only [hk, hpv, Bool.and_self, if_true]

theorem drainPort_keptV (fix : Fix) (hk : fix.keepPendingValue = true) (n : Nat) (p : MPort) :
    KeptV p (drainPort fix n p).2 := by
  induction n generalizing p with
  | zero => exact KeptV.refl p
  | succ k ih =>
    unfold drainPort
    split
    · exact KeptV.refl p
    · exact (tickPort_keptV fix hk p).trans (ih _)

theorem drain_port_keptV (fix : Fix) (hk : fix.keepPendingValue = true) (m : Master) (id : Nat) (p : MPort)
    (hp : findPort m.ports id = some p) : ∃ p', findPort (drain fix m).2.ports id = some p' ∧ KeptV p p' := by
  obtain ⟨p', hp', _⟩ := drain_port_kept fix m id p hp
  refine ⟨p', hp', ?_⟩
  have : findPort (drain fix m).2.ports id = some (drainPort fix p.rq.length p).2 := by
    unfold drain
    simp only [List.map_map]
    unfold findPort
    rw [List.find?_map]
    have : ((fun p => p.id == id) ∘ (fun x => x.2) ∘ fun p => drainPort fix p.rq.length p)
        = (fun p : MPort => p.id == id) := by
      funext q
      simp only [Function.comp, drainPort_id]
    rw [this]
    show Option.map _ (findPort m.ports id) = _
    rw [hp]; rfl
  rw [this] at hp'
  cases hp'
  exact drainPort_keptV fix hk _ p

/-- No event handler touches `_cached_value` or the `value` entry of `_provisioning` (whatever `fix`). -/
theorem stepEvent_port_keptV (fix : Fix) (m : Master) (e : Ev) (id : Nat) (p : MPort)
    (hp : findPort m.ports id = some p) (hne : e ≠ .portRemove id) :
    ∃ p', findPort (stepEvent fix m e).ports id = some p' ∧ KeptV p p' := by
  cases e with
  | valueChange i v =>
    rw [stepEvent_valueChange_p]
    cases hf : findPort m.ports i with
    | none => exact ⟨p, hp, KeptV.refl p⟩
    | some q =>
      simp only
      by_cases h1 : q.pendValue.isSome
      · simp only [h1, if_true]; exact ⟨p, hp, KeptV.refl p⟩
      · simp only [h1, Bool.false_eq_true, if_false]
        by_cases h2 : q.lastRemote == v
        · simp only [h2, if_true]; exact ⟨p, hp, KeptV.refl p⟩
        · simp only [h2, Bool.false_eq_true, if_false]
          rw [findPort_updPort_p _ _ _ _ (fun q => push_id q v), hp]
          simp only [Option.map_some]
          by_cases h3 : p.id == i
          · simp only [h3, if_true]
            exact ⟨_, rfl, rfl, fun _ => rfl⟩
          · simp only [h3, Bool.false_eq_true, if_false]
            exact ⟨p, rfl, KeptV.refl p⟩
  | portUpdate msg =>
    rw [stepEvent_portUpdate_p]
    cases hf : findPort m.ports msg.id with
    | none => exact ⟨p, hp, KeptV.refl p⟩
    | some q =>
      simp only
      rw [findPort_updPort_p _ _ _ _ (fun q => applyPortUpdate_id _ q msg), hp]
      simp only [Option.map_some]
      by_cases h3 : p.id == msg.id
      · simp only [h3, if_true]
        exact ⟨_, rfl, applyPortUpdate_keptV fix p msg⟩
      · simp only [h3, Bool.false_eq_true, if_false]
        exact ⟨p, rfl, KeptV.refl p⟩
  | portAdd msg =>
    rw [stepEvent_portAdd_p]
    cases hf : findPort m.ports msg.id with
    | some q => exact ⟨p, hp, KeptV.refl p⟩
    | none =>
      simp only
      have hne' : (mkPort msg).id ≠ id := by
        intro h
        have : msg.id = id := h
        rw [this, hp] at hf
        cases hf
      rw [findPort_append_ne _ _ _ hne']
      exact ⟨p, hp, KeptV.refl p⟩
  | portRemove i =>
    rw [stepEvent_portRemove_p]
    cases hf : findPort m.ports i with
    | none => exact ⟨p, hp, KeptV.refl p⟩
    | some q =>
      simp only
      have : id ≠ i := by
        intro h
        apply hne
        rw [h]
      rw [findPort_erasePort_ne _ _ _ this]
      exact ⟨p, hp, KeptV.refl p⟩
  | deviceUpdate a =>
    rw [stepEvent_deviceUpdate_p]
    split
    · exact ⟨p, hp, KeptV.refl p⟩
    · exact ⟨p, hp, KeptV.refl p⟩

/-- **Repaired `read_value`:** along every `Inc` history (events and ticks) the pending value of a port that is not
removed is kept, whatever is queued on it. -/
theorem runInc_port_keptV (fix : Fix) (hk : fix.keepPendingValue = true) (id : Nat) (incs : List Inc) :
    ∀ (m : Master) (p : MPort), findPort m.ports id = some p → Inc.ev (.portRemove id) ∉ incs →
      ∃ p', findPort (runInc fix m incs).ports id = some p' ∧ KeptV p p' := by
  induction incs with
  | nil => intro m p hp _; exact ⟨p, hp, KeptV.refl p⟩
  | cons x r ih =>
    intro m p hp hnr
    have hx : x ≠ Inc.ev (.portRemove id) := fun h => hnr (h ▸ List.mem_cons_self ..)
    have hr : Inc.ev (.portRemove id) ∉ r := fun h => hnr (List.mem_cons_of_mem _ h)
    have step : ∃ p1, findPort (stepInc fix m x).ports id = some p1 ∧ KeptV p p1 := by
      cases x with
      | ev e => exact stepEvent_port_keptV fix m e id p hp (fun h => hx (by rw [h]))
      | tick => exact drain_port_keptV fix hk m id p hp
    obtain ⟨p1, hp1, k1⟩ := step
    obtain ⟨p', hp', k2⟩ := ih _ p1 hp1 hr
    exact ⟨p', hp', k1.trans k2⟩

theorem drain_dev (fix : Fix) (m : Master) : (drain fix m).2.dev = m.dev ∧ (drain fix m).2.devProv = m.devProv := ⟨rfl, rfl⟩

theorem DevKept.trans {a b c : Master} (h1 : DevKept a b) (h2 : DevKept b c) : DevKept a c := by
  refine ⟨by rw [h2.1, h1.1], ?_⟩
  intro n hn v hv
  exact h2.2 n (by rw [h1.1]; exact hn) v (h1.2 n hn v hv)

/-- Every device update reports every pending device attribute (a real device always reports its whole
attribute set). -/
def DevReports (devProv : List Nat) (incs : List Inc) : Prop :=
  ∀ a, Inc.ev (.deviceUpdate a) ∈ incs → ∀ n ∈ devProv, a.has n = true

theorem runInc_dev_kept (fix : Fix) (incs : List Inc) :
    ∀ (m : Master), DevReports m.devProv incs → DevKept m (runInc fix m incs) := by
  induction incs with
  | nil => intro m _; exact ⟨rfl, fun _ _ _ h => h⟩
  | cons x r ih =>
    intro m hrep
    have step : DevKept m (stepInc fix m x) := by
      cases x with
      | ev e =>
        apply stepEvent_dev_kept
        intro a ha n hn
        exact hrep a (ha ▸ List.mem_cons_self ..) n hn
      | tick => exact ⟨rfl, fun _ _ _ h => h⟩
    have hrep' : DevReports (stepInc fix m x).devProv r := by
      intro a ha n hn
      rw [step.1] at hn
      exact hrep a (List.mem_cons_of_mem _ ha) n hn
    exact step.trans (ih _ hrep')

/-! ### Provisioning requests -/

def Req.isPush : Req → Bool
  | .patchDevice _ | .putWebhooks _ | .putReverse _ | .patchPort _ _ | .patchValue _ _ => true
  | _ => false

/-- The push requests of one port, declaratively. -/
def portPush (fix : Fix) (p : MPort) : List Req :=
  (if p.pendAttrs.isEmpty then [] else [Req.patchPort p.id p.pendAttrs]) ++
  (match p.pendValue with
   | some v => [Req.patchValue p.id (if fix.valueBody then some v else none)]
   | none => [])

theorem provisionPorts_reqs (fix : Fix) (rf : List Nat) (l : List MPort) :
    (provisionPorts fix rf l).1 = l.flatMap (portPush fix) := by
  induction l with
  | nil => rfl
  | cons p t ih =>
    simp only [provisionPorts, List.flatMap_cons]
    rw [ih]
    rfl

theorem provisionPorts_clean (fix : Fix) (rf : List Nat) (l : List MPort) :
    ∀ p ∈ (provisionPorts fix rf l).2, p.prov = [] ∧ p.provValue = false := by
  induction l with
  | nil => intro p hp; cases hp
  | cons a t ih =>
    intro p hp
    simp only [provisionPorts, List.mem_cons] at hp
    cases hp with
    | inl h => subst h; exact ⟨rfl, rfl⟩
    | inr h => exact ih p h

/-- All the push requests of a reconnect, declaratively: device attributes, webhooks, reverse, then per port
(attributes, then value) in registry order. -/
def pushReqs (fix : Fix) (m : Master) : List Req :=
  (if m.pendDev.isEmpty then [] else [Req.patchDevice m.pendDev]) ++
  (if !m.webhooks.isEmpty && m.provWebhooks then [Req.putWebhooks m.webhooks] else []) ++
  (if !m.reverse.isEmpty && m.provReverse then [Req.putReverse m.reverse] else []) ++
  m.ports.flatMap (portPush fix)

def queryReqs (m : Master) : List Req :=
  (if !(!m.webhooks.isEmpty && m.provWebhooks) && m.hasWebhooks then [Req.getWebhooks] else []) ++
  (if !(!m.reverse.isEmpty && m.provReverse) && m.hasReverse then [Req.getReverse] else [])

theorem applyProvisioning_reqs (fix : Fix) (rf : List Nat) (m : Master) :
    (applyProvisioning fix rf m).1 = pushReqs fix m ++ queryReqs m := by
  unfold applyProvisioning pushReqs queryReqs
  simp only [provisionPorts_reqs, List.append_assoc]

theorem portPush_isPush (fix : Fix) (p : MPort) : ∀ r ∈ portPush fix p, r.isPush = true := by
  intro r hr
  unfold portPush at hr
  simp only [List.mem_append] at hr
  cases hr with
  | inl h =>
    split at h
    · cases h
    · simp only [List.mem_singleton] at h; subst h; rfl
  | inr h =>
    split at h
    · simp only [List.mem_singleton] at h; subst h; rfl
    · cases h

theorem pushReqs_isPush (fix : Fix) (m : Master) : ∀ r ∈ pushReqs fix m, r.isPush = true := by
  intro r hr
  unfold pushReqs at hr
  simp only [List.mem_append, List.mem_flatMap] at hr
  rcases hr with ((h | h) | h) | ⟨p, _, h⟩
  · split at h
    · cases h
    · simp only [List.mem_singleton] at h; subst h; rfl
  · split at h
    · simp only [List.mem_singleton] at h; subst h; rfl
    · cases h
  · split at h
    · simp only [List.mem_singleton] at h; subst h; rfl
    · cases h
  · exact portPush_isPush fix p r h

theorem queryReqs_notPush (m : Master) : ∀ r ∈ queryReqs m, r.isPush = false := by
  intro r hr
  unfold queryReqs at hr
  simp only [List.mem_append] at hr
  rcases hr with h | h
  · split at h
    · simp only [List.mem_singleton] at h; subst h; rfl
    · cases h
  · split at h
    · simp only [List.mem_singleton] at h; subst h; rfl
    · cases h

/-- Requests addressed to the value / the attributes of port `id`. -/
def Req.isValuePushFor (id : Nat) : Req → Bool
  | .patchValue i _ => i == id
  | _ => false

def Req.isAttrPushFor (id : Nat) : Req → Bool
  | .patchPort i _ => i == id
  | _ => false

def Req.isDevPush : Req → Bool
  | .patchDevice _ => true
  | _ => false

theorem portPush_filter_value_other (fix : Fix) (p : MPort) (id : Nat) (h : p.id ≠ id) :
    (portPush fix p).filter (Req.isValuePushFor id) = [] := by
  have hb : (p.id == id) = false := by simp only [beq_eq_false_iff_ne]; exact h
  unfold portPush
  rw [List.filter_append]
  have h1 : (if p.pendAttrs.isEmpty then [] else [Req.patchPort p.id p.pendAttrs]).filter (Req.isValuePushFor id) = [] := by
    split <;> simp [Req.isValuePushFor]
  rw [h1]
  cases p.pendValue <;> simp [Req.isValuePushFor, hb]

theorem portPush_filter_attr_other (fix : Fix) (p : MPort) (id : Nat) (h : p.id ≠ id) :
    (portPush fix p).filter (Req.isAttrPushFor id) = [] := by
  have hb : (p.id == id) = false := by simp only [beq_eq_false_iff_ne]; exact h
  unfold portPush
  rw [List.filter_append]
  have h1 : (if p.pendAttrs.isEmpty then [] else [Req.patchPort p.id p.pendAttrs]).filter (Req.isAttrPushFor id) = [] := by
    split <;> simp [Req.isAttrPushFor, hb]
  rw [h1]
  cases p.pendValue <;> simp [Req.isAttrPushFor]

theorem portPush_filter_value_self (fix : Fix) (p : MPort) :
    (portPush fix p).filter (Req.isValuePushFor p.id) =
      match p.pendValue with
      | some v => [Req.patchValue p.id (if fix.valueBody then some v else none)]
      | none => [] := by
  unfold portPush
  rw [List.filter_append]
  have h1 : (if p.pendAttrs.isEmpty then [] else [Req.patchPort p.id p.pendAttrs]).filter (Req.isValuePushFor p.id) = [] := by
    split <;> simp [Req.isValuePushFor]
  rw [h1]
  cases p.pendValue <;> simp [Req.isValuePushFor]

theorem portPush_filter_attr_self (fix : Fix) (p : MPort) :
    (portPush fix p).filter (Req.isAttrPushFor p.id) =
      if p.pendAttrs.isEmpty then [] else [Req.patchPort p.id p.pendAttrs] := by
  unfold portPush
  rw [List.filter_append]
  have h2 : (match p.pendValue with
      | some v => [Req.patchValue p.id (if fix.valueBody then some v else none)]
      | none => []).filter (Req.isAttrPushFor p.id) = [] := by
    cases p.pendValue <;> simp [Req.isAttrPushFor]
  rw [h2]
  split <;> simp [Req.isAttrPushFor]

/-- With distinct port ids, the requests for one port among the per-port pushes are exactly that port's. -/
theorem flatMap_filter_value (fix : Fix) (l : List MPort) (p : MPort) (hp : p ∈ l)
    (hnd : (l.map (·.id)).Nodup) :
    (l.flatMap (portPush fix)).filter (Req.isValuePushFor p.id) = (portPush fix p).filter (Req.isValuePushFor p.id) := by
  induction l with
  | nil => cases hp
  | cons a t ih =>
    simp only [List.map_cons, List.nodup_cons, List.mem_map, not_exists, not_and] at hnd
    simp only [List.flatMap_cons, List.filter_append]
    cases hp with
    | head =>
      have : (t.flatMap (portPush fix)).filter (Req.isValuePushFor p.id) = [] := by
        clear ih
        induction t with
        | nil => rfl
        | cons b r ihr =>
          simp only [List.flatMap_cons, List.filter_append]
          have hb : b.id ≠ p.id := fun h => hnd.1 b (List.mem_cons_self ..) h
          rw [portPush_filter_value_other fix b p.id hb]
          simp only [List.nil_append]
          apply ihr
          · refine ⟨fun x hx => hnd.1 x (List.mem_cons_of_mem _ hx), ?_⟩
            have := hnd.2
            simp only [List.map_cons, List.nodup_cons] at this
            exact this.2
      rw [this, List.append_nil]
    | tail _ h =>
      have ha : a.id ≠ p.id := fun hh => hnd.1 p h hh.symm
      rw [portPush_filter_value_other fix a p.id ha, List.nil_append]
      exact ih h hnd.2

theorem flatMap_filter_attr (fix : Fix) (l : List MPort) (p : MPort) (hp : p ∈ l)
    (hnd : (l.map (·.id)).Nodup) :
    (l.flatMap (portPush fix)).filter (Req.isAttrPushFor p.id) = (portPush fix p).filter (Req.isAttrPushFor p.id) := by
  induction l with
  | nil => cases hp
  | cons a t ih =>
    simp only [List.map_cons, List.nodup_cons, List.mem_map, not_exists, not_and] at hnd
    simp only [List.flatMap_cons, List.filter_append]
    cases hp with
    | head =>
      have : (t.flatMap (portPush fix)).filter (Req.isAttrPushFor p.id) = [] := by
        clear ih
        induction t with
        | nil => rfl
        | cons b r ihr =>
          simp only [List.flatMap_cons, List.filter_append]
          have hb : b.id ≠ p.id := fun h => hnd.1 b (List.mem_cons_self ..) h
          rw [portPush_filter_attr_other fix b p.id hb]
          simp only [List.nil_append]
          apply ihr
          · refine ⟨fun x hx => hnd.1 x (List.mem_cons_of_mem _ hx), ?_⟩
            have := hnd.2
            simp only [List.map_cons, List.nodup_cons] at this
            exact this.2
      rw [this, List.append_nil]
    | tail _ h =>
      have ha : a.id ≠ p.id := fun hh => hnd.1 p h hh.symm
      rw [portPush_filter_attr_other fix a p.id ha, List.nil_append]
      exact ih h hnd.2

/-! ### After the reconnect nothing is pending -/

def AllClean (l : List MPort) : Prop := ∀ p ∈ l, p.prov = [] ∧ p.provValue = false

theorem applyPortUpdate_static (fix : Fix) (p : MPort) (msg : PortMsg) :
    (applyPortUpdate fix p msg).1.prov = p.prov ∧ (applyPortUpdate fix p msg).1.provValue = p.provValue := by
  unfold applyPortUpdate MPort.push
  simp only
  split <;> exact ⟨rfl, rfl⟩

theorem allClean_updPort (l : List MPort) (i : Nat) (f : MPort → MPort)
    (hf : ∀ p, (f p).prov = p.prov ∧ (f p).provValue = p.provValue) (h : AllClean l) : AllClean (updPort l i f) := by
  intro p hp
  unfold updPort at hp
  simp only [List.mem_map] at hp
  obtain ⟨q, hq, rfl⟩ := hp
  split
  · rw [(hf q).1, (hf q).2]; exact h q hq
  · exact h q hq

theorem allClean_fetchPorts (fix : Fix) (m : Master) (resp : List PortMsg) (h : AllClean m.ports) :
    AllClean (fetchPorts fix m resp).ports := by
  unfold fetchPorts
  simp only
  -- phase 1: updates
  have h1 : ∀ (ids : List Nat) (l : List PortMsg) (acc : Master), AllClean acc.ports →
      AllClean (l.foldl (fun acc msg =>
        if ids.contains msg.id then
          match handlePortUpdate fix acc msg with | .ok (a, _) => a | .error _ => acc
        else acc) acc).ports := by
    intro ids l
    induction l with
    | nil => intro acc ha; exact ha
    | cons x r ih =>
      intro acc ha
      simp only [List.foldl_cons]
      apply ih
      split
      · unfold handlePortUpdate
        cases findPort acc.ports x.id with
        | none => exact ha
        | some q =>
          simp only
          exact allClean_updPort _ _ _ (fun p => applyPortUpdate_static fix p x) ha
      · exact ha
  -- phase 2: additions
  have h2 : ∀ (ids : List Nat) (l : List PortMsg) (acc : Master), AllClean acc.ports →
      AllClean (l.foldl (fun acc msg =>
        if ids.contains msg.id then acc
        else match handlePortAdd acc msg with | .ok (a, _) => a | .error _ => acc) acc).ports := by
    intro ids l
    induction l with
    | nil => intro acc ha; exact ha
    | cons x r ih =>
      intro acc ha
      simp only [List.foldl_cons]
      apply ih
      split
      · exact ha
      · unfold handlePortAdd
        cases findPort acc.ports x.id with
        | some q => exact ha
        | none =>
          simp only
          intro p hp
          simp only [List.mem_append, List.mem_singleton] at hp
          cases hp with
          | inl hh => exact ha p hh
          | inr hh => subst hh; exact ⟨rfl, rfl⟩
  intro p hp
  simp only [List.mem_filter] at hp
  exact h2 _ _ _ (h1 _ _ _ h) p hp.1


/-- The fields a full resync does not touch. -/
def Static (m m' : Master) : Prop :=
  m'.devProv = m.devProv ∧ m'.provWebhooks = m.provWebhooks ∧ m'.provReverse = m.provReverse

theorem fetchPorts_static (fix : Fix) (m : Master) (resp : List PortMsg) : Static m (fetchPorts fix m resp) := by
  unfold fetchPorts
  simp only
  have h1 : ∀ (ids : List Nat) (l : List PortMsg) (acc : Master), Static m acc →
      Static m (l.foldl (fun acc msg =>
        if ids.contains msg.id then
          match handlePortUpdate fix acc msg with | .ok (a, _) => a | .error _ => acc
        else acc) acc) := by
    intro ids l
    induction l with
    | nil => intro acc ha; exact ha
    | cons x r ih =>
      intro acc ha
      simp only [List.foldl_cons]
      apply ih
      split
      · unfold handlePortUpdate
        cases findPort acc.ports x.id with
        | none => exact ha
        | some q => exact ha
      · exact ha
  have h2 : ∀ (ids : List Nat) (l : List PortMsg) (acc : Master), Static m acc →
      Static m (l.foldl (fun acc msg =>
        if ids.contains msg.id then acc
        else match handlePortAdd acc msg with | .ok (a, _) => a | .error _ => acc) acc) := by
    intro ids l
    induction l with
    | nil => intro acc ha; exact ha
    | cons x r ih =>
      intro acc ha
      simp only [List.foldl_cons]
      apply ih
      split
      · exact ha
      · unfold handlePortAdd
        cases findPort acc.ports x.id with
        | some q => exact ha
        | none => exact ha
  exact h2 _ _ _ (h1 _ _ _ ⟨rfl, rfl, rfl⟩)

/-! ### The reconnect as a whole -/

def refreshReqs : Mode → List Req
  | .listen => [.getDevice, .getPorts]
  | .poll => []

theorem pushReqs_online (fix : Fix) (m : Master) : pushReqs fix { m with online := true } = pushReqs fix m := rfl
theorem queryReqs_online (m : Master) : queryReqs { m with online := true } = queryReqs m := rfl

/-- Requests of `_handle_online` when the refresh succeeds: all pushes, then the webhooks/reverse queries, then
the refresh fetches (listen mode; in polling mode the poll that follows does the refresh). -/
theorem handleOnline_reqs (fix : Fix) (rf : List Nat) (m : Master) (d : Attrs) (ps : List PortMsg) :
    (handleOnline fix rf m (some d) (some ps)).1 = pushReqs fix m ++ queryReqs m ++ refreshReqs m.mode := by
  have h := applyProvisioning_reqs fix rf { m with online := true }
  rw [pushReqs_online, queryReqs_online] at h
  unfold handleOnline
  rcases m with ⟨mode, _, _, _, _, _, _, _, _, _, _, _⟩
  cases mode with
  | poll =>
    simp only [refreshReqs, List.append_nil]
    rw [← h]
  | listen =>
    simp only [refreshReqs]
    rw [← h]

theorem refreshReqs_notPush (mode : Mode) : ∀ r ∈ refreshReqs mode, r.isPush = false := by
  intro r hr
  cases mode with
  | listen =>
    simp only [refreshReqs, List.mem_cons, List.mem_nil_iff, or_false] at hr
    rcases hr with h | h <;> subst h <;> rfl
  | poll => cases hr

theorem filter_nonport_value (fix : Fix) (m : Master) (id : Nat) :
    ((if m.pendDev.isEmpty then [] else [Req.patchDevice m.pendDev]) ++
     (if !m.webhooks.isEmpty && m.provWebhooks then [Req.putWebhooks m.webhooks] else []) ++
     (if !m.reverse.isEmpty && m.provReverse then [Req.putReverse m.reverse] else [])).filter (Req.isValuePushFor id) = [] ∧
    ((if m.pendDev.isEmpty then [] else [Req.patchDevice m.pendDev]) ++
     (if !m.webhooks.isEmpty && m.provWebhooks then [Req.putWebhooks m.webhooks] else []) ++
     (if !m.reverse.isEmpty && m.provReverse then [Req.putReverse m.reverse] else [])).filter (Req.isAttrPushFor id) = [] ∧
    (queryReqs m ++ refreshReqs m.mode).filter (Req.isValuePushFor id) = [] ∧
    (queryReqs m ++ refreshReqs m.mode).filter (Req.isAttrPushFor id) = [] ∧
    (queryReqs m ++ refreshReqs m.mode).filter Req.isDevPush = [] := by
  refine ⟨?_, ?_, ?_, ?_, ?_⟩
  · simp only [List.filter_append]
    split <;> split <;> split <;> simp [Req.isValuePushFor]
  · simp only [List.filter_append]
    split <;> split <;> split <;> simp [Req.isAttrPushFor]
  · unfold queryReqs
    simp only [List.filter_append]
    cases m.mode <;> split <;> split <;> simp [Req.isValuePushFor, refreshReqs]
  · unfold queryReqs
    simp only [List.filter_append]
    cases m.mode <;> split <;> split <;> simp [Req.isAttrPushFor, refreshReqs]
  · unfold queryReqs
    simp only [List.filter_append]
    cases m.mode <;> split <;> split <;> simp [Req.isDevPush, refreshReqs]

theorem portPush_filter_dev (fix : Fix) (l : List MPort) : (l.flatMap (portPush fix)).filter Req.isDevPush = [] := by
  induction l with
  | nil => rfl
  | cons p t ih =>
    simp only [List.flatMap_cons, List.filter_append, ih, List.append_nil]
    unfold portPush
    simp only [List.filter_append]
    split <;> cases p.pendValue <;> simp [Req.isDevPush]

/-- Among all the requests of a reconnect, those that carry the VALUE of port `p` … -/
theorem reconnect_value_reqs (fix : Fix) (m : Master) (p : MPort) (hp : p ∈ m.ports)
    (hnd : (m.ports.map (·.id)).Nodup) :
    (pushReqs fix m ++ queryReqs m ++ refreshReqs m.mode).filter (Req.isValuePushFor p.id) =
      match p.pendValue with
      | some v => [Req.patchValue p.id (if fix.valueBody then some v else none)]
      | none => [] := by
  obtain ⟨h1, _, h3, _, _⟩ := filter_nonport_value fix m p.id
  rw [List.append_assoc, List.filter_append, h3, List.append_nil]
  unfold pushReqs
  rw [List.filter_append, h1, List.nil_append, flatMap_filter_value fix _ p hp hnd, portPush_filter_value_self]

/-- … and those that carry ATTRIBUTES of port `p`. -/
theorem reconnect_attr_reqs (fix : Fix) (m : Master) (p : MPort) (hp : p ∈ m.ports)
    (hnd : (m.ports.map (·.id)).Nodup) :
    (pushReqs fix m ++ queryReqs m ++ refreshReqs m.mode).filter (Req.isAttrPushFor p.id) =
      if p.pendAttrs.isEmpty then [] else [Req.patchPort p.id p.pendAttrs] := by
  obtain ⟨_, h2, _, h4, _⟩ := filter_nonport_value fix m p.id
  rw [List.append_assoc, List.filter_append, h4, List.append_nil]
  unfold pushReqs
  rw [List.filter_append, h2, List.nil_append, flatMap_filter_attr fix _ p hp hnd, portPush_filter_attr_self]

theorem reconnect_dev_reqs (fix : Fix) (m : Master) :
    (pushReqs fix m ++ queryReqs m ++ refreshReqs m.mode).filter Req.isDevPush =
      if m.pendDev.isEmpty then [] else [Req.patchDevice m.pendDev] := by
  obtain ⟨_, _, _, _, h5⟩ := filter_nonport_value fix m 0
  rw [List.append_assoc, List.filter_append, h5, List.append_nil]
  unfold pushReqs
  simp only [List.filter_append, portPush_filter_dev, List.append_nil]
  split <;> split <;> split <;> simp [Req.isDevPush]

theorem pendDev_isEmpty_of (m : Master) (hdev : ∀ n ∈ m.devProv, (m.dev.get? n).isSome)
    (he : m.pendDev.isEmpty = true) : m.devProv = [] := by
  cases hd : m.devProv with
  | nil => rfl
  | cons n t =>
    exfalso
    have hn : n ∈ m.devProv := by rw [hd]; exact List.mem_cons_self ..
    have := hdev n hn
    obtain ⟨v, hv⟩ := Option.isSome_iff_exists.mp this
    have hh := pendDev_has hn hv
    unfold Attrs.has at hh
    rw [List.isEmpty_iff] at he
    rw [he] at hh
    simp at hh

/-- After `_handle_online` nothing is pending, whatever the refresh fetches returned. -/
theorem handleOnline_clean (fix : Fix) (rf : List Nat) (m : Master) (d : Option Attrs) (ps : Option (List PortMsg))
    (hdev : ∀ n ∈ m.devProv, (m.dev.get? n).isSome)
    (hw : m.provWebhooks = true → m.webhooks ≠ []) (hr : m.provReverse = true → m.reverse ≠ []) :
    AllClean (handleOnline fix rf m d ps).2.ports ∧ (handleOnline fix rf m d ps).2.devProv = [] ∧
    (handleOnline fix rf m d ps).2.provWebhooks = false ∧ (handleOnline fix rf m d ps).2.provReverse = false := by
  have hc : AllClean (applyProvisioning fix rf { m with online := true }).2.ports := by
    unfold applyProvisioning
    exact provisionPorts_clean fix rf m.ports
  have hd : (applyProvisioning fix rf { m with online := true }).2.devProv = [] := by
    unfold applyProvisioning
    simp only
    split
    · rename_i he
      exact pendDev_isEmpty_of m hdev he
    · rfl
  have hwh : (applyProvisioning fix rf { m with online := true }).2.provWebhooks = false := by
    unfold applyProvisioning
    simp only
    cases h1 : m.provWebhooks with
    | false => simp
    | true =>
      have := hw h1
      have : m.webhooks.isEmpty = false := by
        cases hh : m.webhooks with
        | nil => exact absurd hh this
        | cons _ _ => rfl
      simp [this]
  have hrv : (applyProvisioning fix rf { m with online := true }).2.provReverse = false := by
    unfold applyProvisioning
    simp only
    cases h1 : m.provReverse with
    | false => simp
    | true =>
      have := hr h1
      have : m.reverse.isEmpty = false := by
        cases hh : m.reverse with
        | nil => exact absurd hh this
        | cons _ _ => rfl
      simp [this]
  generalize hA : applyProvisioning fix rf { m with online := true } = A at hc hd hwh hrv
  have hmode : ∀ (mode : Mode), m.mode = mode →
      AllClean (handleOnline fix rf m d ps).2.ports ∧ (handleOnline fix rf m d ps).2.devProv = [] ∧
      (handleOnline fix rf m d ps).2.provWebhooks = false ∧ (handleOnline fix rf m d ps).2.provReverse = false := by
    intro mode hm
    unfold handleOnline
    rw [hA, hm]
    cases mode with
    | poll => exact ⟨hc, hd, hwh, hrv⟩
    | listen =>
      cases d with
      | none => exact ⟨hc, hd, hwh, hrv⟩
      | some dd =>
        cases ps with
        | none => exact ⟨hc, hd, hwh, hrv⟩
        | some pp =>
          simp only
          obtain ⟨s1, s2, s3⟩ := fetchPorts_static fix { A.2 with dev := dd } pp
          exact ⟨allClean_fetchPorts fix _ pp hc, s1.trans hd, s2.trans hwh, s3.trans hrv⟩
  exact hmode m.mode rfl

/-! ### The offline edit operations, spelled out -/

def attrEdit (n : Nat) (v : Int) (p : MPort) : MPort := { p with prov := addName p.prov n, attrs := p.attrs.set n v }
def valueEdit (v : Int) (p : MPort) : MPort := { p with cached := some v, provValue := true }

theorem editAttr_offline (m : Master) (hoff : m.online = false) (id n : Nat) (v : Int) :
    editAttr m id n v = ({ m with ports := updPort m.ports id (attrEdit n v) }, []) := by
  unfold editAttr attrEdit; simp [hoff]

theorem editValue_offline (m : Master) (hoff : m.online = false) (id : Nat) (v : Int) (ok : Bool) :
    editValue m id v ok = ({ m with ports := updPort m.ports id (valueEdit v) }, []) := by
  unfold editValue valueEdit; simp [hoff]

theorem editDev_offline (m : Master) (hoff : m.online = false) (n : Nat) (v : Int) :
    editDev m n v = ({ m with devProv := addName m.devProv n, dev := m.dev.set n v }, []) := by
  unfold editDev; simp [hoff]

theorem mem_addName (l : List Nat) (n : Nat) : n ∈ addName l n := by
  unfold addName; split
  · rename_i h; simpa using h
  · simp

end QtVerif.Slave
