import QtVerif.Proofs.SessionsDelivery
/-!
Run-level delivery lemmas for C11, part 4: an event that was queued for a session and is neither
delivered nor still queued at the end was lost for one of four reasons (`LossCause`).
-/
namespace QtVerif.Sessions

theorem respond_exact (s : Sess) (h : s.active.isSome) : evs (respond s).2 = s.queue.reverse := by
  unfold respond
  cases ha : s.active with
  | none => rw [ha] at h; cases h
  | some r => simp [evs]

theorem listenSess_keeps (s : Sess) (r lvl timeout now : Nat) (x : Ev)
    (hx : x ∈ s.queue) (hl : x.req ≤ lvl) :
    x ∈ evs (listenSess true s r lvl timeout now).2 ++
        (listenSess true s r lvl timeout now).1.queue.reverse := by
  have hp : x ∈ evs (if s.active.isSome then respond s else (s, [])).2 ++
      (if s.active.isSome then respond s else (s, [])).1.queue.reverse := by
    split
    · rename_i h
      rw [respond_exact s h]
      exact List.mem_append_left _ (List.mem_reverse.mpr hx)
    · exact List.mem_append_right _ (List.mem_reverse.mpr hx)
  unfold listenSess
  generalize (if s.active.isSome then respond s else (s, [])) = p at hp
  obtain ⟨s1, out1⟩ := p
  simp only [if_true] at hp ⊢
  rcases List.mem_append.mp hp with h | h
  · split
    · exact List.mem_append_left _ h
    · simp only [evs_append]
      exact List.mem_append_left _ (List.mem_append_left _ h)
  · have hq : x ∈ s1.queue.filter (fun e => decide (e.req ≤ lvl)) :=
      List.mem_filter.mpr ⟨List.mem_reverse.mp h, by simpa using hl⟩
    split
    · rename_i he
      simp only [List.isEmpty_iff] at he
      rw [he] at hq; cases hq
    · simp only [evs_append]
      rw [respond_exact _ rfl]
      exact List.mem_append_left _ (List.mem_append_right _ (List.mem_reverse.mpr hq))

theorem tickSess_keeps (fac now : Nat) (s : Sess) (x : Ev) (hx : x ∈ s.queue)
    (hsome : (tickSess fac now s).1 ≠ none) :
    x ∈ evs (tickSess fac now s).2 ++ pend (tickSess fac now s).1 := by
  unfold tickSess at hsome ⊢
  split
  · rename_i h
    have ha : s.active.isSome = true := by
      simp only [Bool.and_eq_true] at h; exact h.2
    rw [respond_exact s ha]; exact List.mem_append_left _ (List.mem_reverse.mpr hx)
  · split
    · rename_i _ h
      have ha : s.active.isSome = true := by
        simp only [Bool.and_eq_true] at h; exact h.2
      rw [respond_exact s ha]; exact List.mem_append_left _ (List.mem_reverse.mpr hx)
    · split
      · rename_i h1 h2 h3
        simp only [h1, h2, h3] at hsome
        simp at hsome
      · exact List.mem_append_right _ (List.mem_reverse.mpr hx)

/-- why a pending event is neither answered nor kept by one step -/
theorem stepS_lost (cap fac sid : Nat) (o : Option Sess) (op : Op) (x : Ev)
    (hs : (pend o ++ trigOf op).Pairwise (fun a b => a.id < b.id)) (hx : x ∈ pend o)
    (hn : x ∉ evs (stepS true cap fac sid o op).2 ++ pend (stepS true cap fac sid o op).1) :
    (∃ d s, op = .trigger d ∧ o = some s ∧ d.req ≤ s.level ∧ x.id < d.id ∧
        (d.dup x = true ∨ cap ≤ (newer x (pend o ++ [d])).length)) ∨
    (∃ r lvl t n, op = .listen sid r lvl t n ∧ lvl < x.req) ∨
    (∃ now, op = .tick now ∧ (stepS true cap fac sid o op).1 = none) := by
  cases o with
  | none => cases hx
  | some s =>
    simp only [pend] at hx
    cases op with
    | trigger d =>
      left
      simp only [stepS, Option.map, evs_nil, List.nil_append, pend] at hn
      by_cases hl : s.level < d.req
      · simp only [hl, if_true] at hn; exact absurd hx hn
      · simp only [hl, if_false] at hn
        rw [push_queue_reverse] at hn
        simp only [pend, trigOf] at hs
        have hlt : x.id < d.id := (List.pairwise_append.mp hs).2.2 x hx d (by simp)
        exact ⟨d, s, rfl, rfl, by omega, hlt, squashPush_lost cap _ d x hs hx hn⟩
    | listen sid' r lvl t n =>
      right; left
      simp only [stepS] at hn
      by_cases hsid : sid' = sid
      · subst hsid
        simp only [if_true, Option.getD, pend] at hn
        refine ⟨r, lvl, t, n, rfl, ?_⟩
        apply Nat.lt_of_not_le
        intro hle
        exact hn (listenSess_keeps s r lvl t n x (List.mem_reverse.mp hx) hle)
      · simp only [hsid, if_false, evs_nil, List.nil_append, pend] at hn
        exact absurd hx hn
    | tick now =>
      right; right
      refine ⟨now, rfl, ?_⟩
      simp only [stepS] at hn ⊢
      apply Classical.byContradiction
      intro hne
      exact hn (tickSess_keeps fac now s x (List.mem_reverse.mp hx) hne)

/-- The four ways an event `x` pending in session `sid` (state `o`) can disappear during `rest`:
superseded by a later duplicate; pushed out by a later permitted trigger `d` with at least `cap` newer
events pending (those queued just before `d`, and `d`); dropped by a listen call that rebinds the
session to a level that does not permit `x`; or the session expired. -/
def LossCause (cap fac sid : Nat) (o : Option Sess) (rest : List Op) (x : Ev) : Prop :=
  (∃ d, Op.trigger d ∈ rest ∧ x.id < d.id ∧ d.dup x = true) ∨
  (∃ mid d rest' s, rest = mid ++ Op.trigger d :: rest' ∧
      (runS true cap fac sid o mid).1 = some s ∧ d.req ≤ s.level ∧ x.id < d.id ∧
      cap ≤ (newer x (pend (runS true cap fac sid o mid).1 ++ [d])).length) ∨
  (∃ r lvl t n, Op.listen sid r lvl t n ∈ rest ∧ lvl < x.req) ∨
  (∃ mid now rest', rest = mid ++ Op.tick now :: rest' ∧
      (runS true cap fac sid o (mid ++ [Op.tick now])).1 = none)

theorem lossCause_cons (cap fac sid : Nat) (o : Option Sess) (op : Op) (rest : List Op) (x : Ev)
    (h : LossCause cap fac sid (stepS true cap fac sid o op).1 rest x) :
    LossCause cap fac sid o (op :: rest) x := by
  rcases h with ⟨d, h1, h2⟩ | ⟨mid, d, rest', s, h1, h2⟩ | ⟨r, lvl, t, n, h1, h2⟩ | ⟨mid, now, rest', h1, h2⟩
  · exact Or.inl ⟨d, List.mem_cons_of_mem _ h1, h2⟩
  · exact Or.inr (Or.inl ⟨op :: mid, d, rest', s, by rw [h1]; rfl, h2⟩)
  · exact Or.inr (Or.inr (Or.inl ⟨r, lvl, t, n, List.mem_cons_of_mem _ h1, h2⟩))
  · exact Or.inr (Or.inr (Or.inr ⟨op :: mid, now, rest', by rw [h1]; rfl, h2⟩))

theorem runS_lost (cap fac sid : Nat) (x : Ev) (rest : List Op) (o : Option Sess)
    (hs : (pend o ++ trigs rest).Pairwise (fun a b => a.id < b.id)) (hx : x ∈ pend o)
    (hn : x ∉ evs (runS true cap fac sid o rest).2 ++ pend (runS true cap fac sid o rest).1) :
    LossCause cap fac sid o rest x := by
  induction rest generalizing o with
  | nil => exact absurd (by simpa [runS, evs] using hx) hn
  | cons op rest ih =>
    rw [trigs_cons, ← List.append_assoc] at hs
    have hs0 : (pend o ++ trigOf op).Pairwise (fun a b => a.id < b.id) :=
      hs.sublist (List.sublist_append_left _ _)
    simp only [runS, evs_append, List.append_assoc] at hn
    by_cases h1 : x ∈ evs (stepS true cap fac sid o op).2 ++ pend (stepS true cap fac sid o op).1
    · rcases List.mem_append.mp h1 with h | h
      · exact absurd (List.mem_append_left _ h) hn
      · apply lossCause_cons
        apply ih _ _ h
        · intro hh; exact hn (List.mem_append_right _ hh)
        · refine hs.sublist (List.Sublist.append ?_ (List.Sublist.refl _))
          exact (List.sublist_append_right _ _).trans (stepS_sublist true cap fac sid o op)
    · rcases stepS_lost cap fac sid o op x hs0 hx h1 with
        ⟨d, s, h2, h3, h4, h5, h6 | h6⟩ | ⟨r, lvl, t, n, h2, h3⟩ | ⟨now, h2, h3⟩
      · subst h2; exact Or.inl ⟨d, List.mem_cons_self .., h5, h6⟩
      · subst h2; exact Or.inr (Or.inl ⟨[], d, rest, s, rfl, h3, h4, h5, h6⟩)
      · subst h2; exact Or.inr (Or.inr (Or.inl ⟨r, lvl, t, n, List.mem_cons_self .., h3⟩))
      · subst h2; exact Or.inr (Or.inr (Or.inr ⟨[], now, rest, rfl, h3⟩))

/-! ### lifted to the full run -/

theorem trigs_append (a b : List Op) : trigs (a ++ b) = trigs a ++ trigs b := by simp [trigs]

theorem runS_append_out (filt : Bool) (cap fac sid : Nat) (a b : List Op) (o : Option Sess) :
    (runS filt cap fac sid o (a ++ b)).2 =
      (runS filt cap fac sid o a).2 ++ (runS filt cap fac sid (runS filt cap fac sid o a).1 b).2 := by
  induction a generalizing o with
  | nil => rfl
  | cons op a ih => simp only [List.cons_append, runS, ih, List.append_assoc]

/-- `LossCause` phrased with the states of the full run: `pre ++ [.trigger e]` is the history up to and
including the trigger of the lost event `e`, `post` what follows. -/
def LossCauseRun (cap fac sid : Nat) (pre : List Op) (e : Ev) (post : List Op) : Prop :=
  (∃ d, Op.trigger d ∈ post ∧ e.id < d.id ∧ d.dup e = true) ∨
  (∃ mid d rest s, post = mid ++ Op.trigger d :: rest ∧
      finalSess true cap fac sid (pre ++ Op.trigger e :: mid) = some s ∧ d.req ≤ s.level ∧ e.id < d.id ∧
      cap ≤ (newer e (pend (finalSess true cap fac sid (pre ++ Op.trigger e :: mid)) ++ [d])).length) ∨
  (∃ r lvl t n, Op.listen sid r lvl t n ∈ post ∧ lvl < e.req) ∨
  (∃ mid now rest, post = mid ++ Op.tick now :: rest ∧
      finalSess true cap fac sid (pre ++ Op.trigger e :: (mid ++ [Op.tick now])) = none)

theorem run_lost (cap fac sid : Nat) (ops pre post : List Op) (e : Ev) (s : Sess)
    (hser : SerialsIncreasing ops) (hsep : ReqsSeparate sid ops)
    (hops : ops = pre ++ Op.trigger e :: post)
    (hex : find sid (run true cap fac State.init pre).1.sessions = some s) (hperm : e.req ≤ s.level)
    (hn : e ∉ delivered true cap fac sid ops ++ pend (finalSess true cap fac sid ops)) :
    LossCauseRun cap fac sid pre e post := by
  subst hops
  have hproj := responsesOf_eq_runS true cap fac sid _ hsep
  simp only [delivered, finalSess, hproj.1, hproj.2] at hn
  have hpre : (runS true cap fac sid none pre).1 = some s := by
    rw [← prefix_find_eq_runS true cap fac sid pre _ hsep]; exact hex
  -- state right after the trigger of `e`
  have hsplit : pre ++ Op.trigger e :: post = (pre ++ [Op.trigger e]) ++ post := by simp
  have ho1 : (runS true cap fac sid none (pre ++ [Op.trigger e])).1 = some (push cap s e) := by
    rw [runS_append, hpre]
    have : ¬ s.level < e.req := by omega
    simp [runS, stepS, this]
  have hx1 : e ∈ pend (some (push cap s e)) := by simp [pend, push]
  have hsub1 := runS_sublist true cap fac sid (pre ++ [Op.trigger e]) none
  rw [ho1] at hsub1
  have hs1 : (pend (some (push cap s e)) ++ trigs post).Pairwise (fun a b => a.id < b.id) := by
    have hser' : (trigs (pre ++ [Op.trigger e]) ++ trigs post).Pairwise (fun a b => a.id < b.id) := by
      rw [← trigs_append, ← hsplit]; exact hser
    refine hser'.sublist (List.Sublist.append ?_ (List.Sublist.refl _))
    have := (List.sublist_append_right _ _).trans hsub1
    simpa [pend] using this
  have hn1 : e ∉ evs (runS true cap fac sid (some (push cap s e)) post).2 ++
      pend (runS true cap fac sid (some (push cap s e)) post).1 := by
    intro hh
    apply hn
    rw [hsplit, runS_append_out true cap fac sid (pre ++ [Op.trigger e]) post none,
      runS_append true cap fac sid (pre ++ [Op.trigger e]) post none, ho1, evs_append, List.append_assoc]
    exact List.mem_append_right _ hh
  have hstate : ∀ mid rest, post = mid ++ rest →
      (runS true cap fac sid (some (push cap s e)) mid).1 =
        finalSess true cap fac sid (pre ++ Op.trigger e :: mid) := by
    intro mid rest hpost
    have hsep' : ReqsSeparate sid ((pre ++ Op.trigger e :: mid) ++ rest) := by
      have : (pre ++ Op.trigger e :: mid) ++ rest = pre ++ Op.trigger e :: post := by simp [hpost]
      rw [this]; exact hsep
    rw [finalSess, prefix_find_eq_runS true cap fac sid _ rest hsep']
    have : pre ++ Op.trigger e :: mid = (pre ++ [Op.trigger e]) ++ mid := by simp
    rw [this, runS_append true cap fac sid (pre ++ [Op.trigger e]) mid none, ho1]
  rcases runS_lost cap fac sid e post _ hs1 hx1 hn1 with
    ⟨d, h1⟩ | ⟨mid, d, rest, s', h1, h2, h3⟩ | ⟨r, lvl, t, n, h1⟩ | ⟨mid, now, rest, h1, h2⟩
  · exact Or.inl ⟨d, h1⟩
  · have := hstate mid (Op.trigger d :: rest) h1
    rw [this] at h2 h3
    exact Or.inr (Or.inl ⟨mid, d, rest, s', h1, h2, h3⟩)
  · exact Or.inr (Or.inr (Or.inl ⟨r, lvl, t, n, h1⟩))
  · have := hstate (mid ++ [Op.tick now]) rest (by simp [h1])
    rw [this] at h2
    exact Or.inr (Or.inr (Or.inr ⟨mid, now, rest, h1, h2⟩))

end QtVerif.Sessions
