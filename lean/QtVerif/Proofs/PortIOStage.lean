/-
The transform stage in front of the write queue (Model/PortIO.lean, `tstep`): with FIFO hand-over (`fair = true`) the
values are queued in call order; the port component of every reachable stage state is a reachable port state, so all
port theorems carry over. Core Lean only.
-/
import QtVerif.Proofs.PortIO
namespace QtVerif.PortIO

/-- Invariant of the fair stage. -/
structure StageInv (xf : Nat → Int → Int) (c : Cfg) (t : TState) : Prop where
  calls  : t.entered = t.passed.map (·.call) ++ t.stage
  queued : t.port.submitted.map (·.val) = (t.passed.filter (·.ok)).map (·.queuedVal xf)
  holder : t.acq.isSome = true → t.stage ≠ []
  reach  : Reachable c t.port

theorem submit_submitted {c : Cfg} {s s' : State} {v : Int} (hs : step c s (.submit v) = some s') :
    s'.submitted.map (·.val) = s.submitted.map (·.val) ++ [v] := by
  obtain ⟨_, _, _, esub, _⟩ := submit_fields hs
  simp [esub]

theorem nonsubmit_submitted {c : Cfg} {s s' : State} {a : Action} (ha : ∀ v, a ≠ .submit v)
    (hs : step c s a = some s') : s'.submitted = s.submitted := by
  cases a <;> simp only [step] at hs
  case submit v => exact absurd rfl (ha v)
  case writerTake =>
    split at hs
    · split at hs <;> (injection hs with hs; subst hs; rfl)
    · simp at hs
  case writerAcquire =>
    split at hs
    · split at hs
      · simp at hs
      · injection hs with hs; subst hs; rfl
    · simp at hs
  case writeEnd ok =>
    split at hs
    · injection hs with hs; subst hs; rfl
    · simp at hs
  case confirmEnd =>
    split at hs
    · injection hs with hs; subst hs; rfl
    · simp at hs
  case loadWriteBegin =>
    split at hs
    · simp at hs
    · injection hs with hs; subst hs; rfl
  case loadWriteEnd =>
    split at hs
    · injection hs with hs; subst hs; rfl
    · simp at hs
  case loadDone =>
    split at hs
    · simp at hs
    · injection hs with hs; subst hs; rfl
  case readBegin =>
    split at hs
    · simp at hs
    · injection hs with hs; subst hs; rfl
  case readEnd =>
    split at hs
    · simp at hs
    · injection hs with hs; subst hs; rfl

theorem stageInv_step {xf : Nat → Int → Int} {c : Cfg} {t t' : TState} {a : TAction} (h : StageInv xf c t)
    (hs : tstep true xf c t a = some t') : StageInv xf c t' := by
  obtain ⟨h1, h2, h4, h3⟩ := h
  cases a <;> simp only [tstep] at hs
  case enter v =>
    injection hs with hs; subst hs
    exact ⟨by simp [h1], h2, by simp, h3⟩
  case acquire =>
    split at hs
    · next k rest hst hacq =>
      injection hs with hs; subst hs
      exact ⟨h1, h2, by simp [hst], h3⟩
    · simp at hs
  case pass ok =>
    split at hs
    · next k rest tk hst hacq =>
      split at hs
      · simp only [Option.map_eq_some_iff] at hs
        obtain ⟨p, hp, rfl⟩ := hs
        refine ⟨by simp [h1, hst], ?_, by simp, Reachable.step _ h3 hp⟩
        simp [submit_submitted hp, h2, List.filter_append, Passed.queuedVal]
      · injection hs with hs; subst hs
        exact ⟨by simp [h1, hst], by simpa [List.filter_append] using h2, by simp, h3⟩
    · simp at hs
  case jump i => simp at hs
  case setTr k =>
    injection hs with hs; subst hs
    exact ⟨h1, h2, h4, h3⟩
  case port a =>
    split at hs
    · simp at hs
    · next a' hne =>
      simp only [Option.map_eq_some_iff] at hs
      obtain ⟨p, hp, rfl⟩ := hs
      refine ⟨h1, ?_, h4, Reachable.step _ h3 hp⟩
      have := nonsubmit_submitted (fun v hv => hne v hv) hp
      simp only [this]; exact h2

theorem treachable_inv {xf : Nat → Int → Int} {c : Cfg} {t : TState} (h : TReachable true xf c t) :
    StageInv xf c t := by
  induction h with
  | init => exact ⟨rfl, rfl, by simp, Reachable.init⟩
  | step a _ hs ih => exact stageInv_step ih hs

theorem texec_reachable {fair : Bool} {xf : Nat → Int → Int} {c : Cfg} {t t' : TState} (as : List TAction)
    (h : TReachable fair xf c t) (he : texec fair xf c t as = some t') : TReachable fair xf c t' := by
  induction as generalizing t with
  | nil => simp [texec] at he; subst he; exact h
  | cons a as ih =>
    simp only [texec] at he
    split at he
    · next t1 hs => exact ih (TReachable.step a h hs) he
    · simp at he

end QtVerif.PortIO
