/-
The transform stage in front of the write queue (Model/PortIO.lean, `tstep`): with FIFO hand-over (`fair = true`) the
values are queued in call order; the port component of every reachable stage state is a reachable port state, so all
port theorems carry over. Core Lean only.
-/
import QtVerif.Proofs.PortIO
namespace QtVerif.PortIO

/-- Invariant of the fair stage. -/
structure StageInv (c : Cfg) (t : TState) : Prop where
  calls  : t.entered = t.passed.map (·.1) ++ t.stage
  queued : t.port.submitted.map (·.val) = (t.passed.filter (·.2)).map (·.1.val)
  reach  : Reachable c t.port

theorem submit_submitted {c : Cfg} {s s' : State} {v : Int} (hs : step c s (.submit v) = some s') :
    s'.submitted.map (·.val) = s.submitted.map (·.val) ++ [v] := by
  obtain ⟨_, _, _, esub, _⟩ := submit_fields hs
  simp [esub]

theorem nonsubmit_submitted {c : Cfg} {s s' : State} {a : Action} (ha : ∀ v, a ≠ .submit v)
    (hs : step c s a = some s') : s'.submitted = s.submitted := by
  cases a <;> simp only [step] at hs
  case submit v => exact absurd rfl (ha v)
  case writerTake =>
    split at hs
    · split at hs <;> (injection hs with hs; subst hs; rfl)
    · simp at hs
  case writerAcquire =>
    split at hs
    · split at hs
      · simp at hs
      · injection hs with hs; subst hs; rfl
    · simp at hs
  case writeEnd ok =>
    split at hs
    · injection hs with hs; subst hs; rfl
    · simp at hs
  case confirmEnd =>
    split at hs
    · injection hs with hs; subst hs; rfl
    · simp at hs
  case loadWriteBegin =>
    split at hs
    · simp at hs
    · injection hs with hs; subst hs; rfl
  case loadWriteEnd =>
    split at hs
    · injection hs with hs; subst hs; rfl
    · simp at hs
  case loadDone =>
    split at hs
    · simp at hs
    · injection hs with hs; subst hs; rfl
  case readBegin =>
    split at hs
    · simp at hs
    · injection hs with hs; subst hs; rfl
  case readEnd =>
    split at hs
    · simp at hs
    · injection hs with hs; subst hs; rfl

theorem stageInv_step {c : Cfg} {t t' : TState} {a : TAction} (h : StageInv c t)
    (hs : tstep true c t a = some t') : StageInv c t' := by
  obtain ⟨h1, h2, h3⟩ := h
  cases a <;> simp only [tstep] at hs
  case enter v =>
    injection hs with hs; subst hs
    exact ⟨by simp [h1], h2, h3⟩
  case pass ok =>
    split at hs
    · simp at hs
    · next k rest hst =>
      split at hs
      · simp only [Option.map_eq_some_iff] at hs
        obtain ⟨p, hp, rfl⟩ := hs
        refine ⟨by simp [h1, hst], ?_, Reachable.step _ h3 hp⟩
        simp [submit_submitted hp, h2, List.filter_append]
      · injection hs with hs; subst hs
        exact ⟨by simp [h1, hst], by simpa [List.filter_append] using h2, h3⟩
  case jump i => simp at hs
  case port a =>
    split at hs
    · simp at hs
    · next a' hne =>
      simp only [Option.map_eq_some_iff] at hs
      obtain ⟨p, hp, rfl⟩ := hs
      refine ⟨h1, ?_, Reachable.step _ h3 hp⟩
      have := nonsubmit_submitted (fun v hv => hne v hv) hp
      simp only [this]; exact h2

theorem treachable_inv {c : Cfg} {t : TState} (h : TReachable true c t) : StageInv c t := by
  induction h with
  | init => exact ⟨rfl, rfl, Reachable.init⟩
  | step a _ hs ih => exact stageInv_step ih hs

theorem texec_reachable {fair : Bool} {c : Cfg} {t t' : TState} (as : List TAction) (h : TReachable fair c t)
    (he : texec fair c t as = some t') : TReachable fair c t' := by
  induction as generalizing t with
  | nil => simp [texec] at he; subst he; exact h
  | cons a as ih =>
    simp only [texec] at he
    split at he
    · next t1 hs => exact ih (TReachable.step a h hs) he
    · simp at he

end QtVerif.PortIO
