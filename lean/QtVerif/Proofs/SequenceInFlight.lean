import QtVerif.Proofs.SequenceCancel
/-! C19: a value in flight always belongs to the sequence the port reports. An inductive invariant (`Fl.G`) over every
handle of every `_run_once` iteration of the event-loop model: every fire-and-forget handle belongs to the live task of
the reported sequence, no such handle sits behind that task's next loop step, the task has at most one pending
activation (ready handle or timer), identifiers are fresh, at most one operation is inside its cancellation. -/
namespace QtVerif.Sequence
namespace Fl

def isFf : Handle → Bool
  | .ff .. => true
  | _ => false

def timerOk (h : Handle) : Bool := !isFf h && !isResume h

/-- no `ff sid` behind a `loopStep sid` -/
def ordered (sid : Nat) : List Handle → Prop
  | [] => True
  | h :: t => (h = .loopStep sid → inFlight sid t = []) ∧ ordered sid t

def acts (sid : Nat) (s : St) : Nat := s.ready.count (.loopStep sid) + s.timers.countP (isTimerOf sid)
def tokens (s : St) : Nat := s.ready.countP isResume + (if s.waiting.isSome then 1 else 0)

def taskLive : Task → Prop
  | .pending .. => True
  | .crashed => True
  | _ => False

def taskOver : Task → Prop
  | .none => True
  | .cancelled => True
  | _ => False

structure G (s : St) : Prop where
  g1 : ∀ sid v, Handle.ff sid v ∈ s.ready → ∃ q, s.port.seq = some q ∧ q.id = sid ∧ taskLive q.task
  g2 : ∀ sid, ordered sid s.ready
  g3 : ∀ q, s.port.seq = some q → acts q.id s ≤ 1
  g4a : ∀ q, s.port.seq = some q → q.id < s.nextId
  g4b : ∀ sid, Handle.loopStep sid ∈ s.ready → sid < s.nextId
  g4c : ∀ t ∈ s.timers, ∀ sid, t.h = .loopStep sid → sid < s.nextId
  g5 : ∀ t ∈ s.timers, timerOk t.h = true
  g6 : s.ready.any isResume = true → ∃ q, s.port.seq = some q ∧ taskOver q.task
  g7 : tokens s ≤ 1

/-- G only looks at these -/
theorem G_core {s s' : St} (h1 : s'.ready = s.ready) (h2 : s'.timers = s.timers) (h3 : s'.port.seq = s.port.seq)
    (h4 : s'.nextId = s.nextId) (h5 : s'.waiting = s.waiting) (g : G s) : G s' :=
  ⟨by rw [h1, h3]; exact g.g1, by rw [h1]; exact g.g2, by rw [h3]; unfold acts; rw [h1, h2]; exact g.g3,
   by rw [h3, h4]; exact g.g4a, by rw [h1, h4]; exact g.g4b, by rw [h2, h4]; exact g.g4c, by rw [h2]; exact g.g5,
   by rw [h1, h3]; exact g.g6, by unfold tokens; rw [h1, h5]; exact g.g7⟩

theorem inFlight_append (sid : Nat) (a b : List Handle) : inFlight sid (a ++ b) = inFlight sid a ++ inFlight sid b := by
  simp [inFlight, List.filterMap_append]

theorem inFlight_eq_nil {sid : Nat} {l : List Handle} : inFlight sid l = [] ↔ ∀ v, Handle.ff sid v ∉ l := by
  induction l with
  | nil => simp [inFlight]
  | cons h t ih =>
    cases h with
    | ff i w =>
      by_cases hi : i = sid
      · subst hi
        constructor
        · intro h; simp [inFlight] at h
        · intro h; exact absurd (List.mem_cons_self) (h w)
      · have : inFlight sid (Handle.ff i w :: t) = inFlight sid t := by simp [inFlight, hi]
        rw [this, ih]
        constructor
        · intro h v hm
          rcases List.mem_cons.mp hm with e | e
          · injection e with e1 _; exact hi e1.symm
          · exact h v e
        · intro h v hm; exact h v (List.mem_cons_of_mem _ hm)
    | _ => simp [inFlight] at ih ⊢ <;> exact ih

theorem ordered_append_one (sid : Nat) (l : List Handle) (h : Handle) :
    ordered sid (l ++ [h]) ↔ ordered sid l ∧ ((∃ v, h = .ff sid v) → Handle.loopStep sid ∉ l) := by
  induction l with
  | nil => simp [ordered, inFlight]
  | cons a t ih =>
    simp only [List.cons_append, ordered, ih, inFlight_append]
    constructor
    · rintro ⟨h1, h2, h3⟩
      refine ⟨⟨fun e => (List.append_eq_nil_iff.mp (h1 e)).1, h2⟩, ?_⟩
      rintro ⟨v, rfl⟩
      intro hm
      rcases List.mem_cons.mp hm with e | e
      · have := (List.append_eq_nil_iff.mp (h1 e.symm)).2
        simp [inFlight] at this
      · exact h3 ⟨v, rfl⟩ e
    · rintro ⟨⟨h1, h2⟩, h3⟩
      refine ⟨?_, h2, fun hv hm => h3 hv (List.mem_cons_of_mem _ hm)⟩
      intro e
      rw [h1 e, List.nil_append]
      cases h with
      | ff i v =>
        by_cases hi : i = sid
        · subst hi; exact absurd (List.mem_cons.mpr (Or.inl e.symm)) (h3 ⟨v, rfl⟩)
        · simp [inFlight, hi]
      | _ => simp [inFlight]

theorem ordered_tail {sid : Nat} {h : Handle} {t : List Handle} (o : ordered sid (h :: t)) : ordered sid t := o.2

theorem G_pop {s : St} {h : Handle} {rest : List Handle} (g : G s) (hr : s.ready = h :: rest) :
    G { s with ready := rest } := by
  have hm : ∀ x, x ∈ rest → x ∈ s.ready := fun x hx => by rw [hr]; exact List.mem_cons_of_mem _ hx
  refine ⟨fun sid v hv => g.g1 sid v (hm _ hv), fun sid => ?_, fun q hq => ?_, g.g4a, fun sid hx => g.g4b sid (hm _ hx),
    g.g4c, g.g5, fun ha => ?_, ?_⟩
  · have := g.g2 sid; rw [hr] at this; exact this.2
  · have := g.g3 q hq
    unfold acts at this ⊢
    rw [hr, List.count_cons] at this
    simp only at this ⊢; omega
  · apply g.g6; rw [hr]; simp only [List.any_cons]; simp [show rest.any isResume = true from ha]
  · have := g.g7
    unfold tokens at this ⊢
    rw [hr, List.countP_cons] at this
    simp only at this ⊢; omega

theorem G_push_plain {s : St} (g : G s) (h : Handle) (h1 : isFf h = false) (h2 : isResume h = false)
    (h3 : ∀ sid, h ≠ .loopStep sid) : G (s.push h) := by
  have hff : ∀ sid v, Handle.ff sid v ∈ s.ready ++ [h] → Handle.ff sid v ∈ s.ready := by
    intro sid v hm
    rcases List.mem_append.mp hm with e | e
    · exact e
    · simp at e; subst e; simp [isFf] at h1
  refine ⟨fun sid v hv => g.g1 sid v (hff sid v hv), fun sid => ?_, fun q hq => ?_, g.g4a, fun sid hx => ?_,
    g.g4c, g.g5, fun ha => ?_, ?_⟩
  · show ordered sid (s.ready ++ [h])
    rw [ordered_append_one]
    refine ⟨g.g2 sid, ?_⟩
    rintro ⟨v, rfl⟩; simp [isFf] at h1
  · have := g.g3 q hq
    unfold acts at this ⊢
    show (s.ready ++ [h]).count _ + s.timers.countP _ ≤ 1
    rw [List.count_append]
    have : [h].count (Handle.loopStep q.id) = 0 := by
      simp [List.count_cons]; exact h3 q.id
    omega
  · have hx' : Handle.loopStep sid ∈ s.ready ++ [h] := hx
    rcases List.mem_append.mp hx' with e | e
    · exact g.g4b sid e
    · simp at e; exact absurd e.symm (h3 sid)
  · apply g.g6
    have ha' : (s.ready ++ [h]).any isResume = true := ha
    simpa [List.any_append, h2] using ha'
  · have := g.g7
    unfold tokens at this ⊢
    show (s.ready ++ [h]).countP isResume + _ ≤ 1
    rw [List.countP_append]
    simp [h2]; exact this

theorem G_push_loop {s : St} (g : G s) (sid : Nat) (hf : sid < s.nextId)
    (ha : ∀ q, s.port.seq = some q → q.id = sid → acts sid s = 0) : G (s.push (.loopStep sid)) := by
  have hff : ∀ i v, Handle.ff i v ∈ s.ready ++ [Handle.loopStep sid] → Handle.ff i v ∈ s.ready := by
    intro i v hm
    rcases List.mem_append.mp hm with e | e
    · exact e
    · simp at e
  refine ⟨fun i v hv => g.g1 i v (hff i v hv), fun i => ?_, fun q hq => ?_, g.g4a, fun i hx => ?_,
    g.g4c, g.g5, fun hr => ?_, ?_⟩
  · show ordered i (s.ready ++ [Handle.loopStep sid])
    rw [ordered_append_one]
    exact ⟨g.g2 i, by rintro ⟨v, h⟩; cases h⟩
  · have h3 := g.g3 q hq
    unfold acts at h3 ⊢
    show (s.ready ++ [Handle.loopStep sid]).count _ + s.timers.countP _ ≤ 1
    rw [List.count_append]
    by_cases e : q.id = sid
    · have h0 := ha q hq e
      unfold acts at h0
      subst e
      have : [Handle.loopStep q.id].count (Handle.loopStep q.id) = 1 := by simp
      omega
    · have : [Handle.loopStep sid].count (Handle.loopStep q.id) = 0 := by
        simp [List.count_cons]; exact fun h => e h.symm
      omega
  · have hx' : Handle.loopStep i ∈ s.ready ++ [Handle.loopStep sid] := hx
    rcases List.mem_append.mp hx' with e | e
    · exact g.g4b i e
    · simp at e; subst e; exact hf
  · apply g.g6
    have hr' : (s.ready ++ [Handle.loopStep sid]).any isResume = true := hr
    simpa [List.any_append, isResume] using hr'
  · have := g.g7
    unfold tokens at this ⊢
    show (s.ready ++ [Handle.loopStep sid]).countP isResume + _ ≤ 1
    rw [List.countP_append]
    simp [isResume]; exact this

theorem G_push_ff {s : St} (g : G s) (q : Seq) (v : Val) (hq : s.port.seq = some q) (hl : taskLive q.task)
    (hn : Handle.loopStep q.id ∉ s.ready) : G (s.push (.ff q.id v)) := by
  refine ⟨fun i w hv => ?_, fun i => ?_, fun q' hq' => ?_, g.g4a, fun i hx => ?_,
    g.g4c, g.g5, fun hr => ?_, ?_⟩
  · have hv' : Handle.ff i w ∈ s.ready ++ [Handle.ff q.id v] := hv
    rcases List.mem_append.mp hv' with e | e
    · exact g.g1 i w e
    · simp at e; exact ⟨q, hq, e.1.symm, hl⟩
  · show ordered i (s.ready ++ [Handle.ff q.id v])
    rw [ordered_append_one]
    refine ⟨g.g2 i, ?_⟩
    rintro ⟨w, h⟩
    injection h with h1 _
    subst h1; exact hn
  · have h3 := g.g3 q' hq'
    unfold acts at h3 ⊢
    show (s.ready ++ [Handle.ff q.id v]).count _ + s.timers.countP _ ≤ 1
    rw [List.count_append]
    have : [Handle.ff q.id v].count (Handle.loopStep q'.id) = 0 := by simp [List.count_cons]
    omega
  · have hx' : Handle.loopStep i ∈ s.ready ++ [Handle.ff q.id v] := hx
    rcases List.mem_append.mp hx' with e | e
    · exact g.g4b i e
    · simp at e
  · apply g.g6
    have hr' : (s.ready ++ [Handle.ff q.id v]).any isResume = true := hr
    simpa [List.any_append, isResume] using hr'
  · have := g.g7
    unfold tokens at this ⊢
    show (s.ready ++ [Handle.ff q.id v]).countP isResume + _ ≤ 1
    rw [List.countP_append]
    simp [isResume]; exact this

theorem G_setSeq {s : St} (g : G s) (q' : Option Seq)
    (h1 : ∀ sid v, Handle.ff sid v ∈ s.ready → ∃ q, q' = some q ∧ q.id = sid ∧ taskLive q.task)
    (h3 : ∀ q, q' = some q → acts q.id s ≤ 1 ∧ q.id < s.nextId)
    (h6 : s.ready.any isResume = true → ∃ q, q' = some q ∧ taskOver q.task) : G (s.setSeq q') :=
  ⟨h1, g.g2, fun q hq => (h3 q hq).1, fun q hq => (h3 q hq).2, g.g4b, g.g4c, g.g5, h6, g.g7⟩

/-- same sequence object, a task that is still alive -/
theorem G_setLive {s : St} (g : G s) (q q' : Seq) (hq : s.port.seq = some q) (hid : q'.id = q.id)
    (hold : ¬ taskOver q.task) (hl : taskLive q'.task) : G (s.setSeq (some q')) := by
  apply G_setSeq g
  · intro sid v hv
    obtain ⟨q0, h0, h1, _⟩ := g.g1 sid v hv
    rw [hq] at h0; cases h0
    exact ⟨q', rfl, hid.trans h1, hl⟩
  · intro q0 h0; cases h0
    rw [hid]; exact ⟨g.g3 q hq, g.g4a q hq⟩
  · intro hr
    obtain ⟨q0, h0, h1⟩ := g.g6 hr
    rw [hq] at h0; cases h0
    exact absurd h1 hold

/-- same sequence object, the task is over; nothing of it may be in flight -/
theorem G_setOver {s : St} (g : G s) (q q' : Seq) (hq : s.port.seq = some q) (hid : q'.id = q.id)
    (ho : taskOver q'.task) (hn : inFlight q.id s.ready = []) : G (s.setSeq (some q')) := by
  apply G_setSeq g
  · intro sid v hv
    obtain ⟨q0, h0, h1, _⟩ := g.g1 sid v hv
    rw [hq] at h0; cases h0
    subst h1
    exact absurd hv (inFlight_eq_nil.mp hn v)
  · intro q0 h0; cases h0
    rw [hid]; exact ⟨g.g3 q hq, g.g4a q hq⟩
  · intro _; exact ⟨q', rfl, ho⟩

/-- no sequence any more; nothing may be in flight -/
theorem G_setNone {s : St} (g : G s) (hn : ∀ sid v, Handle.ff sid v ∉ s.ready) (hr : s.ready.any isResume = false) :
    G (s.setSeq none) := by
  apply G_setSeq g
  · intro sid v hv; exact absurd hv (hn sid v)
  · intro q h; cases h
  · intro h; rw [hr] at h; cases h

theorem countP_insertTimer (p : Timer → Bool) (t : Timer) (l : List Timer) :
    (insertTimer t l).countP p = l.countP p + (if p t then 1 else 0) := by
  induction l with
  | nil => simp [insertTimer, List.countP_cons]
  | cons a l ih =>
    simp only [insertTimer]
    split
    · simp only [List.countP_cons, ih]; omega
    · simp only [List.countP_cons]

theorem G_addTimer {s : St} (g : G s) (time : Nat) (rank : Int) (h : Handle) (hok : timerOk h = true)
    (hl : ∀ sid, h = .loopStep sid → sid < s.nextId ∧ ∀ q, s.port.seq = some q → q.id = sid → acts sid s = 0) :
    G (s.addTimer time rank h) := by
  refine ⟨g.g1, g.g2, fun q hq => ?_, g.g4a, g.g4b, fun t ht sid e => ?_, fun t ht => ?_, g.g6, g.g7⟩
  · have h3 := g.g3 q hq
    unfold acts at h3 ⊢
    show s.ready.count _ + (insertTimer ⟨time, rank, h⟩ s.timers).countP _ ≤ 1
    rw [countP_insertTimer]
    by_cases e : isTimerOf q.id ⟨time, rank, h⟩ = true
    · have e' : h = .loopStep q.id := by simpa [isTimerOf] using e
      have h0 := (hl q.id e').2 q hq rfl
      unfold acts at h0
      rw [if_pos e]; omega
    · rw [if_neg e]; exact h3
  · rcases Cancel.mem_insertTimer _ _ _ ht with e' | e'
    · subst e'; exact (hl sid e).1
    · exact g.g4c t e' sid e
  · rcases Cancel.mem_insertTimer _ _ _ ht with e' | e'
    · subst e'; exact hok
    · exact g.g5 t e'

theorem acts_push_other {s : St} (sid : Nat) (h : Handle) (hn : h ≠ .loopStep sid) : acts sid (s.push h) = acts sid s := by
  unfold acts
  show (s.ready ++ [h]).count _ + s.timers.countP _ = _
  rw [List.count_append]
  have : [h].count (Handle.loopStep sid) = 0 := by simp [List.count_cons]; exact hn
  omega

theorem not_mem_of_acts {s : St} {sid : Nat} (h : acts sid s = 0) : Handle.loopStep sid ∉ s.ready := by
  unfold acts at h
  intro hm
  have := List.count_pos_iff.mpr hm
  omega

theorem G_sleepOn {s : St} (g : G s) (q0 q : Seq) (i : Nat) (h0 : s.port.seq = some q0) (hid : q.id = q0.id)
    (hold : ¬ taskOver q0.task) (ha : acts q.id s = 0) : G (sleepOn s q i) := by
  have hf : q.id < s.nextId := by rw [hid]; exact g.g4a q0 h0
  unfold sleepOn
  split
  · exact G_setLive g q0 _ h0 hid hold trivial
  · have g1 := G_setLive g q0 { q with task := .pending (.slept i) false } h0 hid hold trivial
    have ha' : ∀ q', (s.setSeq (some { q with task := .pending (.slept i) false })).port.seq = some q' →
        q'.id = q.id → acts q.id (s.setSeq (some { q with task := .pending (.slept i) false })) = 0 :=
      fun _ _ _ => ha
    simp only
    split
    · exact G_push_loop g1 q.id hf ha'
    · exact G_addTimer g1 _ _ _ rfl (fun sid e => by injection e with e; subst e; exact ⟨hf, ha'⟩)

theorem G_body (fix : Fix) (hfl : fix.flushLast = true) {s : St} (g : G s) (q : Seq) (i : Nat) (pos : Pos)
    (hq : s.port.seq = some q) (ht : q.task = .pending pos false) (ha : acts q.id s = 0)
    (hn : inFlight q.id s.ready = []) : G (body fix s q i) := by
  have hold : ¬ taskOver q.task := by rw [ht]; exact id
  have hl : taskLive q.task := by rw [ht]; trivial
  unfold body
  split
  · exact G_setOver g q _ hq rfl trivial hn
  · rename_i v _
    have g1 : G (s.push (.ff q.id v)) := G_push_ff g q v hq hl (not_mem_of_acts ha)
    have ha1 : acts q.id (s.push (.ff q.id v)) = 0 := by rw [acts_push_other _ _ (by intro h; cases h)]; exact ha
    have hq1 : (s.push (.ff q.id v)).port.seq = some q := hq
    simp only
    split
    · exact G_sleepOn g1 q q i hq1 rfl hold ha1
    · split
      · have g2 := G_setLive g1 q { q with task := .pending .flush false } hq1 rfl hold trivial
        exact G_push_loop g2 q.id (g.g4a q hq) (fun _ _ _ => ha1)
      · exact G_sleepOn g1 q { q with counter := q.counter + 1 } i hq1 rfl hold ha1

theorem G_wake {s : St} (g : G s) (exc : Bool) (ho : ∃ q, s.port.seq = some q ∧ taskOver q.task) : G (wake s exc) := by
  unfold wake
  split
  · rename_i opId op hw
    have g7 := g.g7
    unfold tokens at g7
    rw [hw] at g7
    have h1 : (if (some (opId, op) : Option (Nat × Op)).isSome = true then 1 else 0) = 1 := by simp
    rw [h1] at g7
    refine ⟨fun i v hv => ?_, fun i => ?_, fun q hq => ?_, g.g4a, fun i hx => ?_, g.g4c, g.g5, fun _ => ho, ?_⟩
    · have hv' : Handle.ff i v ∈ s.ready ++ [Handle.resume opId op exc] := hv
      rcases List.mem_append.mp hv' with e | e
      · exact g.g1 i v e
      · simp at e
    · show ordered i (s.ready ++ [Handle.resume opId op exc])
      rw [ordered_append_one]; exact ⟨g.g2 i, by rintro ⟨v, h⟩; cases h⟩
    · have h3 := g.g3 q hq
      unfold acts at h3 ⊢
      show (s.ready ++ [Handle.resume opId op exc]).count _ + s.timers.countP _ ≤ 1
      rw [List.count_append]
      have : [Handle.resume opId op exc].count (Handle.loopStep q.id) = 0 := by simp [List.count_cons]
      omega
    · have hx' : Handle.loopStep i ∈ s.ready ++ [Handle.resume opId op exc] := hx
      rcases List.mem_append.mp hx' with e | e
      · exact g.g4b i e
      · simp at e
    · unfold tokens
      show (s.ready ++ [Handle.resume opId op exc]).countP isResume +
        (if (none : Option (Nat × Op)).isSome then 1 else 0) ≤ 1
      rw [List.countP_append]
      have : [Handle.resume opId op exc].countP isResume = 1 := by simp [isResume]
      have h2 : (if (none : Option (Nat × Op)).isSome = true then 1 else 0) = 0 := by simp
      omega
  · exact g

theorem no_ff_of_inFlight {s : St} (g : G s) (q : Seq) (hq : s.port.seq = some q) (hn : inFlight q.id s.ready = []) :
    ∀ sid v, Handle.ff sid v ∉ s.ready := by
  intro sid v hv
  obtain ⟨q0, h0, h1, _⟩ := g.g1 sid v hv
  rw [hq] at h0; cases h0; subst h1
  exact inFlight_eq_nil.mp hn v hv

theorem no_resume_of_live {s : St} (g : G s) (q : Seq) (hq : s.port.seq = some q) (hl : ¬ taskOver q.task) :
    s.ready.any isResume = false := by
  cases h : s.ready.any isResume with
  | false => rfl
  | true =>
    obtain ⟨q0, h0, h1⟩ := g.g6 h
    rw [hq] at h0; cases h0; exact absurd h1 hl

theorem G_loopStep (fix : Fix) (hfl : fix.flushLast = true) {s : St} (g : G s) (sid : Nat)
    (hp : ∀ q, s.port.seq = some q → q.id = sid → acts sid s = 0 ∧ inFlight sid s.ready = []) :
    G (loopStep fix s sid) := by
  unfold loopStep
  split
  · exact g
  · rename_i q hq
    split
    · exact g
    · rename_i hid
      have hid' : q.id = sid := Classical.not_not.mp hid
      obtain ⟨ha, hn⟩ := hp q hq hid'
      rw [← hid'] at ha hn
      split
      · rename_i pos ht
        split
        · exact G_wake (G_setOver g q { q with task := .cancelled } hq rfl trivial hn) true ⟨_, rfl, trivial⟩
        · exact G_wake (G_setOver g q { q with task := .none } hq rfl trivial hn) false ⟨_, rfl, trivial⟩
      · rename_i ht
        exact G_body fix hfl g q 0 _ hq ht ha hn
      · rename_i i ht
        have hold : ¬ taskOver q.task := by rw [ht]; exact id
        split
        · exact G_body fix hfl g q _ _ hq ht ha hn
        · have g1 := G_setLive g q { q with task := .pending .start false } hq rfl hold trivial
          exact G_push_loop g1 q.id (g.g4a q hq) (fun _ _ _ => ha)
      · rename_i ht
        have hold : ¬ taskOver q.task := by rw [ht]; exact id
        exact G_setNone g (no_ff_of_inFlight g q hq hn) (no_resume_of_live g q hq hold)
      · exact g

theorem G_filterTimers {s : St} (g : G s) (p : Timer → Bool) : G { s with timers := s.timers.filter p } := by
  refine ⟨g.g1, g.g2, fun q hq => ?_, g.g4a, g.g4b, fun t ht => g.g4c t (List.mem_filter.mp ht).1,
    fun t ht => g.g5 t (List.mem_filter.mp ht).1, g.g6, g.g7⟩
  have h3 := g.g3 q hq
  unfold acts at h3 ⊢
  have : (s.timers.filter p).countP (isTimerOf q.id) ≤ s.timers.countP (isTimerOf q.id) :=
    List.Sublist.countP_le (List.filter_sublist)
  show s.ready.count _ + (s.timers.filter p).countP _ ≤ 1
  omega

theorem G_cancel_timed {s : St} (g : G s) (q : Seq) (hq : s.port.seq = some q)
    (htm : s.timers.any (isTimerOf q.id) = true) (m : List Nat) :
    G ({ s with marks := m, timers := s.timers.filter (fun t => !isTimerOf q.id t) }.push (.loopStep q.id)) := by
  have hc : s.timers.countP (isTimerOf q.id) ≥ 1 := by
    obtain ⟨t, ht1, ht2⟩ := List.any_eq_true.mp htm
    exact List.countP_pos_iff.mpr ⟨t, ht1, ht2⟩
  have h3 := g.g3 q hq
  unfold acts at h3
  have hz : (s.timers.filter (fun t => !isTimerOf q.id t)).countP (isTimerOf q.id) = 0 := by
    rw [List.countP_eq_zero]; intro t ht; simpa using (List.mem_filter.mp ht).2
  have g2 : G { s with marks := m, timers := s.timers.filter (fun t => !isTimerOf q.id t) } :=
    G_core (s := { s with timers := s.timers.filter (fun t => !isTimerOf q.id t) }) rfl rfl rfl rfl rfl
      (G_filterTimers g _)
  apply G_push_loop g2 q.id (g.g4a q hq)
  intro _ _ _
  unfold acts
  show s.ready.count _ + (s.timers.filter _).countP _ = 0
  rw [hz]; omega

theorem G_requestCancel (fix : Fix) {s : St} (g : G s) (q : Seq) (hq : s.port.seq = some q) :
    G (requestCancel fix s q).1 := by
  unfold requestCancel
  split
  · rename_i pos b ht
    have hold : ¬ taskOver q.task := by rw [ht]; exact id
    have g1 : G (s.setSeq (some { q with task := .pending pos true })) := G_setLive g q _ hq rfl hold trivial
    by_cases htm : (s.setSeq (some { q with task := .pending pos true })).timers.any (isTimerOf q.id) = true
    · simp only [htm, if_true]
      exact G_cancel_timed g1 { q with task := .pending pos true } rfl htm _
    · simp only [htm, Bool.false_eq_true, if_false]
      exact G_core (s := s.setSeq (some { q with task := .pending pos true })) rfl rfl rfl rfl rfl g1
  · exact g
  · exact g
  · exact g

theorem G_emit {s : St} (g : G s) (e : Event) : G (s.emit e) := G_core (s := s) rfl rfl rfl rfl rfl g

theorem G_ite (c : Prop) [Decidable c] (a b : St) (ha : G a) (hb : G b) : G (if c then a else b) := by
  split <;> assumption

theorem acts_fresh {s : St} (g : G s) : acts s.nextId s = 0 := by
  unfold acts
  have h1 : s.ready.count (Handle.loopStep s.nextId) = 0 := by
    rw [List.count_eq_zero]; intro hm; exact absurd (g.g4b _ hm) (Nat.lt_irrefl _)
  have h2 : s.timers.countP (isTimerOf s.nextId) = 0 := by
    rw [List.countP_eq_zero]; intro t ht hp
    have : t.h = .loopStep s.nextId := by simpa [isTimerOf] using hp
    exact absurd (g.g4c t ht _ this) (Nat.lt_irrefl _)
  omega

theorem G_install {s : St} (g : G s) (vs : List Val) (ds : List Int) (r : Int) (hn : s.port.seq = none)
    (hr : s.ready.any isResume = false) : G (install s vs ds r) := by
  unfold install
  split
  · exact g
  · have hff : ∀ sid v, Handle.ff sid v ∉ s.ready := by
      intro sid v hv; obtain ⟨q, h0, _⟩ := g.g1 sid v hv; rw [hn] at h0; cases h0
    have g1 : G { s.setSeq (some ⟨s.nextId, vs, ds, r, 0, .pending .start false⟩) with nextId := s.nextId + 1 } := by
      refine ⟨fun sid v hv => absurd hv (hff sid v), g.g2, fun q hq => ?_, fun q hq => ?_,
        fun sid hx => Nat.lt_succ_of_lt (g.g4b sid hx), fun t ht sid e => Nat.lt_succ_of_lt (g.g4c t ht sid e), g.g5,
        fun h => ?_, g.g7⟩
      · have hq' : some (⟨s.nextId, vs, ds, r, 0, .pending .start false⟩ : Seq) = some q := hq
        cases hq'
        have := acts_fresh g
        show acts s.nextId s ≤ 1
        omega
      · have hq' : some (⟨s.nextId, vs, ds, r, 0, .pending .start false⟩ : Seq) = some q := hq
        cases hq'; exact Nat.lt_succ_self _
      · have h' : s.ready.any isResume = true := h
        rw [hr] at h'; cases h'
    apply G_push_loop g1 s.nextId (Nat.lt_succ_self _)
    intro _ _ _
    exact acts_fresh g

theorem G_hookDone {s : St} (g : G s) (opId : Nat) (on : Bool) : G (hookDone s opId on) := by
  unfold hookDone
  apply G_ite
  · exact G_core (s := s) rfl rfl rfl rfl rfl g
  · exact G_emit g _

theorem G_setEnabledThenHook {s : St} (g : G s) (opId : Nat) (on : Bool) : G (setEnabledThenHook s opId on) := by
  have g1 : G { s with port := { s.port with enabled := on } } := G_core (s := s) rfl rfl rfl rfl rfl g
  unfold setEnabledThenHook
  simp only
  apply G_ite
  · exact G_hookDone g1 opId on
  · exact G_addTimer g1 _ _ _ rfl (fun sid e => by cases e)

theorem G_finishOp {s : St} (g : G s) (opId : Nat) (op : Op) (hff : ∀ sid v, Handle.ff sid v ∉ s.ready)
    (hr : s.ready.any isResume = false) : G (finishOp s opId op) := by
  have g1 : G (s.setSeq none) := G_setNone g hff hr
  unfold finishOp
  cases op <;> simp only
  case patchSeq vs ds r => exact G_emit (G_install g1 vs ds r rfl hr) _
  case setExpr b => exact G_core (s := s.setSeq none) rfl rfl rfl rfl rfl g1
  case setEnabled on => exact G_setEnabledThenHook g1 opId on
  case malformed => exact G_emit g1 _

theorem rc_waiting (fix : Fix) (s : St) (q : Seq) : (requestCancel fix s q).1.waiting = s.waiting := by
  unfold requestCancel
  split
  · simp only; split <;> rfl
  all_goals rfl

theorem rc_any (fix : Fix) (s : St) (q : Seq) :
    (requestCancel fix s q).1.ready.any isResume = s.ready.any isResume := by
  unfold requestCancel
  split
  · simp only
    split
    · show (s.ready ++ [Handle.loopStep q.id]).any isResume = _
      simp [List.any_append, isResume]
    · rfl
  all_goals rfl

theorem rc_ok (fix : Fix) (s s' : St) (q : Seq) (h : requestCancel fix s q = (s', some .ok)) :
    s' = s ∧ taskOver q.task := by
  unfold requestCancel at h
  cases ht : q.task with
  | none => simp [ht] at h; exact ⟨h.symm, trivial⟩
  | pending pos b => simp [ht] at h
  | cancelled =>
    simp [ht] at h
    exact ⟨h.1.symm, trivial⟩
  | crashed => simp [ht] at h

theorem G_setWaiting {s : St} (g : G s) (w : Nat × Op) (h0 : s.waiting = none) (hr : s.ready.any isResume = false) :
    G { s with waiting := some w } := by
  refine ⟨g.g1, g.g2, g.g3, g.g4a, g.g4b, g.g4c, g.g5, g.g6, ?_⟩
  unfold tokens
  show s.ready.countP isResume + (if (some w : Option (Nat × Op)).isSome = true then 1 else 0) ≤ 1
  have : s.ready.countP isResume = 0 := by
    rw [List.countP_eq_zero]; intro h hm hp
    have : s.ready.any isResume = true := List.any_eq_true.mpr ⟨h, hm, hp⟩
    rw [hr] at this; cases this
  simp [this]

theorem G_cancelThen (fix : Fix) {s : St} (g : G s) (opId : Nat) (op : Op) (h0 : s.waiting = none)
    (hr : s.ready.any isResume = false) : G (cancelThen fix s opId op) := by
  unfold cancelThen
  split
  · rename_i hn
    refine G_finishOp g opId op ?_ hr
    intro sid v hv; obtain ⟨q, hq, _⟩ := g.g1 sid v hv; rw [hn] at hq; cases hq
  · rename_i q hq
    have g' := G_requestCancel fix g q hq
    have hw' := rc_waiting fix s q
    have hr' := rc_any fix s q
    split
    · rename_i s' heq
      rw [heq] at g' hw' hr'
      exact G_setWaiting g' _ (hw'.trans h0) (hr'.trans hr)
    · rename_i s' heq
      obtain ⟨e, ho⟩ := rc_ok fix s s' q heq
      subst e
      refine G_finishOp g opId op ?_ hr
      intro sid v hv
      obtain ⟨q0, hq0, _, hl⟩ := g.g1 sid v hv
      rw [hq] at hq0; cases hq0
      cases ht : q.task <;> simp [ht, taskOver, taskLive] at ho hl
    · rename_i s' heq
      rw [heq] at g'
      exact G_emit g' _
    · rename_i s' r heq
      rw [heq] at g'
      exact G_emit g' _

theorem G_startOp (fix : Fix) {s : St} (g : G s) (opId : Nat) (op : Op) : G (startOp fix s opId op) := by
  unfold startOp
  split
  · exact G_core (s := s) rfl rfl rfl rfl rfl g
  · rename_i hc
    have hc' : s.cancelling = false := by simpa using hc
    unfold St.cancelling at hc'
    have h0 : s.waiting = none := by
      cases hw : s.waiting with
      | none => rfl
      | some w => simp [hw] at hc'
    have hr : s.ready.any isResume = false := by
      cases h : s.ready.any isResume with
      | false => rfl
      | true => simp [h] at hc'
    split
    · exact G_emit g _
    · split
      · exact G_emit g _
      · exact G_cancelThen fix g opId _ h0 hr
    · split
      · exact G_emit g _
      · exact G_cancelThen fix g opId _ h0 hr
    · split
      · exact G_emit g _
      · exact G_cancelThen fix g opId _ h0 hr
    · split
      · exact G_emit g _
      · exact G_setEnabledThenHook g opId true

/-- the resume handle has just been popped -/
theorem G_resumeOp (fix : Fix) {s : St} (g : G s) (opId : Nat) (op : Op) (exc : Bool) (rest : List Handle)
    (hr : s.ready = .resume opId op exc :: rest) : G (resumeOp fix { s with ready := rest } opId op exc) := by
  have g1 : G { s with ready := rest } := G_pop g hr
  have g7 := g.g7
  unfold tokens at g7
  rw [hr, List.countP_cons] at g7
  have h1 : rest.countP isResume = 0 := by
    have e : isResume (Handle.resume opId op exc) = true := rfl
    rw [e] at g7; simp only [if_true] at g7; omega
  have hrr : rest.any isResume = false := by
    cases h : rest.any isResume with
    | false => rfl
    | true =>
      obtain ⟨x, hx1, hx2⟩ := List.any_eq_true.mp h
      have := List.countP_pos_iff.mpr ⟨x, hx1, hx2⟩
      omega
  obtain ⟨q, hq, ho⟩ := g.g6 (by rw [hr]; simp [isResume])
  unfold resumeOp
  split
  · exact G_emit g1 _
  · refine G_finishOp g1 opId op ?_ hrr
    intro sid v hv
    obtain ⟨q0, hq0, _, hl⟩ := g1.g1 sid v hv
    have hq' : s.port.seq = some q0 := hq0
    rw [hq] at hq'; cases hq'
    cases ht : q.task <;> simp [ht, taskOver, taskLive] at ho hl

theorem acts_zero_after_pop {s : St} (g : G s) (sid : Nat) (rest : List Handle) (hr : s.ready = .loopStep sid :: rest)
    (q : Seq) (hq : s.port.seq = some q) (hid : q.id = sid) : acts sid { s with ready := rest } = 0 := by
  have h3 := g.g3 q hq
  unfold acts at h3 ⊢
  rw [hid, hr, List.count_cons] at h3
  simp only at h3 ⊢
  simp at h3
  omega

theorem G_exec (fix : Fix) (hfl : fix.flushLast = true) {s : St} (g : G s) (h : Handle) (rest : List Handle)
    (hr : s.ready = h :: rest) : G (exec fix { s with ready := rest } h) := by
  have g1 : G { s with ready := rest } := G_pop g hr
  cases h with
  | loopStep sid =>
    apply G_loopStep fix hfl g1 sid
    intro q hq hid
    refine ⟨acts_zero_after_pop g sid rest hr q hq hid, ?_⟩
    have := g.g2 sid
    rw [hr] at this
    exact this.1 rfl
  | ff sid v =>
    simp only [exec]
    apply G_ite
    · exact G_core (s := { s with ready := rest }) rfl rfl rfl rfl rfl g1
    · exact G_core (s := { s with ready := rest }) rfl rfl rfl rfl rfl g1
  | hop k opId op =>
    cases k with
    | zero => exact G_startOp fix g1 opId op
    | succ k => exact G_push_plain g1 _ rfl rfl (fun sid h => by cases h)
  | resume opId op exc => exact G_resumeOp fix g opId op exc rest hr
  | hookEnd opId on => exact G_hookDone g1 opId on
  | stop => exact G_core (s := { s with ready := rest }) rfl rfl rfl rfl rfl g1

theorem ordered_append_noff (sid : Nat) (l l2 : List Handle) (o : ordered sid l) (h : ∀ x ∈ l2, isFf x = false) :
    ordered sid (l ++ l2) := by
  induction l2 generalizing l with
  | nil => simpa using o
  | cons a t ih =>
    have : l ++ a :: t = (l ++ [a]) ++ t := by simp
    rw [this]
    apply ih
    · rw [ordered_append_one]
      refine ⟨o, ?_⟩
      rintro ⟨v, rfl⟩
      have := h _ (List.mem_cons_self)
      simp [isFf] at this
    · intro x hx; exact h x (List.mem_cons_of_mem _ hx)

theorem count_map_h (sid : Nat) (D : List Timer) :
    (D.map (·.h)).count (Handle.loopStep sid) = D.countP (isTimerOf sid) := by
  induction D with
  | nil => rfl
  | cons a t ih =>
    simp only [List.map_cons, List.count_cons, List.countP_cons, ih, isTimerOf]
    rfl

theorem G_moveDue {s : St} (g : G s) : G (moveDue s) := by
  unfold moveDue
  have hsub : ∀ t, t ∈ s.timers.takeWhile (fun t => decide (t.time ≤ s.now)) → t ∈ s.timers :=
    fun t ht => (List.takeWhile_sublist _).subset ht
  have hsub2 : ∀ t, t ∈ s.timers.dropWhile (fun t => decide (t.time ≤ s.now)) → t ∈ s.timers :=
    fun t ht => (List.dropWhile_sublist _).subset ht
  have hok : ∀ x ∈ (s.timers.takeWhile (fun t => decide (t.time ≤ s.now))).map (·.h), timerOk x = true := by
    intro x hx
    obtain ⟨t, ht, rfl⟩ := List.mem_map.mp hx
    exact g.g5 t (hsub t ht)
  have hnoff : ∀ x ∈ (s.timers.takeWhile (fun t => decide (t.time ≤ s.now))).map (·.h), isFf x = false := by
    intro x hx; have := hok x hx; unfold timerOk at this; cases h : isFf x <;> simp [h] at this ⊢
  have hnores : ∀ x ∈ (s.timers.takeWhile (fun t => decide (t.time ≤ s.now))).map (·.h), isResume x = false := by
    intro x hx; have := hok x hx; unfold timerOk at this; cases h : isResume x <;> simp [h] at this ⊢
  have hany : ((s.timers.takeWhile (fun t => decide (t.time ≤ s.now))).map (·.h)).any isResume = false := by
    rw [List.any_eq_false]; intro x hx; simp [hnores x hx]
  refine ⟨fun sid v hv => ?_, fun sid => ordered_append_noff sid _ _ (g.g2 sid) hnoff, fun q hq => ?_, g.g4a,
    fun sid hx => ?_, fun t ht => g.g4c t (hsub2 t ht), fun t ht => g.g5 t (hsub2 t ht), fun h => ?_, ?_⟩
  · rcases List.mem_append.mp hv with e | e
    · exact g.g1 sid v e
    · have := hnoff _ e; simp [isFf] at this
  · have h3 := g.g3 q hq
    unfold acts at h3 ⊢
    simp only
    rw [List.count_append, count_map_h]
    have := congrArg (List.countP (isTimerOf q.id)) (List.takeWhile_append_dropWhile (p := fun t => decide (t.time ≤ s.now)) (l := s.timers))
    rw [List.countP_append] at this
    omega
  · rcases List.mem_append.mp hx with e | e
    · exact g.g4b sid e
    · obtain ⟨t, ht, e'⟩ := List.mem_map.mp e
      exact g.g4c t (hsub t ht) sid e'
  · apply g.g6
    have h' : (s.ready ++ (s.timers.takeWhile (fun t => decide (t.time ≤ s.now))).map (·.h)).any isResume = true := h
    rw [List.any_append, hany] at h'
    simpa using h'
  · have g7 := g.g7
    unfold tokens at g7 ⊢
    simp only
    rw [List.countP_append]
    have : ((s.timers.takeWhile (fun t => decide (t.time ≤ s.now))).map (·.h)).countP isResume = 0 := by
      rw [List.countP_eq_zero]; intro x hx; simp [hnores x hx]
    omega

theorem G_jump {s : St} (g : G s) : G (jump s) := by
  unfold jump
  split
  · split
    · exact G_core (s := s) rfl rfl rfl rfl rfl g
    · exact g
  · exact g

theorem G_runHandles (fix : Fix) (hfl : fix.flushLast = true) (n : Nat) {s : St} (g : G s) : G (runHandles fix n s) := by
  induction n generalizing s with
  | zero => exact g
  | succ n ih =>
    unfold runHandles
    split
    · exact g
    · split
      · exact g
      · rename_i h rest hr
        exact ih (G_exec fix hfl g h rest hr)

theorem G_iter (fix : Fix) (hfl : fix.flushLast = true) {s : St} (g : G s) : G (iter fix s) := by
  unfold iter
  split
  · exact g
  · exact G_runHandles fix hfl _ (G_moveDue (G_jump g))

theorem G_iterN (fix : Fix) (hfl : fix.flushLast = true) (n : Nat) {s : St} (g : G s) : G (iterN fix n s) := by
  induction n generalizing s with
  | zero => exact g
  | succ n ih => exact ih (G_iter fix hfl g)

/-- what the timers of a case hold at the start: calls of the harness and the end of the window -/
def startHandle : Handle → Prop
  | .hop .. => True
  | .stop => True
  | _ => False

theorem G_start (p : Port) (cap maxItems : Nat) (timers : List Timer) (hp : p.seq = none)
    (ht : ∀ t ∈ timers, startHandle t.h) :
    G (timers.foldl (fun s t => s.addTimer t.time t.rank t.h) (St.init p cap maxItems)) := by
  have h0 : G (St.init p cap maxItems) := by
    have hq : ∀ q, (St.init p cap maxItems).port.seq = some q → False := by
      intro q h
      have : p.seq = some q := h
      rw [hp] at this; cases this
    constructor
    · intro sid v h; cases h
    · intro sid; trivial
    · intro q h; exact (hq q h).elim
    · intro q h; exact (hq q h).elim
    · intro sid h; cases h
    · intro t h; cases h
    · intro t h; cases h
    · intro h; cases h
    · simp [tokens, St.init]
  suffices ∀ s, G s → G (timers.foldl (fun s t => s.addTimer t.time t.rank t.h) s) from this _ h0
  induction timers with
  | nil => intro s g; exact g
  | cons a l ih =>
    intro s g
    simp only [List.foldl_cons]
    apply ih (fun t ht' => ht t (List.mem_cons_of_mem _ ht'))
    have ha := ht a (List.mem_cons_self)
    apply G_addTimer g
    · cases h : a.h <;> simp [h, startHandle] at ha <;> rfl
    · intro sid e; rw [e] at ha; exact ha.elim

end Fl

open Fl in
/-- **A value in flight always belongs to the sequence the port reports** (repaired `_loop`, either variant of
`cancel`): in every state reachable from the start of a case — any port, any calls of the harness in the timers — by
any number of event-loop iterations, every fire-and-forget submission still in the ready queue is a value of the
sequence that `port.seq` holds at that moment. Hence when a stopping call has completed (the port reports no sequence or
another one) nothing of the old sequence is in flight, and by `no_callback_after_cancel` nothing of it is ever
submitted. -/
theorem in_flight_belongs (fix : Fix) (hfl : fix.flushLast = true) (p : Port) (cap maxItems : Nat)
    (timers : List Timer) (n : Nat) (hp : p.seq = none) (ht : ∀ t ∈ timers, startHandle t.h) :
    let s := iterN fix n (timers.foldl (fun s t => s.addTimer t.time t.rank t.h) (St.init p cap maxItems))
    ∀ sid v, Handle.ff sid v ∈ s.ready → ∃ q, s.port.seq = some q ∧ q.id = sid := by
  intro s sid v hv
  have g : G s := G_iterN fix hfl n (G_start p cap maxItems timers hp ht)
  obtain ⟨q, hq, hid, _⟩ := g.g1 sid v hv
  exact ⟨q, hq, hid⟩

end QtVerif.Sequence
