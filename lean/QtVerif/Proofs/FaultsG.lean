import QtVerif.Model.Faults
import QtVerif.Proofs.FaultsF
namespace QtVerif.Faults

/-- A port whose driver fails on every read keeps its last value through every schedule. -/
theorem run_keeps_last (P : Params) (E : Env) (i : Nat) (x : PortId) (v : Val)
    (hf : ∀ n, (E.rd x n).failing = true) :
    ∀ (σ : List Action) (s : State), (∃ q, s.ports[i]? = some q ∧ q.id = x ∧ q.last = v) →
      ∃ q, (run P E s σ).ports[i]? = some q ∧ q.id = x ∧ q.last = v := by
  intro σ
  induction σ with
  | nil => intro s h; exact h
  | cons a σ ih =>
    intro s ⟨q, hq, hid, hl⟩
    simp only [run, List.foldl_cons] at ih ⊢
    apply ih
    by_cases hp : ∃ k now, a = .pass k now
    · obtain ⟨k, now, rfl⟩ := hp
      rcases pass_at P E k now s (fun _ => True) i q hq trivial (fun _ _ _ _ => trivial) with ⟨_, e⟩ | ⟨_, a', q', _, e, e1, e2, _⟩
      · exact ⟨q, by simp only [step]; rw [e]; exact hq, hid, hl⟩
      · refine ⟨q', e, ?_, ?_⟩
        · rw [e1, pollPort_id]; exact hid
        · rw [e2, pollPort_keeps P E now _ a' q (by rw [hid]; exact hf _)]; exact hl
    · have hnp : ∀ k now, a ≠ .pass k now := fun k now h => hp ⟨k, now, h⟩
      obtain ⟨_, q', e, e1, e2, _⟩ := step_nonpass_at P E s a hnp i q hq
      exact ⟨q', e, by rw [e1]; exact hid, by rw [e2]; exact hl⟩

theorem pollAll_find_kept (P : Params) (E : Env) (now : Nat) (sec : Bool) (x t : Nat) (hin : now - t ≤ P.retry) :
    ∀ (ps : List Port) (a : Acc), a.errs.find? (fun e => e.1 == x) = some (x, t) →
      (pollAll P E now sec a ps).1.errs.find? (fun e => e.1 == x) = some (x, t) := by
  intro ps
  induction ps with
  | nil => intro a h; exact h
  | cons p ps ih => intro a h; simp only [pollAll]; exact ih _ (pollPort_find_kept P E now sec a p x t hin h)

theorem pass_find_kept (P : Params) (E : Env) (k : PassKind) (now : Nat) (s : State) (x t : Nat)
    (hin : now - t ≤ P.retry) (h : s.errs.find? (fun e => e.1 == x) = some (x, t)) :
    (pass P E k now s).errs.find? (fun e => e.1 == x) = some (x, t) := by
  unfold pass
  have h1 := pollAll_find_kept P E now (now / P.ups != s.lastSec) x t hin s.ports ⟨s.errs, s.trace, [], false⟩ h
  generalize pollAll P E now (now / P.ups != s.lastSec) ⟨s.errs, s.trace, [], false⟩ s.ports = r at *
  split
  · exact h
  · simp only []
    split
    · unfold kill; split <;> exact h1
    · split
      · unfold kill; split <;> exact h1
      · exact h1

/-- After a failed read at time `t`, as long as every pass happens no later than `t + retry`, the port is not read
again (its read counter and value stay), whatever else the schedule does. -/
theorem run_not_read (P : Params) (E : Env) (i : Nat) (x t n : Nat) (v : Val) :
    ∀ (σ : List Action) (s : State), (∀ k now, Action.pass k now ∈ σ → now - t ≤ P.retry) →
      s.errs.find? (fun e => e.1 == x) = some (x, t) →
      (∃ q, s.ports[i]? = some q ∧ q.id = x ∧ q.nrd = n ∧ q.last = v) →
      (run P E s σ).errs.find? (fun e => e.1 == x) = some (x, t) ∧
      ∃ q, (run P E s σ).ports[i]? = some q ∧ q.id = x ∧ q.nrd = n ∧ q.last = v := by
  intro σ
  induction σ with
  | nil => intro s _ h1 h2; exact ⟨h1, h2⟩
  | cons a σ ih =>
    intro s hσ hfind ⟨q, hq, hid, hn, hl⟩
    have hrun : run P E s (a :: σ) = run P E (step P E s a) σ := rfl
    rw [hrun]
    have hσ' : ∀ k now, Action.pass k now ∈ σ → now - t ≤ P.retry := fun k now h => hσ k now (by simp [h])
    by_cases hp : ∃ k now, a = .pass k now
    · obtain ⟨k, now, rfl⟩ := hp
      have hin : now - t ≤ P.retry := hσ k now (by simp)
      apply ih _ hσ' (pass_find_kept P E k now s x t hin hfind)
      rcases pass_at P E k now s (fun a => a.errs.find? (fun e => e.1 == x) = some (x, t)) i q hq hfind
        (fun a p _ h => pollPort_find_kept P E now _ a p x t hin h) with ⟨_, e⟩ | ⟨_, a', q', hQ, e, e1, e2, e3⟩
      · exact ⟨q, by rw [e]; exact hq, hid, hn, hl⟩
      · have hc : (errContains P.retry now a'.errs q.id).1 = true := by
          rw [hid]; unfold errContains; rw [hQ]
          have : ¬ (now - t > P.retry) := by omega
          simp [this]
        obtain ⟨g1, g2⟩ := pollPort_inErr P E now (now / P.ups != s.lastSec) a' q hc
        refine ⟨q', e, ?_, ?_, ?_⟩
        · rw [e1, pollPort_id]; exact hid
        · rw [e3, g1]; exact hn
        · rw [e2, g2]; exact hl
    · have hnp : ∀ k now, a ≠ .pass k now := fun k now h => hp ⟨k, now, h⟩
      obtain ⟨he, q', e, e1, e2, e3⟩ := step_nonpass_at P E s a hnp i q hq
      exact ih _ hσ' (by rw [he]; exact hfind) ⟨q', e, by rw [e1]; exact hid, by rw [e3]; exact hn, by rw [e2]; exact hl⟩

/-- A pass that runs reads every enabled port that is not (any more) in the error set, and adopts what the read
returns. -/
theorem pass_reads (P : Params) (E : Env) (hne : NoEscape E) (k : PassKind) (now : Nat) (s : State) (i : Nat) (q : Port)
    (hq : s.ports[i]? = some q) (hen : q.enabled = true) (hu : ∀ p ∈ s.ports.take i, p.id ≠ q.id)
    (hk : (k == .loop && !s.loopAlive) = false)
    (hc : (errContains P.retry now s.errs q.id).1 = false) :
    ∃ q', (pass P E k now s).ports[i]? = some q' ∧ q'.id = q.id ∧ q'.nrd = q.nrd + 1 ∧
      q'.last = (E.rd q.id q.nrd).adopted q.reg q.last := by
  rcases pass_at P E k now s
      (fun a => a.aborted = false ∧ a.errs.find? (fun e => e.1 == q.id) = s.errs.find? (fun e => e.1 == q.id))
      i q hq ⟨rfl, rfl⟩
      (fun a p hp h => ⟨pollPort_noabort P E hne now _ a p h.1,
        by rw [pollPort_find_other P E now _ a p q.id (hu p hp)]; exact h.2⟩)
    with ⟨h0, _⟩ | ⟨_, a', q', ⟨hab, hfind⟩, e, e1, e2, e3⟩
  · rw [hk] at h0; cases h0
  · have hc' : (errContains P.retry now a'.errs q.id).1 = false := by
      rw [errContains_fst_of_find P.retry now a'.errs s.errs q.id hfind]; exact hc
    obtain ⟨g1, g2⟩ := (pollPort_spec P E hne now (now / P.ups != s.lastSec) a' q hab hen).2 hc'
    exact ⟨q', e, by rw [e1, pollPort_id], by rw [e3, g1], by rw [e2, g2]⟩

/-- `errContains` says "not in the set" exactly when there is no entry or the entry has expired. -/
theorem errContains_false_iff (r now : Nat) (errs : List (PortId × Nat)) (p : PortId) :
    (errContains r now errs p).1 = false ↔
      (errs.find? (fun e => e.1 == p) = none ∨ ∃ e, errs.find? (fun e => e.1 == p) = some e ∧ now - e.2 > r) := by
  unfold errContains
  cases h : errs.find? (fun e => e.1 == p) with
  | none => simp
  | some e =>
    by_cases h' : now - e.2 > r
    · simp [h']
    · simp [h']
end QtVerif.Faults
