import QtVerif.Model.Faults
import QtVerif.Proofs.FaultsB
namespace QtVerif.Faults

theorem modPort_proj_H (H : PortId → Bool) (p : PortId) (f f' : Port → Port) (hf : ∀ q, (f q).id = q.id)
    (hff : ∀ q, q.id = p → rport H (f q) = f' (rport H q)) (ps : List Port) :
    ((modPort p f ps).filter (fun q => H q.id)).map (rport H)
      = modPort p f' ((ps.filter (fun q => H q.id)).map (rport H)) := by
  unfold modPort
  rw [map_filter_id H _ (by intro q; split <;> simp [hf])]
  simp only [List.map_map]
  apply List.map_congr_left
  intro q _
  have e1 : (rport H q).id = q.id := rfl
  simp only [Function.comp, e1]
  split
  · rename_i h; exact hff q (by simpa using h)
  · rfl

theorem modPort_proj_F (H : PortId → Bool) (p : PortId) (hp : H p = false) (f : Port → Port)
    (hf : ∀ q, (f q).id = q.id) (ps : List Port) :
    ((modPort p f ps).filter (fun q => H q.id)).map (rport H) = (ps.filter (fun q => H q.id)).map (rport H) := by
  unfold modPort
  rw [map_filter_id H _ (by intro q; split <;> simp [hf])]
  simp only [List.map_map]
  apply List.map_congr_left
  intro q hq
  have hH : H q.id = true := by simpa using (List.mem_filter.mp hq).2
  simp only [Function.comp]
  split
  · rename_i h
    have : q.id = p := by simpa using h
    rw [this, hp] at hH; cases hH
  · rfl

theorem evalPort_id (E : Env) (q : Port) : (evalPort E q).id = q.id := by
  unfold evalPort
  split
  · rfl
  · split
    · rfl
    · split
      · rfl
      · split <;> rfl

theorem evalPort_rport (H : PortId → Bool) (E : Env) (hfr : Frame E H) (q : Port) (hq : H q.id = true) :
    rport H (evalPort E q) = evalPort E (rport H q) := by
  unfold evalPort
  have e1 : (rport H q).busy = q.busy := rfl
  have e2 : (rport H q).id = q.id := rfl
  have e3 : (rport H q).last = q.last := rfl
  rw [e1]
  by_cases hb : q.busy = true
  · simp [hb]
  · simp only [hb, Bool.false_eq_true, if_false]
    cases hq' : q.evalQ with
    | nil => simp [rport, hq']
    | cons sn rest =>
      have e4 : (rport H q).evalQ = sn.filter (fun e => H e.1) :: rest.map (fun sn => sn.filter (fun e => H e.1)) := by
        simp [rport, hq']
      rw [e4]
      simp only [e2, e3, hfr q.id hq sn]
      cases E.evalE q.id sn with
      | err => simp [rport]
      | val v => simp only []; split <;> simp [rport]

theorem writePort_id (E : Env) (q : Port) : (writePort E q).id = q.id := by
  unfold writePort
  split
  · rfl
  · split <;> rfl

theorem writePort_rport (H : PortId → Bool) (E : Env) (q : Port) :
    rport H (writePort E q) = writePort E (rport H q) := by
  unfold writePort
  have e1 : (rport H q).writeQ = q.writeQ := rfl
  rw [e1]
  cases q.writeQ with
  | nil => rfl
  | cons x rest =>
    obtain ⟨v, sub⟩ := x
    simp only []
    have e2 : (rport H q).id = q.id := rfl
    have e3 : (rport H q).nwr = q.nwr := rfl
    rw [e2, e3]
    cases E.wr q.id q.nwr <;> rfl

theorem writeObs_rport (H : PortId → Bool) (E : Env) (q : Port) : writeObs E (rport H q) = writeObs E q := rfl

theorem writeObs_port (E : Env) (q : Port) : ∀ o ∈ writeObs E q, o.port = q.id := by
  unfold writeObs
  cases q.writeQ with
  | nil => intro o h; cases h
  | cons x rest =>
    obtain ⟨v, sub⟩ := x
    simp only []
    cases E.wr q.id q.nwr <;> simp [Obs.port]

theorem find_proj_H (H : PortId → Bool) (p : PortId) (hp : H p = true) (ps : List Port) :
    ((ps.filter (fun q => H q.id)).map (rport H)).find? (fun q => q.id == p)
      = (ps.find? (fun q => q.id == p)).map (rport H) := by
  induction ps with
  | nil => rfl
  | cons x xs ih =>
    by_cases hx : H x.id = true
    · have e : (rport H x).id = x.id := rfl
      by_cases hxp : (x.id == p) = true
      · simp [hx, e, hxp]
      · simp [hx, e, hxp, ih]
    · have : (x.id == p) = false := by
        apply Bool.eq_false_iff.mpr; intro h; simp at h; rw [h] at hx; exact hx hp
      simp [hx, this, ih]

theorem step_proj (H : PortId → Bool) (P : Params) (E : Env) (hs : Safe E H) (hcl : Closed E H) (hfr : Frame E H)
    (s : State) (a : Action) (h1 : ∀ p, a ≠ .create p) (h2 : ∀ p, a ≠ .remove p) (h3 : a ≠ .forceEval) :
    proj H (step P E s a) = if keep H a then step P E (proj H s) a else proj H s := by
  cases a with
  | create p => exact absurd rfl (h1 p)
  | remove p => exact absurd rfl (h2 p)
  | forceEval => exact absurd rfl h3
  | pass k now => simp only [keep, if_true, step]; exact pass_proj H P E hs hcl k now s
  | setSrc p v =>
    by_cases hp : H p = true
    · simp only [keep, hp, if_true, step, proj]
      rw [modPort_proj_H H p (setReg v) (setReg v) (fun _ => rfl) (fun _ _ => rfl)]
    · have hp' : H p = false := by simpa using hp
      simp only [keep, hp', Bool.false_eq_true, if_false, step, proj]
      rw [modPort_proj_F H p hp' (setReg v) (fun _ => rfl)]
  | apiWrite p v k =>
    by_cases hp : H p = true
    · simp only [keep, hp, if_true, step, proj]
      rw [modPort_proj_H H p (enqApi v k) (enqApi v k) (fun _ => rfl) (fun _ _ => rfl)]
    · have hp' : H p = false := by simpa using hp
      simp only [keep, hp', Bool.false_eq_true, if_false, step, proj]
      rw [modPort_proj_F H p hp' (enqApi v k) (fun _ => rfl)]
  | eval p =>
    by_cases hp : H p = true
    · simp only [keep, hp, if_true, step, proj]
      rw [modPort_proj_H H p (evalPort E) (evalPort E) (evalPort_id E)
        (fun q hq => evalPort_rport H E hfr q (by rw [hq]; exact hp))]
    · have hp' : H p = false := by simpa using hp
      simp only [keep, hp', Bool.false_eq_true, if_false, step, proj]
      rw [modPort_proj_F H p hp' (evalPort E) (evalPort_id E)]
  | write p =>
    by_cases hp : H p = true
    · simp only [keep, hp, if_true, step, proj]
      rw [modPort_proj_H H p (writePort E) (writePort E) (writePort_id E) (fun q _ => writePort_rport H E q),
        find_proj_H H p hp]
      congr 1
      cases hf : s.ports.find? (fun q => q.id == p) with
      | none => simp
      | some q =>
        have hqid : q.id = p := by simpa using List.find?_some hf
        simp only [Option.map_some, writeObs_rport, List.filter_append]
        congr 1
        apply List.filter_eq_self.mpr
        intro o ho
        rw [writeObs_port E q o ho, hqid]; exact hp
    · have hp' : H p = false := by simpa using hp
      simp only [keep, hp', Bool.false_eq_true, if_false, step, proj]
      rw [modPort_proj_F H p hp' (writePort E) (writePort_id E)]
      congr 1
      cases hf : s.ports.find? (fun q => q.id == p) with
      | none => simp
      | some q =>
        have hqid : q.id = p := by simpa using List.find?_some hf
        simp only [List.filter_append]
        have : (writeObs E q).filter (fun o => H o.port) = [] := by
          apply List.filter_eq_nil_iff.mpr
          intro o ho
          rw [writeObs_port E q o ho, hqid, hp']; simp
        rw [this]; rfl

theorem step_proj' (H : PortId → Bool) (P : Params) (E : Env) (hs : Safe E H) (hcl : Closed E H) (hfr : Frame E H)
    (s : State) (a : Action) :
    proj H (step P E s a) = if keep H a then step P E (proj H s) a else proj H s := by
  cases a with
  | create p =>
    by_cases hp : H p = true
    · simp only [keep, hp, if_true, step, proj]
      rw [modPort_proj_H H p (setEnabled true) (setEnabled true) (fun _ => rfl) (fun _ _ => rfl)]
    · have hp' : H p = false := by simpa using hp
      simp only [keep, hp', Bool.false_eq_true, if_false, step, proj]
      rw [modPort_proj_F H p hp' (setEnabled true) (fun _ => rfl)]
  | remove p =>
    by_cases hp : H p = true
    · simp only [keep, hp, if_true, step, proj]
      rw [modPort_proj_H H p (setEnabled false) (setEnabled false) (fun _ => rfl) (fun _ _ => rfl)]
    · have hp' : H p = false := by simpa using hp
      simp only [keep, hp', Bool.false_eq_true, if_false, step, proj]
      rw [modPort_proj_F H p hp' (setEnabled false) (fun _ => rfl)]
  | forceEval => rfl
  | pass k now => exact step_proj H P E hs hcl hfr s (.pass k now) (by intro p; simp) (by intro p; simp) (by simp)
  | setSrc p v => exact step_proj H P E hs hcl hfr s (.setSrc p v) (by intro q; simp) (by intro q; simp) (by simp)
  | apiWrite p v k => exact step_proj H P E hs hcl hfr s (.apiWrite p v k) (by intro q; simp) (by intro q; simp) (by simp)
  | eval p => exact step_proj H P E hs hcl hfr s (.eval p) (by intro q; simp) (by intro q; simp) (by simp)
  | write p => exact step_proj H P E hs hcl hfr s (.write p) (by intro q; simp) (by intro q; simp) (by simp)

theorem run_proj (H : PortId → Bool) (P : Params) (E : Env) (hs : Safe E H) (hcl : Closed E H) (hfr : Frame E H) :
    ∀ (σ : List Action) (s : State), proj H (run P E s σ) = run P E (proj H s) (σ.filter (keep H)) := by
  intro σ
  induction σ with
  | nil => intro s; rfl
  | cons a σ ih =>
    intro s
    have h := step_proj' H P E hs hcl hfr s a
    simp only [run, List.foldl_cons] at ih ⊢
    rw [ih, h]
    by_cases hk : keep H a = true
    · simp [hk]
    · simp [hk]
end QtVerif.Faults
