import QtVerif.Proofs.Core
/-! C01 — facts about the tiny expression language and the concrete counter-example runs. -/
namespace QtVerif.Core

/-- Frame property of the tiny evaluator (what C02 proves for the real one). -/
theorem TExpr.eval_frame (e : TExpr) (v v' : View) (h : ∀ q, q ∈ e.deps → v q = v' q) : e.eval v = e.eval v' := by
  induction e with
  | lit k => rfl
  | una => rfl
  | port q => simp [TExpr.eval, h q (by simp [TExpr.deps])]
  | op2 o a b iha ihb =>
    cases o <;> simp only [TExpr.eval, iha (fun q hq => h q (by simp [TExpr.deps, hq])),
      ihb (fun q hq => h q (by simp [TExpr.deps, hq]))]
  | not a iha => simp only [TExpr.eval, iha (fun q hq => h q (by simp [TExpr.deps, hq]))]
  | ite c a b ihc iha ihb =>
    simp only [TExpr.eval, ihc (fun q hq => h q (by simp [TExpr.deps, hq])),
      iha (fun q hq => h q (by simp [TExpr.deps, hq])), ihb (fun q hq => h q (by simp [TExpr.deps, hq]))]
  | avail a iha => simp only [TExpr.eval, iha (fun q hq => h q (by simp [TExpr.deps, hq]))]
  | dflt a b iha ihb =>
    simp only [TExpr.eval, iha (fun q hq => h q (by simp [TExpr.deps, hq])),
      ihb (fun q hq => h q (by simp [TExpr.deps, hq]))]

theorem tiny_frame (n : Nat) (bools : List PortId) (rc rf rcap : Bool) : Frame (tinyCfg n bools rc rf rcap) :=
  fun e v v' h => TExpr.eval_frame e v v' h

variable {E : Type}

theorem reach_of_run {cfg : Cfg E} {p0 : PortId → PortSt E} {s : State E} (hr : Reach cfg p0 s) :
    ∀ (acts : List (Act E)) (s' : State E), run? cfg s acts = some s' → Reach cfg p0 s' := by
  intro acts
  induction acts generalizing s with
  | nil => intro s' h; simp [run?] at h; subst h; exact hr
  | cons a rest ih =>
    intro s' h
    simp only [run?] at h
    split at h
    · rename_i s1 h1
      exact ih (Reach.step a hr h1) s' h
    · simp at h

/-- Final state of a schedule (the start state if some action is not enabled; `run_final` excludes that). -/
def final (cfg : Cfg E) (s0 : State E) (acts : List (Act E)) : State E :=
  match run? cfg s0 acts with
  | some s => s
  | none => s0

theorem run_final {cfg : Cfg E} {s0 : State E} {acts : List (Act E)} (h : (run? cfg s0 acts).isSome = true) :
    run? cfg s0 acts = some (final cfg s0 acts) := by
  unfold final
  cases hr : run? cfg s0 acts with
  | some s => rfl
  | none => simp [hr] at h

instance {cfg : Cfg E} {s : State E} : Decidable (Quiescent cfg s) := by
  unfold Quiescent
  infer_instance

instance {cfg : Cfg E} {s : State E} {p : PortId} {e : E} {x : Option Int} : Decidable (Good cfg s p e x) := by
  unfold Good
  split <;> infer_instance

end QtVerif.Core
