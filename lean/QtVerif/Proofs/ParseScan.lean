import QtVerif.Proofs.ParseChars
/-! The scanning loop of `Function.parse` (model: `step` / `scanLoop` / `finish` / `scan`): forward simulation on
texts of the grammar and the decomposition invariant used for soundness. Helper lemmas for C03. -/
set_option linter.unusedSimpArgs false
namespace QtVerif.Parse
open QtVerif.Syntax

/-- argument texts joined by commas -/
def joinC : List (List Char) → List Char
  | [] => []
  | [a] => a
  | a :: b :: r => a ++ ',' :: joinC (b :: r)

/-- every text followed by a comma -/
def pre : List (List Char) → List Char
  | [] => []
  | a :: r => a ++ ',' :: pre r

theorem pre_append (l m : List (List Char)) : pre (l ++ m) = pre l ++ pre m := by
  induction l with
  | nil => rfl
  | cons a r ih => simp [pre, ih]

theorem joinC_snoc (l : List (List Char)) (c : List Char) : joinC (l ++ [c]) = pre l ++ c := by
  induction l with
  | nil => rfl
  | cons a r ih =>
    cases r with
    | nil => simp [joinC, pre]
    | cons b r' =>
      simp only [List.cons_append, joinC, pre] at ih ⊢
      rw [ih]; simp

/-- Parentheses are matched; with `false`, no comma occurs outside parentheses. -/
inductive Bal : Bool → List Char → Prop
  | nil (b : Bool) : Bal b []
  | plain (b : Bool) (c : Char) (w : List Char) : c ≠ '(' → c ≠ ')' → c ≠ ',' → Bal b w → Bal b (c :: w)
  | comma (w : List Char) : Bal true w → Bal true (',' :: w)
  | paren (b : Bool) (u w : List Char) : Bal true u → Bal b w → Bal b ('(' :: (u ++ ')' :: w))

theorem Bal.weaken {b : Bool} {a : List Char} (h : Bal b a) : Bal true a := by
  induction h with
  | nil b => exact Bal.nil _
  | plain b c w h1 h2 h3 _ ih => exact Bal.plain _ c w h1 h2 h3 ih
  | comma w _ ih => exact Bal.comma w ih
  | paren b u w _ _ ih1 ih2 => exact Bal.paren _ u w ih1 ih2

theorem Bal.append {b : Bool} {a1 a2 : List Char} (h1 : Bal b a1) (h2 : Bal b a2) : Bal b (a1 ++ a2) := by
  induction h1 with
  | nil b => simpa using h2
  | plain b c w hc1 hc2 hc3 _ ih => exact Bal.plain _ c _ hc1 hc2 hc3 (ih h2)
  | comma w _ ih => exact Bal.comma _ (ih h2)
  | paren b u w hu _ _ ih2 =>
    have := Bal.paren b u (w ++ a2) hu (ih2 h2)
    simpa using this

theorem scanLoop_step {pos : Nat} {st st' : ScanSt} {c : Char} (h : step pos st c = .ok st') (cs : List Char) :
    scanLoop pos st (c :: cs) = scanLoop pos st' cs := by
  simp [scanLoop, h]

theorem step_inside_plain (pos i ps k : Nat) (name : List Char) (as : Nat) (cur : List Char)
    (sargs : List (List Char × Nat)) (c : Char) (h1 : c ≠ '(') (h2 : c ≠ ')') (h3 : c ≠ ',' ∨ k ≥ 1) :
    step pos ⟨i, some ps, none, k + 1, name, as, cur, sargs⟩ c =
      .ok ⟨i + 1, some ps, none, k + 1, name, as, cur ++ [c], sargs⟩ := by
  have e1 : (c == '(') = false := by simpa using h1
  have e2 : (c == ')') = false := by simpa using h2
  have e3 : (c == ',' && k + 1 == 1) = false := by
    rcases h3 with h3 | h3
    · simp [h3]
    · have : (k + 1 == 1) = false := by simp; omega
      simp [this]
  simp only [step, e1, e2]
  simp
  intro hc hk
  rcases h3 with h3 | h3
  · exact absurd hc h3
  · omega

theorem step_inside_open (pos i ps k : Nat) (name : List Char) (as : Nat) (cur : List Char)
    (sargs : List (List Char × Nat)) :
    step pos ⟨i, some ps, none, k + 1, name, as, cur, sargs⟩ '(' =
      .ok ⟨i + 1, some ps, none, k + 2, name, as, cur ++ ['('], sargs⟩ := by
  simp [step]

theorem step_inside_close (pos i ps k : Nat) (name : List Char) (as : Nat) (cur : List Char)
    (sargs : List (List Char × Nat)) :
    step pos ⟨i, some ps, none, k + 2, name, as, cur, sargs⟩ ')' =
      .ok ⟨i + 1, some ps, none, k + 1, name, as, cur ++ [')'], sargs⟩ := by
  simp [step]

theorem step_comma1 (pos i ps : Nat) (name : List Char) (as : Nat) (cur : List Char)
    (sargs : List (List Char × Nat)) (h : trim cur ≠ []) :
    step pos ⟨i, some ps, none, 1, name, as, cur, sargs⟩ ',' =
      .ok ⟨i + 1, some ps, none, 1, name, i + 1, [], sargs ++ [(cur, as)]⟩ := by
  simp [step, h]

theorem step_close1 (pos i ps : Nat) (name : List Char) (as : Nat) (cur : List Char)
    (sargs : List (List Char × Nat)) :
    step pos ⟨i, some ps, none, 1, name, as, cur, sargs⟩ ')' =
      .ok ⟨i + 1, some ps, some i, 0, name, as, cur, sargs⟩ := by
  simp [step]

theorem step_name (pos i : Nat) (name : List Char) (as : Nat) (cur : List Char)
    (sargs : List (List Char × Nat)) (c : Char) (h1 : c ≠ '(') (h2 : c ≠ ')') :
    step pos ⟨i, none, none, 0, name, as, cur, sargs⟩ c =
      .ok ⟨i + 1, none, none, 0, name ++ [c], as, cur, sargs⟩ := by
  have e1 : (c == '(') = false := by simpa using h1
  have e2 : (c == ')') = false := by simpa using h2
  simp [step, e1, e2]

theorem step_open0 (pos i : Nat) (name : List Char) (as : Nat) (cur : List Char)
    (sargs : List (List Char × Nat)) :
    step pos ⟨i, none, none, 0, name, as, cur, sargs⟩ '(' =
      .ok ⟨i + 1, some i, none, 1, name, i + 1, cur, sargs⟩ := by
  simp [step]

theorem scan_bal {b : Bool} {a : List Char} (h : Bal b a) :
    ∀ (pos i ps k : Nat) (name : List Char) (as : Nat) (cur : List Char) (sargs : List (List Char × Nat))
      (rest : List Char), (b = true → k ≥ 1) →
    scanLoop pos ⟨i, some ps, none, k + 1, name, as, cur, sargs⟩ (a ++ rest) =
    scanLoop pos ⟨i + a.length, some ps, none, k + 1, name, as, cur ++ a, sargs⟩ rest := by
  induction h with
  | nil b => intros; simp
  | plain b c w h1 h2 h3 _ ih =>
    intro pos i ps k name as cur sargs rest hk
    rw [List.cons_append, scanLoop_step (step_inside_plain pos i ps k name as cur sargs c h1 h2 (Or.inl h3)),
      ih pos (i + 1) ps k name as (cur ++ [c]) sargs rest hk]
    simp [Nat.add_assoc, Nat.add_comm 1]
  | comma w _ ih =>
    intro pos i ps k name as cur sargs rest hk
    rw [List.cons_append, scanLoop_step (step_inside_plain pos i ps k name as cur sargs ',' (by decide) (by decide)
      (Or.inr (hk rfl))), ih pos (i + 1) ps k name as (cur ++ [',']) sargs rest hk]
    simp [Nat.add_assoc, Nat.add_comm 1]
  | paren b u w _ _ ih1 ih2 =>
    intro pos i ps k name as cur sargs rest hk
    rw [List.cons_append, scanLoop_step (step_inside_open pos i ps k name as cur sargs), List.append_assoc,
      ih1 pos (i + 1) ps (k + 1) name as (cur ++ ['(']) sargs (')' :: w ++ rest) (by intro; omega),
      List.cons_append, scanLoop_step (step_inside_close pos _ ps k name as _ sargs),
      ih2 pos _ ps k name as _ sargs rest hk]
    congr 2
    · simp; omega
    · simp

theorem scan_name (w : List Char) (hw : ∀ c ∈ w, c ≠ '(' ∧ c ≠ ')') :
    ∀ (pos i : Nat) (name : List Char) (as : Nat) (cur : List Char) (sargs : List (List Char × Nat))
      (rest : List Char),
    scanLoop pos ⟨i, none, none, 0, name, as, cur, sargs⟩ (w ++ rest) =
    scanLoop pos ⟨i + w.length, none, none, 0, name ++ w, as, cur, sargs⟩ rest := by
  induction w with
  | nil => intros; simp
  | cons c w ih =>
    intro pos i name as cur sargs rest
    have hc := hw c List.mem_cons_self
    rw [List.cons_append, scanLoop_step (step_name pos i name as cur sargs c hc.1 hc.2),
      ih (fun d hd => hw d (List.mem_cons_of_mem _ hd))]
    congr 2
    · simp; omega
    · simp

theorem joinC_ne_nil {ts : List (List Char)} (hne : ts ≠ []) (h : ∀ t ∈ ts, t ≠ []) : joinC ts ≠ [] := by
  cases ts with
  | nil => exact absurd rfl hne
  | cons a r =>
    cases r with
    | nil => simpa [joinC] using h a List.mem_cons_self
    | cons b r' =>
      have := h a List.mem_cons_self
      simp [joinC, this]

theorem trim_ne_nil_ne_nil {t : List Char} (h : trim t ≠ []) : t ≠ [] := by
  intro ht; subst ht; exact h rfl

/-- Scanning the comma-joined argument texts at level 1. -/
theorem scan_args (ts : List (List Char)) (hne : ts ≠ []) (hb : ∀ t ∈ ts, Bal false t ∧ trim t ≠ []) :
    ∀ (pos i ps : Nat) (name : List Char) (as : Nat) (sargs : List (List Char × Nat)) (rest : List Char),
    ∃ as' sargs', scanLoop pos ⟨i, some ps, none, 1, name, as, [], sargs⟩ (joinC ts ++ rest) =
        scanLoop pos ⟨i + (joinC ts).length, some ps, none, 1, name, as', ts.getLast hne, sargs'⟩ rest ∧
      sargs'.map Prod.fst = sargs.map Prod.fst ++ ts.dropLast := by
  induction ts with
  | nil => exact absurd rfl hne
  | cons t r ih =>
    intro pos i ps name as sargs rest
    have ht := hb t List.mem_cons_self
    cases r with
    | nil =>
      refine ⟨as, sargs, ?_, by simp⟩
      have := scan_bal ht.1 pos i ps 0 name as [] sargs rest (by intro h; cases h)
      simpa [joinC] using this
    | cons t' r' =>
      have hb' : ∀ x ∈ t' :: r', Bal false x ∧ trim x ≠ [] := fun x hx => hb x (List.mem_cons_of_mem _ hx)
      obtain ⟨as', sargs', h1, h2⟩ := ih (by simp) hb' pos (i + t.length + 1) ps name (i + t.length + 1)
        (sargs ++ [(t, as)]) rest
      refine ⟨as', sargs', ?_, ?_⟩
      · have e0 := scan_bal ht.1 pos i ps 0 name as [] sargs (',' :: joinC (t' :: r') ++ rest)
          (by intro h; cases h)
        simp only [joinC, List.append_assoc, List.cons_append, List.nil_append] at e0 ⊢
        rw [e0, scanLoop_step (step_comma1 pos _ ps name as t sargs ht.2), h1]
        congr 2
        simp; omega
      · rw [h2]; simp [List.dropLast]

/-- Forward: the text `head ( t₁ , … , tₙ )` with a parenthesis-free head and balanced, comma-protected, non-blank
argument texts is split into exactly these texts. -/
theorem scan_call (pos : Nat) (hd : List Char) (ts : List (List Char)) (hh : ∀ c ∈ hd, c ≠ '(' ∧ c ≠ ')')
    (hb : ∀ t ∈ ts, Bal false t ∧ trim t ≠ []) :
    ∃ sargs, scan pos (hd ++ '(' :: joinC ts ++ [')']) = .ok (hd, sargs) ∧ sargs.map Prod.fst = ts := by
  unfold scan
  have e1 := scan_name hd hh pos 0 [] 0 [] [] ('(' :: joinC ts ++ [')'])
  simp only [List.nil_append, Nat.zero_add] at e1
  have e1' : scanLoop pos {} (hd ++ '(' :: joinC ts ++ [')']) =
      scanLoop pos ⟨hd.length + 1, some hd.length, none, 1, hd, hd.length + 1, [], []⟩ (joinC ts ++ [')']) := by
    have : (hd ++ '(' :: joinC ts ++ [')']) = hd ++ ('(' :: joinC ts ++ [')']) := by simp
    rw [this]
    show scanLoop pos ⟨0, none, none, 0, [], 0, [], []⟩ _ = _
    rw [e1, List.cons_append, scanLoop_step (step_open0 pos _ hd 0 [] [])]
  rw [e1']
  by_cases hne : ts = []
  · subst hne
    refine ⟨[], ?_, rfl⟩
    simp only [joinC, List.nil_append]
    rw [scanLoop_step (step_close1 pos _ _ hd _ [] [])]
    simp [scanLoop, finish]
  · obtain ⟨as', sargs', h1, h2⟩ := scan_args ts hne hb pos (hd.length + 1) hd.length hd (hd.length + 1) [] [')']
    rw [h1, scanLoop_step (step_close1 pos _ _ hd _ _ _)]
    have hlen : (joinC ts).length ≥ 1 := by
      have := joinC_ne_nil hne (fun t ht => trim_ne_nil_ne_nil (hb t ht).2)
      cases hj : joinC ts with
      | nil => exact absurd hj this
      | cons _ _ => simp
    have hlast : trim (ts.getLast hne) ≠ [] := (hb _ (List.getLast_mem hne)).2
    refine ⟨sargs' ++ [(ts.getLast hne, as')], ?_, ?_⟩
    · simp only [scanLoop, finish]
      have : ¬ (hd.length > hd.length + 1 + (joinC ts).length) := by omega
      have h3 : hd.length + 1 + (joinC ts).length - hd.length > 1 := by omega
      simp [this, h3, hlast]
    · rw [List.map_append, h2]; simpa using List.dropLast_concat_getLast hne

/-! ### Backward: what an accepted scan says about the text -/

/-- What the scanning loop knows about the characters consumed so far. -/
def Inv (st : ScanSt) (consumed : List Char) : Prop :=
  st.i = consumed.length ∧ (∀ a ∈ st.sargs, trim a.1 ≠ []) ∧
  match st.pStart, st.pEnd with
  | none, none => st.level = 0 ∧ consumed = st.name ∧ st.sargs = [] ∧ st.cur = []
  | some ps, none => st.level ≥ 1 ∧ ps = st.name.length ∧
      consumed = st.name ++ '(' :: (pre (st.sargs.map Prod.fst) ++ st.cur)
  | some ps, some pe => st.level = 0 ∧ ps = st.name.length ∧
      pe = st.name.length + 1 + (pre (st.sargs.map Prod.fst) ++ st.cur).length ∧
      ∃ tail, AllSpace tail ∧ consumed = st.name ++ '(' :: (pre (st.sargs.map Prod.fst) ++ st.cur) ++ ')' :: tail
  | none, some _ => False

theorem inv_init : Inv {} [] := by simp [Inv]

theorem inv_step {pos : Nat} {st st' : ScanSt} {c : Char} {consumed : List Char}
    (hinv : Inv st consumed) (h : step pos st c = .ok st') : Inv st' (consumed ++ [c]) := by
  rcases st with ⟨i, ps, pe, lvl, name, as, cur, sargs⟩
  obtain ⟨hi, hsa, hm⟩ := hinv
  simp only at hi
  cases ps with
  | none =>
    cases pe with
    | some _ => exact absurd hm (by simp)
    | none =>
      simp only at hm
      obtain ⟨hl, hc, hs, hcur⟩ := hm
      subst hl; subst hs; subst hcur
      by_cases c1 : c = '('
      · subst c1
        simp [step] at h; subst h
        simp [Inv, hi, pre, hc]
      · by_cases c2 : c = ')'
        · subst c2; simp [step] at h
        · have e1 : (c == '(') = false := by simpa using c1
          have e2 : (c == ')') = false := by simpa using c2
          simp [step, e1, e2] at h; subst h
          simp [Inv, hi, hc]
  | some ps =>
    cases pe with
    | none =>
      simp only at hm
      obtain ⟨hl, hps, hc⟩ := hm
      by_cases c1 : c = '('
      · subst c1
        have : (lvl == 0) = false := by simp; omega
        simp [step, this] at h; subst h
        refine ⟨by simp [hi], hsa, ?_⟩
        simp [hps, hc]
      · by_cases c2 : c = ')'
        · subst c2
          have l0 : (lvl == 0) = false := by simp; omega
          by_cases l1 : lvl = 1
          · subst l1
            simp [step] at h; subst h
            refine ⟨by simp [hi], hsa, ?_⟩
            simp only
            refine ⟨by simp, hps, ?_, [], allSpace_nil, ?_⟩
            · rw [hi, hc]; simp; omega
            · simp [hc]
          · have l1' : (lvl == 1) = false := by simpa using l1
            simp [step, l0, l1'] at h; subst h
            refine ⟨by simp [hi], hsa, ?_⟩
            simp only
            refine ⟨by omega, hps, ?_⟩
            simp [hc]
        · have e1 : (c == '(') = false := by simpa using c1
          have e2 : (c == ')') = false := by simpa using c2
          by_cases c3 : c = ',' ∧ lvl = 1
          · obtain ⟨c3, l1⟩ := c3; subst c3; subst l1
            simp only [step, e1, e2] at h
            simp at h
            split at h
            · cases h
            · rename_i hne
              simp at h; subst h
              refine ⟨by simp [hi], ?_, ?_⟩
              · intro a ha
                rcases List.mem_append.mp ha with ha | ha
                · exact hsa a ha
                · simp at ha; subst ha; simpa using hne
              · simp only
                refine ⟨by omega, hps, ?_⟩
                simp [hc, pre_append, pre]
          · have e3 : (c == ',' && lvl == 1) = false := by
              cases hh : (c == ',' && lvl == 1) with
              | false => rfl
              | true => simp at hh; exact absurd hh c3
            have l0 : (lvl == 0) = false := by simp; omega
            simp [step, e1, e2, e3, l0] at h; subst h
            refine ⟨by simp [hi], hsa, ?_⟩
            simp only
            refine ⟨hl, hps, ?_⟩
            simp [hc]
    | some pe =>
      simp only at hm
      obtain ⟨hl, hps, hpe, tail, htail, hc⟩ := hm
      subst hl
      by_cases c1 : c = '('
      · subst c1; simp [step] at h
      · by_cases c2 : c = ')'
        · subst c2; simp [step] at h
        · have e1 : (c == '(') = false := by simpa using c1
          have e2 : (c == ')') = false := by simpa using c2
          cases hsp : isSpace c with
          | false => simp [step, e1, e2, hsp] at h
          | true =>
          simp [step, e1, e2, hsp] at h
          subst h
          refine ⟨by simp [hi], hsa, ?_⟩
          simp only
          refine ⟨by simp, hps, hpe, tail ++ [c], ?_, ?_⟩
          · exact allSpace_append htail (by intro d hd; simp at hd; subst hd; exact hsp)
          · simp [hc]

theorem inv_loop {pos : Nat} : ∀ (rest : List Char) {st st' : ScanSt} {consumed : List Char},
    Inv st consumed → scanLoop pos st rest = .ok st' → Inv st' (consumed ++ rest) := by
  intro rest
  induction rest with
  | nil => intro st st' consumed hinv h; simp [scanLoop] at h; subst h; simpa using hinv
  | cons c cs ih =>
    intro st st' consumed hinv h
    simp only [scanLoop] at h
    cases hs : step pos st c with
    | error e => rw [hs] at h; cases h
    | ok st1 =>
      rw [hs] at h
      have := ih (inv_step hinv hs) h
      simpa using this

theorem pre_eq_nil {l : List (List Char)} (h : pre l = []) : l = [] := by
  cases l with
  | nil => rfl
  | cons a r => simp [pre] at h

/-- Backward: an accepted scan splits the text as `name ( t₁ , … , tₙ ) ws`; no `tᵢ` is blank. -/
theorem scan_decomp {pos : Nat} {s name : List Char} {sargs : List (List Char × Nat)}
    (h : scan pos s = .ok (name, sargs)) :
    ∃ tail, AllSpace tail ∧ s = name ++ '(' :: joinC (sargs.map Prod.fst) ++ ')' :: tail ∧
      ∀ a ∈ sargs, trim a.1 ≠ [] := by
  unfold scan at h
  cases hl : scanLoop pos {} s with
  | error e => rw [hl] at h; cases h
  | ok st =>
    rw [hl] at h
    have hinv := inv_loop s inv_init hl
    simp only [List.nil_append] at hinv
    rcases st with ⟨i, ps, pe, lvl, nm, as, cur, sa⟩
    obtain ⟨hi, hsa, hm⟩ := hinv
    cases ps with
    | none => simp [finish] at h
    | some ps =>
      cases pe with
      | none => simp [finish] at h
      | some pe =>
        simp only at hm
        obtain ⟨hl0, hps, hpe, tail, htail, hc⟩ := hm
        subst hl0
        simp only [finish] at h
        have hle : ¬ (ps > pe) := by omega
        simp [hle] at h
        by_cases hgt : pe - ps > 1
        · simp only [hgt, if_true] at h
          split at h
          · cases h
          · rename_i hne
            simp at h
            obtain ⟨h1, h2⟩ := h
            subst h1; subst h2
            refine ⟨tail, htail, ?_, ?_⟩
            · rw [hc, List.map_append]
              simp only [List.map_cons, List.map_nil]
              rw [joinC_snoc]
            · intro a ha
              rcases List.mem_append.mp ha with ha | ha
              · exact hsa a ha
              · simp at ha; subst ha; simpa using hne
        · simp only [hgt, if_false] at h
          simp at h
          obtain ⟨h1, h2⟩ := h
          subst h1; subst h2
          have hz : (pre (sa.map Prod.fst) ++ cur).length = 0 := by omega
          have hz' : pre (sa.map Prod.fst) ++ cur = [] := List.eq_nil_of_length_eq_zero hz
          have hp : pre (sa.map Prod.fst) = [] := (List.append_eq_nil_iff.mp hz').1
          have hm0 : sa.map Prod.fst = [] := pre_eq_nil hp
          refine ⟨tail, htail, ?_, hsa⟩
          rw [hc, hz', hm0]; simp [joinC]

end QtVerif.Parse
