import QtVerif.Proofs.Sessions
/-!
Run-level delivery lemmas for C11, part 1: the behaviour of ONE session.

`runS sid` is `run` restricted to the session with id `sid` (`none` = the session does not exist).
`Proofs/SessionsProj.lean` proves that the responses of `run` that answer requests of session `sid`
are exactly the responses of `runS sid`. Here: conservation (`runS_sublist`) and provenance
(`runS_provenance`) of what one session delivers.
-/
namespace QtVerif.Sessions

/-- the session with id `sid` (first match, as `dict.get`) -/
def find (sid : Nat) : List Sess → Option Sess
  | [] => none
  | s :: rest => if s.sid = sid then some s else find sid rest

/-- events pending in a session, oldest first (`[]` when the session does not exist) -/
def pend : Option Sess → List Ev
  | none => []
  | some s => s.queue.reverse

/-- all events of a list of responses, in response order -/
def evs (out : List Resp) : List Ev := out.flatMap (·.events)

def trigOf : Op → List Ev
  | .trigger e => [e]
  | _ => []

/-- the events triggered by a history, in trigger order -/
def trigs (ops : List Op) : List Ev := ops.flatMap trigOf

/-- `step` seen by the one session `sid` -/
def stepS (filt : Bool) (cap fac sid : Nat) (o : Option Sess) : Op → Option Sess × List Resp
  | .trigger e => (o.map (fun s => if s.level < e.req then s else push cap s e), [])
  | .listen sid' r lvl timeout now =>
    if sid' = sid then
      (some (listenSess filt (o.getD (newSess sid)) r lvl timeout now).1,
       (listenSess filt (o.getD (newSess sid)) r lvl timeout now).2)
    else (o, [])
  | .tick now =>
    match o with
    | none => (none, [])
    | some s => tickSess fac now s

def runS (filt : Bool) (cap fac sid : Nat) : Option Sess → List Op → Option Sess × List Resp
  | o, [] => (o, [])
  | o, op :: ops =>
    ((runS filt cap fac sid (stepS filt cap fac sid o op).1 ops).1,
     (stepS filt cap fac sid o op).2 ++ (runS filt cap fac sid (stepS filt cap fac sid o op).1 ops).2)

theorem evs_nil : evs [] = [] := rfl
theorem evs_append (a b : List Resp) : evs (a ++ b) = evs a ++ evs b := by simp [evs]
theorem evs_single (x : Resp) : evs [x] = x.events := by simp [evs]

theorem trigs_cons (op : Op) (ops : List Op) : trigs (op :: ops) = trigOf op ++ trigs ops := by
  simp [trigs]

theorem mem_trigs {e : Ev} {ops : List Op} : e ∈ trigs ops ↔ Op.trigger e ∈ ops := by
  induction ops with
  | nil => simp [trigs]
  | cons op ops ih =>
    rw [trigs_cons, List.mem_append, ih, List.mem_cons]
    cases op <;> simp [trigOf, eq_comm]

/-! ### one session: facts about `respond`, `listenSess`, `tickSess` -/

theorem respond_sid (s : Sess) : (respond s).1.sid = s.sid := by
  unfold respond; cases s.active <;> rfl

theorem respond_active (s : Sess) : (respond s).1.active = none := by
  unfold respond; cases s.active <;> rfl

theorem respond_queue (s : Sess) : (respond s).1.queue = [] := by
  unfold respond; cases s.active <;> rfl

theorem respond_out (s : Sess) : ∀ x ∈ (respond s).2, s.active = some x.req := by
  unfold respond
  cases h : s.active with
  | none => intro x hx; cases hx
  | some r => intro x hx; simp only [List.mem_singleton] at hx; subst hx; rfl

theorem respond_evs (s : Sess) : (evs (respond s).2).Sublist s.queue.reverse := by
  unfold respond
  cases h : s.active with
  | none => simp [evs]
  | some r => simp [evs]

theorem respond_conserve (s : Sess) :
    (evs (respond s).2 ++ (respond s).1.queue.reverse).Sublist s.queue.reverse := by
  rw [respond_queue]; simpa using respond_evs s

/-- shape of `listenSess`: an optional first answer, then rebinding with a sub-queue `q`, then an
immediate answer when `q` is not empty -/
theorem listenSess_shape (filt : Bool) (s : Sess) (r lvl timeout now : Nat) :
    ∃ (s1 : Sess) (out1 : List Resp) (q : List Ev),
      s1.sid = s.sid ∧ (∀ x ∈ out1, s.active = some x.req) ∧
      (evs out1 ++ s1.queue.reverse).Sublist s.queue.reverse ∧ q.Sublist s1.queue ∧
      listenSess filt s r lvl timeout now =
        (if q.isEmpty then
          (({ s1 with accessed := now, timeout := timeout, level := lvl, active := some r, queue := q } : Sess), out1)
         else
          ((respond ({ s1 with accessed := now, timeout := timeout, level := lvl, active := some r, queue := q } : Sess)).1,
           out1 ++ (respond ({ s1 with accessed := now, timeout := timeout, level := lvl, active := some r, queue := q } : Sess)).2)) := by
  refine ⟨(if s.active.isSome then respond s else (s, [])).1,
          (if s.active.isSome then respond s else (s, [])).2,
          (if filt then (if s.active.isSome then respond s else (s, [])).1.queue.filter (fun e => e.req ≤ lvl)
            else (if s.active.isSome then respond s else (s, [])).1.queue), ?_, ?_, ?_, ?_, ?_⟩
  · split
    · exact respond_sid s
    · rfl
  · split
    · exact respond_out s
    · intro x hx; cases hx
  · split
    · exact respond_conserve s
    · simp [evs]
  · split
    · exact List.filter_sublist
    · exact List.Sublist.refl _
  · rfl

theorem listenSess_sid (filt : Bool) (s : Sess) (r lvl timeout now : Nat) :
    (listenSess filt s r lvl timeout now).1.sid = s.sid := by
  obtain ⟨s1, out1, q, h1, _, _, _, he⟩ := listenSess_shape filt s r lvl timeout now
  rw [he]
  split
  · exact h1
  · rw [respond_sid]; exact h1

theorem listenSess_out (filt : Bool) (s : Sess) (r lvl timeout now : Nat) :
    ∀ x ∈ (listenSess filt s r lvl timeout now).2, s.active = some x.req ∨ x.req = r := by
  obtain ⟨s1, out1, q, _, h2, _, _, he⟩ := listenSess_shape filt s r lvl timeout now
  rw [he]
  split
  · intro x hx; exact Or.inl (h2 x hx)
  · intro x hx
    rcases List.mem_append.mp hx with h | h
    · exact Or.inl (h2 x h)
    · have := respond_out _ x h
      simp only [Option.some.injEq] at this
      exact Or.inr this.symm

theorem listenSess_active (filt : Bool) (s : Sess) (r lvl timeout now : Nat) :
    ∀ r', (listenSess filt s r lvl timeout now).1.active = some r' → r' = r := by
  obtain ⟨s1, out1, q, _, _, _, _, he⟩ := listenSess_shape filt s r lvl timeout now
  rw [he]
  split
  · intro r' h; simp only [Option.some.injEq] at h; exact h.symm
  · intro r' h; rw [respond_active] at h; cases h

theorem listenSess_conserve (filt : Bool) (s : Sess) (r lvl timeout now : Nat) :
    (evs (listenSess filt s r lvl timeout now).2 ++
      (listenSess filt s r lvl timeout now).1.queue.reverse).Sublist s.queue.reverse := by
  obtain ⟨s1, out1, q, _, _, h3, h4, he⟩ := listenSess_shape filt s r lvl timeout now
  rw [he]
  have hq : (evs out1 ++ q.reverse).Sublist (evs out1 ++ s1.queue.reverse) :=
    List.Sublist.append (List.Sublist.refl _) h4.reverse
  split
  · exact hq.trans h3
  · simp only [evs_append, List.append_assoc]
    refine (List.Sublist.append (List.Sublist.refl _) (respond_conserve _)).trans ?_
    exact hq.trans h3

theorem tickSess_sid (fac now : Nat) (s s' : Sess) (h : (tickSess fac now s).1 = some s') :
    s'.sid = s.sid ∧ ∀ r, s'.active = some r → s.active = some r := by
  unfold tickSess at h
  split at h
  · simp only [Option.some.injEq] at h; subst h
    exact ⟨respond_sid s, fun r hr => by rw [respond_active] at hr; cases hr⟩
  · split at h
    · simp only [Option.some.injEq] at h; subst h
      exact ⟨respond_sid s, fun r hr => by rw [respond_active] at hr; cases hr⟩
    · split at h
      · cases h
      · simp only [Option.some.injEq] at h; subst h
        exact ⟨rfl, fun r hr => hr⟩

theorem tickSess_out (fac now : Nat) (s : Sess) :
    ∀ x ∈ (tickSess fac now s).2, s.active = some x.req := by
  unfold tickSess
  split
  · exact respond_out s
  · split
    · exact respond_out s
    · split
      · intro x hx; cases hx
      · intro x hx; cases hx

theorem tickSess_conserve (fac now : Nat) (s : Sess) :
    (evs (tickSess fac now s).2 ++ pend (tickSess fac now s).1).Sublist s.queue.reverse := by
  unfold tickSess
  split
  · exact respond_conserve s
  · split
    · exact respond_conserve s
    · split
      · simp [evs, pend]
      · simp [evs, pend]

/-! ### conservation: delivered ++ still pending ⊑ was pending ++ triggered -/

theorem stepS_sublist (filt : Bool) (cap fac sid : Nat) (o : Option Sess) (op : Op) :
    (evs (stepS filt cap fac sid o op).2 ++ pend (stepS filt cap fac sid o op).1).Sublist
      (pend o ++ trigOf op) := by
  cases op with
  | trigger e =>
    cases o with
    | none => simp [stepS, evs, pend]
    | some s =>
      simp only [stepS, Option.map, evs_nil, List.nil_append, pend, trigOf]
      split
      · exact List.sublist_append_left _ _
      · rw [push_queue_reverse]; exact squashPush_sublist cap _ e
  | listen sid' r lvl timeout now =>
    simp only [stepS, trigOf, List.append_nil]
    split
    · refine (listenSess_conserve filt _ r lvl timeout now).trans ?_
      cases o with
      | none => simp [newSess, pend]
      | some s => simp [pend]
    · simp [evs]
  | tick now =>
    cases o with
    | none => simp [stepS, evs, pend, trigOf]
    | some s => simpa [stepS, trigOf, pend] using tickSess_conserve fac now s

/-- **Conservation for one session.** What the session delivers over the whole history, followed by
what is still pending at the end, is a sub-list (order kept, no repetition) of what was pending at the
start followed by the triggered events in trigger order. -/
theorem runS_sublist (filt : Bool) (cap fac sid : Nat) (ops : List Op) (o : Option Sess) :
    (evs (runS filt cap fac sid o ops).2 ++ pend (runS filt cap fac sid o ops).1).Sublist
      (pend o ++ trigs ops) := by
  induction ops generalizing o with
  | nil => simp [runS, evs, trigs]
  | cons op ops ih =>
    simp only [runS, evs_append, trigs_cons]
    have h1 := stepS_sublist filt cap fac sid o op
    have h2 := ih (stepS filt cap fac sid o op).1
    have h3 : (evs (stepS filt cap fac sid o op).2 ++
        (evs (runS filt cap fac sid (stepS filt cap fac sid o op).1 ops).2 ++
          pend (runS filt cap fac sid (stepS filt cap fac sid o op).1 ops).1)).Sublist
        (evs (stepS filt cap fac sid o op).2 ++ (pend (stepS filt cap fac sid o op).1 ++ trigs ops)) :=
      List.Sublist.append (List.Sublist.refl _) h2
    have h4 : (evs (stepS filt cap fac sid o op).2 ++ (pend (stepS filt cap fac sid o op).1 ++ trigs ops)).Sublist
        ((pend o ++ trigOf op) ++ trigs ops) := by
      rw [← List.append_assoc]
      exact List.Sublist.append h1 (List.Sublist.refl _)
    simpa [List.append_assoc] using h3.trans h4

/-! ### provenance: every delivered / pending event was triggered while the session existed at a
sufficient level -/

theorem stepS_mem (filt : Bool) (cap fac sid : Nat) (o : Option Sess) (op : Op) (x : Ev)
    (hx : x ∈ evs (stepS filt cap fac sid o op).2 ++ pend (stepS filt cap fac sid o op).1) :
    x ∈ pend o ∨ (op = .trigger x ∧ ∃ s, o = some s ∧ x.req ≤ s.level) := by
  cases op with
  | trigger e =>
    cases o with
    | none => simp [stepS, evs, pend] at hx
    | some s =>
      simp only [stepS, Option.map, evs_nil, List.nil_append, pend] at hx
      by_cases hl : s.level < e.req
      · simp only [hl, if_true] at hx; exact Or.inl hx
      · simp only [hl, if_false] at hx
        rw [push_queue_reverse] at hx
        have := (squashPush_sublist cap _ e).subset hx
        rcases List.mem_append.mp this with h | h
        · exact Or.inl h
        · simp only [List.mem_singleton] at h
          subst h
          exact Or.inr ⟨rfl, s, rfl, by omega⟩
  | listen sid' r lvl timeout now =>
    have := (stepS_sublist filt cap fac sid o (.listen sid' r lvl timeout now)).subset hx
    simp only [trigOf, List.append_nil] at this
    exact Or.inl this
  | tick now =>
    have := (stepS_sublist filt cap fac sid o (.tick now)).subset hx
    simp only [trigOf, List.append_nil] at this
    exact Or.inl this

theorem runS_append (filt : Bool) (cap fac sid : Nat) (a b : List Op) (o : Option Sess) :
    (runS filt cap fac sid o (a ++ b)).1 = (runS filt cap fac sid (runS filt cap fac sid o a).1 b).1 := by
  induction a generalizing o with
  | nil => rfl
  | cons op a ih => simp only [List.cons_append, runS]; exact ih _

/-- `x` was triggered in `all` at a moment when session `sid` existed with a level permitting it -/
def QueuedPermitted (filt : Bool) (cap fac sid : Nat) (all : List Op) (x : Ev) : Prop :=
  ∃ pre post s, all = pre ++ Op.trigger x :: post ∧
    (runS filt cap fac sid none pre).1 = some s ∧ x.req ≤ s.level

theorem runS_provenance_aux (filt : Bool) (cap fac sid : Nat) (all : List Op) :
    ∀ (rest pre : List Op), all = pre ++ rest →
      (∀ x ∈ pend (runS filt cap fac sid none pre).1, QueuedPermitted filt cap fac sid all x) →
      ∀ x ∈ evs (runS filt cap fac sid (runS filt cap fac sid none pre).1 rest).2 ++
              pend (runS filt cap fac sid (runS filt cap fac sid none pre).1 rest).1,
        QueuedPermitted filt cap fac sid all x := by
  intro rest
  induction rest with
  | nil => intro pre _ h x hx; simpa [runS, evs] using h x (by simpa [runS, evs] using hx)
  | cons op rest ih =>
    intro pre hall h x hx
    have hall' : all = (pre ++ [op]) ++ rest := by simp [hall]
    have hst : (runS filt cap fac sid none (pre ++ [op])).1 =
        (stepS filt cap fac sid (runS filt cap fac sid none pre).1 op).1 := by
      rw [runS_append]; rfl
    have hnext : ∀ y ∈ pend (runS filt cap fac sid none (pre ++ [op])).1,
        QueuedPermitted filt cap fac sid all y := by
      intro y hy
      rw [hst] at hy
      rcases stepS_mem filt cap fac sid _ op y (List.mem_append_right _ hy) with h1 | ⟨h1, s, h2, h3⟩
      · exact h y h1
      · subst h1; exact ⟨pre, rest, s, hall, h2, h3⟩
    simp only [runS, evs_append, List.append_assoc] at hx
    rcases List.mem_append.mp hx with hx | hx
    · rcases stepS_mem filt cap fac sid _ op x (List.mem_append_left _ hx) with h1 | ⟨h1, s, h2, h3⟩
      · exact h x h1
      · subst h1; exact ⟨pre, rest, s, hall, h2, h3⟩
    · have := ih (pre ++ [op]) hall' hnext x
      rw [hst] at this
      exact this hx

/-- **Provenance for one session.** Every event delivered by (or still pending in) the session was
triggered in the history at a moment when the session existed and its level permitted the event. -/
theorem runS_provenance (filt : Bool) (cap fac sid : Nat) (ops : List Op) :
    ∀ x ∈ evs (runS filt cap fac sid none ops).2 ++ pend (runS filt cap fac sid none ops).1,
      QueuedPermitted filt cap fac sid ops x := by
  have := runS_provenance_aux filt cap fac sid ops ops [] rfl
    (by intro x hx; simp [runS, pend] at hx)
  simpa [runS] using this

end QtVerif.Sessions
