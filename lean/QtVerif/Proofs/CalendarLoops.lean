import QtVerif.Proofs.Calendar
/-!
C17: the hand-written loops of date.py equal closed-form calendar arithmetic, and the calendar units (day, week
with first weekday `s`, month, year) partition the day numbers.

  * `weekLoop n` (BOW's loop over month lengths) adds `7 * n` days, for every `n : ℤ` and every valid start date;
  * `monthLoop n` (BOM's loop) adds `n` months;
  * `Period.idx` / `Period.first`: the unit containing a day and the first day of a unit, with
    `first (idx z) ≤ z < first (idx z + 1)`, `first` strictly increasing.
-/
namespace QtVerif.Calendar

theorem iter_succ_apply {α : Type} (f : α → α) (k : Nat) (x : α) : iter f (k + 1) x = f (iter f k x) := by
  induction k generalizing x with
  | zero => rfl
  | succ k ih => simp only [iter] at ih ⊢; rw [ih]

/-- Invariant-style induction over `iter`. -/
theorem iter_invariant {α : Type} (f : α → α) (Inv : Nat → α → Prop) (x : α) (h0 : Inv 0 x)
    (hs : ∀ k y, Inv k y → Inv (k + 1) (f y)) : ∀ k, Inv k (iter f k x) := by
  intro k
  induction k with
  | zero => exact h0
  | succ k ih => rw [iter_succ_apply]; exact hs k _ ih

/-! ### BOW's week loop -/

theorem daysFromCivil_next_month (y m d : Int) (h1 : 1 ≤ m) (h2 : m ≤ 11) :
    daysFromCivil ⟨y, m + 1, d⟩ = daysFromCivil ⟨y, m, d⟩ + monthLen y m := by
  simp only [daysFromCivil, dbm_succ y m h1 h2]; omega

theorem daysFromCivil_next_year (y d : Int) :
    daysFromCivil ⟨y + 1, 1, d⟩ = daysFromCivil ⟨y, 12, d⟩ + monthLen y 12 := by
  have := dbm_last y
  simp only [daysFromCivil, dby_succ, dbm_one]; omega

/-- One pass of the forward loop: a valid date again, exactly 7 days later. -/
theorem weekFwd_spec (c : Date) (h : c.Valid) :
    (weekFwd c).Valid ∧ daysFromCivil (weekFwd c) = daysFromCivil c + 7 := by
  obtain ⟨y, m, d⟩ := c
  simp only [Date.Valid] at h
  have hb := monthLen_bounds y m
  unfold weekFwd
  simp only
  split
  · refine ⟨?_, ?_⟩
    · simp only [Date.Valid]; omega
    · simp only [daysFromCivil]; omega
  · split
    · have hb' := monthLen_bounds y (m + 1)
      refine ⟨?_, ?_⟩
      · simp only [Date.Valid]; omega
      · rw [daysFromCivil_next_month y m _ h.1 (by omega)]; simp only [daysFromCivil]; omega
    · have hm : m = 12 := by omega
      subst hm
      have hb' := monthLen_bounds (y + 1) 1
      refine ⟨?_, ?_⟩
      · simp only [Date.Valid]; omega
      · rw [daysFromCivil_next_year]; simp only [daysFromCivil]; omega

/-- One pass of the backward loop: a valid date again, exactly 7 days earlier. -/
theorem weekBwd_spec (c : Date) (h : c.Valid) :
    (weekBwd c).Valid ∧ daysFromCivil (weekBwd c) = daysFromCivil c - 7 := by
  obtain ⟨y, m, d⟩ := c
  simp only [Date.Valid] at h
  unfold weekBwd
  simp only
  split
  · refine ⟨?_, ?_⟩
    · simp only [Date.Valid]; omega
    · simp only [daysFromCivil]; omega
  · split
    · have hb' := monthLen_bounds y (m - 1)
      have e := daysFromCivil_next_month y (m - 1) d (by omega) (by omega)
      have e' : m - 1 + 1 = m := by omega
      rw [e'] at e
      refine ⟨?_, ?_⟩
      · simp only [Date.Valid]; omega
      · simp only [daysFromCivil] at e ⊢; omega
    · have hm : m = 1 := by omega
      subst hm
      have hb' := monthLen_bounds (y - 1) 12
      have e := daysFromCivil_next_year (y - 1) d
      have e' : y - 1 + 1 = y := by omega
      rw [e'] at e
      refine ⟨?_, ?_⟩
      · simp only [Date.Valid]; omega
      · simp only [daysFromCivil] at e ⊢; omega

/-- **BOW's week loop equals "add 7·n days"**, for every integer `n` (the loop runs forward for `n ≥ 0`,
backward for `n < 0`) and every valid start date; the result is a valid date. -/
theorem weekLoop_spec (n : Int) (c : Date) (h : c.Valid) :
    (weekLoop n c).Valid ∧ daysFromCivil (weekLoop n c) = daysFromCivil c + 7 * n := by
  unfold weekLoop
  split
  · have := iter_invariant weekFwd (fun k x => x.Valid ∧ daysFromCivil x = daysFromCivil c + 7 * (k : Int)) c
      ⟨h, by simp⟩ (fun k y hy => by
        have := weekFwd_spec y hy.1
        exact ⟨this.1, by omega⟩) n.toNat
    refine ⟨this.1, ?_⟩
    have e : ((n.toNat : Nat) : Int) = n := by omega
    rw [this.2, e]
  · have := iter_invariant weekBwd (fun k x => x.Valid ∧ daysFromCivil x = daysFromCivil c - 7 * (k : Int)) c
      ⟨h, by simp⟩ (fun k y hy => by
        have := weekBwd_spec y hy.1
        exact ⟨this.1, by omega⟩) (-n).toNat
    refine ⟨this.1, ?_⟩
    have e : (((-n).toNat : Nat) : Int) = -n := by omega
    rw [this.2, e]; omega

/-- The week loop in closed form. -/
theorem weekLoop_eq (n : Int) (c : Date) (h : c.Valid) :
    weekLoop n c = civilFromDays (daysFromCivil c + 7 * n) := by
  have := weekLoop_spec n c h
  exact ((civilFromDays_eq_iff this.1).2 this.2).symm

/-! ### BOM's month loop -/

/-- Serial number of a month. -/
def monthIdx (ym : Int × Int) : Int := 12 * ym.1 + (ym.2 - 1)

theorem monthFwd_spec (ym : Int × Int) (h : 1 ≤ ym.2 ∧ ym.2 ≤ 12) :
    (1 ≤ (monthFwd ym).2 ∧ (monthFwd ym).2 ≤ 12) ∧ monthIdx (monthFwd ym) = monthIdx ym + 1 := by
  unfold monthFwd monthIdx; split <;> simp only <;> omega

theorem monthBwd_spec (ym : Int × Int) (h : 1 ≤ ym.2 ∧ ym.2 ≤ 12) :
    (1 ≤ (monthBwd ym).2 ∧ (monthBwd ym).2 ≤ 12) ∧ monthIdx (monthBwd ym) = monthIdx ym - 1 := by
  unfold monthBwd monthIdx; split <;> simp only <;> omega

/-- **BOM's month loop equals "add n months"**, for every integer `n`. -/
theorem monthLoop_spec (n : Int) (ym : Int × Int) (h : 1 ≤ ym.2 ∧ ym.2 ≤ 12) :
    (1 ≤ (monthLoop n ym).2 ∧ (monthLoop n ym).2 ≤ 12) ∧ monthIdx (monthLoop n ym) = monthIdx ym + n := by
  unfold monthLoop
  split
  · have := iter_invariant monthFwd (fun k x => (1 ≤ x.2 ∧ x.2 ≤ 12) ∧ monthIdx x = monthIdx ym + (k : Int)) ym
      ⟨h, by simp⟩ (fun k y hy => by
        have := monthFwd_spec y hy.1
        exact ⟨this.1, by omega⟩) n.toNat
    refine ⟨this.1, ?_⟩
    have e : ((n.toNat : Nat) : Int) = n := by omega
    rw [this.2, e]
  · have := iter_invariant monthBwd (fun k x => (1 ≤ x.2 ∧ x.2 ≤ 12) ∧ monthIdx x = monthIdx ym - (k : Int)) ym
      ⟨h, by simp⟩ (fun k y hy => by
        have := monthBwd_spec y hy.1
        exact ⟨this.1, by omega⟩) (-n).toNat
    refine ⟨this.1, ?_⟩
    have e : (((-n).toNat : Nat) : Int) = -n := by omega
    rw [this.2, e]; omega

/-- The month loop in closed form: year and month of the serial number `12·y + (m−1) + n`. -/
theorem monthLoop_eq (n : Int) (y m : Int) (h : 1 ≤ m ∧ m ≤ 12) :
    monthLoop n (y, m) = ((12 * y + (m - 1) + n) / 12, (12 * y + (m - 1) + n) % 12 + 1) := by
  have := monthLoop_spec n (y, m) h
  simp only [monthIdx] at this
  refine Prod.ext ?_ ?_ <;> simp only <;> omega

/-! ### calendar units -/

/-- The calendar units of BOD, BOW (with first weekday `s`), BOM, BOY. -/
inductive Period
  | day
  | week (s : Int)
  | month
  | year

/-- Serial number of the unit that contains day number `z`. -/
def Period.idx : Period → Int → Int
  | .day, z => z
  | .week s, z => (z + 3 - s) / 7
  | .month, z => 12 * (civilFromDays z).y + ((civilFromDays z).m - 1)
  | .year, z => (civilFromDays z).y

/-- Day number of the first day of unit `k`. -/
def Period.first : Period → Int → Int
  | .day, k => k
  | .week s, k => 7 * k + s - 3
  | .month, k => daysFromCivil ⟨k / 12, k % 12 + 1, 1⟩
  | .year, k => daysFromCivil ⟨k, 1, 1⟩

theorem monthStart_succ (k : Int) :
    Period.first .month (k + 1) = Period.first .month k + monthLen (k / 12) (k % 12 + 1) := by
  simp only [Period.first]
  by_cases h : k % 12 = 11
  · have e1 : (k + 1) / 12 = k / 12 + 1 := by omega
    have e2 : (k + 1) % 12 + 1 = 1 := by omega
    have e3 : k % 12 + 1 = 12 := by omega
    rw [e1, e2, e3, daysFromCivil_next_year]
  · have e1 : (k + 1) / 12 = k / 12 := by omega
    have e2 : (k + 1) % 12 + 1 = (k % 12 + 1) + 1 := by omega
    rw [e1, e2, daysFromCivil_next_month _ _ _ (by omega) (by omega)]

theorem yearStart_succ (k : Int) : Period.first .year (k + 1) = Period.first .year k + yearLen k := by
  simp only [Period.first, daysFromCivil, dby_succ, dbm_one]; omega

/-- Every unit has at least one day. -/
theorem Period.first_lt_succ (p : Period) (k : Int) : p.first k < p.first (k + 1) := by
  cases p with
  | day => simp only [Period.first]; omega
  | week s => simp only [Period.first]; omega
  | month => rw [monthStart_succ]; have := monthLen_bounds (k / 12) (k % 12 + 1); omega
  | year => rw [yearStart_succ]; have := yearLen_pos k; omega

theorem Period.first_mono_nat (p : Period) (k : Int) (j : Nat) : p.first k ≤ p.first (k + j) := by
  induction j with
  | zero => simp
  | succ j ih =>
    have := p.first_lt_succ (k + j)
    have e : k + ((j + 1 : Nat) : Int) = k + j + 1 := by omega
    rw [e]; omega

theorem Period.first_mono (p : Period) {k k' : Int} (h : k ≤ k') : p.first k ≤ p.first k' := by
  have := p.first_mono_nat k (k' - k).toNat
  have e : k + ((k' - k).toNat : Int) = k' := by omega
  rwa [e] at this

/-- `first` is strictly increasing: later units start later. -/
theorem Period.first_strictMono (p : Period) {k k' : Int} (h : k < k') : p.first k < p.first k' := by
  have := p.first_mono (show k + 1 ≤ k' by omega)
  have := p.first_lt_succ k
  omega

/-- Every day lies in the unit `idx` assigns to it. -/
theorem Period.idx_spec (p : Period) (z : Int) : p.first (p.idx z) ≤ z ∧ z < p.first (p.idx z + 1) := by
  cases p with
  | day => simp only [Period.first, Period.idx]; omega
  | week s => simp only [Period.first, Period.idx]; omega
  | month =>
    have hv := civilFromDays_valid z
    have hz := daysFromCivil_civilFromDays z
    rw [monthStart_succ]
    simp only [Period.first, Period.idx]
    generalize civilFromDays z = c at hv hz ⊢
    obtain ⟨y, m, d⟩ := c
    simp only [Date.Valid] at hv
    have e1 : (12 * y + (m - 1)) / 12 = y := by omega
    have e2 : (12 * y + (m - 1)) % 12 + 1 = m := by omega
    rw [e1, e2]
    simp only [daysFromCivil] at hz ⊢
    omega
  | year =>
    have := yearOf_spec (z + epochOrd)
    simp only [Period.first, Period.idx, civilFromDays, daysFromCivil, dbm_one]
    omega

/-- … and in no other. -/
theorem Period.idx_unique (p : Period) {z k : Int} (h1 : p.first k ≤ z) (h2 : z < p.first (k + 1)) :
    p.idx z = k := by
  have hs := p.idx_spec z
  rcases Int.lt_trichotomy (p.idx z) k with h | h | h
  · have := p.first_mono (show p.idx z + 1 ≤ k by omega); omega
  · exact h
  · have := p.first_mono (show k + 1 ≤ p.idx z by omega); omega

/-- A day lies in unit `k` iff it is between the first days of units `k` and `k + 1`. -/
theorem Period.idx_eq_iff (p : Period) (z k : Int) : p.idx z = k ↔ p.first k ≤ z ∧ z < p.first (k + 1) :=
  ⟨fun h => h ▸ p.idx_spec z, fun h => p.idx_unique h.1 h.2⟩

/-- Weeks start on the requested weekday. -/
theorem week_first_weekday (s k : Int) (h0 : 0 ≤ s) (h6 : s ≤ 6) : weekday (Period.first (.week s) k) = s := by
  simp only [Period.first, weekday]; omega

/-- Months start on day 1, years on January 1st. -/
theorem month_first_civil (k : Int) : civilFromDays (Period.first .month k) = ⟨k / 12, k % 12 + 1, 1⟩ := by
  apply civilFromDays_daysFromCivil
  have := monthLen_bounds (k / 12) (k % 12 + 1)
  simp only [Date.Valid]; omega

theorem year_first_civil (k : Int) : civilFromDays (Period.first .year k) = ⟨k, 1, 1⟩ := by
  apply civilFromDays_daysFromCivil
  have := monthLen_bounds k 1
  simp only [Date.Valid]; omega

/-- The repaired first-weekday shift leads to the first day of the week containing `z`. -/
theorem bowShift_fixed (z s : Int) (h0 : 0 ≤ s) (h6 : s ≤ 6) :
    z - bowShift true (weekday z) s = Period.first (.week s) (Period.idx (.week s) z) := by
  simp only [bowShift, Period.first, Period.idx, weekday, if_true]
  split <;> omega

end QtVerif.Calendar
