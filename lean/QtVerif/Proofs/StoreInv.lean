import QtVerif.Proofs.StoreRedis
/-!
Helper lemmas for C06, part 5: invariants of the reference store for any naming of generated ids, and the
re-opening of the JSON file.
-/
namespace QtVerif.Store

/-! ### invariants of the reference store itself, for any naming of generated ids -/

/-- ids are unique within a collection, and every record holds its own id -/
def RefCollOK (c : Coll) : Prop := c.ids.Nodup ∧ ∀ d ∈ c, dget kId d = some (.str (recId d))

def RefOK (s : RefState) : Prop := ∀ coll, RefCollOK (aget [] coll s)

theorem RefOK.aset {s : RefState} (h : RefOK s) (coll : Str) (c : Coll) (hc : RefCollOK c) : RefOK (aset coll c s) := by
  intro k
  rw [aget_aset]
  by_cases e : k = coll
  · simp [e, hc]
  · simp [e, h k]

theorem RefCollOK.append {c : Coll} (h : RefCollOK c) (d : Fields) (i : Str) (hd : dget kId d = some (.str i))
    (hi : i ∉ c.ids) : RefCollOK (c ++ [d]) := by
  have hr : recId d = i := recId_of d i hd
  constructor
  · simp only [Coll.ids, List.map_append, List.map_cons, List.map_nil, hr]
    rw [List.nodup_append]
    refine ⟨h.1, by simp, ?_⟩
    intro a ha b hb
    simp only [List.mem_singleton] at hb
    subst hb
    intro e; subst e; exact hi ha
  · intro d' hd'
    rcases List.mem_append.mp hd' with e | e
    · exact h.2 d' e
    · simp only [List.mem_singleton] at e; subst e; rw [hr]; exact hd

theorem updRecs_ok (part : Fields) (hp : dget kId part = none) (c : Coll) (bs : List Bool) (h : RefCollOK c) :
    RefCollOK (Ref.updRecs part c bs) := by
  have key : ∀ (c : Coll) (bs : List Bool), (∀ d ∈ c, dget kId d = some (.str (recId d))) →
      (Ref.updRecs part c bs).map recId = c.map recId ∧ ∀ d ∈ Ref.updRecs part c bs, dget kId d = some (.str (recId d)) := by
    intro c
    induction c with
    | nil => intro bs _; cases bs <;> simp [Ref.updRecs]
    | cons d t ih =>
      intro bs hc
      cases bs with
      | nil => exact ⟨rfl, hc⟩
      | cons b bs' =>
        obtain ⟨h1, h2⟩ := ih bs' (fun x hx => hc x (by simp [hx]))
        have hd := hc d (by simp)
        have hup : dget kId (dupdate d part) = some (.str (recId d)) := by rw [dget_dupdate_of_none kId d part hp]; exact hd
        have hrid : recId (dupdate d part) = recId d := recId_of _ _ hup
        simp only [Ref.updRecs]
        constructor
        · cases b <;> simp [h1, hrid]
        · intro d' hd'
          rcases List.mem_cons.mp hd' with e | e
          · rw [e]; cases b
            · exact hd
            · simp only [if_true]; rw [hrid]; exact hup
          · exact h2 d' e
  obtain ⟨h1, h2⟩ := key c bs h.2
  exact ⟨by show (List.map recId _).Nodup; rw [h1]; exact h.1, h2⟩

theorem replaceRec_ok (i : Str) (dnew : Fields) (hd : dget kId dnew = some (.str i)) (c : Coll) (h : RefCollOK c) :
    RefCollOK (Ref.replaceRec i dnew c) := by
  have hr : recId dnew = i := recId_of dnew i hd
  refine ⟨by rw [replaceRec_ids i dnew c hr]; exact h.1, ?_⟩
  intro d' hd'
  rcases mem_replaceRec i dnew c h.1 d' hd' with e | e
  · rw [e, hr]; exact hd
  · exact h.2 d' e.1

/-- every operation of the reference store, with any name offered for a generated id, keeps ids unique -/
theorem ref_step_ok (s : RefState) (name : Str) (op : Op) (h : RefOK s) : RefOK (Ref.step s name op).1 := by
  cases op with
  | insert coll rec =>
    simp only [Ref.step]
    have hc := h coll
    split
    · split
      · exact h
      · rename_i hn
        exact h.aset coll _ (hc.append _ name (dget_dset_self _ _ _) (contains_false_iff.mp (by simpa using hn)))
    · split
      · exact h
      · rename_i hn
        exact h.aset coll _ (hc.append _ name (dget_dset_self _ _ _) (contains_false_iff.mp (by simpa using hn)))
    · rename_i i hid
      split
      · exact h
      · rename_i hn
        exact h.aset coll _ (hc.append _ i hid (contains_false_iff.mp (by simpa using hn)))
    · exact h
  | update coll part filt =>
    simp only [Ref.step]
    split
    · exact h
    · rename_i hp
      have hp' : dget kId part = none := by
        cases hx : dget kId part with
        | none => rfl
        | some v => rw [hx] at hp; simp at hp
      split
      · exact h
      · split
        · exact h
        · exact h.aset coll _ (updRecs_ok part hp' _ _ (h coll))
  | replace coll id rec =>
    simp only [Ref.step]
    split
    · exact h.aset coll _ (replaceRec_ok id _ (dget_dset_self _ _ _) _ (h coll))
    · exact h
  | remove coll filt =>
    simp only [Ref.step]
    split
    · exact h
    · split
      · exact h
      · refine h.aset coll _ ⟨(h coll).1.sublist ((selectBy_sublist _ _).map recId), ?_⟩
        intro d hd
        exact (h coll).2 d ((selectBy_sublist _ _).subset hd)
  | query coll fields filt sort limit =>
    simp only [Ref.step]
    repeat' split
    all_goals exact h
  | reload => exact h

/-- any history of the reference store: operations paired with the names offered for generated ids -/
def runRef : RefState → List (Op × Str) → RefState
  | s, [] => s
  | s, (op, name) :: t => runRef (Ref.step s name op).1 t

theorem runRef_ok (hist : List (Op × Str)) (s : RefState) (h : RefOK s) : RefOK (runRef s hist) := by
  induction hist generalizing s with
  | nil => exact h
  | cons a t ih =>
    obtain ⟨op, name⟩ := a
    exact ih _ (ref_step_ok s name op h)

theorem RefOK.init : RefOK [] := by
  intro coll
  exact ⟨by simp [aget, Coll.ids], by simp [aget]⟩



/-! ### re-opening the JSON file -/

theorem aset_eq_dset {β : Type} (k : Str) (v : β) (s : List (Str × β)) : aset k v s = dset k v s := by
  induction s with
  | nil => rfl
  | cons a t ih =>
    obtain ⟨k', v'⟩ := a
    simp only [aset, dset, ih]

/-- every collection of the file satisfies the driver's invariant and holds well-formed records -/
def FileWF (ft : FloatText) (js : JState) : Prop :=
  ∀ p ∈ js, JCollOK p.2 ∧ ∀ q ∈ p.2, WF ft (.obj q.2)

theorem reloadRec_wf (ft : FloatText) (law : FtLaw ft) (k : Str) (d : Fields) (hk : dget kId d = some (.str k))
    (hw : WF ft (.obj d)) : Json.reloadRec ft d = some (k, d) := by
  unfold Json.reloadRec
  rw [loads_printVal ft law (.obj d) hw]
  simp [hk]

theorem reloadColl_wf (ft : FloatText) (law : FtLaw ft) :
    ∀ (jc acc : JColl), (dkeys (acc ++ jc)).Nodup → (∀ q ∈ jc, dget kId q.2 = some (.str q.1) ∧ WF ft (.obj q.2)) →
      Json.reloadColl ft acc jc = some (acc ++ jc) := by
  intro jc
  induction jc with
  | nil => intro acc _ _; simp [Json.reloadColl]
  | cons a t ih =>
    obtain ⟨k, d⟩ := a
    intro acc hnd hq
    have hk := (hq (k, d) (by simp)).1
    have hw := (hq (k, d) (by simp)).2
    have hkacc : k ∉ dkeys acc := by
      simp only [dkeys, List.map_append, List.map_cons] at hnd
      rw [List.nodup_append] at hnd
      intro hm
      exact hnd.2.2 k hm k (by simp) rfl
    simp only [Json.reloadColl, reloadRec_wf ft law k d hk hw]
    rw [aset_eq_dset, dset_of_not_mem k d acc hkacc, ih (acc ++ [(k, d)]) (by simpa using hnd)
      (fun q hq' => hq q (by simp [hq']))]
    simp

/-- **Re-opening the file changes nothing**: writing every record with `json.dumps` (tagged dates) and reading it
back with `json.loads` + the hook gives the same collections, records and order. -/
theorem reload_identity (fx : Fix) (ft : FloatText) (law : FtLaw ft) (js : JState) (h : FileWF ft js) :
    Json.step fx ft js .reload = (js, .unit) := by
  have key : Json.reloadAll ft js = some js := by
    induction js with
    | nil => rfl
    | cons p t ih =>
      obtain ⟨c, jc⟩ := p
      have hp := h (c, jc) (by simp)
      have := reloadColl_wf ft law jc [] (by simpa using hp.1.1) (fun q hq => ⟨hp.1.2 q hq, hp.2 q hq⟩)
      simp only [Json.reloadAll, this, List.nil_append, ih (fun q hq => h q (by simp [hq]))]
  simp only [Json.step, key]

end QtVerif.Store
