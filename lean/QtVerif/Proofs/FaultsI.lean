import QtVerif.Model.Faults
import QtVerif.Proofs.FaultsH
/-! Stability: healthy drivers are registers whose reads always succeed.  Characterisation of a polling pass over
such ports on the "effect view" of a state (everything but read/heart-beat counters and observations). -/
namespace QtVerif.Faults

/-- events, driver writes and write results — as opposed to polling activity (reads, heart beats) -/
def Obs.isEffect : Obs → Bool
  | .event .. => true
  | .write .. => true
  | .wres .. => true
  | _ => false

/-- forget how often the port was polled -/
def strip (q : Port) : Port := { q with nrd := 0, nhb := 0 }

/-- The effect view of a state: ports without their polling counters (values, registers, queues, write counter),
the ordered trace of events / driver writes / write results, the forced-evaluation flag. -/
structure AState where
  ports : List Port
  out : List Obs
  full : Bool
  deriving DecidableEq, Repr

def abs (s : State) : AState := ⟨s.ports.map strip, s.trace.filter Obs.isEffect, s.fullEval⟩

/-- **Stability hypothesis** on the healthy ports: every read succeeds and returns the driver's register (so between
two world changes — `setSrc`, a driver write — every pass reads the same value), heart beats and handlers on their
events raise errors at most. -/
def Stable (E : Env) (H : PortId → Bool) : Prop :=
  ∀ p, H p = true → (∀ n, E.rd p n = .ok) ∧ (∀ n, E.hb p n ≠ .escape) ∧ (∀ j now o n, E.hd j p now o n ≠ .escape)

/-- what a successful poll makes of a port -/
def adoptReg (q : Port) : Port := if q.enabled then { q with last := q.reg } else q

/-- the change a successful poll detects on a port -/
def chg1 (q : Port) : List (PortId × Val × Val) :=
  if q.enabled && (q.reg != q.last) then [(q.id, q.last, q.reg)] else []

theorem errContains_nil (r now : Nat) (p : PortId) : errContains r now [] p = (false, []) := rfl

theorem pollPort_stable (P : Params) (E : Env) (now : Nat) (sec : Bool) (a : Acc) (p : Port)
    (hrd : ∀ n, E.rd p.id n = .ok) (hhb : ∀ n, E.hb p.id n ≠ .escape) (he : a.errs = []) (ha : a.aborted = false) :
    (pollPort P E now sec a p).1.errs = [] ∧ (pollPort P E now sec a p).1.aborted = false ∧
    (pollPort P E now sec a p).1.trace.filter Obs.isEffect = a.trace.filter Obs.isEffect ∧
    (pollPort P E now sec a p).1.changed = a.changed ++ chg1 p ∧
    strip (pollPort P E now sec a p).2 = adoptReg (strip p) := by
  unfold pollPort
  by_cases hen : p.enabled = true
  · have hbf : (E.hb p.id p.nhb == XOut.escape) = false := by
      cases h : E.hb p.id p.nhb <;> simp_all
    simp only [ha, hen, Bool.not_true, Bool.or_self, Bool.false_eq_true, if_false]
    cases sec
    · simp only [hbStep, Bool.false_eq_true, if_false, ha]
      unfold readStep
      simp only [he, errContains_nil, Bool.false_eq_true, if_false, hrd]
      unfold adopt
      by_cases hc : (p.reg != p.last) = true
      · simp [hc, chg1, hen, strip, adoptReg, Obs.isEffect, ha]
      · have : p.reg = p.last := by simpa using hc
        simp [chg1, hen, strip, adoptReg, Obs.isEffect, ha, this]
    · simp only [hbStep, if_true, hbf, Bool.false_eq_true, if_false]
      unfold readStep
      simp only [he, errContains_nil, Bool.false_eq_true, if_false, hrd]
      unfold adopt
      by_cases hc : (p.reg != p.last) = true
      · simp [hc, chg1, hen, strip, adoptReg, Obs.isEffect]
      · have : p.reg = p.last := by simpa using hc
        simp [chg1, hen, strip, adoptReg, Obs.isEffect, this]
  · have hen' : p.enabled = false := by simpa using hen
    simp [hen', chg1, adoptReg, strip, he, ha]

theorem pollAll_stable (P : Params) (E : Env) (H : PortId → Bool) (hst : Stable E H) (now : Nat) (sec : Bool) :
    ∀ (ps : List Port) (a : Acc), AllIn H ps → a.errs = [] → a.aborted = false →
    (pollAll P E now sec a ps).1.errs = [] ∧ (pollAll P E now sec a ps).1.aborted = false ∧
    (pollAll P E now sec a ps).1.trace.filter Obs.isEffect = a.trace.filter Obs.isEffect ∧
    (pollAll P E now sec a ps).1.changed = a.changed ++ ps.flatMap chg1 ∧
    (pollAll P E now sec a ps).2.map strip = ps.map (fun q => adoptReg (strip q)) := by
  intro ps
  induction ps with
  | nil => intro a _ he ha; simp [pollAll, he, ha]
  | cons p ps ih =>
    intro a hall he ha
    obtain ⟨h1, h2, _⟩ := hst p.id (hall p (by simp))
    obtain ⟨e1, e2, e3, e4, e5⟩ := pollPort_stable P E now sec a p h1 h2 he ha
    obtain ⟨f1, f2, f3, f4, f5⟩ := ih (pollPort P E now sec a p).1 (fun q hq => hall q (by simp [hq])) e1 e2
    simp only [pollAll]
    refine ⟨f1, f2, by rw [f3, e3], by rw [f4, e4]; simp [List.append_assoc], ?_⟩
    simp only [List.map_cons, f5, e5]
end QtVerif.Faults
