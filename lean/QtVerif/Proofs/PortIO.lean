/-
Invariants of the per-port I/O transition system (Model/PortIO.lean) and the facts derived from them.
`CtlInv` — control state: driver calls in flight vs flags, lock discipline.
`QInv`   — data: tickets, queue bound and order, FIFO refinement, resolution bookkeeping, drop records.
Core Lean only.
-/
import QtVerif.Model.PortIO
namespace QtVerif.PortIO


/-- Control-state invariant: counters of driver calls in flight vs flags, lock discipline. -/
structure CtlInv (c : Cfg) (s : State) : Prop where
  rOne   : c.readGuard = true → s.rIn = if s.reading then 1 else 0
  wCount : s.wIn = (inFlight s).length + (if s.loadWriting then 1 else 0)
  lock   : c.lockFix = true → (s.lockHeld = true ↔ (inFlight s ≠ [] ∨ s.loadWriting = true))
  excl   : c.lockFix = true → ¬ (inFlight s ≠ [] ∧ s.loadWriting = true)
  flag   : s.writingFlag = true ↔ (held s ≠ [] ∨ inFlight s ≠ [])
  nolock : c.lockFix = false → s.lockHeld = false

theorem ctlInv_init (c : Cfg) : CtlInv c State.init := by
  constructor <;> simp [State.init, inFlight, held]

macro "ctl_close" : tactic =>
  `(tactic| (constructor <;> simp_all [inFlight, held] <;> (try split) <;> (try simp_all) <;> (try omega)))

theorem ctlInv_step {c : Cfg} {s s' : State} {a : Action} (h : CtlInv c s) (hs : step c s a = some s') :
    CtlInv c s' := by
  obtain ⟨h1, h2, h3, h4, h5, h6⟩ := h
  cases a <;> simp only [step] at hs
  case submit v =>
    injection hs with hs; subst hs; ctl_close
  case writerTake =>
    split at hs
    · split at hs <;> (injection hs with hs; subst hs; ctl_close)
    · simp at hs
  case writerAcquire =>
    split at hs
    · split at hs
      · simp at hs
      · injection hs with hs; subst hs; ctl_close
    · simp at hs
  case writeEnd ok =>
    split at hs
    · injection hs with hs; subst hs; ctl_close
    · simp at hs
  case confirmEnd =>
    split at hs
    · injection hs with hs; subst hs; ctl_close
    · simp at hs
  case loadWriteBegin =>
    split at hs
    · simp at hs
    · injection hs with hs; subst hs; ctl_close
  case loadWriteEnd =>
    split at hs
    · injection hs with hs; subst hs; ctl_close
    · simp at hs
  case loadDone =>
    split at hs
    · simp at hs
    · injection hs with hs; subst hs; ctl_close
  case readBegin =>
    split at hs
    · simp at hs
    · injection hs with hs; subst hs; ctl_close
  case readEnd =>
    split at hs
    · simp at hs
    · injection hs with hs; subst hs; ctl_close


theorem full_nil (cap : Nat) : full cap [] = false := by
  simp [full]; omega

theorem putLoop_spec (cap : Nat) (e : Entry) (q : List Entry) (hb : 0 < cap → q.length ≤ cap) :
    (full cap q = false ∧ putLoop cap e q = (q ++ [e], [])) ∨
    (∃ h t, q = h :: t ∧ 0 < cap ∧ q.length = cap ∧ putLoop cap e q = (t ++ [e], [⟨h, t, e.tk⟩])) := by
  cases q with
  | nil => left; simp [full, putLoop]; omega
  | cons h t =>
    by_cases hf : full cap (h :: t) = true
    · right
      have hf' := hf
      simp [full] at hf'
      refine ⟨h, t, rfl, hf'.1, ?_, ?_⟩
      · have := hb hf'.1; simp at this ⊢; omega
      · have hlen : t.length < cap := by have := hb hf'.1; simp at this; omega
        cases t with
        | nil => simp [putLoop, hf]
        | cons h2 t2 =>
          have : full cap (h2 :: t2) = false := by
            simp [full]; intro _; simp at hlen; omega
          simp [putLoop, hf, this]
    · left
      simp at hf
      simp [putLoop, hf]

theorem nodup_of_map_tk {l : List Entry} (h : (l.map (·.tk)).Nodup) : l.Nodup := by
  unfold List.Nodup at *
  exact List.Pairwise.of_map (·.tk) (fun a b hab heq => hab (by rw [heq])) h

/-- Removing one more element `h` from the exclusion filter. -/
theorem filter_drop {l D A t : List Entry} {h : Entry}
    (hf : l.filter (fun x => !D.contains x) = A ++ h :: t) (hn : (A ++ h :: t).Nodup) :
    l.filter (fun x => !(D ++ [h]).contains x) = A ++ t := by
  have e1 : l.filter (fun x => !(D ++ [h]).contains x)
      = (l.filter (fun x => !D.contains x)).filter (fun x => x != h) := by
    rw [List.filter_filter]
    congr 1; funext x
    by_cases hx : x = h <;> simp [hx]
  rw [e1, hf, List.filter_append]
  have hA : h ∉ A := by
    intro hm
    have := (List.nodup_append.mp hn).2.2 h hm h (by simp)
    exact this rfl
  have ht : h ∉ t := by
    have := (List.nodup_append.mp hn).2.1
    simp at this; exact this.1
  have f1 : A.filter (fun x => x != h) = A := by
    rw [List.filter_eq_self]; intro a ha; simp; intro hh; subst hh; exact hA ha
  have f2 : (h :: t).filter (fun x => x != h) = t := by
    simp
    intro a ha hh; subst hh; exact ht ha
  rw [f1, f2]


/-- Data invariant: tickets, queue bound and order, FIFO refinement, resolution bookkeeping, drop records. -/
structure QInv (c : Cfg) (s : State) : Prop where
  tks     : s.submitted.map (·.tk) = List.range s.nextTk
  bound   : 0 < c.cap → s.queue.length ≤ c.cap
  qlt     : ∀ e ∈ s.queue, e.tk < s.nextTk
  qsorted : (s.queue.map (·.tk)).Pairwise (· < ·)
  dlt     : ∀ d ∈ s.drops, d.e.tk < s.nextTk
  dropsOk : ∀ d ∈ s.drops, 0 < c.cap ∧ (d.e :: d.rest).length = c.cap ∧ (∀ r ∈ d.rest, d.e.tk < r.tk) ∧ d.e.tk < d.cause
  order   : s.submitted.filter (fun e => !(dropped s).contains e) = s.started ++ held s ++ s.queue
  resFull : (s.resolved.filter (fun p => p.2 == Outcome.queueFull)).map (·.1) = (dropped s).map (·.tk)
  resDone : (s.resolved.filter (fun p => p.2 != Outcome.queueFull)).map (·.1) ++ (inFlight s).map (·.tk)
              = s.started.map (·.tk)
  perm    : (dropped s ++ (s.started ++ held s ++ s.queue)).Perm s.submitted
  clt     : ∀ d ∈ s.drops, d.cause < s.nextTk
  causes  : (s.drops.map (·.cause)).Pairwise (· < ·)

theorem qInv_init (c : Cfg) : QInv c State.init := by
  constructor <;> simp [State.init, inFlight, held, dropped]

theorem submitted_nodup {c : Cfg} {s : State} (h : QInv c s) : s.submitted.Nodup :=
  nodup_of_map_tk (by rw [h.tks]; exact List.nodup_range)

theorem kept_nodup {c : Cfg} {s : State} (h : QInv c s) : (s.started ++ held s ++ s.queue).Nodup := by
  rw [← h.order]; exact List.Nodup.sublist List.filter_sublist (submitted_nodup h)

theorem submit_fields {c : Cfg} {s s' : State} {v : Int} (hs : step c s (.submit v) = some s') :
    s'.queue = (putLoop c.cap ⟨v, s.nextTk⟩ s.queue).1 ∧ s'.pc = s.pc ∧ s'.nextTk = s.nextTk + 1 ∧
    s'.submitted = s.submitted ++ [⟨v, s.nextTk⟩] ∧ s'.started = s.started ∧
    s'.resolved = s.resolved ++ (putLoop c.cap ⟨v, s.nextTk⟩ s.queue).2.map (fun d => (d.e.tk, Outcome.queueFull)) ∧
    s'.drops = s.drops ++ (putLoop c.cap ⟨v, s.nextTk⟩ s.queue).2 := by
  simp only [step] at hs
  injection hs with hs; subst hs
  simp

theorem qInv_submit {c : Cfg} {s s' : State} {v : Int} (h : QInv c s) (hs : step c s (.submit v) = some s') :
    QInv c s' := by
  obtain ⟨eq, epc, en, esub, est, eres, edr⟩ := submit_fields hs
  have hheld : held s' = held s := by simp [held, epc]
  have hinf : inFlight s' = inFlight s := by simp [inFlight, epc]
  have hfresh : ∀ x ∈ dropped s, x ≠ (⟨v, s.nextTk⟩ : Entry) := by
    intro x hx hxe
    simp [dropped] at hx
    obtain ⟨d, hd, rfl⟩ := hx
    have := h.dlt d hd
    rw [hxe] at this; simp at this
  rcases putLoop_spec c.cap ⟨v, s.nextTk⟩ s.queue h.bound with ⟨hnf, hp⟩ | ⟨hd, tl, hq, hc, hlen, hp⟩
  · -- room in the queue
    rw [hp] at eq eres edr
    simp at eq eres edr
    have hdr : dropped s' = dropped s := by simp [dropped, edr]
    refine ⟨?_, ?_, ?_, ?_, ?_, ?_, ?_, ?_, ?_, ?_, ?_, ?_⟩
    · simp [esub, en, h.tks, List.range_succ]
    · intro hc
      have := h.bound hc
      simp [full, hc] at hnf
      rw [eq]; simp; omega
    · intro e he
      rw [eq] at he; rw [en]
      simp at he
      rcases he with he | he
      · have := h.qlt e he; omega
      · subst he; simp
    · rw [eq]
      simp only [List.map_append, List.map_cons, List.map_nil]
      rw [List.pairwise_append]
      refine ⟨h.qsorted, by simp, ?_⟩
      intro a ha b hb
      simp at ha hb
      obtain ⟨e, he, rfl⟩ := ha
      subst hb
      exact h.qlt e he
    · intro d hd; rw [edr] at hd; rw [en]; have := h.dlt d hd; omega
    · intro d hd; rw [edr] at hd; exact h.dropsOk d hd
    · rw [hdr, hheld, esub, est, eq, List.filter_append, h.order]
      have : List.filter (fun e => !(dropped s).contains e) [(⟨v, s.nextTk⟩ : Entry)] = [⟨v, s.nextTk⟩] := by
        simp [List.filter_cons]
        intro hm; exact hfresh _ hm rfl
      rw [this]; simp
    · rw [hdr, eres]; exact h.resFull
    · rw [hinf, eres, est]; exact h.resDone
    · rw [hdr, hheld, esub, est, eq]
      have := h.perm
      rw [List.perm_iff_count] at this ⊢
      intro a; have := this a
      simp [List.count_append] at this ⊢; omega
    · intro d hd; rw [edr] at hd; rw [en]; have := h.clt d hd; omega
    · rw [edr]; exact h.causes
  · -- queue full: the head is dropped
    rw [hp] at eq eres edr
    simp at eq eres edr
    have hdr : dropped s' = dropped s ++ [hd] := by simp [dropped, edr]
    have hnd := kept_nodup h
    rw [hq] at hnd
    have hhd : hd.tk < s.nextTk := h.qlt hd (by rw [hq]; simp)
    have hsort := h.qsorted
    rw [hq] at hsort
    simp only [List.map_cons, List.pairwise_cons] at hsort
    refine ⟨?_, ?_, ?_, ?_, ?_, ?_, ?_, ?_, ?_, ?_, ?_, ?_⟩
    · simp [esub, en, h.tks, List.range_succ]
    · intro _; rw [hq] at hlen; rw [eq]; simp at hlen ⊢; omega
    · intro e he
      rw [eq] at he; rw [en]
      simp at he
      rcases he with he | he
      · have := h.qlt e (by rw [hq]; simp [he]); omega
      · subst he; simp
    · rw [eq]
      simp only [List.map_append, List.map_cons, List.map_nil]
      rw [List.pairwise_append]
      refine ⟨hsort.2, by simp, ?_⟩
      intro a ha b hb
      simp at ha hb
      obtain ⟨e, he, rfl⟩ := ha
      subst hb
      exact h.qlt e (by rw [hq]; simp [he])
    · intro d hdm
      rw [edr] at hdm; rw [en]
      simp at hdm
      rcases hdm with hdm | hdm
      · have := h.dlt d hdm; omega
      · subst hdm; simp; omega
    · intro d hdm
      rw [edr] at hdm
      simp at hdm
      rcases hdm with hdm | hdm
      · exact h.dropsOk d hdm
      · subst hdm
        refine ⟨hc, by rw [hq] at hlen; simpa using hlen, ?_, ?_⟩
        · intro r hr
          exact hsort.1 r.tk (by simp; exact ⟨r, hr, rfl⟩)
        · simpa using hhd
    · rw [hdr, hheld, esub, est, eq, List.filter_append]
      have ho := h.order
      rw [hq] at ho
      rw [filter_drop (A := s.started ++ held s) (by simpa using ho) (by simpa using hnd)]
      have : List.filter (fun e => !(dropped s ++ [hd]).contains e) [(⟨v, s.nextTk⟩ : Entry)] = [⟨v, s.nextTk⟩] := by
        simp [List.filter_cons]
        refine ⟨fun hm => hfresh _ hm rfl, ?_⟩
        intro he
        rw [← he] at hhd; simp at hhd
      rw [this]; simp
    · rw [hdr, eres]
      have := h.resFull
      simp [List.filter_append] at this ⊢
      exact this
    · rw [hinf, eres, est]
      simpa [List.filter_append, List.filter_cons] using h.resDone
    · rw [hdr, hheld, esub, est, eq]
      have := h.perm
      rw [hq, List.perm_iff_count] at this
      rw [List.perm_iff_count]
      intro a; have := this a
      simp [List.count_append, List.count_cons] at this ⊢; omega
    · intro d hdm
      rw [edr] at hdm; rw [en]
      simp at hdm
      rcases hdm with hdm | hdm
      · have := h.clt d hdm; omega
      · subst hdm; simp
    · rw [edr]
      simp only [List.map_append, List.map_cons, List.map_nil]
      rw [List.pairwise_append]
      refine ⟨h.causes, by simp, ?_⟩
      intro a ha b hb
      simp at ha hb
      obtain ⟨d, hdm, rfl⟩ := ha
      subst hb
      exact h.clt d hdm

macro "q_close" : tactic =>
  `(tactic| (refine ⟨?_, ?_, ?_, ?_, ?_, ‹_›, ?_, ?_, ?_, ?_, ‹_›, ‹_›⟩ <;> simp_all [inFlight, held, dropped, List.filter_append, List.filter_cons] <;> (try omega)))

theorem qInv_step {c : Cfg} {s s' : State} {a : Action} (h : QInv c s) (hs : step c s a = some s') :
    QInv c s' := by
  cases a
  case submit v => exact qInv_submit h hs
  all_goals (obtain ⟨h1, h2, h3, h4, h5, h6, h7, h8, h9, h10, h11, h12⟩ := h; simp only [step] at hs)
  case writerTake =>
    split at hs
    · split at hs <;> (injection hs with hs; subst hs; q_close)
    · simp at hs
  case writerAcquire =>
    split at hs
    · split at hs
      · simp at hs
      · injection hs with hs; subst hs; q_close
    · simp at hs
  case writeEnd ok =>
    split at hs
    · injection hs with hs; subst hs; cases ok <;> q_close
    · simp at hs
  case confirmEnd =>
    split at hs
    · injection hs with hs; subst hs; q_close
    · simp at hs
  case loadWriteBegin =>
    split at hs
    · simp at hs
    · injection hs with hs; subst hs; q_close
  case loadWriteEnd =>
    split at hs
    · injection hs with hs; subst hs; q_close
    · simp at hs
  case loadDone =>
    split at hs
    · simp at hs
    · injection hs with hs; subst hs; q_close
  case readBegin =>
    split at hs
    · simp at hs
    · injection hs with hs; subst hs; q_close
  case readEnd =>
    split at hs
    · simp at hs
    · injection hs with hs; subst hs; q_close


/-! ### Every reachable state satisfies both invariants -/

theorem reachable_inv {c : Cfg} {s : State} (h : Reachable c s) : CtlInv c s ∧ QInv c s := by
  induction h with
  | init => exact ⟨ctlInv_init c, qInv_init c⟩
  | step a _ hs ih => exact ⟨ctlInv_step ih.1 hs, qInv_step ih.2 hs⟩

theorem exec_reachable {c : Cfg} {s s' : State} (as : List Action) (h : Reachable c s)
    (he : exec c s as = some s') : Reachable c s' := by
  induction as generalizing s with
  | nil => simp [exec] at he; subst he; exact h
  | cons a as ih =>
    simp only [exec] at he
    split at he
    · next s1 hs => exact ih (Reachable.step a h hs) he
    · simp at he

/-! ### Derived facts -/

theorem ctl_reads_le_one {c : Cfg} {s : State} (h : CtlInv c s) (hg : c.readGuard = true) : s.rIn ≤ 1 := by
  have := h.rOne hg
  split at this <;> omega

theorem ctl_writes_le_one {c : Cfg} {s : State} (h : CtlInv c s) (hf : c.lockFix = true) : s.wIn ≤ 1 := by
  have h1 := h.wCount
  have h2 := h.excl hf
  unfold inFlight at *
  split at h1 <;> split at h1 <;> simp_all

theorem started_tks_sorted {c : Cfg} {s : State} (h : QInv c s) :
    ((s.started ++ held s ++ s.queue).map (·.tk)).Pairwise (· < ·) := by
  rw [← h.order]
  have hsub : List.Sublist ((List.filter (fun e => !(dropped s).contains e) s.submitted).map (·.tk))
      (s.submitted.map (·.tk)) :=
    List.Sublist.map _ List.filter_sublist
  rw [h.tks] at hsub
  exact List.Pairwise.sublist hsub List.pairwise_lt_range

theorem all_tks_nodup {c : Cfg} {s : State} (h : QInv c s) :
    ((dropped s ++ (s.started ++ held s ++ s.queue)).map (·.tk)).Nodup := by
  have := (h.perm.map (·.tk)).nodup_iff
  rw [this, h.tks]; exact List.nodup_range

theorem resolved_perm {c : Cfg} {s : State} (h : QInv c s) :
    (s.resolved.map (·.1)).Perm
      ((dropped s).map (·.tk) ++ (s.resolved.filter (fun p => p.2 != Outcome.queueFull)).map (·.1)) := by
  rw [← h.resFull, ← List.map_append]
  apply List.Perm.map
  have := (List.filter_append_perm (fun p : Nat × Outcome => p.2 == Outcome.queueFull) s.resolved).symm
  have e : (fun p : Nat × Outcome => !(p.2 == Outcome.queueFull)) = (fun p => p.2 != Outcome.queueFull) := by
    funext p; rfl
  rw [e] at this
  exact this

theorem resolved_nodup {c : Cfg} {s : State} (h : QInv c s) : (s.resolved.map (·.1)).Nodup := by
  rw [(resolved_perm h).nodup_iff]
  have hn := all_tks_nodup h
  refine List.Nodup.sublist ?_ hn
  simp only [List.map_append]
  refine List.Sublist.append (List.Sublist.refl _) ?_
  rw [← h.resDone]
  simp only [List.append_assoc]
  exact List.sublist_append_left _ _

theorem quiescent_resolved_perm {c : Cfg} {s : State} (h : QInv c s) (hq : quiescent s) :
    (s.resolved.map (·.1)).Perm (List.range s.nextTk) := by
  obtain ⟨hq1, hq2⟩ := hq
  have hheld : held s = [] := by rcases hq2 with h' | h' <;> simp [held, h']
  have hinf : inFlight s = [] := by rcases hq2 with h' | h' <;> simp [inFlight, h']
  refine (resolved_perm h).trans ?_
  have hd := h.resDone
  rw [hinf] at hd
  simp at hd
  rw [hd, ← h.tks, ← List.map_append]
  apply List.Perm.map
  have := h.perm
  rw [hheld, hq1] at this
  simpa using this

theorem full_iff_dropped {c : Cfg} {s : State} (h : QInv c s) (tk : Nat) :
    (tk, Outcome.queueFull) ∈ s.resolved ↔ tk ∈ (dropped s).map (·.tk) := by
  rw [← h.resFull]
  simp

theorem dropped_not_started {c : Cfg} {s : State} (h : QInv c s) (e : Entry) (he : e ∈ dropped s) :
    e ∉ s.started := by
  intro hs
  have : e ∈ s.submitted.filter (fun e => !(dropped s).contains e) := by
    rw [h.order]; simp [hs]
  simp at this
  exact this.2 he

theorem written_iff_resolved {c : Cfg} {s : State} (h : QInv c s) (tk : Nat) :
    (∃ o, o ≠ Outcome.queueFull ∧ (tk, o) ∈ s.resolved) ∨ tk ∈ (inFlight s).map (·.tk) ↔ tk ∈ s.started.map (·.tk) := by
  rw [← h.resDone]
  simp only [List.mem_append, List.mem_map, List.mem_filter]
  constructor
  · rintro (⟨o, ho, hm⟩ | hm)
    · left; exact ⟨(tk, o), ⟨hm, by simpa using ho⟩, rfl⟩
    · right; exact hm
  · rintro (⟨p, ⟨hm, hp⟩, rfl⟩ | hm)
    · left; exact ⟨p.2, by simpa using hp, hm⟩
    · right; exact hm

/-! ### Progress of the writer: a measure that every internal action decreases, and no deadlock -/

def Pc.rank : Pc → Nat
  | .idle => 0 | .confirming => 1 | .writing _ => 2 | .lockWait _ => 3

/-- Internal actions: steps of the writer task and completion of a driver call (no new submission, no new call by
the environment). -/
def Action.internal : Action → Bool
  | .writerTake | .writerAcquire | .writeEnd _ | .confirmEnd | .loadWriteEnd => true
  | _ => false

def measure (s : State) : Nat := 4 * s.queue.length + s.pc.rank + (if s.loadWriting then 1 else 0)

theorem internal_decreases {c : Cfg} {s s' : State} {a : Action} (ha : a.internal = true)
    (hs : step c s a = some s') : measure s' < measure s := by
  cases a <;> simp [Action.internal] at ha <;> simp only [step] at hs
  case writerTake =>
    split at hs
    · next e q hpc hq =>
      split at hs <;> (injection hs with hs; subst hs; simp [measure, Pc.rank, hpc, hq]; try omega)
    · simp at hs
  case writerAcquire =>
    split at hs
    · next e hpc =>
      split at hs
      · simp at hs
      · injection hs with hs; subst hs; simp [measure, Pc.rank, hpc]
    · simp at hs
  case writeEnd ok =>
    split at hs
    · next e hpc => injection hs with hs; subst hs; simp [measure, Pc.rank, hpc]
    · simp at hs
  case confirmEnd =>
    split at hs
    · next hpc => injection hs with hs; subst hs; simp [measure, Pc.rank, hpc]
    · simp at hs
  case loadWriteEnd =>
    split at hs
    · next hl => injection hs with hs; subst hs; simp [measure, hl]
    · simp at hs

theorem not_quiescent_enabled {c : Cfg} {s : State} (h : CtlInv c s) (hq : ¬ quiescent s) :
    ∃ a, a.internal = true ∧ (step c s a).isSome = true := by
  unfold quiescent at hq
  cases hpc : s.pc with
  | idle =>
    cases hqq : s.queue with
    | nil => exact absurd ⟨hqq, Or.inl hpc⟩ hq
    | cons e q =>
      refine ⟨.writerTake, rfl, ?_⟩
      simp only [step, hpc, hqq]
      split <;> rfl
  | confirming => exact ⟨.confirmEnd, rfl, by simp [step, hpc]⟩
  | writing e => exact ⟨.writeEnd true, rfl, by simp [step, hpc]⟩
  | lockWait e =>
    by_cases hl : s.lockHeld = true
    · have hfix : c.lockFix = true := by
        cases hc : c.lockFix with
        | true => rfl
        | false => have := h.nolock hc; simp [this] at hl
      have := (h.lock hfix).mp hl
      simp [inFlight, hpc] at this
      exact ⟨.loadWriteEnd, rfl, by simp [step, this]⟩
    · exact ⟨.writerAcquire, rfl, by simp [step, hpc, hl]⟩

/-! ### Several ports -/

theorem sys_reachable_port {cfgs : List Cfg} {σ : Sys} (h : SysReachable cfgs σ) :
    σ.length = cfgs.length ∧ ∀ (p : Nat) (c : Cfg) (s : State), σ[p]? = some (c, s) → cfgs[p]? = some c ∧ Reachable c s := by
  induction h with
  | init =>
    refine ⟨by simp, ?_⟩
    intro p c s hp
    simp only [List.getElem?_map] at hp
    cases hc : cfgs[p]? with
    | none => simp [hc] at hp
    | some c' =>
      simp [hc] at hp
      obtain ⟨rfl, rfl⟩ := hp
      exact ⟨rfl, Reachable.init⟩
  | @step σ0 σ1 p a _ hs ih =>
    simp only [sysStep] at hs
    split at hs
    · simp at hs
    · next c0 s0 hp0 =>
      simp only [Option.map_eq_some_iff] at hs
      obtain ⟨s1, hstep, rfl⟩ := hs
      refine ⟨by simp [ih.1], ?_⟩
      intro p' c s hp
      by_cases hpp : p = p'
      · subst hpp
        simp [List.getElem?_set] at hp
        obtain ⟨_, rfl, rfl⟩ := hp
        have := ih.2 p c0 s0 hp0
        exact ⟨this.1, Reachable.step a this.2 hstep⟩
      · simp [hpp] at hp
        exact ih.2 p' c s hp

end QtVerif.PortIO
