import QtVerif.Proofs.StoreInv
/-!
Helper lemmas for C06, part 6: the STRONG run-level agreement of a driver model with the reference store.

`Agree` / `AgreeBy` (parts 3 and 4) stop comparing at the first reference error of any kind. `AgreeStrongBy`
separates the errors of the reference store:

* in-contract errors — `Err.dup` (insert with an explicit id that is in use) and `Err.badId` (insert whose "id" is
  neither absent / None nor a string): the driver must raise the SAME error, the states stay related, and the
  comparison CONTINUES with the rest of the history;
* out-of-contract rejections — `Err.typeErr` and `Err.idInPart` (see `Res.outside`): the driver's answer to that
  operation is not constrained. When the rejected operation is a query, neither store changes and the comparison
  continues as well; a rejected update / remove ends it (the drivers apply such an operation partially — the loops
  of `JSONDriver.update/remove`, `RedisDriver.update/remove` stop at the record that raises — or, on the id fast
  path, do not raise at all because they never look at the other records: a modelled difference).

`Err.notFresh` never occurs; `Err.decode` / `Err.backend` are never produced by the reference store.
-/
namespace QtVerif.Store

/-- The reference store's answer is an OUT-OF-CONTRACT rejection. Exactly:
* `Err.typeErr`, which `Ref.step` returns for update / remove / query when (a) the filter is outside the filter
  language (`filtOk` false: an operator other than gt / ge / lt / le / in, or `in` with a non-list), (b) the filter
  cannot be evaluated on some record of the collection (`matchAll = none`: unorderable operands, Python `TypeError`),
  or, for query only, (c) the sort cannot be carried out on the selected records (`lexSort = none`: a sort key
  missing on a record, an "id" that is not a numeral when sorting by "id", mutually unorderable keys, or `<` not a
  strict weak order on them);
* `Err.idInPart`: an update whose part names "id".
Everything else — in particular the insert errors `Err.dup` and `Err.badId` — is inside the contract. -/
def Res.outside : Res → Bool
  | .err .typeErr => true
  | .err .idInPart => true
  | _ => false

def Op.isQuery : Op → Bool
  | .query _ _ _ _ _ => true
  | _ => false

/-- Strong agreement of a lock-step run (`runWith`) with its operations. For every operation, with `j` the driver's
answer and `r` the reference store's:
1. `r` is never `notFresh` (the id the driver generated is free in the reference store);
2. unless `r` is an out-of-contract rejection (`Res.outside`), `j = norm r` — this includes the in-contract errors
   `dup` and `badId`, which the driver must raise as well;
3. the comparison continues with the rest of the history unless `r` is an out-of-contract rejection of an operation
   other than a query (the only escape hatch). -/
def AgreeStrongBy (norm : Res → Res) : List Op → List (Res × Res) → Prop
  | [], [] => True
  | op :: ops, (j, r) :: t =>
    r ≠ .err .notFresh ∧ (r.outside = false → j = norm r) ∧
    ((r.outside = false ∨ op.isQuery = true) → AgreeStrongBy norm ops t)
  | _, _ => False

/-- strong agreement with results compared as they are (JSON driver) -/
def AgreeStrong : List Op → List (Res × Res) → Prop := AgreeStrongBy id

theorem outside_err {r : Res} (h : r.outside = true) : ∃ e, r = .err e := by
  cases r with
  | err e => exact ⟨e, rfl⟩
  | _ => simp [Res.outside] at h

/-- the strong agreement implies the old one -/
theorem AgreeStrongBy.weaken (norm : Res → Res) :
    ∀ (ops : List Op) (l : List (Res × Res)), AgreeStrongBy norm ops l → AgreeBy norm l := by
  intro ops
  induction ops with
  | nil =>
    intro l h
    cases l with
    | nil => trivial
    | cons a t => cases h
  | cons op ops ih =>
    intro l h
    cases l with
    | nil => cases h
    | cons a t =>
      obtain ⟨j, r⟩ := a
      obtain ⟨h1, h2, h3⟩ := h
      refine ⟨h1, ?_⟩
      cases ho : r.outside with
      | true => exact Or.inl (outside_err ho)
      | false => exact Or.inr ⟨h2 ho, ih t (h3 (Or.inl ho))⟩

theorem AgreeStrong.weaken : ∀ (ops : List Op) (l : List (Res × Res)), AgreeStrong ops l → Agree l := by
  intro ops
  induction ops with
  | nil =>
    intro l h
    cases l with
    | nil => trivial
    | cons a t => cases h
  | cons op ops ih =>
    intro l h
    cases l with
    | nil => cases h
    | cons a t =>
      obtain ⟨j, r⟩ := a
      obtain ⟨h1, h2, h3⟩ := h
      refine ⟨h1, ?_⟩
      cases ho : r.outside with
      | true => exact Or.inl (outside_err ho)
      | false => exact Or.inr ⟨h2 ho, ih t (h3 (Or.inl ho))⟩

/-- every error of the reference store on an operation other than insert is an out-of-contract rejection -/
theorem ref_err_outside (s : RefState) (name : Str) (op : Op) (hop : ∀ c r, op ≠ .insert c r) (e : Err)
    (h : (Ref.step s name op).2 = .err e) : (Ref.step s name op).2.outside = true := by
  have key : e = .typeErr ∨ e = .idInPart := by
    cases op with
    | insert c r => exact absurd rfl (hop c r)
    | update coll part filt =>
      simp only [Ref.step] at h
      repeat' split at h
      all_goals simp_all
    | replace coll id rec =>
      simp only [Ref.step] at h
      repeat' split at h
      all_goals simp_all
    | remove coll filt =>
      simp only [Ref.step] at h
      repeat' split at h
      all_goals simp_all
    | query coll fields filt sort limit =>
      simp only [Ref.step] at h
      repeat' split at h
      all_goals simp_all
    | reload => simp [Ref.step] at h
  rw [h]
  rcases key with rfl | rfl <;> rfl

/-- a query changes no store -/
theorem ref_query_state (s : RefState) (name coll : Str) (fields : Option (List Str)) (filt : Fields)
    (sort : List (Str × Bool)) (limit : Option Nat) : (Ref.step s name (.query coll fields filt sort limit)).1 = s := by
  simp only [Ref.step]
  repeat' split
  all_goals rfl

theorem json_query_state (fx : Fix) (ft : FloatText) (s : JState) (coll : Str) (fields : Option (List Str))
    (filt : Fields) (sort : List (Str × Bool)) (limit : Option Nat) :
    (Json.step fx ft s (.query coll fields filt sort limit)).1 = s := by
  simp only [Json.step]
  repeat' split
  all_goals rfl

theorem redis_query_state (fx : Fix) (ft : FloatText) (s : RState) (coll : Str) (fields : Option (List Str))
    (filt : Fields) (sort : List (Str × Bool)) (limit : Option Nat) :
    (Redis.step fx ft s (.query coll fields filt sort limit)).1 = s := by
  simp only [Redis.step]
  repeat' split
  all_goals rfl

/-! ### JSON driver -/

/-- one step, strong form: (1) no `notFresh`; (2) unless the reference store rejects the operation as outside the
contract, same answer (in-contract errors included) and related states; (3) a query keeps the states related
whatever the answers are. -/
theorem json_step_refines_strong (fx : Fix) (hfx : fx.jsonUpdFilt = true) (ft : FloatText) (js : JState) (rs : RefState)
    (hrel : RelJ js rs) (op : Op) (hop : op ≠ .reload) :
    let jr := Json.step fx ft js op
    let rr := Ref.step rs (match jr.2 with | .id n => n | _ => []) op
    rr.2 ≠ .err .notFresh ∧ (rr.2.outside = false → jr.2 = rr.2 ∧ RelJ jr.1 rr.1) ∧
      (op.isQuery = true → RelJ jr.1 rr.1) := by
  have h := json_step_refines fx hfx ft js rs hrel op hop
  cases op with
  | insert coll rec =>
    have hs := json_insert_refines_strong fx ft js rs hrel coll rec
    exact ⟨hs.1, fun _ => hs.2, fun hq => by simp [Op.isQuery] at hq⟩
  | query coll fields filt sort limit =>
    refine ⟨h.1, ?_, ?_⟩
    · intro ho
      rcases h.2 with ⟨e, he⟩ | h2
      · exact Bool.noConfusion ((ref_err_outside rs _ _ (fun c r => by simp) e he).symm.trans ho)
      · exact h2
    · intro _
      show RelJ (Json.step fx ft js _).1 (Ref.step rs _ _).1
      rw [json_query_state, ref_query_state]
      exact hrel
  | update coll part filt =>
    refine ⟨h.1, ?_, fun hq => by simp [Op.isQuery] at hq⟩
    intro ho
    rcases h.2 with ⟨e, he⟩ | h2
    · exact Bool.noConfusion ((ref_err_outside rs _ _ (fun c r => by simp) e he).symm.trans ho)
    · exact h2
  | replace coll id rec =>
    refine ⟨h.1, ?_, fun hq => by simp [Op.isQuery] at hq⟩
    intro ho
    rcases h.2 with ⟨e, he⟩ | h2
    · exact Bool.noConfusion ((ref_err_outside rs _ _ (fun c r => by simp) e he).symm.trans ho)
    · exact h2
  | remove coll filt =>
    refine ⟨h.1, ?_, fun hq => by simp [Op.isQuery] at hq⟩
    intro ho
    rcases h.2 with ⟨e, he⟩ | h2
    · exact Bool.noConfusion ((ref_err_outside rs _ _ (fun c r => by simp) e he).symm.trans ho)
    · exact h2
  | reload => exact absurd rfl hop

theorem json_run_agrees_strong (fx : Fix) (hfx : fx.jsonUpdFilt = true) (ft : FloatText) :
    ∀ (ops : List Op) (js : JState) (rs : RefState), RelJ js rs → (∀ op ∈ ops, op ≠ .reload) →
      AgreeStrong ops (runWith (Json.step fx ft) js rs ops) := by
  intro ops
  induction ops with
  | nil => intro _ _ _ _; trivial
  | cons op t ih =>
    intro js rs hrel hops
    have h := json_step_refines_strong fx hfx ft js rs hrel op (hops op (by simp))
    have hops' : ∀ o ∈ t, o ≠ .reload := fun o ho => hops o (by simp [ho])
    simp only [runWith, AgreeStrong, AgreeStrongBy]
    refine ⟨h.1, fun ho => (h.2.1 ho).1, ?_⟩
    intro hc
    rcases hc with ho | hq
    · exact ih _ _ (h.2.1 ho).2 hops'
    · exact ih _ _ (h.2.2 hq) hops'

/-! ### Redis driver -/

section redisStrong
variable (ft : FloatText) (Good : JVal → Prop)
variable (hrt : ∀ v, Good v → decodeVal ft (encodeVal Fix.repaired ft v) = some v)
include hrt

theorem redis_step_refines_strong (ks : RState) (rs : RefState) (hrel : RelR ft Good ks rs) (op : Op) (hop : OpOK Good op) :
    let kr := Redis.step Fix.repaired ft ks op
    let rr := Ref.step rs (match kr.2 with | .id n => n | _ => []) op
    rr.2 ≠ .err .notFresh ∧ (rr.2.outside = false → kr.2 = normRes rr.2 ∧ RelR ft Good kr.1 rr.1) ∧
      (op.isQuery = true → RelR ft Good kr.1 rr.1) := by
  have h := redis_step_refines ft Good hrt ks rs hrel op hop
  cases op with
  | insert coll rec =>
    have hs := redis_insert_refines_strong ft Good ks rs hrel coll rec hop
    exact ⟨hs.1, fun _ => hs.2, fun hq => by simp [Op.isQuery] at hq⟩
  | query coll fields filt sort limit =>
    refine ⟨h.1, ?_, ?_⟩
    · intro ho
      rcases h.2 with ⟨e, he⟩ | h2
      · exact Bool.noConfusion ((ref_err_outside rs _ _ (fun c r => by simp) e he).symm.trans ho)
      · exact h2
    · intro _
      show RelR ft Good (Redis.step Fix.repaired ft ks _).1 (Ref.step rs _ _).1
      rw [redis_query_state, ref_query_state]
      exact hrel
  | update coll part filt =>
    refine ⟨h.1, ?_, fun hq => by simp [Op.isQuery] at hq⟩
    intro ho
    rcases h.2 with ⟨e, he⟩ | h2
    · exact Bool.noConfusion ((ref_err_outside rs _ _ (fun c r => by simp) e he).symm.trans ho)
    · exact h2
  | replace coll id rec =>
    refine ⟨h.1, ?_, fun hq => by simp [Op.isQuery] at hq⟩
    intro ho
    rcases h.2 with ⟨e, he⟩ | h2
    · exact Bool.noConfusion ((ref_err_outside rs _ _ (fun c r => by simp) e he).symm.trans ho)
    · exact h2
  | remove coll filt =>
    refine ⟨h.1, ?_, fun hq => by simp [Op.isQuery] at hq⟩
    intro ho
    rcases h.2 with ⟨e, he⟩ | h2
    · exact Bool.noConfusion ((ref_err_outside rs _ _ (fun c r => by simp) e he).symm.trans ho)
    · exact h2
  | reload =>
    refine ⟨h.1, ?_, fun hq => by simp [Op.isQuery] at hq⟩
    intro ho
    rcases h.2 with ⟨e, he⟩ | h2
    · exact Bool.noConfusion ((ref_err_outside rs _ _ (fun c r => by simp) e he).symm.trans ho)
    · exact h2

theorem redis_run_agrees_strong :
    ∀ (ops : List Op) (ks : RState) (rs : RefState), RelR ft Good ks rs → (∀ op ∈ ops, OpOK Good op) →
      AgreeStrongBy normRes ops (runWith (Redis.step Fix.repaired ft) ks rs ops) := by
  intro ops
  induction ops with
  | nil => intro _ _ _ _; trivial
  | cons op t ih =>
    intro ks rs hrel hops
    have h := redis_step_refines_strong ft Good hrt ks rs hrel op (hops op (by simp))
    have hops' : ∀ o ∈ t, OpOK Good o := fun o ho => hops o (by simp [ho])
    simp only [runWith, AgreeStrongBy]
    refine ⟨h.1, fun ho => (h.2.1 ho).1, ?_⟩
    intro hc
    rcases hc with ho | hq
    · exact ih _ _ (h.2.1 ho).2 hops'
    · exact ih _ _ (h.2.2 hq) hops'

end redisStrong

end QtVerif.Store
