import QtVerif.Model.Calendar
/-!
Core calendar lemmas for C17: the day-number <-> civil-date maps of `Model/Calendar.lean` are mutually inverse
bijections between ℤ and the valid proleptic-Gregorian dates, `civilOfSeconds`/`secondsOfCivil` likewise for
datetimes. Everything is proved for all integers (no range restriction, no table).
-/
namespace QtVerif.Calendar

/-! ### leap years and year lengths -/

theorem leapDay_cases (y : Int) :
    (leapDay y = 1 ∧ y % 4 = 0 ∧ (y % 100 ≠ 0 ∨ y % 400 = 0)) ∨
    (leapDay y = 0 ∧ (y % 4 ≠ 0 ∨ (y % 100 = 0 ∧ y % 400 ≠ 0))) := by
  unfold leapDay isLeap
  by_cases h4 : y % 4 = 0 <;> by_cases h100 : y % 100 = 0 <;> by_cases h400 : y % 400 = 0 <;>
    simp [h4, h100, h400]

theorem leapDay_01 (y : Int) : leapDay y = 0 ∨ leapDay y = 1 := by
  rcases leapDay_cases y with h | h <;> simp [h.1]

theorem yearLen_pos (y : Int) : 365 ≤ yearLen y ∧ yearLen y ≤ 366 := by
  unfold yearLen; rcases leapDay_01 y with h | h <;> omega

theorem dby_succ (y : Int) : dby (y + 1) = dby y + yearLen y := by
  rcases leapDay_cases y with ⟨hl, h⟩ | ⟨hl, h⟩ <;> simp only [dby, yearLen, hl] <;> omega

theorem dby_mono_nat (a : Int) (k : Nat) : dby a ≤ dby (a + k) := by
  induction k with
  | zero => simp
  | succ k ih =>
    have := dby_succ (a + k); have := yearLen_pos (a + k)
    have e : a + ((k + 1 : Nat) : Int) = a + k + 1 := by omega
    rw [e]; omega

theorem dby_mono {a b : Int} (h : a ≤ b) : dby a ≤ dby b := by
  have := dby_mono_nat a (b - a).toNat
  have e : a + ((b - a).toNat : Int) = b := by omega
  rwa [e] at this

/-- A day belongs to exactly one year. -/
theorem dby_unique {a b o : Int} (h1 : dby a ≤ o) (h2 : o < dby (a + 1)) (h3 : dby b ≤ o) (h4 : o < dby (b + 1)) :
    a = b := by
  rcases Int.lt_trichotomy a b with h | h | h
  · have := dby_mono (show a + 1 ≤ b by omega); omega
  · exact h
  · have := dby_mono (show b + 1 ≤ a by omega); omega

theorem yearOf_spec (o : Int) : dby (yearOf o) ≤ o ∧ o < dby (yearOf o + 1) := by
  unfold yearOf
  simp only
  split
  · unfold dby at *; omega
  · split
    · unfold dby at *; omega
    · unfold dby at *; omega

theorem yearOf_eq {y o : Int} (h1 : dby y ≤ o) (h2 : o < dby (y + 1)) : yearOf o = y :=
  dby_unique (yearOf_spec o).1 (yearOf_spec o).2 h1 h2

/-! ### months -/

/-- Month length in a year with `f` leap days. -/
def mlenF (f m : Int) : Int := if m = 2 then 28 + f else if m = 4 ∨ m = 6 ∨ m = 9 ∨ m = 11 then 30 else 31

theorem monthLen_eq (y m : Int) : monthLen y m = mlenF (leapDay y) m := rfl

theorem monthLen_bounds (y m : Int) : 28 ≤ monthLen y m ∧ monthLen y m ≤ 31 := by
  unfold monthLen; rcases leapDay_01 y with h | h <;> split <;> (try split) <;> omega

theorem dbm_one (y : Int) : dbm y 1 = 0 := by simp [dbm, dbmF]

theorem dbm_succ (y m : Int) (h1 : 1 ≤ m) (h2 : m ≤ 11) : dbm y (m + 1) = dbm y m + monthLen y m := by
  have hm : m = 1 ∨ m = 2 ∨ m = 3 ∨ m = 4 ∨ m = 5 ∨ m = 6 ∨ m = 7 ∨ m = 8 ∨ m = 9 ∨ m = 10 ∨ m = 11 := by omega
  rcases hm with h | h | h | h | h | h | h | h | h | h | h <;> subst h <;> simp [dbm, dbmF, monthLen] <;> omega

theorem dbm_last (y : Int) : dbm y 12 + monthLen y 12 = yearLen y := by
  simp [dbm, dbmF, monthLen, yearLen]; omega

theorem dbm_bound (y m : Int) (h1 : 1 ≤ m) (h2 : m ≤ 12) : 0 ≤ dbm y m ∧ dbm y m + monthLen y m ≤ yearLen y := by
  have hm : m = 1 ∨ m = 2 ∨ m = 3 ∨ m = 4 ∨ m = 5 ∨ m = 6 ∨ m = 7 ∨ m = 8 ∨ m = 9 ∨ m = 10 ∨ m = 11 ∨ m = 12 := by
    omega
  rcases leapDay_01 y with hl | hl <;>
    rcases hm with h | h | h | h | h | h | h | h | h | h | h | h <;> subst h <;>
    simp [dbm, dbmF, monthLen, yearLen, hl]

theorem monthDay_specF (f doy : Int) (h0 : 0 ≤ doy) (h1 : doy < 365 + f) (p : Int × Int)
    (hp : monthDay f doy = p) :
    1 ≤ p.1 ∧ p.1 ≤ 12 ∧ 1 ≤ p.2 ∧ dbmF f p.1 + (p.2 - 1) = doy ∧ p.2 ≤ mlenF f p.1 := by
  unfold monthDay at hp
  (repeat' split at hp) <;> subst hp <;> simp [dbmF, mlenF] <;> omega

theorem monthDay_spec (y doy : Int) (h0 : 0 ≤ doy) (h1 : doy < yearLen y) :
    1 ≤ (monthDay (leapDay y) doy).1 ∧ (monthDay (leapDay y) doy).1 ≤ 12 ∧
    1 ≤ (monthDay (leapDay y) doy).2 ∧ (monthDay (leapDay y) doy).2 ≤ monthLen y (monthDay (leapDay y) doy).1 ∧
    dbm y (monthDay (leapDay y) doy).1 + ((monthDay (leapDay y) doy).2 - 1) = doy := by
  have := monthDay_specF (leapDay y) doy h0 h1 _ rfl
  simp only [monthLen_eq, dbm]; omega

theorem dbmF_uniq (f m d m' d' : Int) (hm1 : 1 ≤ m) (hm2 : m ≤ 12) (hd1 : 1 ≤ d)
    (hd2 : d ≤ mlenF f m) (hm1' : 1 ≤ m') (hm2' : m' ≤ 12) (hd1' : 1 ≤ d') (hd2' : d' ≤ mlenF f m')
    (hf : f = 0 ∨ f = 1) (e : dbmF f m + d = dbmF f m' + d') : m = m' ∧ d = d' := by
  have hm : m = 1 ∨ m = 2 ∨ m = 3 ∨ m = 4 ∨ m = 5 ∨ m = 6 ∨ m = 7 ∨ m = 8 ∨ m = 9 ∨ m = 10 ∨ m = 11 ∨ m = 12 := by
    omega
  have hm' : m' = 1 ∨ m' = 2 ∨ m' = 3 ∨ m' = 4 ∨ m' = 5 ∨ m' = 6 ∨ m' = 7 ∨ m' = 8 ∨ m' = 9 ∨ m' = 10 ∨
      m' = 11 ∨ m' = 12 := by omega
  rcases hm with h | h | h | h | h | h | h | h | h | h | h | h <;> subst h <;> simp [dbmF, mlenF] at e hd2 <;>
  rcases hm' with h | h | h | h | h | h | h | h | h | h | h | h <;> subst h <;> simp [mlenF] at e hd2' <;> omega

theorem monthDay_dbm (y m d : Int) (hm1 : 1 ≤ m) (hm2 : m ≤ 12) (hd1 : 1 ≤ d) (hd2 : d ≤ monthLen y m) :
    monthDay (leapDay y) (dbm y m + (d - 1)) = (m, d) := by
  have hb := dbm_bound y m hm1 hm2
  have hs := monthDay_specF (leapDay y) (dbm y m + (d - 1)) (by omega) (by unfold yearLen at hb; omega) _ rfl
  have := dbmF_uniq (leapDay y) _ _ m d hs.1 hs.2.1 hs.2.2.1 hs.2.2.2.2 hm1 hm2 hd1 hd2 (leapDay_01 y)
    (by unfold dbm at *; omega)
  exact Prod.ext this.1 this.2

/-! ### day numbers <-> civil dates -/

theorem civilFromDays_valid (z : Int) : (civilFromDays z).Valid := by
  have hy := yearOf_spec (z + epochOrd)
  rw [dby_succ] at hy
  have := monthDay_spec (yearOf (z + epochOrd)) (z + epochOrd - dby (yearOf (z + epochOrd))) (by omega) (by omega)
  simp only [Date.Valid, civilFromDays]
  omega

/-- `daysFromCivil ∘ civilFromDays = id` on all of ℤ. -/
theorem daysFromCivil_civilFromDays (z : Int) : daysFromCivil (civilFromDays z) = z := by
  have hy := yearOf_spec (z + epochOrd)
  rw [dby_succ] at hy
  have := monthDay_spec (yearOf (z + epochOrd)) (z + epochOrd - dby (yearOf (z + epochOrd))) (by omega) (by omega)
  simp only [daysFromCivil, civilFromDays]
  omega

/-- `civilFromDays ∘ daysFromCivil = id` on valid dates. -/
theorem civilFromDays_daysFromCivil (c : Date) (h : c.Valid) : civilFromDays (daysFromCivil c) = c := by
  obtain ⟨y, m, d⟩ := c
  simp only [Date.Valid] at h
  have hb := dbm_bound y m h.1 h.2.1
  have hy : yearOf (dby y + dbm y m + (d - 1)) = y := by
    apply yearOf_eq
    · omega
    · rw [dby_succ]; omega
  have e : daysFromCivil ⟨y, m, d⟩ + epochOrd = dby y + dbm y m + (d - 1) := by simp [daysFromCivil]
  simp only [civilFromDays, e, hy]
  have e2 : dby y + dbm y m + (d - 1) - dby y = dbm y m + (d - 1) := by omega
  rw [e2, monthDay_dbm y m d h.1 h.2.1 h.2.2.1 h.2.2.2]

theorem daysFromCivil_inj {c c' : Date} (h : c.Valid) (h' : c'.Valid) (e : daysFromCivil c = daysFromCivil c') :
    c = c' := by
  rw [← civilFromDays_daysFromCivil c h, ← civilFromDays_daysFromCivil c' h', e]

theorem civilFromDays_eq_iff {z : Int} {c : Date} (h : c.Valid) : civilFromDays z = c ↔ daysFromCivil c = z := by
  constructor
  · intro e; rw [← e, daysFromCivil_civilFromDays]
  · intro e; rw [← e, civilFromDays_daysFromCivil c h]

/-! ### weekday -/

theorem weekday_range (z : Int) : 0 ≤ weekday z ∧ weekday z ≤ 6 := by unfold weekday; omega

theorem weekday_add_seven (z k : Int) : weekday (z + 7 * k) = weekday z := by unfold weekday; omega

/-! ### second counts <-> civil datetimes -/

theorem civilOfSeconds_date (t : Int) : (civilOfSeconds t).date = civilFromDays (t / 86400) := rfl

theorem civilOfSeconds_valid (t : Int) : (civilOfSeconds t).Valid := by
  have := civilFromDays_valid (t / 86400)
  refine ⟨this, ?_⟩
  simp only [civilOfSeconds]
  omega

/-- `secondsOfCivil ∘ civilOfSeconds = id` on all of ℤ. -/
theorem secondsOfCivil_civilOfSeconds (t : Int) : secondsOfCivil (civilOfSeconds t) = t := by
  simp only [secondsOfCivil, civilOfSeconds_date, daysFromCivil_civilFromDays]
  simp only [civilOfSeconds]
  omega

/-- `civilOfSeconds ∘ secondsOfCivil = id` on valid datetimes. -/
theorem civilOfSeconds_secondsOfCivil (c : Civil) (h : c.Valid) : civilOfSeconds (secondsOfCivil c) = c := by
  obtain ⟨y, m, d, hh, mm, ss⟩ := c
  obtain ⟨hd, h⟩ := h
  simp only at h
  have e1 : secondsOfCivil ⟨y, m, d, hh, mm, ss⟩ / 86400 = daysFromCivil ⟨y, m, d⟩ := by
    simp only [secondsOfCivil, Civil.date]; omega
  have e2 : secondsOfCivil ⟨y, m, d, hh, mm, ss⟩ % 86400 = hh * 3600 + mm * 60 + ss := by
    simp only [secondsOfCivil, Civil.date]; omega
  have e3 := civilFromDays_daysFromCivil ⟨y, m, d⟩ hd
  simp only [civilOfSeconds, e1, e2, e3]
  congr 1 <;> omega

/-- The civil reading of a second count is unique: two valid datetimes with the same count are equal. -/
theorem secondsOfCivil_inj {c c' : Civil} (h : c.Valid) (h' : c'.Valid) (e : secondsOfCivil c = secondsOfCivil c') :
    c = c' := by
  rw [← civilOfSeconds_secondsOfCivil c h, ← civilOfSeconds_secondsOfCivil c' h', e]

/-- `local(u)` of `_datetimemodule.c` is the local reading `u + offset(u)`. -/
theorem localOf_eq (Z : Zone) (u : Int) : localOf Z u = Z.loc u := secondsOfCivil_civilOfSeconds _

/-- Seconds of the midnight starting a day. -/
theorem secondsOfCivil_midnight (dt : Date) : secondsOfCivil dt.midnight = daysFromCivil dt * 86400 := by
  simp [secondsOfCivil, Date.midnight, Civil.date]

end QtVerif.Calendar
