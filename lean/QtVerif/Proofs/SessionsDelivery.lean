import QtVerif.Proofs.SessionsProj
/-!
Run-level delivery lemmas for C11, part 3: conservation and provenance lifted from the one-session run
`runS` to the full run `run` through the projection `run_proj`.
-/
namespace QtVerif.Sessions

/-- trigger serials are handed out in strictly increasing order -/
def SerialsIncreasing (ops : List Op) : Prop := (trigs ops).Pairwise (fun a b => a.id < b.id)

/-- session `sid` of the final state of the run (`none` when it does not exist any more) -/
def finalSess (filt : Bool) (cap fac sid : Nat) (ops : List Op) : Option Sess :=
  find sid (run filt cap fac State.init ops).1.sessions

theorem delivered_pend_sublist (filt : Bool) (cap fac sid : Nat) (ops : List Op)
    (hsep : ReqsSeparate sid ops) :
    (delivered filt cap fac sid ops ++ pend (finalSess filt cap fac sid ops)).Sublist (trigs ops) := by
  have h := responsesOf_eq_runS filt cap fac sid ops hsep
  have := runS_sublist filt cap fac sid ops none
  simp only [delivered, finalSess, h.1, h.2]
  simpa [pend] using this

theorem delivered_sublist (filt : Bool) (cap fac sid : Nat) (ops : List Op)
    (hsep : ReqsSeparate sid ops) : (delivered filt cap fac sid ops).Sublist (trigs ops) :=
  (List.sublist_append_left _ _).trans (delivered_pend_sublist filt cap fac sid ops hsep)

theorem delivered_permitted (filt : Bool) (cap fac sid : Nat) (ops : List Op)
    (hsep : ReqsSeparate sid ops) :
    ∀ x ∈ delivered filt cap fac sid ops ++ pend (finalSess filt cap fac sid ops),
      ∃ pre post s, ops = pre ++ Op.trigger x :: post ∧
        find sid (run filt cap fac State.init pre).1.sessions = some s ∧ x.req ≤ s.level := by
  intro x hx
  have h := responsesOf_eq_runS filt cap fac sid ops hsep
  simp only [delivered, finalSess, h.1, h.2] at hx
  obtain ⟨pre, post, s, h1, h2, h3⟩ := runS_provenance filt cap fac sid ops x hx
  refine ⟨pre, post, s, h1, ?_, h3⟩
  rw [prefix_find_eq_runS filt cap fac sid pre (Op.trigger x :: post) (h1 ▸ hsep)]
  exact h2

theorem delivered_in_response (filt : Bool) (cap fac sid : Nat) (ops : List Op) :
    ∀ x ∈ delivered filt cap fac sid ops,
      ∃ r ∈ (run filt cap fac State.init ops).2, r.req ∈ reqsOf sid ops ∧ x ∈ r.events := by
  intro x hx
  simp only [delivered, evs, List.mem_flatMap, responsesOf, List.mem_filter, decide_eq_true_eq] at hx
  obtain ⟨r, ⟨h1, h2⟩, h3⟩ := hx
  exact ⟨r, h1, h2, h3⟩

/-- decidable sufficient check for `ReqsSeparate` (used by the concrete examples) -/
def reqsSeparateB (sid : Nat) (ops : List Op) : Bool :=
  ops.all (fun op => match op with
    | .listen s r _ _ _ => decide (s = sid) || !decide (r ∈ reqsOf sid ops)
    | _ => true)

theorem reqsSeparate_of_check {sid : Nat} {ops : List Op} (h : reqsSeparateB sid ops = true) :
    ReqsSeparate sid ops := by
  intro s r l t n hm hne hr
  have := List.all_eq_true.mp h _ hm
  simp only [Bool.or_eq_true, decide_eq_true_eq, Bool.not_eq_true', decide_eq_false_iff_not] at this
  rcases this with h1 | h1
  · exact hne h1
  · exact h1 hr

end QtVerif.Sessions
