import QtVerif.Proofs.StoreStrong
/-!
Helper lemmas for C06, part 7: `FileWF` (the hypothesis of `reload_identity`) holds in every state the JSON driver
reaches from the empty store through operations that carry well-formed values (`OpWF`).
-/
namespace QtVerif.Store

/-- the value stored under the key `k` does not turn the dict into a tagged date -/
def okAt (k : Str) (v : JVal) : Prop := k = kT → ∀ t, v = .str t → t ≠ tD ∧ t ≠ tDT

theorem WFObj_mem (ft : FloatText) : ∀ (o : List (Str × JVal)), WFObj ft o → ∀ kv ∈ o, (∀ c ∈ kv.1, Scalar c) ∧ WF ft kv.2 := by
  intro o
  induction o with
  | nil => intro _ kv hkv; cases hkv
  | cons a t ih =>
    obtain ⟨k, x⟩ := a
    intro h kv hkv
    simp only [WFObj] at h
    rcases List.mem_cons.mp hkv with e | e
    · subst e; exact ⟨h.1, h.2.1⟩
    · exact ih h.2.2 kv e

theorem WFObj_dset (ft : FloatText) (k : Str) (v : JVal) (hk : ∀ c ∈ k, Scalar c) (hv : WF ft v) :
    ∀ (o : List (Str × JVal)), WFObj ft o → WFObj ft (dset k v o) := by
  intro o
  induction o with
  | nil => intro _; simp only [dset, WFObj]; exact ⟨hk, hv, trivial⟩
  | cons a t ih =>
    obtain ⟨k', x⟩ := a
    intro h
    simp only [WFObj] at h
    by_cases e : k' = k
    · simp only [dset, e, if_true, WFObj]; exact ⟨hk, hv, h.2.2⟩
    · simp only [dset, e, if_false, WFObj]; exact ⟨h.1, h.2.1, ih h.2.2⟩

theorem noTag_dset (k : Str) (v : JVal) (o : List (Str × JVal)) (h : noTag o) (hv : okAt k v) : noTag (dset k v o) := by
  unfold noTag
  by_cases e : k = kT
  · subst e
    rw [dget_dset_self]
    cases v with
    | str t => exact hv rfl t rfl
    | _ => trivial
  · rw [dget_dset_ne kT k v o (fun x => e x.symm)]
    exact h

theorem WF_obj_dset (ft : FloatText) (k : Str) (v : JVal) (o : List (Str × JVal)) (hk : ∀ c ∈ k, Scalar c)
    (hv : WF ft v) (ho : okAt k v) (h : WF ft (.obj o)) : WF ft (.obj (dset k v o)) := by
  simp only [WF] at h ⊢
  exact ⟨WFObj_dset ft k v hk hv o h.1, nodup_dkeys_dset k v o h.2.1, noTag_dset k v o h.2.2 ho⟩

theorem WF_obj_dupdate (ft : FloatText) : ∀ (part d : List (Str × JVal)),
    (∀ kv ∈ part, (∀ c ∈ kv.1, Scalar c) ∧ WF ft kv.2 ∧ okAt kv.1 kv.2) → WF ft (.obj d) → WF ft (.obj (dupdate d part)) := by
  intro part
  induction part with
  | nil => intro d _ h; exact h
  | cons a t ih =>
    obtain ⟨k, v⟩ := a
    intro d hp h
    have h0 := hp (k, v) (by simp)
    exact ih (dset k v d) (fun kv hkv => hp kv (by simp [hkv])) (WF_obj_dset ft k v d h0.1 h0.2.1 h0.2.2 h)

/-- the members of a well-formed dict can be written into another one -/
theorem WF_obj_members (ft : FloatText) (part : List (Str × JVal)) (h : WF ft (.obj part)) :
    ∀ kv ∈ part, (∀ c ∈ kv.1, Scalar c) ∧ WF ft kv.2 ∧ okAt kv.1 kv.2 := by
  simp only [WF] at h
  intro kv hkv
  obtain ⟨h1, h2⟩ := WFObj_mem ft part h.1 kv hkv
  refine ⟨h1, h2, ?_⟩
  intro e t ht
  have hg : dget kT part = some kv.2 := by
    have := dget_of_mem_nodup kv.1 kv.2 part h.2.1 hkv
    rw [e] at this; exact this
  have hn := h.2.2
  unfold noTag at hn
  rw [hg, ht] at hn
  exact hn

theorem okAt_id (v : JVal) : okAt kId v := by
  intro e; exact absurd e (by decide)

theorem scalar_of_digits (s : Str) (h : s.all isDigit = true) : ∀ c ∈ s, Scalar c := by
  intro c hc
  have := List.all_eq_true.mp h c hc
  simp only [isDigit, Bool.and_eq_true, decide_eq_true_eq] at this
  left; omega

/-! ### collections -/

/-- a collection of the file: the driver's invariant, well-formed records -/
def CollWF (ft : FloatText) (c : JColl) : Prop := JCollOK c ∧ ∀ q ∈ c, WF ft (.obj q.2)

theorem FileWF.aget {ft : FloatText} {js : JState} (h : FileWF ft js) (coll : Str) : CollWF ft (aget [] coll js) := by
  induction js with
  | nil => exact ⟨⟨by simp [Store.aget, dkeys], by simp [Store.aget]⟩, by simp [Store.aget]⟩
  | cons a t ih =>
    obtain ⟨k, c⟩ := a
    by_cases e : k = coll
    · simp only [Store.aget, e, if_true]; exact h (k, c) (by simp)
    · simp only [Store.aget, e, if_false]; exact ih (fun p hp => h p (by simp [hp]))

theorem FileWF.aset {ft : FloatText} {js : JState} (h : FileWF ft js) (coll : Str) (c : JColl) (hc : CollWF ft c) :
    FileWF ft (aset coll c js) := by
  intro p hp
  rw [aset_eq_dset] at hp
  rcases mem_dset coll c js p hp with e | e
  · subst e; exact hc
  · exact h p e

theorem CollWF.append {ft : FloatText} {c : JColl} (h : CollWF ft c) (i : Str) (d : Fields) (hi : i ∉ dkeys c)
    (hd : dget kId d = some (.str i)) (hw : WF ft (.obj d)) : CollWF ft (dset i d c) := by
  rw [dset_of_not_mem _ _ _ hi]
  refine ⟨h.1.append i d hi hd, ?_⟩
  intro q hq
  rcases List.mem_append.mp hq with e | e
  · exact h.2 q e
  · simp only [List.mem_singleton] at e; subst e; exact hw

theorem CollWF.dset_mem {ft : FloatText} {c : JColl} (h : CollWF ft c) (i : Str) (d : Fields) (hi : i ∈ dkeys c)
    (hd : dget kId d = some (.str i)) (hw : WF ft (.obj d)) : CollWF ft (dset i d c) := by
  refine ⟨(h.1.dset_mem i d hi hd).1, ?_⟩
  intro q hq
  rcases mem_dset i d c q hq with e | e
  · subst e; exact hw
  · exact h.2 q e

theorem CollWF.sub {ft : FloatText} {c c' : JColl} (h : CollWF ft c) (hs : c'.Sublist c) : CollWF ft c' :=
  ⟨⟨h.1.1.sublist (hs.map Prod.fst), fun p hp => h.1.2 p (hs.subset hp)⟩, fun q hq => h.2 q (hs.subset hq)⟩

theorem dpop_sublist {β : Type} (k : Str) (d : List (Str × β)) : (dpop k d).Sublist d := by
  induction d with
  | nil => simp [dpop]
  | cons a t ih =>
    obtain ⟨k', v'⟩ := a
    by_cases h1 : k' = k
    · simp only [dpop, h1, if_true]; exact List.sublist_cons_self _ _
    · simp only [dpop, h1, if_false]; exact List.Sublist.cons_cons _ ih

theorem remLoop_sublist (filt : Fields) : ∀ c : JColl, (Json.remLoop filt c).1.Sublist c := by
  intro c
  induction c with
  | nil => simp [Json.remLoop]
  | cons a t ih =>
    obtain ⟨k, d⟩ := a
    cases hr : Json.remLoop filt t with
    | mk t' ne =>
      rw [hr] at ih
      simp only [Json.remLoop, hr]
      split
      · exact List.Sublist.refl _
      · exact List.Sublist.cons_cons _ ih
      · exact List.Sublist.cons _ ih

/-- what the generic path of update leaves: the same keys, every record either untouched or updated -/
theorem updLoop_wf (ft : FloatText) (part filt : Fields) (hp : dget kId part = none)
    (hw : ∀ d, WF ft (.obj d) → WF ft (.obj (dupdate d part))) :
    ∀ c : JColl, (∀ q ∈ c, dget kId q.2 = some (.str q.1) ∧ WF ft (.obj q.2)) →
      dkeys (Json.updLoop part filt c).1 = dkeys c ∧
      ∀ q ∈ (Json.updLoop part filt c).1, dget kId q.2 = some (.str q.1) ∧ WF ft (.obj q.2) := by
  intro c
  induction c with
  | nil => intro _; simp [Json.updLoop, dkeys]
  | cons a t ih =>
    obtain ⟨k, d⟩ := a
    intro h
    have h0 := h (k, d) (by simp)
    have iht := ih (fun q hq => h q (by simp [hq]))
    cases hr : Json.updLoop part filt t with
    | mk t' ne =>
      rw [hr] at iht
      simp only [Json.updLoop, hr]
      split
      · exact ⟨rfl, h⟩
      · refine ⟨by simp only [dkeys, List.map_cons] at iht ⊢; rw [iht.1], ?_⟩
        intro q hq
        rcases List.mem_cons.mp hq with e | e
        · subst e; exact h0
        · exact iht.2 q e
      · refine ⟨by simp only [dkeys, List.map_cons] at iht ⊢; rw [iht.1], ?_⟩
        intro q hq
        rcases List.mem_cons.mp hq with e | e
        · subst e
          exact ⟨by simp only; rw [dget_dupdate_of_none kId d part hp]; exact h0.1, hw d h0.2⟩
        · exact iht.2 q e

/-! ### operations and runs -/

/-- what the caller passes is well-formed: records and update parts are well-formed dicts (`WF`: finite floats,
strings of Unicode scalar values, distinct keys, nothing that looks like a tagged date, dates that `strptime` reads
back), an update part does not name "id", a replace id is a string of scalar values -/
def OpWF (ft : FloatText) : Op → Prop
  | .insert _ rec => WF ft (.obj rec)
  | .update _ part _ => WF ft (.obj part) ∧ dget kId part = none
  | .replace _ id rec => WF ft (.obj rec) ∧ ∀ c ∈ id, Scalar c
  | _ => True

theorem str_scalar_of_rec (ft : FloatText) (rec : Fields) (i : Str) (h : WF ft (.obj rec)) (hid : dget kId rec = some (.str i)) :
    ∀ c ∈ i, Scalar c := by
  simp only [WF] at h
  have := (WFObj_mem ft rec h.1 (kId, .str i) (dget_mem _ _ _ hid)).2
  simpa [WF] using this

theorem kId_scalar : ∀ c ∈ kId, Scalar c := by
  intro c hc
  simp only [kId, List.mem_cons, List.mem_nil_iff, or_false] at hc
  rcases hc with rfl | rfl <;> (left; decide)

theorem WF_with_id (ft : FloatText) (rec : Fields) (i : Str) (h : WF ft (.obj rec)) (hi : ∀ c ∈ i, Scalar c) :
    WF ft (.obj (dset kId (.str i) rec)) :=
  WF_obj_dset ft kId (.str i) rec kId_scalar (by simpa [WF] using hi) (okAt_id _) h

/-- every operation of the JSON driver keeps the file well-formed -/
theorem fileWF_step (fx : Fix) (ft : FloatText) (law : FtLaw ft) (js : JState) (h : FileWF ft js) (op : Op)
    (hop : OpWF ft op) : FileWF ft (Json.step fx ft js op).1 := by
  cases op with
  | insert coll rec =>
    have hc := h.aget coll
    have auto : FileWF ft (aset coll (dset (Json.findNextId (aget [] coll js))
        (dset kId (.str (Json.findNextId (aget [] coll js))) rec) (aget [] coll js)) js) := by
      apply h.aset coll
      apply hc.append _ _ (findNextId_fresh _) (dget_dset_self _ _ _)
      exact WF_with_id ft rec _ hop (scalar_of_digits _ (toDec_digits _))
    cases hid : dget kId rec with
    | none => simp only [Json.step, hid]; exact auto
    | some v =>
      cases v with
      | null => simp only [Json.step, hid]; exact auto
      | str i =>
        simp only [Json.step, hid]
        split
        · exact h
        · rename_i hn
          have hm : i ∉ dkeys (aget [] coll js) := by
            intro hm
            exact hn ((dget_isSome_iff _ _).mpr hm)
          exact h.aset coll _ (hc.append i rec hm hid hop)
      | bool b => simp only [Json.step, hid]; exact h
      | int b => simp only [Json.step, hid]; exact h
      | num b => simp only [Json.step, hid]; exact h
      | date a b => simp only [Json.step, hid]; exact h
      | arr b => simp only [Json.step, hid]; exact h
      | obj b => simp only [Json.step, hid]; exact h
  | update coll part filt =>
    have hc := h.aget coll
    obtain ⟨hpw, hpid⟩ := hop
    have hw : ∀ d, WF ft (.obj d) → WF ft (.obj (dupdate d part)) :=
      fun d hd => WF_obj_dupdate ft part d (WF_obj_members ft part hpw) hd
    have byid : ∀ i d, dget i (aget [] coll js) = some d →
        FileWF ft (aset coll (dset i (dupdate d part) (aget [] coll js)) js) := by
      intro i d hd
      have hmem : i ∈ dkeys (aget [] coll js) := (dget_isSome_iff _ _).mp (by rw [hd]; rfl)
      have hq := dget_mem i d _ hd
      apply h.aset coll
      apply hc.dset_mem i _ hmem
      · rw [dget_dupdate_of_none kId d part hpid]; exact hc.1.2 (i, d) hq
      · exact hw d (hc.2 (i, d) hq)
    simp only [Json.step]
    split
    · split
      · exact h.aset coll _ hc
      · rename_i d hd
        split
        · split
          · exact h
          · exact h.aset coll _ hc
          · exact byid _ d hd
        · exact byid _ d hd
    · cases hr : Json.updLoop part filt (aget [] coll js) with
      | mk c' ne =>
        have := updLoop_wf ft part filt hpid hw (aget [] coll js) (fun q hq => ⟨hc.1.2 q hq, hc.2 q hq⟩)
        rw [hr] at this
        simp only
        exact h.aset coll _ ⟨⟨by rw [this.1]; exact hc.1.1, fun q hq => (this.2 q hq).1⟩, fun q hq => (this.2 q hq).2⟩
  | replace coll id rec =>
    have hc := h.aget coll
    simp only [Json.step]
    split
    · exact h.aset coll _ hc
    · rename_i d hd
      have hmem : id ∈ dkeys (aget [] coll js) := (dget_isSome_iff _ _).mp (by rw [hd]; rfl)
      exact h.aset coll _ (hc.dset_mem id _ hmem (dget_dset_self _ _ _) (WF_with_id ft rec id hop.1 hop.2))
  | remove coll filt =>
    have hc := h.aget coll
    simp only [Json.step]
    split
    · split
      · exact h.aset coll _ hc
      · split
        · exact h
        · exact h.aset coll _ hc
        · exact h.aset coll _ (hc.sub (dpop_sublist _ _))
    · cases hr : Json.remLoop filt (aget [] coll js) with
      | mk c' ne =>
        have := remLoop_sublist filt (aget [] coll js)
        rw [hr] at this
        simp only
        exact h.aset coll _ (hc.sub this)
  | query coll fields filt sort limit =>
    rw [json_query_state]; exact h
  | reload =>
    rw [reload_identity fx ft law js h]; exact h

/-- the state of the JSON driver after a history of operations -/
def runJson (fx : Fix) (ft : FloatText) : JState → List Op → JState
  | s, [] => s
  | s, op :: t => runJson fx ft (Json.step fx ft s op).1 t

theorem fileWF_run_from (fx : Fix) (ft : FloatText) (law : FtLaw ft) :
    ∀ (ops : List Op) (js : JState), FileWF ft js → (∀ op ∈ ops, OpWF ft op) → FileWF ft (runJson fx ft js ops) := by
  intro ops
  induction ops with
  | nil => intro js h _; exact h
  | cons op t ih =>
    intro js h hops
    exact ih _ (fileWF_step fx ft law js h op (hops op (by simp))) (fun o ho => hops o (by simp [ho]))

/-- `FileWF` holds in every state reached from the empty store -/
theorem fileWF_run (fx : Fix) (ft : FloatText) (law : FtLaw ft) (ops : List Op) (hops : ∀ op ∈ ops, OpWF ft op) :
    FileWF ft (runJson fx ft [] ops) :=
  fileWF_run_from fx ft law ops [] (fun p hp => by cases hp) hops

end QtVerif.Store
