import QtVerif.Proofs.SlaveGeneral
/-!
C12 additions.

A. `ExposedInv`: the value the master EXPOSES for a port (`lastRead`, what GET /ports shows) is the cached value
   whenever the remote queue is empty — so after the hub's ticks the exposed value is the newest remote value also
   when nothing was queued. `ExposedInvF fix` is what holds along every run of the combined action type `MAct`
   (listen batches / pushed events, ticks, going offline, refresh fetch, reconnect, poll, value-fetch answers,
   master-side edits): with `read_value` as found it is `ExposedInv`, and the ONE operation that breaks it is the
   offline value write (`write_value` stores the user's value in `_cached_value`; `_last_read_value` is not touched):
   `Guard`; with the repaired `read_value` (`keepPendingValue`) it claims `PortExposed` of the ports with no value
   pending (while one is pending `lastRead` follows the popped values and `cached` stays the user's), and the
   offline write is allowed.
B. Presentation layer (`Scheme`, `getAttr`, `presentKey`, `slaveName`, `Shown`): qtoggleserver/slaves/ports.py
   `MASTER_ATTRS`, `get_attr`, `set_attr` and the `<slave>.<id>` port id.
-/
namespace QtVerif.Slave

/-! ### A. The exposed value -/

/-- With nothing queued the exposed value is the cached one. -/
def PortExposed (p : MPort) : Prop := p.rq = [] → p.lastRead = p.cached
def ExposedL (l : List MPort) : Prop := ∀ p ∈ l, PortExposed p
def ExposedInv (m : Master) : Prop := ExposedL m.ports

/-- What holds along the runs, for the behaviour selected by `fix`. With `read_value` as found
(`keepPendingValue = false`) it is `PortExposed`. Repaired, a port on which a value is pending provisioning keeps the
user's value cached — there is one (`cached.isSome`: `write_value` stored it, the ticks leave it alone) — while
`lastRead` follows the values popped from the queue, so `PortExposed` is claimed only of the ports with NO VALUE
PENDING. -/
def PortExposedF (fix : Fix) (p : MPort) : Prop :=
  ((fix.keepPendingValue && p.provValue) = true → p.cached.isSome = true) ∧
  ((fix.keepPendingValue && p.provValue) = false → PortExposed p)
def ExposedLF (fix : Fix) (l : List MPort) : Prop := ∀ p ∈ l, PortExposedF fix p
def ExposedInvF (fix : Fix) (m : Master) : Prop := ExposedLF fix m.ports

/-- No value is pending provisioning on any port. -/
def NoValuePending (m : Master) : Prop := ∀ p ∈ m.ports, p.provValue = false

theorem portExposed_of_F {fix : Fix} {p : MPort} (h : PortExposedF fix p)
    (hpv : (fix.keepPendingValue && p.provValue) = false) : PortExposed p := h.2 hpv

theorem portExposedF_of {fix : Fix} {p : MPort} (h : PortExposed p) (hpv : p.provValue = false) :
    PortExposedF fix p :=
  ⟨fun hc => (by rw [hpv, Bool.and_false] at hc; cases hc), fun _ => h⟩

/-- `read_value` as found: the run invariant IS `ExposedInv`. -/
theorem exposedInvF_asFound (fix : Fix) (hk : fix.keepPendingValue = false) (m : Master) :
    ExposedInvF fix m ↔ ExposedInv m := by
  constructor
  · intro h p hp; exact (h p hp).2 (by rw [hk]; rfl)
  · intro h p hp
    exact ⟨fun hc => (by rw [hk, Bool.false_and] at hc; cases hc), fun _ => h p hp⟩

/-- Whatever `fix`: with no value pending, the run invariant is `ExposedInv`. -/
theorem exposedInvF_noValuePending (fix : Fix) (m : Master) (hn : NoValuePending m) :
    ExposedInvF fix m ↔ ExposedInv m := by
  constructor
  · intro h p hp; exact (h p hp).2 (by rw [hn p hp, Bool.and_false])
  · intro h p hp; exact portExposedF_of (h p hp) (hn p hp)

theorem exposed_init (mode : Mode) : ExposedInv (Master.init mode) := by intro p hp; cases hp
theorem exposedF_init (fix : Fix) (mode : Mode) : ExposedInvF fix (Master.init mode) := by intro p hp; cases hp

theorem exposed_push (p : MPort) (v : PVal) : PortExposed (p.push v) := by
  intro h; simp [MPort.push] at h

theorem exposedF_push (fix : Fix) (p : MPort) (v : PVal) (h : PortExposedF fix p) : PortExposedF fix (p.push v) :=
  ⟨h.1, fun _ => exposed_push p v⟩

theorem exposedLF_updPort {fix : Fix} {l : List MPort} (i : Nat) (f : MPort → MPort)
    (hf : ∀ p, PortExposedF fix p → PortExposedF fix (f p)) (h : ExposedLF fix l) : ExposedLF fix (updPort l i f) := by
  intro q hq
  unfold updPort at hq
  obtain ⟨p, hp, rfl⟩ := List.mem_map.mp hq
  split
  · exact hf p (h p hp)
  · exact h p hp

theorem exposedF_applyPortUpdate (fix : Fix) (p : MPort) (msg : PortMsg) (h : PortExposedF fix p) :
    PortExposedF fix (applyPortUpdate fix p msg).1 := by
  unfold applyPortUpdate
  simp only
  split
  · exact ⟨h.1, fun _ hq => (by simp [MPort.push] at hq)⟩
  · exact h

theorem exposedF_mkPort (fix : Fix) (msg : PortMsg) : PortExposedF fix (mkPort msg) :=
  ⟨fun hc => (by simp [mkPort] at hc), fun _ _ => rfl⟩

theorem exposed_stepEvent (fix : Fix) (m : Master) (e : Ev) (h : ExposedInvF fix m) :
    ExposedInvF fix (stepEvent fix m e) := by
  cases e with
  | valueChange i v =>
    rw [stepEvent_valueChange]
    split
    · exact h
    · split
      · exact h
      · exact exposedLF_updPort _ _ (fun p hp => exposedF_push fix p v hp) h
  | portUpdate msg =>
    rw [stepEvent_portUpdate]
    split
    · exact h
    · exact exposedLF_updPort _ _ (fun p hp => exposedF_applyPortUpdate fix p msg hp) h
  | portAdd msg =>
    rw [stepEvent_portAdd]
    split
    · exact h
    · intro q hq
      rcases List.mem_append.mp hq with hq | hq
      · exact h q hq
      · simp only [List.mem_singleton] at hq; subst hq; exact exposedF_mkPort fix msg
  | portRemove i =>
    rw [stepEvent_portRemove]
    split
    · exact h
    · intro q hq
      exact h q (List.mem_filter.mp hq).1
  | deviceUpdate a =>
    rw [stepEvent_deviceUpdate]
    split <;> exact h

theorem exposed_handleEvents (fix : Fix) (evs : List Ev) (m : Master) (h : ExposedInvF fix m) :
    ExposedInvF fix (handleEvents fix m evs) :=
  foldl_preserves (ExposedInvF fix) (stepEvent fix) (fun a e ha => exposed_stepEvent fix a e ha) evs m h

/-- One `read_value`. As found the popped value becomes both the exposed and the cached one; repaired, with a value
pending, it becomes the exposed one only and the cached value stays the user's. -/
theorem exposed_tickPort (fix : Fix) (p : MPort) (h : PortExposedF fix p) : PortExposedF fix (tickPort fix p).2 := by
  unfold tickPort
  split
  · exact h
  · split
    · exact h
    · rename_i v rest _
      refine ⟨fun hc => ?_, fun hc _ => ?_⟩
      · have hc' : (fix.keepPendingValue && p.provValue) = true := hc
        show (if (fix.keepPendingValue && p.provValue) = true then p.cached else v).isSome = true
        rw [if_pos hc']; exact h.1 hc'
      · have hc' : (fix.keepPendingValue && p.provValue) = false := hc
        show v = (if (fix.keepPendingValue && p.provValue) = true then p.cached else v)
        rw [if_neg (by rw [hc']; decide)]

theorem exposed_drainPort (fix : Fix) (n : Nat) (p : MPort) (h : PortExposedF fix p) :
    PortExposedF fix (drainPort fix n p).2 := by
  induction n generalizing p with
  | zero => exact h
  | succ k ih =>
    unfold drainPort
    split
    · exact h
    · exact ih _ (exposed_tickPort fix p h)

theorem exposed_drain (fix : Fix) (m : Master) (h : ExposedInvF fix m) : ExposedInvF fix (drain fix m).2 := by
  intro q hq
  unfold drain at hq
  simp only [List.map_map] at hq
  obtain ⟨p, hp, rfl⟩ := List.mem_map.mp hq
  exact exposed_drainPort fix _ p (h p hp)

theorem exposed_fetchPorts (fix : Fix) (m : Master) (resp : List PortMsg) (h : ExposedInvF fix m) :
    ExposedInvF fix (fetchPorts fix m resp) := by
  rw [fetchPorts_eq]
  have h1 := foldl_preserves (ExposedInvF fix) (fetch1 fix (m.ports.map (·.id)))
    (fun a b ha => by unfold fetch1; split; exact exposed_stepEvent fix a _ ha; exact ha) resp m h
  have h2 := foldl_preserves (ExposedInvF fix) (fetch2 fix (m.ports.map (·.id)))
    (fun a b ha => by unfold fetch2; split; exact ha; exact exposed_stepEvent fix a _ ha) resp _ h1
  intro q hq
  exact h2 q (List.mem_filter.mp hq).1

theorem exposed_ite (fix : Fix) (c : Prop) [Decidable c] (a : Master) (e : Ev) (h : ExposedInvF fix a) :
    ExposedInvF fix (if c then stepEvent fix a e else a) := by
  split
  · exact exposed_stepEvent fix a e h
  · exact h

theorem exposed_pollPorts (fix : Fix) (m : Master) (resp : List PortMsg) (h : ExposedInvF fix m) :
    ExposedInvF fix (pollPorts fix m resp) := by
  rw [pollPorts_eq]
  have h1 := foldl_preserves (ExposedInvF fix) (poll1 fix (m.ports.map (·.id)))
    (fun a b ha => by unfold poll1; split; exact ha; exact exposed_stepEvent fix a _ ha) resp m h
  have h2 := foldl_preserves (ExposedInvF fix) (poll2 fix (resp.map (·.id)))
    (fun a b ha => by unfold poll2; split; exact ha; exact exposed_stepEvent fix a _ ha) (m.ports.map (·.id)) _ h1
  refine foldl_preserves (ExposedInvF fix) (poll3 fix resp) ?_ m.ports _ h2
  intro a lp ha
  unfold poll3
  split
  · exact ha
  · exact exposed_ite fix _ _ _ (exposed_ite fix _ _ _ ha)

theorem exposed_valueResp (fix : Fix) (m : Master) (i : Nat) (v : PVal) (h : ExposedInvF fix m) :
    ExposedInvF fix (valueResp m i v) := by
  unfold valueResp
  split
  · exact h
  · exact exposedLF_updPort _ _ (fun p hp => exposedF_push fix p _ hp) h

/-- An ONLINE value write: the written value is queued as the newest remote value (or nothing changes). -/
theorem exposed_editValue_online (fix : Fix) (m : Master) (hon : m.online = true) (i : Nat) (v : Int) (ok : Bool)
    (h : ExposedInvF fix m) : ExposedInvF fix (editValue m i v ok).1 := by
  unfold editValue
  simp only [hon, if_true]
  split
  · exact exposedLF_updPort _ _ (fun p hp => exposedF_push fix p _ hp) h
  · exact h

/-- An OFFLINE value write under the repaired `read_value`: the port now has a value pending, and it is cached. -/
theorem exposed_editValue_repaired (fix : Fix) (hk : fix.keepPendingValue = true) (m : Master) (i : Nat) (v : Int)
    (ok : Bool) (h : ExposedInvF fix m) : ExposedInvF fix (editValue m i v ok).1 := by
  cases hon : m.online with
  | true => exact exposed_editValue_online fix m hon i v ok h
  | false =>
    unfold editValue
    simp only [hon, Bool.false_eq_true, if_false]
    refine exposedLF_updPort _ _ (fun p _ => ⟨fun _ => rfl, fun hc => ?_⟩) h
    have hc' : (fix.keepPendingValue && true) = false := hc
    rw [hk] at hc'; cases hc'

theorem exposed_editAttr (fix : Fix) (m : Master) (i n : Nat) (v : Int) (h : ExposedInvF fix m) :
    ExposedInvF fix (editAttr m i n v).1 := by
  unfold editAttr
  split
  · exact h
  · exact exposedLF_updPort _ _ (fun p hp => hp) h

theorem exposed_editDev (fix : Fix) (m : Master) (n : Nat) (v : Int) (h : ExposedInvF fix m) :
    ExposedInvF fix (editDev m n v).1 := by
  unfold editDev
  split <;> exact h

theorem exposed_goOffline (fix : Fix) (m : Master) (h : ExposedInvF fix m) : ExposedInvF fix (goOffline m) := h

/-- Every pending value will be pushed with a body and accepted (trivially true when no value is pending). -/
def PushesAccepted (fix : Fix) (rf : List Nat) (l : List MPort) : Prop :=
  ∀ p ∈ l, p.pendValue.isSome → fix.valueBody = true ∧ rf.contains p.id = false

/-- `apply_provisioning` clears the pending value; the pushed value has been queued, so nothing is claimed of the
exposed value until the ticks have read it. -/
theorem exposedL_provisionPorts (fix : Fix) (rf : List Nat) (l : List MPort) (h : ExposedLF fix l)
    (hg : PushesAccepted fix rf l) : ExposedLF fix (provisionPorts fix rf l).2 := by
  induction l with
  | nil => intro p hp; cases hp
  | cons a t ih =>
    intro q hq
    simp only [provisionPorts, List.mem_cons] at hq
    rcases hq with hq | hq
    · subst hq
      have ha := h a (List.mem_cons_self ..)
      have hga := hg a (List.mem_cons_self ..)
      refine ⟨fun hc => ?_, fun _ => ?_⟩
      · have hc' : (fix.keepPendingValue && false) = true := hc
        rw [Bool.and_false] at hc'; cases hc'
      · unfold provisionPort PortExposed
        simp only
        cases hpv : a.pendValue with
        | none =>
          cases hc : (fix.keepPendingValue && a.provValue) with
          | false => exact ha.2 hc
          | true =>
            have h1 := ha.1 hc
            have h2 : a.provValue = true := by
              cases hx : a.provValue with
              | true => rfl
              | false => rw [hx, Bool.and_false] at hc; cases hc
            unfold MPort.pendValue at hpv
            rw [h2] at hpv
            simp only [if_true] at hpv
            rw [hpv] at h1; cases h1
        | some v =>
          obtain ⟨g1, g2⟩ := hga (by rw [hpv]; rfl)
          simp only [g1, g2, Bool.not_false, Bool.and_self, if_true]
          intro hq; simp at hq
    · exact ih (fun p hp => h p (List.mem_cons_of_mem _ hp)) (fun p hp => hg p (List.mem_cons_of_mem _ hp)) q hq

theorem exposed_applyProvisioning (fix : Fix) (rf : List Nat) (m : Master) (h : ExposedInvF fix m)
    (hg : PushesAccepted fix rf m.ports) : ExposedInvF fix (applyProvisioning fix rf m).2 := by
  show ExposedLF fix (applyProvisioning fix rf m).2.ports
  rw [applyProvisioning_ports]
  exact exposedL_provisionPorts fix rf m.ports h hg

/-- `_handle_online`, both modes, whatever the refresh fetches answer. -/
theorem exposed_handleOnline (fix : Fix) (rf : List Nat) (m : Master) (d : Option Attrs)
    (ps : Option (List PortMsg)) (h : ExposedInvF fix m) (hg : PushesAccepted fix rf m.ports) :
    ExposedInvF fix (handleOnline fix rf m d ps).2 := by
  have h1 : ExposedInvF fix (applyProvisioning fix rf { m with online := true }).2 :=
    exposed_applyProvisioning fix rf { m with online := true } h hg
  unfold handleOnline
  cases m.mode with
  | poll => exact h1
  | listen =>
    cases d with
    | none => exact h1
    | some d =>
      cases ps with
      | none => exact h1
      | some ps => exact exposed_fetchPorts fix _ ps h1

/-- `_provision_and_update` (pushed-events mode). -/
theorem exposed_provisionAndUpdate (fix : Fix) (rf : List Nat) (m : Master) (d : Option Attrs)
    (ps : Option (List PortMsg)) (h : ExposedInvF fix m) (hg : PushesAccepted fix rf m.ports) :
    ExposedInvF fix (provisionAndUpdate fix rf m d ps).2 := by
  have h1 := exposed_applyProvisioning fix rf m h hg
  unfold provisionAndUpdate
  cases d with
  | none => exact h1
  | some d =>
    cases ps with
    | none => exact h1
    | some ps => exact exposed_fetchPorts fix _ ps h1

/-! #### One combined action type, every run -/

/-- Everything the model lets happen to the master, in one type. -/
inductive MAct
  | events (evs : List Ev)                 -- a listen response / a pushed event
  | tick                                   -- the hub's polling loop reads the queues
  | goOffline                              -- the slave is found unreachable
  | fetch (resp : List PortMsg)            -- fetch_and_update_ports
  | reconnect (rf : List Nat) (dev : Option Attrs) (ports : Option (List PortMsg))    -- _handle_online
  | sync (rf : List Nat) (dev : Option Attrs) (ports : Option (List PortMsg))         -- _provision_and_update
  | pollDev (a : Attrs)                    -- _poll_once: device attributes differ
  | pollPorts (resp : List PortMsg)        -- _poll_once: the ports part
  | valueResp (id : Nat) (v : PVal)        -- answer of GET /ports/<id>/value
  | editValue (id : Nat) (v : Int) (ok : Bool)
  | editAttr (id n : Nat) (v : Int)
  | editDev (n : Nat) (v : Int)

def mact (fix : Fix) (m : Master) : MAct → Master
  | .events evs => handleEvents fix m evs
  | .tick => (drain fix m).2
  | .goOffline => goOffline m
  | .fetch resp => fetchPorts fix m resp
  | .reconnect rf d ps => (handleOnline fix rf m d ps).2
  | .sync rf d ps => (provisionAndUpdate fix rf m d ps).2
  | .pollDev a => stepEvent fix m (.deviceUpdate a)
  | .pollPorts resp => QtVerif.Slave.pollPorts fix m resp
  | .valueResp id v => QtVerif.Slave.valueResp m id v
  | .editValue id v ok => (QtVerif.Slave.editValue m id v ok).1
  | .editAttr id n v => (QtVerif.Slave.editAttr m id n v).1
  | .editDev n v => (QtVerif.Slave.editDev m n v).1

def mrun (fix : Fix) (m : Master) (l : List MAct) : Master := l.foldl (mact fix) m

/-- The side conditions. With `read_value` as found, value writes are made while the slave is online (C12's standing
situation; the offline write is C13's subject and is the one operation that lets the exposed value lag with nothing
pending being recorded in the invariant: `exposed_broken_by_offline_write`); with the repaired `read_value` the
offline write is allowed too (the port then has a value pending, which `PortExposedF` accounts for). A reconnect
pushes the values that are pending with a body the slave accepts. -/
def Guard (fix : Fix) (m : Master) : MAct → Prop
  | .editValue _ _ _ => m.online = true ∨ fix.keepPendingValue = true
  | .reconnect rf _ _ => PushesAccepted fix rf m.ports
  | .sync rf _ _ => PushesAccepted fix rf m.ports
  | _ => True

def GuardedRun (fix : Fix) : Master → List MAct → Prop
  | _, [] => True
  | m, a :: r => Guard fix m a ∧ GuardedRun fix (mact fix m a) r

instance (fix : Fix) (rf : List Nat) (l : List MPort) : Decidable (PushesAccepted fix rf l) := by
  unfold PushesAccepted; exact inferInstance

instance (fix : Fix) (m : Master) (a : MAct) : Decidable (Guard fix m a) := by
  cases a <;> simp only [Guard] <;> exact inferInstance

def GuardedRun.dec (fix : Fix) : (m : Master) → (l : List MAct) → Decidable (GuardedRun fix m l)
  | _, [] => isTrue trivial
  | m, a :: r =>
    have := GuardedRun.dec fix (mact fix m a) r
    by unfold GuardedRun; exact inferInstance

instance (fix : Fix) (m : Master) (l : List MAct) : Decidable (GuardedRun fix m l) := GuardedRun.dec fix m l

theorem exposed_mact (fix : Fix) (m : Master) (a : MAct) (h : ExposedInvF fix m) (hg : Guard fix m a) :
    ExposedInvF fix (mact fix m a) := by
  cases a with
  | events evs => exact exposed_handleEvents fix evs m h
  | tick => exact exposed_drain fix m h
  | goOffline => exact h
  | fetch resp => exact exposed_fetchPorts fix m resp h
  | reconnect rf d ps => exact exposed_handleOnline fix rf m d ps h hg
  | sync rf d ps => exact exposed_provisionAndUpdate fix rf m d ps h hg
  | pollDev a => exact exposed_stepEvent fix m _ h
  | pollPorts resp => exact exposed_pollPorts fix m resp h
  | valueResp id v => exact exposed_valueResp fix m id v h
  | editValue id v ok =>
    rcases hg with hg | hg
    · exact exposed_editValue_online fix m hg id v ok h
    · exact exposed_editValue_repaired fix hg m id v ok h
  | editAttr id n v => exact exposed_editAttr fix m id n v h
  | editDev n v => exact exposed_editDev fix m n v h

theorem exposed_mrun (fix : Fix) (l : List MAct) :
    ∀ m, ExposedInvF fix m → GuardedRun fix m l → ExposedInvF fix (mrun fix m l) := by
  induction l with
  | nil => intro m h _; exact h
  | cons a r ih => intro m h hg; exact ih _ (exposed_mact fix m a h hg.1) hg.2

/-- After the hub's ticks an enabled port EXPOSES its newest remote value and nothing is left queued —
also when nothing was queued (`PortExposed`). (`lastRead` does not depend on `keepPendingValue`; with a value pending
under the repaired `read_value`, `p.lastRemote` is the newest value the SLAVE reported when something was queued.) -/
theorem exposed_after_ticks (fix : Fix) (p : MPort) (he : p.enabled = true) (hx : PortExposed p) :
    (drainPort fix p.rq.length p).2.lastRead = p.lastRemote ∧ (drainPort fix p.rq.length p).2.rq = [] ∧
    (drainPort fix p.rq.length p).2.attrs = p.attrs ∧ (drainPort fix p.rq.length p).2.id = p.id := by
  refine ⟨?_, ?_, (drainPort_static fix _ p).2.2, drainPort_id fix _ p⟩
  · by_cases hq : p.rq = []
    · rw [drainPort_nil fix _ p hq, hx hq]
      unfold MPort.lastRemote
      rw [hq]; rfl
    · rw [drainPort_spec fix _ p he (Nat.le_refl _)]
      exact drained_lastRead fix p hq
  · rw [drainPort_spec fix _ p he (Nat.le_refl _)]
    exact drained_rq fix p

/-- While a value is pending under the repaired `read_value`, the ticks expose the queued slave values (`lastRead`)
but the cached value — the one the reconnect will push — stays the user's. -/
theorem pending_value_cached_after_ticks (fix : Fix) (hk : fix.keepPendingValue = true) (p : MPort)
    (he : p.enabled = true) (hpv : p.provValue = true) :
    (drainPort fix p.rq.length p).2.cached = p.cached ∧ (drainPort fix p.rq.length p).2.provValue = true ∧
    (drainPort fix p.rq.length p).2.rq = [] ∧
    (p.rq ≠ [] → (drainPort fix p.rq.length p).2.lastRead = p.lastRemote) := by
  rw [drainPort_spec fix _ p he (Nat.le_refl _)]
  exact ⟨(drained_cached_pending fix p hk hpv).1, (drained_cached_pending fix p hk hpv).2, drained_rq fix p,
    drained_lastRead fix p⟩

/-! ### B. Presentation: what GET /ports shows for a mirrored port -/

/-- The naming scheme of qtoggleserver/slaves/ports.py over interned names. `dev k` is the name `device_` ++ k;
`renamed` is the family matched by `_DEVICE_EXPRESSION_RE` / `_DEVICE_HISTORY_RE` with the `device_` prefixes
optional (expression, history_*, device_expression, …): a slave attribute of that family is shown one `device_`
deeper; `masterOwned` is `MASTER_ATTRS`; `undev` strips one `device_` from a name of the shown family
(`name[7:]` under the regex test). -/
structure Scheme where
  dev : Nat → Nat
  renamed : Nat → Bool
  masterOwned : Nat → Bool
  undev : Nat → Option Nat
  dev_inj : ∀ a b, dev a = dev b → a = b
  dev_renamed : ∀ k, renamed k = true → renamed (dev k) = true
  dev_not_owned : ∀ k, masterOwned (dev k) = false
  undev_spec : ∀ n k, undev n = some k ↔ (n = dev k ∧ renamed k = true)

/-- `SlavePort.get_attr(name)`: `own` = the attributes the master keeps itself, `cached` = `_cached_attrs`. -/
def getAttr (sc : Scheme) (own cached : Attrs) (name : Nat) : Option Int :=
  if sc.masterOwned name then own.get? name
  else match sc.undev name with
    | some k => cached.get? k
    | none => (cached.get? name).or (own.get? name)

/-- `SlavePort.set_attr(name, …)`: the slave-side name an edit of `name` goes to (`none` = stays on the master). -/
def slaveName (sc : Scheme) (name : Nat) : Option Nat :=
  if sc.masterOwned name then none
  else match sc.undev name with
    | some k => some k
    | none => some name

/-- Under which name a SLAVE attribute is shown on the master (`none` = hidden behind a master-owned one). -/
def presentKey (sc : Scheme) (k : Nat) : Option Nat :=
  if sc.renamed k then some (sc.dev k) else if sc.masterOwned k then none else some k

/-- The slave's attributes as the master shows them. -/
def present (sc : Scheme) (a : Attrs) : Attrs := a.filterMap (fun kv => (presentKey sc kv.1).map (fun n => (n, kv.2)))

theorem undev_dev (sc : Scheme) (k : Nat) (h : sc.renamed k = true) : sc.undev (sc.dev k) = some k :=
  (sc.undev_spec _ _).mpr ⟨rfl, h⟩

theorem undev_plain (sc : Scheme) (k : Nat) (h : sc.renamed k = false) : sc.undev k = none := by
  cases hu : sc.undev k with
  | none => rfl
  | some j =>
    obtain ⟨h1, h2⟩ := (sc.undev_spec _ _).mp hu
    rw [h1, sc.dev_renamed j h2] at h
    cases h

/-- **Nothing is lost, nothing collides**: two slave attributes are never shown under the same name. -/
theorem presentKey_inj (sc : Scheme) (a b n : Nat) (ha : presentKey sc a = some n) (hb : presentKey sc b = some n) :
    a = b := by
  unfold presentKey at ha hb
  by_cases ra : sc.renamed a = true <;> by_cases rb : sc.renamed b = true
  · simp only [ra, rb, if_true, Option.some.injEq] at ha hb
    exact sc.dev_inj a b (ha.trans hb.symm)
  · simp only [ra, if_true, Option.some.injEq] at ha
    simp only [rb, Bool.false_eq_true, if_false] at hb
    split at hb
    · cases hb
    · simp only [Option.some.injEq] at hb
      have := sc.dev_renamed a ra
      rw [ha, ← hb] at this
      exact absurd this rb
  · simp only [rb, if_true, Option.some.injEq] at hb
    simp only [ra, Bool.false_eq_true, if_false] at ha
    split at ha
    · cases ha
    · simp only [Option.some.injEq] at ha
      have := sc.dev_renamed b rb
      rw [hb, ← ha] at this
      exact absurd this ra
  · simp only [ra, rb, Bool.false_eq_true, if_false] at ha hb
    split at ha
    · cases ha
    · split at hb
      · cases hb
      · simp only [Option.some.injEq] at ha hb
        exact ha.trans hb.symm

/-- **Invertible**: `set_attr`'s name mapping undoes the presentation — an edit of the shown name reaches the slave
attribute it shows. -/
theorem slaveName_presentKey (sc : Scheme) (k n : Nat) (h : presentKey sc k = some n) : slaveName sc n = some k := by
  unfold presentKey at h
  unfold slaveName
  by_cases rk : sc.renamed k = true
  · simp only [rk, if_true, Option.some.injEq] at h
    subst h
    simp only [sc.dev_not_owned k, Bool.false_eq_true, if_false, undev_dev sc k rk]
  · simp only [rk, Bool.false_eq_true, if_false] at h
    split at h
    · cases h
    · rename_i hm
      simp only [Option.some.injEq] at h
      subst h
      have rk' : sc.renamed k = false := by simpa using rk
      simp only [hm, Bool.false_eq_true, if_false, undev_plain sc k rk']

/-- **`get_attr` shows the slave's attribute under its presented name**: a slave attribute `k` with value `v`
that is presented as `n` is what `get_attr(n)` returns (renamed family: `device_k`; others: `k` itself). -/
theorem getAttr_presented (sc : Scheme) (own cached : Attrs) (k n : Nat) (v : Int)
    (hk : presentKey sc k = some n) (hv : cached.get? k = some v) : getAttr sc own cached n = some v := by
  unfold presentKey at hk
  unfold getAttr
  by_cases rk : sc.renamed k = true
  · simp only [rk, if_true, Option.some.injEq] at hk
    subst hk
    simp only [sc.dev_not_owned k, Bool.false_eq_true, if_false, undev_dev sc k rk]
    exact hv
  · simp only [rk, Bool.false_eq_true, if_false] at hk
    split at hk
    · cases hk
    · rename_i hm
      simp only [Option.some.injEq] at hk
      subst hk
      have rk' : sc.renamed k = false := by simpa using rk
      simp only [hm, Bool.false_eq_true, if_false, undev_plain sc k rk', hv, Option.some_or]

/-- **Master-owned attributes excepted**: for a name in `MASTER_ATTRS` the master's own value is shown, whatever the
slave reports under that name. -/
theorem getAttr_masterOwned (sc : Scheme) (own cached : Attrs) (n : Nat) (h : sc.masterOwned n = true) :
    getAttr sc own cached n = own.get? n := by
  unfold getAttr; simp only [h, if_true]

/-- What GET /ports shows for one port: the `<slave>.<id>` id, the attribute lookup, the value. -/
structure Shown where
  id : Nat × Nat
  attr : Nat → Option Int
  value : PVal

/-- The master's view of a mirrored port of slave `name` (`own` = master-side attributes of that port). -/
def shownM (sc : Scheme) (name : Nat) (own : Attrs) (p : MPort) : Shown :=
  ⟨(name, p.id), getAttr sc own p.attrs, p.lastRead⟩

/-- The presentation of a slave port: same construction from the slave's own attributes and value. -/
def shownS (sc : Scheme) (name : Nat) (own : Attrs) (q : SPort) : Shown :=
  ⟨(name, q.id), getAttr sc own q.attrs, q.value⟩

/-- `<slave>.<id>` is injective in both components. -/
theorem shown_id_inj (n1 n2 i1 i2 : Nat) (h : ((n1, i1) : Nat × Nat) = (n2, i2)) : n1 = n2 ∧ i1 = i2 := by
  cases h; exact ⟨rfl, rfl⟩

namespace Ex
/-- expression = 1, history_interval = 2, history_retention = 3, id = 20, tag = 21, online = 22, last_sync = 23,
expires = 24; `device_` ++ k = k + 100. -/
def sc0 : Scheme where
  dev := fun k => k + 100
  renamed := fun k => k % 100 == 1 || k % 100 == 2 || k % 100 == 3
  masterOwned := fun k => [1, 2, 3, 20, 21, 22, 23, 24].contains k
  undev := fun n => if 100 ≤ n ∧ ((n - 100) % 100 == 1 || (n - 100) % 100 == 2 || (n - 100) % 100 == 3) then some (n - 100)
    else none
  dev_inj := by intro a b h; have h' : a + 100 = b + 100 := h; omega
  dev_renamed := by
    intro k h
    have e : (k + 100) % 100 = k % 100 := Nat.add_mod_right k 100
    show ((k + 100) % 100 == 1 || (k + 100) % 100 == 2 || (k + 100) % 100 == 3) = true
    rw [e]; exact h
  dev_not_owned := by
    intro k
    simp only [List.contains_eq_mem, List.mem_cons, List.mem_nil_iff, or_false, decide_eq_false_iff_not]
    omega
  undev_spec := by
    intro n k
    simp only [Option.ite_none_right_eq_some, Option.some.injEq]
    constructor
    · rintro ⟨⟨h1, h2⟩, rfl⟩
      exact ⟨by omega, h2⟩
    · rintro ⟨rfl, h2⟩
      refine ⟨⟨by omega, ?_⟩, by omega⟩
      simpa using h2
end Ex

end QtVerif.Slave
