import QtVerif.Proofs.IntegrationStoreConfig
import QtVerif.Props.C06
import QtVerif.Props.C07
/-!
Integration C07 × C06: the traffic of the configuration model lies in the contract domains of C06's driver theorems.
-/
namespace QtVerif.IntegrationStore
open QtVerif.Store QtVerif.Config

/-- a write whose record body the Redis theorem of C06 accepts -/
def WOK (ft : FloatText) : W → Prop
  | .put _ _ b => (dkeys b).Nodup ∧ kId ∉ dkeys b ∧ ∀ kv ∈ b, WF ft kv.2
  | .del _ _ => True

theorem opsOfW_ok (ft : FloatText) (V : View) (w : W) (h : WOK ft w) :
    ∀ op ∈ opsOfW V w, OpOK (WF ft) op ∧ op ≠ .reload := by
  intro op hop
  cases w with
  | put c i b =>
    obtain ⟨h1, h2, h3⟩ := h
    have ok : (dkeys (full i b)).Nodup ∧ ∀ kv ∈ dpop kId (full i b), WF ft kv.2 := by
      refine ⟨?_, ?_⟩
      · simp only [full, dkeys, List.map_cons, List.nodup_cons]
        exact ⟨h2, h1⟩
      · simpa [full, dpop] using h3
    simp only [opsOfW] at hop
    split at hop
    · simp only [List.mem_singleton] at hop; subst hop; exact ⟨ok, by simp⟩
    · simp only [List.mem_cons, List.mem_nil_iff, or_false] at hop
      rcases hop with rfl | rfl
      · exact ⟨ok, by simp⟩
      · exact ⟨ok, by simp⟩
  | del c i =>
    simp only [opsOfW, List.mem_singleton] at hop; subst hop
    exact ⟨by simp [OpOK, byId, dkeys], by simp⟩

theorem traffic_ok (ft : FloatText) (ws : List W) : ∀ V, (∀ w ∈ ws, WOK ft w) →
    ∀ op ∈ traffic V ws, OpOK (WF ft) op ∧ op ≠ .reload := by
  induction ws with
  | nil => intro V _ op h; simp [traffic] at h
  | cons w t ih =>
    intro V hw op h
    simp only [traffic, List.mem_append] at h
    rcases h with h | h
    · exact opsOfW_ok ft V w (hw w (by simp)) op h
    · exact ih _ (fun x hx => hw x (by simp [hx])) op h

theorem readOp_ok (ft : FloatText) (c i : Str) : OpOK (WF ft) (readOp c i) ∧ readOp c i ≠ .reload :=
  ⟨by simp [OpOK, readOp, byId, dkeys], by simp [readOp]⟩

theorem wok_enc {ρ : Type} (ft : FloatText) (cd : Codec ρ) (hl : cd.Lawful) (c i : Str) (r : ρ) :
    WOK ft (.put c i (cd.enc r)) := ⟨hl.nodup r, hl.noId r, hl.wf ft r⟩

theorem writesOf_ok (ft : FloatText) (cfg : Cfg) (st : State) (op : Config.Op) : ∀ w ∈ writesOf cfg st op, WOK ft w := by
  intro w hw
  cases op with
  | addV id vd =>
    simp only [writesOf] at hw
    split at hw
    · simp at hw
    · simp only [List.mem_cons, List.mem_nil_iff, or_false] at hw
      rcases hw with rfl | rfl
      · exact wok_enc ft _ vdefCodec_lawful _ _ _
      · exact wok_enc ft _ portCodec_lawful _ _ _
  | patch id attrs =>
    simp only [writesOf] at hw
    split at hw
    · simp at hw
    · split at hw
      · simp at hw
      · split at hw
        · simp only [List.mem_singleton] at hw; subst hw; exact wok_enc ft _ portCodec_lawful _ _ _
        · split at hw
          · simp only [List.mem_singleton] at hw; subst hw; exact wok_enc ft _ portCodec_lawful _ _ _
          · simp at hw
  | del id =>
    simp only [writesOf] at hw
    split at hw
    · simp at hw
    · split at hw
      · simp at hw
      · simp only [List.mem_cons, List.mem_nil_iff, or_false] at hw
        rcases hw with rfl | rfl <;> trivial
  | patchDev d =>
    simp only [writesOf, List.mem_singleton] at hw; subst hw; exact wok_enc ft _ deviceCodec_lawful _ _ _
  | putDev n dn =>
    simp only [writesOf, List.mem_cons, List.mem_nil_iff, or_false] at hw
    rcases hw with rfl | rfl
    · trivial
    · exact wok_enc ft _ deviceCodec_lawful _ _ _
  | valueChange _ _ => simp [writesOf] at hw
  | saveTick => simp [writesOf] at hw
  | restart => simp [writesOf] at hw
  | putSlaves _ => simp [writesOf] at hw
  | delSlave _ => simp [writesOf] at hw
  | patchSlave _ _ _ => simp [writesOf] at hw
  | fwdSlave _ _ => simp [writesOf] at hw

theorem writes_ok (ft : FloatText) (cfg : Cfg) : ∀ (ops : List Config.Op) (st : State), ∀ w ∈ writes cfg st ops, WOK ft w := by
  intro ops
  induction ops with
  | nil => intro st w h; simp [writes] at h
  | cons o r ih =>
    intro st w h
    simp only [writes, List.mem_append] at h
    rcases h with h | h
    · exact writesOf_ok ft cfg st o w h
    · exact ih _ w h

/-- what the hub makes of the answer to `persist.get`: one record, decoded; anything else = no record -/
def readSlot {ρ : Type} (cd : Codec ρ) : Res → Option ρ
  | .recs [d] => cd.dec d
  | _ => none

theorem readSlot_id {ρ : Type} (cd : Codec ρ) (hl : cd.Lawful) (i : Str) (o : Option ρ) :
    readSlot cd (.recs (o.map (fun r => full i (cd.enc r))).toList) = o := by
  cases o with
  | none => rfl
  | some r => exact hl.dec_front i r

theorem readSlot_norm {ρ : Type} (cd : Codec ρ) (hl : cd.Lawful) (i : Str) (o : Option ρ) :
    readSlot cd (normRes (.recs (o.map (fun r => full i (cd.enc r))).toList)) = o := by
  cases o with
  | none => rfl
  | some r =>
    have : normRec (full i (cd.enc r)) = cd.enc r ++ [(kId, .str i)] := by simp [normRec, full, dget, dpop]
    simp only [Option.map_some, Option.toList_some, normRes, List.map_cons, List.map_nil, this, readSlot]
    exact hl.dec_back i r

end QtVerif.IntegrationStore
