import QtVerif.Model.Sessions
/-! Helper lemmas for C11 (sessions). -/
namespace QtVerif.Sessions

/-- every queued event is permitted at the session's current level -/
def QInv (s : Sess) : Prop := ∀ e ∈ s.queue, e.req ≤ s.level
def SInv (st : State) : Prop := ∀ s ∈ st.sessions, QInv s
def RespOk (out : List Resp) : Prop := ∀ r ∈ out, ∀ e ∈ r.events, e.req ≤ r.level

theorem respOk_nil : RespOk [] := by intro r hr; cases hr

theorem respOk_append {a b : List Resp} (ha : RespOk a) (hb : RespOk b) : RespOk (a ++ b) := by
  intro r hr; rcases List.mem_append.mp hr with h | h
  · exact ha r h
  · exact hb r h

theorem push_inv (cap : Nat) (s : Sess) (e : Ev) (h : QInv s) (he : e.req ≤ s.level) :
    QInv (push cap s e) := by
  intro x hx
  simp only [push, List.mem_cons] at hx
  rcases hx with rfl | hx
  · exact he
  · have := List.mem_of_mem_take hx
    exact h x (List.mem_filter.mp this).1

theorem respond_inv (s : Sess) (h : QInv s) : QInv (respond s).1 ∧ RespOk (respond s).2 := by
  unfold respond
  cases hs : s.active with
  | none => exact ⟨(by intro e he; cases he), respOk_nil⟩
  | some r =>
    refine ⟨(by intro e he; cases he), ?_⟩
    intro x hx e he
    simp only [List.mem_singleton] at hx
    subst hx
    exact h e (List.mem_reverse.mp he)

theorem respond_level (s : Sess) : (respond s).1.level = s.level := by
  unfold respond; cases s.active <;> rfl

theorem listenSess_inv (s : Sess) (r lvl timeout now : Nat) (h : QInv s) :
    QInv (listenSess true s r lvl timeout now).1 ∧ RespOk (listenSess true s r lvl timeout now).2 := by
  unfold listenSess
  -- first phase
  have h1 : QInv (if s.active.isSome then respond s else (s, [])).1 ∧
            RespOk (if s.active.isSome then respond s else (s, [])).2 := by
    split
    · exact respond_inv s h
    · exact ⟨h, respOk_nil⟩
  generalize (if s.active.isSome then respond s else (s, [])) = p at h1
  obtain ⟨s1, out1⟩ := p
  simp only at h1 ⊢
  have h2 : QInv ({ s1 with accessed := now, timeout := timeout, level := lvl, active := some r,
                            queue := s1.queue.filter (fun e => e.req ≤ lvl) } : Sess) := by
    intro e he
    simp only [List.mem_filter, decide_eq_true_eq] at he
    exact he.2
  simp only [if_true]
  split
  · exact ⟨h2, h1.2⟩
  · have := respond_inv _ h2
    exact ⟨this.1, respOk_append h1.2 this.2⟩

theorem newSess_inv (sid : Nat) : QInv (newSess sid) := by intro e he; cases he

theorem listenList_inv (sid r lvl timeout now : Nat) (l : List Sess) (h : ∀ s ∈ l, QInv s) :
    (∀ s ∈ (listenList true sid r lvl timeout now l).1, QInv s) ∧
    RespOk (listenList true sid r lvl timeout now l).2 := by
  induction l with
  | nil =>
    have := listenSess_inv (newSess sid) r lvl timeout now (newSess_inv sid)
    simp only [listenList]
    refine ⟨?_, this.2⟩
    intro s hs; simp only [List.mem_singleton] at hs; subst hs; exact this.1
  | cons s rest ih =>
    simp only [listenList]
    split
    · have := listenSess_inv s r lvl timeout now (h s (List.mem_cons_self ..))
      refine ⟨?_, this.2⟩
      intro x hx
      rcases List.mem_cons.mp hx with rfl | hx
      · exact this.1
      · exact h x (List.mem_cons_of_mem _ hx)
    · have := ih (fun x hx => h x (List.mem_cons_of_mem _ hx))
      refine ⟨?_, this.2⟩
      intro x hx
      rcases List.mem_cons.mp hx with rfl | hx
      · exact h _ (List.mem_cons_self ..)
      · exact this.1 x hx

theorem tickSess_inv (fac now : Nat) (s : Sess) (h : QInv s) :
    (∀ s' , (tickSess fac now s).1 = some s' → QInv s') ∧ RespOk (tickSess fac now s).2 := by
  unfold tickSess
  split
  · have := respond_inv s h
    exact ⟨(by intro s' hs'; cases hs'; exact this.1), this.2⟩
  · split
    · have := respond_inv s h
      exact ⟨(by intro s' hs'; cases hs'; exact this.1), this.2⟩
    · split
      · exact ⟨(by intro s' hs'; cases hs'), respOk_nil⟩
      · exact ⟨(by intro s' hs'; cases hs'; exact h), respOk_nil⟩

theorem tickList_inv (fac now : Nat) (l : List Sess) (h : ∀ s ∈ l, QInv s) :
    (∀ s ∈ (tickList fac now l).1, QInv s) ∧ RespOk (tickList fac now l).2 := by
  induction l with
  | nil => exact ⟨(by intro s hs; cases hs), respOk_nil⟩
  | cons s rest ih =>
    have hs := tickSess_inv fac now s (h s (List.mem_cons_self ..))
    have hr := ih (fun x hx => h x (List.mem_cons_of_mem _ hx))
    simp only [tickList]
    refine ⟨?_, respOk_append hs.2 hr.2⟩
    intro x hx
    cases ho : (tickSess fac now s).1 with
    | none => rw [ho] at hx; exact hr.1 x hx
    | some s' =>
      rw [ho] at hx
      rcases List.mem_cons.mp hx with rfl | hx
      · exact hs.1 _ ho
      · exact hr.1 x hx

theorem trigger_inv (cap : Nat) (st : State) (e : Ev) (h : SInv st) : SInv (trigger cap st e) := by
  intro s hs
  simp only [trigger, List.mem_map] at hs
  obtain ⟨s0, hs0, rfl⟩ := hs
  split
  · exact h s0 hs0
  · exact push_inv cap s0 e (h s0 hs0) (by omega)

theorem step_inv (cap fac : Nat) (st : State) (op : Op) (h : SInv st) :
    SInv (step true cap fac st op).1 ∧ RespOk (step true cap fac st op).2 := by
  cases op with
  | trigger e => exact ⟨trigger_inv cap st e h, respOk_nil⟩
  | listen sid r lvl timeout now => exact listenList_inv sid r lvl timeout now st.sessions h
  | tick now => exact tickList_inv fac now st.sessions h

theorem run_inv (cap fac : Nat) (ops : List Op) (st : State) (h : SInv st) :
    SInv (run true cap fac st ops).1 ∧ RespOk (run true cap fac st ops).2 := by
  induction ops generalizing st with
  | nil => exact ⟨h, respOk_nil⟩
  | cons op ops ih =>
    have h1 := step_inv cap fac st op h
    have h2 := ih _ h1.1
    simp only [run]
    exact ⟨h2.1, respOk_append h1.2 h2.2⟩

theorem init_inv : SInv State.init := by intro s hs; cases hs

theorem run_level_safe (cap fac : Nat) (ops : List Op) :
    ∀ r ∈ (run true cap fac State.init ops).2, ∀ e ∈ r.events, e.req ≤ r.level :=
  (run_inv cap fac ops State.init init_inv).2

end QtVerif.Sessions

namespace QtVerif.Sessions

theorem push_queue_reverse (cap : Nat) (s : Sess) (e : Ev) :
    (push cap s e).queue.reverse = squashPush cap s.queue.reverse e := by
  simp only [push, squashPush, List.reverse_cons, List.filter_reverse, List.length_reverse]
  rw [List.reverse_take]

theorem squashPush_sublist (cap : Nat) (l : List Ev) (e : Ev) :
    (squashPush cap l e).Sublist (l ++ [e]) := by
  unfold squashPush
  apply List.Sublist.append
  · exact (List.drop_sublist _ _).trans List.filter_sublist
  · exact List.Sublist.refl _

theorem squash_sublist (cap : Nat) (init l : List Ev) : (squash cap init l).Sublist (init ++ l) := by
  induction l generalizing init with
  | nil => simp [squash]
  | cons e l ih =>
    have h1 := ih (squashPush cap init e)
    have h2 := squashPush_sublist cap init e
    have : (squashPush cap init e ++ l).Sublist ((init ++ [e]) ++ l) := List.Sublist.append h2 (List.Sublist.refl _)
    simp only [squash, List.foldl_cons] at h1 ⊢
    simpa using h1.trans this

end QtVerif.Sessions
namespace QtVerif.Sessions

theorem squash_snoc (cap : Nat) (init l : List Ev) (e : Ev) :
    squash cap init (l ++ [e]) = squashPush cap (squash cap init l) e := by
  simp [squash, List.foldl_append]

theorem squash_last (cap : Nat) (init l : List Ev) (e : Ev) :
    (squash cap init (l ++ [e])).getLast? = some e := by
  rw [squash_snoc]; simp [squashPush]

theorem squashPush_id (cap : Nat) (L : List Ev) (e : Ev)
    (hd : ∀ o ∈ L, e.dup o = false) (hc : L.length + 1 ≤ cap) : squashPush cap L e = L ++ [e] := by
  unfold squashPush
  have : L.filter (fun o => !e.dup o) = L := by
    apply List.filter_eq_self.mpr
    intro o ho; simp [hd o ho]
  rw [this]
  have : L.length - (cap - 1) = 0 := by omega
  simp only [this]; simp

theorem squash_id (cap : Nat) (init l : List Ev)
    (hd : ∀ a ∈ init ++ l, ∀ b ∈ l, b.dup a = false) (hc : (init ++ l).length ≤ cap) :
    squash cap init l = init ++ l := by
  induction l generalizing init with
  | nil => simp [squash]
  | cons e l ih =>
    have h1 : squashPush cap init e = init ++ [e] := by
      apply squashPush_id
      · intro o ho; exact hd o (by simp [ho]) e (by simp)
      · simp at hc; omega
    simp only [squash, List.foldl_cons]
    rw [h1]
    have := ih (init ++ [e]) (by
      intro a ha b hb
      exact hd a (by simpa using ha) b (by simp [hb])) (by simpa using hc)
    simpa [squash] using this

def newer (x : Ev) (L : List Ev) : List Ev := L.filter (fun y => x.id < y.id)

theorem newer_sublist_len {x : Ev} {A B : List Ev} (h : A.Sublist B) : (newer x A).length ≤ (newer x B).length :=
  (List.Sublist.filter _ h).length_le

theorem squashPush_lost (cap : Nat) (L : List Ev) (e x : Ev)
    (hs : (L ++ [e]).Pairwise (fun a b => a.id < b.id)) (hx : x ∈ L) (hn : x ∉ squashPush cap L e) :
    e.dup x = true ∨ cap ≤ (newer x (L ++ [e])).length := by
  by_cases hdup : e.dup x = true
  · exact Or.inl hdup
  right
  have hL : L.Pairwise (fun a b => a.id < b.id) := (List.pairwise_append.mp hs).1
  have hLe : ∀ a ∈ L, a.id < e.id := fun a ha => (List.pairwise_append.mp hs).2.2 a ha e (by simp)
  let L1 := L.filter (fun o => !e.dup o)
  have hx1 : x ∈ L1 := List.mem_filter.mpr ⟨hx, by simpa using hdup⟩
  let k := L1.length - (cap - 1)
  have hnd : x ∉ L1.drop k := by
    intro h; apply hn; unfold squashPush; exact List.mem_append_left _ h
  have hxt : x ∈ L1.take k := by
    have : x ∈ L1.take k ++ L1.drop k := by rw [List.take_append_drop]; exact hx1
    rcases List.mem_append.mp this with h | h
    · exact h
    · exact absurd h hnd
  have hL1 : L1.Pairwise (fun a b => a.id < b.id) := hL.sublist List.filter_sublist
  have hsplit : (L1.take k ++ L1.drop k).Pairwise (fun a b => a.id < b.id) := by
    rw [List.take_append_drop]; exact hL1
  have hnew : ∀ y ∈ L1.drop k, x.id < y.id := fun y hy => (List.pairwise_append.mp hsplit).2.2 x hxt y hy
  have hkpos : 0 < k := by
    rcases Nat.eq_zero_or_pos k with h0 | h0
    · rw [h0] at hxt; simp at hxt
    · exact h0
  have hlen : (L1.drop k).length = cap - 1 := by
    simp only [List.length_drop]; omega
  have hsub : (L1.drop k ++ [e]).Sublist (L ++ [e]) :=
    List.Sublist.append ((List.drop_sublist _ _).trans List.filter_sublist) (List.Sublist.refl _)
  have hall : newer x (L1.drop k ++ [e]) = L1.drop k ++ [e] := by
    apply List.filter_eq_self.mpr
    intro y hy
    rcases List.mem_append.mp hy with h | h
    · simpa using hnew y h
    · simp at h; subst h; simpa using hLe x hx
  have := newer_sublist_len (x := x) hsub
  rw [hall] at this
  simp only [List.length_append, List.length_singleton] at this
  omega

theorem lost_only_if (cap : Nat) (init l : List Ev) (x : Ev)
    (hs : (init ++ l).Pairwise (fun a b => a.id < b.id))
    (hx : x ∈ init ++ l) (hn : x ∉ squash cap init l) :
    (∃ d ∈ l, x.id < d.id ∧ d.dup x = true) ∨ cap ≤ (newer x (init ++ l)).length := by
  induction l generalizing init with
  | nil => simp [squash] at hn hx; exact absurd hx hn
  | cons e l ih =>
    have hsub : (squashPush cap init e ++ l).Sublist (init ++ e :: l) := by
      have := List.Sublist.append (squashPush_sublist cap init e) (List.Sublist.refl l)
      simpa using this
    have hs' := hs.sublist hsub
    simp only [squash, List.foldl_cons] at hn
    by_cases hx' : x ∈ squashPush cap init e ++ l
    · rcases ih (squashPush cap init e) hs' hx' hn with ⟨d, hd, h1, h2⟩ | h
      · exact Or.inl ⟨d, List.mem_cons_of_mem _ hd, h1, h2⟩
      · exact Or.inr (Nat.le_trans h (newer_sublist_len hsub))
    · have hxl : x ∉ l := fun h => hx' (List.mem_append_right _ h)
      have hxp : x ∉ squashPush cap init e := fun h => hx' (List.mem_append_left _ h)
      have hxe : x ≠ e := by
        intro h; apply hxp; subst h; simp [squashPush]
      have hxi : x ∈ init := by
        rcases List.mem_append.mp hx with h | h
        · exact h
        · rcases List.mem_cons.mp h with h | h
          · exact absurd h hxe
          · exact absurd h hxl
      have hs1 : (init ++ [e]).Pairwise (fun a b => a.id < b.id) := by
        have : (init ++ [e]).Sublist (init ++ e :: l) := by
          apply List.Sublist.append (List.Sublist.refl _); simp
        exact hs.sublist this
      rcases squashPush_lost cap init e x hs1 hxi hxp with h | h
      · left
        refine ⟨e, List.mem_cons_self .., ?_, h⟩
        exact (List.pairwise_append.mp hs1).2.2 x hxi e (by simp)
      · right
        have : (init ++ [e]).Sublist (init ++ e :: l) := by
          apply List.Sublist.append (List.Sublist.refl _); simp
        exact Nat.le_trans h (newer_sublist_len this)

end QtVerif.Sessions
namespace QtVerif.Sessions

/-- effect of a burst of triggers on one session -/
def afterTriggers (cap : Nat) (s : Sess) (es : List Ev) : Sess :=
  { s with queue := (squash cap s.queue.reverse (es.filter (fun e => e.req ≤ s.level))).reverse }

theorem afterTriggers_nil (cap : Nat) (s : Sess) : afterTriggers cap s [] = s := by
  simp [afterTriggers, squash]

theorem afterTriggers_cons (cap : Nat) (s : Sess) (e : Ev) (es : List Ev) :
    afterTriggers cap s (e :: es) =
      afterTriggers cap (if s.level < e.req then s else push cap s e) es := by
  by_cases h : s.level < e.req
  · have : ¬ e.req ≤ s.level := by omega
    simp [afterTriggers, h, this]
  · have h' : e.req ≤ s.level := by omega
    simp only [afterTriggers, h, if_false, List.filter_cons, h', decide_true, if_true, squash,
      List.foldl_cons]
    have hq := push_queue_reverse cap s e
    have hl : (push cap s e).level = s.level := rfl
    rw [hq, hl]
    rfl

theorem triggers_eq_squash (cap : Nat) (st : State) (es : List Ev) :
    es.foldl (trigger cap) st = ⟨st.sessions.map (fun s => afterTriggers cap s es)⟩ := by
  induction es generalizing st with
  | nil => simp [afterTriggers_nil]
  | cons e es ih =>
    simp only [List.foldl_cons]
    rw [ih]
    simp only [trigger, List.map_map]
    congr 1
    apply List.map_congr_left
    intro s _
    simp [afterTriggers_cons]

theorem tickSess_answered (fac now : Nat) (s s' : Sess) (h : (tickSess fac now s).1 = some s') :
    (s'.active.isSome → s'.queue = []) ∧ (s'.active.isSome → ¬ now - s'.accessed > s'.timeout) := by
  unfold tickSess at h
  split at h
  · simp only [Option.some.injEq] at h; subst h
    unfold respond; cases s.active <;> simp
  · split at h
    · simp only [Option.some.injEq] at h; subst h
      unfold respond; cases s.active <;> simp
    · split at h
      · cases h
      · simp only [Option.some.injEq] at h; subst h
        rename_i h1 h2 h3
        constructor
        · intro ha
          cases hq : s.queue with
          | nil => rfl
          | cons a l => simp [hq, ha] at h1
        · intro ha hgt
          apply h2
          simp [ha, hgt]

theorem tickList_answered (fac now : Nat) (l : List Sess) :
    ∀ s' ∈ (tickList fac now l).1,
      (s'.active.isSome → s'.queue = []) ∧ (s'.active.isSome → ¬ now - s'.accessed > s'.timeout) := by
  induction l with
  | nil => intro s' h; cases h
  | cons s rest ih =>
    intro s' h
    simp only [tickList] at h
    cases ho : (tickSess fac now s).1 with
    | none => rw [ho] at h; exact ih s' h
    | some s1 =>
      rw [ho] at h
      rcases List.mem_cons.mp h with rfl | h
      · exact tickSess_answered fac now s _ ho
      · exact ih s' h

theorem listenSess_answered (filt : Bool) (s : Sess) (r lvl timeout now : Nat) :
    (listenSess filt s r lvl timeout now).1.active.isSome → (listenSess filt s r lvl timeout now).1.queue = [] := by
  unfold listenSess
  generalize (if s.active.isSome then respond s else (s, [])) = p
  obtain ⟨s1, out1⟩ := p
  simp only
  generalize (if filt = true then s1.queue.filter (fun e => decide (e.req ≤ lvl)) else s1.queue) = q
  split
  · rename_i h; intro _; simpa using h
  · intro h; simp [respond] at h

end QtVerif.Sessions
