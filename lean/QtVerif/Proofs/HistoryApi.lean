import QtVerif.Proofs.History
/-!
Helper lemmas for property C18, second part: deletion, recording of value changes, and the two API functions
(argument parsing, defaults, error branches). Core Lean only.
-/
set_option autoImplicit false
deriving instance DecidableEq for Except

namespace QtVerif.History


/-! ### deletion -/

/-- "in the half-open range of one of the given ports" (no port given = every port, the code's `if obj_ids:`) -/
def Removed (pids : List Nat) (frm to : Option Int) (s : Sample) : Prop :=
  (pids = [] ∨ s.oid ∈ pids) ∧ (∀ f, frm = some f → f ≤ s.ts) ∧ (∀ t, to = some t → s.ts < t)

theorem removed_iff (pids : List Nat) (frm to : Option Int) (s : Sample) :
    removed pids frm to s = true ↔ Removed pids frm to s := by
  unfold removed Removed
  cases frm <;> cases to <;> simp [and_assoc, List.isEmpty_iff]

theorem pRemove_mem (store : List Sample) (pids : List Nat) (frm to : Option Int) (s : Sample) :
    s ∈ pRemove store pids frm to ↔ s ∈ store ∧ ¬ Removed pids frm to s := by
  unfold pRemove
  rw [List.mem_filter, ← removed_iff]
  simp

theorem pRemove_sublist (store : List Sample) (pids : List Nat) (frm to : Option Int) :
    (pRemove store pids frm to).Sublist store := List.filter_sublist

theorem pRemove_count (store : List Sample) (pids : List Nat) (frm to : Option Int) (s : Sample)
    (h : ¬ Removed pids frm to s) : (pRemove store pids frm to).count s = store.count s := by
  unfold pRemove
  rw [List.count_filter]
  have : removed pids frm to s = false := by
    rw [← Bool.not_eq_true, removed_iff]; exact h
  simp [this]

/-! ### recording -/

/-- The value changes among a list of successive readings `(time, value)` of one port, given the last read value. -/
def valueChanges : Option Val → List (Int × Option Val) → List (Int × Option Val)
  | _, [] => []
  | last, (now, v) :: rest => if v = last then valueChanges last rest else (now, v) :: valueChanges v rest

theorem valueChanges_cons (last : Option Val) (now : Int) (v : Option Val) (rest : List (Int × Option Val)) :
    valueChanges last ((now, v) :: rest) =
      if v = last then valueChanges last rest else (now, v) :: valueChanges v rest := rfl

/-- The sample a value change produces: none for a null value. -/
def sampleOf (pid : Nat) (c : Int × Option Val) : Option Sample :=
  c.2.map (fun v => ⟨pid, c.1, v.toStored⟩)

def pollAll (cfg : Cfg) (st : State) (pid : Nat) (readings : List (Int × Option Val)) : State :=
  readings.foldl (fun s r => poll cfg s pid r.1 r.2) st

theorem onChange_store (cfg : Cfg) (s : State) (p : Port) (now : Int) :
    (onChange cfg s p now).store =
      if now > cfg.oldLimit ∧ p.interval = -1 then (hSave s p.id p.last now).store else s.store := by
  unfold onChange
  by_cases hn : now > cfg.oldLimit
  · by_cases hi : p.interval = -1
    · rw [if_neg (by simp [hn]), if_neg (by simp [hi]), if_pos ⟨hn, hi⟩, (setPort_store _ _).1]
    · rw [if_neg (by simp [hn]), if_pos hi, if_neg (by simp [hi])]
  · rw [if_pos hn, if_neg (by simp [hn])]

theorem poll_store (cfg : Cfg) (st : State) (pid : Nat) (now : Int) (v : Option Val) (p : Port)
    (hp : findPort st pid = some p) :
    (poll cfg st pid now v).store =
      if v ≠ p.last ∧ p.interval = -1 ∧ now > cfg.oldLimit then
        (match v with | some x => st.store ++ [⟨pid, now, x.toStored⟩] | none => st.store)
      else st.store := by
  have hid := findPort_id st pid p hp
  unfold poll
  rw [hp]
  simp only
  by_cases hv : v = p.last
  · simp [hv]
  · rw [if_neg hv, onChange_store]
    have hs := (setPort_store st { p with last := v }).1
    by_cases hc : now > cfg.oldLimit ∧ p.interval = -1
    · rw [if_pos hc, if_pos ⟨hv, hc.2, hc.1⟩]
      cases v with
      | none => exact hs
      | some x =>
        show (setPort st { p with last := some x }).store ++ [⟨p.id, now, x.toStored⟩] =
          st.store ++ [⟨pid, now, x.toStored⟩]
        rw [hs, hid]
    · rw [if_neg hc, if_neg (by intro h; exact hc ⟨h.2.2, h.2.1⟩)]
      exact hs

/-- After a polling pass the port is still registered, carries the value just read and keeps its attributes. -/
theorem poll_port (cfg : Cfg) (st : State) (pid : Nat) (now : Int) (v : Option Val) (p : Port)
    (hp : findPort st pid = some p) :
    ∃ p1, findPort (poll cfg st pid now v) pid = some p1 ∧ p1.last = v ∧ p1.interval = p.interval ∧
      p1.ptype = p.ptype := by
  have hid := findPort_id st pid p hp
  have hp' : findPort st p.id = some p := by rw [hid]; exact hp
  unfold poll
  rw [hp]
  simp only
  by_cases hv : v = p.last
  · rw [if_pos hv]; exact ⟨p, hp, hv.symm, rfl, rfl⟩
  · rw [if_neg hv]
    have h1 : findPort (setPort st { p with last := v }) p.id = some { p with last := v } := by
      rw [findPort_setPort st { p with last := v } p hp' p.id]; simp
    unfold onChange
    split
    · exact ⟨{ p with last := v }, by rw [← hid]; exact h1, rfl, rfl, rfl⟩
    · split
      · exact ⟨{ p with last := v }, by rw [← hid]; exact h1, rfl, rfl, rfl⟩
      · refine ⟨{ p with last := v, lastTs := now }, ?_, rfl, rfl, rfl⟩
        have h2 : findPort (hSave (setPort st { p with last := v }) p.id v now) p.id = some { p with last := v } := by
          rw [findPort_congr _ _ (hSave_ports _ _ _ _)]; exact h1
        rw [← hid]
        rw [findPort_setPort _ { p with last := v, lastTs := now } { p with last := v } h2 p.id]
        simp

theorem pollAll_store (cfg : Cfg) (pid : Nat) (readings : List (Int × Option Val)) (st : State) (p : Port)
    (hp : findPort st pid = some p) (hi : p.interval = -1) (hreal : ∀ r ∈ readings, r.1 > cfg.oldLimit) :
    (pollAll cfg st pid readings).store = st.store ++ (valueChanges p.last readings).filterMap (sampleOf pid) := by
  induction readings generalizing st p with
  | nil => simp [pollAll, valueChanges]
  | cons r rest ih =>
    obtain ⟨now, v⟩ := r
    have hnow : now > cfg.oldLimit := hreal (now, v) List.mem_cons_self
    have hrest : ∀ r ∈ rest, r.1 > cfg.oldLimit := fun r hr => hreal r (List.mem_cons_of_mem _ hr)
    have hs := poll_store cfg st pid now v p hp
    obtain ⟨p1, hq, hl, hiv, _⟩ := poll_port cfg st pid now v p hp
    have := ih (poll cfg st pid now v) p1 hq (by rw [hiv]; exact hi) hrest
    unfold pollAll at this ⊢
    rw [List.foldl_cons, this, hs, valueChanges_cons, hl]
    by_cases hv : v = p.last
    · simp [hv]
    · cases v with
      | none =>
        have : sampleOf pid (now, none) = none := rfl
        simp [hv, hi, hnow, this]
      | some x => simp [hv, hi, hnow, sampleOf]

/-! ### periodic sampling and the retention janitor -/

theorem samplePort_store (st : State) (p : Port) (now : Int) :
    (samplePort st p now).store =
      if 0 < p.interval ∧ p.interval * 1000 ≤ now - p.lastTs then
        (match p.last with | some x => st.store ++ [⟨p.id, now, x.toStored⟩] | none => st.store)
      else st.store := by
  unfold samplePort
  by_cases h1 : p.interval ≤ 0
  · have : ¬ 0 < p.interval := by omega
    simp [h1, this]
  · by_cases h2 : now - p.lastTs < p.interval * 1000
    · have : ¬ p.interval * 1000 ≤ now - p.lastTs := by omega
      simp [h1, h2, this]
    · have h3 : 0 < p.interval := by omega
      have h4 : p.interval * 1000 ≤ now - p.lastTs := by omega
      rw [if_neg h1, if_neg h2, (setPort_store _ _).1, if_pos ⟨h3, h4⟩]
      cases p.last <;> rfl

theorem janitorPort_mem (st : State) (p : Port) (nowS : Int) (s : Sample) :
    s ∈ (janitorPort st p nowS).store ↔
      s ∈ st.store ∧ ¬ (0 < p.retention ∧ s.oid = p.id ∧ 0 ≤ s.ts ∧ s.ts < (nowS - p.retention) * 1000) := by
  unfold janitorPort
  by_cases h : p.retention ≤ 0
  · have : ¬ 0 < p.retention := by omega
    simp [h, this]
  · have h' : 0 < p.retention := by omega
    rw [if_neg h]
    have := pRemove_mem st.store [p.id] (some 0) (some ((nowS - p.retention) * 1000)) s
    simp only [Removed, List.mem_singleton, Option.some.injEq, forall_eq', List.cons_ne_self, false_or] at this
    show s ∈ pRemove st.store [p.id] (some 0) (some ((nowS - p.retention) * 1000)) ↔ _
    rw [this]
    simp [h']

theorem accessCheck_none (level required : Nat) (h : required ≤ level) : accessCheck level required = none := by
  unfold accessCheck
  have : ¬ level < required := by omega
  rw [if_neg this]

theorem getPortHistory_range (cfg : Cfg) (st : State) (level pid : Nat) (now : Int) (q : Query) (p : Port)
    (a : HistArgs) (hl : cfg.viewLevel ≤ level) (hp : findPort st pid = some p)
    (ha : parseHistArgs cfg now q = .ok a) (ht : a.timestamps = none) :
    getPortHistory cfg st level pid now q =
      (st, .ok (.slice (hSlice st pid p.ptype a.frm (some a.to) (some a.limit) false)), 0) := by
  unfold getPortHistory
  rw [accessCheck_none _ _ hl, hp, ha]
  simp only [ht]

theorem getPortHistory_byTs (cfg : Cfg) (st : State) (level pid : Nat) (now : Int) (q : Query) (p : Port)
    (a : HistArgs) (tss : List Int) (hl : cfg.viewLevel ≤ level) (hp : findPort st pid = some p)
    (ha : parseHistArgs cfg now q = .ok a) (ht : a.timestamps = some tss) :
    (getPortHistory cfg st level pid now q).2.1 = .ok (.byTs (hByTs cfg st pid p.ptype now tss).2.1) ∧
    (getPortHistory cfg st level pid now q).1 = (hByTs cfg st pid p.ptype now tss).1 := by
  unfold getPortHistory
  rw [accessCheck_none _ _ hl, hp, ha]
  simp [ht]

theorem getPortHistory_error_keeps_state (cfg : Cfg) (st : State) (level pid : Nat) (now : Int) (q : Query) (e : ApiErr)
    (h : (getPortHistory cfg st level pid now q).2.1 = .error e) :
    (getPortHistory cfg st level pid now q).1 = st := by
  cases h1 : accessCheck level cfg.viewLevel with
  | some e1 => simp [getPortHistory, h1]
  | none =>
    cases h2 : findPort st pid with
    | none => simp [getPortHistory, h1, h2]
    | some p =>
      cases h3 : parseHistArgs cfg now q with
      | error e3 => simp [getPortHistory, h1, h2, h3]
      | ok a =>
        cases h4 : a.timestamps with
        | none => simp [getPortHistory, h1, h2, h3, h4]
        | some tss => simp [getPortHistory, h1, h2, h3, h4] at h

theorem deletePortHistory_ok (cfg : Cfg) (st : State) (level pid : Nat) (q : Query) (p : Port) (f t : Int)
    (hl : cfg.adminLevel ≤ level) (hp : findPort st pid = some p) (ha : parseDelArgs q = .ok (f, t)) :
    deletePortHistory cfg st level pid q = (hRemove st [pid] (some f) (some t), .ok ()) := by
  unfold deletePortHistory
  rw [accessCheck_none _ _ hl, hp, ha]

theorem deletePortHistory_error_keeps_state (cfg : Cfg) (st : State) (level pid : Nat) (q : Query) (e : ApiErr)
    (h : (deletePortHistory cfg st level pid q).2 = .error e) :
    (deletePortHistory cfg st level pid q).1 = st := by
  cases h1 : accessCheck level cfg.adminLevel with
  | some e1 => simp [deletePortHistory, h1]
  | none =>
    cases h2 : findPort st pid with
    | none => simp [deletePortHistory, h1, h2]
    | some p =>
      cases h3 : parseDelArgs q with
      | error e3 => simp [deletePortHistory, h1, h2, h3]
      | ok a => simp [deletePortHistory, h1, h2, h3] at h

/-- What a successfully parsed `get_port_history` request means. -/
def ArgsMeaning (cfg : Cfg) (now : Int) (q : Query) (a : HistArgs) : Prop :=
  (q.frm ≠ none ∨ q.timestamps ≠ none) ∧
  ((a.frm = none ∧ (q.frm = none ∨ q.frm = some [])) ∨
    ∃ s f, q.frm = some s ∧ s ≠ [] ∧ parseInt s = some f ∧ 0 ≤ f ∧ a.frm = some f) ∧
  ((q.to = none ∧ a.to = now) ∨ ∃ s, q.to = some s ∧ parseInt s = some a.to ∧ 0 ≤ a.to) ∧
  ((q.limit = none ∧ a.limit = cfg.defLimit) ∨
    ∃ s v, q.limit = some s ∧ parseInt s = some v ∧ 1 ≤ v ∧ v ≤ cfg.maxLimit ∧ a.limit = v.toNat) ∧
  ((q.timestamps = none ∧ a.timestamps = none) ∨
    ∃ s l, q.timestamps = some s ∧ (splitComma s).mapM parseInt = some l ∧ (∀ t ∈ l, 0 ≤ t) ∧ a.timestamps = some l)

theorem nonNegInt_ok (fld : Field) (s : List Char) (v : Int) (h : nonNegInt fld s = .ok v) :
    parseInt s = some v ∧ 0 ≤ v := by
  unfold nonNegInt at h
  cases hp : parseInt s with
  | none => simp [hp] at h
  | some w =>
    simp only [hp] at h
    by_cases hw : w < 0
    · simp [hw] at h
    · simp only [hw, if_false, Except.ok.injEq] at h
      subst h; exact ⟨rfl, by omega⟩

theorem parseHistArgs_meaning (cfg : Cfg) (now : Int) (q : Query) (a : HistArgs)
    (h : parseHistArgs cfg now q = .ok a) : ArgsMeaning cfg now q a := by
  unfold parseHistArgs at h
  split at h
  · cases h
  rename_i h0
  cases h1 : parseFrom q.frm with
  | error e => simp [h1] at h
  | ok frm =>
  cases h2 : parseTo now q.to with
  | error e => simp [h1, h2] at h
  | ok to =>
  cases h3 : parseLimit cfg q.limit with
  | error e => simp [h1, h2, h3] at h
  | ok limit =>
  cases h4 : parseTimestamps q.timestamps with
  | error e => simp [h1, h2, h3, h4] at h
  | ok tss =>
  simp only [h1, h2, h3, h4, Except.ok.injEq] at h
  subst h
  refine ⟨?_, ?_, ?_, ?_, ?_⟩
  · cases hq : q.frm <;> cases hs : q.timestamps <;> simp_all
  · cases hq : q.frm with
    | none =>
      left; rw [hq] at h1; simp only [parseFrom, Except.ok.injEq] at h1
      exact ⟨h1.symm, Or.inl rfl⟩
    | some s =>
      cases s with
      | nil =>
        left; rw [hq] at h1; simp only [parseFrom, Except.ok.injEq] at h1
        exact ⟨h1.symm, Or.inr rfl⟩
      | cons c cs =>
        right
        rw [hq] at h1
        simp only [parseFrom] at h1
        cases hn : nonNegInt .frm (c :: cs) with
        | error e => simp [hn, Except.map] at h1
        | ok f =>
          obtain ⟨p1, p2⟩ := nonNegInt_ok _ _ _ hn
          simp only [hn, Except.map, Except.ok.injEq] at h1
          exact ⟨c :: cs, f, rfl, by simp, p1, p2, h1.symm⟩
  · cases hq : q.to with
    | none => left; rw [hq] at h2; simp only [parseTo, Except.ok.injEq] at h2; exact ⟨rfl, h2.symm⟩
    | some s =>
      right; rw [hq] at h2; simp only [parseTo] at h2
      obtain ⟨p1, p2⟩ := nonNegInt_ok _ _ _ h2
      exact ⟨s, rfl, p1, p2⟩
  · cases hq : q.limit with
    | none => left; rw [hq] at h3; simp only [parseLimit, Except.ok.injEq] at h3; exact ⟨rfl, h3.symm⟩
    | some s =>
      right; rw [hq] at h3; simp only [parseLimit] at h3
      cases hp : parseInt s with
      | none => simp [hp] at h3
      | some v =>
        simp only [hp] at h3
        by_cases hv : v < 1 ∨ v > cfg.maxLimit
        · simp [hv] at h3
        · simp only [hv, if_false, Except.ok.injEq] at h3
          exact ⟨s, v, rfl, hp, by omega, by omega, h3.symm⟩
  · cases hq : q.timestamps with
    | none => left; rw [hq] at h4; simp only [parseTimestamps, Except.ok.injEq] at h4; exact ⟨rfl, h4.symm⟩
    | some s =>
      right; rw [hq] at h4; simp only [parseTimestamps] at h4
      cases hp : (splitComma s).mapM parseInt with
      | none => simp [hp] at h4
      | some l =>
        simp only [hp] at h4
        by_cases hv : l.any (fun t => decide (t < 0)) = true
        · simp [hv] at h4
        · simp only [hv, Bool.false_eq_true, if_false, Except.ok.injEq] at h4
          refine ⟨s, l, rfl, hp, ?_, h4.symm⟩
          intro t ht
          have : ¬ t < 0 := by
            intro hlt; apply hv; simp only [List.any_eq_true, decide_eq_true_eq]; exact ⟨t, ht, hlt⟩
          omega


theorem parseDelArgs_meaning (q : Query) (f t : Int) (h : parseDelArgs q = .ok (f, t)) :
    ∃ sf st, q.frm = some sf ∧ parseInt sf = some f ∧ 0 ≤ f ∧ q.to = some st ∧ parseInt st = some t ∧ 0 ≤ t := by
  unfold parseDelArgs at h
  cases hq : q.frm with
  | none => simp [hq] at h
  | some sf =>
    simp only [hq] at h
    cases h1 : nonNegInt .frm sf with
    | error e => simp [h1] at h
    | ok f' =>
      simp only [h1] at h
      cases hq2 : q.to with
      | none => simp [hq2] at h
      | some st =>
        simp only [hq2] at h
        cases h2 : nonNegInt .to st with
        | error e => simp [h2] at h
        | ok t' =>
          simp only [h2, Except.ok.injEq, Prod.mk.injEq] at h
          obtain ⟨a1, a2⟩ := nonNegInt_ok _ _ _ h1
          obtain ⟨b1, b2⟩ := nonNegInt_ok _ _ _ h2
          rw [← h.1, ← h.2]
          exact ⟨sf, st, rfl, a1, a2, rfl, b1, b2⟩

/-- A small concrete state used by the non-vacuity examples of `Props/C18.lean`. -/
def exState : State :=
  ⟨[⟨1, 60, 8⟩, ⟨1, 200, 12⟩, ⟨2, 60, 4⟩, ⟨1, 300, 2⟩], [], [{ id := 1, ptype := .integer, interval := 0, last := none }]⟩

end QtVerif.History
