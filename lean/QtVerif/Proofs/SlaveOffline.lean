import QtVerif.Proofs.SlaveNodup
import QtVerif.Proofs.SlaveGeneral
/-!
C13, offline histories WITH user edits interleaved.

`Inc` (SlaveProvision.lean) has only what the slave reports and the hub's ticks. `Off` adds the user's edits made
during the outage — value writes, port-attribute edits, device-attribute edits, on any port, any number of times —
so several edits of the same port / attribute during one outage are covered end to end.

Specification side (independent of the master state): `valAfter`, `namesAfter`, `attrAfter` fold over the history
and track the LAST user value.
-/
namespace QtVerif.Slave

inductive Off
  | ev (e : Ev)
  | tick
  | editValue (id : Nat) (v : Int) (ok : Bool)
  | editAttr (id n : Nat) (v : Int)
  | editDev (n : Nat) (v : Int)
  deriving DecidableEq, Repr

def stepOff (fix : Fix) (m : Master) : Off → Master
  | .ev e => stepEvent fix m e
  | .tick => (drain fix m).2
  | .editValue id v ok => (editValue m id v ok).1
  | .editAttr id n v => (editAttr m id n v).1
  | .editDev n v => (editDev m n v).1

def runOff (fix : Fix) (m : Master) (l : List Off) : Master := l.foldl (stepOff fix) m

/-- Requests the user's edits cause during the history. -/
def reqsOff (fix : Fix) : Master → List Off → List Req
  | _, [] => []
  | m, x :: r =>
    (match x with
     | .editValue id v ok => (editValue m id v ok).2
     | .editAttr id n v => (editAttr m id n v).2
     | .editDev n v => (editDev m n v).2
     | _ => []) ++ reqsOff fix (stepOff fix m x) r

def Inc.toOff : Inc → Off
  | .ev e => .ev e
  | .tick => .tick

theorem runOff_of_inc (fix : Fix) (incs : List Inc) : ∀ m, runOff fix m (incs.map Inc.toOff) = runInc fix m incs := by
  induction incs with
  | nil => intro m; rfl
  | cons x r ih =>
    intro m
    simp only [List.map_cons, runOff, runInc, List.foldl_cons]
    have : stepOff fix m x.toOff = stepInc fix m x := by cases x <;> rfl
    rw [this]
    exact ih _

theorem runOff_append (fix : Fix) (m : Master) (a b : List Off) :
    runOff fix m (a ++ b) = runOff fix (runOff fix m a) b := by
  simp [runOff, List.foldl_append]

/-! ### The master stays offline; nothing is sent -/

theorem stepOff_online (fix : Fix) (m : Master) (x : Off) (hoff : m.online = false) :
    (stepOff fix m x).online = false := by
  cases x with
  | ev e => exact (stepEvent_flags fix m e).1.trans hoff
  | tick => exact hoff
  | editValue id v ok => simp only [stepOff]; rw [editValue_offline m hoff]; exact hoff
  | editAttr id n v => simp only [stepOff]; rw [editAttr_offline m hoff]; exact hoff
  | editDev n v => simp only [stepOff]; rw [editDev_offline m hoff]; exact hoff

theorem runOff_online (fix : Fix) (l : List Off) : ∀ m, m.online = false → (runOff fix m l).online = false := by
  induction l with
  | nil => intro m h; exact h
  | cons x r ih => intro m h; exact ih _ (stepOff_online fix m x h)

theorem reqsOff_nil (fix : Fix) (l : List Off) : ∀ m, m.online = false → reqsOff fix m l = [] := by
  induction l with
  | nil => intro m _; rfl
  | cons x r ih =>
    intro m h
    simp only [reqsOff]
    rw [ih _ (stepOff_online fix m x h), List.append_nil]
    cases x with
    | ev e => rfl
    | tick => rfl
    | editValue id v ok => simp only; rw [editValue_offline m h]
    | editAttr id n v => simp only; rw [editAttr_offline m h]
    | editDev n v => simp only; rw [editDev_offline m h]

/-! ### The sync mode does not change during the outage -/

theorem stepEvent_mode (fix : Fix) (m : Master) (e : Ev) : (stepEvent fix m e).mode = m.mode := by
  cases e with
  | valueChange i v =>
    rw [stepEvent_valueChange]
    split
    · rfl
    · split <;> rfl
  | portUpdate msg => rw [stepEvent_portUpdate]; split <;> rfl
  | portAdd msg => rw [stepEvent_portAdd]; split <;> rfl
  | portRemove i => rw [stepEvent_portRemove]; split <;> rfl
  | deviceUpdate a => rw [stepEvent_deviceUpdate]; split <;> rfl

theorem stepOff_mode (fix : Fix) (m : Master) (x : Off) (hoff : m.online = false) : (stepOff fix m x).mode = m.mode := by
  cases x with
  | ev e => exact stepEvent_mode fix m e
  | tick => rfl
  | editValue id v ok => simp only [stepOff]; rw [editValue_offline m hoff]
  | editAttr id n v => simp only [stepOff]; rw [editAttr_offline m hoff]
  | editDev n v => simp only [stepOff]; rw [editDev_offline m hoff]

theorem runOff_mode (fix : Fix) (l : List Off) : ∀ m, m.online = false → (runOff fix m l).mode = m.mode := by
  induction l with
  | nil => intro m _; rfl
  | cons x r ih =>
    intro m h
    exact (ih _ (stepOff_online fix m x h)).trans (stepOff_mode fix m x h)

/-! ### One step, seen from one port -/

def PortRel (id : Nat) : Off → MPort → MPort → Prop
  | .ev _, p, p1 => Kept p p1
  | .tick, p, p1 => Kept p p1
  | .editValue i v _, p, p1 => p1 = if i = id then valueEdit v p else p
  | .editAttr i n v, p, p1 => p1 = if i = id then attrEdit n v p else p
  | .editDev _ _, p, p1 => p1 = p

theorem findPort_upd_self (l : List MPort) (i id : Nat) (f : MPort → MPort) (hf : ∀ p, (f p).id = p.id) (p : MPort)
    (hp : findPort l id = some p) : findPort (updPort l i f) id = some (if i = id then f p else p) := by
  rw [findPort_updPort l i id f hf, hp]
  by_cases h : id = i
  · subst h; simp
  · have : ¬ i = id := fun e => h e.symm
    simp [h, this]

theorem stepOff_port (vb kv : Bool) (m : Master) (x : Off) (id : Nat) (p : MPort) (hoff : m.online = false)
    (hp : findPort m.ports id = some p) (hx : x ≠ .ev (.portRemove id)) :
    ∃ p1, findPort (stepOff ⟨vb, true, kv⟩ m x).ports id = some p1 ∧ PortRel id x p p1 := by
  cases x with
  | ev e => exact stepEvent_port_kept vb kv m e id p hp (fun h => hx (by rw [h]))
  | tick => exact drain_port_kept _ m id p hp
  | editValue i v ok =>
    simp only [stepOff]; rw [editValue_offline m hoff]
    exact ⟨_, findPort_upd_self m.ports i id (valueEdit v) (fun _ => rfl) p hp, rfl⟩
  | editAttr i n v =>
    simp only [stepOff]; rw [editAttr_offline m hoff]
    exact ⟨_, findPort_upd_self m.ports i id (attrEdit n v) (fun _ => rfl) p hp, rfl⟩
  | editDev n v =>
    simp only [stepOff]; rw [editDev_offline m hoff]
    exact ⟨p, hp, rfl⟩

/-! ### Value: the reconnect pushes the LAST value the user wrote -/

/-- The user's value after one more step, `u` being the user's value before. -/
def updV (id : Nat) (u : Int) : Off → Int
  | .editValue i v _ => if i = id then v else u
  | _ => u

/-- The last value the user wrote to port `id` in the history (`u` if none). -/
def valAfter (id : Nat) (u : Int) (l : List Off) : Int := l.foldl (updV id) u

/-- The last value the user wrote to port `id` in the history, if any. -/
def lastValue (id : Nat) (l : List Off) : Option Int :=
  l.foldl (fun acc x => match x with
    | .editValue i v _ => if i = id then some v else acc
    | _ => acc) none

theorem pendValue_of_kept {p p1 : MPort} {u : Int} (k : Kept p p1) (hv : p.pendValue = some u) (hq : p.rq = []) :
    p1.pendValue = some u ∧ p1.rq = [] := by
  obtain ⟨_, k2, k3, _, k5⟩ := k
  have hs : p.pendValue.isSome := by rw [hv]; rfl
  refine ⟨?_, k5 hs hq⟩
  unfold MPort.pendValue at *
  rw [k2, k3 hs hq]; exact hv

theorem stepOff_value (vb kv : Bool) (m : Master) (x : Off) (id : Nat) (p : MPort) (u : Int) (hoff : m.online = false)
    (hp : findPort m.ports id = some p) (hx : x ≠ .ev (.portRemove id)) (hv : p.pendValue = some u)
    (hq : p.rq = []) :
    ∃ p1, findPort (stepOff ⟨vb, true, kv⟩ m x).ports id = some p1 ∧ p1.pendValue = some (updV id u x) ∧ p1.rq = [] := by
  obtain ⟨p1, hp1, hr⟩ := stepOff_port vb kv m x id p hoff hp hx
  refine ⟨p1, hp1, ?_⟩
  cases x with
  | ev e => exact pendValue_of_kept hr hv hq
  | tick => exact pendValue_of_kept hr hv hq
  | editValue i v ok =>
    simp only [PortRel] at hr
    subst hr
    by_cases h : i = id
    · simp only [h, if_true, updV]; exact ⟨rfl, hq⟩
    · simp only [h, if_false, updV]; exact ⟨hv, hq⟩
  | editAttr i n v =>
    simp only [PortRel] at hr
    subst hr
    by_cases h : i = id
    · simp only [h, if_true, updV]; exact ⟨hv, hq⟩
    · simp only [h, if_false, updV]; exact ⟨hv, hq⟩
  | editDev n v =>
    simp only [PortRel] at hr
    subst hr
    exact ⟨hv, hq⟩

/-- Once a value is pending with the remote queue read out, every further history (events, ticks, edits of any
kind on any port) leaves the LAST written value pending, and the queue stays empty. -/
theorem runOff_value (vb kv : Bool) (id : Nat) (l : List Off) :
    ∀ (m : Master) (p : MPort) (u : Int), m.online = false → findPort m.ports id = some p →
      Off.ev (.portRemove id) ∉ l → p.pendValue = some u → p.rq = [] →
      ∃ p', findPort (runOff ⟨vb, true, kv⟩ m l).ports id = some p' ∧ p'.pendValue = some (valAfter id u l) ∧
        p'.rq = [] := by
  induction l with
  | nil => intro m p u _ hp _ hv hq; exact ⟨p, hp, hv, hq⟩
  | cons x r ih =>
    intro m p u hoff hp hnr hv hq
    have hx : x ≠ Off.ev (.portRemove id) := fun h => hnr (h ▸ List.mem_cons_self ..)
    have hr : Off.ev (.portRemove id) ∉ r := fun h => hnr (List.mem_cons_of_mem _ h)
    obtain ⟨p1, hp1, hv1, hq1⟩ := stepOff_value vb kv m x id p u hoff hp hx hv hq
    exact ih _ p1 _ (stepOff_online _ m x hoff) hp1 hr hv1 hq1

/-! #### Repaired `read_value` (`keepPendingValue`): the same without the queue having been read out -/

def PortRelV (id : Nat) : Off → MPort → MPort → Prop
  | .ev _, p, p1 => KeptV p p1
  | .tick, p, p1 => KeptV p p1
  | .editValue i v _, p, p1 => p1 = if i = id then valueEdit v p else p
  | .editAttr i n v, p, p1 => p1 = if i = id then attrEdit n v p else p
  | .editDev _ _, p, p1 => p1 = p

theorem stepOff_portV (fix : Fix) (hk : fix.keepPendingValue = true) (m : Master) (x : Off) (id : Nat) (p : MPort)
    (hoff : m.online = false) (hp : findPort m.ports id = some p) (hx : x ≠ .ev (.portRemove id)) :
    ∃ p1, findPort (stepOff fix m x).ports id = some p1 ∧ PortRelV id x p p1 := by
  cases x with
  | ev e => exact stepEvent_port_keptV fix m e id p hp (fun h => hx (by rw [h]))
  | tick => exact drain_port_keptV fix hk m id p hp
  | editValue i v ok =>
    simp only [stepOff]; rw [editValue_offline m hoff]
    exact ⟨_, findPort_upd_self m.ports i id (valueEdit v) (fun _ => rfl) p hp, rfl⟩
  | editAttr i n v =>
    simp only [stepOff]; rw [editAttr_offline m hoff]
    exact ⟨_, findPort_upd_self m.ports i id (attrEdit n v) (fun _ => rfl) p hp, rfl⟩
  | editDev n v =>
    simp only [stepOff]; rw [editDev_offline m hoff]
    exact ⟨p, hp, rfl⟩

theorem stepOff_valueV (fix : Fix) (hk : fix.keepPendingValue = true) (m : Master) (x : Off) (id : Nat) (p : MPort)
    (u : Int) (hoff : m.online = false) (hp : findPort m.ports id = some p) (hx : x ≠ .ev (.portRemove id))
    (hv : p.pendValue = some u) :
    ∃ p1, findPort (stepOff fix m x).ports id = some p1 ∧ p1.pendValue = some (updV id u x) := by
  obtain ⟨p1, hp1, hr⟩ := stepOff_portV fix hk m x id p hoff hp hx
  refine ⟨p1, hp1, ?_⟩
  cases x with
  | ev e => exact KeptV.pendValue hr hv
  | tick => exact KeptV.pendValue hr hv
  | editValue i v ok =>
    simp only [PortRelV] at hr
    subst hr
    by_cases h : i = id
    · simp only [h, if_true, updV]; rfl
    · simp only [h, if_false, updV]; exact hv
  | editAttr i n v =>
    simp only [PortRelV] at hr
    subst hr
    by_cases h : i = id
    · simp only [h, if_true, updV]; exact hv
    · simp only [h, if_false, updV]; exact hv
  | editDev n v =>
    simp only [PortRelV] at hr
    subst hr
    exact hv

/-- Repaired `read_value`: once a value is pending — WHATEVER is still queued on the port — every further history
(events, ticks, edits of any kind on any port) leaves the LAST written value pending. -/
theorem runOff_valueV (fix : Fix) (hk : fix.keepPendingValue = true) (id : Nat) (l : List Off) :
    ∀ (m : Master) (p : MPort) (u : Int), m.online = false → findPort m.ports id = some p →
      Off.ev (.portRemove id) ∉ l → p.pendValue = some u →
      ∃ p', findPort (runOff fix m l).ports id = some p' ∧ p'.pendValue = some (valAfter id u l) := by
  induction l with
  | nil => intro m p u _ hp _ hv; exact ⟨p, hp, hv⟩
  | cons x r ih =>
    intro m p u hoff hp hnr hv
    have hx : x ≠ Off.ev (.portRemove id) := fun h => hnr (h ▸ List.mem_cons_self ..)
    have hr : Off.ev (.portRemove id) ∉ r := fun h => hnr (List.mem_cons_of_mem _ h)
    obtain ⟨p1, hp1, hv1⟩ := stepOff_valueV fix hk m x id p u hoff hp hx hv
    exact ih _ p1 _ (stepOff_online _ m x hoff) hp1 hr hv1

theorem lastValue_from (id : Nat) (l : List Off) (u : Int) :
    l.foldl (fun acc x => match x with
      | .editValue i v _ => if i = id then some v else acc
      | _ => acc) (some u) = some (valAfter id u l) := by
  induction l generalizing u with
  | nil => rfl
  | cons x r ih =>
    simp only [List.foldl_cons, valAfter]
    cases x with
    | editValue i v ok =>
      by_cases h : i = id
      · simp only [h, if_true, updV]; exact ih v
      · simp only [h, if_false, updV]; exact ih u
    | ev e => exact ih u
    | tick => exact ih u
    | editAttr i n v => exact ih u
    | editDev n v => exact ih u

theorem lastValue_split (id : Nat) (h1 h2 : List Off) (v : Int) (ok : Bool) :
    lastValue id (h1 ++ [.editValue id v ok] ++ h2) = some (valAfter id v h2) := by
  unfold lastValue
  rw [List.foldl_append, List.foldl_append]
  simp only [List.foldl_cons, List.foldl_nil, if_true]
  exact lastValue_from id h2 v

/-! ### Attributes: the reconnect pushes exactly the last user value per edited name -/

def updNames (id : Nat) (names : List Nat) : Off → List Nat
  | .editAttr i n _ => if i = id then addName names n else names
  | _ => names

def updA (id n : Nat) (a : Option Int) : Off → Option Int
  | .editAttr i k v => if i = id ∧ k = n then some v else a
  | _ => a

/-- Names of port `id` pending after the history (first-edit order), `names` being pending before. -/
def namesAfter (id : Nat) (names : List Nat) (l : List Off) : List Nat := l.foldl (updNames id) names

/-- The last value the user gave attribute `n` of port `id` (`a` if the history has no such edit). -/
def attrAfter (id n : Nat) (a : Option Int) (l : List Off) : Option Int := l.foldl (updA id n) a

/-- The port holds the tracked pending names, each with its tracked value. -/
def InvA (p : MPort) (names : List Nat) (last : Nat → Option Int) : Prop :=
  p.prov = names ∧ (∀ n v, last n = some v → n ∈ p.prov ∧ p.attrs.get? n = some v) ∧
  (∀ n ∈ names, (last n).isSome)

theorem invA_of_kept {p p1 : MPort} {names : List Nat} {last : Nat → Option Int} (k : Kept p p1)
    (h : InvA p names last) : InvA p1 names last := by
  obtain ⟨k1, _, _, k4, _⟩ := k
  obtain ⟨h1, h2, h3⟩ := h
  refine ⟨k1.trans h1, ?_, h3⟩
  intro n v hl
  obtain ⟨hn, hv⟩ := h2 n v hl
  exact ⟨by rw [k1]; exact hn, k4 n hn v hv⟩

theorem invA_attrEdit {p : MPort} {names : List Nat} {last : Nat → Option Int} (k : Nat) (w : Int)
    (h : InvA p names last) :
    InvA (attrEdit k w p) (addName names k) (fun n => if k = n then some w else last n) := by
  obtain ⟨h1, h2, h3⟩ := h
  refine ⟨by simp only [attrEdit, h1], ?_, ?_⟩
  · intro n v hl
    by_cases hk : k = n
    · subst hk
      simp only [if_true, Option.some.injEq] at hl
      subst hl
      exact ⟨mem_addName _ _, Attrs.get?_set_same _ _ _⟩
    · simp only [hk, if_false] at hl
      obtain ⟨hn, hv⟩ := h2 n v hl
      refine ⟨(mem_addName_iff _ _ _).mpr (Or.inl hn), ?_⟩
      simp only [attrEdit]
      rw [Attrs.get?_set_other _ _ _ _ (fun e => hk e.symm)]
      exact hv
  · intro n hn
    by_cases hk : k = n
    · simp [hk]
    · simp only [hk, if_false]
      rcases (mem_addName_iff _ _ _).mp hn with h | h
      · exact h3 n h
      · exact absurd h.symm hk

theorem stepOff_attr (vb kv : Bool) (m : Master) (x : Off) (id : Nat) (p : MPort) (names : List Nat)
    (last : Nat → Option Int) (hoff : m.online = false) (hp : findPort m.ports id = some p)
    (hx : x ≠ .ev (.portRemove id)) (h : InvA p names last) :
    ∃ p1, findPort (stepOff ⟨vb, true, kv⟩ m x).ports id = some p1 ∧
      InvA p1 (updNames id names x) (fun n => updA id n (last n) x) := by
  obtain ⟨p1, hp1, hr⟩ := stepOff_port vb kv m x id p hoff hp hx
  refine ⟨p1, hp1, ?_⟩
  cases x with
  | ev e => exact invA_of_kept hr h
  | tick => exact invA_of_kept hr h
  | editValue i v ok =>
    simp only [PortRel] at hr
    subst hr
    by_cases hi : i = id
    · simp only [hi, if_true]; exact h
    · simp only [hi, if_false]; exact h
  | editAttr i k w =>
    simp only [PortRel] at hr
    subst hr
    by_cases hi : i = id
    · simp only [hi, if_true, updNames, updA, true_and]
      exact invA_attrEdit k w h
    · simp only [hi, if_false, updNames, updA, false_and]
      exact h
  | editDev n v =>
    simp only [PortRel] at hr
    subst hr
    exact h

theorem runOff_attr (vb kv : Bool) (id : Nat) (l : List Off) :
    ∀ (m : Master) (p : MPort) (names : List Nat) (last : Nat → Option Int), m.online = false →
      findPort m.ports id = some p → Off.ev (.portRemove id) ∉ l → InvA p names last →
      ∃ p', findPort (runOff ⟨vb, true, kv⟩ m l).ports id = some p' ∧
        InvA p' (namesAfter id names l) (fun n => attrAfter id n (last n) l) := by
  induction l with
  | nil => intro m p names last _ hp _ h; exact ⟨p, hp, h⟩
  | cons x r ih =>
    intro m p names last hoff hp hnr h
    have hx : x ≠ Off.ev (.portRemove id) := fun e => hnr (e ▸ List.mem_cons_self ..)
    have hr : Off.ev (.portRemove id) ∉ r := fun e => hnr (List.mem_cons_of_mem _ e)
    obtain ⟨p1, hp1, h1⟩ := stepOff_attr vb kv m x id p names last hoff hp hx h
    exact ih _ p1 _ _ (stepOff_online _ m x hoff) hp1 hr h1

theorem filterMap_congr_mem {α β : Type} {f g : α → Option β} (l : List α) (h : ∀ a ∈ l, f a = g a) :
    l.filterMap f = l.filterMap g := by
  induction l with
  | nil => rfl
  | cons a t ih =>
    simp only [List.filterMap_cons]
    rw [h a (List.mem_cons_self ..), ih (fun b hb => h b (List.mem_cons_of_mem _ hb))]

/-- Under `InvA` the attributes the reconnect pushes for the port are exactly the tracked ones. -/
theorem pendAttrs_of_invA {p : MPort} {names : List Nat} {last : Nat → Option Int} (h : InvA p names last) :
    p.pendAttrs = names.filterMap (fun n => (last n).map (fun v => (n, v))) := by
  obtain ⟨h1, h2, h3⟩ := h
  unfold MPort.pendAttrs
  rw [h1]
  apply filterMap_congr_mem
  intro n hn
  cases hl : last n with
  | none => have := h3 n hn; rw [hl] at this; cases this
  | some v => rw [(h2 n v hl).2]

/-- The tracker's initial state for a port: its pending names with the values they hold. -/
def pendLookup (p : MPort) (n : Nat) : Option Int := if n ∈ p.prov then p.attrs.get? n else none

theorem invA_start (p : MPort) (hs : ∀ n ∈ p.prov, (p.attrs.get? n).isSome) : InvA p p.prov (pendLookup p) := by
  refine ⟨rfl, ?_, ?_⟩
  · intro n v hl
    unfold pendLookup at hl
    by_cases hn : n ∈ p.prov
    · simp only [hn, if_true] at hl; exact ⟨hn, hl⟩
    · simp only [hn, if_false] at hl; cases hl
  · intro n hn
    unfold pendLookup
    simp only [hn, if_true]
    exact hs n hn

/-! ### Device attributes: the reconnect pushes exactly the last user value per edited name

`_handle_device_update` (as written) drops a WHOLE update that mentions a pending name and otherwise REPLACES the cache;
with every device update reporting the whole attribute set (`hrep`), an update is therefore accepted only while
nothing is pending, and dropped as soon as one name is. -/

def updDevNames (names : List Nat) : Off → List Nat
  | .editDev n _ => addName names n
  | _ => names

def updDevA (n : Nat) (a : Option Int) : Off → Option Int
  | .editDev k v => if k = n then some v else a
  | _ => a

/-- Device attribute names pending after the history (first-edit order), `names` being pending before. -/
def devNamesAfter (names : List Nat) (l : List Off) : List Nat := l.foldl updDevNames names

/-- The last value the user gave device attribute `n` (`a` if the history has no such edit). -/
def devAttrAfter (n : Nat) (a : Option Int) (l : List Off) : Option Int := l.foldl (updDevA n) a

/-- The master holds the tracked pending device names, each with its tracked value. -/
def InvD (m : Master) (names : List Nat) (last : Nat → Option Int) : Prop :=
  m.devProv = names ∧ (∀ n v, last n = some v → n ∈ m.devProv ∧ m.dev.get? n = some v) ∧
  (∀ n ∈ names, (last n).isSome)

theorem invD_of_devKept {m m1 : Master} {names : List Nat} {last : Nat → Option Int} (k : DevKept m m1)
    (h : InvD m names last) : InvD m1 names last := by
  obtain ⟨k1, k2⟩ := k
  obtain ⟨h1, h2, h3⟩ := h
  refine ⟨k1.trans h1, ?_, h3⟩
  intro n v hl
  obtain ⟨hn, hv⟩ := h2 n v hl
  exact ⟨by rw [k1]; exact hn, k2 n hn v hv⟩

theorem invD_congr {m m1 : Master} {names : List Nat} {last : Nat → Option Int} (hd : m1.dev = m.dev)
    (hp : m1.devProv = m.devProv) (h : InvD m names last) : InvD m1 names last := by
  unfold InvD at *
  rw [hd, hp]; exact h

theorem invD_devEdit {m : Master} {names : List Nat} {last : Nat → Option Int} (k : Nat) (w : Int)
    (h : InvD m names last) :
    InvD { m with devProv := addName m.devProv k, dev := m.dev.set k w } (addName names k)
      (fun n => if k = n then some w else last n) := by
  obtain ⟨h1, h2, h3⟩ := h
  refine ⟨by simp only [h1], ?_, ?_⟩
  · intro n v hl
    by_cases hk : k = n
    · subst hk
      simp only [if_true, Option.some.injEq] at hl
      subst hl
      exact ⟨mem_addName _ _, Attrs.get?_set_same _ _ _⟩
    · simp only [hk, if_false] at hl
      obtain ⟨hn, hv⟩ := h2 n v hl
      refine ⟨(mem_addName_iff _ _ _).mpr (Or.inl hn), ?_⟩
      simp only
      rw [Attrs.get?_set_other _ _ _ _ (fun e => hk e.symm)]
      exact hv
  · intro n hn
    by_cases hk : k = n
    · simp [hk]
    · simp only [hk, if_false]
      rcases (mem_addName_iff _ _ _).mp hn with h | h
      · exact h3 n h
      · exact absurd h.symm hk

theorem stepOff_dev (fix : Fix) (m : Master) (x : Off) (names : List Nat) (last : Nat → Option Int)
    (hoff : m.online = false) (h : InvD m names last)
    (hrep : ∀ a, x = .ev (.deviceUpdate a) → ∀ n ∈ names, a.has n = true) :
    InvD (stepOff fix m x) (updDevNames names x) (fun n => updDevA n (last n) x) := by
  cases x with
  | ev e =>
    apply invD_of_devKept (stepEvent_dev_kept fix m e ?_) h
    intro a ha n hn
    rw [h.1] at hn
    exact hrep a (by rw [ha]) n hn
  | tick => exact invD_congr (drain_dev fix m).1 (drain_dev fix m).2 h
  | editValue i v ok =>
    simp only [stepOff]; rw [editValue_offline m hoff]
    exact invD_congr rfl rfl h
  | editAttr i n v =>
    simp only [stepOff]; rw [editAttr_offline m hoff]
    exact invD_congr rfl rfl h
  | editDev k w =>
    simp only [stepOff]; rw [editDev_offline m hoff]
    exact invD_devEdit k w h

theorem mem_updDevNames {names : List Nat} {n : Nat} (x : Off) (h : n ∈ names) : n ∈ updDevNames names x := by
  cases x with
  | editDev k w => exact (mem_addName_iff _ _ _).mpr (Or.inl h)
  | ev e => exact h
  | tick => exact h
  | editValue i v ok => exact h
  | editAttr i k v => exact h

theorem mem_devNamesAfter (l : List Off) : ∀ {names : List Nat} {n : Nat}, n ∈ names → n ∈ devNamesAfter names l := by
  induction l with
  | nil => intro names n h; exact h
  | cons x r ih => intro names n h; exact ih (mem_updDevNames x h)

/-- Every device update of the history reports every name pending at the end (a real device always reports its whole
attribute set). -/
def DevReportsOff (names : List Nat) (l : List Off) : Prop :=
  ∀ a, Off.ev (.deviceUpdate a) ∈ l → ∀ n ∈ devNamesAfter names l, a.has n = true

theorem runOff_dev (fix : Fix) (l : List Off) :
    ∀ (m : Master) (names : List Nat) (last : Nat → Option Int), m.online = false → InvD m names last →
      DevReportsOff names l →
      InvD (runOff fix m l) (devNamesAfter names l) (fun n => devAttrAfter n (last n) l) := by
  induction l with
  | nil => intro m names last _ h _; exact h
  | cons x r ih =>
    intro m names last hoff h hrep
    have h1 := stepOff_dev fix m x names last hoff h (by
      intro a ha n hn
      exact hrep a (ha ▸ List.mem_cons_self ..) n (mem_devNamesAfter r (mem_updDevNames x hn)))
    exact ih _ _ _ (stepOff_online fix m x hoff) h1 (fun a ha n hn => hrep a (List.mem_cons_of_mem _ ha) n hn)

/-- Under `InvD` the device attributes the reconnect pushes are exactly the tracked ones. -/
theorem pendDev_of_invD {m : Master} {names : List Nat} {last : Nat → Option Int} (h : InvD m names last) :
    m.pendDev = names.filterMap (fun n => (last n).map (fun v => (n, v))) := by
  obtain ⟨h1, h2, h3⟩ := h
  unfold Master.pendDev
  rw [h1]
  apply filterMap_congr_mem
  intro n hn
  cases hl : last n with
  | none => have := h3 n hn; rw [hl] at this; cases this
  | some v => rw [(h2 n v hl).2]

/-- The tracker's initial state for the device: its pending names with the values they hold. -/
def devLookup (m : Master) (n : Nat) : Option Int := if n ∈ m.devProv then m.dev.get? n else none

theorem invD_start (m : Master) (hs : ∀ n ∈ m.devProv, (m.dev.get? n).isSome) : InvD m m.devProv (devLookup m) := by
  refine ⟨rfl, ?_, ?_⟩
  · intro n v hl
    unfold devLookup at hl
    by_cases hn : n ∈ m.devProv
    · simp only [hn, if_true] at hl; exact ⟨hn, hl⟩
    · simp only [hn, if_false] at hl; cases hl
  · intro n hn
    unfold devLookup
    simp only [hn, if_true]
    exact hs n hn

/-! ### The hub's ticks read the queue out -/

theorem findPort_drain (fix : Fix) (m : Master) (id : Nat) :
    findPort (drain fix m).2.ports id = (findPort m.ports id).map (fun p => (drainPort fix p.rq.length p).2) := by
  unfold drain
  simp only [List.map_map]
  unfold findPort
  rw [List.find?_map]
  have : ((fun p => p.id == id) ∘ (fun x => x.2) ∘ fun p => drainPort fix p.rq.length p)
      = (fun p : MPort => p.id == id) := by
    funext q
    simp only [Function.comp, drainPort_id]
  rw [this]
  rfl

/-- After a tick of the hub's polling loop the remote queue of an enabled port is empty. -/
theorem quiet_after_tick (fix : Fix) (m : Master) (id : Nat) (p : MPort) (hp : findPort m.ports id = some p)
    (he : p.enabled = true) : ∃ p', findPort (drain fix m).2.ports id = some p' ∧ p'.rq = [] := by
  rw [findPort_drain, hp]
  refine ⟨_, rfl, ?_⟩
  show (drainPort fix p.rq.length p).2.rq = []
  rw [drainPort_spec fix _ p he (Nat.le_refl _)]
  exact drained_rq fix p

/-! ### Registry ids stay distinct -/

theorem nodup_stepOff (fix : Fix) (m : Master) (x : Off) (hoff : m.online = false) (h : (m.ports.map (·.id)).Nodup) :
    ((stepOff fix m x).ports.map (·.id)).Nodup := by
  cases x with
  | ev e => exact nodup_stepEvent fix m e h
  | tick => exact nodup_drain fix m h
  | editValue id v ok => exact nodup_editValue m hoff id v ok h
  | editAttr id n v => exact nodup_editAttr m hoff id n v h
  | editDev n v => simp only [stepOff]; rw [editDev_offline m hoff]; exact h

theorem nodup_runOff (fix : Fix) (l : List Off) :
    ∀ (m : Master), m.online = false → (m.ports.map (·.id)).Nodup → ((runOff fix m l).ports.map (·.id)).Nodup := by
  induction l with
  | nil => intro m _ h; exact h
  | cons x r ih =>
    intro m hoff h
    exact ih _ (stepOff_online fix m x hoff) (nodup_stepOff fix m x hoff h)

end QtVerif.Slave
