import QtVerif.Model.Access
/-!
Spec of property C09: the level the API specification assigns to each endpoint, written down from the property
statement itself ("admin for device, port management, slaves, peripherals, webhooks, reverse, firmware, reset,
history deletion, system and backup; normal for value and sequence writes; view-only for reading ports, values,
history, panels, prefs and listening"), independently of the decorators transcribed in `Model/Access.lean`
(`required`). `classify` says which category of the statement an endpoint (URLSpec × HTTP method) belongs to.

SpecChoices (endpoints the statement does not name; the code's choice is recorded so that it is pinned):
  * `GET /access` requires no level (it is how a consumer learns its own level);
  * `POST /devices/<name>/events` requires no *consumer* level: the handler has AUTH_ENABLED = False and the
    function authenticates the slave with the slave's own admin password (property C10's subject);
  * `PUT /frontend/dashboard/panels` is admin (only *reading* panels is view-only);
  * `PUT /frontend/prefs` is view-only (prefs are per-user);
  * `GET/PUT /frontend` is the backup/restore endpoint of the frontend configuration (listed by
    `GET /backup/endpoints`): backup, admin;
  * `POST /introspect` (debug builds only) is admin.
-/
namespace QtVerif.Access

inductive Category
  -- admin
  | device | portManagement | slaves | peripherals | webhooks | reverse | firmware | reset
  | historyDeletion | system | backup
  -- normal
  | valueWrite | sequenceWrite
  -- view-only
  | readPorts | readValues | readHistory | readPanels | prefs | listening
  -- not named by the statement (SpecChoices above)
  | accessQuery | slaveEvents | panelsWrite | introspect
  deriving DecidableEq, Repr

/-- The level the statement assigns to each category. -/
def specLevel : Category → Level
  | .device | .portManagement | .slaves | .peripherals | .webhooks | .reverse | .firmware | .reset
  | .historyDeletion | .system | .backup => .admin
  | .valueWrite | .sequenceWrite => .normal
  | .readPorts | .readValues | .readHistory | .readPanels | .prefs | .listening => .viewonly
  | .accessQuery | .slaveEvents => .none
  | .panelsWrite | .introspect => .admin

/-- Which category an endpoint belongs to; `none`: the API offers no such endpoint. -/
def classify : Route → Method → Option Category
  | .device, .GET | .device, .PUT | .device, .PATCH => some .device
  | .reset, .POST => some .reset
  | .access, .GET => some .accessQuery
  | .ports, .GET => some .readPorts
  | .ports, .PUT | .ports, .POST | .port, .PATCH | .port, .DELETE => some .portManagement
  | .portValue, .GET => some .readValues
  | .portValue, .PATCH => some .valueWrite
  | .portSequence, .PATCH => some .sequenceWrite
  | .portHistory, .GET => some .readHistory
  | .portHistory, .DELETE => some .historyDeletion
  | .peripherals, .GET | .peripherals, .PUT | .peripherals, .POST | .peripheral, .DELETE => some .peripherals
  | .backupEndpoints, .GET => some .backup
  | .frontend, .GET | .frontend, .PUT => some .backup
  | .firmware, .GET | .firmware, .PATCH => some .firmware
  | .slaveDevices, .GET | .slaveDevices, .PUT | .slaveDevices, .POST => some .slaves
  | .slaveDevice, .PATCH | .slaveDevice, .DELETE => some .slaves
  | .slaveForward, .GET | .slaveForward, .POST | .slaveForward, .PATCH | .slaveForward, .PUT
  | .slaveForward, .DELETE => some .slaves
  | .discovered, .GET | .discovered, .DELETE | .discoveredDevice, .PATCH => some .slaves
  | .slaveEvents, .POST => some .slaveEvents
  | .webhooks, .GET | .webhooks, .PUT => some .webhooks
  | .reverse, .GET | .reverse, .PUT => some .reverse
  | .system, .GET | .system, .PUT => some .system
  | .listen, .GET => some .listening
  | .frontendPanels, .GET => some .readPanels
  | .frontendPanels, .PUT => some .panelsWrite
  | .frontendPrefs, .GET | .frontendPrefs, .PUT => some .prefs
  | .introspect, .POST => some .introspect
  | _, _ => none

/-- The level the specification assigns to an endpoint. -/
def specRequired (r : Route) (m : Method) : Option Level := (classify r m).map specLevel

end QtVerif.Access
