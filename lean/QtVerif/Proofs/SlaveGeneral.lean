import QtVerif.Proofs.SlaveMirror
import QtVerif.Proofs.SlaveProvision
/-!
General forms of the C12 statements (the master's mirror follows the slave) that do NOT assume the steady state:

* A. reconnect with pending edits: the slave side of the pushes (`applyReq`, `applyReqs`), `reconnect_resyncs`
  (push pending, then refresh = mirror equals the slave), and the pushed edits really are in the slave afterwards;
* D. the same for the pushed-events mode (`provisionAndUpdate`, `pushedStep`);
* C. polling including the device attributes (`pollOnce`);
* B. the offline invariant "mirror ⊕ pending = slave" (`OverlaySynced`), kept by every event and every offline edit.

Builds on `SlaveMirror.lean` (C12) and `SlaveProvision.lean` (C13). Property theorems are in `QtVerif/Props/C12.lean`.
-/
namespace QtVerif.Slave

/-! ### A/D. After `apply_provisioning` nothing is pending, so the refresh resynchronises -/

theorem applyProvisioning_ports (fix : Fix) (rf : List Nat) (m : Master) :
    (applyProvisioning fix rf m).2.ports = (provisionPorts fix rf m.ports).2 := rfl

theorem applyProvisioning_devProv (fix : Fix) (rf : List Nat) (m : Master) :
    (applyProvisioning fix rf m).2.devProv = if m.pendDev.isEmpty then m.devProv else [] := rfl

/-- `apply_provisioning` leaves nothing pending (ports always; device when every pending device attribute has a
cached value, which is what the offline edit path guarantees). -/
theorem noPending_applyProvisioning (fix : Fix) (rf : List Nat) (m : Master)
    (hdev : ∀ n ∈ m.devProv, (m.dev.get? n).isSome) : NoPending (applyProvisioning fix rf m).2 := by
  refine ⟨?_, ?_⟩
  · rw [applyProvisioning_ports]; exact provisionPorts_clean fix rf m.ports
  · rw [applyProvisioning_devProv]
    split
    · rename_i he; exact pendDev_isEmpty_of m hdev he
    · rfl

theorem noPending_fetchPorts (fix : Fix) (m : Master) (resp : List PortMsg) (h : NoPending m) :
    NoPending (fetchPorts fix m resp) :=
  ⟨allClean_fetchPorts fix m resp h.1, (fetchPorts_static fix m resp).1.trans h.2⟩

/-- **Shared core of the reconnect and of the pushed-events run**: push what is pending, then fetch device and
ports at slave state `s'` — the mirror equals `s'` and nothing is pending, whatever was pending before and whatever
the mirror held. -/
theorem provision_then_fetch (fix : Fix) (rf : List Nat) (m : Master) (s' : SlaveSt)
    (hdev : ∀ n ∈ m.devProv, (m.dev.get? n).isSome) (hnd : (s'.ports.map (·.id)).Nodup) :
    Synced (fetchPorts fix { (applyProvisioning fix rf m).2 with dev := s'.dev } (s'.ports.map SPort.msg)) s' ∧
    NoPending (fetchPorts fix { (applyProvisioning fix rf m).2 with dev := s'.dev } (s'.ports.map SPort.msg)) := by
  have hn := noPending_applyProvisioning fix rf m hdev
  exact ⟨fetchPorts_synced fix _ s' hn hnd, noPending_fetchPorts fix _ _ hn⟩

theorem handleOnline_listen (fix : Fix) (rf : List Nat) (m : Master) (hmode : m.mode = .listen) (d : Attrs)
    (ps : List PortMsg) :
    (handleOnline fix rf m (some d) (some ps)).2 =
      { (fetchPorts fix { (applyProvisioning fix rf { m with online := true }).2 with dev := d } ps) with
        ready := true } := by
  unfold handleOnline
  rw [hmode]

theorem synced_ready_irrel {m : Master} {s : SlaveSt} (b : Bool) (h : Synced m s) : Synced { m with ready := b } s := h
theorem noPending_ready_irrel {m : Master} (b : Bool) (h : NoPending m) : NoPending { m with ready := b } := h

/-- **Reconnect = push pending, then refresh.** Listen mode, any `fix`, any pending edits, any mirror content: after
`_handle_online` with the refresh answered at slave state `s'`, the mirror equals `s'` and nothing is pending. -/
theorem reconnect_synced (fix : Fix) (rf : List Nat) (m : Master) (s' : SlaveSt) (hmode : m.mode = .listen)
    (hdev : ∀ n ∈ m.devProv, (m.dev.get? n).isSome) (hnd : (s'.ports.map (·.id)).Nodup) :
    Synced (handleOnline fix rf m (some s'.dev) (some (s'.ports.map SPort.msg))).2 s' ∧
    NoPending (handleOnline fix rf m (some s'.dev) (some (s'.ports.map SPort.msg))).2 := by
  rw [handleOnline_listen fix rf m hmode]
  have := provision_then_fetch fix rf { m with online := true } s' hdev hnd
  exact ⟨synced_ready_irrel true this.1, noPending_ready_irrel true this.2⟩

/-- Pushed-events mode: one synchronisation run answered at slave state `s'`. -/
theorem pushed_synced (fix : Fix) (rf : List Nat) (m : Master) (s' : SlaveSt)
    (hdev : ∀ n ∈ m.devProv, (m.dev.get? n).isSome) (hnd : (s'.ports.map (·.id)).Nodup) :
    Synced (provisionAndUpdate fix rf m (some s'.dev) (some (s'.ports.map SPort.msg))).2 s' ∧
    NoPending (provisionAndUpdate fix rf m (some s'.dev) (some (s'.ports.map SPort.msg))).2 :=
  provision_then_fetch fix rf m s' hdev hnd

/-- An event keeps "every pending device attribute has a cached value" when device updates report every pending
name (a real device reports its whole attribute set). -/
theorem hdev_stepEvent (fix : Fix) (m : Master) (e : Ev) (hdev : ∀ n ∈ m.devProv, (m.dev.get? n).isSome)
    (hrep : ∀ a, e = .deviceUpdate a → ∀ n ∈ m.devProv, a.has n = true) :
    ∀ n ∈ (stepEvent fix m e).devProv, ((stepEvent fix m e).dev.get? n).isSome := by
  obtain ⟨h1, h2⟩ := stepEvent_dev_kept fix m e hrep
  intro n hn
  rw [h1] at hn
  obtain ⟨v, hv⟩ := Option.isSome_iff_exists.mp (hdev n hn)
  rw [h2 n hn v hv]; rfl

theorem pushedStep_synced (fix : Fix) (rf : List Nat) (m : Master) (e : Ev) (s' : SlaveSt)
    (hdev : ∀ n ∈ m.devProv, (m.dev.get? n).isSome)
    (hrep : ∀ a, e = .deviceUpdate a → ∀ n ∈ m.devProv, a.has n = true) (hnd : (s'.ports.map (·.id)).Nodup) :
    Synced (pushedStep fix rf m e (some s'.dev) (some (s'.ports.map SPort.msg))).2 s' ∧
    NoPending (pushedStep fix rf m e (some s'.dev) (some (s'.ports.map SPort.msg))).2 :=
  pushed_synced fix rf (stepEvent fix m e) s' (hdev_stepEvent fix m e hdev hrep) hnd

/-! ### A. The slave side of the pushes -/

/-- What one request of the master does to the slave's ports and device attributes. -/
def applyReq (s : SlaveSt) : Req → SlaveSt
  | .patchPort id body =>
    { s with ports := s.ports.map (fun q => if q.id == id then { q with attrs := q.attrs.update body } else q) }
  | .patchValue id (some v) =>
    { s with ports := s.ports.map (fun q => if q.id == id then { q with value := some v } else q) }
  | .patchDevice body => { s with dev := s.dev.update body }
  | _ => s        -- requests without body / GETs / webhooks do not change ports or device attributes

def applyReqs (s : SlaveSt) (l : List Req) : SlaveSt := l.foldl applyReq s

theorem applyReq_ids (s : SlaveSt) (r : Req) : (applyReq s r).ports.map (·.id) = s.ports.map (·.id) := by
  cases r with
  | patchPort id body => exact map_id_updS _ _ (fun q => { q with attrs := q.attrs.update body }) (fun _ => rfl)
  | patchValue id b =>
    cases b with
    | none => rfl
    | some v => exact map_id_updS _ _ (fun q => { q with value := some v }) (fun _ => rfl)
  | _ => rfl

theorem applyReqs_ids (l : List Req) (s : SlaveSt) : (applyReqs s l).ports.map (·.id) = s.ports.map (·.id) := by
  induction l generalizing s with
  | nil => rfl
  | cons r t ih =>
    show (applyReqs (applyReq s r) t).ports.map (·.id) = _
    rw [ih, applyReq_ids]

theorem applyReqs_nodup (l : List Req) (s : SlaveSt) (h : (s.ports.map (·.id)).Nodup) :
    ((applyReqs s l).ports.map (·.id)).Nodup := by
  rw [applyReqs_ids]; exact h

/-- What one request does to the slave's port `j`. -/
def portStep (j : Nat) (q : SPort) : Req → SPort
  | .patchPort id body => if j = id then { q with attrs := q.attrs.update body } else q
  | .patchValue id (some v) => if j = id then { q with value := some v } else q
  | _ => q

theorem findS_applyReq (s : SlaveSt) (r : Req) (j : Nat) :
    findS (applyReq s r).ports j = (findS s.ports j).map (fun q => portStep j q r) := by
  cases r with
  | patchPort id body =>
    simp only [applyReq, portStep]
    rw [findS_map _ _ _ (fun q => { q with attrs := q.attrs.update body }) (fun _ => rfl)]
    by_cases h : j = id <;> simp [h]
  | patchValue id b =>
    cases b with
    | none => simp [applyReq, portStep]
    | some v =>
      simp only [applyReq, portStep]
      rw [findS_map _ _ _ (fun q => { q with value := some v }) (fun _ => rfl)]
      by_cases h : j = id <;> simp [h]
  | _ => simp [applyReq, portStep]

theorem findS_applyReqs (l : List Req) (s : SlaveSt) (j : Nat) :
    findS (applyReqs s l).ports j = (findS s.ports j).map (fun q => l.foldl (portStep j) q) := by
  induction l generalizing s with
  | nil => simp [applyReqs]
  | cons r t ih =>
    show findS (applyReqs (applyReq s r) t).ports j = _
    rw [ih, findS_applyReq, Option.map_map]
    rfl

/-- Requests that are not a value push for port `j` leave the value of port `j` alone … -/
theorem portStep_value_other (j : Nat) (q : SPort) (r : Req) (h : Req.isValuePushFor j r = false) :
    (portStep j q r).value = q.value := by
  cases r with
  | patchPort id body => simp only [portStep]; split <;> rfl
  | patchValue id b =>
    cases b with
    | none => rfl
    | some v =>
      have : ¬ j = id := by
        intro hj; subst hj; simp [Req.isValuePushFor] at h
      simp [portStep, this]
  | _ => rfl

/-- … and requests that are not an attribute push for port `j` leave its attributes alone. -/
theorem portStep_attrs_other (j : Nat) (q : SPort) (r : Req) (h : Req.isAttrPushFor j r = false) :
    (portStep j q r).attrs = q.attrs := by
  cases r with
  | patchPort id body =>
    have : ¬ j = id := by
      intro hj; subst hj; simp [Req.isAttrPushFor] at h
    simp [portStep, this]
  | patchValue id b =>
    cases b with
    | none => rfl
    | some v => simp only [portStep]; split <;> rfl
  | _ => rfl

theorem foldl_portStep_value_none (j : Nat) (l : List Req) (q : SPort)
    (h : l.filter (Req.isValuePushFor j) = []) : (l.foldl (portStep j) q).value = q.value := by
  induction l generalizing q with
  | nil => rfl
  | cons r t ih =>
    rw [List.filter_cons] at h
    by_cases hr : Req.isValuePushFor j r = true
    · simp [hr] at h
    · simp only [hr, Bool.false_eq_true, if_false] at h
      rw [List.foldl_cons, ih _ h, portStep_value_other j q r (by simpa using hr)]

theorem foldl_portStep_attrs_none (j : Nat) (l : List Req) (q : SPort)
    (h : l.filter (Req.isAttrPushFor j) = []) : (l.foldl (portStep j) q).attrs = q.attrs := by
  induction l generalizing q with
  | nil => rfl
  | cons r t ih =>
    rw [List.filter_cons] at h
    by_cases hr : Req.isAttrPushFor j r = true
    · simp [hr] at h
    · simp only [hr, Bool.false_eq_true, if_false] at h
      rw [List.foldl_cons, ih _ h, portStep_attrs_other j q r (by simpa using hr)]

/-- Exactly one value push (with a body) for port `j` among the requests: port `j` ends with that value. -/
theorem foldl_portStep_value_one (j : Nat) (v : Int) (l : List Req) (q : SPort)
    (h : l.filter (Req.isValuePushFor j) = [Req.patchValue j (some v)]) :
    (l.foldl (portStep j) q).value = some v := by
  induction l generalizing q with
  | nil => simp at h
  | cons r t ih =>
    rw [List.filter_cons] at h
    by_cases hr : Req.isValuePushFor j r = true
    · simp only [hr, if_true, List.cons.injEq] at h
      obtain ⟨rfl, ht⟩ := h
      rw [List.foldl_cons, foldl_portStep_value_none j t _ ht]
      simp [portStep]
    · simp only [hr, Bool.false_eq_true, if_false] at h
      rw [List.foldl_cons, ih _ h]

/-- Exactly one attribute push for port `j` among the requests: port `j` ends with its attributes updated by it. -/
theorem foldl_portStep_attrs_one (j : Nat) (body : Attrs) (l : List Req) (q : SPort)
    (h : l.filter (Req.isAttrPushFor j) = [Req.patchPort j body]) :
    (l.foldl (portStep j) q).attrs = q.attrs.update body := by
  induction l generalizing q with
  | nil => simp at h
  | cons r t ih =>
    rw [List.filter_cons] at h
    by_cases hr : Req.isAttrPushFor j r = true
    · simp only [hr, if_true, List.cons.injEq] at h
      obtain ⟨rfl, ht⟩ := h
      rw [List.foldl_cons, foldl_portStep_attrs_none j t _ ht]
      simp [portStep]
    · simp only [hr, Bool.false_eq_true, if_false] at h
      rw [List.foldl_cons, ih _ h, portStep_attrs_other j q r (by simpa using hr)]

/-- The value pushes for port `p` among the pushes of a reconnect. -/
theorem pushReqs_value_reqs (fix : Fix) (m : Master) (p : MPort) (hp : p ∈ m.ports)
    (hnd : (m.ports.map (·.id)).Nodup) :
    (pushReqs fix m).filter (Req.isValuePushFor p.id) =
      match p.pendValue with
      | some v => [Req.patchValue p.id (if fix.valueBody then some v else none)]
      | none => [] := by
  obtain ⟨h1, _, _, _, _⟩ := filter_nonport_value fix m p.id
  unfold pushReqs
  rw [List.filter_append, h1, List.nil_append, flatMap_filter_value fix _ p hp hnd, portPush_filter_value_self]
  rfl

theorem pushReqs_attr_reqs (fix : Fix) (m : Master) (p : MPort) (hp : p ∈ m.ports)
    (hnd : (m.ports.map (·.id)).Nodup) :
    (pushReqs fix m).filter (Req.isAttrPushFor p.id) =
      if p.pendAttrs.isEmpty then [] else [Req.patchPort p.id p.pendAttrs] := by
  obtain ⟨_, h2, _, _, _⟩ := filter_nonport_value fix m p.id
  unfold pushReqs
  rw [List.filter_append, h2, List.nil_append, flatMap_filter_attr fix _ p hp hnd, portPush_filter_attr_self]

theorem pushReqs_dev_reqs (fix : Fix) (m : Master) :
    (pushReqs fix m).filter Req.isDevPush = if m.pendDev.isEmpty then [] else [Req.patchDevice m.pendDev] := by
  unfold pushReqs
  simp only [List.filter_append, portPush_filter_dev, List.append_nil]
  split <;> split <;> split <;> simp [Req.isDevPush]

/-- (i) A pending value is the slave's value after the pushes (repaired code: the push carries the value). -/
theorem pushed_value_in_slave (fix : Fix) (hvb : fix.valueBody = true) (m : Master) (s : SlaveSt) (p : MPort)
    (hp : p ∈ m.ports) (hnd : (m.ports.map (·.id)).Nodup) (hs : (findS s.ports p.id).isSome) (v : Int)
    (hv : p.pendValue = some v) :
    (findS (applyReqs s (pushReqs fix m)).ports p.id).map (·.value) = some (some v) := by
  obtain ⟨q, hq⟩ := Option.isSome_iff_exists.mp hs
  have hf := pushReqs_value_reqs fix m p hp hnd
  rw [hv] at hf
  simp only [hvb, if_true] at hf
  rw [findS_applyReqs, hq]
  simp only [Option.map_some, foldl_portStep_value_one p.id v _ q hf]

theorem pendAttrs_unique {p : MPort} {n : Nat} {v w : Int} (hv : (n, v) ∈ p.pendAttrs) (hw : (n, w) ∈ p.pendAttrs) :
    w = v := by
  have h1 := (mem_pendAttrs.mp hv).2
  have h2 := (mem_pendAttrs.mp hw).2
  rw [h1] at h2
  exact (Option.some.inj h2).symm

/-- (ii) Every pending attribute is among the slave's attributes of that port after the pushes. -/
theorem pushed_attr_in_slave (fix : Fix) (m : Master) (s : SlaveSt) (p : MPort)
    (hp : p ∈ m.ports) (hnd : (m.ports.map (·.id)).Nodup) (hs : (findS s.ports p.id).isSome) (n : Nat) (v : Int)
    (hv : (n, v) ∈ p.pendAttrs) :
    (findS (applyReqs s (pushReqs fix m)).ports p.id).bind (fun q => q.attrs.get? n) = some v := by
  obtain ⟨q, hq⟩ := Option.isSome_iff_exists.mp hs
  have hf := pushReqs_attr_reqs fix m p hp hnd
  have hne : p.pendAttrs.isEmpty = false := by
    cases hpa : p.pendAttrs with
    | nil => rw [hpa] at hv; cases hv
    | cons _ _ => rfl
  simp only [hne, Bool.false_eq_true, if_false] at hf
  rw [findS_applyReqs, hq]
  simp only [Option.map_some, Option.bind_some, foldl_portStep_attrs_one p.id _ _ q hf]
  exact Attrs.get?_update_of_mem q.attrs p.pendAttrs n v hv (fun w hw => pendAttrs_unique hv hw)

theorem mem_pendDev {m : Master} {n : Nat} {v : Int} :
    (n, v) ∈ m.pendDev ↔ n ∈ m.devProv ∧ m.dev.get? n = some v := by
  unfold Master.pendDev
  simp only [List.mem_filterMap, Option.map_eq_some_iff, Prod.mk.injEq]
  constructor
  · rintro ⟨a, ha, w, hw, rfl, rfl⟩
    exact ⟨ha, hw⟩
  · rintro ⟨h1, h2⟩
    exact ⟨n, h1, v, h2, rfl, rfl⟩

theorem applyReq_dev_other (s : SlaveSt) (r : Req) (h : Req.isDevPush r = false) : (applyReq s r).dev = s.dev := by
  cases r with
  | patchDevice body => simp [Req.isDevPush] at h
  | patchValue id b => cases b <;> rfl
  | _ => rfl

theorem applyReqs_dev_none (l : List Req) (s : SlaveSt) (h : l.filter Req.isDevPush = []) :
    (applyReqs s l).dev = s.dev := by
  induction l generalizing s with
  | nil => rfl
  | cons r t ih =>
    rw [List.filter_cons] at h
    by_cases hr : Req.isDevPush r = true
    · simp [hr] at h
    · simp only [hr, Bool.false_eq_true, if_false] at h
      show (applyReqs (applyReq s r) t).dev = _
      rw [ih _ h, applyReq_dev_other s r (by simpa using hr)]

theorem applyReqs_dev_one (body : Attrs) (l : List Req) (s : SlaveSt)
    (h : l.filter Req.isDevPush = [Req.patchDevice body]) : (applyReqs s l).dev = s.dev.update body := by
  induction l generalizing s with
  | nil => simp at h
  | cons r t ih =>
    rw [List.filter_cons] at h
    by_cases hr : Req.isDevPush r = true
    · simp only [hr, if_true, List.cons.injEq] at h
      obtain ⟨rfl, ht⟩ := h
      show (applyReqs (applyReq s _) t).dev = _
      rw [applyReqs_dev_none t _ ht]
      rfl
    · simp only [hr, Bool.false_eq_true, if_false] at h
      show (applyReqs (applyReq s r) t).dev = _
      rw [ih _ h, applyReq_dev_other s r (by simpa using hr)]

/-- (iii) Every pending device attribute is among the slave's device attributes after the pushes. -/
theorem pushed_dev_in_slave (fix : Fix) (m : Master) (s : SlaveSt) (n : Nat) (v : Int) (hv : (n, v) ∈ m.pendDev) :
    (applyReqs s (pushReqs fix m)).dev.get? n = some v := by
  have hf := pushReqs_dev_reqs fix m
  have hne : m.pendDev.isEmpty = false := by
    cases hpa : m.pendDev with
    | nil => rw [hpa] at hv; cases hv
    | cons _ _ => rfl
  simp only [hne, Bool.false_eq_true, if_false] at hf
  rw [applyReqs_dev_one _ _ s hf]
  refine Attrs.get?_update_of_mem s.dev m.pendDev n v hv (fun w hw => ?_)
  have h1 := (mem_pendDev.mp hv).2
  have h2 := (mem_pendDev.mp hw).2
  rw [h1] at h2
  exact (Option.some.inj h2).symm

/-! ### C. Polling, including the device attributes -/

theorem stepEvent_flags (fix : Fix) (m : Master) (e : Ev) :
    (stepEvent fix m e).online = m.online ∧ (stepEvent fix m e).ready = m.ready := by
  cases e with
  | valueChange i v =>
    rw [stepEvent_valueChange]
    split
    · exact ⟨rfl, rfl⟩
    · split <;> exact ⟨rfl, rfl⟩
  | portUpdate msg => rw [stepEvent_portUpdate]; split <;> exact ⟨rfl, rfl⟩
  | portAdd msg => rw [stepEvent_portAdd]; split <;> exact ⟨rfl, rfl⟩
  | portRemove i => rw [stepEvent_portRemove]; split <;> exact ⟨rfl, rfl⟩
  | deviceUpdate a => rw [stepEvent_deviceUpdate]; split <;> exact ⟨rfl, rfl⟩

/-- What `pollPorts` leaves alone: the steady state, the device attributes and the online/ready flags. -/
def PollKeeps (d : Attrs) (o r : Bool) (a : Master) : Prop := NoPending a ∧ a.dev = d ∧ a.online = o ∧ a.ready = r

theorem pollKeeps_step (fix : Fix) (d : Attrs) (o r : Bool) (a : Master) (e : Ev) (hne : ∀ x, e ≠ .deviceUpdate x)
    (h : PollKeeps d o r a) : PollKeeps d o r (stepEvent fix a e) := by
  obtain ⟨h1, h2, h3, h4⟩ := h
  obtain ⟨f1, f2⟩ := stepEvent_flags fix a e
  refine ⟨noPending_stepEvent fix a e h1, ?_, f1.trans h3, f2.trans h4⟩
  rw [dev_stepEvent fix a e h1]
  cases e with
  | deviceUpdate x => exact absurd rfl (hne x)
  | _ => exact h2

theorem pollKeeps_ite (fix : Fix) (d : Attrs) (o r : Bool) (c : Prop) [Decidable c] (a : Master) (e : Ev)
    (hne : ∀ x, e ≠ .deviceUpdate x) (h : PollKeeps d o r a) :
    PollKeeps d o r (if c then stepEvent fix a e else a) := by
  split
  · exact pollKeeps_step fix d o r a e hne h
  · exact h

theorem pollKeeps_pollPorts (fix : Fix) (d : Attrs) (o r : Bool) (m : Master) (resp : List PortMsg)
    (h : PollKeeps d o r m) : PollKeeps d o r (pollPorts fix m resp) := by
  rw [pollPorts_eq]
  refine foldl_preserves (PollKeeps d o r) _ ?_ _ _
    (foldl_preserves (PollKeeps d o r) _ ?_ _ _ (foldl_preserves (PollKeeps d o r) _ ?_ _ _ h))
  · intro a lp ha
    unfold poll3
    split
    · exact ha
    · exact pollKeeps_ite fix d o r _ _ _ (fun x hx => by cases hx)
        (pollKeeps_ite fix d o r _ _ _ (fun x hx => by cases hx) ha)
  · intro a i ha
    unfold poll2
    split
    · exact ha
    · exact pollKeeps_step fix d o r a _ (fun x hx => by cases hx) ha
  · intro a msg ha
    unfold poll1
    split
    · exact ha
    · exact pollKeeps_step fix d o r a _ (fun x hx => by cases hx) ha

/-- The device part of `_poll_once` in the steady state: the cache is replaced when `attrsDiffer` sees a difference. -/
def pollDev (m : Master) (d : Attrs) : Master := if attrsDiffer m.dev d then { m with dev := d } else m

theorem pollDev_keeps (m : Master) (d : Attrs) (hn : NoPending m) :
    NoPending (pollDev m d) ∧ (pollDev m d).online = m.online ∧ (pollDev m d).ready = m.ready ∧
    (pollDev m d).ports = m.ports ∧ AttrsEquiv (pollDev m d).dev d := by
  unfold pollDev
  by_cases h : attrsDiffer m.dev d = true
  · rw [if_pos h]
    exact ⟨hn, rfl, rfl, rfl, attrsEquiv_refl d⟩
  · rw [if_neg h]
    exact ⟨hn, rfl, rfl, rfl, attrsEquiv_of_not_differ (by simpa using h)⟩

/-- `_poll_once` of an online, ready master in the steady state, spelled out. -/
theorem pollOnce_steady (fix : Fix) (rf : List Nat) (m : Master) (d : Attrs) (ps : List PortMsg)
    (hon : m.online = true) (hrd : m.ready = true) (hn : NoPending m) :
    (pollOnce fix rf m d (some ps)).2 = pollPorts fix (pollDev m d) ps := by
  have hany : (d.keys.any fun n => m.pendDev.has n) = false := by
    simp [pendDev_nil hn.2, Attrs.has]
  unfold pollOnce pollDev handleDeviceUpdate
  by_cases h : attrsDiffer m.dev d = true
  · simp only [h, hany, if_true, Bool.false_eq_true, if_false, hon, hrd, Bool.not_true]
  · simp only [h, Bool.false_eq_true, if_false, hon, hrd, if_true, Bool.not_true]

/-- **One poll settles the device attributes**: whatever the ports answer, after `_poll_once` the cached device
attributes equal the slave's as a dictionary. -/
theorem pollOnce_dev (fix : Fix) (rf : List Nat) (m : Master) (d : Attrs) (ps : List PortMsg)
    (hon : m.online = true) (hrd : m.ready = true) (hn : NoPending m) :
    AttrsEquiv (pollOnce fix rf m d (some ps)).2.dev d := by
  rw [pollOnce_steady fix rf m d ps hon hrd hn]
  obtain ⟨h1, h2, h3, _, h5⟩ := pollDev_keeps m d hn
  have := pollKeeps_pollPorts fix (pollDev m d).dev (pollDev m d).online (pollDev m d).ready (pollDev m d) ps
    ⟨h1, rfl, rfl, rfl⟩
  rw [this.2.1]; exact h5

theorem mview_ports_congr {a b : Master} (h : a.ports = b.ports) (j : Nat) : mview a j = mview b j := by
  simp only [mview, h]

/-- One `_poll_once` keeps the master online, ready and in the steady state. -/
theorem pollOnce_keeps (fix : Fix) (rf : List Nat) (m : Master) (d : Attrs) (ps : List PortMsg)
    (hon : m.online = true) (hrd : m.ready = true) (hn : NoPending m) :
    (pollOnce fix rf m d (some ps)).2.online = true ∧ (pollOnce fix rf m d (some ps)).2.ready = true ∧
    NoPending (pollOnce fix rf m d (some ps)).2 := by
  rw [pollOnce_steady fix rf m d ps hon hrd hn]
  obtain ⟨h1, h2, h3, _, _⟩ := pollDev_keeps m d hn
  have := pollKeeps_pollPorts fix (pollDev m d).dev (pollDev m d).online (pollDev m d).ready (pollDev m d) ps
    ⟨h1, rfl, rfl, rfl⟩
  exact ⟨this.2.2.1.trans (h2.trans hon), this.2.2.2.trans (h3.trans hrd), this.1⟩

/-- **Two polls of the same slave state converge**, ports and device attributes. -/
theorem pollOnce_twice (fix : Fix) (rf : List Nat) (m : Master) (s : SlaveSt)
    (hon : m.online = true) (hrd : m.ready = true) (hn : NoPending m) :
    PollSynced (pollOnce fix rf (pollOnce fix rf m s.dev (some (s.ports.map SPort.msg))).2 s.dev
      (some (s.ports.map SPort.msg))).2 s ∧
    AttrsEquiv (pollOnce fix rf (pollOnce fix rf m s.dev (some (s.ports.map SPort.msg))).2 s.dev
      (some (s.ports.map SPort.msg))).2.dev s.dev := by
  obtain ⟨ho1, hr1, hn1⟩ := pollOnce_keeps fix rf m s.dev (s.ports.map SPort.msg) hon hrd hn
  refine ⟨?_, pollOnce_dev fix rf _ s.dev _ ho1 hr1 hn1⟩
  rw [pollOnce_steady fix rf _ s.dev _ ho1 hr1 hn1]
  generalize hm' : (pollOnce fix rf m s.dev (some (s.ports.map SPort.msg))).2 = m' at hn1
  obtain ⟨k1, _, _, k4, _⟩ := pollDev_keeps m' s.dev hn1
  refine poll_synced_of_known fix _ s k1 ?_
  intro sp hsp
  rw [mview_ports_congr k4, ← hm', pollOnce_steady fix rf m s.dev _ hon hrd hn,
    poll_ids fix _ s (pollDev_keeps m s.dev hn).1 sp.id]
  simp only [sview, Option.isSome_map]
  rw [findS_isSome_iff]
  simpa using ⟨sp, hsp, rfl⟩

/-! ### B. The offline invariant "mirror ⊕ pending = slave" -/

/-- One master port against the slave port of the same id: every attribute that is NOT pending has the slave's
value (as a dictionary), and when no value is pending the newest remote value is the slave's value. -/
def PortOv (p : MPort) (q : SPort) : Prop :=
  (∀ n, n ∉ p.prov → p.attrs.get? n = q.attrs.get? n) ∧ (p.pendValue = none → p.lastRemote = q.value)

/-- Everything that is NOT pending follows the slave; what is pending is the user's (see C13 `Kept`). -/
def OverlaySynced (m : Master) (s : SlaveSt) : Prop :=
  (∀ id, (findPort m.ports id).isSome = (findS s.ports id).isSome) ∧
  (∀ id p q, findPort m.ports id = some p → findS s.ports id = some q →
     (∀ n, n ∉ p.prov → p.attrs.get? n = q.attrs.get? n) ∧ (p.pendValue = none → p.lastRemote = q.value))

/-- `OverlaySynced` at one id. -/
def OvAt (m : Master) (s : SlaveSt) (j : Nat) : Prop :=
  (findPort m.ports j).isSome = (findS s.ports j).isSome ∧
  ∀ p q, findPort m.ports j = some p → findS s.ports j = some q → PortOv p q

theorem overlay_iff (m : Master) (s : SlaveSt) : OverlaySynced m s ↔ ∀ j, OvAt m s j :=
  ⟨fun h j => ⟨h.1 j, fun p q hp hq => h.2 j p q hp hq⟩,
   fun h => ⟨fun j => (h j).1, fun j p q hp hq => (h j).2 p q hp hq⟩⟩

theorem ovAt_congr {m m' : Master} {s s' : SlaveSt} {j : Nat} (hm : findPort m'.ports j = findPort m.ports j)
    (hs : findS s'.ports j = findS s.ports j) (h : OvAt m s j) : OvAt m' s' j := by
  unfold OvAt at *
  rw [hm, hs]; exact h

theorem ovAt_map {m m' : Master} {s s' : SlaveSt} {j : Nat} (f : MPort → MPort) (g : SPort → SPort)
    (hm : findPort m'.ports j = (findPort m.ports j).map f) (hs : findS s'.ports j = (findS s.ports j).map g)
    (hfg : ∀ p q, findPort m.ports j = some p → findS s.ports j = some q → PortOv p q → PortOv (f p) (g q))
    (h : OvAt m s j) : OvAt m' s' j := by
  unfold OvAt at *
  rw [hm, hs]
  refine ⟨by simp [h.1], ?_⟩
  intro p' q' hp' hq'
  cases hp : findPort m.ports j with
  | none => rw [hp] at hp'; simp at hp'
  | some p =>
    cases hq : findS s.ports j with
    | none => rw [hq] at hq'; simp at hq'
    | some q =>
      rw [hp] at hp'; rw [hq] at hq'
      simp only [Option.map_some, Option.some.injEq] at hp' hq'
      subst hp' hq'
      exact hfg p q hp hq (h.2 p q hp hq)

/-! #### Attribute dictionaries -/

theorem Attrs.get?_update_not_key (a other : Attrs) (n : Nat) (h : ∀ kv ∈ other, kv.1 ≠ n) :
    (Attrs.update a other).get? n = a.get? n := by
  unfold Attrs.update
  induction other generalizing a with
  | nil => rfl
  | cons kv t ih =>
    simp only [List.foldl_cons]
    rw [ih _ (fun x hx => h x (List.mem_cons_of_mem _ hx)),
      Attrs.get?_set_other _ _ _ _ (fun hh => h kv (List.mem_cons_self ..) hh.symm)]

/-- The names of the pending attributes are among the pending names. -/
theorem pendAttrs_keys_prov {p : MPort} : ∀ kv ∈ p.pendAttrs, kv.1 ∈ p.prov := by
  intro kv hkv
  exact (mem_pendAttrs.mp (show (kv.1, kv.2) ∈ p.pendAttrs from hkv)).1

theorem mem_addName_iff (l : List Nat) (n x : Nat) : x ∈ addName l n ↔ x ∈ l ∨ x = n := by
  unfold addName
  split
  · rename_i h
    have hn : n ∈ l := by simpa using h
    constructor
    · exact Or.inl
    · rintro (h1 | h1)
      · exact h1
      · rw [h1]; exact hn
  · simp

/-! #### Port level: every handler keeps `PortOv` -/

theorem applyPortUpdate_cached (fix : Fix) (p : MPort) (msg : PortMsg) :
    (applyPortUpdate fix p msg).1.cached = p.cached := by
  simp only [applyPortUpdate]
  split <;> rfl

theorem applyPortUpdate_pendValue (fix : Fix) (p : MPort) (msg : PortMsg) :
    (applyPortUpdate fix p msg).1.pendValue = p.pendValue := by
  unfold MPort.pendValue
  rw [applyPortUpdate_provValue, applyPortUpdate_cached]

/-- What `_handle_value_change` does to the port it addresses. -/
def vcPort (v : PVal) (p : MPort) : MPort := if p.pendValue.isSome || p.lastRemote == v then p else p.push v

theorem portOv_valueChange (v : PVal) (p : MPort) (q : SPort) (h : PortOv p q) :
    PortOv (vcPort v p) { q with value := v } := by
  unfold vcPort
  by_cases hc : (p.pendValue.isSome || p.lastRemote == v) = true
  · rw [if_pos hc]
    refine ⟨h.1, fun hpv => ?_⟩
    simpa [hpv] using hc
  · rw [if_neg hc]
    exact ⟨h.1, fun _ => lastRemote_push p v⟩

/-- A port-update (attributes `a`, value `v`). Repaired code: pending attributes are laid over the reported ones,
the reported value is queued unless a value is pending. Code as found: the reported attributes replace the cache and
the value is always queued. Either way what is not pending follows the slave, whatever the port held before (what
the code as found loses is the *pending* half: C13). -/
theorem portOv_portUpdate (fix : Fix) (p : MPort) (i : Nat) (a : Attrs) (v : PVal) (q : SPort) :
    PortOv (applyPortUpdate fix p ⟨i, a, some v⟩).1 { q with attrs := a, value := v } := by
  cases hk : fix.keepPending with
  | true =>
    constructor
    · intro n hn
      rw [applyPortUpdate_prov] at hn
      have : (applyPortUpdate fix p ⟨i, a, some v⟩).1.attrs = a.update p.pendAttrs := by
        simp only [applyPortUpdate, hk, if_true]
        split <;> rfl
      rw [this]
      exact Attrs.get?_update_not_key a p.pendAttrs n (fun kv hkv hh => hn (hh ▸ pendAttrs_keys_prov kv hkv))
    · intro hpv
      rw [applyPortUpdate_pendValue] at hpv
      simp only [applyPortUpdate, hk, hpv, Option.isSome_none, Bool.and_false, Bool.false_eq_true, if_false]
      exact lastRemote_push _ v
  | false =>
    constructor
    · intro n _
      simp only [applyPortUpdate, hk, Bool.false_and, Bool.false_eq_true, if_false]
      rfl
    · intro _
      simp only [applyPortUpdate, hk, Bool.false_and, Bool.false_eq_true, if_false]
      exact lastRemote_push _ v

theorem portOv_mkPort (sp : SPort) : PortOv (mkPort sp.msg) sp :=
  ⟨fun _ _ => rfl, fun _ => by rw [mkPort_lastRemote]; rfl⟩

theorem portOv_attrEdit (n : Nat) (v : Int) (p : MPort) (q : SPort) (h : PortOv p q) : PortOv (attrEdit n v p) q := by
  refine ⟨?_, h.2⟩
  intro k hk
  have hk' : ¬ (k ∈ p.prov ∨ k = n) := fun hh => hk ((mem_addName_iff p.prov n k).mpr hh)
  show (Attrs.set p.attrs n v).get? k = _
  rw [Attrs.get?_set_other _ _ _ _ (fun hh => hk' (Or.inr hh))]
  exact h.1 k (fun hh => hk' (Or.inl hh))

theorem portOv_valueEdit (v : Int) (p : MPort) (q : SPort) (h : PortOv p q) : PortOv (valueEdit v p) q := by
  refine ⟨h.1, ?_⟩
  intro hpv
  simp [MPort.pendValue, valueEdit] at hpv

/-! #### Master level -/

theorem findPort_vc (m : Master) (i : Nat) (v : PVal) (p : MPort) (hp : findPort m.ports i = some p) (j : Nat) :
    findPort (if (p.pendValue.isSome || p.lastRemote == v) = true then m
      else { m with ports := updPort m.ports i (fun q => q.push v) }).ports j =
      if j = i then (findPort m.ports j).map (vcPort v) else findPort m.ports j := by
  by_cases hc : (p.pendValue.isSome || p.lastRemote == v) = true
  · rw [if_pos hc]
    by_cases hj : j = i
    · subst hj; rw [if_pos rfl, hp]; simp [vcPort, hc]
    · rw [if_neg hj]
  · rw [if_neg hc]
    simp only []
    rw [findPort_updPort _ _ _ (fun q => q.push v) (fun _ => rfl)]
    by_cases hj : j = i
    · subst hj; rw [if_pos rfl, if_pos rfl, hp]; simp [vcPort, hc]
    · rw [if_neg hj, if_neg hj]

theorem stepEvent_deviceUpdate_ports (fix : Fix) (m : Master) (a : Attrs) :
    (stepEvent fix m (.deviceUpdate a)).ports = m.ports := by
  rw [stepEvent_deviceUpdate]; split <;> rfl

/-- **Every event kind keeps the overlay invariant** (code as found and repaired): when the slave makes change `c`
emitting `e`, handling `e` keeps "what is not pending is the slave's". No steady state needed. -/
theorem overlay_stepEvent (fix : Fix) {m : Master} {s s' : SlaveSt} {c : Change}
    {e : Ev} (ho : OverlaySynced m s) (hc : applyChange s c = (s', some e)) : OverlaySynced (stepEvent fix m e) s' := by
  rw [overlay_iff] at ho ⊢
  intro j
  cases c with
  | setValue i v =>
    simp only [applyChange] at hc
    split at hc
    · simp at hc
    · rename_i sp hf
      split at hc
      · simp at hc
      · simp only [Prod.mk.injEq, Option.some.injEq] at hc
        obtain ⟨rfl, rfl⟩ := hc
        have hsome : (findPort m.ports i).isSome = true := by rw [(ho i).1, hf]; rfl
        obtain ⟨p, hp⟩ := Option.isSome_iff_exists.mp hsome
        rw [stepEvent_valueChange, hp]
        simp only []
        have hS := findS_map s.ports i j (fun q => { q with value := v }) (fun _ => rfl)
        have hM := findPort_vc m i v p hp j
        by_cases hj : j = i
        · rw [if_pos hj] at hS hM
          exact ovAt_map (vcPort v) _ hM hS (fun p q _ _ h => portOv_valueChange v p q h) (ho j)
        · rw [if_neg hj] at hS hM
          exact ovAt_congr hM hS (ho j)
  | setAttrs i a v =>
    simp only [applyChange] at hc
    split at hc
    · simp at hc
    · rename_i sp hf
      simp only [Prod.mk.injEq, Option.some.injEq] at hc
      obtain ⟨rfl, rfl⟩ := hc
      have hsome : (findPort m.ports i).isSome = true := by rw [(ho i).1, hf]; rfl
      obtain ⟨p, hp⟩ := Option.isSome_iff_exists.mp hsome
      have hp' : findPort m.ports (PortMsg.mk i a (some v)).id = some p := hp
      rw [stepEvent_portUpdate, hp']
      simp only []
      have hS := findS_map s.ports i j (fun q => { q with attrs := a, value := v }) (fun _ => rfl)
      have hM := findPort_updPort m.ports i j (fun q => (applyPortUpdate fix q ⟨i, a, some v⟩).1) (fun _ => by simp)
      by_cases hj : j = i
      · rw [if_pos hj] at hS hM
        exact ovAt_map _ _ hM hS (fun p q _ _ _ => portOv_portUpdate fix p i a v q) (ho j)
      · rw [if_neg hj] at hS hM
        exact ovAt_congr hM hS (ho j)
  | addPort sp =>
    simp only [applyChange] at hc
    split at hc
    · simp at hc
    · rename_i hf
      simp only [Prod.mk.injEq, Option.some.injEq] at hc
      obtain ⟨rfl, rfl⟩ := hc
      have hnone : findPort m.ports sp.id = none := by
        have := (ho sp.id).1
        rw [hf] at this
        simpa using this
      have hnone' : findPort m.ports sp.msg.id = none := hnone
      rw [stepEvent_portAdd, hnone']
      simp only []
      have hS := findS_append s.ports sp j
      have hM := findPort_append m.ports (mkPort sp.msg) j
      by_cases hj : j = sp.id
      · subst hj
        have h1 : (mkPort sp.msg).id = sp.id := rfl
        rw [hf] at hS
        rw [hnone, h1] at hM
        simp only [if_true, Option.none_or] at hS hM
        unfold OvAt
        rw [hS, hM]
        refine ⟨rfl, ?_⟩
        intro p q hp hq
        cases hp; cases hq
        exact portOv_mkPort sp
      · have h1 : ¬ (mkPort sp.msg).id = j := fun h => hj h.symm
        have h2 : ¬ sp.id = j := fun h => hj h.symm
        rw [if_neg h2] at hS
        rw [if_neg h1] at hM
        simp only [Option.or_none] at hS hM
        exact ovAt_congr hM hS (ho j)
  | removePort i =>
    simp only [applyChange] at hc
    split at hc
    · simp at hc
    · rename_i sp hf
      simp only [Prod.mk.injEq, Option.some.injEq] at hc
      obtain ⟨rfl, rfl⟩ := hc
      have hsome : (findPort m.ports i).isSome = true := by rw [(ho i).1, hf]; rfl
      obtain ⟨p, hp⟩ := Option.isSome_iff_exists.mp hsome
      rw [stepEvent_portRemove, hp]
      simp only []
      have hS := findS_erase s.ports i j
      have hM := findPort_erasePort m.ports i j
      by_cases hj : j = i
      · rw [if_pos hj] at hS hM
        unfold OvAt
        rw [hS, hM]
        exact ⟨rfl, fun p q hp => by cases hp⟩
      · rw [if_neg hj] at hS hM
        exact ovAt_congr hM hS (ho j)
  | setDev a =>
    simp only [applyChange, Prod.mk.injEq, Option.some.injEq] at hc
    obtain ⟨rfl, rfl⟩ := hc
    exact ovAt_congr (by rw [stepEvent_deviceUpdate_ports]) rfl (ho j)

/-- Offline attribute edit: only enlarges the pending set. (Online: forwarded, the mirror does not change.) -/
theorem overlay_editAttr (m : Master) (s : SlaveSt) (id n : Nat) (v : Int) (ho : OverlaySynced m s) :
    OverlaySynced (editAttr m id n v).1 s := by
  by_cases hon : m.online = true
  · simp only [editAttr, hon, if_true]; exact ho
  · rw [editAttr_offline m (by simpa using hon)]
    rw [overlay_iff] at ho ⊢
    intro j
    have hM := findPort_updPort m.ports id j (attrEdit n v) (fun _ => rfl)
    by_cases hj : j = id
    · rw [if_pos hj] at hM
      exact ovAt_map (attrEdit n v) (fun q => q) hM (by simp) (fun p q _ _ h => portOv_attrEdit n v p q h) (ho j)
    · rw [if_neg hj] at hM
      exact ovAt_congr hM rfl (ho j)

/-- Offline value edit: the value becomes pending (and is from then on the user's). -/
theorem overlay_editValue (m : Master) (s : SlaveSt) (hoff : m.online = false) (id : Nat) (v : Int) (ok : Bool)
    (ho : OverlaySynced m s) : OverlaySynced (editValue m id v ok).1 s := by
  rw [editValue_offline m hoff]
  rw [overlay_iff] at ho ⊢
  intro j
  have hM := findPort_updPort m.ports id j (valueEdit v) (fun _ => rfl)
  by_cases hj : j = id
  · rw [if_pos hj] at hM
    exact ovAt_map (valueEdit v) (fun q => q) hM (by simp) (fun p q _ _ h => portOv_valueEdit v p q h) (ho j)
  · rw [if_neg hj] at hM
    exact ovAt_congr hM rfl (ho j)

/-- Offline device edit: ports are not concerned. -/
theorem overlay_editDev (m : Master) (s : SlaveSt) (n : Nat) (v : Int) (ho : OverlaySynced m s) :
    OverlaySynced (editDev m n v).1 s := by
  unfold editDev
  split <;> exact ho

theorem overlay_goOffline (m : Master) (s : SlaveSt) (ho : OverlaySynced m s) : OverlaySynced (goOffline m) s := ho

/-! #### Along histories -/

/-- Overlay form of the replication invariant: replaying the session's pending events on the mirror gives a mirror
that follows the slave in everything that is not pending. -/
def OverlayInv (fix : Fix) (m : Master) (s : SlaveSt) : Prop := OverlaySynced (handleEvents fix m s.queue) s

theorem overlayInv_remoteStep (fix : Fix) {m : Master} {s : SlaveSt} (c : Change)
    (hi : OverlayInv fix m s) : OverlayInv fix m (remoteStep s c) := by
  unfold remoteStep
  have hq := applyChange_queue s c
  cases hc : applyChange s c with
  | mk s' oe =>
    rw [hc] at hq
    cases oe with
    | none =>
      have := applyChange_none hc
      subst this
      exact hi
    | some e =>
      simp only [OverlayInv] at hi ⊢
      simp only at hq
      rw [hq, handleEvents_append]
      have := overlay_stepEvent fix hi hc
      exact this

theorem overlayInv_listenBatch (fix : Fix) {m : Master} {s : SlaveSt} {q1 q2 : List Ev} (hq : s.queue = q1 ++ q2)
    (hi : OverlayInv fix m s) : OverlayInv fix (handleEvents fix m q1) { s with queue := q2 } := by
  simp only [OverlayInv] at hi ⊢
  rw [hq, handleEvents_append] at hi
  exact hi

theorem overlayInv_runStep (fix : Fix) (ms : Master × SlaveSt) (st : Step)
    (hi : OverlayInv fix ms.1 ms.2) : OverlayInv fix (runStep fix ms st).1 (runStep fix ms st).2 := by
  cases st with
  | remote c => exact overlayInv_remoteStep fix c hi
  | listen k => exact overlayInv_listenBatch fix (List.take_append_drop k ms.2.queue).symm hi

theorem overlayInv_run (fix : Fix) (steps : List Step) (ms : Master × SlaveSt)
    (hi : OverlayInv fix ms.1 ms.2) : OverlayInv fix (run fix ms steps).1 (run fix ms steps).2 := by
  induction steps generalizing ms with
  | nil => exact hi
  | cons st rest ih => exact ih _ (overlayInv_runStep fix ms st hi)

/-- A remote change delivered at once. -/
def deliverStep (fix : Fix) (ms : Master × SlaveSt) (c : Change) : Master × SlaveSt :=
  match applyChange ms.2 c with
  | (s', some e) => (stepEvent fix ms.1 e, s')
  | (s', none) => (ms.1, s')

theorem overlay_deliverStep (fix : Fix) (ms : Master × SlaveSt) (c : Change)
    (ho : OverlaySynced ms.1 ms.2) : OverlaySynced (deliverStep fix ms c).1 (deliverStep fix ms c).2 := by
  unfold deliverStep
  cases hc : applyChange ms.2 c with
  | mk s' oe =>
    cases oe with
    | none =>
      have := applyChange_none hc
      subst this
      exact ho
    | some e => exact overlay_stepEvent fix ho hc

theorem overlay_deliverAll (fix : Fix) (cs : List Change) (ms : Master × SlaveSt)
    (ho : OverlaySynced ms.1 ms.2) :
    OverlaySynced (cs.foldl (deliverStep fix) ms).1 (cs.foldl (deliverStep fix) ms).2 := by
  induction cs generalizing ms with
  | nil => exact ho
  | cons c rest ih => exact ih _ (overlay_deliverStep fix ms c ho)

/-! #### Relation to `Synced` -/

theorem overlay_of_synced {m : Master} {s : SlaveSt} (h : Synced m s) : OverlaySynced m s := by
  refine ⟨fun id => (synced_unfold h id).1, ?_⟩
  intro id p q hp hq
  obtain ⟨_, _, h3, h4⟩ := (synced_unfold h id).2 p q hp hq
  exact ⟨fun n _ => by rw [h3], fun _ => h4⟩

/-- With nothing pending the overlay invariant is agreement on ports, values and (as dictionaries) attributes. -/
theorem pollSynced_of_overlay {m : Master} {s : SlaveSt} (hn : NoPending m) (ho : OverlaySynced m s) :
    PollSynced m s := by
  intro id
  have h1 := ho.1 id
  simp only [mview, sview]
  cases hp : findPort m.ports id with
  | none =>
    cases hq : findS s.ports id with
    | none => trivial
    | some q => rw [hp, hq] at h1; cases h1
  | some p =>
    cases hq : findS s.ports id with
    | none => rw [hp, hq] at h1; cases h1
    | some q =>
      obtain ⟨k1, k2⟩ := hn.1 p (findPort_mem hp)
      obtain ⟨o1, o2⟩ := ho.2 id p q hp hq
      exact ⟨o2 (pendValue_none k2), fun n => o1 n (by rw [k1]; simp)⟩

/-! ### A, assembled: after the reconnect the mirror is the slave, and shows every pushed edit -/

theorem mview_value_of_synced {m : Master} {s : SlaveSt} (h : Synced m s) (j : Nat) :
    (mview m j).map (·.value) = (findS s.ports j).map (·.value) := by
  rw [h.1 j, sview, Option.map_map]; rfl

theorem mview_attr_of_synced {m : Master} {s : SlaveSt} (h : Synced m s) (j n : Nat) :
    (mview m j).bind (fun pv => pv.attrs.get? n) = (findS s.ports j).bind (fun q => q.attrs.get? n) := by
  rw [h.1 j, sview]
  cases findS s.ports j <;> rfl

/-- **Reconnect with pending edits, end to end.** The slave receives the pushes (`applyReqs`), the refresh is
answered from the resulting state `s'`: the mirror equals `s'`, nothing is pending any more, and the mirror shows
every edit the user made while the slave was offline (value: repaired push with a body). -/
theorem reconnect_carries_edits (fix : Fix) (rf : List Nat) (m : Master) (s : SlaveSt) (hmode : m.mode = .listen)
    (hdev : ∀ n ∈ m.devProv, (m.dev.get? n).isSome) (hnds : (s.ports.map (·.id)).Nodup)
    (hndm : (m.ports.map (·.id)).Nodup) :
    Synced (handleOnline fix rf m (some (applyReqs s (pushReqs fix m)).dev)
      (some ((applyReqs s (pushReqs fix m)).ports.map SPort.msg))).2 (applyReqs s (pushReqs fix m)) ∧
    NoPending (handleOnline fix rf m (some (applyReqs s (pushReqs fix m)).dev)
      (some ((applyReqs s (pushReqs fix m)).ports.map SPort.msg))).2 ∧
    (∀ p ∈ m.ports, (findS s.ports p.id).isSome →
      (fix.valueBody = true → ∀ v, p.pendValue = some v →
        (mview (handleOnline fix rf m (some (applyReqs s (pushReqs fix m)).dev)
          (some ((applyReqs s (pushReqs fix m)).ports.map SPort.msg))).2 p.id).map (·.value) = some (some v)) ∧
      (∀ n v, (n, v) ∈ p.pendAttrs →
        (mview (handleOnline fix rf m (some (applyReqs s (pushReqs fix m)).dev)
          (some ((applyReqs s (pushReqs fix m)).ports.map SPort.msg))).2 p.id).bind
            (fun pv => pv.attrs.get? n) = some v)) ∧
    (∀ n v, (n, v) ∈ m.pendDev →
      (handleOnline fix rf m (some (applyReqs s (pushReqs fix m)).dev)
        (some ((applyReqs s (pushReqs fix m)).ports.map SPort.msg))).2.dev.get? n = some v) := by
  obtain ⟨h1, h2⟩ := reconnect_synced fix rf m (applyReqs s (pushReqs fix m)) hmode hdev
    (applyReqs_nodup _ s hnds)
  refine ⟨h1, h2, ?_, ?_⟩
  · intro p hp hs
    refine ⟨fun hvb v hv => ?_, fun n v hv => ?_⟩
    · rw [mview_value_of_synced h1]; exact pushed_value_in_slave fix hvb m s p hp hndm hs v hv
    · rw [mview_attr_of_synced h1]; exact pushed_attr_in_slave fix m s p hp hndm hs n v hv
  · intro n v hv
    rw [h1.2]; exact pushed_dev_in_slave fix m s n v hv

/-! ### Concrete instances used by the non-vacuity examples of the general statements -/

namespace Ex
/-- `m0` offline, with an attribute edit (5 ↦ 21) and a value edit (9) pending on port 1 and a device-attribute
edit (9 ↦ 2) pending. -/
def mOff : Master :=
  { m0 with
    ports := [⟨1, [(0, 1), (5, 21)], [], some 9, [5], true, some 5, true⟩,
              ⟨2, [(0, 0)], [], none, [], false, none, false⟩],
    dev := [(9, 2)], devProv := [9], online := false, ready := false }
/-- The slave after it received the pushes of `mOff`. -/
def sPushed : SlaveSt := applyReqs s0 (pushReqs Fix.repaired mOff)
/-- `m0` as a polling master. -/
def mPoll : Master := { m0 with mode := .poll }
/-- A slave that differs from `m0`'s mirror in a value, an attribute, a new port and the device attributes. -/
def sPoll : SlaveSt := ⟨[⟨1, [(0, 1), (5, 22)], some 3⟩, ⟨3, [(0, 1)], some 4⟩], [(9, 5), (8, 1)], []⟩
end Ex

end QtVerif.Slave
