import QtVerif.Model.TimeFns
import QtVerif.Props.C02
/-!
Integration C16 × C02 — the stateful evaluator of `Model/TimeFns.lean` (C16) and the stateless evaluator of
`Model/Eval.lean` (C02) on the nodes they share.

`TimeFns.evalNode` evaluates, besides the history-dependent functions, unavailable literals, port values and the
stateless functions ADD / SUB / GT / LT / NOT (so that C16's expressions can combine stateful nodes). `SExpr` is that
shared fragment; `toNode` embeds it into C16's trees (fresh memory, no pause), `toExpr` into C02's syntax. Over the
integers (C16's exact carrier `Int`; C02's values `Val.i`, any float carrier) the two evaluators agree, and the
stateful evaluator leaves the node as it was (no memory, no pause deadline).

The context correspondence: C16's context is a list of optional port values (every port exists and is enabled; `none`
or an index beyond the list = unavailable); `ctxOfEnv` is the C02 context in which every NAMED port is registered and
enabled and carries that value.
-/
namespace QtVerif.Integration
open QtVerif.Syntax QtVerif.Num QtVerif.Eval

/-- The stateless nodes that C16's and C02's models both evaluate. -/
inductive SExpr where
  | unavailable
  | port (i : Nat)
  | add (a b : SExpr)
  | sub (a b : SExpr)
  | gt (a b : SExpr)
  | lt (a b : SExpr)
  | not (a : SExpr)

/-- as a tree of C16's model: function objects with fresh memory and no pause deadline -/
def SExpr.toNode : SExpr → TimeFns.Node Int
  | .unavailable => .lit none
  | .port i => .port i
  | .add a b => .fn .add {} 0 [a.toNode, b.toNode]
  | .sub a b => .fn .sub {} 0 [a.toNode, b.toNode]
  | .gt a b => .fn .gt {} 0 [a.toNode, b.toNode]
  | .lt a b => .fn .lt {} 0 [a.toNode, b.toNode]
  | .not a => .fn .not {} 0 [a.toNode]

/-- as a tree of the shared syntax (`name i` = id of port `i`) -/
def SExpr.toExpr (name : Nat → String) : SExpr → Expr
  | .unavailable => .lit "unavailable"
  | .port i => .portVal (name i)
  | .add a b => .call "ADD" [a.toExpr name, b.toExpr name]
  | .sub a b => .call "SUB" [a.toExpr name, b.toExpr name]
  | .gt a b => .call "GT" [a.toExpr name, b.toExpr name]
  | .lt a b => .call "LT" [a.toExpr name, b.toExpr name]
  | .not a => .call "NOT" [a.toExpr name]

variable {α : Type}

/-- C16's context as a C02 context: every named port is registered and enabled; its snapshot value is the list entry. -/
def ctxOfEnv (ix : String → Option Nat) (env : TimeFns.Env Int) (now : Int) (selfId : String) (role : Nat)
    (transformRoles : List Nat) : Ctx α :=
  { reg := fun id => (ix id).map fun _ => ⟨true, none⟩,
    vals := fun id => (ix id).bind fun i => (env[i]?).join.map Val.i,
    nowMs := now, selfId := selfId, role := role, transformRoles := transformRoles,
    lit := fun t => if t = "unavailable" then .unavailable else .invalid }

/-- C16's outcomes on the shared fragment as C02 outcomes. -/
def resOfTime : TimeFns.Res Int → Eval.Res α
  | .ok n => .val (.i n)
  | .error .unavailable => .unavailable
  | .error _ => .outside

/-- on the shared fragment C16's evaluator yields a value or "unavailable" only -/
def SharedOutcome : TimeFns.Res Int → Prop
  | .ok _ => True
  | .error .unavailable => True
  | .error _ => False

variable [PyFloat α]

theorem add2_ints (a b : Int) (now : Int) : applyFn true now "ADD" [.i a, .i b] = (.val (.i (a + b)) : Eval.Res α) := by
  have := (C02.add_mul_ints_spec (α := α) [.i a, .i b] now (by simp) (by intro v hv; simp at hv; rcases hv with h | h <;> subst h <;> rfl)).1
  rw [this]
  simp [intOf, Val.int?]

theorem sub2_ints (a b : Int) (now : Int) : applyFn true now "SUB" [.i a, .i b] = (.val (.i (a - b)) : Eval.Res α) := by
  show fnSub [Val.i a, Val.i b] = _
  simp [fnSub, vsub, arith, Val.int?, Eval.ofExcept]

/-- the C02 context value of a named port is C16's context entry -/
theorem portVal_ctxOfEnv (name : Nat → String) (ix : String → Option Nat) (hix : ∀ i, ix (name i) = some i)
    (env : TimeFns.Env Int) (now : Int) (selfId : String) (role : Nat) (tr : List Nat) (i : Nat) :
    eval (.portVal (name i)) (ctxOfEnv (α := α) ix env now selfId role tr) = resOfTime (TimeFns.envGet env i) := by
  simp only [eval, portValue, ctxOfEnv, hix, Option.map_some, Option.bind_some, TimeFns.envGet]
  cases h : env[i]? with
  | none => simp [resOfTime]
  | some o => cases o <;> simp [resOfTime]

/-- a binary strict function of C02 on two outcomes that come from C16 outcomes of the shared fragment -/
theorem strict2_agree (n : String) (f : Int → Int → Int) (hk : fnKind n = .strict)
    (hf : ∀ a b now, applyFn true now n [.i a, .i b] = (.val (.i (f a b)) : Eval.Res α))
    (ea eb : Expr) (c : Ctx α) (ra rb : TimeFns.Res Int) (hra : SharedOutcome ra) (hrb : SharedOutcome rb)
    (ha : eval ea c = resOfTime ra) (hb : eval eb c = resOfTime rb) (hr : [ea, eb].any isRef = false) :
    eval (.call n [ea, eb]) c = resOfTime
      (match TimeFns.collect [ra, rb] with
       | .error e => .error e
       | .ok vs => (match vs with | [a, b] => .ok (f a b) | _ => .error .exc)) := by
  rw [eval_strict n _ c hk hr]
  simp only [evalArgs, ha, hb]
  cases ra with
  | error fa =>
    cases fa <;> simp_all [SharedOutcome, resOfTime, applyStrict, firstFail, TimeFns.collect]
  | ok a =>
    cases rb with
    | error fb =>
      cases fb <;> simp_all [SharedOutcome, resOfTime, applyStrict, firstFail, TimeFns.collect, Except.map]
    | ok b =>
      simp [resOfTime, applyStrict, firstFail, valsOf, TimeFns.collect, Except.map, hf]

/-! ### C16's evaluator on the shared function nodes -/

omit [PyFloat α] in
theorem evalNode_bin (P : TimeFns.Params) (env : TimeFns.Env Int) (now : Int) (k : TimeFns.Fn)
    (hk : k = .add ∨ k = .sub ∨ k = .gt ∨ k = .lt) (x y : TimeFns.Node Int) (m : TimeFns.Mem Int) (p : Int) :
    TimeFns.evalNode P env now (.fn k m p [x, y]) =
      TimeFns.evalStrict P k m now [(TimeFns.evalNode P env now x).1, (TimeFns.evalNode P env now y).1]
        [(TimeFns.evalNode P env now x).2, (TimeFns.evalNode P env now y).2] := by
  rcases hk with h | h | h | h <;> subst h <;> simp [TimeFns.evalNode, TimeFns.evalArgs, TimeFns.preStep]

omit [PyFloat α] in
theorem evalNode_not (P : TimeFns.Params) (env : TimeFns.Env Int) (now : Int) (x : TimeFns.Node Int)
    (m : TimeFns.Mem Int) (p : Int) :
    TimeFns.evalNode P env now (.fn .not m p [x]) =
      TimeFns.evalStrict P .not m now [(TimeFns.evalNode P env now x).1] [(TimeFns.evalNode P env now x).2] := by
  simp [TimeFns.evalNode, TimeFns.evalArgs, TimeFns.preStep]

/-- the integer function a shared binary node computes -/
def binFn : TimeFns.Fn → Int → Int → Int
  | .add => fun a b => a + b
  | .sub => fun a b => a - b
  | .gt => fun a b => if b < a then 1 else 0
  | .lt => fun a b => if a < b then 1 else 0
  | _ => fun _ _ => 0

omit [PyFloat α] in
theorem evalStrict_bin (P : TimeFns.Params) (now : Int) (k : TimeFns.Fn)
    (hk : k = .add ∨ k = .sub ∨ k = .gt ∨ k = .lt) (m : TimeFns.Mem Int) (args' : List (TimeFns.Node Int))
    (ra rb : TimeFns.Res Int) :
    TimeFns.evalStrict P k m now args' [ra, rb] =
      (.fn k m 0 args',
       match TimeFns.collect [ra, rb] with
       | .error e => .error e
       | .ok vs => (match vs with | [a, b] => .ok (binFn k a b) | _ => .error .exc)) := by
  rcases hk with h | h | h | h <;> subst h <;> cases ra <;> cases rb <;>
    simp [TimeFns.evalStrict, TimeFns.collect, Except.map, TimeFns.stepStrict, TimeFns.noPause, TimeFns.Num.ofInt,
      TimeFns.Num.add, TimeFns.Num.sub, TimeFns.Num.lt, TimeFns.b2n, binFn]

omit [PyFloat α] in
theorem evalStrict_not (P : TimeFns.Params) (now : Int) (m : TimeFns.Mem Int) (args' : List (TimeFns.Node Int))
    (ra : TimeFns.Res Int) :
    TimeFns.evalStrict P .not m now args' [ra] =
      (.fn .not m 0 args', match ra with | .error e => .error e | .ok a => .ok (if a = 0 then 1 else 0)) := by
  cases ra <;>
    simp [TimeFns.evalStrict, TimeFns.collect, Except.map, TimeFns.stepStrict, TimeFns.noPause, TimeFns.Num.ofInt,
      TimeFns.Num.eq, TimeFns.b2n]

omit [PyFloat α] in
theorem sharedOutcome_bin (k : TimeFns.Fn) (ra rb : TimeFns.Res Int) (ha : SharedOutcome ra) (hb : SharedOutcome rb) :
    SharedOutcome (match TimeFns.collect [ra, rb] with
       | .error e => .error e
       | .ok vs => (match vs with | [a, b] => .ok (binFn k a b) | _ => .error .exc)) := by
  cases ra with
  | error fa => cases fa <;> simp_all [SharedOutcome, TimeFns.collect]
  | ok a =>
    cases rb with
    | error fb => cases fb <;> simp_all [SharedOutcome, TimeFns.collect, Except.map]
    | ok b => simp [SharedOutcome, TimeFns.collect, Except.map]

theorem binFn_spec (k : TimeFns.Fn) (n : String)
    (hk : (k = .add ∧ n = "ADD") ∨ (k = .sub ∧ n = "SUB") ∨ (k = .gt ∧ n = "GT") ∨ (k = .lt ∧ n = "LT"))
    (a b now : Int) : applyFn true now n [.i a, .i b] = (.val (.i (binFn k a b)) : Eval.Res α) := by
  rcases hk with ⟨h1, h2⟩ | ⟨h1, h2⟩ | ⟨h1, h2⟩ | ⟨h1, h2⟩ <;> subst h1 <;> subst h2
  · exact add2_ints a b now
  · exact sub2_ints a b now
  · exact (C02.cmp_logic_sign_ints_spec a b now).2.2.2.1
  · exact (C02.cmp_logic_sign_ints_spec a b now).2.1

/-- **C16's stateful evaluator and C02's evaluator agree on the stateless nodes they share** (integers): for every
tree of the shared fragment, every context and clock, `TimeFns.evalNode` leaves the node as it was (no memory is
written, the pause deadline stays 0), yields a value or "unavailable" only, and that outcome is exactly the outcome of
`Eval.eval` on the same tree under the corresponding context — for every float carrier, role and self id. -/
theorem shared_nodes_agree (P : TimeFns.Params) (name : Nat → String) (ix : String → Option Nat)
    (hix : ∀ i, ix (name i) = some i) (env : TimeFns.Env Int) (now : Int) (selfId : String) (role : Nat)
    (tr : List Nat) (s : SExpr) :
    (TimeFns.evalNode P env now s.toNode).1 = s.toNode ∧
    SharedOutcome (TimeFns.evalNode P env now s.toNode).2 ∧
    eval (s.toExpr name) (ctxOfEnv (α := α) ix env now selfId role tr)
      = resOfTime (TimeFns.evalNode P env now s.toNode).2 := by
  have bin : ∀ (k : TimeFns.Fn) (n : String),
      ((k = .add ∧ n = "ADD") ∨ (k = .sub ∧ n = "SUB") ∨ (k = .gt ∧ n = "GT") ∨ (k = .lt ∧ n = "LT")) →
      ∀ a b : SExpr,
      ((TimeFns.evalNode P env now a.toNode).1 = a.toNode ∧
        SharedOutcome (TimeFns.evalNode P env now a.toNode).2 ∧
        eval (a.toExpr name) (ctxOfEnv (α := α) ix env now selfId role tr)
          = resOfTime (TimeFns.evalNode P env now a.toNode).2) →
      ((TimeFns.evalNode P env now b.toNode).1 = b.toNode ∧
        SharedOutcome (TimeFns.evalNode P env now b.toNode).2 ∧
        eval (b.toExpr name) (ctxOfEnv (α := α) ix env now selfId role tr)
          = resOfTime (TimeFns.evalNode P env now b.toNode).2) →
      (TimeFns.evalNode P env now (.fn k {} 0 [a.toNode, b.toNode])).1 = .fn k {} 0 [a.toNode, b.toNode] ∧
      SharedOutcome (TimeFns.evalNode P env now (.fn k {} 0 [a.toNode, b.toNode])).2 ∧
      eval (.call n [a.toExpr name, b.toExpr name]) (ctxOfEnv (α := α) ix env now selfId role tr)
        = resOfTime (TimeFns.evalNode P env now (.fn k {} 0 [a.toNode, b.toNode])).2 := by
    intro k n hkn a b iha ihb
    have hk : k = .add ∨ k = .sub ∨ k = .gt ∨ k = .lt := by
      rcases hkn with h | h | h | h
      · exact Or.inl h.1
      · exact Or.inr (Or.inl h.1)
      · exact Or.inr (Or.inr (Or.inl h.1))
      · exact Or.inr (Or.inr (Or.inr h.1))
    have hstrict : fnKind n = .strict := by
      rcases hkn with h | h | h | h <;> rw [h.2] <;> decide
    have hnr : ∀ s : SExpr, isRef (s.toExpr name) = false := by
      intro s; cases s <;> rfl
    rw [evalNode_bin P env now k hk, evalStrict_bin P now k hk, iha.1, ihb.1]
    refine ⟨rfl, sharedOutcome_bin k _ _ iha.2.1 ihb.2.1, ?_⟩
    exact strict2_agree n (binFn k) hstrict (fun x y t => binFn_spec k n hkn x y t) _ _ _ _ _ iha.2.1 ihb.2.1
      iha.2.2 ihb.2.2 (by simp [hnr])
  induction s with
  | unavailable =>
    refine ⟨rfl, trivial, ?_⟩
    simp [SExpr.toExpr, SExpr.toNode, eval, litValue, ctxOfEnv, TimeFns.evalNode, resOfTime]
  | port i =>
    refine ⟨rfl, ?_, ?_⟩
    · simp only [SExpr.toNode, TimeFns.evalNode, TimeFns.envGet]
      cases env[i]? with
      | none => trivial
      | some o => cases o <;> trivial
    · simp only [SExpr.toNode, SExpr.toExpr, TimeFns.evalNode]
      exact portVal_ctxOfEnv name ix hix env now selfId role tr i
  | add a b iha ihb => exact bin .add "ADD" (Or.inl ⟨rfl, rfl⟩) a b iha ihb
  | sub a b iha ihb => exact bin .sub "SUB" (Or.inr (Or.inl ⟨rfl, rfl⟩)) a b iha ihb
  | gt a b iha ihb => exact bin .gt "GT" (Or.inr (Or.inr (Or.inl ⟨rfl, rfl⟩))) a b iha ihb
  | lt a b iha ihb => exact bin .lt "LT" (Or.inr (Or.inr (Or.inr ⟨rfl, rfl⟩))) a b iha ihb
  | not a iha =>
    have hnr : isRef (a.toExpr name) = false := by cases a <;> rfl
    simp only [SExpr.toNode, SExpr.toExpr]
    rw [evalNode_not, evalStrict_not, iha.1]
    refine ⟨rfl, ?_, ?_⟩
    · cases hr : (TimeFns.evalNode P env now a.toNode).2 with
      | ok x => trivial
      | error f => have := iha.2.1; rw [hr] at this; cases f <;> simp_all [SharedOutcome]
    · rw [eval_strict "NOT" _ _ (by decide) (by simp [hnr])]
      simp only [evalArgs, iha.2.2]
      cases hr : (TimeFns.evalNode P env now a.toNode).2 with
      | ok x =>
        simp only [resOfTime, applyStrict, firstFail, valsOf]
        exact (C02.cmp_logic_sign_ints_spec x 0 now).2.2.2.2.2.1
      | error f =>
        have := iha.2.1; rw [hr] at this
        cases f <;> simp_all [SharedOutcome, resOfTime, applyStrict, firstFail]

end QtVerif.Integration
