import QtVerif.Props.C01
import QtVerif.Props.C02
import QtVerif.Proofs.IntegrationNoObj
/-!
Integration C01 × C02 — the scheduler model (`Model/Core.lean`) instantiated with the REAL expression evaluator
(`Eval.eval` of `Model/Eval.lean`).

`Core.Cfg E` is parametric in the expression layer (`deps`, `evalE`) and `Props/C01.lean: converges` assumes the frame
property `Core.Frame`. Here the expression layer is the concrete one of C02:

* `RExpr`        an expression of the hub: a `Syntax.Expr` tree together with the id of the port it was parsed for;
* `RealHub α`    what the scheduler model leaves open about a concrete hub: the registry (`ix`: port id ↦ port index,
                 `none` = no such port), the coding of port values (`dec` / `enc`: the scheduler model carries values as
                 `Int` codes, the evaluator works on Python values `Val α`), the per-port coercion, the literal table,
                 the expression role and the (fixed) clock;
* `ctxOf`        the scheduler's view of the ports (`Core.View`: disabled / no value / value) as an evaluation context
                 (`Eval.Ctx`): a port that is not registered is missing, a disabled port is registered and disabled, an
                 enabled port is registered, enabled, with its value in the snapshot (and as live last-read value);
* `toCoreRes`    the outcome of `Eval.eval` as the scheduler sees it in `_eval_and_write`: a value, `ValueUnavailable`
                 (the port is written `None`), or anything that makes `_eval_and_write` return without touching the port;
* `realCfg`      the resulting `Core.Cfg RExpr` (repaired scheduler).

`real_frame` discharges `Core.Frame (realCfg H)` from `C02.frame`.
-/
namespace QtVerif.Integration
open QtVerif.Syntax QtVerif.Num QtVerif.Eval

/-- An expression installed on a port: the parsed tree and the id of the port it was parsed for (`$` reads it). -/
structure RExpr where
  expr : Expr
  selfId : String

/-- What `Model/Core.lean` leaves open about a concrete hub. The scheduler model carries port values as `Int` codes;
`dec` / `enc` tie the codes to the Python values the evaluator computes with (`enc v = none`: the conversion of the
evaluated value to the port's type raises — `int(nan)` in `adapt_value_type` — the eval loop logs it and the port keeps
its value). -/
structure RealHub (α : Type) where
  n : Nat
  /-- `core_ports.get(id)`: the index of the port registered under `id` (`none` = no such port) -/
  ix : String → Option Core.PortId
  dec : Int → Val α
  enc : Val α → Option Int
  /-- the per-port coercion of the scheduler model (on codes) -/
  adapt : Core.PortId → Int → Int
  /-- the clock; irrelevant for expressions that do not call TIME / TIMEMS (`realEval_clock_irrelevant`) -/
  nowMs : Int
  /-- role of the expressions (`ROLE_VALUE` for the `expression` attribute) and the live module's transform roles -/
  role : Nat
  transformRoles : List Nat
  lit : String → LitDen α

variable {α : Type}

/-- Registry entry of a port as the scheduler's view shows it (the live last-read value — read only by `$` in a value
expression — is taken from the same view: the scheduler model hands one view to an evaluation). -/
def entryOf (H : RealHub α) : Core.Cell → PortEntry α
  | .dis => ⟨false, none⟩
  | .na => ⟨true, none⟩
  | .v x => ⟨true, some (H.dec x)⟩

/-- Snapshot value of a port (`context.port_values.get(id)`). -/
def snapOf (H : RealHub α) : Core.Cell → Option (Val α)
  | .v x => some (H.dec x)
  | _ => none

/-- The evaluation context that the scheduler's view `v` stands for, for an expression attached to `selfId`. -/
def ctxOf (H : RealHub α) (selfId : String) (v : Core.View) : Ctx α :=
  { reg := fun id => (H.ix id).map fun q => entryOf H (v q),
    vals := fun id => (H.ix id).bind fun q => snapOf H (v q),
    nowMs := H.nowMs, selfId := selfId, role := H.role, transformRoles := H.transformRoles, lit := H.lit }

/-- `_eval_and_write` on the outcome of `expression.eval(context)`:
value → `adapt_value_type` (may raise: the eval loop logs, the port is untouched);
`ValueUnavailable` → `None`; any other `ExpressionEvalError` or Python exception → return, the port is untouched;
a port object (`@id` alone; excluded by `wf`) is adapted to `None` on a number port.
`outside` / `complexVal` / `portObj` never occur on well-formed trees (`realEval_total`). -/
def toCoreRes (enc : Val α → Option Int) : Eval.Res α → Core.Res
  | .val v => (match enc v with | some x => .val x | none => .error)
  | .unavailable => .unavail
  | .portObj _ => .unavail
  | .error _ => .error
  | .crash _ => .error
  | .complexVal => .error
  | .outside => .error

/-- Ports whose value the expression reads, as indices of the scheduler model (`PortValue._get_deps` through the
registry; ids of missing ports have no index). -/
def realDeps (H : RealHub α) (e : RExpr) : List Core.PortId :=
  (e.expr.portValueIds e.selfId).filterMap H.ix

variable [PyFloat α]

/-- The real evaluator as the scheduler model's expression layer. -/
def realEval (H : RealHub α) (e : RExpr) (v : Core.View) : Core.Res :=
  toCoreRes H.enc (eval e.expr (ctxOf H e.selfId v))

/-- The (repaired) hub over the real expression language. -/
def realCfg (H : RealHub α) : Core.Cfg RExpr :=
  { n := H.n, deps := realDeps H, evalE := realEval H, adapt := H.adapt,
    repConfirm := true, repForce := true, repCapture := true }

omit [PyFloat α] in
/-- Views that agree on the indices of the ports an expression names give contexts that agree on those names. -/
theorem ctxOf_agree (H : RealHub α) (e : RExpr) (v v' : Core.View)
    (h : ∀ q, q ∈ realDeps H e → v q = v' q) :
    AgreeOn (e.expr.portValueIds (ctxOf H e.selfId v).selfId) (usesTime e.expr)
      (ctxOf H e.selfId v) (ctxOf H e.selfId v') := by
  refine ⟨rfl, rfl, rfl, fun _ => rfl, ?_, fun _ => rfl⟩
  intro id hid
  cases hix : H.ix id with
  | none => simp [ctxOf, hix]
  | some q =>
    have hq : v q = v' q := h q (by
      simp only [realDeps, List.mem_filterMap]
      exact ⟨id, hid, hix⟩)
    simp [ctxOf, hix, hq]

/-- **C02's frame theorem discharges C01's `Frame` hypothesis** for the real evaluator. -/
theorem real_frame (H : RealHub α) : Core.Frame (realCfg H) := by
  intro e v v' h
  show toCoreRes H.enc (eval e.expr (ctxOf H e.selfId v)) = toCoreRes H.enc (eval e.expr (ctxOf H e.selfId v'))
  congr 1
  apply C02.frame e.expr _ _ (ctxOf_agree H e v v' h)
  intro id _
  simp only [ctxOf]
  cases H.ix id <;> rfl

/-- On a well-formed tree (what `parse` accepts for a function argument or a whole value expression other than a bare
`@id`) the real evaluator never leaves the modelled fragment, never yields a complex number and never yields a port
object: the three catch-all rows of `toCoreRes` are dead. -/
theorem realEval_total (H : RealHub α) (e : RExpr) (v : Core.View) (hwf : wf H.lit e.expr = true) :
    eval e.expr (ctxOf H e.selfId v) ≠ .outside ∧ eval e.expr (ctxOf H e.selfId v) ≠ .complexVal ∧
    ∀ id, eval e.expr (ctxOf H e.selfId v) ≠ .portObj id := by
  refine ⟨C02.eval_total_on_wellformed e.expr _ (by simp [wfTop, ctxOf, hwf]), C02.eval_never_complex e.expr _, ?_⟩
  intro id h
  have := eval_noObj e.expr (ctxOf H e.selfId v) (wf_not_ref H.lit e.expr hwf)
  rw [h] at this
  exact this

/-- The fixed clock of `RealHub` is immaterial for expressions that do not call TIME / TIMEMS. -/
theorem realEval_clock_irrelevant (H : RealHub α) (now' : Int) (e : RExpr) (v : Core.View)
    (ht : usesTime e.expr = false) :
    eval e.expr (ctxOf { H with nowMs := now' } e.selfId v) = eval e.expr (ctxOf H e.selfId v) := by
  apply C02.frame
  · refine ⟨rfl, rfl, rfl, fun _ => rfl, fun _ _ => ⟨rfl, rfl⟩, ?_⟩
    intro h; rw [ht] at h; cases h
  · intro id _; rfl

end QtVerif.Integration
