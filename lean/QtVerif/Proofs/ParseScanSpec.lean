import QtVerif.Proofs.ParseDepth
/-! The verdict of the scanning loop of `Function.parse`, declaratively (`ScanErr`, `scan_err_iff`,
`scan_ok_shape`): structural invariant of the loop, the failing character, case analysis. Helper lemmas for C03
(`reason_complete_and_sound`). -/
set_option linter.unusedSimpArgs false
namespace QtVerif.Parse
open QtVerif.Syntax

/-! ### backward: what the state of the scanning loop says about the characters read so far -/

/-- Structural facts about the state (besides `Inv`): the head has no parenthesis, the collected arguments are
complete texts recorded with their offsets, the current argument has been read to inner depth `level - 1`. -/
def Inv2 (st : ScanSt) : Prop :=
  NoParen st.name ∧ (∀ a ∈ st.sargs, walk 0 a.1 = some 0) ∧
  (st.pStart.isSome → st.sargs = offs (st.name.length + 1) (st.sargs.map Prod.fst) ∧
      st.argStart = st.name.length + 1 + (pre (st.sargs.map Prod.fst)).length) ∧
  (st.pStart.isSome → st.pEnd = none → st.level ≥ 1 ∧ walk 0 st.cur = some (st.level - 1)) ∧
  (st.pEnd.isSome → walk 0 st.cur = some 0)

theorem inv2_init : Inv2 {} := by
  unfold Inv2 NoParen
  simp

theorem walk_snoc (d : Nat) (a : List Char) (c : Char) :
    walk d (a ++ [c]) = (walk d a).bind (fun d' => walk d' [c]) := walk_append a [c] d

theorem inv2_step {pos : Nat} {st st' : ScanSt} {c : Char} {consumed : List Char} (h1 : Inv st consumed)
    (h2 : Inv2 st) (h : step pos st c = .ok st') : Inv2 st' := by
  rcases st with ⟨i, ps, pe, lvl, name, as, cur, sargs⟩
  obtain ⟨hnp, hsa, hoff, hB, hC⟩ := h2
  obtain ⟨hi, hsb, hm⟩ := h1
  simp only at hnp hsa hoff hB hC hi hm
  cases ps with
  | none =>
    cases pe with
    | some _ => exact absurd hm (by simp)
    | none =>
      simp only at hm
      obtain ⟨hl, hc, hs, hcur⟩ := hm
      subst hl; subst hs; subst hcur
      by_cases c1 : c = '('
      · subst c1
        simp [step] at h; subst h
        refine ⟨hnp, hsa, ?_, ?_, by simp⟩
        · intro _; simp [offs, pre, hc, hi]
        · intro _ _; simp [walk]
      · by_cases c2 : c = ')'
        · subst c2; simp [step] at h
        · have e1 : (c == '(') = false := by simpa using c1
          have e2 : (c == ')') = false := by simpa using c2
          simp [step, e1, e2] at h; subst h
          refine ⟨?_, hsa, by simp, by simp, by simp⟩
          intro d hd
          rcases List.mem_append.mp hd with hd | hd
          · exact hnp d hd
          · simp at hd; subst hd; exact ⟨c1, c2⟩
  | some ps =>
    have hoff' := hoff (by simp)
    cases pe with
    | none =>
      have hB' := hB (by simp) rfl
      simp only at hm hB'
      obtain ⟨hl, hps, hc⟩ := hm
      by_cases c1 : c = '('
      · subst c1
        have : (lvl == 0) = false := by simp; omega
        simp [step, this] at h; subst h
        refine ⟨hnp, hsa, fun _ => hoff', ?_, by simp⟩
        intro _ _
        refine ⟨by simp, ?_⟩
        simp only [walk_snoc, hB'.2, Option.bind_some, walk]
        simp; omega
      · by_cases c2 : c = ')'
        · subst c2
          have l0 : (lvl == 0) = false := by simp; omega
          by_cases l1 : lvl = 1
          · subst l1
            simp [step] at h; subst h
            refine ⟨hnp, hsa, fun _ => hoff', by simp, ?_⟩
            intro _; simpa using hB'.2
          · have l1' : (lvl == 1) = false := by simpa using l1
            simp [step, l0, l1'] at h; subst h
            refine ⟨hnp, hsa, fun _ => hoff', ?_, by simp⟩
            intro _ _
            refine ⟨by simp; omega, ?_⟩
            simp only [walk_snoc, hB'.2, Option.bind_some]
            obtain ⟨k, hk⟩ : ∃ k, lvl - 1 = k + 1 := ⟨lvl - 2, by omega⟩
            rw [hk]; simp [walk]
        · have e1 : (c == '(') = false := by simpa using c1
          have e2 : (c == ')') = false := by simpa using c2
          by_cases c3 : c = ',' ∧ lvl = 1
          · obtain ⟨c3, l1⟩ := c3; subst c3; subst l1
            simp only [step, e1, e2] at h
            simp at h
            split at h
            · cases h
            · simp at h; subst h
              refine ⟨hnp, ?_, ?_, ?_, by simp⟩
              · intro a ha
                rcases List.mem_append.mp ha with ha | ha
                · exact hsa a ha
                · simp at ha; subst ha; simpa using hB'.2
              · intro _
                simp only [List.map_append, List.map_cons, List.map_nil]
                rw [offs_append, ← hoff'.1]
                refine ⟨by simp [offs, hoff'.2], ?_⟩
                rw [pre_append]
                have : consumed.length = name.length + 1 + (pre (sargs.map Prod.fst)).length + cur.length := by
                  rw [hc]; simp; omega
                simp [pre]; omega
              · intro _ _; simp [walk]
          · have e3 : (c == ',' && lvl == 1) = false := by
              cases hh : (c == ',' && lvl == 1) with
              | false => rfl
              | true => simp at hh; exact absurd hh c3
            have l0 : (lvl == 0) = false := by simp; omega
            simp [step, e1, e2, e3, l0] at h; subst h
            refine ⟨hnp, hsa, fun _ => hoff', ?_, by simp⟩
            intro _ _
            refine ⟨hl, ?_⟩
            simp only [walk_snoc, hB'.2, Option.bind_some]
            by_cases hcm : c = ','
            · subst hcm
              have : lvl ≠ 1 := fun h => c3 ⟨rfl, h⟩
              obtain ⟨k, hk⟩ : ∃ k, lvl - 1 = k + 1 := ⟨lvl - 2, by omega⟩
              rw [hk]; simp [walk]
            · simp [walk, c1, c2, hcm]
    | some pe =>
      have hC' := hC (by simp)
      simp only at hm
      obtain ⟨hl, hps, hpe, tail, htail, hc⟩ := hm
      subst hl
      by_cases c1 : c = '('
      · subst c1; simp [step] at h
      · by_cases c2 : c = ')'
        · subst c2; simp [step] at h
        · have e1 : (c == '(') = false := by simpa using c1
          have e2 : (c == ')') = false := by simpa using c2
          cases hsp : isSpace c with
          | false => simp [step, e1, e2, hsp] at h
          | true =>
            simp [step, e1, e2, hsp] at h
            subst h
            exact ⟨hnp, hsa, fun _ => hoff', by simp, fun _ => hC'⟩

theorem invs_loop {pos : Nat} : ∀ (rest : List Char) {st st' : ScanSt} {consumed : List Char},
    Inv st consumed → Inv2 st → scanLoop pos st rest = .ok st' → Inv st' (consumed ++ rest) ∧ Inv2 st' := by
  intro rest
  induction rest with
  | nil => intro st st' consumed h1 h2 h; simp [scanLoop] at h; subst h; exact ⟨by simpa using h1, h2⟩
  | cons c cs ih =>
    intro st st' consumed h1 h2 h
    simp only [scanLoop] at h
    cases hs : step pos st c with
    | error e => rw [hs] at h; cases h
    | ok st1 =>
      rw [hs] at h
      have := ih (inv_step h1 hs) (inv2_step h1 h2 hs) h
      simpa using this

theorem scanLoop_append_ok {pos : Nat} : ∀ (a b : List Char) {st st1 : ScanSt},
    scanLoop pos st a = .ok st1 → scanLoop pos st (a ++ b) = scanLoop pos st1 b := by
  intro a
  induction a with
  | nil => intro b st st1 h; simp [scanLoop] at h; subst h; rfl
  | cons c cs ih =>
    intro b st st1 h
    simp only [scanLoop, List.cons_append] at h ⊢
    cases hs : step pos st c with
    | error e => rw [hs] at h; cases h
    | ok st2 => rw [hs] at h; exact ih b h

/-- A failing scan fails at one definite character, after a prefix that was read without error. -/
theorem scanLoop_err_split {pos : Nat} : ∀ (s : List Char) {st : ScanSt} {er : Err},
    scanLoop pos st s = .error er →
    ∃ p c rest st1, s = p ++ c :: rest ∧ scanLoop pos st p = .ok st1 ∧ step pos st1 c = .error er := by
  intro s
  induction s with
  | nil => intro st er h; simp [scanLoop] at h
  | cons c cs ih =>
    intro st er h
    simp only [scanLoop] at h
    cases hs : step pos st c with
    | error e => rw [hs] at h; cases h; exact ⟨[], c, cs, st, rfl, rfl, hs⟩
    | ok st2 =>
      rw [hs] at h
      obtain ⟨p, d, rest, st1, h1, h2, h3⟩ := ih h
      refine ⟨c :: p, d, rest, st1, by simp [h1], ?_, h3⟩
      simp [scanLoop, hs, h2]

/-- when one iteration of the loop raises -/
theorem step_err_cases {pos : Nat} {st : ScanSt} {c : Char} {er : Err} (h : step pos st c = .error er) :
    (c = '(' ∧ st.pStart.isSome = true ∧ st.level = 0 ∧ er = { kind := .unexpectedChar, pos := pos + st.i, tok := ['('] }) ∨
    (c = ')' ∧ st.level = 0 ∧ er = { kind := .unbalanced, pos := pos + st.i }) ∨
    (c = ')' ∧ st.level = 1 ∧ st.pEnd.isSome = true) ∨
    (c = ',' ∧ st.level = 1 ∧ trim st.cur = [] ∧
      er = { kind := .unexpectedChar, pos := pos + st.argStart + st.cur.length, tok := [','] }) ∨
    (c ≠ '(' ∧ c ≠ ')' ∧ st.pStart.isSome = true ∧ st.level = 0 ∧ isSpace c = false ∧
      er = { kind := .unexpectedChar, pos := pos + st.i, tok := [c] }) := by
  by_cases c1 : c = '('
  · subst c1
    left
    simp only [step, beq_self_eq_true, if_true] at h
    split at h
    · cases h
    · split at h
      · rename_i h1 h2
        cases h
        refine ⟨rfl, ?_, by simpa using h2, rfl⟩
        cases hp : st.pStart with
        | none => rw [hp] at h1; simp at h1
        | some _ => rfl
      · cases h
  · by_cases c2 : c = ')'
    · subst c2
      have e1 : (')' == '(') = false := by decide
      simp only [step, e1, Bool.false_eq_true, if_false, beq_self_eq_true, if_true] at h
      split at h
      · rename_i h0; cases h; right; left; exact ⟨rfl, by simpa using h0, rfl⟩
      · split at h
        · rename_i h1
          split at h
          · cases h
          · rename_i h2; right; right; left
            refine ⟨rfl, by simpa using h1, ?_⟩
            cases hp : st.pEnd with
            | none => rw [hp] at h2; simp at h2
            | some _ => rfl
        · cases h
    · have e1 : (c == '(') = false := by simpa using c1
      have e2 : (c == ')') = false := by simpa using c2
      simp only [step, e1, e2, Bool.false_eq_true, if_false] at h
      split at h
      · rename_i h3
        simp only [Bool.and_eq_true, beq_iff_eq] at h3
        split at h
        · rename_i h4
          cases h
          right; right; right; left
          exact ⟨h3.1, h3.2, by simpa using h4, by rw [h3.1]⟩
        · cases h
      · split at h
        · rename_i h4
          simp only [Bool.and_eq_true, beq_iff_eq, Bool.not_eq_true'] at h4
          cases h
          right; right; right; right
          exact ⟨c1, c2, h4.1.1, h4.1.2, h4.2, rfl⟩
        · split at h
          · cases h
          · split at h <;> cases h

/-! ### the scanner's verdict, declaratively -/

/-- The faults `Function.parse` finds while splitting a text into head and argument texts, each with the error it
raises (`pos` = position of the first character of the text). What precedes the offending character is well shaped:
a parenthesis-free head, `(`, complete non-blank argument texts `t₁ , … , tₖ ,`. -/
inductive ScanErr (pos : Nat) : List Char → Err → Prop
  /-- no parenthesis at all (not reachable through `parse`, which dispatches here only texts with a parenthesis) -/
  | noCall (t : List Char) : NoParen t → ScanErr pos t { kind := .unexpectedEnd }
  /-- a `)` before any `(` -/
  | closeFirst (hd rest : List Char) : NoParen hd →
      ScanErr pos (hd ++ ')' :: rest) { kind := .unbalanced, pos := pos + hd.length }
  /-- a blank argument ended by a comma -/
  | blankComma (hd : List Char) (ts : List (List Char)) (blank rest : List Char) :
      NoParen hd → (∀ t ∈ ts, ArgText t) → AllSpace blank →
      ScanErr pos (hd ++ '(' :: pre ts ++ blank ++ ',' :: rest)
        { kind := .unexpectedChar, pos := pos + (hd.length + 1 + (pre ts).length + blank.length), tok := [','] }
  /-- the text ends inside the call -/
  | unterminated (hd : List Char) (ts : List (List Char)) (w : List Char) :
      NoParen hd → (∀ t ∈ ts, ArgText t) → Open w →
      ScanErr pos (hd ++ '(' :: pre ts ++ w) { kind := .unexpectedEnd }
  /-- something other than whitespace follows the closing parenthesis -/
  | afterClose (hd : List Char) (ts : List (List Char)) (cur ws : List Char) (c : Char) (rest : List Char) :
      NoParen hd → (∀ t ∈ ts, ArgText t) → Seg cur → AllSpace ws → isSpace c = false →
      ScanErr pos (hd ++ '(' :: pre ts ++ cur ++ ')' :: ws ++ c :: rest)
        (if c = ')' then
          { kind := .unbalanced, pos := pos + (hd.length + 1 + (pre ts).length + cur.length + 1 + ws.length) }
        else { kind := .unexpectedChar, pos := pos + (hd.length + 1 + (pre ts).length + cur.length + 1 + ws.length),
               tok := [c] })
  /-- the last argument is blank, or there is only whitespace between the parentheses -/
  | blankClose (hd : List Char) (ts : List (List Char)) (blank tail : List Char) :
      NoParen hd → (∀ t ∈ ts, ArgText t) → AllSpace blank → (ts ≠ [] ∨ blank ≠ []) → AllSpace tail →
      ScanErr pos (hd ++ '(' :: pre ts ++ blank ++ ')' :: tail)
        { kind := .unexpectedChar, pos := pos + (hd.length + 1 + (pre ts).length + blank.length), tok := [')'] }

theorem scanF_noCall (pos : Nat) (t : List Char) (h : NoParen t) : scan pos t = .error { kind := .unexpectedEnd } := by
  have e1 := scan_name t h pos 0 [] 0 [] [] []
  simp only [List.nil_append, Nat.zero_add, List.append_nil] at e1
  unfold scan
  show (match scanLoop pos ⟨0, none, none, 0, [], 0, [], []⟩ _ with | .error e => _ | .ok st => _) = _
  rw [e1]
  simp [scanLoop, finish]

theorem scan_of_scanErr {pos : Nat} {t : List Char} {er : Err} (h : ScanErr pos t er) : scan pos t = .error er := by
  cases h with
  | noCall _ h => exact scanF_noCall pos t h
  | closeFirst hd rest h => exact scanF_closeFirst pos hd rest h
  | blankComma hd ts blank rest h1 h2 h3 => exact scanF_blankComma pos hd ts blank rest h1 h2 h3
  | unterminated hd ts w h1 h2 h3 => exact scanF_unterminated pos hd ts w h1 h2 h3
  | afterClose hd ts cur ws c rest h1 h2 h3 h4 h5 => exact scanF_afterClose pos hd ts cur ws c rest h1 h2 h3 h4 h5
  | blankClose hd ts blank tail h1 h2 h3 h4 h5 => exact scanF_blankClose pos hd ts blank tail h1 h2 h3 h4 h5

theorem ScanErr.cast {pos : Nat} {t t' : List Char} {er er' : Err} (h : ScanErr pos t er) (ht : t = t')
    (he : er = er') : ScanErr pos t' er' := by subst ht; subst he; exact h

/-- the collected arguments are fine argument texts -/
theorem args_of_invs {st : ScanSt} {consumed : List Char} (h1 : Inv st consumed) (h2 : Inv2 st) :
    ∀ t ∈ st.sargs.map Prod.fst, ArgText t := by
  intro t ht
  obtain ⟨a, ha, rfl⟩ := List.mem_map.mp ht
  exact ⟨(seg_iff_walk _).mpr (h2.2.1 a ha), h1.2.1 a ha⟩

theorem scanErr_of_scan {pos : Nat} {t : List Char} {er : Err} (h : scan pos t = .error er) : ScanErr pos t er := by
  unfold scan at h
  cases hl : scanLoop pos {} t with
  | error e =>
    rw [hl] at h; cases h
    obtain ⟨p, c, rest, st, rfl, hp, hs⟩ := scanLoop_err_split t hl
    obtain ⟨h1, h2⟩ := invs_loop p inv_init inv2_init hp
    simp only [List.nil_append] at h1
    have hargs := args_of_invs h1 h2
    rcases st with ⟨i, ps, pe, lvl, name, as, cur, sargs⟩
    obtain ⟨hi, hsb, hm⟩ := h1
    obtain ⟨hnp, hsa, hoff, hB, hC⟩ := h2
    simp only at hi hm hnp hsa hoff hB hC hargs
    rcases step_err_cases hs with ⟨rfl, hps, hlv, rfl⟩ | ⟨rfl, hlv, rfl⟩ | ⟨rfl, hlv, hpe⟩ | ⟨rfl, hlv, hbl, rfl⟩ |
      ⟨c1, c2, hps, hlv, hsp, rfl⟩
    · -- '(' after the call was closed
      simp only at hps hlv
      cases ps with
      | none => simp at hps
      | some ps =>
        cases pe with
        | none => have := (hB rfl rfl).1; omega
        | some pe =>
          simp only at hm
          obtain ⟨-, -, -, tail, htail, hc⟩ := hm
          refine (ScanErr.afterClose (pos := pos) name (sargs.map Prod.fst) cur tail '(' rest hnp hargs
            ((seg_iff_walk _).mpr (hC rfl)) htail (by decide)).cast (by rw [hc]; simp) ?_
          simp [hi, hc]; omega
    · -- ')' at level 0: before any '(' or after the call was closed
      simp only at hlv
      cases ps with
      | none =>
        cases pe with
        | some _ => exact absurd hm (by simp)
        | none =>
          simp only at hm
          obtain ⟨-, hc, -, -⟩ := hm
          refine (ScanErr.closeFirst (pos := pos) name rest hnp).cast (by rw [hc]) ?_
          simp [hi, hc]
      | some ps =>
        cases pe with
        | none => have := (hB rfl rfl).1; omega
        | some pe =>
          simp only at hm
          obtain ⟨-, -, -, tail, htail, hc⟩ := hm
          refine (ScanErr.afterClose (pos := pos) name (sargs.map Prod.fst) cur tail ')' rest hnp hargs
            ((seg_iff_walk _).mpr (hC rfl)) htail (by decide)).cast (by rw [hc]; simp) ?_
          simp [hi, hc]; omega
    · -- ')' at level 1 with the call already closed: impossible
      simp only at hlv hpe
      cases ps with
      | none => cases pe with
        | some _ => exact absurd hm (by simp)
        | none => simp at hpe
      | some ps => cases pe with
        | none => simp at hpe
        | some pe => simp only at hm; omega
    · -- ',' at level 1 after a blank argument
      simp only at hlv hbl
      cases ps with
      | none =>
        cases pe with
        | some _ => exact absurd hm (by simp)
        | none => simp only at hm; omega
      | some ps =>
        cases pe with
        | some pe => simp only at hm; omega
        | none =>
          simp only at hm
          obtain ⟨-, -, hc⟩ := hm
          have hoff' := hoff rfl
          refine (ScanErr.blankComma (pos := pos) name (sargs.map Prod.fst) cur rest hnp hargs
            (allSpace_of_trim hbl)).cast (by rw [hc]; simp) ?_
          simp [hoff'.2]; omega
    · -- a character after the call was closed
      simp only at hps hlv
      cases ps with
      | none => simp at hps
      | some ps =>
        cases pe with
        | none => have := (hB rfl rfl).1; omega
        | some pe =>
          simp only at hm
          obtain ⟨-, -, -, tail, htail, hc⟩ := hm
          refine (ScanErr.afterClose (pos := pos) name (sargs.map Prod.fst) cur tail c rest hnp hargs
            ((seg_iff_walk _).mpr (hC rfl)) htail hsp).cast (by rw [hc]; simp) ?_
          simp [hi, hc, c2]; omega
  | ok st =>
    rw [hl] at h
    obtain ⟨h1, h2⟩ := invs_loop t inv_init inv2_init hl
    simp only [List.nil_append] at h1
    have hargs := args_of_invs h1 h2
    rcases st with ⟨i, ps, pe, lvl, name, as, cur, sargs⟩
    obtain ⟨hi, hsb, hm⟩ := h1
    obtain ⟨hnp, hsa, hoff, hB, hC⟩ := h2
    simp only at hi hm hnp hsa hoff hB hC hargs
    cases ps with
    | none =>
      cases pe with
      | some _ => exact absurd hm (by simp)
      | none =>
        simp only at hm
        obtain ⟨-, hc, -, -⟩ := hm
        simp [finish] at h; subst h
        rw [hc]; exact ScanErr.noCall name hnp
    | some ps =>
      cases pe with
      | none =>
        simp only at hm
        obtain ⟨-, -, hc⟩ := hm
        simp [finish] at h; subst h
        rw [hc]
        have := ScanErr.unterminated (pos := pos) name (sargs.map Prod.fst) cur hnp hargs
          ((open_iff_walk cur).mpr ⟨_, (hB rfl rfl).2⟩)
        simpa using this
      | some pe =>
        simp only at hm
        obtain ⟨hl0, hps, hpe, tail, htail, hc⟩ := hm
        subst hl0
        simp only [finish] at h
        have hle : ¬ (ps > pe) := by omega
        simp [hle] at h
        by_cases hgt : pe - ps > 1
        · simp only [hgt, if_true] at h
          split at h
          · rename_i hbl
            cases h
            have hoff' := hoff rfl
            have hne : sargs.map Prod.fst ≠ [] ∨ cur ≠ [] := by
              by_cases h0 : sargs.map Prod.fst = []
              · right; intro hc0; rw [h0, hc0] at hpe; simp [pre] at hpe; omega
              · exact Or.inl h0
            refine (ScanErr.blankClose (pos := pos) name (sargs.map Prod.fst) cur tail hnp hargs
              (allSpace_of_trim (by simpa using hbl)) hne htail).cast (by rw [hc]; simp) ?_
            simp [hoff'.2]; omega
          · cases h
        · simp only [hgt, if_false] at h
          cases h

/-- The scanner's verdict on a text is exactly the declarative one. -/
theorem scan_err_iff (pos : Nat) (t : List Char) (er : Err) : scan pos t = .error er ↔ ScanErr pos t er :=
  ⟨scanErr_of_scan, scan_of_scanErr⟩

/-- A successful scan: the text is `head ( t₁ , … , tₙ ) ws` and the result lists the head and the argument texts with
their offsets. -/
theorem scan_ok_shape {pos : Nat} {t hd : List Char} {sargs : List (List Char × Nat)}
    (h : scan pos t = .ok (hd, sargs)) :
    ∃ ts tail, t = hd ++ '(' :: joinC ts ++ ')' :: tail ∧ NoParen hd ∧ (∀ x ∈ ts, ArgText x) ∧ AllSpace tail ∧
      sargs = offs (hd.length + 1) ts := by
  unfold scan at h
  cases hl : scanLoop pos {} t with
  | error e => rw [hl] at h; cases h
  | ok st =>
    rw [hl] at h
    obtain ⟨h1, h2⟩ := invs_loop t inv_init inv2_init hl
    simp only [List.nil_append] at h1
    have hargs := args_of_invs h1 h2
    rcases st with ⟨i, ps, pe, lvl, name, as, cur, sa⟩
    obtain ⟨hi, hsb, hm⟩ := h1
    obtain ⟨hnp, hsa, hoff, hB, hC⟩ := h2
    simp only at hi hm hnp hsa hoff hB hC hargs
    cases ps with
    | none => simp [finish] at h
    | some ps =>
      cases pe with
      | none => simp [finish] at h
      | some pe =>
        simp only at hm
        obtain ⟨hl0, hps, hpe, tail, htail, hc⟩ := hm
        subst hl0
        have hoff' := hoff rfl
        simp only [finish] at h
        have hle : ¬ (ps > pe) := by omega
        simp [hle] at h
        by_cases hgt : pe - ps > 1
        · simp only [hgt, if_true] at h
          split at h
          · cases h
          · rename_i hne
            simp at h
            obtain ⟨e1, e2⟩ := h
            subst e1; subst e2
            refine ⟨sa.map Prod.fst ++ [cur], tail, ?_, hnp, ?_, htail, ?_⟩
            · rw [hc, joinC_snoc]
            · intro x hx
              rcases List.mem_append.mp hx with hx | hx
              · exact hargs x hx
              · simp at hx; subst hx
                exact ⟨(seg_iff_walk _).mpr (hC rfl), by simpa using hne⟩
            · rw [offs_append, ← hoff'.1]; simp [offs, hoff'.2]
        · simp only [hgt, if_false] at h
          simp at h
          obtain ⟨e1, e2⟩ := h
          subst e1; subst e2
          have hz : (pre (sa.map Prod.fst) ++ cur).length = 0 := by omega
          have hz' : pre (sa.map Prod.fst) ++ cur = [] := List.eq_nil_of_length_eq_zero hz
          have hp : pre (sa.map Prod.fst) = [] := (List.append_eq_nil_iff.mp hz').1
          have hm0 : sa.map Prod.fst = [] := pre_eq_nil hp
          have hsa0 : sa = [] := by simpa using hm0
          refine ⟨[], tail, ?_, hnp, ?_, htail, ?_⟩
          · rw [hc, hz']; simp [joinC]
          · intro x hx; cases hx
          · simp [hsa0, offs]

end QtVerif.Parse
