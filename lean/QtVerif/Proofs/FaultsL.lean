import QtVerif.Model.Faults
import QtVerif.Proofs.FaultsK
namespace QtVerif.Faults

/-- every enabled port shows its driver's register and no forced evaluation is outstanding: what a pass leaves -/
def SettledA (A : AState) : Prop := (∀ q ∈ A.ports, q.enabled = true → q.last = q.reg) ∧ A.full = false
def EffOnly (A : AState) : Prop := A.out.filter Obs.isEffect = A.out

theorem adoptReg_settled (q : Port) (h : q.enabled = true → q.last = q.reg) : adoptReg q = q := by
  unfold adoptReg
  split
  · rename_i he
    have := h he
    cases q; simp_all
  · rfl

theorem chg1_settled (q : Port) (h : q.enabled = true → q.last = q.reg) : chg1 q = [] := by
  unfold chg1
  by_cases he : q.enabled = true
  · simp [he, h he]
  · simp [he]

theorem pushOne_quiet (E : Env) (sn : Snap) (q : Port) : pushOne E false [] sn q = q := by
  unfold pushOne
  cases E.deps q.id with
  | none => rfl
  | some ds => simp [depChanged]

/-- **Key lemma (effect view): an extra pass over a stable, settled world is the identity** — no event, no value
change, no driver write, no evaluation request. -/
theorem apass_settled (P : Params) (E : Env) (A : AState) (hs : SettledA A) (he : EffOnly A) : apass P E A = A := by
  obtain ⟨h1, h2⟩ := hs
  have hch : A.ports.flatMap chg1 = [] := by
    apply List.flatMap_eq_nil_iff.mpr
    intro q hq; exact chg1_settled q (h1 q hq)
  have had : A.ports.map adoptReg = A.ports := by
    conv => rhs; rw [← List.map_id A.ports]
    apply List.map_congr_left
    intro q hq; exact adoptReg_settled q (h1 q hq)
  have hpe : ∀ sn (ps : List Port), pushEvals E false [] sn ps = ps := by
    intro sn ps
    unfold pushEvals
    conv => rhs; rw [← List.map_id ps]
    apply List.map_congr_left
    intro q _; exact pushOne_quiet E sn q
  unfold apass
  rw [hch, had, h2]
  simp only [List.map_nil, hpe, deliver, List.foldl_nil]
  unfold EffOnly at he
  rw [he]
  cases A; simp_all

theorem adoptReg_fields (q : Port) : (adoptReg q).enabled = q.enabled ∧ (adoptReg q).reg = q.reg ∧
    ((adoptReg q).enabled = true → (adoptReg q).last = (adoptReg q).reg) := by
  unfold adoptReg
  by_cases he : q.enabled = true
  · simp [he]
  · simp [he]

theorem pushOne_keeps (E : Env) (full : Bool) (ch : List PortId) (sn : Snap) (q : Port) :
    (pushOne E full ch sn q).enabled = q.enabled ∧ (pushOne E full ch sn q).last = q.last ∧
    (pushOne E full ch sn q).reg = q.reg := by
  unfold pushOne
  cases E.deps q.id with
  | none => exact ⟨rfl, rfl, rfl⟩
  | some ds => simp only []; split <;> exact ⟨rfl, rfl, rfl⟩

theorem apass_settles (P : Params) (E : Env) (A : AState) : SettledA (apass P E A) ∧ EffOnly (apass P E A) := by
  refine ⟨⟨?_, rfl⟩, ?_⟩
  · intro q hq hen
    simp only [apass, pushEvals, List.mem_map] at hq
    obtain ⟨q1, ⟨q0, _, rfl⟩, rfl⟩ := hq
    obtain ⟨k1, k2, k3⟩ := pushOne_keeps E A.full ((A.ports.flatMap chg1).map (fun c => c.1))
      (snapshot (A.ports.map adoptReg)) (adoptReg q0)
    rw [k1] at hen
    rw [k2, k3]
    exact (adoptReg_fields q0).2.2 hen
  · simp only [EffOnly, apass, List.filter_filter, Bool.and_self]

theorem astep_effonly (P : Params) (E : Env) (A : AState) (a : Action) (he : EffOnly A) : EffOnly (astep P E A a) := by
  cases a with
  | pass k now => exact (apass_settles P E A).2
  | setSrc p v => exact he
  | apiWrite p v k => exact he
  | eval p => exact he
  | create p => exact he
  | remove p => exact he
  | forceEval => exact he
  | write p =>
    unfold EffOnly at he ⊢
    simp only [astep, List.filter_append, he]
    cases A.ports.find? (fun q => q.id == p) with
    | none => rfl
    | some q => simp only [writeObs_effect]

/-- actions that change no register -/
def quiet : Action → Bool
  | .eval _ => true
  | .apiWrite .. => true
  | _ => false

theorem evalPort_keeps (E : Env) (q : Port) :
    (evalPort E q).enabled = q.enabled ∧ (evalPort E q).last = q.last ∧ (evalPort E q).reg = q.reg := by
  unfold evalPort
  split
  · exact ⟨rfl, rfl, rfl⟩
  · split
    · exact ⟨rfl, rfl, rfl⟩
    · split
      · exact ⟨rfl, rfl, rfl⟩
      · split <;> exact ⟨rfl, rfl, rfl⟩

theorem modPort_settled (p : PortId) (f : Port → Port)
    (hf : ∀ q, (f q).enabled = q.enabled ∧ (f q).last = q.last ∧ (f q).reg = q.reg) (ps : List Port)
    (h : ∀ q ∈ ps, q.enabled = true → q.last = q.reg) : ∀ q ∈ modPort p f ps, q.enabled = true → q.last = q.reg := by
  intro q hq hen
  simp only [modPort, List.mem_map] at hq
  obtain ⟨q0, hq0, rfl⟩ := hq
  split at hen
  · rename_i hc
    simp only [hc, if_true]
    obtain ⟨k1, k2, k3⟩ := hf q0
    rw [k2, k3]; exact h q0 hq0 (by rw [← k1]; exact hen)
  · rename_i hc
    simp only [hc]
    exact h q0 hq0 hen

theorem astep_quiet_settled (P : Params) (E : Env) (A : AState) (a : Action) (hq : quiet a = true) (hs : SettledA A) :
    SettledA (astep P E A a) := by
  obtain ⟨h1, h2⟩ := hs
  cases a with
  | pass k now => cases hq
  | setSrc p v => cases hq
  | write p => cases hq
  | create p => cases hq
  | remove p => cases hq
  | forceEval => cases hq
  | apiWrite p v k => exact ⟨modPort_settled p (enqApi v k) (fun _ => ⟨rfl, rfl, rfl⟩) A.ports h1, h2⟩
  | eval p => exact ⟨modPort_settled p (evalPort E) (evalPort_keeps E) A.ports h1, h2⟩

/-- drop the passes that happen in a syntactically settled position: after a pass, with only quiet actions since -/
def squash : Bool → List Action → List Action
  | _, [] => []
  | fl, a :: σ =>
    match a with
    | .pass _ _ => if fl then squash true σ else a :: squash true σ
    | _ => a :: squash (fl && quiet a) σ

theorem arun_squash (P : Params) (E : Env) :
    ∀ (σ : List Action) (fl : Bool) (A : AState), (fl = true → SettledA A) → EffOnly A →
      arun P E A (squash fl σ) = arun P E A σ := by
  intro σ
  induction σ with
  | nil => intro fl A _ _; rfl
  | cons a σ ih =>
    intro fl A hs he
    have e2 : arun P E A (a :: σ) = arun P E (astep P E A a) σ := rfl
    have heo := astep_effonly P E A a he
    cases a with
    | pass k now =>
      simp only [squash]
      by_cases hfl : fl = true
      · simp only [hfl, if_true]
        have hid : astep P E A (.pass k now) = A := apass_settled P E A (hs hfl) he
        rw [e2, hid]
        exact ih true A (fun _ => hs hfl) he
      · simp only [hfl, Bool.false_eq_true, if_false]
        have e1 : arun P E A (.pass k now :: squash true σ) = arun P E (astep P E A (.pass k now)) (squash true σ) := rfl
        rw [e1, e2]
        exact ih true _ (fun _ => (apass_settles P E A).1) heo
    | setSrc p v =>
      simp only [squash, quiet, Bool.and_false]
      have e1 : arun P E A (.setSrc p v :: squash false σ) = arun P E (astep P E A (.setSrc p v)) (squash false σ) := rfl
      rw [e1, e2]; exact ih false _ (fun h => by cases h) heo
    | write p =>
      simp only [squash, quiet, Bool.and_false]
      have e1 : arun P E A (.write p :: squash false σ) = arun P E (astep P E A (.write p)) (squash false σ) := rfl
      rw [e1, e2]; exact ih false _ (fun h => by cases h) heo
    | create p =>
      simp only [squash, quiet, Bool.and_false]
      have e1 : arun P E A (.create p :: squash false σ) = arun P E (astep P E A (.create p)) (squash false σ) := rfl
      rw [e1, e2]; exact ih false _ (fun h => by cases h) heo
    | remove p =>
      simp only [squash, quiet, Bool.and_false]
      have e1 : arun P E A (.remove p :: squash false σ) = arun P E (astep P E A (.remove p)) (squash false σ) := rfl
      rw [e1, e2]; exact ih false _ (fun h => by cases h) heo
    | forceEval =>
      simp only [squash, quiet, Bool.and_false]
      have e1 : arun P E A (.forceEval :: squash false σ) = arun P E (astep P E A .forceEval) (squash false σ) := rfl
      rw [e1, e2]; exact ih false _ (fun h => by cases h) heo
    | apiWrite p v k =>
      simp only [squash, quiet, Bool.and_true]
      have e1 : arun P E A (.apiWrite p v k :: squash fl σ) = arun P E (astep P E A (.apiWrite p v k)) (squash fl σ) := rfl
      rw [e1, e2]; exact ih fl _ (fun h => astep_quiet_settled P E A _ rfl (hs h)) heo
    | eval p =>
      simp only [squash, quiet, Bool.and_true]
      have e1 : arun P E A (.eval p :: squash fl σ) = arun P E (astep P E A (.eval p)) (squash fl σ) := rfl
      rw [e1, e2]; exact ih fl _ (fun h => astep_quiet_settled P E A _ rfl (hs h)) heo

/-- forget kind and time of the passes -/
def erasePT : Action → Action
  | .pass _ _ => .pass .other 0
  | a => a

theorem arun_erase (P : Params) (E : Env) : ∀ (σ : List Action) (A : AState), arun P E A (σ.map erasePT) = arun P E A σ := by
  intro σ
  induction σ with
  | nil => intro A; rfl
  | cons a σ ih =>
    intro A
    have e : astep P E A (erasePT a) = astep P E A a := by cases a <;> rfl
    simp only [List.map_cons, arun, List.foldl_cons, e] at ih ⊢
    exact ih _

/-- The shape of a schedule: which world changes, submissions, evaluations and driver writes happen in which order,
and between which of them at least one polling pass takes place. -/
def shape (σ : List Action) : List Action := (squash false σ).map erasePT

theorem arun_shape (P : Params) (E : Env) (A : AState) (he : EffOnly A) (σ₁ σ₂ : List Action)
    (h : shape σ₁ = shape σ₂) : arun P E A σ₁ = arun P E A σ₂ := by
  rw [← arun_squash P E σ₁ false A (fun h => by cases h) he, ← arun_squash P E σ₂ false A (fun h => by cases h) he,
    ← arun_erase P E (squash false σ₁), ← arun_erase P E (squash false σ₂)]
  unfold shape at h
  rw [h]

theorem abs_effonly (s : State) : EffOnly (abs s) := by
  simp only [EffOnly, abs, List.filter_filter, Bool.and_self]
/-- state-level form of the key lemma -/
theorem abs_pass_settled (H : PortId → Bool) (P : Params) (E : Env) (hst : Stable E H) (k : PassKind) (now : Nat)
    (s : State) (hinv : InvH H s) (hs : SettledA (abs s)) : abs (pass P E k now s) = abs s := by
  rw [(abs_pass H P E hst k now s hinv).1]
  exact apass_settled P E (abs s) hs (abs_effonly s)

theorem proj_invH (H : PortId → Bool) (s : State) (herr : ∀ e ∈ s.errs, H e.1 = false) (hal : s.loopAlive = true) :
    InvH H (proj H s) := by
  refine ⟨proj_allIn H s, ?_, hal⟩
  simp only [proj]
  apply List.filter_eq_nil_iff.mpr
  intro e he; simp [herr e he]

end QtVerif.Faults
