import QtVerif.Model.Eval
/-!
Helper lemmas for C02 (structure of evaluation): induction principle on expression trees, unfolding lemmas for each
kind of function, failure propagation, laziness, the frame lemma, well-formed trees stay inside the fragment.
Everything here holds for every carrier `α` and every `PyFloat α` instance.
-/
namespace QtVerif.Eval
open QtVerif.Syntax QtVerif.Num

variable {α : Type}

/-- Structural induction on expression trees with the induction hypothesis for every argument of a call. -/
theorem Expr.ind {P : Expr → Prop}
    (lit : ∀ t, P (.lit t)) (portVal : ∀ id, P (.portVal id)) (selfVal : P .selfVal)
    (portRef : ∀ id, P (.portRef id)) (selfRef : P .selfRef)
    (call : ∀ n args, (∀ a ∈ args, P a) → P (.call n args)) : ∀ e, P e := by
  intro e
  refine Expr.rec (motive_1 := P) (motive_2 := fun l => ∀ a ∈ l, P a) lit portVal selfVal portRef selfRef
    (fun n args ih => call n args ih) ?_ ?_ e
  · intro a h; cases h
  · intro hd tl h1 h2 a ha
    cases ha with
    | head => exact h1
    | tail _ h => exact h2 a h

/-! ### firstFail / valsOf -/

theorem firstFail_none_iff (rs : List (Res α)) : firstFail rs = none ↔ ∀ r ∈ rs, r.isVal = true := by
  induction rs with
  | nil => simp [firstFail]
  | cons r rest ih =>
    cases r <;> simp [firstFail, Res.isVal, ih]

theorem firstFail_some_iff (rs : List (Res α)) (r : Res α) :
    firstFail rs = some r ↔
      ∃ pre post, rs = pre ++ r :: post ∧ (∀ x ∈ pre, x.isVal = true) ∧ r.isVal = false := by
  induction rs with
  | nil => simp [firstFail]
  | cons x rest ih =>
    by_cases hx : x.isVal = true
    · have hff : firstFail (x :: rest) = firstFail rest := by
        cases x <;> simp_all [firstFail, Res.isVal]
      rw [hff, ih]
      constructor
      · rintro ⟨pre, post, h1, h2, h3⟩
        exact ⟨x :: pre, post, by simp [h1], by
          intro y hy
          cases hy with
          | head => exact hx
          | tail _ h => exact h2 y h, h3⟩
      · rintro ⟨pre, post, h1, h2, h3⟩
        cases pre with
        | nil =>
          simp at h1
          rw [h1.1] at hx
          rw [hx] at h3; cases h3
        | cons p pre' =>
          simp at h1
          exact ⟨pre', post, h1.2, fun y hy => h2 y (List.mem_cons_of_mem _ hy), h3⟩
    · have hx' : x.isVal = false := by simpa using hx
      have hff : firstFail (x :: rest) = some x := by
        cases x <;> simp_all [firstFail, Res.isVal]
      rw [hff]
      constructor
      · intro h
        injection h with h
        subst h
        exact ⟨[], rest, rfl, by simp, hx'⟩
      · rintro ⟨pre, post, h1, h2, h3⟩
        cases pre with
        | nil => simp at h1; rw [h1.1]
        | cons p pre' =>
          simp at h1
          have := h2 p (by simp)
          rw [← h1.1, hx'] at this; cases this

theorem valsOf_map_val (vs : List (Val α)) : valsOf (vs.map Res.val) = vs := by
  induction vs with
  | nil => rfl
  | cons v rest ih => simp [valsOf, ih]

theorem firstFail_map_val (vs : List (Val α)) : firstFail (vs.map Res.val) = none := by
  induction vs with
  | nil => rfl
  | cons v rest ih => simp [firstFail, ih]

/-- If every outcome is a value the list is the image of its values. -/
theorem eq_map_valsOf (rs : List (Res α)) (h : ∀ r ∈ rs, r.isVal = true) : rs = (valsOf rs).map Res.val := by
  induction rs with
  | nil => rfl
  | cons r rest ih =>
    have hr := h r (by simp)
    cases r <;> simp [Res.isVal] at hr
    simp [valsOf]
    exact ih (fun x hx => h x (List.mem_cons_of_mem _ hx))

section
variable [PyFloat α]

/-! ### argument evaluation -/

theorem evalArgs_eq_map (args : List Expr) (c : Ctx α) : evalArgs args c = args.map (fun a => eval a c) := by
  induction args with
  | nil => simp [evalArgs]
  | cons a rest ih => simp [evalArgs, ih]

theorem evalArgs_congr (args : List Expr) (c c' : Ctx α) (h : ∀ a ∈ args, eval a c = eval a c') :
    evalArgs args c = evalArgs args c' := by
  rw [evalArgs_eq_map, evalArgs_eq_map]
  exact List.map_congr_left h

theorem evalAnd_congr (args : List Expr) (c c' : Ctx α) (h : ∀ a ∈ args, eval a c = eval a c') :
    evalAnd args c = evalAnd args c' := by
  induction args with
  | nil => simp [evalAnd]
  | cons a rest ih =>
    simp only [evalAnd]
    rw [← h a (by simp), ← ih (fun x hx => h x (List.mem_cons_of_mem _ hx))]

theorem evalOr_congr (args : List Expr) (c c' : Ctx α) (h : ∀ a ∈ args, eval a c = eval a c') :
    evalOr args c = evalOr args c' := by
  induction args with
  | nil => simp [evalOr]
  | cons a rest ih =>
    simp only [evalOr]
    rw [← h a (by simp), ← ih (fun x hx => h x (List.mem_cons_of_mem _ hx))]


/-! ### unfolding `eval` on calls -/

theorem eval_call_ref (n : String) (args : List Expr) (c : Ctx α) (h : args.any isRef = true) :
    eval (.call n args) c = .outside := by
  rw [eval.eq_def]; simp [h]

theorem eval_call_unknown (n : String) (args : List Expr) (c : Ctx α) (h : fnKind n = .unknown) :
    eval (.call n args) c = .outside := by
  rw [eval.eq_def]; simp [h]

/-- what `IF` returns given the outcomes of its three arguments (only the selected branch matters) -/
def ifSel (r rb rd : Res α) : Res α :=
  match r with
  | .val v => if truthy v then rb else rd
  | r => r

/-- what `DEFAULT` returns given the outcomes of its two arguments -/
def defaultSel (r rb : Res α) : Res α :=
  match r with
  | .unavailable => rb
  | .error _ => rb
  | r => r

theorem eval_if (n : String) (a b d : Expr) (c : Ctx α) (hk : fnKind n = .ifK)
    (hr : [a, b, d].any isRef = false) :
    eval (.call n [a, b, d]) c = ifSel (eval a c) (eval b c) (eval d c) := by
  rw [eval.eq_def]; simp only [hk, hr]
  cases h : eval a c <;> simp [ifSel]

theorem eval_and (n : String) (args : List Expr) (c : Ctx α) (hk : fnKind n = .andK)
    (hr : args.any isRef = false) (hl : 2 ≤ args.length) :
    eval (.call n args) c = evalAnd args c := by
  rw [eval.eq_def]; simp only [hk, hr]
  have : ¬ args.length < 2 := by omega
  simp [this]

theorem eval_or (n : String) (args : List Expr) (c : Ctx α) (hk : fnKind n = .orK)
    (hr : args.any isRef = false) (hl : 2 ≤ args.length) :
    eval (.call n args) c = evalOr args c := by
  rw [eval.eq_def]; simp only [hk, hr]
  have : ¬ args.length < 2 := by omega
  simp [this]

theorem eval_available (n : String) (a : Expr) (c : Ctx α) (hk : fnKind n = .availableK)
    (hr : isRef a = false) :
    eval (.call n [a]) c = availableOf (eval a c) := by
  rw [eval.eq_def]; simp [hk, hr]

theorem eval_default (n : String) (a b : Expr) (c : Ctx α) (hk : fnKind n = .defaultK)
    (hr : [a, b].any isRef = false) :
    eval (.call n [a, b]) c = defaultSel (eval a c) (eval b c) := by
  rw [eval.eq_def]; simp only [hk, hr]
  cases h : eval a c <;> simp [defaultSel]

theorem eval_strict (n : String) (args : List Expr) (c : Ctx α) (hk : fnKind n = .strict)
    (hr : args.any isRef = false) :
    eval (.call n args) c = applyStrict true c.nowMs n (evalArgs args c) := by
  rw [eval.eq_def]; simp [hk, hr]


/-! ### frame: evaluation only looks at the ports it names, its own port, the clock if it reads it -/

theorem mem_argsPortValueIds (s : String) (args : List Expr) (a : Expr) (ha : a ∈ args) (id : String)
    (h : id ∈ a.portValueIds s) : id ∈ argsPortValueIds s args := by
  induction args with
  | nil => cases ha
  | cons x rest ih =>
    simp only [argsPortValueIds, List.mem_append]
    cases ha with
    | head => exact Or.inl h
    | tail _ h' => exact Or.inr (ih h')

theorem argsUseTime_of_mem (args : List Expr) (a : Expr) (ha : a ∈ args) (h : usesTime a = true) :
    argsUseTime args = true := by
  induction args with
  | nil => cases ha
  | cons x rest ih =>
    simp only [argsUseTime, Bool.or_eq_true]
    cases ha with
    | head => exact Or.inl h
    | tail _ h' => exact Or.inr (ih h')

/-- Two contexts agree on what an expression with port footprint `ids` (and clock use `time`) can observe. -/
structure AgreeOn (ids : List String) (time : Bool) (c c' : Ctx α) : Prop where
  selfId : c.selfId = c'.selfId
  role : c.role = c'.role
  transformRoles : c.transformRoles = c'.transformRoles
  lit : ∀ t, c.lit t = c'.lit t
  ports : ∀ id ∈ ids, c.reg id = c'.reg id ∧ c.vals id = c'.vals id
  now : time = true → c.nowMs = c'.nowMs

omit [PyFloat α] in
theorem AgreeOn.mono {ids ids' : List String} {t t' : Bool} {c c' : Ctx α} (h : AgreeOn ids t c c')
    (hi : ∀ id ∈ ids', id ∈ ids) (ht : t' = true → t = true) : AgreeOn ids' t' c c' :=
  ⟨h.selfId, h.role, h.transformRoles, h.lit, fun id hid => h.ports id (hi id hid), fun h' => h.now (ht h')⟩

omit [PyFloat α] in
theorem portValue_congr (c c' : Ctx α) (id : String) (h : c.reg id = c'.reg id ∧ c.vals id = c'.vals id) :
    portValue c id = portValue c' id := by
  simp [portValue, h.1, h.2]

theorem applyFn_now (fix : Bool) (now now' : Int) (n : String) (vs : List (Val α))
    (h : (n = "TIME" ∨ n = "TIMEMS") → now = now') : applyFn fix now n vs = applyFn fix now' n vs := by
  unfold applyFn
  by_cases h1 : n = "TIME"
  · rw [h (Or.inl h1)]
  · by_cases h2 : n = "TIMEMS"
    · rw [h (Or.inr h2)]
    · simp [h1, h2]

/-- The frame lemma for argument expressions (no top-level reference). -/
theorem frame_aux (e : Expr) : ∀ (c c' : Ctx α),
    AgreeOn (e.portValueIds c.selfId) (usesTime e) c c' → isRef e = false → eval e c = eval e c' := by
  induction e using Expr.ind with
  | lit t => intro c c' h _; simp [eval, litValue, h.lit]
  | portVal id =>
    intro c c' h _
    simp only [eval]
    exact portValue_congr c c' id (h.ports id (by simp [Expr.portValueIds]))
  | selfVal =>
    intro c c' h _
    have hp := h.ports c.selfId (by simp [Expr.portValueIds])
    simp only [eval, selfValue, ← h.selfId, ← h.role, ← h.transformRoles]
    rw [portValue_congr c c' c.selfId hp, hp.1]
  | portRef id => intro c c' _ hr; simp [isRef] at hr
  | selfRef => intro c c' _ hr; simp [isRef] at hr
  | call n args ih =>
    intro c c' h _
    by_cases hr : args.any isRef = true
    · rw [eval_call_ref n args c hr, eval_call_ref n args c' hr]
    · have hr' : args.any isRef = false := by simpa using hr
      -- every argument evaluates alike
      have harg : ∀ a ∈ args, eval a c = eval a c' := by
        intro a ha
        refine ih a ha c c' (h.mono ?_ ?_) ?_
        · intro id hid
          simp only [Expr.portValueIds]
          exact mem_argsPortValueIds c.selfId args a ha id hid
        · intro ht
          simp only [usesTime, Bool.or_eq_true]
          exact Or.inr (argsUseTime_of_mem args a ha ht)
        · have := List.any_eq_false.mp hr' a ha
          simpa using this
      cases hk : fnKind n with
      | ifK =>
        rw [eval.eq_def (.call n args) c, eval.eq_def (.call n args) c']
        simp only [hk, hr']
        match args, harg with
        | [a, b, d], harg =>
          simp only [harg a (by simp), harg b (by simp), harg d (by simp)]
        | [], _ => rfl
        | [_], _ => rfl
        | [_, _], _ => rfl
        | _ :: _ :: _ :: _ :: _, _ => rfl
      | andK =>
        rw [eval.eq_def (.call n args) c, eval.eq_def (.call n args) c']
        simp only [hk, hr', evalAnd_congr args c c' harg]
      | orK =>
        rw [eval.eq_def (.call n args) c, eval.eq_def (.call n args) c']
        simp only [hk, hr', evalOr_congr args c c' harg]
      | availableK =>
        rw [eval.eq_def (.call n args) c, eval.eq_def (.call n args) c']
        simp only [hk, hr']
        match args, harg with
        | [a], harg => simp only [harg a (by simp)]
        | [], _ => rfl
        | _ :: _ :: _, _ => rfl
      | defaultK =>
        rw [eval.eq_def (.call n args) c, eval.eq_def (.call n args) c']
        simp only [hk, hr']
        match args, harg with
        | [a, b], harg => simp only [harg a (by simp), harg b (by simp)]
        | [], _ => rfl
        | [_], _ => rfl
        | _ :: _ :: _ :: _, _ => rfl
      | strict =>
        rw [eval_strict n args c hk hr', eval_strict n args c' hk hr', evalArgs_congr args c c' harg]
        unfold applyStrict
        cases firstFail (evalArgs args c') with
        | some r => rfl
        | none =>
          simp only
          apply applyFn_now
          intro hn
          apply h.now
          simp only [usesTime, Bool.or_eq_true, decide_eq_true_eq]
          cases hn with
          | inl h1 => exact Or.inl (Or.inl h1)
          | inr h2 => exact Or.inl (Or.inr h2)
      | unknown =>
        rw [eval_call_unknown n args c hk, eval_call_unknown n args c' hk]

end
end QtVerif.Eval
