import QtVerif.Proofs.ParseReasons
/-! The two branches of the parser that would raise `IndexError` (`sexpression[m.end()]` in `LiteralValue.parse`,
`sexpression[0]` in `PortExpression.parse`) are unreachable. Helper lemmas for C03. -/
set_option linter.unusedSimpArgs false
namespace QtVerif.Parse
open QtVerif.Syntax

theorem decimal_toNat (env : Env) {c : Char} (h : env.isDecimal c = true) :
    (48 ≤ c.toNat ∧ c.toNat ≤ 57) ∨ c.toNat > 127 := by
  simp only [Env.isDecimal, Bool.or_eq_true, Bool.and_eq_true, decide_eq_true_eq] at h
  rcases h with h | h
  · exact Or.inl h
  · exact Or.inr h.1.1

theorem litStep_digit (env : Env) {c : Char} (h : env.isDecimal c = true) :
    litStep env.isDecimal .start c = .int ∧ litStep env.isDecimal .sign c = .int ∧
    litStep env.isDecimal .int c = .int ∧ litStep env.isDecimal .fracE c = .frac ∧
    litStep env.isDecimal .frac c = .frac := by
  have hn := decimal_toNat env h
  have e1 : (c == '+') = false := by rw [ceq]; simp; omega
  have e2 : (c == '-') = false := by rw [ceq]; simp; omega
  simp [litStep, h, e1, e2]

theorem litRun_digits (env : Env) {d : List Char} (h : ∀ c ∈ d, env.isDecimal c = true) :
    litRun env.isDecimal .int d = .int ∧ litRun env.isDecimal .frac d = .frac := by
  induction d with
  | nil => exact ⟨rfl, rfl⟩
  | cons c r ih =>
    have hc := litStep_digit env (h c List.mem_cons_self)
    have := ih (fun x hx => h x (List.mem_cons_of_mem _ hx))
    simp only [litRun, List.foldl_cons] at this ⊢
    rw [hc.2.2.1, hc.2.2.2.2]; exact this

theorem litRun_append (dec : Char → Bool) (st : LS) (a b : List Char) :
    litRun dec st (a ++ b) = litRun dec (litRun dec st a) b := by
  simp [litRun, List.foldl_append]

theorem takeWhile_split (p : Char → Bool) (s : List Char) :
    s = s.takeWhile p ++ s.drop (s.takeWhile p).length := by
  induction s with
  | nil => rfl
  | cons c r ih =>
    cases hp : p c with
    | true => simp [List.takeWhile, hp]; exact ih
    | false => simp [List.takeWhile, hp]

/-- a non-empty run of digits from `start` or `sign` ends in `int` -/
theorem litRun_digits1 (env : Env) {d : List Char} (hne : d ≠ []) (h : ∀ c ∈ d, env.isDecimal c = true) :
    litRun env.isDecimal .start d = .int ∧ litRun env.isDecimal .sign d = .int := by
  cases d with
  | nil => exact absurd rfl hne
  | cons c r =>
    have hc := litStep_digit env (h c List.mem_cons_self)
    have hr := (litRun_digits env (fun x hx => h x (List.mem_cons_of_mem _ hx))).1
    simp only [litRun, List.foldl_cons] at hr ⊢
    rw [hc.1, hc.2.1]; exact ⟨hr, hr⟩

/-- The `IndexError` branch of `LiteralValue.parse` is dead: a text matched entirely by `-?\d+(\.?\d+)?` is accepted by
`float()`. -/
theorem litErrOff_lt (env : Env) {s : List Char} {off : Nat} (hl : isLiteral env s = false)
    (h : litErrOff env s = some off) : s.drop off ≠ [] := by
  intro hdrop
  have hfl : pyFloat env s = false := by
    simp only [isLiteral, Bool.or_eq_false_iff] at hl; exact hl.2
  -- split off the sign
  have key : ∀ (r : List Char) (st : LS) (neg : Nat), (st = .start ∨ st = .sign) →
      litErrOffFrom env neg r = some off →
      r.drop (off - neg) = [] →
      (litRun env.isDecimal st r = .int ∨ litRun env.isDecimal st r = .frac) := by
    intro r st neg hst hoff hdr
    simp only [litErrOffFrom] at hoff
    have hsplit := takeWhile_split env.isDecimal r
    have hd1 : ∀ c ∈ r.takeWhile env.isDecimal, env.isDecimal c = true := fun c hc => mem_takeWhile hc
    cases hne : (r.takeWhile env.isDecimal).isEmpty with
    | true => simp [hne] at hoff
    | false =>
      have hne' : r.takeWhile env.isDecimal ≠ [] := by intro h0; rw [h0] at hne; simp at hne
      have hrun1 := litRun_digits1 env hne' hd1
      have hst1 : litRun env.isDecimal st (r.takeWhile env.isDecimal) = .int := by
        rcases hst with rfl | rfl
        · exact hrun1.1
        · exact hrun1.2
      simp only [hne, Bool.false_eq_true, if_false] at hoff
      cases hrest : r.drop (r.takeWhile env.isDecimal).length with
      | nil =>
        rw [hrest] at hoff hsplit
        left
        rw [hsplit]; simpa using hst1
      | cons x r3 =>
        rw [hrest] at hoff hsplit
        by_cases hx : x = '.'
        · subst hx
          simp only at hoff
          have hsplit3 := takeWhile_split env.isDecimal r3
          have hd2 : ∀ c ∈ r3.takeWhile env.isDecimal, env.isDecimal c = true := fun c hc => mem_takeWhile hc
          cases hne2 : (r3.takeWhile env.isDecimal).isEmpty with
          | true =>
            simp only [hne2, if_true, Option.some.injEq] at hoff
            exfalso
            have hlen : (r.drop (off - neg)).length = 0 := by rw [hdr]; rfl
            have : off - neg = (r.takeWhile env.isDecimal).length := by omega
            rw [this, hrest] at hdr; cases hdr
          | false =>
            simp only [hne2, Bool.false_eq_true, if_false, Option.some.injEq] at hoff
            have hoff' : off - neg = (r.takeWhile env.isDecimal).length + 1 + (r3.takeWhile env.isDecimal).length := by
              omega
            have hr3 : r3.drop (r3.takeWhile env.isDecimal).length = [] := by
              have h5 : r.drop (off - neg) = r3.drop (r3.takeWhile env.isDecimal).length := by
                rw [hoff', Nat.add_assoc, ← List.drop_drop, hrest, Nat.add_comm 1, ← List.drop_drop]
                simp
              rw [← h5]; exact hdr
            rw [hr3, List.append_nil] at hsplit3
            right
            rw [hsplit, litRun_append, hst1]
            have hne2' : r3.takeWhile env.isDecimal ≠ [] := by intro h0; rw [h0] at hne2; simp at hne2
            show litRun env.isDecimal .int ('.' :: r3) = .frac
            rw [hsplit3]
            cases hd : r3.takeWhile env.isDecimal with
            | nil => exact absurd hd hne2'
            | cons y ys =>
              have hy := litStep_digit env (hd2 y (by rw [hd]; exact List.mem_cons_self))
              have hys := (litRun_digits env (d := ys) (fun z hz => hd2 z (by rw [hd]; exact List.mem_cons_of_mem _ hz))).2
              have hdot : litStep env.isDecimal .int '.' = .fracE := by
                have : env.isDecimal '.' = false := by
                  cases hq : env.isDecimal '.' with
                  | false => rfl
                  | true => have := decimal_toNat env hq; simp at this
                simp [litStep, this]
              simp only [litRun, List.foldl_cons] at hys ⊢
              rw [hdot, hy.2.2.2.1]; exact hys
        · exfalso
          have hoff2 : off = neg + (r.takeWhile env.isDecimal).length := by
            cases x using Char.rec with | _ v hv => ?_
            split at hoff
            · rename_i heq; simp at heq; exact absurd (heq.1) (by intro h0; exact hx h0)
            · simpa using hoff.symm
          have : off - neg = (r.takeWhile env.isDecimal).length := by omega
          rw [this, hrest] at hdr; cases hdr
  have fin : ∀ st, (litRun env.isDecimal .start s = st) → (st = .int ∨ st = .frac) → False := by
    intro st h1 h2
    rcases h2 with rfl | rfl <;> simp [pyFloat, h1] at hfl
  cases s with
  | nil => simp [litErrOff, litErrOffFrom] at h
  | cons c r =>
    by_cases hc : c = '-'
    · subst hc
      have h' : litErrOffFrom env 1 r = some off := by simpa [litErrOff] using h
      have hoff : off ≥ 1 := by
        simp only [litErrOffFrom] at h'
        repeat' split at h'
        all_goals first | (cases h'; omega) | cases h'
      have hdr : r.drop (off - 1) = [] := by
        have : off = (off - 1) + 1 := by omega
        rw [this] at hdrop; simpa using hdrop
      have := key r .sign 1 (Or.inr rfl) h' hdr
      have hrun : litRun env.isDecimal .start ('-' :: r) = litRun env.isDecimal .sign r := by
        simp [litRun, litStep]
      exact fin _ rfl (by rw [hrun]; exact this)
    · have h' : litErrOffFrom env 0 (c :: r) = some off := by
        unfold litErrOff at h
        split at h
        · rename_i heq; simp at heq; exact absurd heq.1 hc
        · exact h
      exact fin _ rfl (key (c :: r) .start 0 (Or.inl rfl) h' (by simpa using hdrop))

theorem parsePort_no_crash {pos : Nat} {s : List Char} {er : Err} (hs : headSpecial (trim s) = true)
    (h : parsePort pos s = .error er) : er.kind = .unexpectedChar := by
  simp only [parsePort] at h
  cases ht : trim s with
  | nil => rw [ht] at hs; simp [headSpecial] at hs
  | cons c r =>
    rw [ht] at h
    simp only at h
    repeat' split at h
    all_goals first | (cases h; rfl) | cases h

theorem parseLiteral_no_crash {env : Env} {pos : Nat} {s : List Char} {er : Err}
    (h : parseLiteral env pos s = .error er) : er.kind ≠ .crash := by
  simp only [parseLiteral] at h
  split at h
  · cases h; simp
  · split at h
    · cases h
    · rename_i hl
      split at h
      · rename_i off hoff
        split at h
        · cases h; simp
        · rename_i hdrop
          exact absurd hdrop (litErrOff_lt env (by simpa using hl) hoff)
      · cases h; simp

/-- No text makes the model (hence, as far as the model mirrors it, `parse`) fail with anything but a parse error:
the two branches that would raise `IndexError` are dead. -/
theorem nocrash_aux (env : Env) : ∀ (n pos : Nat) (s : List Char) (er : Err), s.length < n →
    parseFuel env n pos s = .error er → er.kind ≠ .crash := by
  intro n
  induction n with
  | zero => intro pos s er h; omega
  | succ n ih =>
    intro pos s er hlen h
    rw [parseFuel_succ] at h
    have htt : trim (trim s) = trim s := trim_tight (trim_decomp s).choose_spec.choose_spec.2.2.2
    split at h
    · rename_i hs
      have := parsePort_no_crash (by rw [htt]; exact hs) h
      simp [this]
    · split at h
      · rcases parseCall_err env _ h with h | ⟨p, a, hla, -, hrec⟩
        · rcases h with h | h | h | h | h | h <;> simp [h]
        · have h3 := trim_length_le s
          exact ih p a er (by omega) hrec
      · exact parseLiteral_no_crash h

end QtVerif.Parse
