import QtVerif.Model.Deps
/-!
Lemmas for property C04 (expression assignments never create a dependency cycle). Core Lean only.

1. registry lemmas (`get` after `modify` / removal / registration);
2. the walk: reduction of the tree walk to a walk over the flattened list of `$id` references (`walkE_eq_walkIds`),
   the depth-first-search specification with the `seen` set (`walkIds_spec`), totality and fuel irrelevance,
   `checkLoops_loop_iff` (the walk reports a loop ⇔ the port is reachable from the candidate expression);
3. the "reads" relation between distinct existing ports, acyclicity, and its preservation by every hub operation.
-/
namespace QtVerif.Deps
open QtVerif.Syntax

/-! ### Registry lemmas -/

def Hub.Has (h : Hub) (id : String) : Prop := (h.get id).isSome = true

instance (h : Hub) (id : String) : Decidable (h.Has id) := by unfold Hub.Has; infer_instance

/-- Expression currently installed on the registered port `id`. -/
def Hub.exprOf (h : Hub) (id : String) : Option Expr := (h.get id).bind (·.expr)

/-- Ids whose value the expression of `id` reads (`get_deps()` without the `$`), in visiting order. -/
def Hub.refs (h : Hub) (id : String) : List String :=
  match h.exprOf id with
  | some e => e.portValueIds id
  | none => []

theorem get_id {h : Hub} {id : String} {p : PortEntry} (hp : h.get id = some p) : p.id = id := by
  have := List.find?_some hp
  simpa using this

theorem get_mem {h : Hub} {id : String} {p : PortEntry} (hp : h.get id = some p) : p ∈ h.ports :=
  List.mem_of_find?_eq_some hp

theorem get_modify (h : Hub) (id x : String) (f : PortEntry → PortEntry) (hf : ∀ p, (f p).id = p.id) :
    (h.modify id f).get x = (h.get x).map fun p => if p.id == id then f p else p := by
  unfold Hub.modify Hub.get
  simp only [List.find?_map]
  have : ((fun p : PortEntry => p.id == x) ∘ fun p => if (p.id == id) = true then f p else p)
      = fun p => p.id == x := by
    funext p
    simp only [Function.comp]
    split <;> simp [hf]
  rw [this]

theorem has_modify (h : Hub) (id x : String) (f : PortEntry → PortEntry) (hf : ∀ p, (f p).id = p.id) :
    (h.modify id f).Has x ↔ h.Has x := by
  unfold Hub.Has
  rw [get_modify h id x f hf]
  simp

theorem has_setExpr (h : Hub) (id x : String) (e : Option Expr) : (h.setExpr id e).Has x ↔ h.Has x :=
  has_modify h id x _ (fun _ => rfl)

theorem exprOf_setExpr_self (h : Hub) (id : String) (e : Option Expr) (hid : h.Has id) :
    (h.setExpr id e).exprOf id = e := by
  unfold Hub.exprOf Hub.setExpr
  rw [get_modify h id id (fun p => { p with expr := e }) (fun _ => rfl)]
  unfold Hub.Has at hid
  cases hx : h.get id with
  | none => simp [hx] at hid
  | some p => simp [get_id hx]

theorem exprOf_setExpr_other (h : Hub) (id x : String) (e : Option Expr) (hx : x ≠ id) :
    (h.setExpr id e).exprOf x = h.exprOf x := by
  unfold Hub.exprOf Hub.setExpr
  rw [get_modify h id x (fun p => { p with expr := e }) (fun _ => rfl)]
  cases hg : h.get x with
  | none => simp
  | some p =>
    have : ¬ p.id = id := by rw [get_id hg]; exact hx
    simp [this]

theorem exprOf_setEnabled (h : Hub) (id x : String) (v : Bool) :
    (h.modify id fun p => { p with enabled := v }).exprOf x = h.exprOf x := by
  unfold Hub.exprOf
  rw [get_modify h id x (fun p => { p with enabled := v }) (fun _ => rfl)]
  cases hx : h.get x with
  | none => simp
  | some p => simp only [Option.map_some, Option.bind_some]; split <;> rfl

theorem get_remove (h : Hub) (id x : String) :
    (Hub.mk (h.ports.filter fun p => !(p.id == id))).get x = if x = id then none else h.get x := by
  unfold Hub.get
  simp only [List.find?_filter]
  by_cases hxi : x = id
  · subst hxi
    simp only [if_true]
    rw [List.find?_eq_none]
    intro p _
    simp
  · simp only [hxi, if_false]
    congr 1
    funext p
    by_cases hp : p.id = x
    · simp [hp, hxi]
    · simp [hp]

theorem get_add (h : Hub) (id x : String) (en : Bool) (hn : h.get id = none) :
    (register h id en).get x = if x = id then some ⟨id, en, none⟩ else h.get x := by
  unfold register Hub.get at *
  simp only [List.find?_append]
  by_cases hxi : x = id
  · subst hxi
    simp [hn]
  · have : ¬ id = x := fun e => hxi e.symm
    simp [hxi, this]


/-! ### The walk as a walk over reference lists -/

/-- The walk over a list of `$id` references (what `walkE` does to `e.portValueIds owner`, see `walkE_eq_walkIds`). -/
def walkIds (h : Hub) (target : String) (enter : List String → Nat → String → Expr → Res) :
    List String → Nat → List String → Res
  | seen, _, [] => some (0, seen)
  | seen, level, q :: rest =>
    match visit h target enter seen level q with
    | none => none
    | some (lv, seen') => if lv ≠ 0 then some (lv, seen') else walkIds h target enter seen' level rest

theorem walkIds_single (h : Hub) (t : String) (enter) (seen : List String) (level : Nat) (q : String) :
    walkIds h t enter seen level [q] = visit h t enter seen level q := by
  simp only [walkIds]
  cases visit h t enter seen level q with
  | none => rfl
  | some r =>
    obtain ⟨lv, s'⟩ := r
    by_cases hlv : lv = 0
    · simp [hlv]
    · simp [hlv]

theorem walkIds_append (h : Hub) (t : String) (enter) (level : Nat) (a b : List String) :
    ∀ seen, walkIds h t enter seen level (a ++ b) =
      match walkIds h t enter seen level a with
      | none => none
      | some (lv, seen') => if lv ≠ 0 then some (lv, seen') else walkIds h t enter seen' level b := by
  induction a with
  | nil => intro seen; simp [walkIds]
  | cons q a ih =>
    intro seen
    simp only [List.cons_append, walkIds]
    cases visit h t enter seen level q with
    | none => rfl
    | some r =>
      obtain ⟨lv, s'⟩ := r
      by_cases hlv : lv = 0
      · simp only [hlv, ne_eq, not_true_eq_false, if_false]; exact ih s'
      · simp [hlv]

mutual
theorem walkE_eq_walkIds (h : Hub) (t : String) (enter) :
    ∀ (e : Expr) (seen : List String) (level : Nat) (owner : String),
      walkE h t enter seen level owner e = walkIds h t enter seen level (e.portValueIds owner)
  | .portVal id, seen, level, owner => by
    rw [walkE, Expr.portValueIds, walkIds_single]
  | .selfVal, seen, level, owner => by
    rw [walkE, Expr.portValueIds, walkIds_single]
  | .call _ args, seen, level, owner => by
    rw [walkE, Expr.portValueIds]; exact walkL_eq_walkIds h t enter args seen level owner
  | .lit _, seen, level, owner => by simp [walkE, Expr.portValueIds, walkIds]
  | .portRef _, seen, level, owner => by simp [walkE, Expr.portValueIds, walkIds]
  | .selfRef, seen, level, owner => by simp [walkE, Expr.portValueIds, walkIds]
theorem walkL_eq_walkIds (h : Hub) (t : String) (enter) :
    ∀ (args : List Expr) (seen : List String) (level : Nat) (owner : String),
      walkL h t enter seen level owner args = walkIds h t enter seen level (argsPortValueIds owner args)
  | [], seen, level, owner => by simp [walkL, argsPortValueIds, walkIds]
  | a :: rest, seen, level, owner => by
    rw [walkL, argsPortValueIds, walkIds_append, walkE_eq_walkIds h t enter a]
    cases walkIds h t enter seen level (a.portValueIds owner) with
    | none => rfl
    | some r =>
      obtain ⟨lv, s'⟩ := r
      simp only []
      rw [walkL_eq_walkIds h t enter rest]
end

theorem walk_succ (h : Hub) (t : String) (f : Nat) (seen : List String) (level : Nat) (owner : String) (e : Expr) :
    walk h t (f + 1) seen level owner e = walkIds h t (walk h t f) seen level (e.portValueIds owner) := by
  rw [walk, walkE_eq_walkIds]

/-! ### Termination measure: registered ports not yet in `seen` -/

theorem filter_length_le {α} (l : List α) (P Q : α → Bool) (hPQ : ∀ x, P x = true → Q x = true) :
    (l.filter P).length ≤ (l.filter Q).length := by
  induction l with
  | nil => simp
  | cons a l ih =>
    simp only [List.filter_cons]
    by_cases hP : P a = true
    · simp only [hP, hPQ a hP, if_true, List.length_cons]; omega
    · by_cases hQ : Q a = true
      · simp only [hP, hQ, if_true, List.length_cons]; simp only [Bool.false_eq_true, if_false]; omega
      · simp only [hP, hQ]; exact ih

theorem filter_length_lt {α} (l : List α) (P Q : α → Bool) (hPQ : ∀ x, P x = true → Q x = true)
    (a : α) (ha : a ∈ l) (hQa : Q a = true) (hPa : ¬ P a = true) :
    (l.filter P).length < (l.filter Q).length := by
  induction l with
  | nil => cases ha
  | cons b l ih =>
    simp only [List.filter_cons]
    rcases List.mem_cons.mp ha with rfl | hmem
    · have := filter_length_le l P Q hPQ
      have hPa' : P a = false := by simpa using hPa
      simp only [hPa', hQa, if_true, Bool.false_eq_true, if_false, List.length_cons]; omega
    · have := ih hmem
      by_cases hP : P b = true
      · simp only [hP, hPQ b hP, if_true, List.length_cons]; omega
      · by_cases hQ : Q b = true
        · simp only [hP, hQ, if_true, List.length_cons]; simp only [Bool.false_eq_true, if_false]; omega
        · simp only [hP, hQ]; exact this

/-- Number of registered ports that are not in `seen`. -/
def unseen (h : Hub) (seen : List String) : Nat := (h.ports.filter fun p => decide (p.id ∉ seen)).length

theorem unseen_le_length (h : Hub) (seen : List String) : unseen h seen ≤ h.ports.length :=
  List.length_filter_le _ _

theorem unseen_mono (h : Hub) {seen seen' : List String} (hs : ∀ x ∈ seen, x ∈ seen') :
    unseen h seen' ≤ unseen h seen := by
  apply filter_length_le
  intro p hp
  simp only [decide_eq_true_eq] at *
  exact fun hin => hp (hs _ hin)

theorem unseen_lt (h : Hub) {seen : List String} {q : String} {p : PortEntry} (hq : h.get q = some p)
    (hns : q ∉ seen) : unseen h (q :: seen) < unseen h seen := by
  apply filter_length_lt _ _ _ _ p (get_mem hq)
  · simp only [decide_eq_true_eq, get_id hq]; exact hns
  · simp [get_id hq]
  · intro x hx
    simp only [decide_eq_true_eq] at *
    exact fun hin => hx (List.mem_cons_of_mem _ hin)

/-! ### Depth-first search with the `seen` set: specification -/

/-- Edge followed by the walk: the expression of the registered port `q` contains `$r` (or `$` when `r = q`) and
`r` is registered. -/
def Edge (h : Hub) (q r : String) : Prop := r ∈ h.refs q ∧ h.Has r

/-- `Reach h t q`: `t` is reachable from `q` along walk edges (zero or more). -/
inductive Reach (h : Hub) (t : String) : String → Prop
  | here : Reach h t t
  | step {q r : String} : Edge h q r → Reach h t r → Reach h t q

/-- What one call of the walk guarantees: `seen` only grows; when it returns 0, every registered reference was
visited, none of them is the target below level 1, and every port added to `seen` is *finished* (all its references
are in `seen'` and none is the target); when it returns `lv ≠ 0`, `lv > 1` and the target is reachable. -/
structure Spec (h : Hub) (t : String) (seen : List String) (level : Nat) (ids : List String) (lv : Nat)
    (seen' : List String) : Prop where
  sub : ∀ x ∈ seen, x ∈ seen'
  zero_roots : lv = 0 → ∀ q ∈ ids, h.Has q → q ∈ seen' ∧ (1 < level → q ≠ t)
  zero_closed : lv = 0 → ∀ x ∈ seen', x ∉ seen → ∀ y, Edge h x y → y ∈ seen' ∧ y ≠ t
  hit : lv ≠ 0 → 1 < lv ∧ ∃ q ∈ ids, h.Has q ∧ (level ≤ 1 → q ≠ t) ∧ Reach h t q

/-- Induction hypothesis on the recursive call: it terminates and meets `Spec` whenever fewer than `f` registered
ports are unseen. -/
def EnterOk (h : Hub) (t : String) (enter : List String → Nat → String → Expr → Res) (f : Nat) : Prop :=
  ∀ seen level owner e, t ∈ seen → 1 ≤ level → unseen h seen < f →
    ∃ lv seen', enter seen level owner e = some (lv, seen') ∧ Spec h t seen level (e.portValueIds owner) lv seen'

theorem refs_of_get {h : Hub} {q : String} {p : PortEntry} (hq : h.get q = some p) :
    h.refs q = match p.expr with | some e => e.portValueIds q | none => [] := by
  unfold Hub.refs Hub.exprOf
  rw [hq]
  rfl

theorem visit_spec (h : Hub) (t : String) (enter) (f : Nat) (ih : EnterOk h t enter f)
    (seen : List String) (level : Nat) (q : String) (ht : t ∈ seen) (hl : 1 ≤ level)
    (hf : unseen h seen < f + 1) :
    ∃ lv seen', visit h t enter seen level q = some (lv, seen') ∧ Spec h t seen level [q] lv seen' := by
  unfold visit
  cases hq : h.get q with
  | none =>
    refine ⟨0, seen, rfl, fun _ hx => hx, ?_, ?_, fun hne => absurd rfl hne⟩
    · intro _ q' hq' hhas
      rw [List.mem_singleton] at hq'
      subst hq'
      simp [Hub.Has, hq] at hhas
    · intro _ x hx hnx
      exact absurd hx hnx
  | some p =>
    have hhas : h.Has q := by simp [Hub.Has, hq]
    simp only []
    by_cases hhit : q = t ∧ 1 < level
    · rw [if_pos hhit]
      refine ⟨level, seen, rfl, fun _ hx => hx, ?_, ?_, ?_⟩
      · intro h0; omega
      · intro h0; omega
      · intro _
        refine ⟨hhit.2, q, List.mem_singleton.mpr rfl, hhas, fun hl => by omega, ?_⟩
        rw [hhit.1]; exact Reach.here
    · rw [if_neg hhit]
      by_cases hseen : q ∈ seen
      · rw [if_pos hseen]
        refine ⟨0, seen, rfl, fun _ hx => hx, ?_, ?_, fun hne => absurd rfl hne⟩
        · intro _ q' hq' _
          rw [List.mem_singleton] at hq'
          subst hq'
          exact ⟨hseen, fun hl hqt => hhit ⟨hqt, hl⟩⟩
        · intro _ x hx hnx
          exact absurd hx hnx
      · rw [if_neg hseen]
        have hqt : q ≠ t := fun e => hseen (e ▸ ht)
        have hrefs := refs_of_get hq
        cases hexpr : p.expr with
        | none =>
          rw [hexpr] at hrefs
          refine ⟨0, q :: seen, rfl, fun _ hx => List.mem_cons_of_mem _ hx, ?_, ?_, fun hne => absurd rfl hne⟩
          · intro _ q' hq' _
            rw [List.mem_singleton] at hq'
            subst hq'
            exact ⟨List.mem_cons_self, fun _ => hqt⟩
          · intro _ x hx hnx y hedge
            rcases List.mem_cons.mp hx with rfl | hx'
            · have := hedge.1
              rw [hrefs] at this
              cases this
            · exact absurd hx' hnx
        | some e =>
          rw [hexpr] at hrefs
          simp only []
          have hlt := unseen_lt h hq hseen
          obtain ⟨lv, s', hrun, hspec⟩ :=
            ih (q :: seen) (level + 1) q e (List.mem_cons_of_mem _ ht) (by omega) (by omega)
          refine ⟨lv, s', hrun, fun x hx => hspec.sub x (List.mem_cons_of_mem _ hx), ?_, ?_, ?_⟩
          · intro h0 q' hq' _
            rw [List.mem_singleton] at hq'
            subst hq'
            exact ⟨hspec.sub _ List.mem_cons_self, fun _ => hqt⟩
          · intro h0 x hx hnx y hedge
            by_cases hxq : x = q
            · subst hxq
              have hy : y ∈ e.portValueIds x := by have := hedge.1; rwa [hrefs] at this
              have := hspec.zero_roots h0 y hy hedge.2
              exact ⟨this.1, this.2 (by omega)⟩
            · refine hspec.zero_closed h0 x hx ?_ y hedge
              intro hmem
              rcases List.mem_cons.mp hmem with e1 | e2
              · exact hxq e1
              · exact hnx e2
          · intro hne
            obtain ⟨hlv, r, hr, hrhas, _, hreach⟩ := hspec.hit hne
            refine ⟨hlv, q, List.mem_singleton.mpr rfl, hhas, fun _ => hqt, ?_⟩
            exact Reach.step ⟨by rw [hrefs]; exact hr, hrhas⟩ hreach

theorem walkIds_spec (h : Hub) (t : String) (enter) (f : Nat) (ih : EnterOk h t enter f) (level : Nat)
    (hl : 1 ≤ level) :
    ∀ (ids seen : List String), t ∈ seen → unseen h seen < f + 1 →
      ∃ lv seen', walkIds h t enter seen level ids = some (lv, seen') ∧ Spec h t seen level ids lv seen' := by
  intro ids
  induction ids with
  | nil =>
    intro seen _ _
    refine ⟨0, seen, rfl, fun _ hx => hx, ?_, ?_, fun hne => absurd rfl hne⟩
    · intro _ q hq; cases hq
    · intro _ x hx hnx; exact absurd hx hnx
  | cons q rest ihl =>
    intro seen ht hf
    obtain ⟨lv1, s1, hrun1, hspec1⟩ := visit_spec h t enter f ih seen level q ht hl hf
    simp only [walkIds, hrun1]
    by_cases hlv1 : lv1 = 0
    · subst hlv1
      simp only [ne_eq, not_true_eq_false, if_false]
      have hf1 : unseen h s1 < f + 1 := Nat.lt_of_le_of_lt (unseen_mono h hspec1.sub) hf
      obtain ⟨lv2, s2, hrun2, hspec2⟩ := ihl s1 (hspec1.sub _ ht) hf1
      refine ⟨lv2, s2, hrun2, fun x hx => hspec2.sub x (hspec1.sub x hx), ?_, ?_, ?_⟩
      · intro h0 q' hq' hhas
        rcases List.mem_cons.mp hq' with rfl | hr
        · have := hspec1.zero_roots rfl q' (List.mem_singleton.mpr rfl) hhas
          exact ⟨hspec2.sub _ this.1, this.2⟩
        · exact hspec2.zero_roots h0 q' hr hhas
      · intro h0 x hx hnx y hedge
        by_cases hx1 : x ∈ s1
        · have := hspec1.zero_closed rfl x hx1 hnx y hedge
          exact ⟨hspec2.sub _ this.1, this.2⟩
        · exact hspec2.zero_closed h0 x hx hx1 y hedge
      · intro hne
        obtain ⟨hlv, r, hr, hrest⟩ := hspec2.hit hne
        exact ⟨hlv, r, List.mem_cons_of_mem _ hr, hrest⟩
    · simp only [ne_eq, hlv1, not_false_eq_true, if_true]
      refine ⟨lv1, s1, rfl, hspec1.sub, fun h0 => absurd h0 hlv1, fun h0 => absurd h0 hlv1, ?_⟩
      intro hne
      obtain ⟨hlv, r, hr, hrest⟩ := hspec1.hit hne
      rw [List.mem_singleton] at hr
      subst hr
      exact ⟨hlv, r, List.mem_cons_self, hrest⟩

/-- The walk terminates within its fuel and meets the DFS specification. -/
theorem walk_spec (h : Hub) (t : String) : ∀ f, EnterOk h t (walk h t f) f := by
  intro f
  induction f with
  | zero => intro seen level owner e _ _ hf; omega
  | succ f ih =>
    intro seen level owner e ht hl hf
    rw [walk_succ]
    exact walkIds_spec h t (walk h t f) f ih level hl _ seen ht hf

/-! ### Fuel: more never changes the result -/

theorem visit_mono (h : Hub) (t : String) (enter enter' : List String → Nat → String → Expr → Res)
    (hm : ∀ s l o e r, enter s l o e = some r → enter' s l o e = some r)
    (seen : List String) (level : Nat) (q : String) (r : Nat × List String) :
    visit h t enter seen level q = some r → visit h t enter' seen level q = some r := by
  unfold visit
  cases h.get q with
  | none => exact id
  | some p =>
    simp only []
    split
    · exact id
    · split
      · exact id
      · cases p.expr with
        | none => exact id
        | some e => exact hm _ _ _ _ _

theorem walkIds_mono (h : Hub) (t : String) (enter enter' : List String → Nat → String → Expr → Res)
    (hm : ∀ s l o e r, enter s l o e = some r → enter' s l o e = some r) (level : Nat) :
    ∀ (ids seen : List String) (r : Nat × List String),
      walkIds h t enter seen level ids = some r → walkIds h t enter' seen level ids = some r := by
  intro ids
  induction ids with
  | nil => intro seen r; exact id
  | cons q rest ih =>
    intro seen r
    simp only [walkIds]
    cases hv : visit h t enter seen level q with
    | none => intro hc; cases hc
    | some r1 =>
      rw [visit_mono h t enter enter' hm seen level q r1 hv]
      obtain ⟨lv, s'⟩ := r1
      simp only []
      split
      · exact id
      · exact ih s' r

theorem walk_fuel_mono (h : Hub) (t : String) :
    ∀ f seen level owner e r, walk h t f seen level owner e = some r → walk h t (f + 1) seen level owner e = some r := by
  intro f
  induction f with
  | zero => intro seen level owner e r hc; cases hc
  | succ f ih =>
    intro seen level owner e r
    rw [walk_succ, walk_succ]
    exact walkIds_mono h t _ _ ih level _ seen r

theorem walk_fuel_le (h : Hub) (t : String) {f f' : Nat} (hle : f ≤ f') :
    ∀ seen level owner e r, walk h t f seen level owner e = some r → walk h t f' seen level owner e = some r := by
  induction hle with
  | refl => intro _ _ _ _ _ hr; exact hr
  | step _ ih => intro s l o e r hr; exact walk_fuel_mono h t _ s l o e r (ih s l o e r hr)

/-- Totality: with more fuel than unseen registered ports the walk never runs out. -/
theorem walk_total (h : Hub) (t : String) (f : Nat) (seen : List String) (level : Nat) (owner : String) (e : Expr)
    (ht : t ∈ seen) (hl : 1 ≤ level) (hf : unseen h seen < f) : walk h t f seen level owner e ≠ none := by
  obtain ⟨lv, s', hrun, _⟩ := walk_spec h t f seen level owner e ht hl hf
  rw [hrun]; exact fun hc => nomatch hc

/-- Fuel irrelevance: any two sufficient amounts of fuel give the same result. -/
theorem walk_fuel_irrelevant (h : Hub) (t : String) (f f' : Nat) (seen : List String) (level : Nat) (owner : String)
    (e : Expr) (ht : t ∈ seen) (hl : 1 ≤ level) (hf : unseen h seen < f) (hf' : unseen h seen < f') :
    walk h t f seen level owner e = walk h t f' seen level owner e := by
  obtain ⟨lv, s', hrun, _⟩ := walk_spec h t f seen level owner e ht hl hf
  obtain ⟨lv', s'', hrun', _⟩ := walk_spec h t f' seen level owner e ht hl hf'
  rcases Nat.le_total f f' with hle | hle
  · rw [hrun, walk_fuel_le h t hle _ _ _ _ _ hrun]
  · rw [hrun', walk_fuel_le h t hle _ _ _ _ _ hrun']

/-! ### `check_loops` decides reachability -/

theorem unseen_target_lt (h : Hub) (t : String) : unseen h [t] < h.ports.length + 1 :=
  Nat.lt_succ_of_le (unseen_le_length h [t])

theorem checkLoops_ne_fuel (h : Hub) (t : String) (e : Expr) : checkLoops h t e ≠ .fuel := by
  unfold checkLoops
  obtain ⟨lv, s', hrun, _⟩ :=
    walk_spec h t _ [t] 1 t e List.mem_cons_self (Nat.le_refl 1) (unseen_target_lt h t)
  rw [hrun]
  simp only []
  split <;> exact fun hc => nomatch hc

/-- A finished set not containing the target never reaches it. -/
theorem closed_no_reach (h : Hub) (t : String) (s : List String)
    (hclosed : ∀ x ∈ s, x ≠ t → ∀ y, Edge h x y → y ∈ s ∧ y ≠ t) :
    ∀ x, Reach h t x → x ∈ s → x ≠ t → False := by
  intro x hr
  induction hr with
  | here => intro _ hne; exact hne rfl
  | step hedge _ ih =>
    intro hx hne
    have := hclosed _ hx hne _ hedge
    exact ih this.1 this.2

/-- **DFS correctness.** `check_loops(port, e)` raises `CircularDependency` iff `e` contains a reference `$q` to a
registered port `q ≠ port` from which `port` is reachable through the installed expressions of registered ports. -/
theorem checkLoops_loop_iff (h : Hub) (t : String) (e : Expr) :
    checkLoops h t e = .loop ↔ ∃ q ∈ e.portValueIds t, q ≠ t ∧ h.Has q ∧ Reach h t q := by
  unfold checkLoops
  obtain ⟨lv, s', hrun, hspec⟩ :=
    walk_spec h t _ [t] 1 t e List.mem_cons_self (Nat.le_refl 1) (unseen_target_lt h t)
  rw [hrun]
  simp only []
  by_cases hlv : lv = 0
  · subst hlv
    simp only [Nat.not_lt_zero, if_false]
    constructor
    · intro hc; cases hc
    · rintro ⟨q, hq, hqt, hhas, hreach⟩
      exfalso
      have hroots := hspec.zero_roots rfl q hq hhas
      refine closed_no_reach h t s' ?_ q hreach hroots.1 hqt
      intro x hx hxt y hedge
      exact hspec.zero_closed rfl x hx (by simpa using hxt) y hedge
  · obtain ⟨hgt, q, hq, hhas, hqt, hreach⟩ := hspec.hit hlv
    simp only [hgt, if_true, true_iff]
    exact ⟨q, hq, hqt (Nat.le_refl 1), hhas, hreach⟩

theorem checkLoops_ok_iff (h : Hub) (t : String) (e : Expr) :
    checkLoops h t e = .ok ↔ ¬ ∃ q ∈ e.portValueIds t, q ≠ t ∧ h.Has q ∧ Reach h t q := by
  rw [← checkLoops_loop_iff]
  have := checkLoops_ne_fuel h t e
  cases hc : checkLoops h t e <;> simp_all

/-! ### The "reads the value of" relation between distinct registered ports; acyclicity -/

/-- `p` reads the value of `q`: both registered, distinct, and the expression installed on `p` contains `$q`. -/
def Reads (h : Hub) (p q : String) : Prop := q ≠ p ∧ h.Has p ∧ h.Has q ∧ q ∈ h.refs p

/-- Non-empty paths (transitive closure). -/
inductive TG {α : Type} (R : α → α → Prop) : α → α → Prop
  | single {a b : α} : R a b → TG R a b
  | cons {a b c : α} : R a b → TG R b c → TG R a c

theorem TG.trans {α : Type} {R : α → α → Prop} {a b c : α} (h1 : TG R a b) (h2 : TG R b c) : TG R a c := by
  induction h1 with
  | single r => exact TG.cons r h2
  | cons r _ ih => exact TG.cons r (ih h2)

theorem TG.mono {α : Type} {R S : α → α → Prop} (hRS : ∀ a b, R a b → S a b) {a b : α} (h1 : TG R a b) : TG S a b := by
  induction h1 with
  | single r => exact TG.single (hRS _ _ r)
  | cons r _ ih => exact TG.cons (hRS _ _ r) ih

theorem TG.source {α : Type} {R : α → α → Prop} {a b : α} (h1 : TG R a b) : ∃ c, R a c := by
  cases h1 with
  | single r => exact ⟨_, r⟩
  | cons r _ => exact ⟨_, r⟩

/-- No non-empty path `p → … → p` in the reads relation among distinct registered ports. -/
def Acyclic (h : Hub) : Prop := ∀ p, ¬ TG (Reads h) p p

theorem acyclic_of_reads_sub {h h' : Hub} (hsub : ∀ p q, Reads h' p q → Reads h p q) (ha : Acyclic h) : Acyclic h' :=
  fun p hc => ha p (TG.mono hsub hc)

theorem has_of_refs {h : Hub} {p q : String} (hq : q ∈ h.refs p) : h.Has p := by
  unfold Hub.refs Hub.exprOf at hq
  unfold Hub.Has
  cases hg : h.get p with
  | none => simp [hg] at hq
  | some _ => rfl

theorem reach_of_tg {h : Hub} {t q : String} (hp : TG (Reads h) q t) : Reach h t q := by
  induction hp with
  | single r => exact Reach.step ⟨r.2.2.2, r.2.2.1⟩ Reach.here
  | cons r _ ih => exact Reach.step ⟨r.2.2.2, r.2.2.1⟩ ih

theorem tg_of_reach {h : Hub} {t q : String} (hr : Reach h t q) : q = t ∨ TG (Reads h) q t := by
  induction hr with
  | here => exact Or.inl rfl
  | @step q r hedge _ ih =>
    by_cases hqr : r = q
    · subst hqr; exact ih
    · have hreads : Reads h q r := ⟨hqr, has_of_refs hedge.1, hedge.2, hedge.1⟩
      rcases ih with rfl | htg
      · exact Or.inr (TG.single hreads)
      · exact Or.inr (TG.cons hreads htg)

/-- Reachability of `t` does not depend on the expression installed on `t` itself. -/
theorem reach_congr {h h' : Hub} {t : String} (hhas : ∀ x, h.Has x → h'.Has x)
    (hrefs : ∀ x, x ≠ t → h.refs x = h'.refs x) : ∀ q, Reach h t q → Reach h' t q := by
  intro q hr
  induction hr with
  | here => exact Reach.here
  | @step q r hedge _ ih =>
    by_cases hqt : q = t
    · subst hqt; exact Reach.here
    · exact Reach.step ⟨by rw [← hrefs q hqt]; exact hedge.1, hhas _ hedge.2⟩ ih

theorem refs_setExpr_other (h : Hub) (id x : String) (e : Option Expr) (hx : x ≠ id) :
    (h.setExpr id e).refs x = h.refs x := by
  unfold Hub.refs; rw [exprOf_setExpr_other h id x e hx]

theorem refs_setExpr_self (h : Hub) (id : String) (e : Expr) (hid : h.Has id) :
    (h.setExpr id (some e)).refs id = e.portValueIds id := by
  unfold Hub.refs; rw [exprOf_setExpr_self h id _ hid]

theorem refs_clear_self (h : Hub) (id : String) (hid : h.Has id) : (h.setExpr id none).refs id = [] := by
  unfold Hub.refs; rw [exprOf_setExpr_self h id _ hid]

/-- Paths of the new graph either avoid the edges out of `t` (and are paths of the old graph) or pass through `t`. -/
theorem tg_split {R R' : String → String → Prop} {t : String} (hsame : ∀ a b, a ≠ t → R' a b → R a b) {x y : String}
    (hp : TG R' x y) : TG R x y ∨ ((x = t ∨ TG R' x t) ∧ TG R' t y) := by
  induction hp with
  | @single a b r =>
    by_cases hat : a = t
    · subst hat; exact Or.inr ⟨Or.inl rfl, TG.single r⟩
    · exact Or.inl (TG.single (hsame _ _ hat r))
  | @cons a b c r rest ih =>
    by_cases hat : a = t
    · subst hat; exact Or.inr ⟨Or.inl rfl, TG.cons r rest⟩
    · rcases ih with hl | ⟨hbt, htc⟩
      · exact Or.inl (TG.cons (hsame _ _ hat r) hl)
      · refine Or.inr ⟨Or.inr ?_, htc⟩
        rcases hbt with rfl | hbt
        · exact TG.single r
        · exact TG.cons r hbt

/-- **An accepted assignment keeps the graph acyclic.** -/
theorem setExpr_acyclic (h : Hub) (t : String) (e : Expr) (ha : Acyclic h) (ht : h.Has t)
    (hok : checkLoops h t e = .ok) : Acyclic (h.setExpr t (some e)) := by
  intro p hcyc
  have hsame : ∀ a b, a ≠ t → Reads (h.setExpr t (some e)) a b → Reads h a b := by
    intro a b hat ⟨h1, h2, h3, h4⟩
    exact ⟨h1, (has_setExpr h t a _).mp h2, (has_setExpr h t b _).mp h3, by rwa [refs_setExpr_other h t a _ hat] at h4⟩
  rcases tg_split hsame hcyc with hold | ⟨hpt, htp⟩
  · exact ha p hold
  · have htt : TG (Reads (h.setExpr t (some e))) t t := by
      rcases hpt with rfl | hpt
      · exact htp
      · exact htp.trans hpt
    have hloop : checkLoops h t e = .loop := by
      rw [checkLoops_loop_iff]
      have key : ∀ q, Reads (h.setExpr t (some e)) t q → Reach (h.setExpr t (some e)) t q →
          ∃ q ∈ e.portValueIds t, q ≠ t ∧ h.Has q ∧ Reach h t q := by
        intro q hr hreach
        refine ⟨q, ?_, hr.1, (has_setExpr h t q _).mp hr.2.2.1, ?_⟩
        · have := hr.2.2.2; rwa [refs_setExpr_self h t e ht] at this
        · exact reach_congr (fun x hx => (has_setExpr h t x _).mp hx)
            (fun x hx => refs_setExpr_other h t x _ hx) q hreach
      cases htt with
      | single r => exact absurd rfl r.1
      | cons r rest => exact key _ r (reach_of_tg rest)
    rw [hloop] at hok
    cases hok

/-- **No false reject.** When `check_loops` raises, installing the expression would close a cycle through the port. -/
theorem loop_closes_cycle (h : Hub) (t : String) (e : Expr) (ht : h.Has t) (hloop : checkLoops h t e = .loop) :
    TG (Reads (h.setExpr t (some e))) t t := by
  obtain ⟨q, hq, hqt, hhas, hreach⟩ := (checkLoops_loop_iff h t e).mp hloop
  have hreach' : Reach (h.setExpr t (some e)) t q :=
    reach_congr (fun x hx => (has_setExpr h t x _).mpr hx) (fun x hx => (refs_setExpr_other h t x _ hx).symm) q hreach
  have hreads : Reads (h.setExpr t (some e)) t q :=
    ⟨hqt, (has_setExpr h t t _).mpr ht, (has_setExpr h t q _).mpr hhas, by rw [refs_setExpr_self h t e ht]; exact hq⟩
  rcases tg_of_reach hreach' with rfl | htg
  · exact absurd rfl hqt
  · exact TG.cons hreads htg

/-! ### Every hub operation preserves acyclicity -/

theorem has_of_get {h : Hub} {id : String} {p : PortEntry} (hg : h.get id = some p) : h.Has id := by
  simp [Hub.Has, hg]

theorem not_has_of_get {h : Hub} {id : String} (hg : h.get id = none) : ¬ h.Has id := by
  simp [Hub.Has, hg]

theorem assign_acyclic (h : Hub) (id : String) (parsed : Option Expr) (ha : Acyclic h) :
    Acyclic (assign h id parsed).1 := by
  unfold assign
  cases hg : h.get id with
  | none => exact ha
  | some p =>
    cases parsed with
    | none => exact ha
    | some e =>
      simp only []
      cases hc : checkLoops h id e with
      | loop => exact ha
      | fuel => exact ha
      | ok => exact setExpr_acyclic h id e ha (has_of_get hg) hc

theorem clear_acyclic (h : Hub) (id : String) (ha : Acyclic h) : Acyclic (clear h id).1 := by
  unfold clear
  cases hg : h.get id with
  | none => exact ha
  | some p =>
    refine acyclic_of_reads_sub ?_ ha
    intro a b ⟨h1, h2, h3, h4⟩
    refine ⟨h1, (has_setExpr h id a _).mp h2, (has_setExpr h id b _).mp h3, ?_⟩
    by_cases hai : a = id
    · subst hai; rw [refs_clear_self h a (has_of_get hg)] at h4; cases h4
    · rwa [refs_setExpr_other h id a _ hai] at h4

theorem setEnabled_acyclic (h : Hub) (id : String) (v : Bool) (ha : Acyclic h) : Acyclic (setEnabled h id v).1 := by
  unfold setEnabled
  cases hg : h.get id with
  | none => exact ha
  | some p =>
    refine acyclic_of_reads_sub ?_ ha
    intro a b ⟨h1, h2, h3, h4⟩
    refine ⟨h1, (has_modify h id a (fun p => { p with enabled := v }) (fun _ => rfl)).mp h2,
      (has_modify h id b (fun p => { p with enabled := v }) (fun _ => rfl)).mp h3, ?_⟩
    unfold Hub.refs at h4 ⊢
    rwa [exprOf_setEnabled] at h4

theorem removePort_acyclic (h : Hub) (id : String) (ha : Acyclic h) : Acyclic (removePort h id).1 := by
  unfold removePort
  cases hg : h.get id with
  | none => exact ha
  | some p =>
    refine acyclic_of_reads_sub ?_ ha
    have hhas : ∀ x, (Hub.mk (h.ports.filter fun p => !(p.id == id))).Has x → x ≠ id ∧ h.Has x := by
      intro x hx
      unfold Hub.Has at hx ⊢
      rw [get_remove] at hx
      by_cases hxi : x = id
      · simp [hxi] at hx
      · simp only [hxi, if_false] at hx; exact ⟨hxi, hx⟩
    intro a b ⟨h1, h2, h3, h4⟩
    refine ⟨h1, (hhas a h2).2, (hhas b h3).2, ?_⟩
    unfold Hub.refs Hub.exprOf at h4 ⊢
    rw [get_remove] at h4
    simpa [(hhas a h2).1] using h4

theorem register_acyclic (h : Hub) (id : String) (en : Bool) (hg : h.get id = none) (ha : Acyclic h) :
    Acyclic (register h id en) := by
  -- the new port has no expression: every edge of the new graph starts at an old port
  have hrefs : ∀ x, (register h id en).refs x = h.refs x := by
    intro x
    unfold Hub.refs Hub.exprOf
    rw [get_add h id x en hg]
    by_cases hxi : x = id
    · subst hxi; simp [hg]
    · simp [hxi]
  have hhas : ∀ x, (register h id en).Has x → x ≠ id → h.Has x := by
    intro x hx hxi
    unfold Hub.Has at hx ⊢
    rw [get_add h id x en hg] at hx
    simpa [hxi] using hx
  have hsrc : ∀ a b, Reads (register h id en) a b → a ≠ id ∧ h.Has a := by
    intro a b ⟨_, _, _, h4⟩
    rw [hrefs] at h4
    have := has_of_refs h4
    exact ⟨fun hai => not_has_of_get hg (hai ▸ this), this⟩
  have hold : ∀ x y, TG (Reads (register h id en)) x y → y ≠ id → TG (Reads h) x y := by
    intro x y hp
    induction hp with
    | @single a b r =>
      intro hb
      exact TG.single ⟨r.1, (hsrc a b r).2, hhas b r.2.2.1 hb, by have := r.2.2.2; rwa [hrefs] at this⟩
    | @cons a b c r rest ih =>
      intro hc
      obtain ⟨d, hd⟩ := rest.source
      have hb : b ≠ id := (hsrc b d hd).1
      exact TG.cons ⟨r.1, (hsrc a b r).2, hhas b r.2.2.1 hb, by have := r.2.2.2; rwa [hrefs] at this⟩ (ih hc)
  intro p hcyc
  obtain ⟨d, hd⟩ := hcyc.source
  exact ha p (hold p p hcyc (hsrc p d hd).1)

theorem addPort_acyclic (h : Hub) (id : String) (ha : Acyclic h) : Acyclic (addPort h id).1 := by
  unfold addPort
  cases hg : h.get id with
  | some p => exact ha
  | none => exact register_acyclic h id true hg ha

theorem blank_acyclic (ports : List PortEntry) : Acyclic ⟨ports.map fun p => { p with expr := none }⟩ := by
  intro x hc
  obtain ⟨d, hd⟩ := hc.source
  have h4 := hd.2.2.2
  unfold Hub.refs Hub.exprOf Hub.get at h4
  simp only [List.find?_map] at h4
  cases hf : List.find? ((fun p : PortEntry => p.id == x) ∘ fun p => { p with expr := none }) ports with
  | none => simp [hf] at h4
  | some q => simp [hf] at h4

theorem foldl_loadOne_acyclic (l : List PortEntry) : ∀ acc, Acyclic acc → Acyclic (l.foldl loadOne acc) := by
  induction l with
  | nil => intro acc ha; exact ha
  | cons p l ih =>
    intro acc ha
    simp only [List.foldl_cons]
    apply ih
    unfold loadOne
    cases p.expr with
    | none => exact ha
    | some e => exact assign_acyclic acc p.id (some e) ha

/-- A restart re-checks every persisted expression: the reloaded hub is acyclic whatever was persisted. -/
theorem reload_acyclic (h : Hub) : Acyclic (reload h) :=
  foldl_loadOne_acyclic _ _ (blank_acyclic _)

theorem empty_acyclic : Acyclic Hub.empty := by
  intro p hc
  obtain ⟨d, hd⟩ := hc.source
  have := hd.2.1
  simp [Hub.Has, Hub.get, Hub.empty] at this

theorem restoreEntry_acyclic (h : Hub) (en : Entry) (ha : Acyclic h) : Acyclic (restoreEntry h en).1 := by
  unfold restoreEntry
  have h1 := addPort_acyclic h en.id ha
  have h2 : Acyclic (match en.enabled with
      | some v => (setEnabled (addPort h en.id).1 en.id v).1
      | none => (addPort h en.id).1) := by
    cases en.enabled with
    | none => exact h1
    | some v => exact setEnabled_acyclic _ en.id v h1
  cases en.expr with
  | absent => exact h2
  | empty => exact clear_acyclic _ en.id h2
  | text parsed => exact assign_acyclic _ en.id parsed h2

theorem restoreLoop_acyclic (entries : List Entry) : ∀ h, Acyclic h → Acyclic (restoreLoop h entries).1 := by
  induction entries with
  | nil => intro h ha; exact ha
  | cons en rest ih =>
    intro h ha
    unfold restoreLoop
    have hstep := restoreEntry_acyclic h en ha
    generalize restoreEntry h en = r at hstep
    obtain ⟨h', o⟩ := r
    cases o <;> first | exact ih h' hstep | exact hstep

theorem restore_acyclic (h : Hub) (entries : List Entry) : Acyclic (restore h entries).1 :=
  restoreLoop_acyclic entries Hub.empty empty_acyclic

/-- The ports that remain when `PUT /ports` starts applying its entries hold no expression: no edge at all. -/
theorem remaining_acyclic (keep : List String) (h : Hub) : Acyclic (remaining keep h) :=
  blank_acyclic _

theorem restoreOver_acyclic (keep : List String) (h : Hub) (entries : List Entry) :
    Acyclic (restoreOver keep h entries).1 :=
  restoreLoop_acyclic entries _ (remaining_acyclic keep h)

/-- With no driver port the general restore is the all-virtual one. -/
theorem restoreOver_nil (h : Hub) (entries : List Entry) : restoreOver [] h entries = restore h entries := by
  unfold restoreOver restore remaining
  have : (h.ports.filter fun p => ([] : List String).contains p.id) = [] := by
    simp
  rw [this]
  rfl

/-- The expressions held before the restore play no part in it: whatever expression a port held (a stale one that reads
a port the backup makes read it back, say), the restore does exactly what it does on the hub without it. -/
theorem restoreOver_ignores_stale (keep : List String) (h : Hub) (id : String) (e : Option Expr) (entries : List Entry) :
    restoreOver keep (h.setExpr id e) entries = restoreOver keep h entries := by
  unfold restoreOver
  congr 1
  unfold remaining Hub.setExpr Hub.modify
  simp only [List.filter_map, List.map_map]
  have h1 : ((fun p : PortEntry => keep.contains p.id) ∘ fun p => if (p.id == id) = true then { p with expr := e } else p)
      = fun p => keep.contains p.id := by
    funext p
    simp only [Function.comp]
    split <;> rfl
  have h2 : ((fun p : PortEntry => ({ p with expr := none } : PortEntry)) ∘
      fun p => if (p.id == id) = true then { p with expr := e } else p) = fun p => { p with expr := none } := by
    funext p
    simp only [Function.comp]
    split <;> rfl
  rw [h1, h2]

/-- A restore that ends with a circular-dependency refusal was refused at one definite entry: the entries before it
were all applied, and that entry's own checked assignment reported the loop. -/
theorem restoreLoop_circular (entries : List Entry) : ∀ h, (restoreLoop h entries).2 = .circular →
    ∃ pre en post, entries = pre ++ en :: post ∧ (restoreLoop h pre).2 = .ok ∧
      (restoreEntry (restoreLoop h pre).1 en).2 = .circular := by
  induction entries with
  | nil => intro h hc; simp [restoreLoop] at hc
  | cons en rest ih =>
    intro h hc
    unfold restoreLoop at hc
    cases hr : restoreEntry h en with
    | mk h' o =>
      rw [hr] at hc
      cases o with
      | ok =>
        simp only [] at hc
        obtain ⟨pre, en', post, he, hok, hcirc⟩ := ih h' hc
        refine ⟨en :: pre, en', post, by rw [he]; rfl, ?_, ?_⟩
        · show (restoreLoop h (en :: pre)).2 = .ok
          unfold restoreLoop; rw [hr]; exact hok
        · show (restoreEntry (restoreLoop h (en :: pre)).1 en').2 = .circular
          unfold restoreLoop; rw [hr]; exact hcirc
      | circular =>
        refine ⟨[], en, rest, rfl, by simp [restoreLoop], ?_⟩
        simp only [restoreLoop]; rw [hr]
      | noSuchPort => simp at hc
      | duplicatePort => simp at hc
      | parseError => simp at hc
      | fuel => simp at hc
      | notRemovable => simp at hc

/-- The hub an entry's expression is checked against: the port added if it was not there, the `enabled` key applied. -/
def entryHub (h : Hub) (en : Entry) : Hub :=
  match en.enabled with
  | some v => (setEnabled (addPort h en.id).1 en.id v).1
  | none => (addPort h en.id).1

theorem restoreEntry_circular (h : Hub) (en : Entry) (hc : (restoreEntry h en).2 = .circular) :
    ∃ e, en.expr = .text (some e) ∧ (assign (entryHub h en) en.id (some e)).2 = .circular := by
  unfold restoreEntry at hc
  unfold entryHub
  cases hx : en.expr with
  | absent => rw [hx] at hc; simp at hc
  | empty =>
    rw [hx] at hc
    simp only [] at hc
    unfold clear at hc
    split at hc <;> simp at hc
  | text parsed =>
    rw [hx] at hc
    cases parsed with
    | none =>
      simp only [] at hc
      unfold assign at hc
      split at hc <;> simp at hc
    | some e => exact ⟨e, rfl, hc⟩

theorem step_acyclic (h : Hub) (op : Op) (ha : Acyclic h) : Acyclic (step h op).1 := by
  cases op with
  | assign id parsed => exact assign_acyclic h id parsed ha
  | clear id => exact clear_acyclic h id ha
  | addPort id => exact addPort_acyclic h id ha
  | removePort id => exact removePort_acyclic h id ha
  | setEnabled id v => exact setEnabled_acyclic h id v ha
  | reload => exact reload_acyclic h
  | restore entries => exact restore_acyclic h entries

theorem run_acyclic (ops : List Op) : ∀ h, Acyclic h → Acyclic (run h ops) := by
  induction ops with
  | nil => intro h ha; exact ha
  | cons op ops ih => intro h ha; exact ih _ (step_acyclic h op ha)

/-! ### Absent ports with a persisted record -/

theorem loadOne_acyclic (h : Hub) (r : PortEntry) (ha : Acyclic h) : Acyclic (loadOne h r) := by
  unfold loadOne
  cases r.expr with
  | none => exact ha
  | some e => exact assign_acyclic h r.id (some e) ha

theorem loadRecord_acyclic (h : Hub) (r : PortEntry) (en : Bool) (hg : h.get r.id = none) (ha : Acyclic h) :
    Acyclic (loadRecord h r en) :=
  loadOne_acyclic _ r (register_acyclic h r.id en hg ha)

theorem record_id {s : Sys} {id : String} {r : PortEntry} (hr : s.record id = some r) : r.id = id := by
  have := List.find?_some hr
  simpa using this

theorem sAdd_acyclic (s : Sys) (id : String) (ha : Acyclic s.hub) : Acyclic (sAdd s id).1.hub := by
  unfold sAdd
  cases hg : s.hub.get id with
  | some p => exact ha
  | none =>
    cases hr : s.record id with
    | none => exact addPort_acyclic s.hub id ha
    | some r => exact loadRecord_acyclic s.hub r true (by rw [record_id hr]; exact hg) ha

theorem sUnload_acyclic (s : Sys) (id : String) (ha : Acyclic s.hub) : Acyclic (sUnload s id).1.hub := by
  unfold sUnload
  cases hg : s.hub.get id with
  | none => exact ha
  | some p => exact removePort_acyclic s.hub id ha

theorem sLoad_acyclic (s : Sys) (id : String) (ha : Acyclic s.hub) : Acyclic (sLoad s id).1.hub := by
  unfold sLoad
  cases hg : s.hub.get id with
  | some p => exact ha
  | none =>
    cases hr : s.record id with
    | none => exact ha
    | some r => exact loadRecord_acyclic s.hub r r.enabled (by rw [record_id hr]; exact hg) ha

theorem sAddStatic_acyclic (s : Sys) (id : String) (ha : Acyclic s.hub) : Acyclic (sAddStatic s id).1.hub := by
  unfold sAddStatic
  cases hg : s.hub.get id with
  | some p => exact ha
  | none =>
    cases hr : s.record id with
    | none => exact register_acyclic s.hub id false hg ha
    | some r => exact loadRecord_acyclic s.hub r r.enabled (by rw [record_id hr]; exact hg) ha

theorem sRemove_acyclic (s : Sys) (id : String) (ha : Acyclic s.hub) : Acyclic (sRemove s id).1.hub := by
  unfold sRemove
  cases hg : s.hub.get id with
  | none => exact ha
  | some p =>
    simp only []
    split
    · exact ha
    · exact removePort_acyclic s.hub id ha

theorem sstep_acyclic (s : Sys) (op : SOp) (ha : Acyclic s.hub) : Acyclic (sstep s op).1.hub := by
  cases op with
  | hub op =>
    cases op with
    | assign id parsed => exact assign_acyclic s.hub id parsed ha
    | clear id => exact clear_acyclic s.hub id ha
    | removePort id => exact sRemove_acyclic s id ha
    | setEnabled id v => exact setEnabled_acyclic s.hub id v ha
    | reload => exact reload_acyclic _
    | restore entries => exact restoreOver_acyclic s.statics s.hub entries
    | addPort id => exact sAdd_acyclic s id ha
  | unload id => exact sUnload_acyclic s id ha
  | load id => exact sLoad_acyclic s id ha
  | addStatic id => exact sAddStatic_acyclic s id ha

theorem srun_acyclic (ops : List SOp) : ∀ s : Sys, Acyclic s.hub → Acyclic (srun s ops).hub := by
  induction ops with
  | nil => intro s ha; exact ha
  | cons op ops ih => intro s ha; exact ih _ (sstep_acyclic s op ha)

/-! ### Concurrent requests: interleavings of atomic check+install steps

A request is a list of micro steps: suspensions (awaits that touch no expression: sequence cancellation, attribute
reads, `main.update()`, …) and *atomic* hub operations (for an assignment: `check_loops` **and** the store to
`_expression`, executed without yielding to the event loop in between). The event loop may interleave the micro steps
of concurrent requests in any way. -/

inductive Micro
  | suspend
  | atomic (op : Op)

def microStep (h : Hub) : Micro → Hub
  | .suspend => h
  | .atomic op => (step h op).1

/-- The hub after a schedule of micro steps. -/
def runMicro (h : Hub) (sched : List Micro) : Hub := sched.foldl microStep h

/-- The hub operations of a schedule, in the order in which they are executed. -/
def atomics : List Micro → List Op
  | [] => []
  | .suspend :: rest => atomics rest
  | .atomic op :: rest => op :: atomics rest

/-- Serialisability: a schedule has the effect of its atomic operations run one after the other. -/
theorem runMicro_eq_run (sched : List Micro) : ∀ h, runMicro h sched = run h (atomics sched) := by
  induction sched with
  | nil => intro h; rfl
  | cons m rest ih =>
    intro h
    cases m with
    | suspend => exact ih h
    | atomic op => exact ih _

theorem runMicro_acyclic (sched : List Micro) (h : Hub) (ha : Acyclic h) : Acyclic (runMicro h sched) := by
  rw [runMicro_eq_run]; exact run_acyclic _ h ha

/-- `Shuffle reqs sched`: `sched` is an interleaving of the requests `reqs` (each request keeps its own order). -/
inductive Shuffle : List (List Micro) → List Micro → Prop
  | nil : Shuffle [] []
  | drop {rs : List (List Micro)} {s : List Micro} : Shuffle rs s → Shuffle ([] :: rs) s
  | take {pre post : List (List Micro)} {r s : List Micro} (x : Micro) :
      Shuffle (pre ++ r :: post) s → Shuffle (pre ++ (x :: r) :: post) (x :: s)

theorem atomics_cons_perm (x : Micro) (r : List Micro) (A B : List Op) :
    (atomics [x] ++ (A ++ atomics r ++ B)).Perm (A ++ atomics (x :: r) ++ B) := by
  cases x with
  | suspend => exact List.Perm.refl _
  | atomic op =>
    show (op :: (A ++ atomics r ++ B)).Perm (A ++ (op :: atomics r) ++ B)
    simp only [List.append_assoc, List.cons_append]
    exact List.perm_middle.symm

/-- The operations executed by an interleaving are a permutation of the operations of the requests. -/
theorem shuffle_atomics_perm {reqs : List (List Micro)} {sched : List Micro} (hs : Shuffle reqs sched) :
    (atomics sched).Perm (reqs.flatMap atomics) := by
  induction hs with
  | nil => exact List.Perm.refl _
  | drop _ ih => simpa [List.flatMap_cons, atomics] using ih
  | @take pre post r s x _ ih =>
    have h1 : atomics (x :: s) = atomics [x] ++ atomics s := by cases x <;> rfl
    rw [h1]
    simp only [List.flatMap_append, List.flatMap_cons] at ih ⊢
    refine List.Perm.trans (List.Perm.append_left _ ih) ?_
    have := atomics_cons_perm x r (List.flatMap atomics pre) (List.flatMap atomics post)
    simpa [List.append_assoc] using this

end QtVerif.Deps
