import QtVerif.Proofs.EvalTotal
/-!
C02 helper lemmas: specifications of individual functions.
* integer fragment (bool/int arguments): exact for EVERY carrier `α` — sums, products, MIN/MAX, LUT nearest point;
* order-based functions on arbitrary values under explicit strict-weak-order laws on the arguments.
-/
set_option linter.unusedSimpArgs false
set_option linter.unusedSectionVars false
namespace QtVerif.Eval
open QtVerif.Syntax QtVerif.Num
variable {α : Type} [PyFloat α]

/-! ### `sum()` / `MUL` on the integer fragment -/

/-- the integer a bool/int value stands for (0 for floats; only used under `int?.isSome`) -/
def intOf (v : Val α) : Int := v.int?.getD 0

theorem vadd_int (acc : Int) (v : Val α) (n : Int) (h : v.int? = some n) : vadd (.i acc) v = .ok (.i (acc + n)) := by
  have h0 : (Val.i acc : Val α).int? = some acc := rfl
  simp only [vadd, arith, h0, h]

theorem vmul_int (acc : Int) (v : Val α) (n : Int) (h : v.int? = some n) : vmul (.i acc) v = .ok (.i (acc * n)) := by
  have h0 : (Val.i acc : Val α).int? = some acc := rfl
  simp only [vmul, arith, h0, h]

theorem sumFold_ints (vs : List (Val α)) (h : ∀ v ∈ vs, v.int?.isSome = true) : ∀ acc : Int,
    (vs.foldl sumStep (.gen (.i acc)) = .gen (.i (acc + (vs.map intOf).sum))) ∧
    (vs.foldl sumStep (.fast acc) = .fast (acc + (vs.map intOf).sum) ∨
     vs.foldl sumStep (.fast acc) = .gen (.i (acc + (vs.map intOf).sum))) := by
  induction vs with
  | nil => intro acc; simp
  | cons v rest ih =>
    intro acc
    have hv := h v (by simp)
    obtain ⟨n, hn⟩ := Option.isSome_iff_exists.mp hv
    have ih' := ih (fun x hx => h x (List.mem_cons_of_mem _ hx))
    have hio : intOf v = n := by simp [intOf, hn]
    have e1 : sumStep (.gen (.i acc)) v = .gen (.i (acc + n)) := by
      simp [sumStep, vadd_int acc v n hn]
    constructor
    · simp only [List.foldl, e1, List.map, List.sum_cons, hio]
      rw [(ih' (acc + n)).1]; congr 2; omega
    · simp only [List.foldl, List.map, List.sum_cons, hio]
      by_cases hf : (fitsLong n && fitsLong (acc + n)) = true
      · have e2 : sumStep (.fast acc) v = .fast (acc + n) := by simp [sumStep, hn, hf]
        rw [e2]
        rcases (ih' (acc + n)).2 with h2 | h2
        · left; rw [h2]; congr 1; omega
        · right; rw [h2]; congr 2; omega
      · have e2 : sumStep (.fast acc) v = .gen (.i (acc + n)) := by simp [sumStep, hn, hf]
        rw [e2]
        right; rw [(ih' (acc + n)).1]; congr 2; omega

/-- `sum()` of bools/ints is the exact integer sum, whatever path CPython's loop takes (C-long fast path or not). -/
theorem pySum_ints (vs : List (Val α)) (h : ∀ v ∈ vs, v.int?.isSome = true) :
    pySum vs = .ok (.i ((vs.map intOf).sum)) := by
  unfold pySum
  rcases (sumFold_ints vs h 0).2 with h2 | h2 <;> rw [h2] <;> simp [sumDone]

theorem mulFold_ints_aux (vs : List (Val α)) (h : ∀ v ∈ vs, v.int?.isSome = true) : ∀ acc : Int,
    vs.foldl mulStep (.val (.i acc))
      = (.val (.i (acc * (vs.map intOf).foldl (· * ·) 1)) : Res α) := by
  induction vs with
  | nil => intro acc; simp
  | cons v rest ih =>
    intro acc
    have hv := h v (by simp)
    obtain ⟨n, hn⟩ := Option.isSome_iff_exists.mp hv
    have hio : intOf v = n := by simp [intOf, hn]
    have hok : ofExcept (Except.ok (Val.i (acc * n)) : Except Crash (Val α)) = .val (.i (acc * n)) := rfl
    simp only [List.foldl, mulStep, vmul_int acc v n hn, hok, List.map, hio]
    rw [ih (fun x hx => h x (List.mem_cons_of_mem _ hx))]
    congr 2
    have : ∀ (l : List Int) (a : Int), l.foldl (· * ·) a = a * l.foldl (· * ·) 1 := by
      intro l
      induction l with
      | nil => intro a; simp
      | cons x xs ihx => intro a; simp only [List.foldl]; rw [ihx (a * x), ihx (1 * x)]; simp [Int.mul_assoc]
    rw [this _ (1 * n)]
    simp [Int.mul_assoc]

/-! ### MIN / MAX under strict-weak-order laws on the arguments -/

/-- `<` restricted to the values of `S` is asymmetric and negatively transitive (a strict weak order): true of
bools/ints always, and of floats in the absence of NaN. -/
structure WeakOrderOn (S : List (Val α)) : Prop where
  asymm : ∀ a ∈ S, ∀ b ∈ S, vlt a b = true → vlt b a = false
  negTrans : ∀ a ∈ S, ∀ b ∈ S, ∀ c ∈ S, vlt a c = true → vlt a b = true ∨ vlt b c = true

theorem vlt_ints (a b : Val α) (m n : Int) (ha : a.int? = some m) (hb : b.int? = some n) :
    vlt a b = decide (m < n) := by
  cases a <;> cases b <;> simp_all [vlt, Val.num, Val.int?]

theorem weakOrderOn_ints (S : List (Val α)) (h : ∀ v ∈ S, v.int?.isSome = true) : WeakOrderOn S := by
  constructor
  · intro a ha b hb hab
    obtain ⟨m, hm⟩ := Option.isSome_iff_exists.mp (h a ha)
    obtain ⟨n, hn⟩ := Option.isSome_iff_exists.mp (h b hb)
    rw [vlt_ints a b m n hm hn] at hab
    rw [vlt_ints b a n m hn hm]
    simp at hab ⊢; omega
  · intro a ha b hb c hc hac
    obtain ⟨m, hm⟩ := Option.isSome_iff_exists.mp (h a ha)
    obtain ⟨n, hn⟩ := Option.isSome_iff_exists.mp (h b hb)
    obtain ⟨k, hk⟩ := Option.isSome_iff_exists.mp (h c hc)
    rw [vlt_ints a c m k hm hk] at hac
    rw [vlt_ints a b m n hm hn, vlt_ints b c n k hn hk]
    simp at hac ⊢; omega

theorem minFold_spec (S : List (Val α)) (w : WeakOrderOn S) : ∀ (l : List (Val α)) (m : Val α),
    m ∈ S → (∀ x ∈ l, x ∈ S) →
    minFold m l ∈ m :: l ∧ vlt m (minFold m l) = false ∧ ∀ x ∈ l, vlt x (minFold m l) = false := by
  intro l
  induction l with
  | nil =>
    intro m hm _
    simp only [minFold, List.mem_singleton, true_and]
    constructor
    · cases h : vlt m m
      · rfl
      · have := w.asymm m hm m hm h; rw [h] at this; cases this
    · intro x hx; cases hx
  | cons e rest ih =>
    intro m hm hl
    have he : e ∈ S := hl e (by simp)
    have hrest : ∀ x ∈ rest, x ∈ S := fun x hx => hl x (List.mem_cons_of_mem _ hx)
    simp only [minFold]
    by_cases hlt : vlt e m = true
    · simp only [hlt, if_true]
      obtain ⟨h1, h2, h3⟩ := ih e he hrest
      have hr : minFold e rest ∈ S := by
        rcases List.mem_cons.mp h1 with h | h
        · rw [h]; exact he
        · exact hrest _ h
      refine ⟨?_, ?_, ?_⟩
      · exact List.mem_cons_of_mem _ h1
      · -- m < r would give e < r by transitivity (from negative transitivity + asymmetry)
        cases hmr : vlt m (minFold e rest)
        · rfl
        · rcases w.negTrans e he (minFold e rest) hr m hm hlt with h | h
          · rw [h2] at h; cases h
          · have := w.asymm m hm _ hr hmr; rw [h] at this; cases this
      · intro x hx
        cases hx with
        | head => exact h2
        | tail _ h => exact h3 x h
    · have hlt' : vlt e m = false := by simpa using hlt
      simp only [hlt', Bool.false_eq_true, if_false]
      obtain ⟨h1, h2, h3⟩ := ih m hm hrest
      have hr : minFold m rest ∈ S := by
        rcases List.mem_cons.mp h1 with h | h
        · rw [h]; exact hm
        · exact hrest _ h
      refine ⟨?_, h2, ?_⟩
      · rcases List.mem_cons.mp h1 with h | h
        · rw [h]; exact List.mem_cons_self
        · exact List.mem_cons_of_mem _ (List.mem_cons_of_mem _ h)
      · intro x hx
        cases hx with
        | head =>
          cases her : vlt e (minFold m rest)
          · rfl
          · rcases w.negTrans e he m hm _ hr her with h | h
            · rw [hlt'] at h; cases h
            · rw [h2] at h; cases h
        | tail _ h => exact h3 x h

theorem maxFold_spec (S : List (Val α)) (w : WeakOrderOn S) : ∀ (l : List (Val α)) (m : Val α),
    m ∈ S → (∀ x ∈ l, x ∈ S) →
    maxFold m l ∈ m :: l ∧ vlt (maxFold m l) m = false ∧ ∀ x ∈ l, vlt (maxFold m l) x = false := by
  intro l
  induction l with
  | nil =>
    intro m hm _
    simp only [maxFold, List.mem_singleton, true_and]
    constructor
    · cases h : vlt m m
      · rfl
      · have := w.asymm m hm m hm h; rw [h] at this; cases this
    · intro x hx; cases hx
  | cons e rest ih =>
    intro m hm hl
    have he : e ∈ S := hl e (by simp)
    have hrest : ∀ x ∈ rest, x ∈ S := fun x hx => hl x (List.mem_cons_of_mem _ hx)
    simp only [maxFold, vgt]
    by_cases hlt : vlt m e = true
    · simp only [hlt, if_true]
      obtain ⟨h1, h2, h3⟩ := ih e he hrest
      have hr : maxFold e rest ∈ S := by
        rcases List.mem_cons.mp h1 with h | h
        · rw [h]; exact he
        · exact hrest _ h
      refine ⟨?_, ?_, ?_⟩
      · exact List.mem_cons_of_mem _ h1
      · cases hmr : vlt (maxFold e rest) m
        · rfl
        · rcases w.negTrans _ hr e he m hm hmr with h | h
          · rw [h2] at h; cases h
          · have := w.asymm m hm e he hlt; rw [h] at this; cases this
      · intro x hx
        cases hx with
        | head => exact h2
        | tail _ h => exact h3 x h
    · have hlt' : vlt m e = false := by simpa using hlt
      simp only [hlt', Bool.false_eq_true, if_false]
      obtain ⟨h1, h2, h3⟩ := ih m hm hrest
      have hr : maxFold m rest ∈ S := by
        rcases List.mem_cons.mp h1 with h | h
        · rw [h]; exact hm
        · exact hrest _ h
      refine ⟨?_, h2, ?_⟩
      · rcases List.mem_cons.mp h1 with h | h
        · rw [h]; exact List.mem_cons_self
        · exact List.mem_cons_of_mem _ (List.mem_cons_of_mem _ h)
      · intro x hx
        cases hx with
        | head =>
          cases her : vlt (maxFold m rest) e
          · rfl
          · rcases w.negTrans _ hr m hm e he her with h | h
            · rw [h2] at h; cases h
            · rw [hlt'] at h; cases h
        | tail _ h => exact h3 x h


/-! ### LUT on integer points: the y of a point nearest to x -/

/-- every point's x is a Python int -/
def IntKeys (l : List (Val α × Val α)) : Prop := ∀ p ∈ l, ∃ k : Int, p.1 = .i k

/-- the x of an integer-keyed point -/
def keyI (p : Val α × Val α) : Int := intOf p.1

theorem keyI_eq (p : Val α × Val α) (k : Int) (h : p.1 = .i k) : keyI p = k := by
  simp [keyI, intOf, h, Val.int?]

theorem vlt_i (a b : Int) : vlt (.i a : Val α) (.i b) = decide (a < b) := by simp [vlt, Val.num]
theorem vsub_i (a b : Int) : vsub (.i a : Val α) (.i b) = .ok (.i (a - b)) := by
  have h0 : ∀ n : Int, (Val.i n : Val α).int? = some n := fun _ => rfl
  simp only [vsub, arith, h0]

theorem vlt_keys (p q : Val α × Val α) (hp : ∃ k : Int, p.1 = .i k) (hq : ∃ k : Int, q.1 = .i k) :
    vlt p.1 q.1 = decide (keyI p < keyI q) := by
  obtain ⟨a, ha⟩ := hp
  obtain ⟨b, hb⟩ := hq
  rw [keyI_eq p a ha, keyI_eq q b hb, ha, hb, vlt_i]

def SortedKeys (l : List (Val α × Val α)) : Prop := l.Pairwise (fun p q => keyI p ≤ keyI q)

theorem mem_insertPt (p q : Val α × Val α) (l : List (Val α × Val α)) : q ∈ insertPt p l ↔ q = p ∨ q ∈ l := by
  induction l with
  | nil => simp [insertPt]
  | cons x rest ih =>
    simp only [insertPt]
    split
    · simp
    · simp only [List.mem_cons, ih]
      constructor
      · rintro (h | h | h)
        · exact Or.inr (Or.inl h)
        · exact Or.inl h
        · exact Or.inr (Or.inr h)
      · rintro (h | h | h)
        · exact Or.inr (Or.inl h)
        · exact Or.inl h
        · exact Or.inr (Or.inr h)

theorem insertPt_sorted (p : Val α × Val α) (l : List (Val α × Val α)) (hp : ∃ k : Int, p.1 = .i k)
    (hk : IntKeys l) (hs : SortedKeys l) : SortedKeys (insertPt p l) := by
  induction l with
  | nil => simp [insertPt, SortedKeys]
  | cons x rest ih =>
    have hx := hk x (by simp)
    have hkr : IntKeys rest := fun q hq => hk q (List.mem_cons_of_mem _ hq)
    unfold SortedKeys at hs
    rw [List.pairwise_cons] at hs
    simp only [insertPt, vlt_keys p x hp hx]
    by_cases hlt : keyI p < keyI x
    · simp only [hlt, decide_true, if_true]
      unfold SortedKeys
      rw [List.pairwise_cons]
      refine ⟨?_, List.pairwise_cons.mpr hs⟩
      intro q hq
      rcases List.mem_cons.mp hq with h | h
      · rw [h]; omega
      · have := hs.1 q h; omega
    · simp only [hlt, decide_false, Bool.false_eq_true, if_false]
      unfold SortedKeys
      rw [List.pairwise_cons]
      refine ⟨?_, ih hkr hs.2⟩
      intro q hq
      rcases (mem_insertPt p q rest).mp hq with h | h
      · rw [h]; omega
      · exact hs.1 q h

theorem sortPts_spec (l : List (Val α × Val α)) (hk : IntKeys l) :
    SortedKeys (sortPts l) ∧ ∀ q, q ∈ sortPts l ↔ q ∈ l := by
  unfold sortPts
  suffices h : ∀ (acc : List (Val α × Val α)), IntKeys acc → SortedKeys acc →
      SortedKeys (l.foldl (fun acc p => insertPt p acc) acc) ∧
      ∀ q, q ∈ l.foldl (fun acc p => insertPt p acc) acc ↔ q ∈ acc ∨ q ∈ l by
    have := h [] (by intro p hp; cases hp) (by simp [SortedKeys])
    simpa using this
  induction l with
  | nil => intro acc _ hs; simp [hs]
  | cons p rest ih =>
    intro acc hka hs
    have hp := hk p (by simp)
    have hkr : IntKeys rest := fun q hq => hk q (List.mem_cons_of_mem _ hq)
    have hka' : IntKeys (insertPt p acc) := by
      intro q hq
      rcases (mem_insertPt p q acc).mp hq with h | h
      · rw [h]; exact hp
      · exact hka q h
    obtain ⟨h1, h2⟩ := ih hkr (insertPt p acc) hka' (insertPt_sorted p acc hp hka hs)
    simp only [List.foldl]
    refine ⟨h1, ?_⟩
    intro q
    rw [h2 q, mem_insertPt]
    simp only [List.mem_cons]
    constructor
    · rintro ((h | h) | h)
      · exact Or.inr (Or.inl h)
      · exact Or.inl h
      · exact Or.inr (Or.inr h)
    · rintro (h | h | h)
      · exact Or.inl (Or.inr h)
      · exact Or.inl (Or.inl h)
      · exact Or.inr h

/-- distance on the integers -/
def idist (a b : Int) : Nat := (a - b).natAbs

/-- The scan of `LUTFunction._eval` over sorted integer points, entered with the first point at or left of `x`. -/
theorem lutGo_nearest (x : Int) : ∀ (l : List (Val α × Val α)) (p1 : Val α × Val α),
    IntKeys (p1 :: l) → SortedKeys (p1 :: l) → keyI p1 ≤ x →
    ∃ p ∈ p1 :: l, lutGo (.i x) (p1 :: l) = .val p.2 ∧
      (∀ q ∈ p1 :: l, idist x (keyI p) ≤ idist x (keyI q)) ∧
      (∀ k : Int, k ≤ keyI p1 → idist x (keyI p) ≤ idist x k) := by
  intro l
  induction l with
  | nil =>
    intro p1 _ _ h1
    refine ⟨p1, by simp, by simp [lutGo], ?_, ?_⟩
    · intro q hq; simp at hq; rw [hq]; exact Nat.le_refl _
    · intro k hk; simp only [idist]; omega
  | cons p2 rest ih =>
    intro p1 hk hs h1
    have hk1 := hk p1 (by simp)
    have hk2 := hk p2 (by simp)
    obtain ⟨a, ha⟩ := hk1
    obtain ⟨b, hb⟩ := hk2
    have ka := keyI_eq p1 a ha
    have kb := keyI_eq p2 b hb
    unfold SortedKeys at hs
    rw [List.pairwise_cons] at hs
    have h12 : keyI p1 ≤ keyI p2 := hs.1 p2 (by simp)
    have hs2 := hs.2
    rw [List.pairwise_cons] at hs2
    simp only [lutGo, vgt, hb, ha, vlt_i, vsub_i]
    by_cases hgt : b < x
    · simp only [hgt, decide_true, if_true]
      have hk' : IntKeys (p2 :: rest) := fun q hq => hk q (List.mem_cons_of_mem _ hq)
      obtain ⟨p, hp, hres, hn, hl⟩ := ih p2 hk' hs.2 (by omega)
      refine ⟨p, List.mem_cons_of_mem _ hp, ?_, ?_, ?_⟩
      · exact hres
      · intro q hq
        rcases List.mem_cons.mp hq with h | h
        · rw [h]; exact hl (keyI p1) h12
        · exact hn q h
      · intro k hk; exact hl k (by omega)
    · simp only [hgt, decide_false, Bool.false_eq_true, if_false]
      by_cases hd : x - a < b - x
      · simp only [hd, decide_true, if_true]
        refine ⟨p1, by simp, rfl, ?_, ?_⟩
        · intro q hq
          rcases List.mem_cons.mp hq with h | h
          · rw [h]; exact Nat.le_refl _
          · rcases List.mem_cons.mp h with h' | h'
            · rw [h', ka, kb]; simp only [idist]; omega
            · have := hs2.1 q h'
              rw [ka]; simp only [idist]; omega
        · intro k hk; rw [ka]; simp only [idist]; omega
      · simp only [hd, decide_false, Bool.false_eq_true, if_false]
        refine ⟨p2, by simp, rfl, ?_, ?_⟩
        · intro q hq
          rcases List.mem_cons.mp hq with h | h
          · rw [h, ka, kb]; simp only [idist]; omega
          · rcases List.mem_cons.mp h with h' | h'
            · rw [h']; exact Nat.le_refl _
            · have := hs2.1 q h'
              rw [kb]; simp only [idist]; omega
        · intro k hk; rw [kb]; simp only [idist]; omega

/-- **LUT returns the y of a point nearest to x** (integer points, every carrier). -/
theorem lut_nearest (x : Int) (pts : List (Val α × Val α)) (hk : IntKeys pts) (hne : pts ≠ []) :
    ∃ p ∈ pts, lut (.i x) pts = .val p.2 ∧ ∀ q ∈ pts, idist x (keyI p) ≤ idist x (keyI q) := by
  obtain ⟨hs, hm⟩ := sortPts_spec pts hk
  unfold lut
  have hl := sortPts_length pts
  cases hsp : sortPts pts with
  | nil => rw [hsp] at hl; simp at hl; exact absurd (List.eq_nil_of_length_eq_zero hl.symm) hne
  | cons p rest =>
    rw [hsp] at hs hm
    have hks : IntKeys (p :: rest) := fun q hq => hk q ((hm q).mp hq)
    obtain ⟨a, ha⟩ := hks p (by simp)
    have ka := keyI_eq p a ha
    simp only [ha, vlt_i]
    by_cases hlt : x < a
    · simp only [hlt, decide_true, if_true]
      refine ⟨p, (hm p).mp (by simp), rfl, ?_⟩
      intro q hq
      have hq' := (hm q).mpr hq
      unfold SortedKeys at hs
      rw [List.pairwise_cons] at hs
      rcases List.mem_cons.mp hq' with h | h
      · rw [h]; exact Nat.le_refl _
      · have := hs.1 q h
        rw [ka]; simp only [idist]; omega
    · simp only [hlt, decide_false, Bool.false_eq_true, if_false]
      obtain ⟨r, hr, hres, hn, _⟩ := lutGo_nearest x rest p hks hs (by omega)
      refine ⟨r, (hm r).mp hr, ?_, fun q hq => hn q ((hm q).mpr hq)⟩
      exact hres


/-! ### integer `%` and `round(int, -k)` -/

/-- Python's `a % b` on ints: floor-mod, the remainder takes the divisor's sign. -/
theorem fmod_spec (a b : Int) (hb : b ≠ 0) :
    (b * a.fdiv b + a.fmod b = a) ∧ (0 < b → 0 ≤ a.fmod b ∧ a.fmod b < b) ∧ (b < 0 → b < a.fmod b ∧ a.fmod b ≤ 0) := by
  refine ⟨Int.mul_fdiv_add_fmod a b, ?_, ?_⟩
  · intro hpos
    rw [Int.fmod_eq_emod]
    have h1 := Int.emod_nonneg a hb
    have h2 := Int.emod_lt_of_pos a hpos
    have : (0 ≤ b ∨ b ∣ a) := Or.inl (by omega)
    simp [this]; omega
  · intro hneg
    rw [Int.fmod_eq_emod]
    have h1 := Int.emod_nonneg a hb
    have h2 := Int.emod_lt a hb
    by_cases hd : b ∣ a
    · have : a % b = 0 := Int.emod_eq_zero_of_dvd hd
      simp [hd, this]; omega
    · have hnz : a % b ≠ 0 := fun h => hd (Int.dvd_of_emod_eq_zero h)
      have : ¬ (0 ≤ b ∨ b ∣ a) := by
        intro h; rcases h with h | h
        · omega
        · exact hd h
      simp [this]
      omega

/-- `round(n, -k)` of an int: the nearest multiple of `m = 10^k`, ties to the even multiple. -/
theorem roundIntTo_spec (n : Int) (m : Nat) (hm : 0 < m) :
    ∃ q : Int, roundIntTo n m = q * m ∧ 2 * (n - q * m) ≤ m ∧ -(m : Int) ≤ 2 * (n - q * m) ∧
      ((2 * (n - q * m) = m ∨ 2 * (n - q * m) = -(m : Int)) → q % 2 = 0) := by
  have hm' : (m : Int) ≠ 0 := by omega
  have hmp : (0 : Int) < m := by omega
  have h1 := Int.emod_nonneg n hm'
  have h2 := Int.emod_lt_of_pos n hmp
  have h3 := Int.mul_ediv_add_emod n m
  unfold roundIntTo
  have : ¬ m = 0 := by omega
  simp only [this, if_false]
  generalize hq : n / (m : Int) = q at *
  generalize hr : n % (m : Int) = r at *
  have hqm : n - q * m = r := by
    have : (m : Int) * q = q * m := Int.mul_comm _ _
    omega
  rw [hqm]
  by_cases hup : (decide (2 * r > (m : Int)) || (decide (2 * r = (m : Int)) && decide (q % 2 = 1))) = true
  · simp only [hup, if_true]
    have hup' : 2 * r > (m : Int) ∨ (2 * r = (m : Int) ∧ q % 2 = 1) := by simpa using hup
    have e : (q + 1) * (m : Int) = q * m + m := by rw [Int.add_mul]; simp
    refine ⟨q + 1, rfl, ?_, ?_, ?_⟩ <;> omega
  · simp only [hup, Bool.false_eq_true, if_false]
    have hup' : ¬ (2 * r > (m : Int) ∨ (2 * r = (m : Int) ∧ q % 2 = 1)) := by simpa using hup
    refine ⟨q, rfl, ?_, ?_, ?_⟩ <;> omega

end QtVerif.Eval
