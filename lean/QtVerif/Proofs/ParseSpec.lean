import QtVerif.Model.Parse
/-!
Specification side of property C03: the expression grammar as a relation between expression trees and texts
(`Derives`), and well-formedness of a tree with respect to a registry (`WF`). Core Lean only.

  Derives env e s   ⇔  s = ws₁ ++ core ++ ws₂ (whitespace = `str.isspace` characters) and `Core env e core`
  Core (lit t)      :  the text is `t`, non-empty and accepted by the literal grammar (`true`/`false`/`unavailable`,
                       `int()`, `float()`)
  Core (portVal id) :  `$` followed by a non-empty id over `[a-zA-Z0-9_.-]`;  `$` alone is `selfVal`; same with `@`
  Core (call n as)  :  NAME ws* `(` args `)` where NAME is a key of the registry over `[a-zA-Z0-9_]` whose entry is
                       enabled, prints as `n`, admits the number of arguments and the kind of every argument;
                       args = nothing at all for no argument (the code rejects `F( )`), else the derivations of the
                       arguments (each with its own surrounding whitespace) joined by `,`.
-/
namespace QtVerif.Parse
open QtVerif.Syntax

def AllSpace (ws : List Char) : Prop := ∀ c ∈ ws, isSpace c = true
def LitText (env : Env) (t : List Char) : Prop := t ≠ [] ∧ isLiteral env t = true
def IdText (t : List Char) : Prop := t ≠ [] ∧ ∀ c ∈ t, isIdChar c = true
def NameText (t : List Char) : Prop := ∀ c ∈ t, isNameChar c = true
def ArityOK (f : FnSpec) (n : Nat) : Prop := tooFew f n = false ∧ tooMany f n = false

instance (ws : List Char) : Decidable (AllSpace ws) := by unfold AllSpace; infer_instance
instance (env : Env) (t : List Char) : Decidable (LitText env t) := by unfold LitText; infer_instance
instance (t : List Char) : Decidable (IdText t) := by unfold IdText; infer_instance
instance (t : List Char) : Decidable (NameText t) := by unfold NameText; infer_instance
instance (f : FnSpec) (n : Nat) : Decidable (ArityOK f n) := by unfold ArityOK; infer_instance

mutual
def Core (env : Env) : Expr → List Char → Prop
  | .lit t, s => s = t.toList ∧ LitText env s
  | .portVal id, s => s = '$' :: id.toList ∧ IdText id.toList
  | .selfVal, s => s = ['$']
  | .portRef id, s => s = '@' :: id.toList ∧ IdText id.toList
  | .selfRef, s => s = ['@']
  | .call n args, s => ∃ f fname ws body, s = fname ++ ws ++ '(' :: body ++ [')'] ∧ NameText fname ∧ AllSpace ws ∧
      (fname = [] → ws = []) ∧ lookup env.reg fname = some f ∧ f.enabled = true ∧ n = String.ofList f.canon ∧
      ArityOK f args.length ∧ firstBadKind f.kinds 0 args = none ∧ DArgs env args body
def DArgs (env : Env) : List Expr → List Char → Prop
  | [], s => s = []
  | [e], s => ∃ ws1 core ws2, s = ws1 ++ core ++ ws2 ∧ AllSpace ws1 ∧ AllSpace ws2 ∧ Core env e core
  | e :: e' :: es, s => ∃ s1 body, s = s1 ++ ',' :: body ∧
      (∃ ws1 core ws2, s1 = ws1 ++ core ++ ws2 ∧ AllSpace ws1 ∧ AllSpace ws2 ∧ Core env e core) ∧
      DArgs env (e' :: es) body
end

/-- The grammar: `s` is a text of the expression `e`. -/
def Derives (env : Env) (e : Expr) (s : List Char) : Prop :=
  ∃ ws1 core ws2, s = ws1 ++ core ++ ws2 ∧ AllSpace ws1 ∧ AllSpace ws2 ∧ Core env e core

mutual
/-- Well-formed tree: what `print` must be given for its output to be a text of the grammar. -/
def WF (env : Env) : Expr → Prop
  | .lit t => LitText env t.toList
  | .portVal id => IdText id.toList
  | .selfVal => True
  | .portRef id => IdText id.toList
  | .selfRef => True
  | .call n args => ∃ f, lookup env.reg n.toList = some f ∧ f.canon = n.toList ∧ f.enabled = true ∧
      NameText n.toList ∧ ArityOK f args.length ∧ firstBadKind f.kinds 0 args = none ∧ WFArgs env args
def WFArgs (env : Env) : List Expr → Prop
  | [] => True
  | a :: rest => WF env a ∧ WFArgs env rest
end

/-- Every name that the registry prints (`cls.NAME`) is itself a key, over the name alphabet, with an entry that is
enabled and has the same arity bounds and kinds whenever the printing entry is enabled (true when every class is
registered under its own NAME). -/
def RegCanonical (reg : Registry) : Prop :=
  ∀ key f, lookup reg key = some f → f.enabled = true →
    ∃ g, lookup reg f.canon = some g ∧ g.canon = f.canon ∧ g.enabled = true ∧ NameText f.canon ∧
      g.minArgs = f.minArgs ∧ g.maxArgs = f.maxArgs ∧ g.kinds = f.kinds

end QtVerif.Parse
