import QtVerif.Model.History
/-!
Helper lemmas for property C18 (value history): sorting, the range query, "newest sample at or before t",
Python-dict association lists, the by-timestamp function with its cache, and the cache-transparency simulation.
Core Lean only.
-/
set_option autoImplicit false
namespace QtVerif.History


abbrev Asc (l : List Sample) : Prop := l.Pairwise (fun a b => a.ts ≤ b.ts)
abbrev Desc (l : List Sample) : Prop := l.Pairwise (fun a b => b.ts ≤ a.ts)

theorem insAsc_perm (x : Sample) (l : List Sample) : (insAsc x l).Perm (x :: l) := by
  induction l with
  | nil => simp [insAsc]
  | cons y ys ih =>
    simp only [insAsc]
    split
    · exact List.Perm.refl _
    · exact (List.Perm.cons y ih).trans (List.Perm.swap x y ys)

theorem sortAsc_perm (l : List Sample) : (sortAsc l).Perm l := by
  induction l with
  | nil => simp [sortAsc]
  | cons x xs ih => exact (insAsc_perm x _).trans (List.Perm.cons x ih)

theorem insAsc_sorted (x : Sample) (l : List Sample) (h : Asc l) : Asc (insAsc x l) := by
  induction l with
  | nil => simp [insAsc]
  | cons y ys ih =>
    simp only [insAsc]
    split
    · rename_i hxy
      refine List.Pairwise.cons ?_ h
      intro b hb
      rcases List.mem_cons.mp hb with rfl | hb
      · exact hxy
      · exact Int.le_trans hxy (List.rel_of_pairwise_cons h hb)
    · rename_i hxy
      have h' := List.pairwise_cons.mp h
      refine List.Pairwise.cons ?_ (ih h'.2)
      intro b hb
      have := (insAsc_perm x ys).mem_iff.mp hb
      rcases List.mem_cons.mp this with rfl | hb
      · omega
      · exact h'.1 b hb

theorem sortAsc_sorted (l : List Sample) : Asc (sortAsc l) := by
  induction l with
  | nil => simp [sortAsc]
  | cons x xs ih => exact insAsc_sorted x _ ih

theorem insDesc_perm (x : Sample) (l : List Sample) : (insDesc x l).Perm (x :: l) := by
  induction l with
  | nil => simp [insDesc]
  | cons y ys ih =>
    simp only [insDesc]
    split
    · exact List.Perm.refl _
    · exact (List.Perm.cons y ih).trans (List.Perm.swap x y ys)

theorem sortDesc_perm (l : List Sample) : (sortDesc l).Perm l := by
  induction l with
  | nil => simp [sortDesc]
  | cons x xs ih => exact (insDesc_perm x _).trans (List.Perm.cons x ih)

theorem insDesc_sorted (x : Sample) (l : List Sample) (h : Desc l) : Desc (insDesc x l) := by
  induction l with
  | nil => simp [insDesc]
  | cons y ys ih =>
    simp only [insDesc]
    split
    · rename_i hxy
      refine List.Pairwise.cons ?_ h
      intro b hb
      rcases List.mem_cons.mp hb with rfl | hb
      · exact hxy
      · exact Int.le_trans (List.rel_of_pairwise_cons h hb) hxy
    · rename_i hxy
      have h' := List.pairwise_cons.mp h
      refine List.Pairwise.cons ?_ (ih h'.2)
      intro b hb
      have := (insDesc_perm x ys).mem_iff.mp hb
      rcases List.mem_cons.mp this with rfl | hb
      · omega
      · exact h'.1 b hb

theorem sortDesc_sorted (l : List Sample) : Desc (sortDesc l) := by
  induction l with
  | nil => simp [sortDesc]
  | cons x xs ih => exact insDesc_sorted x _ ih





/-- What "in the range of the request" means, declaratively. -/
def InRange (oid : Nat) (frm to : Option Int) (s : Sample) : Prop :=
  s.oid = oid ∧ (∀ f, frm = some f → f ≤ s.ts) ∧ (∀ t, to = some t → s.ts < t)

theorem inRange_iff (oid : Nat) (frm to : Option Int) (s : Sample) :
    inRange oid frm to s = true ↔ InRange oid frm to s := by
  unfold inRange InRange
  cases frm <;> cases to <;> simp [and_assoc]

/-- Splitting a sorted list at `n`: the first part precedes the rest. -/
theorem take_le_drop {R : Sample → Sample → Prop} (l : List Sample) (n : Nat) (h : l.Pairwise R) :
    ∀ x ∈ l.take n, ∀ y ∈ l.drop n, R x y := by
  have := List.take_append_drop n l
  rw [← this] at h
  exact (List.pairwise_append.mp h).2.2

theorem limitTo_length (limit : Option Nat) (l : List Sample) :
    (limitTo limit l).length = (match limit with | none => l.length | some n => min n l.length) := by
  cases limit <;> simp [limitTo]

/-- The part cut off by the limit. -/
def limitRest (limit : Option Nat) (l : List Sample) : List Sample :=
  match limit with
  | none => []
  | some n => l.drop n

theorem limitTo_append_rest (limit : Option Nat) (l : List Sample) : limitTo limit l ++ limitRest limit l = l := by
  cases limit <;> simp [limitTo, limitRest]

theorem limitTo_sorted {R : Sample → Sample → Prop} (limit : Option Nat) (l : List Sample) (h : l.Pairwise R) :
    (limitTo limit l).Pairwise R ∧ ∀ x ∈ limitTo limit l, ∀ y ∈ limitRest limit l, R x y := by
  cases limit with
  | none => simp [limitTo, limitRest, h]
  | some n => exact ⟨h.sublist (List.take_sublist n l), take_le_drop l n h⟩

theorem pSlice_spec_asc (store : List Sample) (oid : Nat) (frm to : Option Int) (limit : Option Nat) :
    let r := pSlice store oid frm to limit false
    let inR := store.filter (inRange oid frm to)
    Asc r ∧ (∃ rest, (r ++ rest).Perm inR ∧ ∀ x ∈ r, ∀ y ∈ rest, x.ts ≤ y.ts) ∧
    r.length = (match limit with | none => inR.length | some n => min n inR.length) := by
  intro r inR
  have hs := sortAsc_sorted inR
  have hp := sortAsc_perm inR
  have hl := limitTo_sorted limit (sortAsc inR) hs
  refine ⟨hl.1, ⟨limitRest limit (sortAsc inR), ?_, hl.2⟩, ?_⟩
  · show (limitTo limit (sortAsc inR) ++ limitRest limit (sortAsc inR)).Perm inR
    rw [limitTo_append_rest]; exact hp
  · show (limitTo limit (sortAsc inR)).length = _
    rw [limitTo_length, hp.length_eq]

theorem pSlice_spec_desc (store : List Sample) (oid : Nat) (frm to : Option Int) (limit : Option Nat) :
    let r := pSlice store oid frm to limit true
    let inR := store.filter (inRange oid frm to)
    Desc r ∧ (∃ rest, (r ++ rest).Perm inR ∧ ∀ x ∈ r, ∀ y ∈ rest, y.ts ≤ x.ts) ∧
    r.length = (match limit with | none => inR.length | some n => min n inR.length) := by
  intro r inR
  have hs := sortDesc_sorted inR
  have hp := sortDesc_perm inR
  have hl := limitTo_sorted limit (sortDesc inR) hs
  refine ⟨hl.1, ⟨limitRest limit (sortDesc inR), ?_, hl.2⟩, ?_⟩
  · show (limitTo limit (sortDesc inR) ++ limitRest limit (sortDesc inR)).Perm inR
    rw [limitTo_append_rest]; exact hp
  · show (limitTo limit (sortDesc inR)).length = _
    rw [limitTo_length, hp.length_eq]

/-- The newest sample of `oid` at or before `t`, declaratively. -/
def NewestLE (store : List Sample) (oid : Nat) (t : Int) : Option Int → Prop
  | none => ∀ s ∈ store, s.oid = oid → ¬ s.ts ≤ t
  | some v => ∃ s ∈ store, s.oid = oid ∧ s.ts ≤ t ∧ s.val = v ∧
      ∀ s' ∈ store, s'.oid = oid → s'.ts ≤ t → s'.ts ≤ s.ts

theorem newestLE_spec (store : List Sample) (oid : Nat) (t : Int) :
    NewestLE store oid t (newestLE store oid t) := by
  unfold newestLE
  generalize hl : store.filter (fun s => s.oid == oid && decide (s.ts ≤ t)) = l
  have hp := sortDesc_perm l
  have hs := sortDesc_sorted l
  have hmem : ∀ s, s ∈ l ↔ s ∈ store ∧ s.oid = oid ∧ s.ts ≤ t := by
    intro s; rw [← hl]; simp [List.mem_filter]
  cases hd : sortDesc l with
  | nil =>
    simp only [List.take_nil, NewestLE]
    intro s hs' ho hle
    have : s ∈ sortDesc l := hp.mem_iff.mpr ((hmem s).mpr ⟨hs', ho, hle⟩)
    rw [hd] at this; cases this
  | cons a rest =>
    simp only [List.take_succ_cons, List.take_zero, NewestLE]
    have ha : a ∈ l := hp.mem_iff.mp (by rw [hd]; exact List.mem_cons_self)
    obtain ⟨h1, h2, h3⟩ := (hmem a).mp ha
    refine ⟨a, h1, h2, h3, rfl, ?_⟩
    intro s' hs' ho hle
    have : s' ∈ sortDesc l := hp.mem_iff.mpr ((hmem s').mpr ⟨hs', ho, hle⟩)
    rw [hd] at this hs
    rcases List.mem_cons.mp this with rfl | hin
    · exact Int.le_refl _
    · exact List.rel_of_pairwise_cons hs hin





section AL
variable {κ ν : Type} [DecidableEq κ]

theorem alGet_nil (k : κ) : alGet ([] : List (κ × ν)) k = none := rfl

theorem alGet_cons (e : κ × ν) (d : List (κ × ν)) (k : κ) :
    alGet (e :: d) k = if e.1 = k then some e.2 else alGet d k := by
  unfold alGet
  rw [List.find?_cons]
  by_cases h : e.1 = k
  · have : (e.1 == k) = true := by simpa using h
    rw [this, if_pos h]
  · have : (e.1 == k) = false := by simpa using h
    rw [this, if_neg h]

/-- the element-wise update of `alSet` -/
def upd (k : κ) (v : ν) (e : κ × ν) : κ × ν := if e.1 == k then (k, v) else e

theorem upd_eq (k : κ) (v : ν) (e : κ × ν) (h : e.1 = k) : upd k v e = (k, v) := by
  unfold upd; have : (e.1 == k) = true := by simpa using h
  rw [this]; rfl

theorem upd_ne (k : κ) (v : ν) (e : κ × ν) (h : e.1 ≠ k) : upd k v e = e := by
  unfold upd; have : (e.1 == k) = false := by simpa using h
  rw [this]; rfl

theorem alGet_map_ne (d : List (κ × ν)) (k k' : κ) (v : ν) (h : k' ≠ k) :
    alGet (d.map (upd k v)) k' = alGet d k' := by
  induction d with
  | nil => rfl
  | cons e d ih =>
    rw [List.map_cons, alGet_cons, alGet_cons, ih]
    by_cases he : e.1 = k
    · rw [upd_eq k v e he]
      have h1 : ¬ k = k' := fun x => h x.symm
      have h2 : ¬ e.1 = k' := fun x => h (x.symm.trans he)
      simp only [h1, h2, if_false]
    · rw [upd_ne k v e he]

theorem alGet_map_eq (d : List (κ × ν)) (k : κ) (v : ν) (h : d.any (fun e => e.1 == k) = true) :
    alGet (d.map (upd k v)) k = some v := by
  induction d with
  | nil => simp at h
  | cons e d ih =>
    rw [List.map_cons, alGet_cons]
    by_cases he : e.1 = k
    · rw [upd_eq k v e he]; simp
    · rw [upd_ne k v e he]
      rw [List.any_cons] at h
      have hb : (e.1 == k) = false := by simpa using he
      rw [hb, Bool.false_or] at h
      simp only [he, if_false]
      exact ih h

theorem alGet_append_single (d : List (κ × ν)) (k k' : κ) (v : ν) :
    alGet (d ++ [(k, v)]) k' = match alGet d k' with | some x => some x | none => if k = k' then some v else none := by
  induction d with
  | nil => rw [List.nil_append, alGet_cons, alGet_nil]
  | cons e d ih =>
    rw [List.cons_append, alGet_cons, alGet_cons, ih]
    by_cases he : e.1 = k' <;> simp only [he, if_true, if_false]

theorem alGet_none_of_not_any (d : List (κ × ν)) (k : κ) (h : d.any (fun e => e.1 == k) = false) :
    alGet d k = none := by
  induction d with
  | nil => rfl
  | cons e d ih =>
    rw [List.any_cons, Bool.or_eq_false_iff] at h
    have he : ¬ e.1 = k := by simpa using h.1
    rw [alGet_cons]; simp only [he, if_false]; exact ih h.2

theorem alGet_alSet (d : List (κ × ν)) (k k' : κ) (v : ν) :
    alGet (alSet d k v) k' = if k' = k then some v else alGet d k' := by
  have hm : alSet d k v = if d.any (fun e => e.1 == k) then d.map (upd k v) else d ++ [(k, v)] := rfl
  rw [hm]
  by_cases ha : d.any (fun e => e.1 == k) = true
  · rw [if_pos ha]
    by_cases hk : k' = k
    · subst hk; rw [alGet_map_eq d k' v ha]; simp
    · rw [alGet_map_ne d k k' v hk]; simp only [hk, if_false]
  · rw [if_neg ha]
    have ha' : d.any (fun e => e.1 == k) = false := Bool.eq_false_iff.mpr ha
    rw [alGet_append_single]
    by_cases hk : k' = k
    · subst hk; rw [alGet_none_of_not_any d k' ha']
    · have : ¬ k = k' := fun h => hk h.symm
      simp only [hk, this, if_false]; cases alGet d k' <;> rfl
end AL

theorem dictGet_dictSet (d : List (Int × Option Val)) (t t' : Int) (v : Option Val) :
    dictGet (dictSet d t v) t' = if t' = t then v else dictGet d t' := by
  unfold dictGet dictSet
  rw [alGet_alSet]
  by_cases h : t' = t <;> simp [h]

theorem cacheGet_cacheSet (c : Cache) (pid pid' : Nat) (t t' : Int) (v : Option Val) :
    cacheGet (cacheSet c pid t v) pid' t' = if pid' = pid ∧ t' = t then some v else cacheGet c pid' t' := by
  unfold cacheGet cacheSet
  rw [alGet_alSet]
  by_cases h : pid' = pid ∧ t' = t
  · rw [if_pos h, if_pos (by rw [h.1, h.2])]
  · have : ¬ (pid', t') = (pid, t) := by
      intro hh; exact h ⟨congrArg Prod.fst hh, congrArg Prod.snd hh⟩
    rw [if_neg h, if_neg this]





/-- What the store answers for timestamp `t` of port `pid` typed `pt` (no cache). -/
def fresh (store : List Sample) (pid : Nat) (pt : PType) (t : Int) : Option Val :=
  (newestLE store pid t).map (adapt pt)

theorem zip_fetched (store : List Sample) (pid : Nat) (pt : PType) (l : List Int) :
    l.zip ((pByTs store pid l).map (fun o => o.map (adapt pt))) = l.map (fun t => (t, fresh store pid pt t)) := by
  induction l with
  | nil => rfl
  | cons t l ih =>
    simp only [pByTs, List.map_cons, List.zip_cons_cons] at ih ⊢
    rw [ih]; rfl

theorem storeFetched_results (cfg : Cfg) (pid : Nat) (now : Int) (f : Int → Option Val) (l : List Int)
    (r : List (Int × Option Val)) (c : Cache) (t : Int) :
    dictGet (storeFetched cfg pid now (l.map (fun t => (t, f t))) (r, c)).1 t = if t ∈ l then f t else dictGet r t := by
  induction l generalizing r c with
  | nil => simp [storeFetched]
  | cons a l ih =>
    simp only [List.map_cons, storeFetched]
    rw [ih]
    by_cases h : t ∈ l
    · simp [h]
    · by_cases ha : t = a
      · subst ha; simp [h, dictGet_dictSet]
      · simp [h, ha, dictGet_dictSet]

theorem storeFetched_cache_off (cfg : Cfg) (hc : cfg.useCache = false) (pid : Nat) (now : Int)
    (l : List (Int × Option Val)) (r : List (Int × Option Val)) (c : Cache) :
    (storeFetched cfg pid now l (r, c)).2 = c := by
  induction l generalizing r c with
  | nil => rfl
  | cons a l ih =>
    obtain ⟨t, v⟩ := a
    simp only [storeFetched, hc, Bool.false_and, Bool.false_eq_true, if_false]
    exact ih _ _

theorem storeFetched_cache (cfg : Cfg) (pid : Nat) (now : Int) (f : Int → Option Val) (l : List Int)
    (r : List (Int × Option Val)) (c : Cache) (pid' : Nat) (t' : Int) (v : Option Val)
    (h : cacheGet (storeFetched cfg pid now (l.map (fun t => (t, f t))) (r, c)).2 pid' t' = some v) :
    cacheGet c pid' t' = some v ∨ (pid' = pid ∧ t' ∈ l ∧ now - t' > cfg.minAge ∧ v = f t') := by
  induction l generalizing r c with
  | nil => left; simpa [storeFetched] using h
  | cons a l ih =>
    simp only [List.map_cons, storeFetched] at h
    rcases ih _ _ h with h1 | ⟨h1, h2, h3, h4⟩
    · by_cases hc : (cfg.useCache && decide (now - a > cfg.minAge)) = true
      · rw [if_pos hc, cacheGet_cacheSet] at h1
        by_cases hk : pid' = pid ∧ t' = a
        · rw [if_pos hk] at h1
          right
          obtain ⟨hk1, hk2⟩ := hk
          subst hk2
          simp only [Bool.and_eq_true, decide_eq_true_eq] at hc
          exact ⟨hk1, List.mem_cons_self, hc.2, (Option.some.inj h1).symm⟩
        · rw [if_neg hk] at h1; left; exact h1
      · rw [if_neg hc] at h1; left; exact h1
    · right; exact ⟨h1, List.mem_cons_of_mem _ h2, h3, h4⟩

theorem foldl_hits (g : Int → Option Val) (hits : List Int) (d0 : List (Int × Option Val)) (t : Int) :
    dictGet (hits.foldl (fun d t => dictSet d t (g t)) d0) t = if t ∈ hits then g t else dictGet d0 t := by
  induction hits generalizing d0 with
  | nil => simp
  | cons a l ih =>
    simp only [List.foldl_cons]
    rw [ih]
    by_cases h : t ∈ l
    · simp [h]
    · by_cases ha : t = a
      · subst ha; simp [h, dictGet_dictSet]
      · simp [h, ha, dictGet_dictSet]

/-- What `get_samples_by_timestamp` answers for one timestamp: the cached value if there is one, else the store's. -/
def answer (st : State) (pid : Nat) (pt : PType) (t : Int) : Option Val :=
  match cacheGet st.cache pid t with
  | some v => v
  | none => fresh st.store pid pt t

theorem hByTs_out (cfg : Cfg) (hr : cfg.repaired = true) (st : State) (pid : Nat) (pt : PType) (now : Int)
    (tss : List Int) :
    (hByTs cfg st pid pt now tss).2.1 = tss.map (fun t => entry t (answer st pid pt t)) := by
  unfold hByTs
  simp only [zip_fetched, hr, if_true]
  apply List.map_congr_left
  intro t ht
  congr 1
  rw [storeFetched_results, foldl_hits]
  unfold answer
  cases hc : cacheGet st.cache pid t with
  | none =>
    have : t ∈ tss.filter (fun t => (cacheGet st.cache pid t).isNone) := by
      simp [List.mem_filter, ht, hc]
    simp [this]
  | some v =>
    have h1 : ¬ t ∈ tss.filter (fun t => (cacheGet st.cache pid t).isNone) := by
      simp [List.mem_filter, hc]
    have h2 : t ∈ tss.filter (fun t => (cacheGet st.cache pid t).isSome) := by
      simp [List.mem_filter, ht, hc]
    simp [h1, h2]

theorem hByTs_store (cfg : Cfg) (st : State) (pid : Nat) (pt : PType) (now : Int) (tss : List Int) :
    (hByTs cfg st pid pt now tss).1.store = st.store ∧ (hByTs cfg st pid pt now tss).1.ports = st.ports := by
  unfold hByTs; simp

theorem hByTs_cache (cfg : Cfg) (st : State) (pid : Nat) (pt : PType) (now : Int) (tss : List Int)
    (pid' : Nat) (t' : Int) (v : Option Val)
    (h : cacheGet (hByTs cfg st pid pt now tss).1.cache pid' t' = some v) :
    cacheGet st.cache pid' t' = some v ∨ (pid' = pid ∧ now - t' > cfg.minAge ∧ v = fresh st.store pid pt t') := by
  unfold hByTs at h
  simp only [zip_fetched] at h
  rcases storeFetched_cache cfg pid now (fresh st.store pid pt) _ _ _ pid' t' v h with h1 | ⟨h1, _, h3, h4⟩
  · left; exact h1
  · right; exact ⟨h1, h3, h4⟩

theorem hByTs_cache_off (cfg : Cfg) (hc : cfg.useCache = false) (st : State) (pid : Nat) (pt : PType) (now : Int)
    (tss : List Int) : (hByTs cfg st pid pt now tss).1.cache = st.cache := by
  unfold hByTs
  simp only [storeFetched_cache_off cfg hc]





/-! ### store changes that cannot affect an answer -/

theorem newestLE_append_later (store : List Sample) (s : Sample) (pid : Nat) (t : Int) (h : t < s.ts) :
    newestLE (store ++ [s]) pid t = newestLE store pid t := by
  unfold newestLE
  have : ¬ s.ts ≤ t := by omega
  simp [List.filter_append, this]

theorem newestLE_remove_other (store : List Sample) (pids : List Nat) (frm to : Option Int) (pid : Nat) (t : Int)
    (hne : pids ≠ []) (hp : pid ∉ pids) :
    newestLE (pRemove store pids frm to) pid t = newestLE store pid t := by
  unfold newestLE pRemove
  rw [List.filter_filter]
  have : ∀ s ∈ store, ((s.oid == pid && decide (s.ts ≤ t)) && !removed pids frm to s) = (s.oid == pid && decide (s.ts ≤ t)) := by
    intro s _
    by_cases ho : s.oid = pid
    · have h1 : pids.isEmpty = false := by cases pids <;> simp_all
      have h2 : pids.contains s.oid = false := by rw [ho]; simpa using hp
      have h3 : removed pids frm to s = false := by unfold removed; rw [h1, h2]; rfl
      rw [h3]; simp
    · have : (s.oid == pid) = false := by simpa using ho
      simp [this]
  rw [List.filter_congr this]

/-! ### ports -/

theorem findPort_id (st : State) (pid : Nat) (p : Port) (h : findPort st pid = some p) : p.id = pid := by
  unfold findPort at h
  have := List.find?_some h
  simpa using this

theorem any_of_findPort (st : State) (pid : Nat) (p : Port) (h : findPort st pid = some p) :
    st.ports.any (fun q => q.id == pid) = true := by
  unfold findPort at h
  rw [List.any_eq_true]
  exact ⟨p, List.mem_of_find?_eq_some h, by have := List.find?_some h; simpa using this⟩

theorem find_map_replace (l : List Port) (p : Port) (q : Nat) :
    (l.map (fun x => if x.id == p.id then p else x)).find? (fun x => x.id == q) =
      if p.id = q then (if l.any (fun x => x.id == p.id) then some p else none) else l.find? (fun x => x.id == q) := by
  induction l with
  | nil => by_cases h : p.id = q <;> simp [h]
  | cons a l ih =>
    rw [List.map_cons, List.find?_cons, List.find?_cons, List.any_cons, ih]
    by_cases ha : a.id = p.id
    · have h1 : (a.id == p.id) = true := by simpa using ha
      rw [h1]
      by_cases h : p.id = q
      · simp [h]
      · have h2 : (p.id == q) = false := by simpa using h
        have h3 : (a.id == q) = false := by rw [ha]; exact h2
        simp [h, h2, h3]
    · have h1 : (a.id == p.id) = false := by simpa using ha
      rw [h1]
      by_cases h : p.id = q
      · have h3 : (a.id == q) = false := by rw [← h]; exact h1
        simp [h, h3]
      · simp only [h, Bool.false_eq_true, if_false, Bool.false_or]

/-- Replacing a registered port: look-ups of its id see the new record, all others are unchanged. -/
theorem findPort_setPort (st : State) (p p0 : Port) (h : findPort st p.id = some p0) (q : Nat) :
    findPort (setPort st p) q = if p.id = q then some p else findPort st q := by
  have ha := any_of_findPort st p.id p0 h
  unfold setPort
  rw [if_pos ha]
  unfold findPort
  rw [find_map_replace, ha]
  simp

theorem setPort_store (st : State) (p : Port) : (setPort st p).store = st.store ∧ (setPort st p).cache = st.cache := by
  unfold setPort; split <;> exact ⟨rfl, rfl⟩

theorem ptypeOf_setPort (st : State) (p p0 : Port) (h : findPort st p.id = some p0) (hty : p.ptype = p0.ptype) (q : Nat) :
    ptypeOf (setPort st p) q = ptypeOf st q := by
  unfold ptypeOf
  rw [findPort_setPort st p p0 h]
  by_cases hq : p.id = q
  · rw [if_pos hq, ← hq, h]; exact hty
  · rw [if_neg hq]

theorem ptypeOf_congr (st st1 : State) (h : st1.ports = st.ports) (q : Nat) : ptypeOf st1 q = ptypeOf st q := by
  unfold ptypeOf findPort; rw [h]

theorem findPort_congr (st st1 : State) (h : st1.ports = st.ports) (q : Nat) : findPort st1 q = findPort st q := by
  unfold findPort; rw [h]

/-! ### the invariant -/

/-- Every memoised answer is for a timestamp before the current clock and equals what the store answers now. -/
def CacheOK (st : State) (T : Int) : Prop :=
  ∀ pid t v, cacheGet st.cache pid t = some v → t < T ∧ v = fresh st.store pid (ptypeOf st pid) t

theorem CacheOK_mono (st : State) (T T1 : Int) (hT : T ≤ T1) (h : CacheOK st T) : CacheOK st T1 := by
  intro pid t v hv
  obtain ⟨h1, h2⟩ := h pid t v hv
  exact ⟨by omega, h2⟩

/-- What a recording-like step does to a state: the cache is untouched, port types are untouched, and the store is
unchanged or got one sample stamped `now` appended. -/
structure Benign (st st1 : State) (now : Int) : Prop where
  cache : st1.cache = st.cache
  ptype : ∀ q, ptypeOf st1 q = ptypeOf st q
  store : st1.store = st.store ∨ ∃ s, st1.store = st.store ++ [s] ∧ s.ts = now

theorem Benign.refl (st : State) (now : Int) : Benign st st now := ⟨rfl, fun _ => rfl, Or.inl rfl⟩

theorem Benign.ok (st st1 : State) (now : Int) (b : Benign st st1 now) (h : CacheOK st now) : CacheOK st1 now := by
  intro pid t v hv
  rw [b.cache] at hv
  obtain ⟨h1, h2⟩ := h pid t v hv
  refine ⟨h1, ?_⟩
  rw [b.ptype, h2]
  rcases b.store with hs | ⟨s, hs, hts⟩
  · rw [hs]
  · rw [hs]; unfold fresh; rw [newestLE_append_later _ _ _ _ (by omega)]

theorem hSave_benign (st : State) (pid : Nat) (last : Option Val) (now : Int) : Benign st (hSave st pid last now) now := by
  cases last with
  | none => exact Benign.refl st now
  | some v => exact ⟨rfl, fun _ => rfl, Or.inr ⟨_, rfl, rfl⟩⟩

theorem hSave_ports (st : State) (pid : Nat) (last : Option Val) (now : Int) : (hSave st pid last now).ports = st.ports := by
  cases last <;> rfl

/-- `save_sample` followed by the update of the port's last timestamp (sampler and on-change handler). -/
theorem saveAndStamp_benign (st : State) (p p' : Port) (hp : findPort st p.id = some p) (hid : p'.id = p.id)
    (hty : p'.ptype = p.ptype) (now : Int) : Benign st (setPort (hSave st p.id p.last now) p') now := by
  have hb := hSave_benign st p.id p.last now
  have hf : findPort (hSave st p.id p.last now) p'.id = some p := by
    rw [findPort_congr _ _ (hSave_ports st p.id p.last now), hid]; exact hp
  have hs := setPort_store (hSave st p.id p.last now) p'
  refine ⟨by rw [hs.2, hb.cache], ?_, by rw [hs.1]; exact hb.store⟩
  intro q
  rw [ptypeOf_setPort _ p' p hf hty q, hb.ptype]

theorem onChange_benign (cfg : Cfg) (st : State) (p : Port) (hp : findPort st p.id = some p) (now : Int) :
    Benign st (onChange cfg st p now) now := by
  unfold onChange
  split
  · exact Benign.refl st now
  · split
    · exact Benign.refl st now
    · exact saveAndStamp_benign st p { p with lastTs := now } hp rfl rfl now

theorem poll_benign (cfg : Cfg) (st : State) (pid : Nat) (now : Int) (v : Option Val) :
    Benign st (poll cfg st pid now v) now := by
  unfold poll
  cases hf : findPort st pid with
  | none => exact Benign.refl st now
  | some p =>
    simp only
    split
    · exact Benign.refl st now
    · have hid := findPort_id st pid p hf
      have hf' : findPort st p.id = some p := by rw [hid]; exact hf
      have h1 : findPort (setPort st { p with last := v }) p.id = some { p with last := v } := by
        rw [findPort_setPort st { p with last := v } p hf' p.id]; simp
      have b2 := onChange_benign cfg (setPort st { p with last := v }) { p with last := v } h1 now
      have hs := setPort_store st { p with last := v }
      refine ⟨by rw [b2.cache, hs.2], ?_, by rw [← hs.1]; exact b2.store⟩
      intro q
      rw [b2.ptype, ptypeOf_setPort st { p with last := v } p hf' rfl q]

theorem samplePort_benign (st : State) (p : Port) (hp : findPort st p.id = some p) (now : Int) :
    Benign st (samplePort st p now) now := by
  unfold samplePort
  split
  · exact Benign.refl st now
  · split
    · exact Benign.refl st now
    · exact saveAndStamp_benign st p { p with lastTs := now } hp rfl rfl now

/-! ### cache transparency -/

theorem cacheGet_nil (pid : Nat) (t : Int) : cacheGet [] pid t = none := rfl

theorem cacheGet_cacheDrop (c : Cache) (pids : List Nat) (pid : Nat) (t : Int) (v : Option Val)
    (h : cacheGet (cacheDrop c pids) pid t = some v) : pid ∉ pids ∧ cacheGet c pid t = some v := by
  unfold cacheGet cacheDrop at *
  induction c with
  | nil => simp [alGet] at h
  | cons e c ih =>
    rw [List.filter_cons] at h
    by_cases hin : pids.contains e.1.1 = true
    · have : (!pids.contains e.1.1) = false := by rw [hin]; rfl
      rw [this] at h
      simp only [Bool.false_eq_true, if_false] at h
      obtain ⟨h1, h2⟩ := ih h
      refine ⟨h1, ?_⟩
      rw [alGet_cons]
      have : ¬ e.1 = (pid, t) := by
        intro he
        have hpid : e.1.1 = pid := by rw [he]
        have hmem : e.1.1 ∈ pids := by simpa using hin
        exact h1 (hpid ▸ hmem)
      rw [if_neg this]; exact h2
    · have : (!pids.contains e.1.1) = true := by simpa using hin
      rw [this] at h
      simp only [if_true] at h
      rw [alGet_cons] at h ⊢
      by_cases he : e.1 = (pid, t)
      · rw [if_pos he] at h ⊢
        refine ⟨?_, h⟩
        have hpid : e.1.1 = pid := by rw [he]
        have hmem : ¬ e.1.1 ∈ pids := by simpa using hin
        exact hpid ▸ hmem
      · rw [if_neg he] at h ⊢
        exact ih h

/-- The clock does not run backwards and a removal names at least one port. -/
def opOK (T : Int) : Op → Prop
  | .range .. => True
  | .byTs _ now _ => T ≤ now
  | .remove pids _ _ => pids ≠ []
  | .record _ now _ => T ≤ now
  | .poll _ now _ => T ≤ now
  | .tick now => T ≤ now

def opTime (T : Int) : Op → Int
  | .range .. => T
  | .byTs _ now _ => now
  | .remove .. => T
  | .record _ now _ => now
  | .poll _ now _ => now
  | .tick now => now

/-- A history of requests and recordings with a monotone clock (starting at `T`). -/
def Monotone : Int → List Op → Prop
  | _, [] => True
  | T, op :: ops => opOK T op ∧ Monotone (opTime T op) ops

instance (T : Int) (op : Op) : Decidable (opOK T op) := by
  cases op <;> unfold opOK <;> infer_instance

instance decMonotone : (T : Int) → (ops : List Op) → Decidable (Monotone T ops)
  | _, [] => isTrue trivial
  | T, op :: ops =>
    have := decMonotone (opTime T op) ops
    inferInstanceAs (Decidable (opOK T op ∧ Monotone (opTime T op) ops))

/-- Forget the cache. -/
def dropCache (st : State) : State := { st with cache := [] }

/-- The reference semantics: the same code with the sample cache switched off. -/
def noCache (cfg : Cfg) : Cfg := { cfg with useCache := false }

theorem state_ext (a b : State) (h1 : a.store = b.store) (h2 : a.cache = b.cache) (h3 : a.ports = b.ports) : a = b := by
  cases a; cases b; simp_all

theorem answer_of_ok (st : State) (T : Int) (h : CacheOK st T) (pid : Nat) (t : Int) :
    answer st pid (ptypeOf st pid) t = fresh st.store pid (ptypeOf st pid) t := by
  unfold answer
  cases hc : cacheGet st.cache pid t with
  | none => rfl
  | some v => exact (h pid t v hc).2

theorem answer_dropCache (st : State) (pid : Nat) (pt : PType) (t : Int) :
    answer (dropCache st) pid pt t = fresh st.store pid pt t := rfl

/-! #### steps commute with forgetting the cache -/

theorem setPort_dropCache (st : State) (p : Port) : dropCache (setPort st p) = setPort (dropCache st) p := by
  unfold setPort
  have : (dropCache st).ports = st.ports := rfl
  rw [this]
  split <;> rfl

theorem hSave_dropCache (st : State) (pid : Nat) (last : Option Val) (now : Int) :
    dropCache (hSave st pid last now) = hSave (dropCache st) pid last now := by
  cases last <;> rfl

theorem hRemove_dropCache (st : State) (pids : List Nat) (frm to : Option Int) :
    dropCache (hRemove st pids frm to) = hRemove (dropCache st) pids frm to := rfl

theorem onChange_dropCache (cfg : Cfg) (st : State) (p : Port) (now : Int) :
    dropCache (onChange cfg st p now) = onChange (noCache cfg) (dropCache st) p now := by
  unfold onChange
  show dropCache (if ¬ now > cfg.oldLimit then _ else _) = (if ¬ now > cfg.oldLimit then _ else _)
  split
  · rfl
  · split
    · rfl
    · rw [setPort_dropCache, hSave_dropCache]

theorem poll_dropCache (cfg : Cfg) (st : State) (pid : Nat) (now : Int) (v : Option Val) :
    dropCache (poll cfg st pid now v) = poll (noCache cfg) (dropCache st) pid now v := by
  unfold poll
  have : findPort (dropCache st) pid = findPort st pid := rfl
  rw [this]
  cases findPort st pid with
  | none => rfl
  | some p =>
    simp only
    split
    · rfl
    · rw [onChange_dropCache, setPort_dropCache]

theorem samplePort_dropCache (st : State) (p : Port) (now : Int) :
    dropCache (samplePort st p now) = samplePort (dropCache st) p now := by
  unfold samplePort
  split
  · rfl
  · split
    · rfl
    · rw [setPort_dropCache, hSave_dropCache]

theorem janitorPort_dropCache (st : State) (p : Port) (nowS : Int) :
    dropCache (janitorPort st p nowS) = janitorPort (dropCache st) p nowS := by
  unfold janitorPort
  split <;> rfl

theorem foldl_dropCache (g : State → Nat → State) (h : ∀ s pid, dropCache (g s pid) = g (dropCache s) pid)
    (ids : List Nat) (st : State) : dropCache (ids.foldl g st) = ids.foldl g (dropCache st) := by
  induction ids generalizing st with
  | nil => rfl
  | cons a l ih => rw [List.foldl_cons, List.foldl_cons, ih, h]

theorem samplerTick_dropCache (cfg : Cfg) (st : State) (now : Int) :
    dropCache (samplerTick cfg st now) = samplerTick (noCache cfg) (dropCache st) now := by
  unfold samplerTick
  show dropCache (if ¬ now > cfg.oldLimit then _ else _) = (if ¬ now > cfg.oldLimit then _ else _)
  split
  · rfl
  · have : (dropCache st).ports = st.ports := rfl
    rw [this]
    apply foldl_dropCache
    intro s pid
    have : findPort (dropCache s) pid = findPort s pid := rfl
    rw [this]
    cases findPort s pid with
    | none => rfl
    | some p => exact samplePort_dropCache s p now

theorem janitorTick_dropCache (cfg : Cfg) (st : State) (now : Int) :
    dropCache (janitorTick cfg st now) = janitorTick (noCache cfg) (dropCache st) now := by
  unfold janitorTick
  show dropCache (if ¬ now > cfg.oldLimit then _ else _) = (if ¬ now > cfg.oldLimit then _ else _)
  split
  · rfl
  · have : (dropCache st).ports = st.ports := rfl
    rw [this]
    apply foldl_dropCache
    intro s pid
    have : findPort (dropCache s) pid = findPort s pid := rfl
    rw [this]
    cases findPort s pid with
    | none => rfl
    | some p => exact janitorPort_dropCache s p (now / 1000)

/-! #### steps keep the cache consistent -/

theorem hRemove_ok (st : State) (pids : List Nat) (frm to : Option Int) (T : Int) (hne : pids ≠ [])
    (hok : CacheOK st T) : CacheOK (hRemove st pids frm to) T := by
  intro pid t v hv
  obtain ⟨h1, h2⟩ := cacheGet_cacheDrop st.cache pids pid t v hv
  obtain ⟨a, b⟩ := hok pid t v h2
  refine ⟨a, ?_⟩
  show v = fresh (pRemove st.store pids frm to) pid (ptypeOf st pid) t
  unfold fresh
  rw [newestLE_remove_other _ _ _ _ _ _ hne h1]
  exact b

theorem foldl_preserves (P : State → Prop) (g : State → Nat → State) (h : ∀ s pid, P s → P (g s pid))
    (ids : List Nat) (st : State) (h0 : P st) : P (ids.foldl g st) := by
  induction ids generalizing st with
  | nil => exact h0
  | cons a l ih => exact ih _ (h _ _ h0)

theorem samplerTick_ok (cfg : Cfg) (st : State) (now : Int) (hok : CacheOK st now) :
    CacheOK (samplerTick cfg st now) now := by
  unfold samplerTick
  split
  · exact hok
  · apply foldl_preserves (fun s => CacheOK s now) _ _ _ _ hok
    intro s pid hs
    cases hf : findPort s pid with
    | none => exact hs
    | some p =>
      have hid := findPort_id s pid p hf
      exact Benign.ok s _ now (samplePort_benign s p (by rw [hid]; exact hf) now) hs

theorem janitorTick_ok (cfg : Cfg) (st : State) (now T : Int) (hok : CacheOK st T) :
    CacheOK (janitorTick cfg st now) T := by
  unfold janitorTick
  split
  · exact hok
  · apply foldl_preserves (fun s => CacheOK s T) _ _ _ _ hok
    intro s pid hs
    cases hf : findPort s pid with
    | none => exact hs
    | some p =>
      simp only [janitorPort]
      split
      · exact hs
      · exact hRemove_ok s [p.id] _ _ T (by simp) hs

theorem step_sim (cfg : Cfg) (hr : cfg.repaired = true) (h0 : 0 ≤ cfg.minAge) (st : State) (T : Int)
    (hok : CacheOK st T) (op : Op) (hop : opOK T op) :
    (step cfg st op).2 = (step (noCache cfg) (dropCache st) op).2 ∧
    dropCache (step cfg st op).1 = (step (noCache cfg) (dropCache st) op).1 ∧
    CacheOK (step cfg st op).1 (opTime T op) := by
  cases op with
  | range pid frm to limit desc =>
    exact ⟨rfl, rfl, hok⟩
  | byTs pid now tss =>
    simp only [opOK] at hop
    have e1 := hByTs_out cfg hr st pid (ptypeOf st pid) now tss
    have e2 := hByTs_out (noCache cfg) hr (dropCache st) pid (ptypeOf st pid) now tss
    have s1 := hByTs_store cfg st pid (ptypeOf st pid) now tss
    have s2 := hByTs_store (noCache cfg) (dropCache st) pid (ptypeOf st pid) now tss
    have c2 := hByTs_cache_off (noCache cfg) rfl (dropCache st) pid (ptypeOf st pid) now tss
    refine ⟨?_, ?_, ?_⟩
    · show Ans.byTs (hByTs cfg st pid (ptypeOf st pid) now tss).2.1 =
        Ans.byTs (hByTs (noCache cfg) (dropCache st) pid (ptypeOf st pid) now tss).2.1
      rw [e1, e2]
      congr 1
      apply List.map_congr_left
      intro t _
      rw [answer_of_ok st T hok, answer_dropCache]
    · show dropCache (hByTs cfg st pid (ptypeOf st pid) now tss).1 =
        (hByTs (noCache cfg) (dropCache st) pid (ptypeOf st pid) now tss).1
      apply state_ext
      · show (hByTs cfg st pid (ptypeOf st pid) now tss).1.store = _
        rw [s1.1, s2.1]; rfl
      · rw [c2]; rfl
      · show (hByTs cfg st pid (ptypeOf st pid) now tss).1.ports = _
        rw [s1.2, s2.2]; rfl
    · show CacheOK (hByTs cfg st pid (ptypeOf st pid) now tss).1 now
      intro pid' t' v hv
      have hp : ptypeOf (hByTs cfg st pid (ptypeOf st pid) now tss).1 pid' = ptypeOf st pid' :=
        ptypeOf_congr _ _ s1.2 pid'
      rw [hp, s1.1]
      rcases hByTs_cache cfg st pid (ptypeOf st pid) now tss pid' t' v hv with h1 | ⟨h1, h2, h3⟩
      · obtain ⟨a, b⟩ := hok pid' t' v h1
        exact ⟨by omega, b⟩
      · subst h1
        exact ⟨by omega, h3⟩
  | remove pids frm to =>
    simp only [opOK] at hop
    exact ⟨rfl, rfl, hRemove_ok st pids frm to T hop hok⟩
  | record pid now v =>
    simp only [opOK] at hop
    exact ⟨rfl, hSave_dropCache st pid v now,
      Benign.ok st _ now (hSave_benign st pid v now) (CacheOK_mono st T now hop hok)⟩
  | poll pid now v =>
    simp only [opOK] at hop
    exact ⟨rfl, poll_dropCache cfg st pid now v,
      Benign.ok st _ now (poll_benign cfg st pid now v) (CacheOK_mono st T now hop hok)⟩
  | tick now =>
    simp only [opOK] at hop
    refine ⟨rfl, ?_, ?_⟩
    · show dropCache (samplerTick cfg (janitorTick cfg st now) now) =
        samplerTick (noCache cfg) (janitorTick (noCache cfg) (dropCache st) now) now
      rw [samplerTick_dropCache, janitorTick_dropCache]
    · show CacheOK (samplerTick cfg (janitorTick cfg st now) now) now
      exact samplerTick_ok cfg _ now (janitorTick_ok cfg st now now (CacheOK_mono st T now hop hok))

theorem run_sim (cfg : Cfg) (hr : cfg.repaired = true) (h0 : 0 ≤ cfg.minAge) (ops : List Op) (st : State) (T : Int)
    (hok : CacheOK st T) (hm : Monotone T ops) :
    (run cfg st ops).2 = (run (noCache cfg) (dropCache st) ops).2 ∧
    dropCache (run cfg st ops).1 = (run (noCache cfg) (dropCache st) ops).1 ∧
    ∃ T', CacheOK (run cfg st ops).1 T' := by
  induction ops generalizing st T with
  | nil => exact ⟨rfl, rfl, T, hok⟩
  | cons op ops ih =>
    obtain ⟨h1, h2, h3⟩ := step_sim cfg hr h0 st T hok op hm.1
    obtain ⟨i1, i2, i3⟩ := ih (step cfg st op).1 (opTime T op) h3 hm.2
    simp only [run]
    rw [← h2, ← h1]
    exact ⟨by rw [i1], i2, i3⟩

/-! ### port removal and re-creation; the removals the janitor has been scheduled to do -/

theorem removePort_no_port (st : State) (pid : Nat) :
    (removePort st pid).ports.any (fun q => q.id == pid) = false := by
  unfold removePort
  simp only [List.any_filter, List.any_eq_false]
  intro q _
  cases h : q.id == pid <;> simp [bne, h]

theorem recreatePort_eq (st : State) (p : Port) :
    recreatePort st p =
      { st with ports := st.ports.filter (fun q => q.id != p.id) ++ [p], cache := cacheDrop st.cache [p.id] } := by
  unfold recreatePort addPort
  rw [removePort_no_port]
  rfl

theorem find_filter_self (l : List Port) (x : Nat) :
    (l.filter (fun q => q.id != x)).find? (fun q => q.id == x) = none := by
  induction l with
  | nil => rfl
  | cons a l ih =>
    rw [List.filter_cons]
    by_cases h : a.id = x
    · simp [bne, h]
    · have h1 : (a.id != x) = true := by simp [bne, h]
      have h2 : (a.id == x) = false := by simp [h]
      rw [h1]; simp only [if_true]; rw [List.find?_cons, h2]; exact ih

theorem find_filter_other (l : List Port) (x pid : Nat) (hne : pid ≠ x) :
    (l.filter (fun q => q.id != x)).find? (fun q => q.id == pid) = l.find? (fun q => q.id == pid) := by
  induction l with
  | nil => rfl
  | cons a l ih =>
    rw [List.filter_cons]
    by_cases h : a.id = x
    · have h1 : (a.id != x) = false := by simp [bne, h]
      have h2 : (a.id == pid) = false := by simp [h]; exact fun e => hne e.symm
      rw [h1]; simp only [Bool.false_eq_true, if_false]; rw [List.find?_cons, h2]; exact ih
    · have h1 : (a.id != x) = true := by simp [bne, h]
      rw [h1]; simp only [if_true]; rw [List.find?_cons, List.find?_cons, ih]

theorem findPort_recreate_self (st : State) (p : Port) : findPort (recreatePort st p) p.id = some p := by
  rw [recreatePort_eq]
  unfold findPort
  show List.find? (fun q => q.id == p.id) (st.ports.filter (fun q => q.id != p.id) ++ [p]) = some p
  rw [List.find?_append, find_filter_self]
  simp

theorem findPort_recreate_other (st : State) (p : Port) (pid : Nat) (h : pid ≠ p.id) :
    findPort (recreatePort st p) pid = findPort st pid := by
  rw [recreatePort_eq]
  unfold findPort
  show List.find? (fun q => q.id == pid) (st.ports.filter (fun q => q.id != p.id) ++ [p]) = _
  rw [List.find?_append, find_filter_other _ _ _ h]
  have hp : (p.id == pid) = false := by simp; exact fun e => h e.symm
  cases hfind : List.find? (fun a : Port => a.id == pid) st.ports <;> simp [hp]

/-- Re-creation keeps the cache invariant: the dict of the port is dropped, every other port keeps its type, the store
is untouched. -/
theorem recreatePort_ok (st : State) (p : Port) (T : Int) (hok : CacheOK st T) : CacheOK (recreatePort st p) T := by
  intro pid t v hv
  rw [recreatePort_eq] at hv
  obtain ⟨h1, h2⟩ := cacheGet_cacheDrop st.cache [p.id] pid t v hv
  have hne : pid ≠ p.id := by simpa using h1
  obtain ⟨a, b⟩ := hok pid t v h2
  refine ⟨a, ?_⟩
  have hs : (recreatePort st p).store = st.store := by rw [recreatePort_eq]
  have ht : ptypeOf (recreatePort st p) pid = ptypeOf st pid := by
    unfold ptypeOf; rw [findPort_recreate_other st p pid hne]
  rw [hs, ht]
  exact b

theorem janitorPending_ok (cfg : Cfg) (st : State) (pending : List Nat) (now T : Int) (hok : CacheOK st T) :
    CacheOK (janitorPending cfg st pending now).1 T := by
  unfold janitorPending
  split
  · exact hok
  · split
    · exact hok
    · rename_i hne
      exact hRemove_ok st pending none none T (by intro e; simp [e] at hne) hok

theorem cacheGet_recreate_self (st : State) (p : Port) (t : Int) :
    cacheGet (recreatePort st p).cache p.id t = none := by
  rw [recreatePort_eq]
  cases h : cacheGet (cacheDrop st.cache [p.id]) p.id t with
  | none => rfl
  | some v => exact absurd (cacheGet_cacheDrop st.cache [p.id] p.id t v h).1 (by simp)

end QtVerif.History
