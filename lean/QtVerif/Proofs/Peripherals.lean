import QtVerif.Model.Peripherals
/-!
Lemmas about the peripherals registry model (C20): the loop of `put_peripherals` over a GET document re-creates every
non-static peripheral under its own id (`addAll_get`, `put_get_source`, `get_put_get`); static peripherals survive every
PUT (`put_statics_survive`); what a refused document leaves behind (`addAll_raised`, `put_raised`); ports after an accepted
one (`put_ok_ports`); the registry invariant `Inv` kept by POST, DELETE and PUT (`inv_post`, `inv_delete`, `inv_put`).
-/
namespace QtVerif.Peripherals

/-- "name will always be used as id, if supplied", and an effective id is never empty -/
def WFP (p : Periph) : Prop := p.effId ≠ "" ∧ ∀ n, truthy p.name = some n → p.effId = n

theorem truthy_some {o : Option String} {n : String} (h : truthy o = some n) : o = some n ∧ n ≠ "" := by
  unfold truthy at h
  split at h
  · split at h <;> simp_all
  · simp at h

theorem construct_wf (cfg : Cfg) (hauto : ∀ e, cfg.auto e ≠ "") (e : Entry) (s : Bool) : WFP (construct cfg e s) := by
  unfold WFP construct effIdOf
  simp only
  constructor
  · split
    · next n h => exact (truthy_some h).2
    · split
      · next i h => exact (truthy_some h).2
      · exact hauto e
  · intro n hn
    rw [hn]

/-- the entry `put_peripherals` hands to `add` for a GET entry: `static` popped -/
def popStatic (e : Entry) : Entry := { e with static := false }

theorem arg_toJson_name (p : Periph) : (toJson p).name.arg = p.name := by
  unfold toJson; cases h : p.name <;> simp [Field.arg]

theorem effIdOf_toJson (cfg : Cfg) (p : Periph) (h : WFP p) : effIdOf cfg (popStatic (toJson p)) = p.effId := by
  have hn : (popStatic (toJson p)).name.arg = p.name := arg_toJson_name p
  have hi : (popStatic (toJson p)).id.arg = some p.effId := by simp [popStatic, toJson, Field.arg]
  unfold effIdOf
  rw [hn, hi]
  split
  · next n hn' => exact (h.2 n hn').symm
  · have : truthy (some p.effId) = some p.effId := by simp [truthy, h.1]
    rw [this]

theorem construct_toJson (cfg : Cfg) (p : Periph) (h : WFP p) :
    construct cfg (popStatic (toJson p)) false = { p with static := false, ports := false } := by
  have h1 := effIdOf_toJson cfg p h
  have hn : (popStatic (toJson p)).name.arg = p.name := arg_toJson_name p
  unfold construct
  rw [h1, hn]
  simp [popStatic, toJson]

theorem toJson_ports (p : Periph) (b : Bool) : toJson { p with ports := b } = toJson p := rfl


/-- what the source hub must satisfy for an entry of its GET document to be accepted again: the driver still loads and
its constructor takes the parameters with `id` and `name` filled in (the GET form of the entry) -/
def Addable (cfg : Cfg) (p : Periph) : Prop :=
  cfg.loadable p.driver = true ∧ cfg.ctorOk (popStatic (toJson p)) = true

/-- a freshly constructed peripheral: `init_ports` has not run -/
def unported (p : Periph) : Periph := { p with ports := false }

theorem add_toJson (cfg : Cfg) (reg : List Periph) (p : Periph) (hw : WFP p) (ha : Addable cfg p)
    (hfresh : p.effId ∉ ids reg) :
    add cfg reg (popStatic (toJson p)) false
      = .ok ({ p with static := false, ports := false }, reg ++ [{ p with static := false, ports := false }]) := by
  unfold add
  have hd : (popStatic (toJson p)).driver = p.driver := rfl
  rw [hd, ha.1, ha.2, construct_toJson cfg p hw]
  simp [hfresh]

/-- the loop over a GET document: every non-static peripheral of `l` is re-created, in order -/
theorem addAll_get (cfg : Cfg) (st : List Periph) :
    ∀ (l : List Periph) (i : Nat) (added : List Periph),
      (∀ p ∈ l, WFP p) → (∀ p ∈ l, p.static = false → Addable cfg p) →
      (ids (st ++ added) ++ ids (l.filter (fun p => !p.static))).Nodup →
      addAll cfg st i added (l.map toJson)
        = (added ++ (l.filter (fun p => !p.static)).map unported, .ok) := by
  intro l
  induction l with
  | nil => intro i added _ _ _; simp [addAll]
  | cons p l ih =>
    intro i added hw ha hnd
    simp only [List.map_cons, addAll]
    cases hs : p.static with
    | true =>
      have : (toJson p).static = true := by simp [toJson, hs]
      simp only [this, if_true]
      rw [ih (i + 1) added (fun q hq => hw q (List.mem_cons_of_mem _ hq))
            (fun q hq => ha q (List.mem_cons_of_mem _ hq)) (by simpa [hs] using hnd)]
      simp [hs]
    | false =>
      have hst : (toJson p).static = false := by simp [toJson, hs]
      have hfresh : p.effId ∉ ids (st ++ added) := by
        intro hmem
        have := (List.nodup_append.mp hnd).2.2 _ hmem p.effId (by simp [ids, hs])
        exact this rfl
      have hadd := add_toJson cfg (st ++ added) p (hw p (List.mem_cons_self ..)) (ha p (List.mem_cons_self ..) hs) hfresh
      have hpop : ({ toJson p with static := false } : Entry) = popStatic (toJson p) := rfl
      simp only [hst, Bool.false_eq_true, if_false, hpop, hadd]
      have hp' : ({ p with static := false, ports := false } : Periph) = unported p := by
        cases p; simp_all [unported]
      rw [hp']
      rw [ih (i + 1) (added ++ [unported p]) (fun q hq => hw q (List.mem_cons_of_mem _ hq))
            (fun q hq => ha q (List.mem_cons_of_mem _ hq))
            (by
              have : ids (st ++ (added ++ [unported p])) = ids (st ++ added) ++ [p.effId] := by
                simp [ids, unported]
              rw [this]
              simpa [ids, hs] using hnd)]
      simp [hs]

theorem firstInvalid_none (cfg : Cfg) : ∀ (l : List Entry) (i : Nat), (∀ e ∈ l, cfg.schemaOk e = true) →
    firstInvalid cfg i l = none := by
  intro l
  induction l with
  | nil => intro i _; rfl
  | cons e l ih =>
    intro i h
    simp only [firstInvalid, h e (List.mem_cons_self ..), if_true]
    exact ih (i + 1) (fun q hq => h q (List.mem_cons_of_mem _ hq))



/-- the static peripherals (loaded from the settings at start-up) precede every peripheral added later -/
def StaticsFirst (reg : List Periph) : Prop :=
  reg = reg.filter (·.static) ++ reg.filter (fun p => !p.static)

instance (reg : List Periph) : Decidable (StaticsFirst reg) := by unfold StaticsFirst; infer_instance

def ported (p : Periph) : Periph := { p with ports := true }

theorem toJson_ported (p : Periph) : toJson (ported p) = toJson p := rfl
theorem toJson_unported (p : Periph) : toJson (unported p) = toJson p := rfl

/-- PUT /peripherals with the source's GET document, on any target with the same static peripherals: accepted; the
target's static peripherals stay, the source's non-static ones are re-created in order and get their ports -/
theorem put_get_source (cfg : Cfg) (tgt src : List Periph)
    (hschema : ∀ p ∈ src, cfg.schemaOk (toJson p) = true)
    (hw : ∀ p ∈ src, WFP p) (ha : ∀ p ∈ src, p.static = false → Addable cfg p)
    (hnd : (ids src).Nodup) (hsf : StaticsFirst src)
    (hstat : tgt.filter (·.static) = src.filter (·.static)) :
    putPeripherals cfg tgt (getPeripherals src)
      = (src.filter (·.static) ++ (src.filter (fun p => !p.static)).map ported, .ok) := by
  have hfi : firstInvalid cfg 0 (getPeripherals src) = none := by
    apply firstInvalid_none
    intro e he
    obtain ⟨p, hp, rfl⟩ := List.mem_map.mp he
    exact hschema p hp
  have hnd' : (ids (src.filter (·.static) ++ []) ++ ids (src.filter (fun p => !p.static))).Nodup := by
    have : ids (src.filter (·.static) ++ []) ++ ids (src.filter (fun p => !p.static)) = ids src := by
      conv => rhs; rw [hsf]
      simp [ids]
    rw [this]; exact hnd
  have hloop := addAll_get cfg (src.filter (·.static)) src 0 [] hw ha hnd'
  unfold putPeripherals
  simp only [hfi, hstat]
  unfold getPeripherals
  rw [hloop]
  simp [List.map_map, Function.comp_def, unported, ported]

/-- GET after PUT(GET source) = GET source -/
theorem get_put_get (cfg : Cfg) (tgt src : List Periph)
    (hschema : ∀ p ∈ src, cfg.schemaOk (toJson p) = true)
    (hw : ∀ p ∈ src, WFP p) (ha : ∀ p ∈ src, p.static = false → Addable cfg p)
    (hnd : (ids src).Nodup) (hsf : StaticsFirst src)
    (hstat : tgt.filter (·.static) = src.filter (·.static)) :
    getPeripherals (putPeripherals cfg tgt (getPeripherals src)).1 = getPeripherals src := by
  rw [put_get_source cfg tgt src hschema hw ha hnd hsf hstat]
  unfold getPeripherals
  conv => rhs; rw [hsf]
  simp [List.map_map, Function.comp_def, toJson_ported]



theorem add_ok {cfg : Cfg} {reg : List Periph} {e : Entry} {s : Bool} {p : Periph} {reg' : List Periph}
    (h : add cfg reg e s = .ok (p, reg')) :
    p = construct cfg e s ∧ reg' = reg ++ [p] ∧ p.effId ∉ ids reg ∧ cfg.loadable e.driver = true ∧ cfg.ctorOk e = true := by
  unfold add at h
  split at h
  · simp at h
  · split at h
    · simp at h
    · dsimp only at h
      split at h
      · simp at h
      · simp only [Except.ok.injEq, Prod.mk.injEq] at h
        obtain ⟨rfl, rfl⟩ := h
        simp_all

/-- everything the loop adds is non-static and has no ports yet -/
theorem addAll_fresh (cfg : Cfg) (st : List Periph) : ∀ (doc : List Entry) (i : Nat) (added : List Periph),
    (∀ p ∈ added, p.static = false ∧ p.ports = false) →
    ∀ p ∈ (addAll cfg st i added doc).1, p.static = false ∧ p.ports = false := by
  intro doc
  induction doc with
  | nil => intro i added h; simpa [addAll] using h
  | cons e es ih =>
    intro i added h
    unfold addAll
    split
    · exact ih (i + 1) added h
    · split
      · simpa using h
      · next p reg' hadd =>
        apply ih (i + 1) (added ++ [p])
        intro q hq
        rcases List.mem_append.mp hq with hq | hq
        · exact h q hq
        · have := (add_ok hadd).1
          simp only [List.mem_singleton] at hq
          subst hq; subst this
          simp [construct]

/-- the loop never reports a schema error -/
theorem addAll_not_invalid (cfg : Cfg) (st : List Periph) : ∀ (doc : List Entry) (i : Nat) (added : List Periph) (k : Nat),
    (addAll cfg st i added doc).2 ≠ .invalid k := by
  intro doc
  induction doc with
  | nil => intro i added k; simp [addAll]
  | cons e es ih =>
    intro i added k
    unfold addAll
    split
    · exact ih (i + 1) added k
    · split
      · simp
      · exact ih (i + 1) _ k

/-- a refused document: the loop got through the entries before the `k`-th, which is not flagged static and which `add`
refuses on the registry as it is then (the target's static peripherals + the entries added so far) -/
theorem addAll_raised (cfg : Cfg) (st : List Periph) : ∀ (doc : List Entry) (i : Nat) (added added' : List Periph)
    (k : Nat) (kind : AddErr), addAll cfg st i added doc = (added', .raised k kind) →
    ∃ pre e post, doc = pre ++ e :: post ∧ k = i + pre.length ∧ e.static = false ∧
      addAll cfg st i added pre = (added', .ok) ∧ add cfg (st ++ added') (popStatic e) false = .error kind := by
  intro doc
  induction doc with
  | nil => intro i added added' k kind h; simp [addAll] at h
  | cons e es ih =>
    intro i added added' k kind h
    unfold addAll at h
    split at h
    · next hs =>
      obtain ⟨pre, e', post, hd, hk, hs', hpre, hadd⟩ := ih (i + 1) added added' k kind h
      refine ⟨e :: pre, e', post, by simp [hd], by simp [hk]; omega, hs', ?_, hadd⟩
      unfold addAll
      simp [hs, hpre]
    · next hs =>
      split at h
      · next kd hadd =>
        simp only [Prod.mk.injEq, PutResult.raised.injEq] at h
        obtain ⟨rfl, rfl, rfl⟩ := h
        exact ⟨[], e, es, rfl, rfl, by simpa using hs, by simp [addAll], hadd⟩
      · next p reg' hadd =>
        obtain ⟨pre, e', post, hd, hk, hs', hpre, hadd'⟩ := ih (i + 1) _ added' k kind h
        refine ⟨e :: pre, e', post, by simp [hd], by simp [hk]; omega, hs', ?_, hadd'⟩
        unfold addAll
        simp only [hs]
        simp only [hadd]
        simpa using hpre

/-- the static peripherals of the target survive every PUT /peripherals untouched, whatever the document -/
theorem put_statics_survive (cfg : Cfg) (reg : List Periph) (doc : List Entry) :
    (putPeripherals cfg reg doc).1.filter (·.static) = reg.filter (·.static) := by
  unfold putPeripherals
  split
  · rfl
  · have hfresh := addAll_fresh cfg (reg.filter (·.static)) doc 0 [] (by simp)
    simp only
    split
    · next added hres =>
      rw [hres] at hfresh
      have : (added.map (fun p => { p with ports := true })).filter (·.static) = [] := by
        simp only [List.filter_eq_nil_iff, List.mem_map]
        rintro q ⟨p, hp, rfl⟩
        simp [(hfresh p hp).1]
      simp [List.filter_append, this]
    · next added r _ hres =>
      rw [hres] at hfresh
      have : added.filter (·.static) = [] := by
        simp only [List.filter_eq_nil_iff]
        intro p hp
        simp [(hfresh p hp).1]
      simp [List.filter_append, this]

/-- what a refused restore leaves behind: the target's static peripherals plus the entries before the failing one —
the target's own non-static peripherals are gone and none of the added ones has ports -/
theorem put_raised (cfg : Cfg) (reg reg' : List Periph) (doc : List Entry) (k : Nat) (kind : AddErr)
    (h : putPeripherals cfg reg doc = (reg', .raised k kind)) :
    ∃ pre e post added, doc = pre ++ e :: post ∧ k = pre.length ∧ e.static = false ∧
      addAll cfg (reg.filter (·.static)) 0 [] pre = (added, .ok) ∧
      add cfg (reg.filter (·.static) ++ added) (popStatic e) false = .error kind ∧
      reg' = reg.filter (·.static) ++ added ∧ ∀ p ∈ added, p.static = false ∧ p.ports = false := by
  unfold putPeripherals at h
  split at h
  · simp at h
  · simp only at h
    split at h
    · simp at h
    · next added r _ hres =>
      simp only [Prod.mk.injEq] at h
      obtain ⟨rfl, rfl⟩ := h
      obtain ⟨pre, e, post, hd, hk, hs, hpre, hadd⟩ := addAll_raised cfg _ doc 0 [] added k kind hres
      have hfresh := addAll_fresh cfg (reg.filter (·.static)) doc 0 [] (by simp)
      rw [hres] at hfresh
      exact ⟨pre, e, post, added, hd, by omega, hs, hpre, hadd, rfl, hfresh⟩

/-- an accepted restore: every non-static peripheral afterwards has its ports -/
theorem put_ok_ports (cfg : Cfg) (reg reg' : List Periph) (doc : List Entry)
    (h : putPeripherals cfg reg doc = (reg', .ok)) : ∀ p ∈ reg', p.static = false → p.ports = true := by
  unfold putPeripherals at h
  split at h
  · simp at h
  · simp only at h
    split at h
    · simp only [Prod.mk.injEq, and_true] at h
      subst h
      intro p hp hs
      rcases List.mem_append.mp hp with hp | hp
      · simp [List.mem_filter] at hp; simp_all
      · obtain ⟨q, _, rfl⟩ := List.mem_map.mp hp
        rfl
    · next added r hne hres =>
      simp only [Prod.mk.injEq] at h
      exact absurd h.2 hne

/-! ### the registry invariant: the hypotheses of the round trip hold of every registry reachable through the API -/

/-- no static peripheral after a non-static one -/
def StaticsFirstP (reg : List Periph) : Prop := reg.Pairwise (fun a b => a.static = false → b.static = false)

theorem staticsFirst_of_pairwise : ∀ reg : List Periph, StaticsFirstP reg → StaticsFirst reg := by
  intro reg
  induction reg with
  | nil => intro _; simp [StaticsFirst]
  | cons p l ih =>
    intro h
    have hl := ih (List.Pairwise.of_cons h)
    have hp : ∀ q ∈ l, p.static = false → q.static = false := (List.pairwise_cons.mp h).1
    unfold StaticsFirst at *
    cases hs : p.static with
    | true => simp [hs]; exact hl
    | false =>
      have hall : ∀ q ∈ l, q.static = false := fun q hq => hp q hq hs
      have h1 : l.filter (·.static) = [] := by
        simp only [List.filter_eq_nil_iff]; intro q hq; simp [hall q hq]
      have h2 : l.filter (fun p => !p.static) = l := by
        simp only [List.filter_eq_self]; intro q hq; simp [hall q hq]
      simp [hs, h1, h2]

/-- the invariant of the registry -/
def Inv (reg : List Periph) : Prop := (ids reg).Nodup ∧ (∀ p ∈ reg, WFP p) ∧ StaticsFirstP reg

theorem inv_append_nonstatic {reg : List Periph} {p : Periph} (h : Inv reg) (hw : WFP p) (hs : p.static = false)
    (hf : p.effId ∉ ids reg) : Inv (reg ++ [p]) := by
  obtain ⟨h1, h2, h3⟩ := h
  refine ⟨?_, ?_, ?_⟩
  · simp only [ids, List.map_append, List.map_cons, List.map_nil]
    rw [List.nodup_append]
    refine ⟨h1, by simp, ?_⟩
    intro a ha b hb
    simp only [List.mem_singleton] at hb
    subst hb
    intro hab; subst hab; exact hf ha
  · intro q hq
    rcases List.mem_append.mp hq with hq | hq
    · exact h2 q hq
    · simp only [List.mem_singleton] at hq; subst hq; exact hw
  · unfold StaticsFirstP
    rw [List.pairwise_append]
    refine ⟨h3, by simp, ?_⟩
    intro a _ b hb _
    simp only [List.mem_singleton] at hb; subst hb; exact hs

theorem inv_map_ports {reg : List Periph} (f : Periph → Periph)
    (hf : ∀ p, (f p).effId = p.effId ∧ (f p).name = p.name ∧ (f p).static = p.static) (h : Inv reg) : Inv (reg.map f) := by
  obtain ⟨h1, h2, h3⟩ := h
  refine ⟨?_, ?_, ?_⟩
  · have : ids (reg.map f) = ids reg := by simp [ids, List.map_map, Function.comp_def, (hf _).1]
    rw [this]; exact h1
  · intro q hq
    obtain ⟨p, hp, rfl⟩ := List.mem_map.mp hq
    have := h2 p hp
    unfold WFP at *
    rw [(hf p).1, (hf p).2.1]; exact this
  · unfold StaticsFirstP
    rw [List.pairwise_map]
    exact h3.imp (fun {a b} hab => by rw [(hf a).2.2, (hf b).2.2]; exact hab)

theorem inv_filter {reg : List Periph} (q : Periph → Bool) (h : Inv reg) : Inv (reg.filter q) := by
  obtain ⟨h1, h2, h3⟩ := h
  refine ⟨?_, fun p hp => h2 p (List.mem_filter.mp hp).1, h3.sublist List.filter_sublist⟩
  exact h1.sublist (List.Sublist.map _ List.filter_sublist)

theorem inv_post (cfg : Cfg) (hauto : ∀ e, cfg.auto e ≠ "") (reg : List Periph) (e : Entry) (h : Inv reg) :
    Inv (postPeripheral cfg reg e).1 := by
  have hgo : Inv (postPeripheral.go cfg reg e).1 := by
    unfold postPeripheral.go
    split
    · exact h
    · exact h
    · exact h
    · next p reg' hadd =>
      obtain ⟨hp, hreg, hfresh, _, _⟩ := add_ok hadd
      subst hreg
      apply inv_map_ports
      · intro q; split <;> simp
      · exact inv_append_nonstatic h (hp ▸ construct_wf cfg hauto _ _) (by rw [hp]; rfl) hfresh
  unfold postPeripheral
  split
  · exact h
  · split
    · split
      · exact h
      · exact hgo
    · exact hgo

theorem inv_delete (reg : List Periph) (id : String) (h : Inv reg) : Inv (deletePeripheral reg id).1 := by
  unfold deletePeripheral
  split
  · exact h
  · split
    · exact h
    · exact inv_filter _ h

theorem inv_addAll (cfg : Cfg) (hauto : ∀ e, cfg.auto e ≠ "") (st : List Periph) :
    ∀ (doc : List Entry) (i : Nat) (added : List Periph), Inv (st ++ added) → Inv (st ++ (addAll cfg st i added doc).1) := by
  intro doc
  induction doc with
  | nil => intro i added h; simpa [addAll] using h
  | cons e es ih =>
    intro i added h
    unfold addAll
    split
    · exact ih (i + 1) added h
    · split
      · exact h
      · next p reg' hadd =>
        obtain ⟨hp, _, hfresh, _, _⟩ := add_ok hadd
        apply ih (i + 1) (added ++ [p])
        rw [← List.append_assoc]
        exact inv_append_nonstatic h (hp ▸ construct_wf cfg hauto _ _) (by rw [hp]; rfl) hfresh

theorem inv_put (cfg : Cfg) (hauto : ∀ e, cfg.auto e ≠ "") (reg : List Periph) (doc : List Entry) (h : Inv reg) :
    Inv (putPeripherals cfg reg doc).1 := by
  unfold putPeripherals
  split
  · exact h
  · have hst : Inv (reg.filter (·.static) ++ []) := by simpa using inv_filter _ h
    have hloop := inv_addAll cfg hauto (reg.filter (·.static)) doc 0 [] hst
    simp only
    split
    · next added hres =>
      rw [hres] at hloop
      have : reg.filter (·.static) ++ added.map (fun p => { p with ports := true })
          = (reg.filter (·.static) ++ added).map (fun p => if p.static then p else { p with ports := true }) := by
        have hfresh := addAll_fresh cfg (reg.filter (·.static)) doc 0 [] (by simp)
        rw [hres] at hfresh
        rw [List.map_append]
        congr 1
        · symm
          conv => rhs; rw [← List.map_id (reg.filter (·.static))]
          apply List.map_congr_left
          intro p hp
          simp [List.mem_filter] at hp
          simp [hp.2]
        · apply List.map_congr_left
          intro p hp
          simp [(hfresh p hp).1]
      rw [this]
      apply inv_map_ports _ _ hloop
      intro p; split <;> simp
    · next added r _ hres =>
      rw [hres] at hloop
      exact hloop

end QtVerif.Peripherals
