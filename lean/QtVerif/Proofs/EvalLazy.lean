import QtVerif.Proofs.EvalSpecs
/-!
C02 helper lemmas: which arguments the lazy functions look at (IF / AND / OR / DEFAULT / AVAILABLE), strict calls on
values, domain errors. Every carrier.
-/
set_option linter.unusedSimpArgs false
set_option linter.unusedSectionVars false
namespace QtVerif.Eval
open QtVerif.Syntax QtVerif.Num
variable {α : Type} [PyFloat α]

/-- the outcome is a truthy value -/
def Res.truthyVal (r : Res α) : Prop := ∃ v, r = .val v ∧ truthy v = true
/-- the outcome is a falsy value -/
def Res.falsyVal (r : Res α) : Prop := ∃ v, r = .val v ∧ truthy v = false

theorem evalAnd_all_true (args : List Expr) (c : Ctx α) (h : ∀ a ∈ args, (eval a c).truthyVal) :
    evalAnd args c = .val (.i 1) := by
  induction args with
  | nil => simp [evalAnd]
  | cons a rest ih =>
    obtain ⟨v, hv, ht⟩ := h a (by simp)
    simp only [evalAnd, hv, ht, if_true]
    exact ih (fun x hx => h x (List.mem_cons_of_mem _ hx))

theorem evalAnd_decided (pre post : List Expr) (a : Expr) (c : Ctx α)
    (hpre : ∀ x ∈ pre, (eval x c).truthyVal) :
    ((eval a c).falsyVal → evalAnd (pre ++ a :: post) c = .val (.i 0)) ∧
    ((eval a c).isVal = false → evalAnd (pre ++ a :: post) c = eval a c) := by
  induction pre with
  | nil =>
    constructor
    · rintro ⟨v, hv, hf⟩; simp [evalAnd, hv, hf]
    · intro hn
      simp only [List.nil_append, evalAnd]
      cases h : eval a c <;> simp_all [Res.isVal]
  | cons x rest ih =>
    obtain ⟨v, hv, ht⟩ := hpre x (by simp)
    have ih' := ih (fun y hy => hpre y (List.mem_cons_of_mem _ hy))
    simp only [List.cons_append, evalAnd, hv, ht, if_true]
    exact ih'

theorem evalOr_all_false (args : List Expr) (c : Ctx α) (h : ∀ a ∈ args, (eval a c).falsyVal) :
    evalOr args c = .val (.i 0) := by
  induction args with
  | nil => simp [evalOr]
  | cons a rest ih =>
    obtain ⟨v, hv, ht⟩ := h a (by simp)
    simp only [evalOr, hv, ht, Bool.false_eq_true, if_false]
    exact ih (fun x hx => h x (List.mem_cons_of_mem _ hx))

theorem evalOr_decided (pre post : List Expr) (a : Expr) (c : Ctx α)
    (hpre : ∀ x ∈ pre, (eval x c).falsyVal) :
    ((eval a c).truthyVal → evalOr (pre ++ a :: post) c = .val (.i 1)) ∧
    ((eval a c).isVal = false → evalOr (pre ++ a :: post) c = eval a c) := by
  induction pre with
  | nil =>
    constructor
    · rintro ⟨v, hv, hf⟩; simp [evalOr, hv, hf]
    · intro hn
      simp only [List.nil_append, evalOr]
      cases h : eval a c <;> simp_all [Res.isVal]
  | cons x rest ih =>
    obtain ⟨v, hv, ht⟩ := hpre x (by simp)
    have ih' := ih (fun y hy => hpre y (List.mem_cons_of_mem _ hy))
    simp only [List.cons_append, evalOr, hv, ht, Bool.false_eq_true, if_false]
    exact ih'

/-- A strict call whose arguments all evaluate to values applies the function body to those values. -/
theorem eval_strict_vals (n : String) (args : List Expr) (c : Ctx α) (vs : List (Val α))
    (hk : fnKind n = .strict) (hr : args.any isRef = false)
    (hv : evalArgs args c = vs.map Res.val) :
    eval (.call n args) c = applyFn true c.nowMs n vs := by
  rw [eval_strict n args c hk hr, hv]
  unfold applyStrict
  rw [firstFail_map_val, valsOf_map_val]

/-- A strict call with a failing argument fails with the outcome of the FIRST failing argument. -/
theorem eval_strict_fail (n : String) (pre post : List Expr) (a : Expr) (c : Ctx α)
    (hk : fnKind n = .strict) (hr : (pre ++ a :: post).any isRef = false)
    (hpre : ∀ x ∈ pre, (eval x c).isVal = true) (ha : (eval a c).isVal = false) :
    eval (.call n (pre ++ a :: post)) c = eval a c := by
  rw [eval_strict n _ c hk hr]
  unfold applyStrict
  have : firstFail (evalArgs (pre ++ a :: post) c) = some (eval a c) := by
    rw [firstFail_some_iff]
    refine ⟨pre.map (fun x => eval x c), post.map (fun x => eval x c), ?_, ?_, ha⟩
    · rw [evalArgs_eq_map]; simp
    · intro r hrr
      obtain ⟨x, hx, rfl⟩ := List.mem_map.mp hrr
      exact hpre x hx
  rw [this]

/-- A strict call yields a value only if every argument does. -/
theorem eval_strict_val_only_if (n : String) (args : List Expr) (c : Ctx α) (v : Val α)
    (hk : fnKind n = .strict) (hr : args.any isRef = false) (h : eval (.call n args) c = .val v) :
    ∀ a ∈ args, (eval a c).isVal = true := by
  rw [eval_strict n args c hk hr] at h
  unfold applyStrict at h
  cases hf : firstFail (evalArgs args c) with
  | some r =>
    rw [hf] at h
    simp only at h
    obtain ⟨pre, post, _, _, h3⟩ := (firstFail_some_iff _ r).mp hf
    rw [h] at h3; simp [Res.isVal] at h3
  | none =>
    have := (firstFail_none_iff _).mp hf
    intro a ha
    apply this
    rw [evalArgs_eq_map]
    exact List.mem_map.mpr ⟨a, ha, rfl⟩

end QtVerif.Eval
