import QtVerif.Proofs.AccessSpec
/-!
Helper lemmas for property C09 (access levels): finite-table facts by `decide +kernel` lifted to "for every
route / method", inversion and introduction lemmas for `serve`, apartness of the URLSpec patterns (a path is
matched by at most one URLSpec, so the order of the table and the other feature flags are irrelevant),
monotonicity in the caller's level, and the state lemmas for `handle`.
-/
namespace QtVerif.Access

theorem mem_allRoutes (r : Route) : r ∈ allRoutes := by cases r <;> decide
theorem mem_allMethods (m : Method) : m ∈ Method.all := by cases m <;> decide

/-- One row of the table agrees with the specification. -/
def rowOk (r : Route) (m : Method) : Bool :=
  match handlerFn r m, classify r m with
  | some fn, some c => required fn == specLevel c
  | none, none => true
  | _, _ => false

theorem table_ok_all : (allRoutes.all fun r => Method.all.all fun m => rowOk r m) = true := by decide +kernel

theorem rowOk_all (r : Route) (m : Method) : rowOk r m = true := by
  have h := table_ok_all
  rw [List.all_eq_true] at h
  have h2 := h r (mem_allRoutes r)
  rw [List.all_eq_true] at h2
  exact h2 m (mem_allMethods m)

theorem handler_spec {r : Route} {m : Method} {fn : Func} (h : handlerFn r m = some fn) :
    ∃ c, classify r m = some c ∧ required fn = specLevel c := by
  have hk := rowOk_all r m
  unfold rowOk at hk
  rw [h] at hk
  cases hc : classify r m with
  | none => rw [hc] at hk; simp at hk
  | some c => rw [hc] at hk; exact ⟨c, rfl, by simpa using hk⟩

theorem spec_handler {r : Route} {m : Method} {c : Category} (h : classify r m = some c) :
    ∃ fn, handlerFn r m = some fn ∧ required fn = specLevel c := by
  have hk := rowOk_all r m
  unfold rowOk at hk
  rw [h] at hk
  cases hc : handlerFn r m with
  | none => rw [hc] at hk; simp at hk
  | some fn => rw [hc] at hk; exact ⟨fn, rfl, by simpa using hk⟩


/-! Level order facts -/
theorem Level.le_def (a b : Level) : a ≤ b ↔ a.toNat ≤ b.toNat := Iff.rfl
theorem Level.lt_def (a b : Level) : a < b ↔ a.toNat < b.toNat := Iff.rfl
theorem Level.none_le (a : Level) : Level.none ≤ a := by cases a <;> decide
theorem Level.le_trans {a b c : Level} (h1 : a ≤ b) (h2 : b ≤ c) : a ≤ c := Nat.le_trans h1 h2
theorem Level.not_lt {a b : Level} : ¬ a < b ↔ b ≤ a := Nat.not_lt
theorem Level.toNat_inj {a b : Level} (h : a.toNat = b.toNat) : a = b := by
  cases a <;> cases b <;> first | rfl | (exfalso; revert h; decide)

theorem effectiveLevel_le (r : Route) (a : Auth) : effectiveLevel r a ≤ levelOf a := by
  unfold effectiveLevel; split
  · exact Nat.le_refl _
  · exact Level.none_le _

/-! checkLevel -/
theorem checkLevel_run_iff (l : Level) (fn gn : Func) : checkLevel l fn = .run gn ↔ (gn = fn ∧ required fn ≤ l) := by
  unfold checkLevel
  by_cases h : l < required fn
  · simp only [h, if_true]
    constructor
    · intro h2; split at h2 <;> cases h2
    · intro ⟨_, h2⟩; exact absurd h (Level.not_lt.mpr h2)
  · simp only [h, if_false]
    constructor
    · intro h2; cases h2; exact ⟨rfl, Level.not_lt.mp h⟩
    · intro ⟨h2, _⟩; rw [h2]

theorem checkLevel_refused (l : Level) (fn : Func) (h : l < required fn) :
    checkLevel l fn = .refused (if l = .none then 401 else 403) fn := by
  unfold checkLevel; simp only [h, if_true]; split <;> rfl

/-- Everything `serve` does after the route and the handler method are known. -/
theorem serve_api {f : Features} {q : Req} {r : Route} (hm : q.method ≠ .other) (hr : resolve f q.path = .api r) :
    serve f q =
      if sessionBad r q then .status 500 else
      match handlerFn r q.method with
      | none => .status 404
      | some fn =>
        if !methodGuard f r q.method then .status 404 else
        if q.method.hasBody && q.body != .json then .status 400 else
        checkLevel (effectiveLevel r q.auth) fn := by
  unfold serve; simp only [hm, if_false, hr]
  cases sessionBad r q <;> cases handlerFn r q.method <;> rfl

theorem resolve_api_inv {f : Features} {xs : List String} {r : Route} (h : resolve f xs = .api r) :
    r ∈ table f ∧ (pattern r).matches xs = true := by
  unfold resolve at h
  split at h
  · next r' hf =>
    cases h
    exact ⟨List.mem_of_find?_eq_some hf, by simpa using List.find?_some hf⟩
  · split at h
    · cases h
    · split at h <;> cases h

theorem mem_table {f : Features} {r : Route} : r ∈ table f ↔ enabled f r = true := by
  unfold table; rw [List.mem_filter]; exact ⟨fun h => h.2, fun h => ⟨by cases r <;> decide, h⟩⟩

/-- Inversion of `serve … = run`: all the conditions under which an API function body runs. -/
theorem serve_run_inv {f : Features} {q : Req} {fn : Func} (h : serve f q = .run fn) :
    ∃ r, q.method ≠ .other ∧ resolve f q.path = .api r ∧ handlerFn r q.method = some fn ∧
      methodGuard f r q.method = true ∧ (q.method.hasBody = true → q.body = .json) ∧
      required fn ≤ effectiveLevel r q.auth ∧ sessionBad r q = false := by
  unfold serve at h
  split at h
  · cases h
  · next hm =>
    split at h
    · cases h
    · cases h
    · cases h
    · next r hr =>
      split at h
      · cases h
      · next hsess =>
        split at h
        · cases h
        · next gn hg =>
          split at h
          · cases h
          · next hguard =>
            split at h
            · cases h
            · next hb =>
              rw [checkLevel_run_iff] at h
              obtain ⟨rfl, hl⟩ := h
              refine ⟨r, hm, hr, hg, by simpa using hguard, ?_, hl, by simpa using hsess⟩
              intro hh
              rw [hh] at hb
              simpa using hb


/-! Apartness of URLSpec patterns -/

/-- No string matches both segments. -/
def segApart : Seg → Seg → Bool
  | .lit a, .lit b => a != b
  | .lit a, .id _ d => !isId d a
  | .id _ d, .lit b => !isId d b
  | .id _ _, .id _ _ => false

/-- The segment does not match the empty string. -/
def segNoEmpty : Seg → Bool
  | .lit a => a != ""
  | .id _ _ => true

/-- Syntactic sufficient condition for two patterns to have no path in common. -/
def apartL : List Seg → Bool → List Seg → Bool → Bool
  | s :: ps, rp, t :: qs, rq => segApart s t || apartL ps rp qs rq
  | [], rp, [], rq => rp != rq
  | [], false, t :: qs, rq => segNoEmpty t || !(qs.isEmpty && !rq)
  | s :: ps, rp, [], false => segNoEmpty s || !(ps.isEmpty && !rp)
  | [], true, _ :: _, _ => false
  | _ :: _, _, [], true => false

def Pat.apart (p q : Pat) : Bool := apartL p.segs p.rest q.segs q.rest

theorem isId_empty (d : Bool) : isId d "" = false := by cases d <;> decide

theorem segApart_sound {s t : Seg} {x : String} (h : segApart s t = true) :
    ¬ (segMatch s x = true ∧ segMatch t x = true) := by
  intro ⟨h1, h2⟩
  cases s with
  | lit a =>
    cases t with
    | lit b =>
      simp only [segApart, segMatch] at h h1 h2
      have e1 : x = a := by simpa using h1
      have e2 : x = b := by simpa using h2
      rw [e1] at e2; simp [e2] at h
    | id n d =>
      simp only [segApart, segMatch] at h h1 h2
      have e1 : x = a := by simpa using h1
      rw [e1] at h2; simp [h2] at h
  | id n d =>
    cases t with
    | lit b =>
      simp only [segApart, segMatch] at h h1 h2
      have e2 : x = b := by simpa using h2
      rw [e2] at h1; simp [h1] at h
    | id n' d' => simp [segApart] at h

theorem segNoEmpty_sound {s : Seg} (h : segNoEmpty s = true) : segMatch s "" = false := by
  cases s with
  | lit a => simp only [segNoEmpty] at h; simp only [segMatch]; 
             cases hh : ("" == a) with
             | false => rfl
             | true => have : "" = a := by simpa using hh
                       rw [← this] at h; simp at h
  | id n d => simp only [segMatch]; exact isId_empty d

theorem matchL_nil_false {xs : List String} : matchL [] false xs = true ↔ (xs = [] ∨ xs = [""]) := by
  simp [matchL]

theorem apartL_sound : ∀ (ps : List Seg) (rp : Bool) (qs : List Seg) (rq : Bool) (xs : List String),
    apartL ps rp qs rq = true → ¬ (matchL ps rp xs = true ∧ matchL qs rq xs = true)
  | s :: ps, rp, t :: qs, rq, xs, h => by
    intro ⟨h1, h2⟩
    cases xs with
    | nil => simp [matchL] at h1
    | cons x xs =>
      simp only [matchL, Bool.and_eq_true] at h1 h2
      simp only [apartL, Bool.or_eq_true] at h
      cases h with
      | inl h => exact segApart_sound h ⟨h1.1, h2.1⟩
      | inr h => exact apartL_sound ps rp qs rq xs h ⟨h1.2, h2.2⟩
  | [], rp, [], rq, xs, h => by
    intro ⟨h1, h2⟩
    cases rp <;> cases rq <;> simp [apartL, matchL] at h h1 h2
    · cases h1 with
      | inl e => exact h2.1 e
      | inr e => exact h2.2 e
    · cases h2 with
      | inl e => exact h1.1 e
      | inr e => exact h1.2 e
  | [], false, t :: qs, rq, xs, h => by
    intro ⟨h1, h2⟩
    rw [matchL_nil_false] at h1
    cases h1 with
    | inl e => subst e; simp [matchL] at h2
    | inr e =>
      subst e
      simp only [matchL, Bool.and_eq_true] at h2
      simp only [apartL, Bool.or_eq_true] at h
      cases h with
      | inl h => rw [segNoEmpty_sound h] at h2; exact absurd h2.1 (by simp)
      | inr h =>
        cases qs with
        | cons u us => simp [matchL] at h2
        | nil => cases rq <;> simp [matchL] at h h2
  | s :: ps, rp, [], false, xs, h => by
    intro ⟨h2, h1⟩
    rw [matchL_nil_false] at h1
    cases h1 with
    | inl e => subst e; simp [matchL] at h2
    | inr e =>
      subst e
      simp only [matchL, Bool.and_eq_true] at h2
      simp only [apartL, Bool.or_eq_true] at h
      cases h with
      | inl h => rw [segNoEmpty_sound h] at h2; exact absurd h2.1 (by simp)
      | inr h =>
        cases ps with
        | cons u us => simp [matchL] at h2
        | nil => cases rp <;> simp [matchL] at h h2
  | [], true, _ :: _, _, _, h => by simp [apartL] at h
  | _ :: _, _, [], true, _, h => by simp [apartL] at h

/-- Any two distinct URLSpecs of the full table are apart. -/
theorem all_apart : (allRoutes.all fun r1 => allRoutes.all fun r2 => r1 == r2 || (pattern r1).apart (pattern r2)) = true := by
  decide +kernel


/-! Uniqueness of the matching URLSpec and resolution independent of table order -/

theorem apart_of_ne {r1 r2 : Route} (h : r1 ≠ r2) : (pattern r1).apart (pattern r2) = true := by
  have h0 := all_apart
  rw [List.all_eq_true] at h0
  have h1 := h0 r1 (mem_allRoutes r1)
  rw [List.all_eq_true] at h1
  have h2 := h1 r2 (mem_allRoutes r2)
  simp only [Bool.or_eq_true, beq_iff_eq] at h2
  cases h2 with
  | inl e => exact absurd e h
  | inr e => exact e

/-- A path is matched by at most one URLSpec of the table: the order of the table is irrelevant. -/
theorem matches_unique {r1 r2 : Route} {xs : List String}
    (h1 : (pattern r1).matches xs = true) (h2 : (pattern r2).matches xs = true) : r1 = r2 := by
  apply Classical.byContradiction
  intro hne
  exact apartL_sound _ _ _ _ xs (apart_of_ne hne) ⟨h1, h2⟩

theorem find_filter_unique {α : Type} [DecidableEq α] (P E : α → Bool) (r : α) :
    ∀ (l : List α), r ∈ l → P r = true → (∀ a ∈ l, P a = true → a = r) →
      (l.filter E).find? P = if E r then some r else none
  | [], hr, _, _ => by cases hr
  | a :: l, hr, hP, hu => by
    by_cases har : a = r
    · subst har
      cases hE : E a with
      | true => simp [List.filter, hE, hP]
      | false =>
        simp only [List.filter, hE]
        -- no other element of l satisfies P unless it equals a, which is filtered out
        have : ∀ b ∈ l.filter E, P b = false := by
          intro b hb
          rw [List.mem_filter] at hb
          cases hPb : P b with
          | false => rfl
          | true =>
            have := hu b (List.mem_cons_of_mem _ hb.1) hPb
            rw [this, hE] at hb; exact absurd hb.2 (by simp)
        simp only [Bool.false_eq_true, if_false]
        rw [List.find?_eq_none]
        intro b hb; simp [this b hb]
    · have hPa : P a = false := by
        cases hPa : P a with
        | false => rfl
        | true => exact absurd (hu a (List.mem_cons_self) hPa) har
      have hr' : r ∈ l := by
        cases hr with
        | head => exact absurd rfl har
        | tail _ h => exact h
      have ih := find_filter_unique P E r l hr' hP (fun b hb => hu b (List.mem_cons_of_mem _ hb))
      cases hE : E a with
      | true => simp only [List.filter, hE, List.find?, hPa]; exact ih
      | false => simp only [List.filter, hE]; exact ih

theorem matchL_api {s : Seg} {ps : List Seg} {r : Bool} {xs : List String}
    (h : matchL (.lit "api" :: s :: ps) r xs = true) : apiPrefix xs = true := by
  cases xs with
  | nil => simp [matchL] at h
  | cons x xs =>
    cases xs with
    | nil => simp [matchL] at h
    | cons y ys =>
      simp only [matchL, segMatch, Bool.and_eq_true] at h
      have : x = "api" := by simpa using h.1
      subst this; rfl

theorem matches_apiPrefix {r : Route} {xs : List String} (h : (pattern r).matches xs = true) :
    apiPrefix xs = true := by
  cases r <;> exact matchL_api h

/-- Resolution of a path that matches the URLSpec `r`: `r` itself when its feature is enabled, the `/api/.*`
catch-all (404) otherwise — whatever the other features are. -/
theorem resolve_of_matches (f : Features) {r : Route} {xs : List String} (h : (pattern r).matches xs = true) :
    resolve f xs = if enabled f r then .api r else .noSuchFunction := by
  unfold resolve table
  rw [find_filter_unique (fun r => (pattern r).matches xs) (enabled f) r allRoutes (mem_allRoutes r) h
    (fun a _ ha => matches_unique ha h)]
  cases enabled f r with
  | true => rfl
  | false => simp [matches_apiPrefix h]

theorem resolve_none {f : Features} {xs : List String} (h : ∀ r ∈ table f, (pattern r).matches xs = false) :
    resolve f xs = if apiPrefix xs then .noSuchFunction else if f.frontend then .foreign else .notFound := by
  unfold resolve
  have : (table f).find? (fun r => (pattern r).matches xs) = none := by
    rw [List.find?_eq_none]; intro r hr; simp [h r hr]
  rw [this]

/-! Monotonicity, state -/

theorem effectiveLevel_mono (r : Route) {a a' : Auth} (h : levelOf a ≤ levelOf a') :
    effectiveLevel r a ≤ effectiveLevel r a' := by
  unfold effectiveLevel; split
  · exact h
  · exact Nat.le_refl _

theorem serve_run_of {f : Features} {q : Req} {r : Route} {fn : Func}
    (hm : q.method ≠ .other) (hr : resolve f q.path = .api r) (hh : handlerFn r q.method = some fn)
    (hg : methodGuard f r q.method = true) (hb : q.method.hasBody = true → q.body = .json)
    (hs : sessionBad r q = false)
    (hl : required fn ≤ effectiveLevel r q.auth) : serve f q = .run fn := by
  rw [serve_api hm hr, hh]
  simp only [hs, hg, Bool.not_true, Bool.false_eq_true, if_false]
  have : (q.method.hasBody && q.body != .json) = false := by
    cases hhb : q.method.hasBody with
    | false => rfl
    | true => rw [hb hhb]; rfl
  simp only [this, Bool.false_eq_true, if_false]
  exact (checkLevel_run_iff _ _ _).mpr ⟨rfl, hl⟩

theorem serve_refused_of {f : Features} {q : Req} {r : Route} {fn : Func}
    (hm : q.method ≠ .other) (hr : resolve f q.path = .api r) (hh : handlerFn r q.method = some fn)
    (hg : methodGuard f r q.method = true) (hb : q.method.hasBody = true → q.body = .json)
    (hs : sessionBad r q = false)
    (hl : effectiveLevel r q.auth < required fn) :
    serve f q = .refused (if effectiveLevel r q.auth = .none then 401 else 403) fn := by
  rw [serve_api hm hr, hh]
  simp only [hs, hg, Bool.not_true, Bool.false_eq_true, if_false]
  have : (q.method.hasBody && q.body != .json) = false := by
    cases hhb : q.method.hasBody with
    | false => rfl
    | true => rw [hb hhb]; rfl
  simp only [this, Bool.false_eq_true, if_false]
  exact checkLevel_refused _ _ hl

theorem handle_fst_of_not_run {σ : Type} (eff : Func → σ → σ) (f : Features) (s : σ) (q : Req)
    (h : ∀ fn, serve f q ≠ .run fn) : (handle eff f s q).1 = s := by
  unfold handle
  split
  · next fn hs => exact absurd hs (h fn)
  · rfl

theorem handle_snd {σ : Type} (eff : Func → σ → σ) (f : Features) (s : σ) (q : Req) :
    (handle eff f s q).2 = serve f q := by
  unfold handle
  split
  · next fn hs => rw [hs]
  · rfl

theorem handle_run {σ : Type} (eff : Func → σ → σ) (f : Features) (s : σ) (q : Req) (fn : Func)
    (h : serve f q = .run fn) : (handle eff f s q).1 = eff fn s := by
  unfold handle; rw [h]

/-! Spec-level corollaries -/

theorem handlerFn_other (r : Route) : handlerFn r .other = none := by cases r <;> rfl

theorem classify_ne_other {r : Route} {m : Method} {c : Category} (h : classify r m = some c) : m ≠ .other := by
  intro e; subst e
  obtain ⟨fn, hf, _⟩ := spec_handler h
  rw [handlerFn_other] at hf; cases hf

theorem authEnabled_false {r : Route} (h : authEnabled r = false) : r = .slaveEvents := by
  cases r <;> first | rfl | (exfalso; revert h; decide)

theorem specLevel_slaveEvents {m : Method} {c : Category} (h : classify .slaveEvents m = some c) :
    specLevel c = .none := by
  cases m <;> simp [classify] at h
  subst h; rfl

/-- The level the decorator sees is at least the spec level whenever the caller's level is. -/
theorem spec_le_effective {r : Route} {m : Method} {c : Category} {a : Auth}
    (hc : classify r m = some c) (h : specLevel c ≤ levelOf a) : specLevel c ≤ effectiveLevel r a := by
  unfold effectiveLevel
  cases he : authEnabled r with
  | true => simpa using h
  | false =>
    have := authEnabled_false he; subst this
    rw [specLevel_slaveEvents hc]; exact Level.none_le _

/-- A caller can only be below the spec level of an endpoint whose handler authenticates (AUTH_ENABLED). -/
theorem effective_eq_of_low {r : Route} {m : Method} {c : Category} {a : Auth}
    (hc : classify r m = some c) (h : levelOf a < specLevel c) : effectiveLevel r a = levelOf a := by
  unfold effectiveLevel
  cases he : authEnabled r with
  | true => rfl
  | false =>
    have := authEnabled_false he; subst this
    rw [specLevel_slaveEvents hc] at h
    exact absurd h (Level.not_lt.mpr (Level.none_le _))

theorem sessionBad_of_ok {r : Route} {q : Req} (h : q.sessionOk = true) : sessionBad r q = false := by
  unfold sessionBad; simp [h]

end QtVerif.Access
