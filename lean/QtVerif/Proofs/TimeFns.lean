import QtVerif.Model.TimeFns
/-!
Helper lemmas for C16: the per-function temporal specifications (carrier `Int` where order matters, any carrier
where only the shape of the computation matters). The pause theorem is in `Proofs/TimeFnsPause.lean`.
-/
namespace QtVerif.TimeFns
open Num

/-! ## `Int` as carrier -/

@[simp] theorem int_ofInt (a : Int) : (Num.ofInt a : Int) = a := rfl
@[simp] theorem int_add (a b : Int) : Num.add a b = a + b := rfl
@[simp] theorem int_sub (a b : Int) : Num.sub a b = a - b := rfl
@[simp] theorem int_lt (a b : Int) : Num.lt a b = decide (a < b) := rfl
@[simp] theorem int_le (a b : Int) : Num.le a b = decide (a ≤ b) := rfl
@[simp] theorem int_eq (a b : Int) : Num.eq a b = decide (a = b) := rfl


instance instDecEqRes {ε β : Type} [DecidableEq ε] [DecidableEq β] : DecidableEq (Except ε β) := fun a b =>
  match a, b with
  | .ok x, .ok y => if h : x = y then isTrue (h ▸ rfl) else isFalse (fun e => by cases e; exact h rfl)
  | .error x, .error y => if h : x = y then isTrue (h ▸ rfl) else isFalse (fun e => by cases e; exact h rfl)
  | .ok _, .error _ => isFalse (fun e => by cases e)
  | .error _, .ok _ => isFalse (fun e => by cases e)

@[simp] theorem int_mul (a b : Int) : Num.mul a b = a * b := rfl
@[simp] theorem int_trunc (a : Int) : Num.trunc a = a := rfl

/-- Induction on a history by appending the newest sample. -/
theorem snoc_induction {β : Type} {motive : List β → Prop} (nil : motive [])
    (snoc : ∀ l x, motive l → motive (l ++ [x])) : ∀ l, motive l := by
  intro l
  have h : ∀ r : List β, motive r.reverse := by
    intro r
    induction r with
    | nil => exact nil
    | cons x r ih => rw [List.reverse_cons]; exact snoc _ _ ih
  simpa using h l.reverse

/-! ## Running one function over a history of already evaluated arguments -/

/-- Outputs of a step function over a history (oldest first), threading the memory. -/
def runFn {α β : Type} (step : Mem α → β → Mem α × Res α × α) : Mem α → List β → List (Res α)
  | _, [] => []
  | m, x :: rest => (step m x).2.1 :: runFn step (step m x).1 rest

/-- Memory after a history. -/
def memAfter {α β : Type} (step : Mem α → β → Mem α × Res α × α) : Mem α → List β → Mem α
  | m, [] => m
  | m, x :: rest => memAfter step (step m x).1 rest

theorem memAfter_append {α β : Type} (step : Mem α → β → Mem α × Res α × α) (m : Mem α) (h : List β) (x : β) :
    memAfter step m (h ++ [x]) = (step (memAfter step m h) x).1 := by
  induction h generalizing m with
  | nil => rfl
  | cons y r ih => simp only [List.cons_append, memAfter]; exact ih _

theorem runFn_append {α β : Type} (step : Mem α → β → Mem α × Res α × α) (m : Mem α) (h : List β) (x : β) :
    runFn step m (h ++ [x]) = runFn step m h ++ [(step (memAfter step m h) x).2.1] := by
  induction h generalizing m with
  | nil => rfl
  | cons y r ih => simp only [List.cons_append, runFn, memAfter]; rw [ih]

theorem runFn_getLast {α β : Type} (step : Mem α → β → Mem α × Res α × α) (m : Mem α) (h : List β) (x : β) :
    (runFn step m (h ++ [x])).getLast? = some (step (memAfter step m h) x).2.1 := by
  rw [runFn_append]; simp

/-! ## RISING / FALLING / ACC / ACCINC / HYST: the output is a function of the previous and the current sample -/

section edge
variable {α : Type} [Num α]

/-- The only thing these functions remember is the previous sample. -/
theorem edge_mem_is_previous_sample (m : Mem α) (v a : α) :
    (risingStep m v).1.v = some v ∧ (fallingStep m v).1.v = some v ∧
    (accStep m v a).1.v = some v ∧ (accIncStep m v a).1.v = some v := ⟨rfl, rfl, rfl, rfl⟩

def risingOf (prev : Option α) (cur : α) : α :=
  match prev with | some l => if lt l cur then ofInt 1 else ofInt 0 | none => ofInt 0
def fallingOf (prev : Option α) (cur : α) : α :=
  match prev with | some l => if lt cur l then ofInt 1 else ofInt 0 | none => ofInt 0
def accOf (prev : Option α) (cur accu : α) : α :=
  match prev with | some l => add accu (sub cur l) | none => accu
def accIncOf (prev : Option α) (cur accu : α) : α :=
  match prev with | some l => if lt l cur then add accu (sub cur l) else accu | none => accu

theorem memAfter_rising_v (m : Mem α) (h : List α) (x : α) :
    (memAfter (fun m v => risingStep m v) m (h ++ [x])).v = some x := by rw [memAfter_append]; rfl
theorem memAfter_falling_v (m : Mem α) (h : List α) (x : α) :
    (memAfter (fun m v => fallingStep m v) m (h ++ [x])).v = some x := by rw [memAfter_append]; rfl
theorem memAfter_acc_v (m : Mem α) (h : List (α × α)) (x : α × α) :
    (memAfter (fun m (va : α × α) => accStep m va.1 va.2) m (h ++ [x])).v = some x.1 := by
  rw [memAfter_append]; rfl
theorem memAfter_accinc_v (m : Mem α) (h : List (α × α)) (x : α × α) :
    (memAfter (fun m (va : α × α) => accIncStep m va.1 va.2) m (h ++ [x])).v = some x.1 := by
  rw [memAfter_append]; rfl

/-- RISING over any history: the newest output is `prev < cur` of the last two samples, whatever came before
(and 0 on the very first evaluation). -/
theorem rising_last (m : Mem α) (h : List α) (p c : α) :
    (runFn (fun m v => risingStep m v) m (h ++ [p] ++ [c])).getLast? = some (.ok (risingOf (some p) c)) := by
  rw [runFn_getLast]
  show some (risingStep _ c).2.1 = _
  rw [show ∀ m : Mem α, (risingStep m c).2.1 = .ok (risingOf m.v c) from fun _ => rfl, memAfter_rising_v m h p]

theorem falling_last (m : Mem α) (h : List α) (p c : α) :
    (runFn (fun m v => fallingStep m v) m (h ++ [p] ++ [c])).getLast? = some (.ok (fallingOf (some p) c)) := by
  rw [runFn_getLast]
  show some (fallingStep _ c).2.1 = _
  rw [show ∀ m : Mem α, (fallingStep m c).2.1 = .ok (fallingOf m.v c) from fun _ => rfl, memAfter_falling_v m h p]

theorem acc_last (m : Mem α) (h : List (α × α)) (p c : α × α) :
    (runFn (fun m (va : α × α) => accStep m va.1 va.2) m (h ++ [p] ++ [c])).getLast?
      = some (.ok (accOf (some p.1) c.1 c.2)) := by
  rw [runFn_getLast]
  show some (accStep _ c.1 c.2).2.1 = _
  rw [show ∀ m : Mem α, (accStep m c.1 c.2).2.1 = .ok (accOf m.v c.1 c.2) from fun _ => rfl, memAfter_acc_v m h p]

theorem accinc_last (m : Mem α) (h : List (α × α)) (p c : α × α) :
    (runFn (fun m (va : α × α) => accIncStep m va.1 va.2) m (h ++ [p] ++ [c])).getLast?
      = some (.ok (accIncOf (some p.1) c.1 c.2)) := by
  rw [runFn_getLast]
  show some (accIncStep _ c.1 c.2).2.1 = _
  rw [show ∀ m : Mem α, (accIncStep m c.1 c.2).2.1 = .ok (accIncOf m.v c.1 c.2) from fun _ => rfl,
    memAfter_accinc_v m h p]

/-- HYST: new state from the previous output and the current sample and thresholds. -/
def hystOf (prev : Nat) (v th1 th2 : α) : Nat :=
  if (prev == 0 && lt th2 v) || (prev != 0 && le th1 v) then 1 else 0

theorem hyst_step (m : Mem α) (v th1 th2 : α) :
    (hystStep m v th1 th2).1.s = hystOf m.s v th1 th2 ∧
    (hystStep m v th1 th2).2.1 = .ok (ofInt (hystOf m.s v th1 th2 : Nat)) := ⟨rfl, rfl⟩

/-- HYST over any history: the newest output depends only on the previous output (the state) and the current
sample. -/
theorem hyst_last (m : Mem α) (h : List (α × α × α)) (p c : α × α × α) :
    (runFn (fun m (x : α × α × α) => hystStep m x.1 x.2.1 x.2.2) m (h ++ [p] ++ [c])).getLast?
      = some (.ok (ofInt (hystOf
          (hystOf (memAfter (fun m (x : α × α × α) => hystStep m x.1 x.2.1 x.2.2) m h).s p.1 p.2.1 p.2.2)
          c.1 c.2.1 c.2.2 : Nat))) := by
  rw [runFn_getLast, memAfter_append]
  rfl

end edge

/-! ## HELD -/

/-- The trailing run of samples equal to `f`, newest first. -/
def heldRun (f : Int) (h : List (Int × Int)) : List (Int × Int) := h.reverse.takeWhile (fun x => x.2 == f)

/-- "The input has equalled `f` for at least `d`": the current run of equal samples (judged at the evaluation
instants) started at least `d` before the newest sample. The evaluation that starts a run never counts (the code
needs a second evaluation; for `d > 0` and increasing times this is implied by the duration). -/
def heldSpec (f d : Int) (h : List (Int × Int)) : Bool :=
  match heldRun f h with
  | [] => false
  | x :: r => decide (2 ≤ (x :: r).length) && decide (d ≤ x.1 - (r.getLast?.getD x).1)

def heldStep' (P : Params) (f d : Int) (m : Mem Int) (x : Int × Int) : Mem Int × Res Int × Int :=
  heldStep P m x.1 x.2 f d

def HeldInv (f d : Int) (h : List (Int × Int)) (m : Mem Int) : Prop :=
  match heldRun f h with
  | [] => m.s = 0
  | x :: r => m.t = (r.getLast?.getD x).1 ∧
      ((m.s = 1 ∧ heldSpec f d h = false) ∨ (m.s = 2 ∧ heldSpec f d h = true))

theorem heldRun_snoc (f : Int) (h : List (Int × Int)) (x : Int × Int) :
    heldRun f (h ++ [x]) = if x.2 == f then x :: heldRun f h else [] := by
  simp [heldRun, List.takeWhile_cons]

theorem heldRun_mem (f : Int) (h : List (Int × Int)) (y : Int × Int) (hy : y ∈ heldRun f h) : y ∈ h := by
  have := (List.takeWhile_sublist (fun x : Int × Int => x.2 == f) (l := h.reverse)).subset hy
  simpa using this

theorem held_step_inv (P : Params) (f d : Int) (h : List (Int × Int)) (x : Int × Int) (m : Mem Int)
    (hmono : ∀ a ∈ h, a.1 ≤ x.1) (hinv : HeldInv f d h m) :
    HeldInv f d (h ++ [x]) (heldStep' P f d m x).1 ∧
    (heldStep' P f d m x).2.1 = .ok (if heldSpec f d (h ++ [x]) then 1 else 0) := by
  obtain ⟨now, v⟩ := x
  unfold HeldInv heldSpec at *
  rw [heldRun_snoc]
  simp only [heldStep', heldStep, int_eq, int_le, int_lt, int_ofInt, int_add, decide_eq_true_eq, beq_iff_eq]
  by_cases hvf : v = f
  · subst hvf
    simp only [if_true]
    cases hr : heldRun v h with
    | nil =>
      simp only [hr] at hinv
      simp [hinv]
    | cons y r =>
      simp only [hr] at hinv
      have hy : y.1 ≤ now := hmono y (heldRun_mem v h y (by rw [hr]; simp))
      have hlast : ((y :: r).getLast?.getD (now, v)).1 = (r.getLast?.getD y).1 := by
        cases r with
        | nil => simp
        | cons z r' =>
          rw [List.getLast?_cons_cons]
          cases hgl : (z :: r').getLast? with
          | none => simp at hgl
          | some w => simp
      obtain ⟨ht, hs⟩ := hinv
      rw [hlast]
      rcases hs with ⟨hs1, hsp⟩ | ⟨hs2, hsp⟩
      · simp only [hs1, ht]
        by_cases hdue : d ≤ now - (r.getLast?.getD y).1
        · simp [hdue]
        · simp [hdue, hs1, ht]
      · simp only [Bool.and_eq_true, decide_eq_true_eq] at hsp
        have hdue : d ≤ now - (r.getLast?.getD y).1 := by omega
        simp [hs2, ht, hdue]
  · simp [hvf]

theorem held_inv (P : Params) (f d : Int) (h : List (Int × Int)) (hmono : h.Pairwise (fun a b => a.1 ≤ b.1)) :
    HeldInv f d h (memAfter (heldStep' P f d) {} h) := by
  induction h using snoc_induction with
  | nil => simp [HeldInv, heldRun, memAfter]
  | snoc h x ih =>
    rw [List.pairwise_append] at hmono
    rw [memAfter_append]
    exact (held_step_inv P f d h x _ (fun a ha => hmono.2.2 a ha x (by simp)) (ih hmono.1)).1

/-- **HELD over any history** (constant value and duration, non-decreasing evaluation times, any gaps and jumps):
the newest output is true exactly when the input has equalled the value for at least the duration. -/
theorem held_last (P : Params) (f d : Int) (h : List (Int × Int)) (x : Int × Int)
    (hmono : (h ++ [x]).Pairwise (fun a b => a.1 ≤ b.1)) :
    (runFn (heldStep' P f d) {} (h ++ [x])).getLast? = some (.ok (if heldSpec f d (h ++ [x]) then 1 else 0)) := by
  rw [runFn_getLast]
  rw [List.pairwise_append] at hmono
  have hinv := held_inv P f d h hmono.1
  rw [(held_step_inv P f d h x _ (fun a ha => hmono.2.2 a ha x (by simp)) hinv).2]

/-- With a positive duration and strictly increasing times the "second evaluation" clause is implied: HELD is true
iff the current run of equal samples started at least `d` ago. -/
theorem heldSpec_pos (f d : Int) (hd : 0 < d) (h : List (Int × Int)) :
    heldSpec f d h = match heldRun f h with
      | [] => false
      | x :: r => decide (d ≤ x.1 - (r.getLast?.getD x).1) := by
  unfold heldSpec
  cases heldRun f h with
  | nil => rfl
  | cons x r =>
    cases r with
    | nil => simp; omega
    | cons y r' => simp

/-! ## SAMPLE / FREEZE (arguments always available: `x = (now, value, duration)`) -/

/-- SAMPLE on argument values: the hold test, then either the held value or a new sample. -/
def sampleStep (m : Mem Int) (x : Int × Int × Int) : Mem Int × Res Int × Int :=
  if sampleHolds m x.1 then (m, lastValue m, pauseUntil (add (ofInt m.t) m.dur)) else sampleTake m x.1 x.2.1 x.2.2

/-- FREEZE on argument values (`_eval` with its re-entry after expiry). -/
def freezeStep (m : Mem Int) (x : Int × Int × Int) : Mem Int × Res Int × Int :=
  if freezeActive m x.1 then (m, lastValue m, pauseUntil (add (ofInt m.t) m.dur))
  else if differs x.2.1 m.v then ({ m with t := x.1, d := some x.2.2, v := some x.2.1 }, .ok x.2.1, noPause)
  else ({ m with t := 0 }, lastValue { m with t := 0 }, forever)

/-- The tree evaluator on `SAMPLE($i, $j)` with available ports is `sampleStep`. -/
theorem evalNode_sample_ports (P : Params) (env : Env Int) (now : Int) (m : Mem Int) (p : Int) (i j : Nat)
    (v d : Int) (hi : envGet env i = .ok v) (hj : envGet env j = .ok d) :
    (evalNode P env now (.fn .sample m p [.port i, .port j])).2 = (sampleStep m (now, v, d)).2.1 ∧
    ∃ p', (evalNode P env now (.fn .sample m p [.port i, .port j])).1
      = .fn .sample (sampleStep m (now, v, d)).1 p' [.port i, .port j] := by
  rw [evalNode.eq_def]
  simp only [sampleStep]
  by_cases hh : sampleHolds m now = true
  · simp [hh]
  · simp [hh, evalArgs, evalNode, hi, hj, evalStrict, collect, stepStrict, Except.map]

/-- The tree evaluator on `FREEZE($i, $j)` with available ports is `freezeStep`. -/
theorem evalNode_freeze_ports (P : Params) (env : Env Int) (now : Int) (m : Mem Int) (p : Int) (i j : Nat)
    (v d : Int) (hi : envGet env i = .ok v) (hj : envGet env j = .ok d) :
    (evalNode P env now (.fn .freeze m p [.port i, .port j])).2 = (freezeStep m (now, v, d)).2.1 ∧
    ∃ p', (evalNode P env now (.fn .freeze m p [.port i, .port j])).1
      = .fn .freeze (freezeStep m (now, v, d)).1 p' [.port i, .port j] := by
  rw [evalNode.eq_def]
  simp only [freezeStep]
  by_cases ha : freezeActive m now = true
  · simp [ha]
  · by_cases hd : differs v m.v = true
    · simp [ha, evalNode, hi, hj, hd]
    · simp [ha, evalNode, hi, hd]

/-- **SAMPLE holds**: once a value has been sampled at `t` with duration `d`, every later evaluation that comes less
than `d` after `t` yields that value and leaves the memory alone — whatever the inputs are. -/
theorem sample_holds (m : Mem Int) (t v d : Int) (hm : m.t = t ∧ m.v = some v ∧ m.d = some d)
    (xs : List (Int × Int × Int)) (hx : ∀ x ∈ xs, x.1 - t < d) :
    memAfter sampleStep m xs = m ∧ ∀ r ∈ runFn sampleStep m xs, r = .ok v := by
  induction xs with
  | nil => simp [memAfter, runFn]
  | cons x rest ih =>
    have hh : sampleHolds m x.1 = true := by
      simp [sampleHolds, Mem.dur, hm.1, hm.2.2]; exact hx x (by simp)
    have hs : sampleStep m x = (m, .ok v, pauseUntil (add (ofInt m.t) m.dur)) := by
      simp [sampleStep, hh, lastValue, hm.2.1]
    simp only [memAfter, runFn, hs]
    have := ih (fun y hy => hx y (by simp [hy]))
    exact ⟨this.1, by simpa using this.2⟩

/-- **SAMPLE samples again** at the first evaluation that comes at least `d` after the previous sample: the output is
the current input, which is then held for the current duration. -/
theorem sample_resamples (m : Mem Int) (x : Int × Int × Int) (h : ¬ (x.1 - m.t < m.dur)) :
    (sampleStep m x).2.1 = .ok x.2.1 ∧
    (sampleStep m x).1.t = x.1 ∧ (sampleStep m x).1.v = some x.2.1 ∧ (sampleStep m x).1.d = some x.2.2 := by
  have hh : sampleHolds m x.1 = false := by simp [sampleHolds]; omega
  simp [sampleStep, hh, sampleTake]

/-- The very first evaluation samples (times are positive). -/
theorem sample_first (x : Int × Int × Int) (h0 : 0 ≤ x.1) : (sampleStep {} x).2.1 = .ok x.2.1 :=
  (sample_resamples {} x (by simp [Mem.dur]; omega)).1

/-- **FREEZE holds**: after a change was let through at `t ≠ 0` with duration `d`, every later evaluation not later than
`t + d` yields that value and leaves the memory alone — whatever the inputs are. -/
theorem freeze_holds (m : Mem Int) (t v d : Int) (ht : t ≠ 0) (hm : m.t = t ∧ m.v = some v ∧ m.d = some d)
    (xs : List (Int × Int × Int)) (hx : ∀ x ∈ xs, x.1 - t ≤ d) :
    memAfter freezeStep m xs = m ∧ ∀ r ∈ runFn freezeStep m xs, r = .ok v := by
  induction xs with
  | nil => simp [memAfter, runFn]
  | cons x rest ih =>
    have hh : freezeActive m x.1 = true := by
      have := hx x (by simp)
      simp [freezeActive, Mem.dur, hm.1, hm.2.2, ht]; omega
    have hs : freezeStep m x = (m, .ok v, pauseUntil (add (ofInt m.t) m.dur)) := by
      simp [freezeStep, hh, lastValue, hm.2.1]
    simp only [memAfter, runFn, hs]
    have := ih (fun y hy => hx y (by simp [hy]))
    exact ⟨this.1, by simpa using this.2⟩

/-- **FREEZE follows the input again** at the first evaluation later than `t + d` (or when idle): a different input is
let through (and frozen from now on for the current duration), an equal one leaves the output as it is. -/
theorem freeze_follows (m : Mem Int) (x : Int × Int × Int) (h : m.t = 0 ∨ m.dur < x.1 - m.t) :
    (differs x.2.1 m.v = true →
      (freezeStep m x).2.1 = .ok x.2.1 ∧ (freezeStep m x).1.t = x.1 ∧ (freezeStep m x).1.v = some x.2.1 ∧
      (freezeStep m x).1.d = some x.2.2) ∧
    (differs x.2.1 m.v = false → (freezeStep m x).2.1 = lastValue m ∧ (freezeStep m x).1.t = 0 ∧
      (freezeStep m x).1.v = m.v) := by
  have hh : freezeActive m x.1 = false := by
    simp only [freezeActive, int_lt, int_ofInt, Bool.and_eq_false_iff, bne_eq_false_iff_eq, Bool.not_eq_false',
      decide_eq_true_eq]
    rcases h with h | h
    · exact Or.inl h
    · exact Or.inr h
  constructor
  · intro hd; simp [freezeStep, hh, hd]
  · intro hd; simp [freezeStep, hh, hd, lastValue]

/-! ## DERIV / INTEG: samples spaced by the sampling interval (any carrier) -/

section sampled
variable {α : Type} [Num α]

/-- The previously accepted sample `(time, value)` the functions remember. -/
def memBase (m : Mem α) : Option (Int × α) := m.v.map (fun v => (m.t, v))

/-- DERIV by its definition: the difference quotient (per second) between the current sample and the previously
accepted one; a sample closer than the sampling interval to the accepted one is skipped; a gap beyond the time-jump
threshold produces nothing and makes the current sample the new base. -/
def derivSpec (thr : Int) (interval : α) : Option (Int × α) → List (Int × α) → List (Res α)
  | _, [] => []
  | none, x :: r => .ok (ofInt 0) :: derivSpec thr interval (some x) r
  | some b, x :: r =>
    if lt (ofInt (x.1 - b.1)) interval then .error .skipped :: derivSpec thr interval (some b) r
    else if x.1 - b.1 > thr then .error .skipped :: derivSpec thr interval (some x) r
    else if x.1 - b.1 == 0 then .error .exc :: derivSpec thr interval (some b) r
    else .ok (mul (div (sub x.2 b.2) (ofInt (x.1 - b.1))) (ofInt 1000)) :: derivSpec thr interval (some x) r

theorem deriv_spec (P : Params) (interval : α) (h : List (Int × α)) : ∀ m : Mem α,
    runFn (fun m (x : Int × α) => derivStep P m x.1 x.2 interval) m h = derivSpec P.thr interval (memBase m) h := by
  induction h with
  | nil => intro m; cases hb : memBase m <;> simp [runFn, derivSpec]
  | cons x r ih =>
    intro m
    simp only [runFn]
    cases hv : m.v with
    | none =>
      have hb : memBase m = none := by simp [memBase, hv]
      rw [hb, derivSpec, ih]
      simp [derivStep, hv, memBase]
    | some l =>
      have hb : memBase m = some (m.t, l) := by simp [memBase, hv]
      rw [hb, derivSpec, ih]
      simp only [derivStep, hv]
      by_cases h1 : lt (ofInt (x.1 - m.t) : α) interval = true
      · simp [h1, hb]
      · by_cases h2 : x.1 - m.t > P.thr
        · simp [h1, h2, memBase]
        · by_cases h3 : (x.1 - m.t == 0) = true
          · simp [h1, h2, h3, hb]
          · simp [h1, h2, h3, memBase]

/-- INTEG with the accumulator fed back from the port (`INTEG($x, $, T)`): the port value after a history is the
initial value plus the trapezoid areas (value·seconds) between consecutive accepted samples — samples closer than the
sampling interval are skipped, and no area is added across a time jump. -/
def integArea (thr : Int) (interval : α) : α → Option (Int × α) → List (Int × α) → α
  | a, _, [] => a
  | a, none, x :: r => integArea thr interval a (some x) r
  | a, some b, x :: r =>
    if lt (ofInt (x.1 - b.1)) interval then integArea thr interval a (some b) r
    else if x.1 - b.1 > thr then integArea thr interval a (some x) r
    else integArea thr interval (add a (div (mul (add x.2 b.2) (ofInt (x.1 - b.1))) (ofInt 2000))) (some x) r

/-- The port under feedback: a value is written, a skipped evaluation leaves it. -/
def integFeedback (P : Params) (interval : α) : Mem α → α → List (Int × α) → α
  | _, a, [] => a
  | m, a, x :: r =>
    let st := integStep P m x.1 x.2 a interval
    integFeedback P interval st.1 (match st.2.1 with | .ok y => y | .error _ => a) r

theorem integ_trapezoid_sum (P : Params) (interval : α) (h : List (Int × α)) : ∀ (m : Mem α) (a : α),
    integFeedback P interval m a h = integArea P.thr interval a (memBase m) h := by
  induction h with
  | nil => intro m a; cases hb : memBase m <;> simp [integFeedback, integArea]
  | cons x r ih =>
    intro m a
    simp only [integFeedback]
    cases hv : m.v with
    | none =>
      have hb : memBase m = none := by simp [memBase, hv]
      rw [hb, integArea, ih]
      simp [integStep, hv, memBase]
    | some l =>
      have hb : memBase m = some (m.t, l) := by simp [memBase, hv]
      rw [hb, integArea, ih]
      simp only [integStep, hv]
      by_cases h1 : lt (ofInt (x.1 - m.t) : α) interval = true
      · simp [h1, hb]
      · by_cases h2 : x.1 - m.t > P.thr
        · simp [h1, h2, memBase]
        · simp [h1, h2, memBase]

/-- One INTEG step by its definition (any accumulator argument). -/
theorem integ_step (P : Params) (m : Mem α) (now : Int) (v a interval : α) (tb : Int) (vb : α)
    (hb : memBase m = some (tb, vb)) (h1 : lt (ofInt (now - tb) : α) interval = false) (h2 : ¬ now - tb > P.thr) :
    (integStep P m now v a interval).2.1 = .ok (add a (div (mul (add v vb) (ofInt (now - tb))) (ofInt 2000))) := by
  cases hv : m.v with
  | none => simp [memBase, hv] at hb
  | some l =>
    simp only [memBase, hv, Option.map_some, Option.some.injEq, Prod.mk.injEq] at hb
    obtain ⟨rfl, rfl⟩ := hb
    simp [integStep, hv, h1, h2]

end sampled

/-! ## FMAVG / FMEDIAN: mean / median of the last `w` accepted samples -/

/-- The last `k` elements. -/
def lastK {β : Type} (k : Nat) (l : List β) : List β := l.drop (l.length - k)

theorem lastK_length {β : Type} (k : Nat) (l : List β) : (lastK k l).length = min k l.length := by
  simp [lastK]; omega

theorem lastK_snoc {β : Type} (k : Nat) (hk : 1 ≤ k) (l : List β) (x : β) :
    lastK k (l ++ [x]) = lastK (k - 1) l ++ [x] := by
  unfold lastK
  rw [List.length_append, List.length_singleton, List.drop_append_of_le_length (by omega)]
  congr 2; omega

theorem lastK_lastK {β : Type} (j k : Nat) (hjk : j ≤ k) (l : List β) : lastK j (lastK k l) = lastK j l := by
  unfold lastK
  rw [List.drop_drop, List.length_drop]
  congr 1; omega

/-- For an integral width `k ≥ 1` the drop loop keeps the newest `k - 1` samples. -/
theorem trimQ_int (k : Nat) (hk : 1 ≤ k) (q : List Int) : trimQ (k : Int) q = some (lastK (k - 1) q) := by
  induction q with
  | nil => simp [trimQ, lastK]; omega
  | cons x r ih =>
    simp only [trimQ, int_le, int_ofInt]
    by_cases h : (k : Int) ≤ (r.length : Int) + 1
    · simp only [h, decide_true, if_true, ih]
      unfold lastK
      have : (x :: r).length - (k - 1) = (r.length - (k - 1)) + 1 := by simp; omega
      rw [this, List.drop_succ_cons]
    · simp only [h, decide_false, Bool.false_eq_true, if_false]
      unfold lastK
      have : (x :: r).length - (k - 1) = 0 := by simp; omega
      rw [this, List.drop_zero]

theorem lastN_int (k : Nat) (hk : 1 ≤ k) (q : List Int) : lastN (k : Int) q = lastK k q := by
  unfold lastN lastK
  simp only [int_trunc]
  have h0 : ¬ ((k : Int) == 0) = true := by simp; omega
  simp [h0]
  intro hk0; omega

/-- FMAVG / FMEDIAN by their definition (integral width `w ≥ 1`, `k = min w QUEUE_SIZE`): `tl` is the time of the last
accepted sample (0 = none yet), `acc` the accepted samples so far; the output is the aggregate of the last `k`. A
sample closer than the interval to the last accepted one is skipped; after a gap beyond the time-jump threshold the
sample is dropped and the clock re-synchronised. -/
def fmSpec (thr : Int) (agg : List Int → Res Int) (k : Nat) (interval : Int) :
    Int → List Int → List (Int × Int) → List (Res Int)
  | _, _, [] => []
  | tl, acc, x :: r =>
    if tl > 0 ∧ x.1 - tl < interval then .error .skipped :: fmSpec thr agg k interval tl acc r
    else if tl > 0 ∧ x.1 - tl > thr then .error .skipped :: fmSpec thr agg k interval x.1 acc r
    else agg (lastK k (acc ++ [x.2])) :: fmSpec thr agg k interval x.1 (acc ++ [x.2]) r

/-- FMAVG / FMEDIAN on one history element `(now, value)` with constant width and interval. -/
def fmStep' (P : Params) (Q : Nat) (agg : List Int → Res Int) (w : Nat) (interval : Int) (m : Mem Int)
    (x : Int × Int) : Mem Int × Res Int × Int := fmStep P Q agg m x.1 x.2 (w : Int) interval

theorem fm_step_cases (P : Params) (Q : Nat) (agg : List Int → Res Int) (w : Nat) (hw : 1 ≤ w) (hQ : 1 ≤ Q)
    (interval : Int) (m : Mem Int) (x : Int × Int) (acc : List Int) (hm : m.w = lastK (min w Q) acc) :
    (m.t > 0 ∧ x.1 - m.t < interval →
      (fmStep' P Q agg w interval m x).1 = m ∧ (fmStep' P Q agg w interval m x).2.1 = .error .skipped) ∧
    (¬ (m.t > 0 ∧ x.1 - m.t < interval) → m.t > 0 ∧ x.1 - m.t > P.thr →
      (fmStep' P Q agg w interval m x).1 = { m with t := x.1 } ∧
      (fmStep' P Q agg w interval m x).2.1 = .error .skipped) ∧
    (¬ (m.t > 0 ∧ x.1 - m.t < interval) → ¬ (m.t > 0 ∧ x.1 - m.t > P.thr) →
      (fmStep' P Q agg w interval m x).1.w = lastK (min w Q) (acc ++ [x.2]) ∧
      (fmStep' P Q agg w interval m x).1.t = x.1 ∧
      (fmStep' P Q agg w interval m x).2.1 = agg (lastK (min w Q) (acc ++ [x.2]))) := by
  have hk1 : 1 ≤ min w Q := by omega
  have hwq : (if (Q : Int) < (w : Int) then (Q : Int) else (w : Int)) = ((min w Q : Nat) : Int) := by
    by_cases hlt : (Q : Int) < (w : Int)
    · simp [hlt]; omega
    · simp [hlt]; omega
  simp only [fmStep', fmStep, int_lt, int_ofInt, Bool.and_eq_true, decide_eq_true_eq, hwq]
  refine ⟨?_, ?_, ?_⟩
  · intro h1; simp [h1]
  · intro h1 h2
    have h1' : ¬ x.1 - m.t < interval := fun c => h1 ⟨h2.1, c⟩
    simp [h1', h2]
  · intro h1 h2
    simp only [h1, h2, if_false]
    rw [trimQ_int _ hk1, hm, lastK_lastK _ _ (by omega)]
    simp only
    rw [lastN_int _ hk1]
    have hwin : lastK (min w Q - 1) acc ++ [x.2] = lastK (min w Q) (acc ++ [x.2]) := (lastK_snoc _ hk1 _ _).symm
    have hfull : lastK (min w Q) (lastK (min w Q - 1) acc ++ [x.2]) = lastK (min w Q) (acc ++ [x.2]) := by
      rw [hwin, lastK_lastK _ _ (Nat.le_refl _)]
    exact ⟨hwin, trivial, by rw [hfull]⟩

theorem fm_spec (P : Params) (Q : Nat) (agg : List Int → Res Int) (w : Nat) (hw : 1 ≤ w) (hQ : 1 ≤ Q) (interval : Int)
    (h : List (Int × Int)) : ∀ (m : Mem Int) (acc : List Int), m.w = lastK (min w Q) acc →
    runFn (fmStep' P Q agg w interval) m h = fmSpec P.thr agg (min w Q) interval m.t acc h := by
  induction h with
  | nil => intro m acc _; simp [runFn, fmSpec]
  | cons x r ih =>
    intro m acc hm
    obtain ⟨c1, c2, c3⟩ := fm_step_cases P Q agg w hw hQ interval m x acc hm
    simp only [runFn, fmSpec]
    by_cases h1 : m.t > 0 ∧ x.1 - m.t < interval
    · obtain ⟨e1, e2⟩ := c1 h1
      rw [if_pos h1, e1, e2, ih m acc hm]
    · by_cases h2 : m.t > 0 ∧ x.1 - m.t > P.thr
      · obtain ⟨e1, e2⟩ := c2 h1 h2
        rw [if_neg h1, if_pos h2, e1, e2, ih _ acc (by simpa using hm)]
      · obtain ⟨e1, e2, e3⟩ := c3 h1 h2
        rw [if_neg h1, if_neg h2, e3, ih _ (acc ++ [x.2]) e1, e2]

/-- The mean (carrier `Int`: `sum / count`, exact arithmetic stands for the float computation). -/
theorem meanOf_int (win : List Int) : meanOf win = .ok (win.foldl (· + ·) 0 / (win.length : Int)) := rfl

/-! ### The median: `sortAsc` sorts, so `medianOf` is the element at position `⌊n/2⌋` of the ascending arrangement -/

theorem insertSorted_perm (x : Int) (l : List Int) : (insertSorted x l).Perm (x :: l) := by
  induction l with
  | nil => simp [insertSorted]
  | cons y r ih =>
    simp only [insertSorted, int_lt]
    by_cases h : x < y
    · simp [h]
    · simp only [h, decide_false, Bool.false_eq_true, if_false]
      exact (List.Perm.cons y ih).trans (List.Perm.swap x y r)

theorem insertSorted_sorted (x : Int) (l : List Int) (hl : l.Pairwise (· ≤ ·)) :
    (insertSorted x l).Pairwise (· ≤ ·) := by
  induction l with
  | nil => simp [insertSorted]
  | cons y r ih =>
    simp only [insertSorted, int_lt]
    rw [List.pairwise_cons] at hl
    by_cases h : x < y
    · simp only [h, decide_true, if_true, List.pairwise_cons]
      refine ⟨?_, hl⟩
      intro z hz
      cases List.mem_cons.mp hz with
      | inl e => omega
      | inr hz' => have := hl.1 z hz'; omega
    · simp only [h, decide_false, Bool.false_eq_true, if_false, List.pairwise_cons]
      refine ⟨?_, ih hl.2⟩
      intro z hz
      have := (insertSorted_perm x r).subset hz
      cases List.mem_cons.mp this with
      | inl e => omega
      | inr hz' => exact hl.1 z hz'

theorem foldl_insert_perm (l acc : List Int) :
    (l.foldl (fun acc x => insertSorted x acc) acc).Perm (l ++ acc) := by
  induction l generalizing acc with
  | nil => simp
  | cons x r ih =>
    simp only [List.foldl_cons]
    refine (ih _).trans ?_
    refine (List.Perm.append_left r (insertSorted_perm x acc)).trans ?_
    simp [List.perm_middle]

theorem foldl_insert_sorted (l acc : List Int) (hacc : acc.Pairwise (· ≤ ·)) :
    (l.foldl (fun acc x => insertSorted x acc) acc).Pairwise (· ≤ ·) := by
  induction l generalizing acc with
  | nil => simpa
  | cons x r ih => simp only [List.foldl_cons]; exact ih _ (insertSorted_sorted x acc hacc)

theorem sortAsc_perm (l : List Int) : (sortAsc l).Perm l := by
  have := foldl_insert_perm l []; simpa [sortAsc] using this

theorem sortAsc_sorted (l : List Int) : (sortAsc l).Pairwise (· ≤ ·) :=
  foldl_insert_sorted l [] List.Pairwise.nil

/-- **FMEDIAN's aggregate**: for a non-empty window the result is the element at index `⌊n/2⌋` of the ascending
arrangement of the window (a permutation of it, sorted): the median for odd `n`, the UPPER of the two middle
elements for even `n` (the code's choice). -/
theorem medianOf_spec (win : List Int) (hne : win ≠ []) :
    ∃ s : List Int, s.Perm win ∧ s.Pairwise (· ≤ ·) ∧ ∃ hlt : win.length / 2 < s.length,
      medianOf win = .ok s[win.length / 2] := by
  refine ⟨sortAsc win, sortAsc_perm win, sortAsc_sorted win, ?_⟩
  have hlen : (sortAsc win).length = win.length := (sortAsc_perm win).length_eq
  have hpos : 0 < win.length := List.length_pos_iff.mpr hne
  have hlt : win.length / 2 < (sortAsc win).length := by rw [hlen]; omega
  refine ⟨hlt, ?_⟩
  unfold medianOf
  rw [List.getElem?_eq_getElem hlt]

/-! ## SEQUENCE -/

def sumDelays (pairs : List (Int × Int)) : Int := pairs.foldl (fun acc p => acc + p.2) 0

theorem foldl_add_delays (pairs : List (Int × Int)) (s : Int) :
    pairs.foldl (fun acc p => acc + p.2) s = s + sumDelays pairs := by
  unfold sumDelays
  induction pairs generalizing s with
  | nil => simp
  | cons p r ih => simp only [List.foldl_cons]; rw [ih, ih (0 + p.2)]; omega

theorem sumDelays_nonneg (pairs : List (Int × Int)) (h : ∀ p ∈ pairs, 0 ≤ p.2) : 0 ≤ sumDelays pairs := by
  induction pairs with
  | nil => simp [sumDelays]
  | cons p r ih =>
    have := ih (fun q hq => h q (by simp [hq]))
    have hp := h p (by simp)
    simp only [sumDelays, List.foldl_cons] at *
    rw [foldl_add_delays]; unfold sumDelays; omega

/-- The value shown at elapsed time `e` (already reduced modulo the total): value `i` is shown while
`d₀+…+dᵢ₋₁ < e ≤ d₀+…+dᵢ` (and value 0 at `e = 0`). -/
theorem seqPick_window (e : Int) (pre post : List (Int × Int)) (v d s : Int) (hpre : ∀ p ∈ pre, 0 ≤ p.2)
    (hlo : pre = [] ∨ s + sumDelays pre < e) (hhi : e ≤ s + sumDelays pre + d) :
    seqPick e (pre ++ (v, d) :: post) s = some v := by
  induction pre generalizing s with
  | nil =>
    simp only [List.nil_append, seqPick, int_le, int_add]
    simp [sumDelays] at hhi
    simp [hhi]
  | cons p r ih =>
    have hp := hpre p (by simp)
    have hr := sumDelays_nonneg r (fun q hq => hpre q (by simp [hq]))
    have hs : sumDelays (p :: r) = p.2 + sumDelays r := by
      simp only [sumDelays, List.foldl_cons]; rw [foldl_add_delays]; unfold sumDelays; omega
    rw [hs] at hhi
    have hlo' : s + (p.2 + sumDelays r) < e := by
      rcases hlo with h | h
      · cases h
      · rw [hs] at h; exact h
    simp only [List.cons_append, seqPick, int_le, int_add]
    have : ¬ e ≤ s + p.2 := by omega
    simp only [this, decide_false, Bool.false_eq_true, if_false]
    apply ih (s + p.2) (fun q hq => hpre q (by simp [hq]))
    · right; omega
    · omega

/-- **SEQUENCE cycles by elapsed time**: with a positive total the output depends on the elapsed time only modulo the
total — adding any number of whole periods changes nothing. -/
theorem sequence_periodic (m : Mem Int) (now n : Int) (args : List Int) :
    let total := (seqPairs args).foldl (fun acc p => acc + p.2) 0
    0 < total → (sequenceStep m (now + n * total) args).2.1 = (sequenceStep m now args).2.1 := by
  intro total ht
  unfold sequenceStep
  cases hp : seqPairs args with
  | nil => rfl
  | cons p r =>
    simp only [int_add, int_ofInt, int_eq]
    have htot : total = List.foldl (fun acc (p : Int × Int) => acc + p.2) 0 (p :: r) := by simp [total, hp]
    rw [← htot]
    have hne : ¬ total = 0 := by omega
    simp only [hne, decide_false, Bool.false_eq_true, if_false]
    have : Num.pmod (now + n * total - m.t) total = Num.pmod (now - m.t) total := by
      show (now + n * total - m.t) % total = (now - m.t) % total
      have : now + n * total - m.t = (now - m.t) + n * total := by omega
      rw [this, Int.add_mul_emod_self_right]
    rw [this]

/-- SEQUENCE's output in terms of the elapsed time since its start `m.t` modulo the total. -/
theorem sequence_value (m : Mem Int) (now : Int) (args : List Int) (p : Int × Int) (r : List (Int × Int))
    (hp : seqPairs args = p :: r) (ht : 0 < sumDelays (p :: r)) :
    (sequenceStep m now args).2.1 =
      .ok ((seqPick ((now - m.t) % sumDelays (p :: r)) (p :: r) 0).getD p.1) := by
  unfold sequenceStep
  simp only [hp, int_add, int_ofInt, int_eq]
  have hne : ¬ sumDelays (p :: r) = 0 := by omega
  unfold sumDelays at hne ⊢
  simp only [hne, decide_false, Bool.false_eq_true, if_false]
  rfl

/-- The start of the cycle is the first evaluation and never moves afterwards. -/
theorem sequence_start (m : Mem Int) (now : Int) :
    (m.t = 0 → (preStep .sequence m now).t = now) ∧ (m.t ≠ 0 → preStep .sequence m now = m) := by
  constructor <;> intro h <;> simp [preStep, h]

end QtVerif.TimeFns
