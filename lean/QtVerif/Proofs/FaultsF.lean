import QtVerif.Model.Faults
import QtVerif.Proofs.FaultsE
namespace QtVerif.Faults

theorem pollAll_at (P : Params) (E : Env) (now : Nat) (sec : Bool) (Q : Acc → Prop) :
    ∀ (ps : List Port) (a : Acc) (i : Nat) (q : Port), ps[i]? = some q → Q a →
      (∀ a p, p ∈ ps.take i → Q a → Q (pollPort P E now sec a p).1) →
      ∃ a', Q a' ∧ (pollAll P E now sec a ps).2[i]? = some (pollPort P E now sec a' q).2 := by
  intro ps
  induction ps with
  | nil => intro a i q h; simp at h
  | cons p ps ih =>
    intro a i q h hQa hQ
    cases i with
    | zero =>
      simp only [List.getElem?_cons_zero, Option.some.injEq] at h
      subst h
      exact ⟨a, hQa, by simp [pollAll]⟩
    | succ i =>
      simp only [List.getElem?_cons_succ] at h
      obtain ⟨a', hQ', e⟩ := ih (pollPort P E now sec a p).1 i q h (hQ a p (by simp) hQa)
        (fun a0 p0 hp0 => hQ a0 p0 (by simp [List.take_succ_cons, hp0]))
      exact ⟨a', hQ', by simp only [pollAll, List.getElem?_cons_succ]; exact e⟩

theorem find_filter_ne (x p : PortId) (hne : p ≠ x) (errs : List (PortId × Nat)) :
    (errs.filter (fun e => e.1 != p)).find? (fun e => e.1 == x) = errs.find? (fun e => e.1 == x) := by
  induction errs with
  | nil => rfl
  | cons e es ih =>
    by_cases h1 : e.1 = p
    · have hpx : (p == x) = false := by simpa using hne
      simp [h1, hpx, ih]
    · by_cases h2 : (e.1 == x) = true
      · simp [h1, h2]
      · simp [h1, h2, ih]

theorem errContains_find_other (r now : Nat) (errs : List (PortId × Nat)) (p x : PortId) (hne : p ≠ x) :
    (errContains r now errs p).2.find? (fun e => e.1 == x) = errs.find? (fun e => e.1 == x) := by
  unfold errContains
  cases errs.find? (fun e => e.1 == p) with
  | none => rfl
  | some e => simp only []; split
              · exact find_filter_ne x p hne errs
              · rfl

/-- a port's step leaves the error-set entry of every OTHER port alone (the set is keyed by port) -/
theorem pollPort_find_other (P : Params) (E : Env) (now : Nat) (sec : Bool) (a : Acc) (p : Port) (x : PortId)
    (hne : p.id ≠ x) :
    (pollPort P E now sec a p).1.errs.find? (fun e => e.1 == x) = a.errs.find? (fun e => e.1 == x) := by
  unfold pollPort
  split
  · rfl
  · obtain ⟨f1, _, _, _, _, f6, _⟩ := hbStep_fields E sec a p
    split
    · rw [f6]
    · rw [← f6]
      have hne' : (hbStep E sec a p).2.id ≠ x := by rw [f1]; exact hne
      generalize (hbStep E sec a p).1 = a' at *
      generalize (hbStep E sec a p).2 = p' at *
      unfold readStep
      split
      · rfl
      · have hx : (p'.id == x) = false := by simpa using hne'
        cases E.rd p'.id p'.nrd <;> simp only [adopt] <;> (try split) <;>
          simp [errContains_find_other _ _ _ _ _ hne', hx]

theorem errContains_fst_of_find (r now : Nat) (errs errs' : List (PortId × Nat)) (p : PortId)
    (h : errs.find? (fun e => e.1 == p) = errs'.find? (fun e => e.1 == p)) :
    (errContains r now errs p).1 = (errContains r now errs' p).1 := by
  unfold errContains
  rw [h]
  cases errs'.find? (fun e => e.1 == p) with
  | none => rfl
  | some e => simp only []; split <;> rfl

/-- while the entry of port `x` has not expired, no port's step removes or alters it -/
theorem pollPort_find_kept (P : Params) (E : Env) (now : Nat) (sec : Bool) (a : Acc) (p : Port) (x t : Nat)
    (hin : now - t ≤ P.retry) (h : a.errs.find? (fun e => e.1 == x) = some (x, t)) :
    (pollPort P E now sec a p).1.errs.find? (fun e => e.1 == x) = some (x, t) := by
  by_cases hne : p.id = x
  · unfold pollPort
    split
    · exact h
    · obtain ⟨f1, _, _, _, _, f6, _⟩ := hbStep_fields E sec a p
      split
      · rw [f6]; exact h
      · have hc : (errContains P.retry now (hbStep E sec a p).1.errs (hbStep E sec a p).2.id).1 = true := by
          rw [f1, f6, hne]; unfold errContains; rw [h]
          have : ¬ (now - t > P.retry) := by omega
          simp [this]
        rw [(readStep_spec P E now _ _).1 hc, f6]; exact h
  · rw [pollPort_find_other P E now sec a p x hne]; exact h

theorem pollPort_inErr (P : Params) (E : Env) (now : Nat) (sec : Bool) (a : Acc) (p : Port)
    (hc : (errContains P.retry now a.errs p.id).1 = true) :
    (pollPort P E now sec a p).2.nrd = p.nrd ∧ (pollPort P E now sec a p).2.last = p.last := by
  unfold pollPort
  split
  · exact ⟨rfl, rfl⟩
  · obtain ⟨f1, f2, f3, _, _, f6, _⟩ := hbStep_fields E sec a p
    split
    · exact ⟨f2, f3⟩
    · have hc' : (errContains P.retry now (hbStep E sec a p).1.errs (hbStep E sec a p).2.id).1 = true := by
        rw [f1, f6]; exact hc
      rw [(readStep_spec P E now _ _).1 hc']; exact ⟨f2, f3⟩

theorem pushEvals_at (E : Env) (full : Bool) (ch : List PortId) (sn : Snap) (ps : List Port) (i : Nat) :
    (pushEvals E full ch sn ps)[i]? = (ps[i]?).map (pushOne E full ch sn) := by
  unfold pushEvals; simp

theorem pushOne_fields (E : Env) (full : Bool) (ch : List PortId) (sn : Snap) (q : Port) :
    (pushOne E full ch sn q).id = q.id ∧ (pushOne E full ch sn q).last = q.last ∧
    (pushOne E full ch sn q).nrd = q.nrd := by
  unfold pushOne
  cases E.deps q.id with
  | none => exact ⟨rfl, rfl, rfl⟩
  | some ds => simp only []; split <;> exact ⟨rfl, rfl, rfl⟩

/-- the port at position `i` after a pass: untouched (dead loop), or its own step's result, possibly with one
more evaluation request -/
theorem pass_at (P : Params) (E : Env) (k : PassKind) (now : Nat) (s : State) (Q : Acc → Prop) (i : Nat) (q : Port)
    (hq : s.ports[i]? = some q) (hQ0 : Q ⟨s.errs, s.trace, [], false⟩)
    (hQ : ∀ a p, p ∈ s.ports.take i → Q a → Q (pollPort P E now (now / P.ups != s.lastSec) a p).1) :
    ((k == .loop && !s.loopAlive) = true ∧ pass P E k now s = s) ∨
    ((k == .loop && !s.loopAlive) = false ∧ ∃ a' q', Q a' ∧ (pass P E k now s).ports[i]? = some q' ∧
      q'.id = (pollPort P E now (now / P.ups != s.lastSec) a' q).2.id ∧
      q'.last = (pollPort P E now (now / P.ups != s.lastSec) a' q).2.last ∧
      q'.nrd = (pollPort P E now (now / P.ups != s.lastSec) a' q).2.nrd) := by
  unfold pass
  by_cases h0 : (k == PassKind.loop && !s.loopAlive) = true
  · left; simp [h0]
  · right
    refine ⟨by simpa using h0, ?_⟩
    simp only [h0, Bool.false_eq_true, if_false]
    obtain ⟨a', hQa', e⟩ := pollAll_at P E now (now / P.ups != s.lastSec) Q s.ports _ i q hq hQ0 hQ
    generalize pollAll P E now (now / P.ups != s.lastSec) ⟨s.errs, s.trace, [], false⟩ s.ports = r at *
    split
    · exact ⟨a', _, hQa', by unfold kill; split <;> exact e, rfl, rfl, rfl⟩
    · split
      · exact ⟨a', _, hQa', by unfold kill; split <;> exact e, rfl, rfl, rfl⟩
      · refine ⟨a', pushOne E s.fullEval (r.1.changed.map (fun c => c.1)) (snapshot r.2) (pollPort P E now (now / P.ups != s.lastSec) a' q).2, hQa', ?_, ?_⟩
        · simp only [pushEvals_at, e, Option.map_some]
        · exact pushOne_fields E _ _ _ _

theorem modPort_at (p : PortId) (f : Port → Port) (ps : List Port) (i : Nat) :
    (modPort p f ps)[i]? = (ps[i]?).map (fun q => if q.id == p then f q else q) := by
  unfold modPort; simp

theorem evalPort_fields (E : Env) (q : Port) :
    (evalPort E q).id = q.id ∧ (evalPort E q).last = q.last ∧ (evalPort E q).nrd = q.nrd := by
  unfold evalPort
  split
  · exact ⟨rfl, rfl, rfl⟩
  · split
    · exact ⟨rfl, rfl, rfl⟩
    · split
      · exact ⟨rfl, rfl, rfl⟩
      · split <;> exact ⟨rfl, rfl, rfl⟩

theorem writePort_fields (E : Env) (q : Port) :
    (writePort E q).id = q.id ∧ (writePort E q).last = q.last ∧ (writePort E q).nrd = q.nrd := by
  unfold writePort
  split
  · exact ⟨rfl, rfl, rfl⟩
  · split <;> exact ⟨rfl, rfl, rfl⟩

/-- every action other than a pass leaves id, last read value and read counter of every port alone -/
theorem step_nonpass_at (P : Params) (E : Env) (s : State) (a : Action) (hnp : ∀ k now, a ≠ .pass k now) (i : Nat)
    (q : Port) (hq : s.ports[i]? = some q) :
    (step P E s a).errs = s.errs ∧
    ∃ q', (step P E s a).ports[i]? = some q' ∧ q'.id = q.id ∧ q'.last = q.last ∧ q'.nrd = q.nrd := by
  cases a with
  | pass k now => exact absurd rfl (hnp k now)
  | setSrc p v =>
    refine ⟨rfl, (if q.id == p then setReg v q else q), by simp only [step, modPort_at, hq, Option.map_some], ?_⟩
    split <;> exact ⟨rfl, rfl, rfl⟩
  | apiWrite p v k =>
    refine ⟨rfl, (if q.id == p then enqApi v k q else q), by simp only [step, modPort_at, hq, Option.map_some], ?_⟩
    split <;> exact ⟨rfl, rfl, rfl⟩
  | eval p =>
    refine ⟨rfl, (if q.id == p then evalPort E q else q), by simp only [step, modPort_at, hq, Option.map_some], ?_⟩
    split
    · exact evalPort_fields E q
    · exact ⟨rfl, rfl, rfl⟩
  | write p =>
    refine ⟨rfl, (if q.id == p then writePort E q else q), by simp only [step, modPort_at, hq, Option.map_some], ?_⟩
    split
    · exact writePort_fields E q
    · exact ⟨rfl, rfl, rfl⟩
  | create p =>
    refine ⟨rfl, (if q.id == p then setEnabled true q else q), by simp only [step, modPort_at, hq, Option.map_some], ?_⟩
    split <;> exact ⟨rfl, rfl, rfl⟩
  | remove p =>
    refine ⟨rfl, (if q.id == p then setEnabled false q else q), by simp only [step, modPort_at, hq, Option.map_some], ?_⟩
    split <;> exact ⟨rfl, rfl, rfl⟩
  | forceEval => exact ⟨rfl, q, hq, rfl, rfl, rfl⟩
end QtVerif.Faults
