import QtVerif.Proofs.SessionsRun
/-!
Run-level delivery lemmas for C11, part 2: projection of `run` (all sessions) onto one session.

`P : Nat → Bool` marks the request ids that belong to session `sid`. Under the condition that the
listen ops of `sid` carry marked request ids and the listen ops of other sessions carry unmarked ones,
the marked responses of `run` are exactly the responses of `runS sid` (`run_proj`).
-/
namespace QtVerif.Sessions

/-- the waiting request of `s` is marked iff `s` is the session `sid` -/
def SessOk (P : Nat → Bool) (sid : Nat) (s : Sess) : Prop :=
  ∀ r, s.active = some r → (P r = true ↔ s.sid = sid)

/-- every session is `SessOk` and at most one session has id `sid` -/
def Good (P : Nat → Bool) (sid : Nat) : List Sess → Prop
  | [] => True
  | s :: rest => SessOk P sid s ∧ (s.sid = sid → find sid rest = none) ∧ Good P sid rest

theorem filter_all {P : Nat → Bool} {out : List Resp} (h : ∀ x ∈ out, P x.req = true) :
    out.filter (fun x => P x.req) = out := List.filter_eq_self.mpr h

theorem filter_none {P : Nat → Bool} {out : List Resp} (h : ∀ x ∈ out, P x.req = false) :
    out.filter (fun x => P x.req) = [] := by
  apply List.filter_eq_nil_iff.mpr
  intro x hx; simp [h x hx]

/-! ### one session -/

theorem sessOk_out_same {P : Nat → Bool} {sid : Nat} {s : Sess} (hs : SessOk P sid s) (hsid : s.sid = sid)
    {x : Resp} (hx : s.active = some x.req) : P x.req = true := (hs _ hx).mpr hsid

theorem sessOk_out_other {P : Nat → Bool} {sid : Nat} {s : Sess} (hs : SessOk P sid s) (hsid : s.sid ≠ sid)
    {x : Resp} (hx : s.active = some x.req) : P x.req = false := by
  cases h : P x.req with
  | false => rfl
  | true => exact absurd ((hs _ hx).mp h) hsid

theorem listenSess_same {P : Nat → Bool} {sid : Nat} (filt : Bool) (s : Sess) (r lvl timeout now : Nat)
    (hs : SessOk P sid s) (hsid : s.sid = sid) (hP : P r = true) :
    (∀ x ∈ (listenSess filt s r lvl timeout now).2, P x.req = true) ∧
    (listenSess filt s r lvl timeout now).1.sid = sid ∧
    SessOk P sid (listenSess filt s r lvl timeout now).1 := by
  refine ⟨?_, ?_, ?_⟩
  · intro x hx
    rcases listenSess_out filt s r lvl timeout now x hx with h | h
    · exact sessOk_out_same hs hsid h
    · rw [h]; exact hP
  · rw [listenSess_sid]; exact hsid
  · intro r' hr'
    have := listenSess_active filt s r lvl timeout now r' hr'
    subst this
    rw [listenSess_sid]
    exact ⟨fun _ => hsid, fun _ => hP⟩

theorem listenSess_other {P : Nat → Bool} {sid : Nat} (filt : Bool) (s : Sess) (r lvl timeout now : Nat)
    (hs : SessOk P sid s) (hsid : s.sid ≠ sid) (hP : P r = false) :
    (∀ x ∈ (listenSess filt s r lvl timeout now).2, P x.req = false) ∧
    (listenSess filt s r lvl timeout now).1.sid ≠ sid ∧
    SessOk P sid (listenSess filt s r lvl timeout now).1 := by
  refine ⟨?_, ?_, ?_⟩
  · intro x hx
    rcases listenSess_out filt s r lvl timeout now x hx with h | h
    · exact sessOk_out_other hs hsid h
    · rw [h]; exact hP
  · rw [listenSess_sid]; exact hsid
  · intro r' hr'
    have := listenSess_active filt s r lvl timeout now r' hr'
    subst this
    rw [listenSess_sid]
    exact ⟨fun h => (by rw [hP] at h; cases h), fun h => absurd h hsid⟩

theorem newSess_ok (P : Nat → Bool) (sid sid' : Nat) : SessOk P sid (newSess sid') := by
  intro r hr; cases hr

/-! ### trigger -/

theorem find_map (sid : Nat) (f : Sess → Sess) (hf : ∀ s, (f s).sid = s.sid) (l : List Sess) :
    find sid (l.map f) = (find sid l).map f := by
  induction l with
  | nil => rfl
  | cons s rest ih =>
    simp only [List.map_cons, find, hf]
    split
    · rfl
    · exact ih

theorem good_map (P : Nat → Bool) (sid : Nat) (f : Sess → Sess)
    (hf : ∀ s, (f s).sid = s.sid) (ha : ∀ s, (f s).active = s.active) (l : List Sess)
    (hg : Good P sid l) : Good P sid (l.map f) := by
  induction l with
  | nil => trivial
  | cons s rest ih =>
    obtain ⟨h1, h2, h3⟩ := hg
    refine ⟨?_, ?_, ih h3⟩
    · intro r hr; rw [ha] at hr; rw [hf]; exact h1 r hr
    · intro h; rw [hf] at h; rw [find_map sid f hf, h2 h]; rfl

theorem trigfun_sid (cap : Nat) (e : Ev) (s : Sess) :
    (if s.level < e.req then s else push cap s e).sid = s.sid := by split <;> rfl

theorem trigfun_active (cap : Nat) (e : Ev) (s : Sess) :
    (if s.level < e.req then s else push cap s e).active = s.active := by split <;> rfl

/-! ### listen -/

theorem listenList_same {P : Nat → Bool} {sid : Nat} (filt : Bool) (r lvl timeout now : Nat)
    (hP : P r = true) (l : List Sess) (hg : Good P sid l) :
    (listenList filt sid r lvl timeout now l).2.filter (fun x => P x.req) =
        (listenSess filt ((find sid l).getD (newSess sid)) r lvl timeout now).2 ∧
    find sid (listenList filt sid r lvl timeout now l).1 =
        some (listenSess filt ((find sid l).getD (newSess sid)) r lvl timeout now).1 ∧
    Good P sid (listenList filt sid r lvl timeout now l).1 := by
  induction l with
  | nil =>
    have h := listenSess_same (P := P) (sid := sid) filt (newSess sid) r lvl timeout now
      (newSess_ok P sid sid) rfl hP
    simp only [listenList, find, Option.getD]
    refine ⟨filter_all h.1, ?_, h.2.2, fun _ => rfl, trivial⟩
    simp only [h.2.1, if_true]
  | cons s rest ih =>
    obtain ⟨h1, h2, h3⟩ := hg
    simp only [listenList, find]
    by_cases hs : s.sid = sid
    · simp only [hs, if_true, Option.getD]
      have h := listenSess_same (P := P) (sid := sid) filt s r lvl timeout now h1 hs hP
      refine ⟨filter_all h.1, ?_, h.2.2, fun _ => h2 hs, h3⟩
      simp only [find, h.2.1, if_true]
    · simp only [hs, if_false]
      have := ih h3
      refine ⟨this.1, ?_, h1, fun h => absurd h hs, this.2.2⟩
      simp only [find, hs, if_false]
      exact this.2.1

theorem listenList_other {P : Nat → Bool} {sid : Nat} (filt : Bool) (sid' r lvl timeout now : Nat)
    (hne : sid' ≠ sid) (hP : P r = false) (l : List Sess) (hg : Good P sid l) :
    (listenList filt sid' r lvl timeout now l).2.filter (fun x => P x.req) = [] ∧
    find sid (listenList filt sid' r lvl timeout now l).1 = find sid l ∧
    Good P sid (listenList filt sid' r lvl timeout now l).1 := by
  induction l with
  | nil =>
    have h := listenSess_other (P := P) (sid := sid) filt (newSess sid') r lvl timeout now
      (newSess_ok P sid sid') hne hP
    simp only [listenList, find]
    refine ⟨filter_none h.1, ?_, h.2.2, fun hh => absurd hh h.2.1, trivial⟩
    simp only [h.2.1, if_false]
  | cons s rest ih =>
    obtain ⟨h1, h2, h3⟩ := hg
    simp only [listenList]
    by_cases hs : s.sid = sid'
    · simp only [hs, if_true]
      have hs' : s.sid ≠ sid := by rw [hs]; exact hne
      have h := listenSess_other (P := P) (sid := sid) filt s r lvl timeout now h1 hs' hP
      refine ⟨filter_none h.1, ?_, h.2.2, fun hh => absurd hh h.2.1, h3⟩
      simp only [find, h.2.1, hs', if_false]
    · simp only [hs, if_false]
      have := ih h3
      refine ⟨this.1, ?_, h1, fun h => by rw [this.2.1]; exact h2 h, this.2.2⟩
      simp only [find, this.2.1]

/-! ### tick -/

theorem tickList_proj {P : Nat → Bool} {sid : Nat} (fac now : Nat) (l : List Sess) (hg : Good P sid l) :
    (tickList fac now l).2.filter (fun x => P x.req) =
        (match find sid l with | none => [] | some s => (tickSess fac now s).2) ∧
    find sid (tickList fac now l).1 =
        (match find sid l with | none => none | some s => (tickSess fac now s).1) ∧
    Good P sid (tickList fac now l).1 := by
  induction l with
  | nil => exact ⟨rfl, rfl, trivial⟩
  | cons s rest ih =>
    obtain ⟨h1, h2, h3⟩ := hg
    have ihr := ih h3
    simp only [tickList, find, List.filter_append]
    by_cases hs : s.sid = sid
    · have hn := h2 hs
      rw [hn] at ihr
      simp only at ihr
      simp only [hs, if_true]
      have hout : ∀ x ∈ (tickSess fac now s).2, P x.req = true :=
        fun x hx => sessOk_out_same h1 hs (tickSess_out fac now s x hx)
      rw [filter_all hout, ihr.1, List.append_nil]
      refine ⟨rfl, ?_, ?_⟩
      · cases ho : (tickSess fac now s).1 with
        | none => exact ihr.2.1
        | some s' =>
          have := tickSess_sid fac now s s' ho
          simp only [find, this.1, hs, if_true]
      · cases ho : (tickSess fac now s).1 with
        | none => exact ihr.2.2
        | some s' =>
          have := tickSess_sid fac now s s' ho
          refine ⟨?_, fun _ => ihr.2.1, ihr.2.2⟩
          intro r hr; rw [this.1]; exact h1 r (this.2 r hr)
    · simp only [hs, if_false]
      have hout : ∀ x ∈ (tickSess fac now s).2, P x.req = false :=
        fun x hx => sessOk_out_other h1 hs (tickSess_out fac now s x hx)
      rw [filter_none hout, List.nil_append]
      refine ⟨ihr.1, ?_, ?_⟩
      · cases ho : (tickSess fac now s).1 with
        | none => exact ihr.2.1
        | some s' =>
          have := tickSess_sid fac now s s' ho
          simp only [find, this.1, hs, if_false]
          exact ihr.2.1
      · cases ho : (tickSess fac now s).1 with
        | none => exact ihr.2.2
        | some s' =>
          have := tickSess_sid fac now s s' ho
          refine ⟨?_, fun h => by rw [this.1] at h; exact absurd h hs, ihr.2.2⟩
          intro r hr; rw [this.1]; exact h1 r (this.2 r hr)

/-! ### step and run -/

/-- the listen ops of `sid` carry marked request ids, those of other sessions unmarked ones -/
def OpOk (P : Nat → Bool) (sid : Nat) : Op → Prop
  | .listen sid' r _ _ _ => (P r = true ↔ sid' = sid)
  | _ => True

theorem step_proj {P : Nat → Bool} {sid : Nat} (filt : Bool) (cap fac : Nat) (st : State) (op : Op)
    (hop : OpOk P sid op) (hg : Good P sid st.sessions) :
    (step filt cap fac st op).2.filter (fun x => P x.req) =
        (stepS filt cap fac sid (find sid st.sessions) op).2 ∧
    find sid (step filt cap fac st op).1.sessions = (stepS filt cap fac sid (find sid st.sessions) op).1 ∧
    Good P sid (step filt cap fac st op).1.sessions := by
  cases op with
  | trigger e =>
    simp only [step, stepS, trigger]
    exact ⟨rfl, find_map sid _ (trigfun_sid cap e) _,
      good_map P sid _ (trigfun_sid cap e) (trigfun_active cap e) _ hg⟩
  | listen sid' r lvl timeout now =>
    simp only [step, stepS]
    by_cases hs : sid' = sid
    · subst hs
      simp only [if_true]
      exact listenList_same filt r lvl timeout now (hop.mpr rfl) _ hg
    · simp only [hs, if_false]
      have hP : P r = false := by
        cases h : P r with
        | false => rfl
        | true => exact absurd (hop.mp h) hs
      exact listenList_other filt sid' r lvl timeout now hs hP _ hg
  | tick now =>
    simp only [step, stepS]
    have := tickList_proj (P := P) (sid := sid) fac now st.sessions hg
    cases hf : find sid st.sessions with
    | none => rw [hf] at this; exact this
    | some s => rw [hf] at this; exact this

/-- **Projection.** The marked responses of the full run are the responses of the one-session run, and
the session `sid` of the final state is the final state of the one-session run. -/
theorem run_proj {P : Nat → Bool} {sid : Nat} (filt : Bool) (cap fac : Nat) (ops : List Op) (st : State)
    (hops : ∀ op ∈ ops, OpOk P sid op) (hg : Good P sid st.sessions) :
    (run filt cap fac st ops).2.filter (fun x => P x.req) =
        (runS filt cap fac sid (find sid st.sessions) ops).2 ∧
    find sid (run filt cap fac st ops).1.sessions = (runS filt cap fac sid (find sid st.sessions) ops).1 := by
  induction ops generalizing st with
  | nil => exact ⟨rfl, rfl⟩
  | cons op ops ih =>
    have h1 := step_proj filt cap fac st op (hops op (List.mem_cons_self ..)) hg
    have h2 := ih (step filt cap fac st op).1 (fun o ho => hops o (List.mem_cons_of_mem _ ho)) h1.2.2
    simp only [run, runS, List.filter_append]
    rw [h1.1, h2.1, h2.2, h1.2.1]
    exact ⟨rfl, rfl⟩

/-! ### tying requests to sessions by the `listen sid req …` ops -/

/-- request ids of the listen calls of session `sid`, in call order -/
def reqsOf (sid : Nat) : List Op → List Nat
  | [] => []
  | .listen s r _ _ _ :: ops => if s = sid then r :: reqsOf sid ops else reqsOf sid ops
  | .trigger _ :: ops => reqsOf sid ops
  | .tick _ :: ops => reqsOf sid ops

theorem mem_reqsOf {sid r : Nat} {ops : List Op} :
    r ∈ reqsOf sid ops ↔ ∃ lvl timeout now, Op.listen sid r lvl timeout now ∈ ops := by
  induction ops with
  | nil => simp [reqsOf]
  | cons op ops ih =>
    cases op with
    | trigger e => simp [reqsOf, ih]
    | tick n => simp [reqsOf, ih]
    | listen s r' l t n =>
      simp only [reqsOf]
      split
      · rename_i h; subst h
        simp only [List.mem_cons, ih, Op.listen.injEq]
        constructor
        · rintro (h | ⟨a, b, c, h⟩)
          · subst h; exact ⟨l, t, n, Or.inl ⟨trivial, rfl, rfl, rfl, rfl⟩⟩
          · exact ⟨a, b, c, Or.inr h⟩
        · rintro ⟨a, b, c, h | h⟩
          · exact Or.inl h.2.1
          · exact Or.inr ⟨a, b, c, h⟩
      · rename_i h
        simp only [List.mem_cons, ih, Op.listen.injEq]
        constructor
        · rintro ⟨a, b, c, h⟩; exact ⟨a, b, c, Or.inr h⟩
        · rintro ⟨a, b, c, h' | h'⟩
          · exact absurd h'.1.symm h
          · exact ⟨a, b, c, h'⟩

/-- No listen call of another session uses a request id that a listen call of `sid` uses (in the code a
request is a fresh future object, so request ids are never shared). -/
def ReqsSeparate (sid : Nat) (ops : List Op) : Prop :=
  ∀ sid' r lvl timeout now, Op.listen sid' r lvl timeout now ∈ ops → sid' ≠ sid → r ∉ reqsOf sid ops

/-- responses of the run that answer listen requests of session `sid`, in response order -/
def responsesOf (filt : Bool) (cap fac sid : Nat) (ops : List Op) : List Resp :=
  (run filt cap fac State.init ops).2.filter (fun x => decide (x.req ∈ reqsOf sid ops))

/-- `D`: the events delivered to session `sid` over the whole history, in delivery order -/
def delivered (filt : Bool) (cap fac sid : Nat) (ops : List Op) : List Ev :=
  evs (responsesOf filt cap fac sid ops)

theorem opOk_of_separate {sid : Nat} {all : List Op} (hsep : ReqsSeparate sid all) :
    ∀ op ∈ all, OpOk (fun r => decide (r ∈ reqsOf sid all)) sid op := by
  intro op hop
  cases op with
  | trigger e => trivial
  | tick n => trivial
  | listen s r l t n =>
    simp only [OpOk, decide_eq_true_eq]
    constructor
    · intro h
      apply Classical.byContradiction
      intro hne
      exact hsep s r l t n hop hne h
    · intro h; subst h; exact mem_reqsOf.mpr ⟨l, t, n, hop⟩

theorem responsesOf_eq_runS (filt : Bool) (cap fac sid : Nat) (ops : List Op) (hsep : ReqsSeparate sid ops) :
    responsesOf filt cap fac sid ops = (runS filt cap fac sid none ops).2 ∧
    find sid (run filt cap fac State.init ops).1.sessions = (runS filt cap fac sid none ops).1 :=
  run_proj (P := fun r => decide (r ∈ reqsOf sid ops)) filt cap fac ops State.init
    (opOk_of_separate hsep) trivial

/-- the same for a prefix of the history (marking by the request ids of the whole history) -/
theorem prefix_find_eq_runS (filt : Bool) (cap fac sid : Nat) (pre post : List Op)
    (hsep : ReqsSeparate sid (pre ++ post)) :
    find sid (run filt cap fac State.init pre).1.sessions = (runS filt cap fac sid none pre).1 :=
  (run_proj (P := fun r => decide (r ∈ reqsOf sid (pre ++ post))) filt cap fac pre State.init
    (fun op hop => opOk_of_separate hsep op (List.mem_append_left _ hop)) trivial).2

end QtVerif.Sessions
