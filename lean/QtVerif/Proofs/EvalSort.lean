import QtVerif.Proofs.EvalSpecs
/-!
C02 helper lemmas: the model's `points.sort(key=lambda p: p[0])` (`sortPts` = repeated `insertPt`) returns a SORTED,
STABLE PERMUTATION of the table, for every carrier, whenever `<` is a strict weak order on the x's of the table
(`WeakOrderOn`: always on bools/ints, on floats without NaN).
-/
set_option linter.unusedSimpArgs false
set_option linter.unusedSectionVars false
namespace QtVerif.Eval
open QtVerif.Syntax QtVerif.Num
variable {α : Type} [PyFloat α]

abbrev Pt (α : Type) := Val α × Val α

/-- `p` is not after `q` in the order of the x's: `¬ q.x < p.x` -/
def ptLe (p q : Pt α) : Prop := vlt q.1 p.1 = false

/-- sorted by x -/
def SortedPts (l : List (Pt α)) : Prop := l.Pairwise ptLe

/-! ### permutation (no order law needed) -/

theorem insertPt_perm (p : Pt α) (l : List (Pt α)) : (insertPt p l).Perm (p :: l) := by
  induction l with
  | nil => simp [insertPt]
  | cons q rest ih =>
    simp only [insertPt]
    split
    · exact List.Perm.refl _
    · exact (List.Perm.cons q ih).trans (List.Perm.swap p q rest)

theorem sortPts_perm (l : List (Pt α)) : (sortPts l).Perm l := by
  unfold sortPts
  suffices h : ∀ acc : List (Pt α), (l.foldl (fun acc p => insertPt p acc) acc).Perm (l.reverse ++ acc) by
    have := h []
    simp at this
    exact this.trans (List.reverse_perm l)
  induction l with
  | nil => intro acc; simp
  | cons p rest ih =>
    intro acc
    simp only [List.foldl, List.reverse_cons, List.append_assoc, List.singleton_append]
    exact (ih (insertPt p acc)).trans (List.Perm.append_left _ (insertPt_perm p acc))

theorem mem_sortPts (l : List (Pt α)) (q : Pt α) : q ∈ sortPts l ↔ q ∈ l := (sortPts_perm l).mem_iff

/-! ### sortedness -/

theorem insertPt_sortedPts (S : List (Val α)) (w : WeakOrderOn S) (p : Pt α) (l : List (Pt α))
    (hp : p.1 ∈ S) (hl : ∀ q ∈ l, q.1 ∈ S) (hs : SortedPts l) : SortedPts (insertPt p l) := by
  induction l with
  | nil => simp [insertPt, SortedPts]
  | cons q rest ih =>
    have hq := hl q (by simp)
    have hrest : ∀ x ∈ rest, x.1 ∈ S := fun x hx => hl x (List.mem_cons_of_mem _ hx)
    unfold SortedPts at hs
    rw [List.pairwise_cons] at hs
    simp only [insertPt]
    by_cases hlt : vlt p.1 q.1 = true
    · simp only [hlt, if_true]
      unfold SortedPts
      rw [List.pairwise_cons]
      refine ⟨?_, List.pairwise_cons.mpr hs⟩
      intro x hx
      -- p < q ≤ x, so ¬ x < p
      rcases List.mem_cons.mp hx with h | h
      · rw [h]; exact w.asymm p.1 hp q.1 hq hlt
      · have hqx : vlt x.1 q.1 = false := hs.1 x h
        show vlt x.1 p.1 = false
        cases hxp : vlt x.1 p.1
        · rfl
        · rcases w.negTrans x.1 (hrest x h) q.1 hq p.1 hp hxp with h1 | h1
          · rw [hqx] at h1; cases h1
          · have := w.asymm p.1 hp q.1 hq hlt; rw [this] at h1; cases h1
    · have hlt' : vlt p.1 q.1 = false := by simpa using hlt
      simp only [hlt', Bool.false_eq_true, if_false]
      unfold SortedPts
      rw [List.pairwise_cons]
      refine ⟨?_, ih hrest hs.2⟩
      intro x hx
      rcases List.mem_cons.mp ((insertPt_perm p rest).mem_iff.mp hx) with h | h
      · rw [h]; exact hlt'
      · exact hs.1 x h

/-- **The table the model sorts is sorted by x** (every carrier; `<` a strict weak order on the x's). -/
theorem sortPts_sorted (l : List (Pt α)) (w : WeakOrderOn (l.map (·.1))) : SortedPts (sortPts l) := by
  unfold sortPts
  suffices h : ∀ (rest acc : List (Pt α)), (∀ q ∈ rest, q.1 ∈ l.map (·.1)) → (∀ q ∈ acc, q.1 ∈ l.map (·.1)) →
      SortedPts acc → SortedPts (rest.foldl (fun acc p => insertPt p acc) acc) by
    exact h l [] (fun q hq => List.mem_map.mpr ⟨q, hq, rfl⟩) (by intro q hq; cases hq) (by simp [SortedPts])
  intro rest
  induction rest with
  | nil => intro acc _ _ hs; exact hs
  | cons p rest ih =>
    intro acc hr ha hs
    simp only [List.foldl]
    apply ih
    · exact fun q hq => hr q (List.mem_cons_of_mem _ hq)
    · intro q hq
      rcases List.mem_cons.mp ((insertPt_perm p acc).mem_iff.mp hq) with h | h
      · rw [h]; exact hr p (by simp)
      · exact ha q h
    · exact insertPt_sortedPts _ w p acc (hr p (by simp)) ha hs

/-! ### stability: points with equivalent x keep their relative order -/

/-- `v` is in the x-class of `r`: neither is smaller -/
def sameKey (r v : Val α) : Bool := !(vlt v r) && !(vlt r v)

theorem insertPt_filter (S : List (Val α)) (w : WeakOrderOn S) (r : Val α) (hr : r ∈ S) (p : Pt α) (l : List (Pt α))
    (hp : p.1 ∈ S) (hl : ∀ q ∈ l, q.1 ∈ S) (hs : SortedPts l) :
    (insertPt p l).filter (fun q => sameKey r q.1) =
      l.filter (fun q => sameKey r q.1) ++ (if sameKey r p.1 then [p] else []) := by
  induction l with
  | nil => simp [insertPt, List.filter]; split <;> simp_all
  | cons q rest ih =>
    have hq := hl q (by simp)
    have hrest : ∀ x ∈ rest, x.1 ∈ S := fun x hx => hl x (List.mem_cons_of_mem _ hx)
    unfold SortedPts at hs
    rw [List.pairwise_cons] at hs
    simp only [insertPt]
    by_cases hlt : vlt p.1 q.1 = true
    · simp only [hlt, if_true]
      by_cases hrp : sameKey r p.1 = true
      · -- everything from q on is greater than p, hence not in p's class
        have hnone : ∀ x ∈ q :: rest, sameKey r x.1 = false := by
          intro x hx
          have hx' : x.1 ∈ S := hl x hx
          have hpx : vlt p.1 x.1 = true := by
            rcases List.mem_cons.mp hx with h | h
            · rw [h]; exact hlt
            · have hqx : vlt x.1 q.1 = false := hs.1 x h
              rcases w.negTrans p.1 hp x.1 hx' q.1 hq hlt with h1 | h1
              · exact h1
              · rw [hqx] at h1; cases h1
          simp only [sameKey, Bool.and_eq_true, Bool.not_eq_true'] at hrp
          cases hsx : sameKey r x.1
          · rfl
          · simp only [sameKey, Bool.and_eq_true, Bool.not_eq_true'] at hsx
            rcases w.negTrans p.1 hp r hr x.1 hx' hpx with h1 | h1
            · rw [hrp.1] at h1; cases h1
            · rw [hsx.2] at h1; cases h1
        have hf : (q :: rest).filter (fun x => sameKey r x.1) = [] := by
          rw [List.filter_eq_nil_iff]; intro x hx; simp [hnone x hx]
        rw [List.filter_cons, hrp, if_pos rfl, hf]; simp
      · have hrp' : sameKey r p.1 = false := by simpa using hrp
        rw [List.filter_cons, hrp']; simp
    · have hlt' : vlt p.1 q.1 = false := by simpa using hlt
      simp only [hlt', Bool.false_eq_true, if_false]
      rw [List.filter_cons, List.filter_cons, ih hrest hs.2]
      split <;> simp

/-- **The model's sort is stable**: within every class of equivalent x's the points come out in table order. -/
theorem sortPts_stable (l : List (Pt α)) (r : Val α) (w : WeakOrderOn (r :: l.map (·.1))) :
    (sortPts l).filter (fun q => sameKey r q.1) = l.filter (fun q => sameKey r q.1) := by
  unfold sortPts
  suffices h : ∀ (rest acc : List (Pt α)), (∀ q ∈ rest, q.1 ∈ r :: l.map (·.1)) → (∀ q ∈ acc, q.1 ∈ r :: l.map (·.1)) →
      SortedPts acc →
      (rest.foldl (fun acc p => insertPt p acc) acc).filter (fun q => sameKey r q.1) =
        acc.filter (fun q => sameKey r q.1) ++ rest.filter (fun q => sameKey r q.1) by
    have := h l [] (fun q hq => List.mem_cons_of_mem _ (List.mem_map.mpr ⟨q, hq, rfl⟩)) (by intro q hq; cases hq)
      (by simp [SortedPts])
    simpa using this
  intro rest
  induction rest with
  | nil => intro acc _ _ _; simp
  | cons p rest ih =>
    intro acc hr ha hs
    have hp := hr p (by simp)
    simp only [List.foldl]
    rw [ih (insertPt p acc) (fun q hq => hr q (List.mem_cons_of_mem _ hq))
      (by
        intro q hq
        rcases List.mem_cons.mp ((insertPt_perm p acc).mem_iff.mp hq) with h | h
        · rw [h]; exact hp
        · exact ha q h)
      (insertPt_sortedPts _ w p acc hp ha hs),
      insertPt_filter _ w r (by simp) p acc hp ha hs, List.filter_cons]
    split <;> simp

end QtVerif.Eval
