import QtVerif.Model.Store
/-!
Helper lemmas for C06, part 1: the value codec (`utils/json.py` dumps/loads over the character-level model of
CPython's json): decimal numerals, hex escapes, the string escape/unescape round trip.
-/
namespace QtVerif.Store

/-! ### decimal numerals -/

theorem digitsVal_append (acc : Nat) (s : Str) (c : Nat) :
    digitsVal acc (s ++ [c]) = digitsVal acc s * 10 + (c - 48) := by
  induction s generalizing acc with
  | nil => rfl
  | cons a t ih =>
    show digitsVal (acc * 10 + (a - 48)) (t ++ [c]) = digitsVal (acc * 10 + (a - 48)) t * 10 + (c - 48)
    exact ih _

theorem toDecAux_spec : ∀ fuel n, n ≤ fuel →
    (toDecAux fuel n).all isDigit = true ∧ toDecAux fuel n ≠ [] ∧ digitsVal 0 (toDecAux fuel n) = n ∧
    ((toDecAux fuel n).head? = some 48 → n = 0) := by
  intro fuel
  induction fuel with
  | zero =>
    intro n hn
    have : n = 0 := by omega
    subst this
    exact ⟨by decide, by decide, by decide, fun _ => rfl⟩
  | succ f ih =>
    intro n hn
    unfold toDecAux
    by_cases h : n < 10
    · rw [if_pos h]
      refine ⟨?_, by simp, ?_, ?_⟩
      · simp only [List.all_cons, List.all_nil, Bool.and_true, isDigit, Bool.and_eq_true, decide_eq_true_eq]; omega
      · show 0 * 10 + (48 + n - 48) = n
        omega
      · intro hh
        simp only [List.head?_cons, Option.some.injEq] at hh
        omega
    · rw [if_neg h]
      obtain ⟨h1, h2, h3, h4⟩ := ih (n / 10) (by omega)
      refine ⟨?_, by simp, ?_, ?_⟩
      · rw [List.all_append, h1]
        simp only [List.all_cons, List.all_nil, Bool.and_true, isDigit, Bool.and_eq_true, decide_eq_true_eq, Bool.true_and]; omega
      · rw [digitsVal_append, h3]; omega
      · intro hh
        have : (toDecAux f (n / 10)).head? = some 48 := by
          cases hx : toDecAux f (n / 10) with
          | nil => exact absurd hx h2
          | cons a t => rw [hx] at hh; simpa using hh
        have := h4 this
        omega

theorem toDec_digits (n : Nat) : (toDec n).all isDigit = true := (toDecAux_spec n n (Nat.le_refl _)).1
theorem toDec_ne_nil (n : Nat) : toDec n ≠ [] := (toDecAux_spec n n (Nat.le_refl _)).2.1
theorem toDec_val (n : Nat) : digitsVal 0 (toDec n) = n := (toDecAux_spec n n (Nat.le_refl _)).2.2.1
theorem toDec_head_zero (n : Nat) (h : (toDec n).head? = some 48) : n = 0 := (toDecAux_spec n n (Nat.le_refl _)).2.2.2 h

/-- `int(str(n)) = n` -/
theorem parseDec_toDec (n : Nat) : parseDec (toDec n) = some n := by
  unfold parseDec
  rw [if_pos ⟨toDec_ne_nil n, toDec_digits n⟩, toDec_val]

theorem toDec_head_digit (n : Nat) : ∃ c t, toDec n = c :: t ∧ isDigit c = true := by
  cases h : toDec n with
  | nil => exact absurd h (toDec_ne_nil n)
  | cons c t =>
    refine ⟨c, t, rfl, ?_⟩
    have := toDec_digits n
    rw [h] at this
    simp only [List.all_cons, Bool.and_eq_true] at this
    exact this.1

theorem parseInt_toDec (n : Nat) : parseInt (toDec n) = some (n : Int) := by
  obtain ⟨c, t, h, hd⟩ := toDec_head_digit n
  have h45 : c ≠ 45 := by intro e; subst e; simp [isDigit] at hd
  have h43 : c ≠ 43 := by intro e; subst e; simp [isDigit] at hd
  have : parseInt (c :: t) = (parseDec (c :: t)).map (fun n => (n : Int)) := by
    unfold parseInt
    split
    · rename_i heq; injection heq with h1 _; exact absurd h1 h45
    · rename_i heq; injection heq with h1 _; exact absurd h1 h43
    · rfl
  rw [h, this, ← h, parseDec_toDec]; rfl

/-! ### strings -/

/-- Unicode scalar value -/
def Scalar (c : Nat) : Prop := c < 55296 ∨ (57343 < c ∧ c < 1114112)

theorem hexVal_hexDigit (d : Nat) (h : d < 16) : hexVal (hexDigit d) = some d := by
  unfold hexVal hexDigit
  split <;> split <;> (try split) <;> (try split) <;> simp <;> omega

theorem parseHex4_hex4 (n : Nat) (h : n < 65536) (rest : Str) : parseHex4 (hex4 n ++ rest) = some (n, rest) := by
  unfold hex4
  simp only [List.cons_append, List.nil_append, parseHex4]
  rw [hexVal_hexDigit _ (by omega), hexVal_hexDigit _ (by omega), hexVal_hexDigit _ (by omega), hexVal_hexDigit _ (by omega)]
  simp only [Option.some.injEq, Prod.mk.injEq, and_true]
  omega


theorem parse_plain (c : Nat) (h34 : c ≠ 34) (h92 : c ≠ 92) (h32 : ¬ c < 32) (f : Nat) (tail : Str) :
    parseStrBody (f + 1) (c :: tail) = (parseStrBody f tail).map (fun p => (c :: p.1, p.2)) := by
  simp [parseStrBody, h34, h92, h32]

theorem parse_u_bmp (c : Nat) (hb : c < 65536) (hns : ¬ (55296 ≤ c ∧ c ≤ 56319)) (f : Nat) (tail : Str) :
    parseStrBody (f + 1) (92 :: 117 :: (hex4 c ++ tail)) = (parseStrBody f tail).map (fun p => (c :: p.1, p.2)) := by
  simp [parseStrBody, parseHex4_hex4 c hb, hns]


theorem parse_u_pair (hi lo : Nat) (hhi : 55296 ≤ hi ∧ hi ≤ 56319) (hlo : 56320 ≤ lo ∧ lo ≤ 57343) (f : Nat) (tail : Str) :
    parseStrBody (f + 1) (92 :: 117 :: (hex4 hi ++ 92 :: 117 :: (hex4 lo ++ tail))) =
      (parseStrBody f tail).map (fun p => ((65536 + (hi - 55296) * 1024 + (lo - 56320)) :: p.1, p.2)) := by
  have h1 : hi < 65536 := by omega
  have h2 : lo < 65536 := by omega
  simp [parseStrBody, parseHex4_hex4 hi h1, parseHex4_hex4 lo h2, hhi, hlo]


theorem parse_escChar (c : Nat) (hc : Scalar c) (f : Nat) (tail : Str) :
    parseStrBody (f + 1) (escChar c ++ tail) = (parseStrBody f tail).map (fun p => (c :: p.1, p.2)) := by
  unfold escChar
  by_cases h34 : c = 34
  · subst h34; simp [parseStrBody]
  by_cases h92 : c = 92
  · subst h92; simp [parseStrBody]
  by_cases h10 : c = 10
  · subst h10; simp [parseStrBody]
  by_cases h13 : c = 13
  · subst h13; simp [parseStrBody]
  by_cases h9 : c = 9
  · subst h9; simp [parseStrBody]
  by_cases h8 : c = 8
  · subst h8; simp [parseStrBody]
  by_cases h12 : c = 12
  · subst h12; simp [parseStrBody]
  simp only [h34, h92, h10, h13, h9, h8, h12, if_false]
  by_cases hp : 32 ≤ c ∧ c ≤ 126
  · rw [if_pos hp]
    exact parse_plain c h34 h92 (by omega) f tail
  rw [if_neg hp]
  by_cases hb : c < 65536
  · rw [if_pos hb]
    exact parse_u_bmp c hb (by unfold Scalar at hc; omega) f tail
  · rw [if_neg hb]
    have hlt : c < 1114112 := by unfold Scalar at hc; omega
    have := parse_u_pair (55296 + (c - 65536) / 1024 % 1024) (56320 + (c - 65536) % 1024) (by omega) (by omega) f tail
    simp only [List.cons_append, List.append_assoc] at this ⊢
    rw [this]
    have e : 65536 + (55296 + (c - 65536) / 1024 % 1024 - 55296) * 1024 + (56320 + (c - 65536) % 1024 - 56320) = c := by omega
    rw [e]

/-- **String escape round trip**: scanning the escaped text of `s` (followed by the closing quote) gives back `s`. -/
theorem parseStrBody_escStr (s : Str) (hs : ∀ c ∈ s, Scalar c) (rest : Str) :
    ∀ fuel, s.length < fuel → parseStrBody fuel (escStr s ++ 34 :: rest) = some (s, rest) := by
  induction s with
  | nil =>
    intro fuel hf
    cases fuel with
    | zero => omega
    | succ f => simp [escStr, parseStrBody]
  | cons c t ih =>
    intro fuel hf
    cases fuel with
    | zero => omega
    | succ f =>
      simp only [escStr, List.append_assoc]
      rw [parse_escChar c (hs c (by simp)) f]
      rw [ih (fun x hx => hs x (by simp [hx])) f (by simp at hf; omega)]
      rfl


/-! ### numbers, nested values: `json.loads (json.dumps v) = v` -/


theorem parseVal_null (ft : FloatText) (fuel : Nat) (rest : Str) :
    parseVal ft (fuel + 1) (sNull ++ rest) = some (.null, rest) := by
  simp [parseVal, sNull]

theorem parseVal_true (ft : FloatText) (fuel : Nat) (rest : Str) :
    parseVal ft (fuel + 1) (sTrue ++ rest) = some (.bool true, rest) := by
  simp [parseVal, sTrue]

theorem parseVal_false (ft : FloatText) (fuel : Nat) (rest : Str) :
    parseVal ft (fuel + 1) (sFalse ++ rest) = some (.bool false, rest) := by
  simp [parseVal, sFalse]

theorem escStr_length (s : Str) : s.length ≤ (escStr s).length := by
  induction s with
  | nil => simp [escStr]
  | cons c t ih =>
    have : 1 ≤ (escChar c).length := by
      unfold escChar hex4
      repeat' split
      all_goals simp
    simp only [escStr, List.length_append, List.length_cons]
    omega

theorem parseVal_str (ft : FloatText) (fuel : Nat) (s rest : Str) (hs : ∀ c ∈ s, Scalar c) :
    parseVal ft (fuel + 1) (quoteStr s ++ rest) = some (.str s, rest) := by
  have h : ∀ fuel, s.length < fuel → parseStrBody fuel (escStr s ++ 34 :: rest) = some (s, rest) :=
    parseStrBody_escStr s hs rest
  have hl := escStr_length s
  simp [parseVal, quoteStr]
  rw [h _ (by omega)]


/-- the text after a number must not continue it -/
def NoNumHead (rest : Str) : Prop := ∀ c t, rest = c :: t → isNumChar c = false

theorem takeWhile_append_all (p : Nat → Bool) (a b : Str) (ha : a.all p = true)
    (hb : ∀ c t, b = c :: t → p c = false) :
    (a ++ b).takeWhile p = a ∧ (a ++ b).dropWhile p = b := by
  induction a with
  | nil =>
    cases b with
    | nil => simp
    | cons c t => simp [List.takeWhile, List.dropWhile, hb c t rfl]
  | cons x xs ih =>
    simp only [List.all_cons, Bool.and_eq_true] at ha
    simp [List.takeWhile, List.dropWhile, ha.1, ih ha.2]

theorem toDec_zero : toDec 0 = [48] := by decide

theorem jsonIntBody_toDec (n : Nat) : jsonIntBody (toDec n) = some n := by
  unfold jsonIntBody
  split
  · rename_i heq; exact absurd heq (toDec_ne_nil n)
  · rename_i a b heq
    have : n = 0 := toDec_head_zero n (by rw [heq]; rfl)
    subst this
    rw [toDec_zero] at heq
    injection heq with _ h3
    cases h3
  · exact parseDec_toDec n

theorem parseJsonInt_intToStr (i : Int) : parseJsonInt (intToStr i) = some i := by
  unfold intToStr
  by_cases h : i < 0
  · rw [if_pos h]
    show (jsonIntBody (toDec i.natAbs)).map (fun n => - (n : Int)) = some i
    rw [jsonIntBody_toDec]
    show some (-((i.natAbs : Nat) : Int)) = some i
    congr 1
    omega
  · rw [if_neg h]
    obtain ⟨c, t, hc, hd⟩ := toDec_head_digit i.natAbs
    have h45 : c ≠ 45 := by intro e; subst e; simp [isDigit] at hd
    have : parseJsonInt (toDec i.natAbs) = (jsonIntBody (toDec i.natAbs)).map (fun n => (n : Int)) := by
      rw [hc]
      unfold parseJsonInt
      split
      · rename_i heq; injection heq with h1 _; exact absurd h1 h45
      · rfl
    rw [this, jsonIntBody_toDec]
    show some ((i.natAbs : Nat) : Int) = some i
    congr 1
    omega



theorem parseVal_number (ft : FloatText) (fuel : Nat) (c : Nat) (t rest : Str)
    (hc : c = 45 ∨ isDigit c = true) (hall : (c :: t).all isNumChar = true) (hrest : NoNumHead rest) :
    parseVal ft (fuel + 1) ((c :: t) ++ rest) =
      if (c :: t).any isFloatMark then (ft.parse (c :: t)).map (fun b => (.num b, rest))
      else (parseJsonInt (c :: t)).map (fun i => (.int i, rest)) := by
  have hne : c ≠ 34 ∧ c ≠ 123 ∧ c ≠ 91 ∧ c ≠ 110 ∧ c ≠ 116 ∧ c ≠ 102 := by
    rcases hc with h | h
    · subst h; decide
    · simp only [isDigit, Bool.and_eq_true, decide_eq_true_eq] at h; omega
  obtain ⟨h1, h2, h3, h4, h5, h6⟩ := hne
  have htw := takeWhile_append_all isNumChar (c :: t) rest hall hrest
  simp only [List.cons_append] at htw
  simp only [parseVal, List.cons_append, h1, h2, h3, h4, h5, h6, if_false, hc, if_true, htw.1, htw.2]



/-- What the model assumes of the environment's float and date text functions (`repr`/`float`, `strftime`/`strptime`). -/
structure FtLaw (ft : FloatText) : Prop where
  parse_fmt : ∀ b, finiteBits b = true → ft.parse (ft.fmt b) = some b
  fmt_chars : ∀ b, finiteBits b = true → (ft.fmt b).all isNumChar = true
  fmt_mark : ∀ b, finiteBits b = true → (ft.fmt b).any isFloatMark = true
  fmt_head : ∀ b, finiteBits b = true → ∃ c t, ft.fmt b = c :: t ∧ (c = 45 ∨ isDigit c = true)

/-- a dict that the extended-types hook leaves alone -/
def noTag (o : List (Str × JVal)) : Prop :=
  match dget kT o with
  | some (.str t) => t ≠ tD ∧ t ≠ tDT
  | _ => True

mutual
/-- JSON-representable and outside the recorded limits of the tagged date encoding: finite floats, strings of
Unicode scalar values, dicts with distinct keys that do not look like a tagged date, dates whose `strftime` text
`strptime` reads back. -/
def WF (ft : FloatText) : JVal → Prop
  | .null => True
  | .bool _ => True
  | .int _ => True
  | .num b => finiteBits b = true
  | .str s => ∀ c ∈ s, Scalar c
  | .date dt txt => ft.dateNorm dt (ft.dateFmt dt txt) = some txt ∧ ∀ c ∈ ft.dateFmt dt txt, Scalar c
  | .arr l => WFList ft l
  | .obj o => WFObj ft o ∧ (dkeys o).Nodup ∧ noTag o
def WFList (ft : FloatText) : List JVal → Prop
  | [] => True
  | x :: t => WF ft x ∧ WFList ft t
def WFObj (ft : FloatText) : List (Str × JVal) → Prop
  | [] => True
  | (k, x) :: t => (∀ c ∈ k, Scalar c) ∧ WF ft x ∧ WFObj ft t
end

mutual
def sizeV : JVal → Nat
  | .arr l => 1 + sizeL l
  | .obj o => 1 + sizeO o
  | .date _ _ => 5
  | _ => 1
def sizeL : List JVal → Nat
  | [] => 0
  | x :: t => 1 + sizeV x + sizeL t
def sizeO : List (Str × JVal) → Nat
  | [] => 0
  | (_, x) :: t => 1 + sizeV x + sizeO t
end

theorem skipWs_cons_of_not_ws (c : Nat) (s : Str) (h : isWs c = false) : skipWs (c :: s) = c :: s := by
  simp [skipWs, h]

theorem skipWs_space (s : Str) : skipWs (32 :: s) = skipWs s := by
  simp [skipWs, isWs]

theorem intToStr_shape (i : Int) :
    ∃ c t, intToStr i = c :: t ∧ (c = 45 ∨ isDigit c = true) ∧ (c :: t).all isNumChar = true ∧
      (c :: t).any isFloatMark = false := by
  have hd := toDec_digits i.natAbs
  have hnum : (toDec i.natAbs).all isNumChar = true := by
    rw [List.all_eq_true] at hd ⊢
    intro x hx; have := hd x hx; simp [isNumChar, this]
  have hmark : (toDec i.natAbs).any isFloatMark = false := by
    rw [List.any_eq_false]
    rw [List.all_eq_true] at hd
    intro x hx
    have := hd x hx
    simp only [isDigit, Bool.and_eq_true, decide_eq_true_eq] at this
    simp only [isFloatMark, Bool.or_eq_true, decide_eq_true_eq, not_or]
    omega
  unfold intToStr
  by_cases h : i < 0
  · rw [if_pos h]
    exact ⟨45, _, rfl, Or.inl rfl, by simp [isNumChar, hnum], by simp [isFloatMark, hmark]⟩
  · rw [if_neg h]
    obtain ⟨c, t, hc, hdg⟩ := toDec_head_digit i.natAbs
    rw [hc] at hnum hmark ⊢
    exact ⟨c, t, rfl, Or.inr hdg, hnum, hmark⟩

theorem parseVal_int (ft : FloatText) (fuel : Nat) (i : Int) (rest : Str) (hrest : NoNumHead rest) :
    parseVal ft (fuel + 1) (intToStr i ++ rest) = some (.int i, rest) := by
  obtain ⟨c, t, h, hc, hall, hmark⟩ := intToStr_shape i
  rw [h, parseVal_number ft fuel c t rest hc hall hrest, hmark, ← h, parseJsonInt_intToStr]
  rfl

theorem parseVal_num (ft : FloatText) (law : FtLaw ft) (fuel : Nat) (b : Nat) (hb : finiteBits b = true) (rest : Str)
    (hrest : NoNumHead rest) :
    parseVal ft (fuel + 1) (ft.fmt b ++ rest) = some (.num b, rest) := by
  obtain ⟨c, t, h, hc⟩ := law.fmt_head b hb
  have hall := law.fmt_chars b hb
  have hmark := law.fmt_mark b hb
  rw [h] at hall hmark ⊢
  rw [parseVal_number ft fuel c t rest hc hall hrest, hmark, ← h, law.parse_fmt b hb]
  rfl



def arrTail (ft : FloatText) : List JVal → Str
  | [] => [93]
  | y :: t => 44 :: 32 :: printArr ft (y :: t)

def objTail (ft : FloatText) : List (Str × JVal) → Str
  | [] => [125]
  | y :: t => 44 :: 32 :: printObj ft (y :: t)

theorem printArr_cons (ft : FloatText) (x : JVal) (t : List JVal) :
    printArr ft (x :: t) = printVal ft x ++ arrTail ft t := by
  cases t <;> simp [printArr, arrTail]

theorem printObj_cons (ft : FloatText) (k : Str) (x : JVal) (t : List (Str × JVal)) :
    printObj ft ((k, x) :: t) = quoteStr k ++ 58 :: 32 :: (printVal ft x ++ objTail ft t) := by
  cases t <;> simp [printObj, objTail]

/-- the round-trip statement for one value, in any context that cannot continue a number -/
def RT (ft : FloatText) (v : JVal) : Prop :=
  ∀ rest fuel, NoNumHead rest → sizeV v ≤ fuel → parseVal ft fuel (printVal ft v ++ rest) = some (v, rest)

/-- the printed text starts with a character that is neither white space nor a closing bracket -/
def HeadOK (ft : FloatText) (v : JVal) : Prop :=
  ∃ c t, printVal ft v = c :: t ∧ isWs c = false ∧ c ≠ 93

theorem noNumHead_cons (c : Nat) (s : Str) (h : isNumChar c = false) : NoNumHead (c :: s) := by
  intro c' t' e; injection e with e1 _; rw [← e1]; exact h

theorem rt_elems_gen (ft : FloatText) : ∀ (l : List JVal), l ≠ [] → (∀ x ∈ l, RT ft x ∧ HeadOK ft x) →
    ∀ acc rest fuel, sizeL l ≤ fuel → parseElems ft fuel acc (printArr ft l ++ rest) = some (acc ++ l, rest) := by
  intro l
  induction l with
  | nil => intro h; exact absurd rfl h
  | cons x t ih =>
    intro _ hx acc rest fuel hf
    cases fuel with
    | zero => simp [sizeL] at hf
    | succ f =>
      have hxr := (hx x (by simp)).1
      rw [printArr_cons]
      cases t with
      | nil =>
        show parseElems ft (f + 1) acc (printVal ft x ++ [93] ++ rest) = _
        rw [List.append_assoc]
        show parseElems ft (f + 1) acc (printVal ft x ++ 93 :: rest) = _
        unfold parseElems
        rw [hxr _ f (noNumHead_cons 93 _ (by decide)) (by simp [sizeL] at hf; omega)]
        simp [skipWs_cons_of_not_ws 93 _ (by decide)]
      | cons y t' =>
        show parseElems ft (f + 1) acc (printVal ft x ++ (44 :: 32 :: printArr ft (y :: t')) ++ rest) = _
        rw [List.append_assoc]
        show parseElems ft (f + 1) acc (printVal ft x ++ 44 :: 32 :: (printArr ft (y :: t') ++ rest)) = _
        unfold parseElems
        rw [hxr _ f (noNumHead_cons 44 _ (by decide)) (by simp [sizeL] at hf; omega)]
        obtain ⟨c, tl, hc, hws, _⟩ := (hx y (by simp)).2
        have hy : printArr ft (y :: t') ++ rest = c :: (tl ++ arrTail ft t' ++ rest) := by
          rw [printArr_cons, hc]; simp
        simp only [skipWs_cons_of_not_ws 44 _ (by decide : isWs 44 = false), skipWs_space]
        rw [hy, skipWs_cons_of_not_ws c _ hws, ← hy]
        rw [ih (by simp) (fun z hz => hx z (by simp [hz])) (acc ++ [x]) rest f (by simp [sizeL] at hf ⊢; omega)]
        simp



theorem dset_of_not_mem {β : Type} (k : Str) (v : β) (acc : List (Str × β)) (h : k ∉ dkeys acc) :
    dset k v acc = acc ++ [(k, v)] := by
  induction acc with
  | nil => rfl
  | cons a t ih =>
    obtain ⟨k', v'⟩ := a
    simp only [dkeys, List.map_cons, List.mem_cons, not_or] at h
    have hne : ¬ k' = k := fun e => h.1 e.symm
    simp only [dset, hne, if_false, List.cons_append]
    rw [ih (by simpa [dkeys] using h.2)]

theorem printObj_head (ft : FloatText) (y : Str × JVal) (t : List (Str × JVal)) :
    ∃ tl, printObj ft (y :: t) = 34 :: tl := by
  obtain ⟨k, x⟩ := y
  rw [printObj_cons]
  exact ⟨_, rfl⟩

theorem rt_members_gen (ft : FloatText) : ∀ (o : List (Str × JVal)), o ≠ [] →
    (∀ kv ∈ o, (∀ c ∈ kv.1, Scalar c) ∧ RT ft kv.2 ∧ HeadOK ft kv.2) →
    ∀ acc rest fuel, (∀ kv ∈ o, kv.1 ∉ dkeys acc) → (dkeys o).Nodup → sizeO o ≤ fuel →
      parseMembers ft fuel acc (printObj ft o ++ rest) = some (acc ++ o, rest) := by
  intro o
  induction o with
  | nil => intro h; exact absurd rfl h
  | cons kx t ih =>
    obtain ⟨k, x⟩ := kx
    intro _ hx acc rest fuel hdis hnd hf
    cases fuel with
    | zero => simp [sizeO] at hf
    | succ f =>
      obtain ⟨hk, hxr, c, tl, hc, hws, _⟩ := hx (k, x) (by simp)
      have hkacc : k ∉ dkeys acc := hdis (k, x) (by simp)
      have hsz : sizeV x ≤ f := by simp [sizeO] at hf; omega
      rw [printObj_cons]
      have hstr : ∀ tail : Str, parseStrBody ((escStr k ++ 34 :: tail).length + 1) (escStr k ++ 34 :: tail) = some (k, tail) := by
        intro tail
        apply parseStrBody_escStr k hk tail
        have := escStr_length k
        simp only [List.length_append, List.length_cons]; omega
      cases t with
      | nil =>
        have e : quoteStr k ++ 58 :: 32 :: (printVal ft x ++ objTail ft []) ++ rest =
            34 :: (escStr k ++ 34 :: (58 :: 32 :: (printVal ft x ++ 125 :: rest))) := by
          simp [quoteStr, objTail]
        rw [e]
        unfold parseMembers
        simp only [hstr, skipWs_cons_of_not_ws 58 _ (by decide : isWs 58 = false), skipWs_space]
        rw [hc, List.cons_append, skipWs_cons_of_not_ws c _ hws, ← List.cons_append, ← hc]
        rw [hxr _ f (noNumHead_cons 125 _ (by decide)) hsz]
        simp only [skipWs_cons_of_not_ws 125 _ (by decide : isWs 125 = false)]
        rw [dset_of_not_mem k x acc hkacc]
      | cons y t' =>
        have e : quoteStr k ++ 58 :: 32 :: (printVal ft x ++ objTail ft (y :: t')) ++ rest =
            34 :: (escStr k ++ 34 :: (58 :: 32 :: (printVal ft x ++ 44 :: 32 :: (printObj ft (y :: t') ++ rest)))) := by
          simp [quoteStr, objTail]
        rw [e]
        unfold parseMembers
        simp only [hstr, skipWs_cons_of_not_ws 58 _ (by decide : isWs 58 = false), skipWs_space]
        rw [hc, List.cons_append, skipWs_cons_of_not_ws c _ hws, ← List.cons_append, ← hc]
        rw [hxr _ f (noNumHead_cons 44 _ (by decide)) hsz]
        simp only [skipWs_cons_of_not_ws 44 _ (by decide : isWs 44 = false), skipWs_space]
        obtain ⟨tl2, h34⟩ := printObj_head ft y t'
        rw [h34, List.cons_append, skipWs_cons_of_not_ws 34 _ (by decide), ← List.cons_append, ← h34]
        rw [dset_of_not_mem k x acc hkacc]
        have hnd' : (dkeys (y :: t')).Nodup := by
          simp only [dkeys, List.map_cons, List.nodup_cons] at hnd ⊢
          exact hnd.2
        have hkt : ∀ kv ∈ y :: t', kv.1 ≠ k := by
          intro kv hkv e
          simp only [dkeys, List.map_cons, List.nodup_cons] at hnd
          apply hnd.1
          rw [← e]
          exact List.mem_map_of_mem (f := Prod.fst) hkv
        rw [ih (by simp) (fun kv hkv => hx kv (by simp [hkv])) (acc ++ [(k, x)]) rest f
          (by
            intro kv hkv
            have h1 := hdis kv (by simp [hkv])
            have h2 := hkt kv hkv
            simp only [dkeys, List.map_append, List.map_cons, List.map_nil, List.mem_append, List.mem_singleton, not_or]
            exact ⟨by simpa [dkeys] using h1, h2⟩)
          hnd' (by simp [sizeO] at hf ⊢; omega)]
        simp



theorem parseVal_arrText (ft : FloatText) (l : List JVal) (h : ∀ x ∈ l, RT ft x ∧ HeadOK ft x) (f : Nat) (rest : Str)
    (hf : sizeL l ≤ f) : parseVal ft (f + 1) (91 :: (printArr ft l ++ rest)) = some (.arr l, rest) := by
  cases l with
  | nil => simp [parseVal, printArr, skipWs_cons_of_not_ws 93 _ (by decide : isWs 93 = false)]
  | cons x t =>
    obtain ⟨c, tl, hc, hws, h93⟩ := (h x (by simp)).2
    have hy : printArr ft (x :: t) ++ rest = c :: (tl ++ arrTail ft t ++ rest) := by
      rw [printArr_cons, hc]; simp
    have := rt_elems_gen ft (x :: t) (by simp) h [] rest f hf
    simp only [parseVal, show ¬ (91 : Nat) = 34 by decide, show ¬ (91 : Nat) = 123 by decide, if_false, if_true]
    rw [hy, skipWs_cons_of_not_ws c _ hws]
    split
    · rename_i heq; injection heq with e _; exact absurd e h93
    · rw [← hy, this]; rfl

theorem parseVal_objText (ft : FloatText) (o : List (Str × JVal)) (hne : o ≠ [])
    (h : ∀ kv ∈ o, (∀ c ∈ kv.1, Scalar c) ∧ RT ft kv.2 ∧ HeadOK ft kv.2) (hnd : (dkeys o).Nodup)
    (f : Nat) (rest : Str) (hf : sizeO o ≤ f) :
    parseVal ft (f + 1) (123 :: (printObj ft o ++ rest)) = (extHook ft o).map (fun v => (v, rest)) := by
  cases o with
  | nil => exact absurd rfl hne
  | cons y t =>
    obtain ⟨tl, h34⟩ := printObj_head ft y t
    have := rt_members_gen ft (y :: t) (by simp) h [] rest f (by intro kv _; simp [dkeys]) hnd hf
    simp only [parseVal, show ¬ (123 : Nat) = 34 by decide, if_false, if_true]
    rw [h34, List.cons_append, skipWs_cons_of_not_ws 34 _ (by decide)]
    split
    · rename_i heq; injection heq with e _; cases e
    · rw [← List.cons_append, ← h34, this]; rfl

theorem headOK_of_WF (ft : FloatText) (law : FtLaw ft) (v : JVal) (h : WF ft v) : HeadOK ft v := by
  cases v with
  | null => exact ⟨110, _, rfl, by decide, by decide⟩
  | bool b => cases b <;> exact ⟨_, _, rfl, by decide, by decide⟩
  | int i =>
    obtain ⟨c, t, hc, hh, _, _⟩ := intToStr_shape i
    refine ⟨c, t, hc, ?_, ?_⟩ <;> rcases hh with e | e
    · subst e; decide
    · simp only [isDigit, Bool.and_eq_true, decide_eq_true_eq] at e
      simp only [isWs, Bool.or_eq_false_iff, decide_eq_false_iff_not]; omega
    · subst e; decide
    · simp only [isDigit, Bool.and_eq_true, decide_eq_true_eq] at e; omega
  | num b =>
    obtain ⟨c, t, hc, hh⟩ := law.fmt_head b h
    refine ⟨c, t, hc, ?_, ?_⟩ <;> rcases hh with e | e
    · subst e; decide
    · simp only [isDigit, Bool.and_eq_true, decide_eq_true_eq] at e
      simp only [isWs, Bool.or_eq_false_iff, decide_eq_false_iff_not]; omega
    · subst e; decide
    · simp only [isDigit, Bool.and_eq_true, decide_eq_true_eq] at e; omega
  | str s => exact ⟨34, _, rfl, by decide, by decide⟩
  | date dt txt => exact ⟨123, _, rfl, by decide, by decide⟩
  | arr l => exact ⟨91, _, rfl, by decide, by decide⟩
  | obj o => exact ⟨123, _, rfl, by decide, by decide⟩



theorem extHook_noTag (ft : FloatText) (o : List (Str × JVal)) (h : noTag o) : extHook ft o = some (.obj o) := by
  unfold noTag at h
  unfold extHook
  split
  · rename_i t heq
    rw [heq] at h
    simp only at h
    rw [if_neg h.1, if_neg h.2]
  · rfl

theorem rt_date (ft : FloatText) (dt : Bool) (txt : Str) (h : WF ft (.date dt txt)) : RT ft (.date dt txt) := by
  simp only [WF] at h
  obtain ⟨hnorm, hsc⟩ := h
  intro rest fuel _ hf
  cases fuel with
  | zero => simp [sizeV] at hf
  | succ f =>
    let tag : Str := if dt then tDT else tD
    let o : List (Str × JVal) := [(kT, .str tag), (kV, .str (ft.dateFmt dt txt))]
    have hp : printVal ft (.date dt txt) ++ rest = 123 :: (printObj ft o ++ rest) := by
      simp [printVal, printObj, o, tag]
    have htag : ∀ c ∈ tag, Scalar c := by
      cases dt <;> simp [tag, tD, tDT, Scalar]
    have hstr : ∀ s : Str, (∀ c ∈ s, Scalar c) → RT ft (.str s) ∧ HeadOK ft (.str s) := by
      intro s hs
      refine ⟨?_, ⟨34, _, rfl, by decide, by decide⟩⟩
      intro rest fuel _ hf
      cases fuel with
      | zero => simp [sizeV] at hf
      | succ f => exact parseVal_str ft f s rest hs
    have hmem : ∀ kv ∈ o, (∀ c ∈ kv.1, Scalar c) ∧ RT ft kv.2 ∧ HeadOK ft kv.2 := by
      intro kv hkv
      simp only [o, List.mem_cons, List.mem_nil_iff, or_false] at hkv
      rcases hkv with e | e <;> subst e
      · exact ⟨by simp [kT, Scalar], hstr tag htag⟩
      · exact ⟨by simp [kV, Scalar], hstr _ hsc⟩
    rw [hp, parseVal_objText ft o (by simp [o]) hmem (by simp [o, dkeys, kT, kV]) f rest (by simp [o, sizeO, sizeV] at hf ⊢; omega)]
    have hhook : extHook ft o = some (.date dt txt) := by
      cases dt
      · simp [extHook, o, tag, dget, kT, kV, tD, hnorm]
      · simp [extHook, o, tag, dget, kT, kV, tD, tDT, hnorm]
    rw [hhook]; rfl

mutual
theorem rt_val (ft : FloatText) (law : FtLaw ft) : ∀ (v : JVal), WF ft v → RT ft v
  | .null, _ => by
    intro rest fuel _ hf
    cases fuel with
    | zero => simp [sizeV] at hf
    | succ f => exact parseVal_null ft f rest
  | .bool b, _ => by
    intro rest fuel _ hf
    cases fuel with
    | zero => simp [sizeV] at hf
    | succ f => cases b; exact parseVal_false ft f rest; exact parseVal_true ft f rest
  | .int i, _ => by
    intro rest fuel hr hf
    cases fuel with
    | zero => simp [sizeV] at hf
    | succ f => exact parseVal_int ft f i rest hr
  | .num b, h => by
    intro rest fuel hr hf
    cases fuel with
    | zero => simp [sizeV] at hf
    | succ f => exact parseVal_num ft law f b (by simpa [WF] using h) rest hr
  | .str s, h => by
    intro rest fuel _ hf
    cases fuel with
    | zero => simp [sizeV] at hf
    | succ f => exact parseVal_str ft f s rest (by simpa [WF] using h)
  | .date dt txt, h => rt_date ft dt txt h
  | .arr l, h => by
    intro rest fuel _ hf
    cases fuel with
    | zero => simp [sizeV] at hf
    | succ f =>
      have hl := rt_list ft law l (by simpa [WF] using h)
      exact parseVal_arrText ft l hl f rest (by simp [sizeV] at hf; omega)
  | .obj o, h => by
    intro rest fuel _ hf
    have h' : WFObj ft o ∧ (dkeys o).Nodup ∧ noTag o := by simpa [WF] using h
    cases fuel with
    | zero => simp [sizeV] at hf
    | succ f =>
      cases o with
      | nil => simp [parseVal, printVal, printObj, skipWs_cons_of_not_ws 125 _ (by decide : isWs 125 = false)]
      | cons y t =>
        have ho := rt_obj ft law (y :: t) h'.1
        have := parseVal_objText ft (y :: t) (by simp) ho h'.2.1 f rest (by simp [sizeV] at hf; omega)
        rw [extHook_noTag ft _ h'.2.2] at this
        exact this
theorem rt_list (ft : FloatText) (law : FtLaw ft) : ∀ (l : List JVal), WFList ft l → ∀ x ∈ l, RT ft x ∧ HeadOK ft x
  | [], _ => by intro x hx; cases hx
  | y :: t, h => by
    have h' : WF ft y ∧ WFList ft t := by simpa [WFList] using h
    have hy := rt_val ft law y h'.1
    have ht := rt_list ft law t h'.2
    intro x hx
    rcases List.mem_cons.mp hx with e | e
    · rw [e]; exact ⟨hy, headOK_of_WF ft law y h'.1⟩
    · exact ht x e
theorem rt_obj (ft : FloatText) (law : FtLaw ft) : ∀ (o : List (Str × JVal)), WFObj ft o →
    ∀ kv ∈ o, (∀ c ∈ kv.1, Scalar c) ∧ RT ft kv.2 ∧ HeadOK ft kv.2
  | [], _ => by intro x hx; cases hx
  | (k, y) :: t, h => by
    have h' : (∀ c ∈ k, Scalar c) ∧ WF ft y ∧ WFObj ft t := by simpa [WFObj] using h
    have hy := rt_val ft law y h'.2.1
    have ht := rt_obj ft law t h'.2.2
    intro kv hkv
    rcases List.mem_cons.mp hkv with e | e
    · rw [e]; exact ⟨h'.1, hy, headOK_of_WF ft law y h'.2.1⟩
    · exact ht kv e
end



theorem quoteStr_length (s : Str) : 2 ≤ (quoteStr s).length := by
  simp [quoteStr]

mutual
theorem size_le_val (ft : FloatText) (law : FtLaw ft) : ∀ (v : JVal), WF ft v → sizeV v ≤ (printVal ft v).length
  | .null, _ => by simp [sizeV, printVal, sNull]
  | .bool b, _ => by cases b <;> simp [sizeV, printVal, sTrue, sFalse]
  | .int i, _ => by
    obtain ⟨c, t, hc, _⟩ := intToStr_shape i
    simp [sizeV, printVal, hc]
  | .num b, h => by
    obtain ⟨c, t, hc, _⟩ := law.fmt_head b (by simpa [WF] using h)
    simp [sizeV, printVal, hc]
  | .str s, _ => by
    have := quoteStr_length s
    simp only [sizeV, printVal]; omega
  | .date dt txt, _ => by
    have h1 := quoteStr_length kT
    have h2 := quoteStr_length kV
    simp only [sizeV, printVal, List.length_cons, List.length_append]
    omega
  | .arr l, h => by
    have := size_le_arr ft law l (by simpa [WF] using h)
    simp only [sizeV, printVal, List.length_cons]; omega
  | .obj o, h => by
    have h' : WFObj ft o ∧ (dkeys o).Nodup ∧ noTag o := by simpa [WF] using h
    have := size_le_obj ft law o h'.1
    simp only [sizeV, printVal, List.length_cons]; omega
theorem size_le_arr (ft : FloatText) (law : FtLaw ft) : ∀ (l : List JVal), WFList ft l → sizeL l ≤ (printArr ft l).length
  | [], _ => by simp [sizeL]
  | y :: t, h => by
    have h' : WF ft y ∧ WFList ft t := by simpa [WFList] using h
    have hy := size_le_val ft law y h'.1
    have ht := size_le_arr ft law t h'.2
    rw [printArr_cons]
    cases t with
    | nil => simp only [sizeL, arrTail, List.length_append, List.length_cons, List.length_nil]; omega
    | cons z t' => simp only [sizeL, arrTail, List.length_append, List.length_cons] at ht ⊢; omega
theorem size_le_obj (ft : FloatText) (law : FtLaw ft) : ∀ (o : List (Str × JVal)), WFObj ft o → sizeO o ≤ (printObj ft o).length
  | [], _ => by simp [sizeO]
  | (k, y) :: t, h => by
    have h' : (∀ c ∈ k, Scalar c) ∧ WF ft y ∧ WFObj ft t := by simpa [WFObj] using h
    have hy := size_le_val ft law y h'.2.1
    have ht := size_le_obj ft law t h'.2.2
    rw [printObj_cons]
    cases t with
    | nil => simp only [sizeO, objTail, List.length_append, List.length_cons, List.length_nil]; omega
    | cons z t' => simp only [sizeO, objTail, List.length_append, List.length_cons] at ht ⊢; omega
end

/-- `json.loads(json.dumps(v)) == v` for the character-level model, every well-formed value. -/
theorem loads_printVal (ft : FloatText) (law : FtLaw ft) (v : JVal) (h : WF ft v) : loads ft (printVal ft v) = some v := by
  obtain ⟨c, t, hc, hws, _⟩ := headOK_of_WF ft law v h
  have hsz := size_le_val ft law v h
  have hrt := rt_val ft law v h [] ((printVal ft v).length + 1) (by intro c t e; cases e) (by omega)
  unfold loads
  rw [hc, skipWs_cons_of_not_ws c t hws, ← hc]
  rw [List.append_nil] at hrt
  rw [hrt]
  rfl

/-- **Codec round trip** (repaired encoder): what `_value_from_db` reads is what `_value_to_db` was given. -/
theorem decode_encode (ft : FloatText) (law : FtLaw ft) (v : JVal) (h : WF ft v) :
    decodeVal ft (encodeVal Fix.repaired ft v) = some v := by
  unfold decodeVal
  cases v <;> exact loads_printVal ft law _ h


/-! ### the code as found: `'"' + s + '"'` -/

/-- a string with a quote does not decode at all … -/
theorem asFound_quote (ft : FloatText) : decodeVal ft (encodeVal Fix.asFound ft (.str [34])) = none := by
  rfl

/-- … and one with a backslash decodes to a different string (`a\b` becomes `a<BS>`). -/
theorem asFound_backslash (ft : FloatText) :
    decodeVal ft (encodeVal Fix.asFound ft (.str [97, 92, 98])) = some (.str [97, 8]) := by
  rfl

/-! ### a concrete environment meeting `FtLaw` (non-vacuity) -/

/-- floats printed as `<bits>.0` (any injective number-shaped text would do) -/
def demoFt : FloatText where
  fmt := fun b => toDec b ++ [46, 48]
  parse := fun s => parseDec (s.take (s.length - 2))
  dateFmt := fun _ s => s
  dateNorm := fun _ s => some s

theorem demoFt_law : FtLaw demoFt where
  parse_fmt := by
    intro b _
    show parseDec ((toDec b ++ [46, 48]).take ((toDec b ++ [46, 48]).length - 2)) = some b
    have : (toDec b ++ [46, 48]).length - 2 = (toDec b).length := by simp
    rw [this, List.take_left', parseDec_toDec]
    rfl
  fmt_chars := by
    intro b _
    show (toDec b ++ [46, 48]).all isNumChar = true
    have hd := toDec_digits b
    rw [List.all_append]
    have : (toDec b).all isNumChar = true := by
      rw [List.all_eq_true] at hd ⊢
      intro x hx; have := hd x hx; simp [isNumChar, this]
    rw [this]; decide
  fmt_mark := by
    intro b _
    show (toDec b ++ [46, 48]).any isFloatMark = true
    rw [List.any_append]
    simp [isFloatMark]
  fmt_head := by
    intro b _
    obtain ⟨c, t, hc, hd⟩ := toDec_head_digit b
    exact ⟨c, t ++ [46, 48], by show toDec b ++ [46, 48] = _; rw [hc]; rfl, Or.inr hd⟩

end QtVerif.Store
