import QtVerif.Model.Faults
import QtVerif.Proofs.FaultsG
/-! Hypotheses of the non-interference theorem: transfer along `AgreeOn`, and the frame property derived from the
dependency-wise frame hypothesis on the abstract expression layer. -/
namespace QtVerif.Faults

theorem closed_of_agree (H : PortId → Bool) (E1 E2 : Env) (h : AgreeOn H E1 E2) (hcl : Closed E1 H) : Closed E2 H := by
  intro p ds hp hd d hdm
  obtain ⟨_, _, _, _, h5, _⟩ := h p hp
  exact hcl p ds hp (by rw [h5]; exact hd) d hdm

theorem frame_of_agree (H : PortId → Bool) (E1 E2 : Env) (h : AgreeOn H E1 E2) (hfr : Frame E1 H) : Frame E2 H := by
  intro p hp sn
  obtain ⟨_, _, _, _, _, h6⟩ := h p hp
  rw [← h6]; exact hfr p hp sn

/-- The frame hypothesis on the expression layer: the result depends only on the snapshot entries of the
expression's dependencies (`expression.get_deps()`); a port without expression is never evaluated. -/
def FrameDeps (E : Env) : Prop :=
  ∀ p ds (sn sn' : Snap), E.deps p = some ds → (∀ d ∈ ds, sn.lookup d = sn'.lookup d) → E.evalE p sn = E.evalE p sn'

theorem lookup_filter_H (H : PortId → Bool) (d : PortId) (hd : H d = true) (sn : Snap) :
    (sn.filter (fun e => H e.1)).lookup d = sn.lookup d := by
  induction sn with
  | nil => rfl
  | cons e es ih =>
    obtain ⟨k, v⟩ := e
    by_cases hk : H k = true
    · simp only [List.filter_cons, hk, if_true, List.lookup_cons, ih]
    · have : (d == k) = false := by
        apply Bool.eq_false_iff.mpr; intro h; simp at h; rw [h] at hd; exact hk hd
      simp only [List.filter_cons, hk, Bool.false_eq_true, if_false, List.lookup_cons, this, ih]

/-- `Frame` follows from dependency closure + the dependency-wise frame hypothesis, for ports that have an
expression (`hnone`: a port without expression evaluates the same on every snapshot — it is never evaluated). -/
theorem frame_of_deps (H : PortId → Bool) (E : Env) (hcl : Closed E H) (hfd : FrameDeps E)
    (hnone : ∀ p sn sn', E.deps p = none → E.evalE p sn = E.evalE p sn') : Frame E H := by
  intro p hp sn
  cases hd : E.deps p with
  | none => exact hnone p _ _ hd
  | some ds =>
    apply hfd p ds _ _ hd
    intro d hdm
    exact lookup_filter_H H d (hcl p ds hp hd d hdm) sn

/-- `σ'` arises from `σ` by deleting some of the `pass .other` actions (the passes the code runs after a write). -/
inductive DropsPasses : List Action → List Action → Prop
  | nil : DropsPasses [] []
  | keep (a : Action) {σ σ' : List Action} : DropsPasses σ σ' → DropsPasses (a :: σ) (a :: σ')
  | drop (now : Nat) {σ σ' : List Action} : DropsPasses σ σ' → DropsPasses (.pass .other now :: σ) σ'

/-- value-change events and write results (what a client of the hub sees), as opposed to driver calls -/
def Obs.isOutput : Obs → Bool
  | .event .. => true
  | .wres .. => true
  | _ => false

end QtVerif.Faults
