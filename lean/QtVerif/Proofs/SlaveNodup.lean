import QtVerif.Proofs.SlaveMirror
import QtVerif.Proofs.SlaveProvision
/-!
Port ids of the master's registry stay duplicate-free along everything that can happen between an offline edit and
the reconnect (events, ticks, the edits themselves). Bridges the C12 lemma `nodup_stepEvent` to the C13 histories.
-/
namespace QtVerif.Slave

theorem ids_updPort (l : List MPort) (i : Nat) (f : MPort → MPort) (hf : ∀ p, (f p).id = p.id) :
    (updPort l i f).map (·.id) = l.map (·.id) := by
  unfold updPort
  rw [List.map_map]
  apply List.map_congr_left
  intro p _
  simp only [Function.comp]
  split
  · exact hf p
  · rfl

theorem ids_drain (fix : Fix) (m : Master) : (drain fix m).2.ports.map (·.id) = m.ports.map (·.id) := by
  unfold drain
  simp only [List.map_map]
  apply List.map_congr_left
  intro p _
  simp only [Function.comp, drainPort_id]

theorem nodup_drain (fix : Fix) (m : Master) (h : (m.ports.map (·.id)).Nodup) : ((drain fix m).2.ports.map (·.id)).Nodup := by
  rw [ids_drain]; exact h

theorem nodup_stepInc (fix : Fix) (m : Master) (x : Inc) (h : (m.ports.map (·.id)).Nodup) :
    ((stepInc fix m x).ports.map (·.id)).Nodup := by
  cases x with
  | ev e => exact nodup_stepEvent fix m e h
  | tick => exact nodup_drain fix m h

theorem nodup_runInc (fix : Fix) (incs : List Inc) :
    ∀ (m : Master), (m.ports.map (·.id)).Nodup → ((runInc fix m incs).ports.map (·.id)).Nodup := by
  induction incs with
  | nil => intro m h; exact h
  | cons x r ih =>
    intro m h
    exact ih _ (nodup_stepInc fix m x h)

theorem nodup_editValue (m : Master) (hoff : m.online = false) (id : Nat) (v : Int) (ok : Bool)
    (h : (m.ports.map (·.id)).Nodup) : ((editValue m id v ok).1.ports.map (·.id)).Nodup := by
  rw [editValue_offline m hoff]
  simp only
  rw [ids_updPort m.ports id (valueEdit v) (fun _ => rfl)]
  exact h

theorem nodup_editAttr (m : Master) (hoff : m.online = false) (id n : Nat) (v : Int)
    (h : (m.ports.map (·.id)).Nodup) : ((editAttr m id n v).1.ports.map (·.id)).Nodup := by
  rw [editAttr_offline m hoff]
  simp only
  rw [ids_updPort m.ports id (attrEdit n v) (fun _ => rfl)]
  exact h

end QtVerif.Slave
