import QtVerif.Model.Sequence
/-! Cancellation of a sequence (C19), for every state of the event-loop model: once the cancelling part of an
operation has run, no callback of the old sequence ever runs again (`no_callback_after_cancel`). The proof is an
invariant (`Cancel.Inv`) carried through every handle of every `_run_once` iteration; `Cancel.Keep` is the frame
relation that every helper of the model satisfies. -/
namespace QtVerif.Sequence
namespace Cancel

def noFf (sid : Nat) : Handle → Prop
  | .ff i _ => i ≠ sid
  | _ => True

/-- the playback of `sid` cannot go on: its loop task is flagged for cancellation or gone -/
def DeadSeq (sid : Nat) (s : St) : Prop :=
  ∀ q, s.port.seq = some q → q.id = sid → ∀ pos, q.task ≠ .pending pos false

def TimersOk (sid : Nat) (s : St) : Prop := ∀ t ∈ s.timers, noFf sid t.h

structure Dead (sid : Nat) (s : St) : Prop where
  fresh : sid < s.nextId
  seq : DeadSeq sid s
  tm : TimersOk sid s

structure Keep (sid : Nat) (s s' : St) : Prop where
  nextId : s.nextId ≤ s'.nextId
  log : subsOfSid sid s'.log = subsOfSid sid s.log
  fl : inFlight sid s'.ready = inFlight sid s.ready
  tm : TimersOk sid s → TimersOk sid s'
  seq : sid < s.nextId → DeadSeq sid s → DeadSeq sid s'
  now : s'.now = s.now

theorem Keep.refl (sid : Nat) (s : St) : Keep sid s s := ⟨Nat.le_refl _, rfl, rfl, id, fun _ h => h, rfl⟩

theorem Keep.trans {sid : Nat} {a b c : St} (h1 : Keep sid a b) (h2 : Keep sid b c) : Keep sid a c :=
  ⟨Nat.le_trans h1.nextId h2.nextId, h2.log.trans h1.log, h2.fl.trans h1.fl, fun h => h2.tm (h1.tm h),
   fun hf hd => h2.seq (Nat.lt_of_lt_of_le hf h1.nextId) (h1.seq hf hd), h2.now.trans h1.now⟩

theorem Keep.dead {sid : Nat} {a b : St} (h : Keep sid a b) (d : Dead sid a) : Dead sid b :=
  ⟨Nat.lt_of_lt_of_le d.fresh h.nextId, h.seq d.fresh d.seq, h.tm d.tm⟩

theorem inFlight_append (sid : Nat) (a b : List Handle) : inFlight sid (a ++ b) = inFlight sid a ++ inFlight sid b := by
  simp [inFlight, List.filterMap_append]

theorem inFlight_noFf (sid : Nat) (h : Handle) (hh : noFf sid h) : inFlight sid [h] = [] := by
  cases h <;> simp_all [inFlight, noFf]

theorem subsOfSid_append (sid : Nat) (a b : List Event) : subsOfSid sid (a ++ b) = subsOfSid sid a ++ subsOfSid sid b := by
  simp [subsOfSid, List.filterMap_append]

theorem keep_push (sid : Nat) (s : St) (h : Handle) (hh : noFf sid h) : Keep sid s (s.push h) :=
  ⟨Nat.le_refl _, rfl, by simp [St.push, inFlight_append, inFlight_noFf sid h hh], id, fun _ h => h, rfl⟩

def noSub (sid : Nat) : Event → Prop
  | .sub _ i _ => i ≠ sid
  | _ => True

theorem keep_emit (sid : Nat) (s : St) (e : Event) (he : noSub sid e) : Keep sid s (s.emit e) :=
  ⟨Nat.le_refl _, by
      cases e with
      | sub t i v => simp_all [St.emit, subsOfSid_append, subsOfSid, noSub]
      | ret t o r => simp [St.emit, subsOfSid_append, subsOfSid],
   rfl, id, fun _ h => h, rfl⟩

theorem keep_ret (sid : Nat) (s : St) (t o : Nat) (r : Res) : Keep sid s (s.emit (.ret t o r)) :=
  keep_emit sid s _ trivial

theorem Keep.thenRet {sid : Nat} {s s' : St} (k : Keep sid s s') (t o : Nat) (r : Res) : Keep sid s (s'.emit (.ret t o r)) :=
  k.trans (keep_ret sid s' t o r)

theorem keep_setSeq (sid : Nat) (s : St) (q : Option Seq)
    (hq : ∀ q', q = some q' → q'.id = sid → ∀ pos, q'.task ≠ .pending pos false) : Keep sid s (s.setSeq q) :=
  ⟨Nat.le_refl _, rfl, rfl, id, fun _ _ => by intro q' h; exact hq q' (by simpa [St.setSeq] using h), rfl⟩

theorem mem_insertTimer (t x : Timer) (l : List Timer) (h : x ∈ insertTimer t l) : x = t ∨ x ∈ l := by
  induction l with
  | nil => simp [insertTimer] at h; exact Or.inl h
  | cons a l ih =>
    simp only [insertTimer] at h
    split at h
    · simp at h; rcases h with h | h
      · exact Or.inr (by simp [h])
      · rcases ih h with h | h
        · exact Or.inl h
        · exact Or.inr (by simp [h])
    · simp at h; rcases h with h | h | h
      · exact Or.inl h
      · exact Or.inr (by simp [h])
      · exact Or.inr (by simp [h])

theorem keep_addTimer (sid : Nat) (s : St) (time : Nat) (rank : Int) (h : Handle) (hh : noFf sid h) :
    Keep sid s (s.addTimer time rank h) :=
  ⟨Nat.le_refl _, rfl, rfl, by
      intro ht t hmem
      rcases mem_insertTimer _ _ _ hmem with e | e
      · subst e; exact hh
      · exact ht t e,
   fun _ h => h, rfl⟩

/-- a record update that touches none of the observed fields -/
theorem keep_of_fields (sid : Nat) (s s' : St) (h1 : s'.nextId = s.nextId) (h2 : s'.log = s.log) (h3 : s'.ready = s.ready)
    (h4 : s'.timers = s.timers) (h5 : s'.port.seq = s.port.seq) (h6 : s'.now = s.now) : Keep sid s s' :=
  ⟨by rw [h1]; exact Nat.le_refl _, by rw [h2], by rw [h3], by intro h t ht; rw [h4] at ht; exact h t ht,
   by intro _ h q hq; rw [h5] at hq; exact h q hq, h6⟩

theorem keep_finishSeq (sid : Nat) (s : St) : Keep sid s (finishSeq s) :=
  keep_setSeq sid s none (by intro q' h; cases h)

theorem keep_sleepOn (sid : Nat) (s : St) (q : Seq) (i : Nat) (hq : q.id ≠ sid) : Keep sid s (sleepOn s q i) := by
  unfold sleepOn
  split
  · exact keep_setSeq sid s _ (by intro q' h hid; cases h; exact absurd hid hq)
  · have k1 : Keep sid s (s.setSeq (some { q with task := .pending (.slept i) false })) :=
      keep_setSeq sid s _ (by intro q' h hid; cases h; exact absurd hid hq)
    simp only
    split
    · exact k1.trans (keep_push sid _ _ trivial)
    · exact k1.trans (keep_addTimer sid _ _ _ _ trivial)

theorem keep_body (fix : Fix) (sid : Nat) (s : St) (q : Seq) (i : Nat) (hq : q.id ≠ sid) : Keep sid s (body fix s q i) := by
  unfold body
  split
  · exact keep_setSeq sid s _ (by intro q' h hid; cases h; exact absurd hid hq)
  · rename_i v _
    have k1 : Keep sid s (s.push (.ff q.id v)) := keep_push sid s _ hq
    simp only
    split
    · exact k1.trans (keep_sleepOn sid _ q i hq)
    · split
      · split
        · exact k1.trans ((keep_setSeq sid _ _ (by intro q' h hid; cases h; exact absurd hid hq)).trans
            (keep_push sid _ _ trivial))
        · exact k1.trans (keep_finishSeq sid _)
      · exact k1.trans (keep_sleepOn sid _ _ i hq)

theorem keep_wake (sid : Nat) (s : St) (exc : Bool) : Keep sid s (wake s exc) := by
  unfold wake
  split
  · exact (keep_of_fields sid s { s with waiting := none } rfl rfl rfl rfl rfl rfl).trans (keep_push sid _ _ trivial)
  · exact Keep.refl sid s

theorem keep_loopStep (fix : Fix) (sid : Nat) (s : St) (sid' : Nat) (hd : DeadSeq sid s) :
    Keep sid s (loopStep fix s sid') := by
  unfold loopStep
  split
  · exact Keep.refl sid s
  · rename_i q hq
    split
    · exact Keep.refl sid s
    · split
      · split
        · exact (keep_setSeq sid s _ (by intro q' h _ pos; cases h; simp)).trans (keep_wake sid _ _)
        · exact (keep_setSeq sid s _ (by intro q' h _ pos; cases h; simp)).trans (keep_wake sid _ _)
      · rename_i ht
        exact keep_body fix sid s q 0 (fun hid => hd q hq hid _ ht)
      · rename_i i ht
        have hne : q.id ≠ sid := fun hid => hd q hq hid _ ht
        split
        · exact keep_body fix sid s q _ hne
        · exact (keep_setSeq sid s _ (by intro q' h hid; cases h; exact absurd hid hne)).trans (keep_push sid _ _ trivial)
      · exact keep_finishSeq sid s
      · exact Keep.refl sid s

theorem keep_requestCancel (fix : Fix) (sid : Nat) (s : St) (q : Seq) : Keep sid s (requestCancel fix s q).1 := by
  unfold requestCancel
  split
  · rename_i pos _ _
    by_cases ht : (s.setSeq (some { q with task := .pending pos true })).timers.any (isTimerOf q.id) = true
    · simp only [ht, if_true]
      refine ⟨Nat.le_refl _, rfl, ?_, ?_, ?_, rfl⟩
      · simp [St.push, St.setSeq, inFlight_append, inFlight]
      · intro h t hmem
        simp only [St.push, St.setSeq] at hmem
        exact h t (List.mem_filter.mp hmem).1
      · intro _ _ q' h _ p
        simp [St.push, St.setSeq] at h
        subst h; simp
    · simp only [ht, Bool.false_eq_true, if_false]
      refine ⟨Nat.le_refl _, rfl, rfl, id, ?_, rfl⟩
      intro _ _ q' h _ p
      simp [St.setSeq] at h
      subst h; simp
  · exact Keep.refl sid s
  · exact Keep.refl sid s
  · exact Keep.refl sid s

theorem keep_install (sid : Nat) (s : St) (vs : List Val) (ds : List Int) (r : Int) : Keep sid s (install s vs ds r) := by
  unfold install
  split
  · exact Keep.refl sid s
  · refine Keep.trans (b := { s.setSeq (some ⟨s.nextId, vs, ds, r, 0, .pending .start false⟩) with nextId := s.nextId + 1 })
      ⟨Nat.le_succ _, rfl, rfl, id, ?_, rfl⟩ (keep_push sid _ _ trivial)
    intro hf _ q' h hid
    simp [St.setSeq] at h
    subst h
    simp at hid
    omega

theorem keep_hookDone (sid : Nat) (s : St) (opId : Nat) (on : Bool) : Keep sid s (hookDone s opId on) := by
  unfold hookDone
  cases on <;> simp only [Bool.false_eq_true, if_false, if_true] <;> split <;>
    first
    | (apply Keep.thenRet; exact keep_of_fields sid _ _ rfl rfl rfl rfl rfl rfl)
    | exact keep_ret sid _ _ _ _

theorem keep_setEnabledThenHook (sid : Nat) (s : St) (opId : Nat) (on : Bool) :
    Keep sid s (setEnabledThenHook s opId on) := by
  have k1 : Keep sid s { s with port := { s.port with enabled := on } } := keep_of_fields sid _ _ rfl rfl rfl rfl rfl rfl
  have k2 := keep_hookDone sid { s with port := { s.port with enabled := on } } opId on
  have k3 : ∀ t, Keep sid { s with port := { s.port with enabled := on } }
      (({ s with port := { s.port with enabled := on } } : St).addTimer t 0 (.hookEnd opId on)) :=
    fun t => keep_addTimer sid _ t 0 (.hookEnd opId on) trivial
  cases on
  · simp only [setEnabledThenHook, Bool.false_eq_true, if_false]
    split
    · exact k1.trans k2
    · exact k1.trans (k3 _)
  · simp only [setEnabledThenHook, if_true]
    split
    · exact k1.trans k2
    · exact k1.trans (k3 _)

theorem keep_finishOp (sid : Nat) (s : St) (opId : Nat) (op : Op) : Keep sid s (finishOp s opId op) := by
  unfold finishOp
  have k1 : Keep sid s (s.setSeq none) := keep_setSeq sid s none (by intro q' h; cases h)
  cases op <;> dsimp only
  case patchSeq vs ds r => exact k1.trans ((keep_install sid _ vs ds r).trans (keep_ret sid _ _ _ _))
  case setExpr b => apply Keep.thenRet; exact k1.trans (keep_of_fields sid _ _ rfl rfl rfl rfl rfl rfl)
  case setEnabled on => exact k1.trans (keep_setEnabledThenHook sid _ opId on)
  case malformed => exact k1.trans (keep_ret sid _ _ _ _)

theorem keep_cancelThen (fix : Fix) (sid : Nat) (s : St) (opId : Nat) (op : Op) : Keep sid s (cancelThen fix s opId op) := by
  unfold cancelThen
  split
  · exact keep_finishOp sid s opId op
  · rename_i q _
    have k := keep_requestCancel fix sid s q
    split
    · rename_i s' h; rw [h] at k
      exact k.trans (keep_of_fields sid _ _ rfl rfl rfl rfl rfl rfl)
    · rename_i s' h; rw [h] at k
      exact k.trans (keep_finishOp sid _ opId op)
    · rename_i s' h; rw [h] at k
      exact k.trans (keep_ret sid _ _ _ _)
    · rename_i s' r h; rw [h] at k
      exact k.trans (keep_ret sid _ _ _ _)

theorem keep_startOp (fix : Fix) (sid : Nat) (s : St) (opId : Nat) (op : Op) : Keep sid s (startOp fix s opId op) := by
  unfold startOp
  split
  · exact keep_of_fields sid _ _ rfl rfl rfl rfl rfl rfl
  · split
    · exact keep_ret sid _ _ _ _
    · split
      · exact keep_ret sid _ _ _ _
      · exact keep_cancelThen fix sid s opId _
    · split
      · exact keep_ret sid _ _ _ _
      · exact keep_cancelThen fix sid s opId _
    · split
      · exact keep_ret sid _ _ _ _
      · exact keep_cancelThen fix sid s opId _
    · split
      · exact keep_ret sid _ _ _ _
      · exact keep_setEnabledThenHook sid s opId true

theorem keep_resumeOp (fix : Fix) (sid : Nat) (s : St) (opId : Nat) (op : Op) (exc : Bool) :
    Keep sid s (resumeOp fix s opId op exc) := by
  unfold resumeOp
  split
  · exact keep_ret sid _ _ _ _
  · exact keep_finishOp sid s opId op

theorem ite_ind {P : St → Prop} (c : Prop) [Decidable c] (a b : St) (ha : P a) (hb : P b) :
    P (if c then a else b) := by split <;> assumption

theorem keep_exec (fix : Fix) (sid : Nat) (s : St) (h : Handle) (hd : DeadSeq sid s) (hh : noFf sid h) :
    Keep sid s (exec fix s h) := by
  cases h with
  | loopStep sid' => exact keep_loopStep fix sid s sid' hd
  | ff i v =>
    have hi : i ≠ sid := hh
    simp only [exec]
    have k : Keep sid s ({ s.emit (.sub s.now i v) with subs := s.subs + 1 }) :=
      (keep_emit sid s (.sub s.now i v) hi).trans (keep_of_fields sid _ _ rfl rfl rfl rfl rfl rfl)
    split
    · exact k.trans (keep_of_fields sid _ _ rfl rfl rfl rfl rfl rfl)
    · exact k
  | hop k opId op =>
    cases k with
    | zero => exact keep_startOp fix sid s opId op
    | succ k => exact keep_push sid s _ trivial
  | resume opId op exc => exact keep_resumeOp fix sid s opId op exc
  | hookEnd opId on => exact keep_hookDone sid s opId on
  | stop => exact keep_of_fields sid _ _ rfl rfl rfl rfl rfl rfl

def committed (sid : Nat) (s : St) : List Val := (subsOfSid sid s.log).map Prod.snd ++ inFlight sid s.ready

/-- the invariant that holds from the moment the cancellation of `sid` has been requested -/
structure Inv (sid : Nat) (C0 : List Val) (L0 : List (Nat × Val)) (T0 : Nat) (s : St) : Prop where
  dead : Dead sid s
  comm : committed sid s = C0
  pre : ∃ l, subsOfSid sid s.log = L0 ++ l ∧ ∀ e ∈ l, e.1 = T0
  inst : s.now = T0 ∨ inFlight sid s.ready = []

theorem dead_ready (sid : Nat) (s : St) (r : List Handle) (d : Dead sid s) : Dead sid { s with ready := r } :=
  ⟨d.fresh, d.seq, d.tm⟩

theorem inv_pop (fix : Fix) (sid : Nat) (C0 L0 T0) (s : St) (h : Handle) (rest : List Handle)
    (hr : s.ready = h :: rest) (iv : Inv sid C0 L0 T0 s) : Inv sid C0 L0 T0 (exec fix { s with ready := rest } h) := by
  by_cases hh : noFf sid h
  · have d1 := dead_ready sid s rest iv.dead
    have k := keep_exec fix sid { s with ready := rest } h d1.seq hh
    have hfl : inFlight sid s.ready = inFlight sid rest := by
      rw [hr]; show inFlight sid ([h] ++ rest) = _; rw [inFlight_append, inFlight_noFf sid h hh]; rfl
    refine ⟨k.dead d1, ?_, ?_, ?_⟩
    · rw [← iv.comm]; unfold committed; rw [k.log, k.fl, hfl]
    · rw [k.log]; exact iv.pre
    · rw [k.now, k.fl]
      rcases iv.inst with h1 | h1
      · exact Or.inl h1
      · exact Or.inr (by rw [← hfl]; exact h1)
  · cases h with
    | ff i v =>
      have hi : i = sid := by simpa [noFf] using hh
      subst hi
      have hfl : inFlight i s.ready = v :: inFlight i rest := by rw [hr]; simp [inFlight]
      have hnow : s.now = T0 := by
        rcases iv.inst with h1 | h1
        · exact h1
        · rw [hfl] at h1; cases h1
      have hlog : ∀ st : St, st.log = s.log ++ [.sub s.now i v] →
          subsOfSid i st.log = subsOfSid i s.log ++ [(s.now, v)] := by
        intro st e; rw [e, subsOfSid_append]; simp [subsOfSid]
      have main : ∀ st : St, st.log = s.log ++ [.sub s.now i v] → st.ready = rest → st.now = s.now →
          st.nextId = s.nextId → st.port.seq = s.port.seq → st.timers = s.timers → Inv i C0 L0 T0 st := by
        intro st e1 e2 e3 e4 e5 e6
        refine ⟨⟨by rw [e4]; exact iv.dead.fresh, by intro q hq; rw [e5] at hq; exact iv.dead.seq q hq,
          by intro t ht; rw [e6] at ht; exact iv.dead.tm t ht⟩, ?_, ?_, ?_⟩
        · rw [← iv.comm]; unfold committed; rw [hlog st e1, e2, hfl]; simp
        · obtain ⟨l, h1, h2⟩ := iv.pre
          refine ⟨l ++ [(s.now, v)], by rw [hlog st e1, h1, List.append_assoc], ?_⟩
          intro e he
          rcases List.mem_append.mp he with h | h
          · exact h2 e h
          · simp at h; rw [h]; exact hnow
        · exact Or.inl (by rw [e3]; exact hnow)
      simp only [exec, St.emit]
      apply ite_ind
      · exact main _ rfl rfl rfl rfl rfl rfl
      · exact main _ rfl rfl rfl rfl rfl rfl
    | _ => exact absurd trivial hh

theorem inv_runHandles (fix : Fix) (sid : Nat) (C0 L0 T0) (n : Nat) (s : St) (iv : Inv sid C0 L0 T0 s) :
    Inv sid C0 L0 T0 (runHandles fix n s) := by
  induction n generalizing s with
  | zero => exact iv
  | succ n ih =>
    unfold runHandles
    split
    · exact iv
    · split
      · exact iv
      · rename_i h rest hr
        exact ih _ (inv_pop fix sid C0 L0 T0 s h rest hr iv)

theorem inv_jump (sid : Nat) (C0 L0 T0) (s : St) (iv : Inv sid C0 L0 T0 s) : Inv sid C0 L0 T0 (jump s) := by
  unfold jump
  split
  · rename_i hr _
    split
    · exact ⟨⟨iv.dead.fresh, iv.dead.seq, iv.dead.tm⟩, by rw [← iv.comm]; rfl, iv.pre, Or.inr (by simp [hr, inFlight])⟩
    · exact iv
  · exact iv

theorem inFlight_map_noFf (sid : Nat) (l : List Timer) (h : ∀ t ∈ l, noFf sid t.h) : inFlight sid (l.map (·.h)) = [] := by
  induction l with
  | nil => rfl
  | cons a l ih =>
    have : inFlight sid ((a :: l).map (·.h)) = inFlight sid [a.h] ++ inFlight sid (l.map (·.h)) := by
      rw [← inFlight_append]; rfl
    rw [this, inFlight_noFf sid a.h (h a (by simp)), ih (fun t ht => h t (by simp [ht]))]; rfl

theorem inv_moveDue (sid : Nat) (C0 L0 T0) (s : St) (iv : Inv sid C0 L0 T0 s) : Inv sid C0 L0 T0 (moveDue s) := by
  unfold moveDue
  have hdue : ∀ t ∈ s.timers.takeWhile (fun t => decide (t.time ≤ s.now)), noFf sid t.h :=
    fun t ht => iv.dead.tm t ((List.takeWhile_sublist _).subset ht)
  have hfl : inFlight sid (s.ready ++ (s.timers.takeWhile (fun t => decide (t.time ≤ s.now))).map (·.h)) = inFlight sid s.ready := by
    rw [inFlight_append, inFlight_map_noFf sid _ hdue, List.append_nil]
  refine ⟨⟨iv.dead.fresh, iv.dead.seq, ?_⟩, ?_, iv.pre, ?_⟩
  · intro t ht
    exact iv.dead.tm t ((List.dropWhile_sublist _).subset ht)
  · rw [← iv.comm]; unfold committed; simp only; rw [hfl]
  · rcases iv.inst with h | h
    · exact Or.inl h
    · exact Or.inr (by simp only; rw [hfl]; exact h)

theorem inv_iter (fix : Fix) (sid : Nat) (C0 L0 T0) (s : St) (iv : Inv sid C0 L0 T0 s) : Inv sid C0 L0 T0 (iter fix s) := by
  unfold iter
  split
  · exact iv
  · exact inv_runHandles fix sid C0 L0 T0 _ _ (inv_moveDue sid C0 L0 T0 _ (inv_jump sid C0 L0 T0 s iv))

theorem inv_iterN (fix : Fix) (sid : Nat) (C0 L0 T0) (n : Nat) (s : St) (iv : Inv sid C0 L0 T0 s) :
    Inv sid C0 L0 T0 (iterN fix n s) := by
  induction n generalizing s with
  | zero => exact iv
  | succ n ih => exact ih _ (inv_iter fix sid C0 L0 T0 s iv)

theorem inv_init (sid : Nat) (s : St) (d : Dead sid s) : Inv sid (committed sid s) (subsOfSid sid s.log) s.now s :=
  ⟨d, rfl, ⟨[], by simp, by simp⟩, Or.inl rfl⟩

theorem deadSeq_finishOp (sid : Nat) (s : St) (opId : Nat) (op : Op) (hf : sid < s.nextId) :
    DeadSeq sid (finishOp s opId op) := by
  intro q hq hid
  cases op with
  | patchSeq vs ds r =>
    by_cases he : vs.isEmpty = true
    · simp [finishOp, install, he, St.setSeq, St.emit] at hq
    · simp [finishOp, install, he, St.setSeq, St.emit, St.push] at hq
      subst hq; simp at hid; omega
  | setExpr b => simp [finishOp, St.setSeq, St.emit] at hq
  | setEnabled on =>
    have k := (keep_setEnabledThenHook sid (s.setSeq none) opId on).seq (by simpa [St.setSeq] using hf)
      (by intro q' h; simp [St.setSeq] at h)
    exact k q hq hid
  | malformed => simp [finishOp, St.setSeq, St.emit] at hq

/-- whatever state the loop task is in, once the cancelling part of an operation has run the playback is dead -/
theorem deadSeq_cancelThen (fix : Fix) (s : St) (q : Seq) (opId : Nat) (op : Op) (hq : s.port.seq = some q)
    (hf : q.id < s.nextId) : DeadSeq q.id (cancelThen fix s opId op) := by
  unfold cancelThen
  rw [hq]
  simp only
  cases ht : q.task with
  | none =>
    simp only [requestCancel, ht]
    exact deadSeq_finishOp q.id s opId op hf
  | pending pos b =>
    simp only [requestCancel, ht]
    intro q' hq' _ p
    split at hq'
    · simp [St.push, St.setSeq] at hq'; subst hq'; simp
    · simp [St.setSeq] at hq'; subst hq'; simp
  | cancelled =>
    simp only [requestCancel, ht]
    cases fix.cancelArmed with
    | true => simp only [if_true]; exact deadSeq_finishOp q.id s opId op hf
    | false =>
      simp only [Bool.false_eq_true, if_false]
      intro q' hq' _ p
      simp [St.emit, hq] at hq'; subst hq'; simp [ht]
  | crashed =>
    simp only [requestCancel, ht]
    intro q' hq' _ p
    simp [St.emit, hq] at hq'; subst hq'; simp [ht]

end Cancel

open Cancel in
/-- **No value after the cancelling step** (all states, both variants of the code). Once the cancelling part of an
operation has run on a port whose sequence is `q`, then after any number of further event-loop iterations
(whatever else is queued: other operations, a new sequence, timers):
* the values of `q` that are submitted or still in flight are exactly those that were submitted or in flight before
  the operation: no further callback of `q` ever runs;
* the submissions of `q` recorded afterwards all carry the instant of the cancellation. -/
theorem no_callback_after_cancel (fix : Fix) (s : St) (q : Seq) (opId : Nat) (op : Op) (n : Nat)
    (hq : s.port.seq = some q) (hf : q.id < s.nextId) (ht : TimersOk q.id s) :
    let s' := iterN fix n (cancelThen fix s opId op)
    committed q.id s' = committed q.id s ∧
    ∃ l, subsOfSid q.id s'.log = subsOfSid q.id s.log ++ l ∧ ∀ e ∈ l, e.1 = s.now := by
  have k := keep_cancelThen fix q.id s opId op
  have d : Dead q.id (cancelThen fix s opId op) :=
    ⟨Nat.lt_of_lt_of_le hf k.nextId, deadSeq_cancelThen fix s q opId op hq hf, k.tm ht⟩
  have iv := inv_iterN fix q.id _ _ _ n _ (inv_init q.id _ d)
  refine ⟨?_, ?_⟩
  · rw [iv.comm]; unfold committed; rw [k.log, k.fl]
  · obtain ⟨l, h1, h2⟩ := iv.pre
    exact ⟨l, by rw [h1, k.log], by intro e he; rw [← k.now]; exact h2 e he⟩

end QtVerif.Sequence
