import QtVerif.Proofs.ParseComplete
/-! Soundness of the parser model for the grammar (`parseFuel … s = ok e → Derives env e s`). Helper lemmas for
C03. -/
set_option linter.unusedSimpArgs false
namespace QtVerif.Parse
open QtVerif.Syntax

theorem headSpecial_cases {s : List Char} (h : headSpecial s = true) :
    ∃ r, s = '$' :: r ∨ s = '@' :: r := by
  cases s with
  | nil => simp [headSpecial] at h
  | cons c r =>
    simp [headSpecial] at h
    rcases h with h | h
    · exact ⟨r, Or.inl (by rw [h])⟩
    · exact ⟨r, Or.inr (by rw [h])⟩

theorem parsePort_sound (env : Env) {pos : Nat} {core : List Char} {e : Expr} (ht : Tight core)
    (hs : headSpecial core = true) (h : parsePort pos core = .ok e) : Core env e core := by
  obtain ⟨r, hr⟩ := headSpecial_cases hs
  simp only [parsePort, trim_tight ht] at h
  by_cases hre : r = []
  · subst hre
    rcases hr with rfl | rfl
    · simp at h; subst h; rw [Core]
    · simp at h; subst h; rw [Core]
  · have hie : r.isEmpty = false := by cases r with | nil => exact absurd rfl hre | cons _ _ => rfl
    cases hf : firstNot isIdChar r 0 with
    | some pc =>
      rcases hr with rfl | rfl <;> simp only [hie, hf] at h <;> simp at h
    | none =>
      rcases hr with rfl | rfl
      · simp only [hie, hf] at h
        simp at h; subst h
        rw [Core]
        simp only [String.toList_ofList]
        exact ⟨trivial, hre, firstNot_none_all hf⟩
      · simp only [hie, hf] at h
        simp at h; subst h
        rw [Core]
        simp only [String.toList_ofList]
        exact ⟨trivial, hre, firstNot_none_all hf⟩

theorem parseLiteral_sound (env : Env) {pos : Nat} {core : List Char} {e : Expr} (ht : Tight core)
    (h : parseLiteral env pos core = .ok e) : Core env e core := by
  simp only [parseLiteral, trim_tight ht] at h
  cases hc : core.isEmpty with
  | true => simp [hc] at h
  | false =>
    cases hl : isLiteral env core with
    | true =>
      simp [hc, hl] at h; subst h
      rw [Core]
      simp only [String.toList_ofList]
      refine ⟨trivial, ?_, hl⟩
      intro h0; subst h0; simp at hc
    | false =>
      simp only [hc, hl, Bool.false_eq_true, if_false] at h
      split at h
      · split at h <;> cases h
      · cases h

theorem tight_append_tail {a tail : List Char} (c : Char) (ht : Tight (a ++ c :: tail)) (hs : AllSpace tail) :
    tail = [] := by
  rcases List.eq_nil_or_concat tail with h | ⟨l, d, h⟩
  · exact h
  · exfalso
    rw [h, List.concat_eq_append] at ht hs
    have h0 : (a ++ c :: (l ++ [d])).getLast? = some d := by
      have h1 : ∀ x : List Char, (x ++ [d]).getLast? = some d := fun x => by simp
      simpa using h1 (a ++ c :: l)
    have := ht.2 d h0
    rw [hs d (by simp)] at this; cases this

/-- The call case of soundness for any recursive parser `rec` that is sound. -/
theorem parseCall_sound (env : Env) (rec : Nat → List Char → Except Err Expr) {pos : Nat} {core : List Char}
    {e : Expr} (ht : Tight core) (hrec : ∀ p a x, rec p a = .ok x → Derives env x a)
    (h : parseCall env rec pos core = .ok e) : Core env e core := by
  simp only [parseCall, trim_tight ht] at h
  cases hsc : scan (pos + lead core) core with
  | error er => rw [hsc] at h; cases h
  | ok res =>
    rcases res with ⟨rawName, sargs⟩
    rw [hsc] at h
    simp only at h
    obtain ⟨tail, htail, hcore, -⟩ := scan_decomp hsc
    cases hfn : firstNot isNameChar (trim rawName) 0 with
    | some pc => rw [hfn] at h; cases h
    | none =>
      rw [hfn] at h; simp only at h
      cases hlk : lookup env.reg (trim rawName) with
      | none => rw [hlk] at h; cases h
      | some f =>
        rw [hlk] at h; simp only at h
        cases hen : f.enabled with
        | false => simp [hen] at h
        | true =>
          cases hfew : tooFew f sargs.length with
          | true => simp [hen, hfew] at h
          | false =>
            cases hmany : tooMany f sargs.length with
            | true => simp [hen, hfew, hmany] at h
            | false =>
              simp only [hen, hfew, hmany, Bool.not_true, Bool.false_eq_true, if_false] at h
              cases hma : mapArgs (fun sp a => rec (pos + lead core + sp) a) sargs with
              | error er => rw [hma] at h; cases h
              | ok args =>
                rw [hma] at h; simp only at h
                cases hbk : firstBadKind f.kinds 0 args with
                | some i => rw [hbk] at h; cases h
                | none =>
                  rw [hbk] at h; simp only at h
                  cases h
                  -- the text
                  have htl : tail = [] := by
                    have : core = (rawName ++ '(' :: joinC (sargs.map Prod.fst)) ++ ')' :: tail := by
                      rw [hcore]
                    rw [this] at ht
                    exact tight_append_tail ')' ht htail
                  subst htl
                  obtain ⟨w1, w2, hw1, hw2, hraw, htn⟩ := trim_decomp rawName
                  have hw1n : w1 = [] := by
                    cases w1 with
                    | nil => rfl
                    | cons a r =>
                      exfalso
                      have : core.head? = some a := by rw [hcore, hraw]; simp
                      have := ht.1 a this
                      rw [hw1 a List.mem_cons_self] at this; cases this
                  subst hw1n
                  simp only [List.nil_append] at hraw
                  have hfw : trim rawName = [] → w2 = [] := by
                    intro h0
                    cases w2 with
                    | nil => rfl
                    | cons a r =>
                      exfalso
                      have : core.head? = some a := by rw [hcore, hraw, h0]; simp
                      have := ht.1 a this
                      rw [hw2 a List.mem_cons_self] at this; cases this
                  have hall := forall2_of_mapArgs _ _ _ hma
                  have hlen : sargs.length = args.length := all2_length hall
                  have hder : All2 (fun x t => Derives env x t) args (sargs.map Prod.fst) :=
                    all2_flip (all2_map_left (R := fun t x => Derives env x t) Prod.fst
                      (all2_imp hall (fun a _ x _ hx => hrec _ _ _ hx)))
                  rw [Core]
                  refine ⟨f, trim rawName, w2, joinC (sargs.map Prod.fst), ?_, firstNot_none_all hfn, hw2, hfw, hlk,
                    hen, rfl, ⟨by rw [← hlen]; exact hfew, by rw [← hlen]; exact hmany⟩, hbk,
                    dargs_of_texts env _ _ hder⟩
                  rw [hcore, ← hraw]

/-- **Soundness**, fuel form: whatever the parser accepts is a text of the grammar for the tree it returns. -/
theorem sound_aux (env : Env) : ∀ (n pos : Nat) (s : List Char) (e : Expr),
    parseFuel env n pos s = .ok e → Derives env e s := by
  intro n
  induction n with
  | zero => intro pos s e h; simp [parseFuel] at h
  | succ n ih =>
    intro pos s e h
    obtain ⟨ws1, ws2, h1, h2, hs, ht⟩ := trim_decomp s
    rw [parseFuel_succ] at h
    refine ⟨ws1, trim s, ws2, hs, h1, h2, ?_⟩
    cases hhs : headSpecial (trim s) with
    | true => rw [hhs] at h; simp only [if_true] at h; exact parsePort_sound env ht hhs h
    | false =>
      rw [hhs] at h; simp only [Bool.false_eq_true, if_false] at h
      cases hhp : hasParen (trim s) with
      | true =>
        rw [hhp] at h; simp only [if_true] at h
        exact parseCall_sound env _ ht (fun p a x hx => ih p a x hx) h
      | false =>
        rw [hhp] at h; simp only [Bool.false_eq_true, if_false] at h
        exact parseLiteral_sound env ht h

end QtVerif.Parse
