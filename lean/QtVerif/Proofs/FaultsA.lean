import QtVerif.Model.Faults
namespace QtVerif.Faults

def Closed (E : Env) (H : PortId → Bool) : Prop :=
  ∀ p ds, H p = true → E.deps p = some ds → ∀ d ∈ ds, H d = true
def Frame (E : Env) (H : PortId → Bool) : Prop :=
  ∀ p, H p = true → ∀ sn : Snap, E.evalE p (sn.filter (fun e => H e.1)) = E.evalE p sn
def Safe (E : Env) (H : PortId → Bool) : Prop :=
  ∀ p, H p = false → (∀ n, E.rd p n ≠ .escape) ∧ (∀ n, E.hb p n ≠ .escape) ∧
    (∀ j now o n, E.hd j p now o n ≠ .escape)

def pacc (H : PortId → Bool) (a : Acc) : Acc :=
  { a with errs := a.errs.filter (fun e => H e.1), trace := a.trace.filter (fun o => H o.port),
           changed := a.changed.filter (fun c => H c.1) }

theorem find_filter_H (H : PortId → Bool) (p : PortId) (hp : H p = true) (errs : List (PortId × Nat)) :
    (errs.filter (fun e => H e.1)).find? (fun e => e.1 == p) = errs.find? (fun e => e.1 == p) := by
  induction errs with
  | nil => rfl
  | cons x xs ih =>
    by_cases hx : H x.1 = true
    · simp [hx, List.find?_cons, ih]
    · have : (x.1 == p) = false := by
        apply Bool.eq_false_iff.mpr; intro h; simp at h; rw [h] at hx; exact hx hp
      simp [hx, ih, this]

theorem errContains_H (H : PortId → Bool) (p : PortId) (hp : H p = true) (r now : Nat) (errs : List (PortId × Nat)) :
    errContains r now (errs.filter (fun e => H e.1)) p
      = ((errContains r now errs p).1, (errContains r now errs p).2.filter (fun e => H e.1)) := by
  unfold errContains
  rw [find_filter_H H p hp]
  cases errs.find? (fun e => e.1 == p) with
  | none => rfl
  | some e =>
    by_cases h : now - e.2 > r
    · simp [h, List.filter_filter, Bool.and_comm]
    · simp [h]

theorem errContains_F (H : PortId → Bool) (p : PortId) (hp : H p = false) (r now : Nat) (errs : List (PortId × Nat)) :
    (errContains r now errs p).2.filter (fun e => H e.1) = errs.filter (fun e => H e.1) := by
  unfold errContains
  cases errs.find? (fun e => e.1 == p) with
  | none => rfl
  | some e =>
    by_cases h : now - e.2 > r
    · simp only [h, if_true, List.filter_filter]
      apply List.filter_congr
      intro x _
      by_cases hx : H x.1 = true
      · have : x.1 ≠ p := by intro h'; rw [h'] at hx; rw [hp] at hx; cases hx
        simp [hx, this]
      · simp [hx]
    · simp [h]

theorem hbStep_H (H : PortId → Bool) (E : Env) (sec : Bool) (a : Acc) (p : Port) (hp : H p.id = true) :
    hbStep E sec (pacc H a) p = (pacc H (hbStep E sec a p).1, (hbStep E sec a p).2) := by
  unfold hbStep
  cases sec <;> simp [pacc, Obs.port, hp]

theorem adopt_H (H : PortId → Bool) (a : Acc) (p : Port) (v : Val) (hp : H p.id = true) :
    adopt (pacc H a) p v = (pacc H (adopt a p v).1, (adopt a p v).2) := by
  unfold adopt
  by_cases h : (v != p.last) = true <;> simp [h, pacc, hp]

theorem readStep_H (H : PortId → Bool) (P : Params) (E : Env) (now : Nat) (a : Acc) (p : Port) (hp : H p.id = true) :
    readStep P E now (pacc H a) p = (pacc H (readStep P E now a p).1, (readStep P E now a p).2) := by
  unfold readStep
  have e1 : (pacc H a).errs = a.errs.filter (fun e => H e.1) := rfl
  rw [e1, errContains_H H p.id hp]
  by_cases hc : (errContains P.retry now a.errs p.id).1 = true
  · simp [hc]
  · simp only [hc, Bool.false_eq_true, if_false]
    cases hrd : E.rd p.id p.nrd with
    | ok =>
      simp only []
      rw [← adopt_H H _ _ _ (by simpa using hp)]
      simp [pacc, Obs.port, hp]
    | val v =>
      simp only []
      rw [← adopt_H H _ _ _ (by simpa using hp)]
      simp [pacc, Obs.port, hp]
    | skip => simp [pacc, Obs.port, hp]
    | raise => simp [pacc, Obs.port, hp]
    | escape => simp [pacc, Obs.port, hp]

theorem pollPort_H (H : PortId → Bool) (P : Params) (E : Env) (now : Nat) (sec : Bool) (a : Acc) (p : Port)
    (hp : H p.id = true) :
    pollPort P E now sec (pacc H a) p = (pacc H (pollPort P E now sec a p).1, (pollPort P E now sec a p).2) := by
  unfold pollPort
  have e0 : (pacc H a).aborted = a.aborted := rfl
  rw [e0]
  by_cases h0 : (a.aborted || !p.enabled) = true
  · simp [h0]
  · simp only [h0, Bool.false_eq_true, if_false]
    rw [hbStep_H H E sec a p hp]
    have e1 : (pacc H (hbStep E sec a p).1).aborted = (hbStep E sec a p).1.aborted := rfl
    simp only [e1]
    by_cases h1 : (hbStep E sec a p).1.aborted = true
    · simp [h1]
    · simp only [h1, Bool.false_eq_true, if_false]
      have hid : (hbStep E sec a p).2.id = p.id := by unfold hbStep; cases sec <;> rfl
      exact readStep_H H P E now _ _ (by rw [hid]; exact hp)

theorem pollPort_F (H : PortId → Bool) (P : Params) (E : Env) (now : Nat) (sec : Bool) (a : Acc) (p : Port)
    (hs : Safe E H) (hp : H p.id = false) :
    pacc H (pollPort P E now sec a p).1 = pacc H a := by
  obtain ⟨hrd, hhb, _⟩ := hs p.id hp
  unfold pollPort
  by_cases h0 : (a.aborted || !p.enabled) = true
  · simp [h0]
  · simp only [h0, Bool.false_eq_true, if_false]
    have hb1 : pacc H (hbStep E sec a p).1 = pacc H a := by
      unfold hbStep
      cases sec
      · rfl
      · have : (E.hb p.id p.nhb == XOut.escape) = false := by
          cases h : E.hb p.id p.nhb <;> simp_all
        have ha : a.aborted = false := by
          cases h : a.aborted <;> simp_all
        simp [pacc, Obs.port, hp, this, ha]
    have hid : (hbStep E sec a p).2.id = p.id := by unfold hbStep; cases sec <;> rfl
    have hnrd : (hbStep E sec a p).2.nrd = p.nrd := by unfold hbStep; cases sec <;> rfl
    by_cases h1 : (hbStep E sec a p).1.aborted = true
    · simp [h1, hb1]
    · simp only [h1, Bool.false_eq_true, if_false]
      rw [← hb1]
      generalize (hbStep E sec a p).1 = a' at *
      generalize hq : (hbStep E sec a p).2 = p' at *
      unfold readStep
      by_cases hc : (errContains P.retry now a'.errs p'.id).1 = true
      · simp [hc]
      · simp only [hc, Bool.false_eq_true, if_false]
        have hF := errContains_F H p'.id (by rw [hid]; exact hp) P.retry now a'.errs
        have hp' : H p'.id = false := by rw [hid]; exact hp
        have hne : E.rd p'.id p'.nrd ≠ .escape := by rw [hid, hnrd]; exact hrd _
        cases hrdv : E.rd p'.id p'.nrd with
        | ok =>
          simp only [adopt]
          split <;> simp [pacc, Obs.port, hp', hF]
        | val v =>
          simp only [adopt]
          split <;> simp [pacc, Obs.port, hp', hF]
        | skip => simp [pacc, Obs.port, hp', hF]
        | raise => simp [pacc, Obs.port, hp', hF]
        | escape => exact absurd hrdv hne

theorem pollPort_rport (H : PortId → Bool) (P : Params) (E : Env) (now : Nat) (sec : Bool) (a : Acc) (p : Port) :
    pollPort P E now sec a (rport H p) = ((pollPort P E now sec a p).1, rport H (pollPort P E now sec a p).2) := by
  unfold pollPort
  have e : (rport H p).enabled = p.enabled := rfl
  rw [e]
  by_cases h0 : (a.aborted || !p.enabled) = true
  · simp [h0]
  · simp only [h0, Bool.false_eq_true, if_false]
    have hb : hbStep E sec a (rport H p) = ((hbStep E sec a p).1, rport H (hbStep E sec a p).2) := by
      unfold hbStep; cases sec <;> simp [rport]
    rw [hb]
    by_cases h1 : (hbStep E sec a p).1.aborted = true
    · simp [h1]
    · simp only [h1, Bool.false_eq_true, if_false]
      generalize (hbStep E sec a p).1 = a'
      generalize (hbStep E sec a p).2 = p'
      unfold readStep
      have e2 : (rport H p').id = p'.id := rfl
      have e3 : (rport H p').nrd = p'.nrd := rfl
      have e4 : (rport H p').reg = p'.reg := rfl
      rw [e2, e3, e4]
      by_cases hc : (errContains P.retry now a'.errs p'.id).1 = true
      · simp [hc]
      · simp only [hc, Bool.false_eq_true, if_false]
        cases E.rd p'.id p'.nrd <;> simp [adopt, rport] <;> split <;> simp

theorem pollPort_id (P : Params) (E : Env) (now : Nat) (sec : Bool) (a : Acc) (p : Port) :
    (pollPort P E now sec a p).2.id = p.id := by
  unfold pollPort
  split
  · rfl
  · have hid : (hbStep E sec a p).2.id = p.id := by unfold hbStep; cases sec <;> rfl
    split
    · exact hid
    · rw [← hid]
      generalize (hbStep E sec a p).1 = a'
      generalize (hbStep E sec a p).2 = p'
      unfold readStep
      split
      · rfl
      · cases E.rd p'.id p'.nrd <;> simp [adopt] <;> split <;> rfl

theorem pollAll_proj (H : PortId → Bool) (P : Params) (E : Env) (now : Nat) (sec : Bool) (hs : Safe E H) :
    ∀ (ps : List Port) (a : Acc),
    pollAll P E now sec (pacc H a) ((ps.filter (fun q => H q.id)).map (rport H))
      = (pacc H (pollAll P E now sec a ps).1,
         ((pollAll P E now sec a ps).2.filter (fun q => H q.id)).map (rport H)) := by
  intro ps
  induction ps with
  | nil => intro a; rfl
  | cons p ps ih =>
    intro a
    by_cases hp : H p.id = true
    · have hid := pollPort_id P E now sec a p
      simp only [List.filter_cons, hp, if_true, List.map_cons, pollAll, hid]
      rw [pollPort_rport, pollPort_H H P E now sec a p hp]
      simp only [ih]
    · have hp' : H p.id = false := by simpa using hp
      have hid := pollPort_id P E now sec a p
      simp only [List.filter_cons, hp', Bool.false_eq_true, if_false, pollAll, hid]
      rw [← pollPort_F H P E now sec a p hs hp']
      exact ih _

theorem deliverTo_H (H : PortId → Bool) (E : Env) (now : Nat) (c : PortId × Val × Val) (hc : H c.1 = true)
    (st : List Obs × Bool) (j : Nat) :
    deliverTo E now c (st.1.filter (fun o => H o.port), st.2) j
      = ((deliverTo E now c st j).1.filter (fun o => H o.port), (deliverTo E now c st j).2) := by
  unfold deliverTo
  cases h : st.2 <;> simp [Obs.port, hc, h]

theorem deliverTo_F (H : PortId → Bool) (E : Env) (now : Nat) (c : PortId × Val × Val) (hc : H c.1 = false)
    (hs : Safe E H) (st : List Obs × Bool) (j : Nat) :
    ((deliverTo E now c st j).1.filter (fun o => H o.port), (deliverTo E now c st j).2)
      = (st.1.filter (fun o => H o.port), st.2) := by
  obtain ⟨_, _, hhd⟩ := hs c.1 hc
  unfold deliverTo
  cases h : st.2
  · have : (E.hd j c.1 now c.2.1 c.2.2 == XOut.escape) = false := by
      cases h' : E.hd j c.1 now c.2.1 c.2.2 <;> simp_all
    simp [Obs.port, hc, this]
  · simp [h]

theorem inner_H (H : PortId → Bool) (E : Env) (now : Nat) (c : PortId × Val × Val) (hc : H c.1 = true) :
    ∀ (js : List Nat) (st : List Obs × Bool),
    js.foldl (deliverTo E now c) (st.1.filter (fun o => H o.port), st.2)
      = ((js.foldl (deliverTo E now c) st).1.filter (fun o => H o.port), (js.foldl (deliverTo E now c) st).2) := by
  intro js
  induction js with
  | nil => intro st; rfl
  | cons j js ih =>
    intro st
    simp only [List.foldl_cons]
    rw [deliverTo_H H E now c hc, ih]

theorem inner_F (H : PortId → Bool) (E : Env) (now : Nat) (c : PortId × Val × Val) (hc : H c.1 = false)
    (hs : Safe E H) :
    ∀ (js : List Nat) (st : List Obs × Bool),
    ((js.foldl (deliverTo E now c) st).1.filter (fun o => H o.port), (js.foldl (deliverTo E now c) st).2)
      = (st.1.filter (fun o => H o.port), st.2) := by
  intro js
  induction js with
  | nil => intro st; rfl
  | cons j js ih =>
    intro st
    simp only [List.foldl_cons]
    rw [ih, deliverTo_F H E now c hc hs]

theorem deliver_proj (H : PortId → Bool) (E : Env) (now nh : Nat) (hs : Safe E H) :
    ∀ (cs : List (PortId × Val × Val)) (st : List Obs × Bool),
    deliver E now nh (st.1.filter (fun o => H o.port), st.2) (cs.filter (fun c => H c.1))
      = ((deliver E now nh st cs).1.filter (fun o => H o.port), (deliver E now nh st cs).2) := by
  intro cs
  induction cs with
  | nil => intro st; rfl
  | cons c cs ih =>
    intro st
    by_cases hc : H c.1 = true
    · simp only [deliver, List.filter_cons, hc, if_true, List.foldl_cons]
      rw [inner_H H E now c hc]
      exact ih _
    · have hc' : H c.1 = false := by simpa using hc
      simp only [deliver, List.filter_cons, hc', Bool.false_eq_true, if_false, List.foldl_cons]
      rw [← inner_F H E now c hc' hs (List.range nh) st]
      exact ih _
end QtVerif.Faults
