import QtVerif.Proofs.IntegrationStoreBase
import QtVerif.Proofs.Config
import QtVerif.Proofs.StoreStrong
import QtVerif.Proofs.StoreSort
/-!
Integration C07 × C06 — the persistence traffic of the configuration model (`Model/Config.lean`) run through the
reference record store `Ref` of C06 and, by C06's refinement theorems, through the driver models. Core Lean only.

Layer A (`Tracks`): by-id writes (`W.put` = `persist.replace` = replace-or-insert by id, `W.del` = remove by id)
translated to `Store.Op`s; the reference store after them holds exactly the by-id view `View`.
Transfer (`driver_answers`): any driver that agrees strongly with the reference store (C06's `AgreeStrongBy`) gives
the reference store's answers on that traffic.
Layer B (`Rel`): the writes a Config step performs on its abstract store, and the view they produce.
-/
namespace QtVerif.IntegrationStore
open QtVerif.Store

/-! ## Layer A: by-id writes on the reference store -/

/-- the record as `persist.replace` hands it to the driver: `dict(record, id=id_)` -/
def full (i : Str) (b : Fields) : Fields := (kId, .str i) :: b

/-- the filter `{'id': i}` -/
def byId (i : Str) : Fields := [(kId, .str i)]

/-- `persist.get(coll, i)` = `query(coll, filt={'id': i})` -/
def readOp (c i : Str) : Op := .query c none (byId i) [] none

def lookup (c : Coll) (i : Str) : Option Fields := c.find? (fun d => recId d == i)

structure CollOK (c : Coll) : Prop where
  nodup : c.ids.Nodup
  ids : ∀ d ∈ c, dget kId d = some (.str (recId d))

inductive W where
  | put (coll i : Str) (b : Fields)
  | del (coll i : Str)

abbrev View := Str → Str → Option Fields

def applyV (V : View) : W → View
  | .put c i b => fun c' j => if c' = c ∧ j = i then some (full i b) else V c' j
  | .del c i => fun c' j => if c' = c ∧ j = i then none else V c' j

/-- the `Store.Op`s of one write, as `persist.replace` (replace; insert when there was no such record) and
`persist.remove(coll, {'id': i})` issue them; whether the record exists is read off the view -/
def opsOfW (V : View) : W → List Op
  | .put c i b => if (V c i).isSome then [.replace c i (full i b)] else [.replace c i (full i b), .insert c (full i b)]
  | .del c i => [.remove c (byId i)]

def traffic (V : View) : List W → List Op
  | [] => []
  | w :: ws => opsOfW V w ++ traffic (applyV V w) ws

def refRun (rs : RefState) : List Op → RefState
  | [] => rs
  | op :: t => refRun (Ref.step rs [] op).1 t

def refResults (rs : RefState) : List Op → List Res
  | [] => []
  | op :: t => (Ref.step rs [] op).2 :: refResults (Ref.step rs [] op).1 t

structure Tracks (rs : RefState) (V : View) : Prop where
  ok : ∀ c, CollOK (aget [] c rs)
  look : ∀ c j, lookup (aget [] c rs) j = V c j

theorem recId_full (i : Str) (b : Fields) : recId (full i b) = i := by simp [recId, full, dget]

theorem dset_full (i : Str) (b : Fields) : dset kId (.str i) (full i b) = full i b := by simp [full, dset]

theorem lookup_isSome_iff (c : Coll) (i : Str) : (lookup c i).isSome = true ↔ ∃ d ∈ c, recId d = i := by
  simp [lookup, List.find?_isSome]

theorem contains_iff (c : Coll) (i : Str) : c.ids.contains i = true ↔ ∃ d ∈ c, recId d = i := by
  simp [Coll.ids, eq_comm]

theorem contains_of_some (c : Coll) (i : Str) (h : (lookup c i).isSome = true) : c.ids.contains i = true :=
  (contains_iff c i).mpr ((lookup_isSome_iff c i).mp h)

theorem contains_of_none (c : Coll) (i : Str) (h : (lookup c i).isSome = false) : c.ids.contains i = false := by
  cases hc : c.ids.contains i with
  | false => rfl
  | true =>
    have := (lookup_isSome_iff c i).mpr ((contains_iff c i).mp hc)
    rw [h] at this; cases this

theorem lookup_replaceRec (c : Coll) (i : Str) (new : Fields) (hn : recId new = i) (j : Str) :
    lookup (Ref.replaceRec i new c) j = if j = i ∧ (lookup c i).isSome = true then some new else lookup c j := by
  induction c with
  | nil => simp [Ref.replaceRec, lookup]
  | cons d t ih =>
    simp only [lookup] at ih
    by_cases hd : recId d = i
    · by_cases hj : j = i
      · subst hj; simp [Ref.replaceRec, lookup, hd, hn]
      · have : ¬ i = j := fun e => hj e.symm
        simp [Ref.replaceRec, lookup, hd, hn, hj, this]
    · by_cases hj : j = i
      · subst hj
        have hb : (recId d == j) = false := by simp [hd]
        simp only [Ref.replaceRec, lookup, hd, if_false, List.find?_cons, hb, ih]
      · by_cases hdj : recId d = j
        · have hb : (recId d == j) = true := by simp [hdj]
          simp only [Ref.replaceRec, lookup, hd, if_false, List.find?_cons, hb]
          simp [hj]
        · have hb : (recId d == j) = false := by simp [hdj]
          simp only [Ref.replaceRec, lookup, hd, if_false, List.find?_cons, hb, ih]
          simp [hj]

theorem ids_replaceRec (c : Coll) (i : Str) (new : Fields) (hn : recId new = i) :
    (Ref.replaceRec i new c).ids = c.ids := by
  induction c with
  | nil => rfl
  | cons d t ih =>
    simp only [Coll.ids] at ih
    by_cases hd : recId d = i
    · simp [Ref.replaceRec, Coll.ids, hd, hn]
    · simp [Ref.replaceRec, Coll.ids, hd, ih]

theorem mem_replaceRec (c : Coll) (i : Str) (new : Fields) (d : Fields) (h : d ∈ Ref.replaceRec i new c) :
    d = new ∨ d ∈ c := by
  induction c with
  | nil => simp [Ref.replaceRec] at h
  | cons x t ih =>
    by_cases hd : recId x = i
    · simp only [Ref.replaceRec, hd, if_true, List.mem_cons] at h
      rcases h with h | h
      · exact Or.inl h
      · exact Or.inr (List.mem_cons_of_mem _ h)
    · simp only [Ref.replaceRec, hd, if_false, List.mem_cons] at h
      rcases h with h | h
      · exact Or.inr (by simp [h])
      · rcases ih h with h | h
        · exact Or.inl h
        · exact Or.inr (List.mem_cons_of_mem _ h)

theorem lookup_append (c : Coll) (new : Fields) (i : Str) (hn : recId new = i) (hnone : lookup c i = none) (j : Str) :
    lookup (c ++ [new]) j = if j = i then some new else lookup c j := by
  simp only [lookup, List.find?_append] at hnone ⊢
  by_cases hj : j = i
  · subst hj; simp [hnone, hn]
  · have : ¬ recId new = j := fun e => hj (e.symm.trans hn)
    simp [hj, this]

theorem lookup_filter (c : Coll) (i j : Str) :
    lookup (c.filter (fun d => !(recId d == i))) j = if j = i then none else lookup c j := by
  induction c with
  | nil => simp [lookup]
  | cons d t ih =>
    simp only [lookup] at ih
    by_cases hd : recId d = i
    · by_cases hj : j = i
      · subst hj; simp [lookup, List.filter_cons, hd, ih]
      · have : ¬ i = j := fun e => hj e.symm
        simp [lookup, List.filter_cons, hd, ih, hj, this]
    · by_cases hj : j = i
      · subst hj; simp [lookup, List.filter_cons, hd, ih]
      · have hbi : (recId d == i) = false := by simp [hd]
        by_cases hdj : recId d = j
        · have hb : (recId d == j) = true := by simp [hdj]
          simp only [lookup, List.filter_cons, hbi, Bool.not_false, if_true, List.find?_cons, hb]
          simp [hj]
        · have hb : (recId d == j) = false := by simp [hdj]
          simp only [lookup, List.filter_cons, hbi, Bool.not_false, if_true, List.find?_cons, hb, ih]

theorem filter_eq_lookup (c : Coll) (nd : c.ids.Nodup) (i : Str) :
    c.filter (fun d => recId d == i) = (lookup c i).toList := by
  induction c with
  | nil => rfl
  | cons d t ih =>
    simp only [Coll.ids, List.map_cons, List.nodup_cons] at nd
    have ih := ih nd.2
    by_cases hd : recId d = i
    · have hnot : lookup t i = none := by
        cases h : lookup t i with
        | none => rfl
        | some x =>
          have := (lookup_isSome_iff t i).mp (by rw [h]; rfl)
          obtain ⟨y, hy, hyi⟩ := this
          exact absurd (List.mem_map.mpr ⟨y, hy, hyi.trans hd.symm⟩) nd.1
      rw [hnot] at ih
      simp [lookup, List.filter_cons, hd, ih]
    · simp only [lookup] at ih
      simp [lookup, List.filter_cons, hd, ih]

theorem matchAll_byId (c : Coll) (h : ∀ d ∈ c, dget kId d = some (.str (recId d))) (i : Str) :
    matchAll (byId i) c = some (c.map (fun d => recId d == i)) := by
  induction c with
  | nil => rfl
  | cons d t ih =>
    have h1 := h d (by simp)
    have ih := ih (fun x hx => h x (List.mem_cons_of_mem _ hx))
    simp only [byId] at ih ⊢
    cases hb : (recId d == i) <;> simp [matchAll, recMatches, h1, condMatches, jeq, ih, hb]

theorem selectBy_map_eq_filter {α : Type} (l : List α) (p : α → Bool) : selectBy l (l.map p) = l.filter p := by
  induction l with
  | nil => rfl
  | cons x t ih => cases hp : p x <;> simp [selectBy, List.filter_cons, hp, ih]

theorem selectBy_map_not_eq_filter {α : Type} (l : List α) (p : α → Bool) :
    selectBy l ((l.map p).map not) = l.filter (fun x => !p x) := by
  rw [List.map_map]; exact selectBy_map_eq_filter l (not ∘ p)

theorem filtOk_byId (i : Str) : filtOk (byId i) = true := by simp [filtOk, byId, condOk]

/-- the reference store's answer to `persist.get(coll, i)` under a tracked view -/
theorem ref_read (rs : RefState) (V : View) (h : Tracks rs V) (c i : Str) :
    Ref.step rs [] (readOp c i) = (rs, .recs (V c i).toList) := by
  have hok := h.ok c
  have hsort : ∀ l : List Fields, lexSort [] l = some l := by
    intro l
    have : isort (lexLt sortKeyR []) l = l := by
      have e : lexLt sortKeyR [] = fun _ _ => false := by funext a b; rfl
      rw [e]; exact isort_false l
    simp [lexSort, sortDomain, this]
  simp only [readOp, Ref.step, filtOk_byId, Bool.not_true, Bool.false_eq_true, if_false,
    matchAll_byId _ hok.ids, selectBy_map_eq_filter, hsort, applyLimit]
  rw [filter_eq_lookup _ hok.nodup, h.look]
  congr 2
  induction (V c i).toList with
  | nil => rfl
  | cons x t ih => simp [project, ih]

theorem collOK_aset (rs : RefState) (h : ∀ c, CollOK (aget [] c rs)) (coll : Str) (new : Coll) (hn : CollOK new) :
    ∀ c, CollOK (aget [] c (aset coll new rs)) := by
  intro c
  rw [aget_aset]
  by_cases e : c = coll
  · simp [e, hn]
  · simp [e, h c]

/-- one write: the reference store follows the view, and none of its answers is an out-of-contract rejection -/
theorem tracks_write (rs : RefState) (V : View) (h : Tracks rs V) (w : W) :
    Tracks (refRun rs (opsOfW V w)) (applyV V w) ∧ ∀ r ∈ refResults rs (opsOfW V w), r.outside = false := by
  cases w with
  | put c i b =>
    have hok := h.ok c
    have hl := h.look c i
    cases hv : V c i with
    | some x =>
      have hsome : (lookup (aget [] c rs : Coll) i).isSome = true := by rw [hl, hv]; rfl
      have hc := contains_of_some _ _ hsome
      have hstep : Ref.step rs [] (.replace c i (full i b))
          = (aset c (Ref.replaceRec i (full i b) (aget [] c rs)) rs, .flag true) := by
        have hc' : i ∈ (aget [] c rs : Coll).ids := by simpa using hc
        simp [Ref.step, hc, hc', dset_full]
      simp only [opsOfW, hv, Option.isSome_some, if_true, refRun, refResults, hstep]
      refine ⟨⟨?_, ?_⟩, by simp [Res.outside]⟩
      · apply collOK_aset rs h.ok
        refine ⟨by rw [ids_replaceRec _ _ _ (recId_full i b)]; exact hok.nodup, ?_⟩
        intro d hd
        rcases mem_replaceRec _ _ _ _ hd with e | e
        · subst e; rw [recId_full]; simp [full, dget]
        · exact hok.ids d e
      · intro c' j
        rw [aget_aset]
        by_cases e : c' = c
        · subst e
          simp only [if_true, lookup_replaceRec _ _ _ (recId_full i b), hsome, and_true, applyV, true_and]
          split
          · rfl
          · exact h.look _ _
        · simp [e, applyV, h.look]
    | none =>
      have hnone : lookup (aget [] c rs : Coll) i = none := by rw [hl, hv]
      have hc := contains_of_none _ _ (by rw [hnone]; rfl)
      have hstep1 : Ref.step rs [] (.replace c i (full i b)) = (rs, .flag false) := by
        have hc' : i ∉ (aget [] c rs : Coll).ids := by simpa using hc
        simp [Ref.step, hc, hc']
      have hstep2 : Ref.step rs [] (.insert c (full i b))
          = (aset c ((aget [] c rs : Coll) ++ [full i b]) rs, .id i) := by
        have : dget kId (full i b) = some (.str i) := by simp [full, dget]
        have hc' : i ∉ (aget [] c rs : Coll).ids := by simpa using hc
        simp [Ref.step, this, hc, hc']
      simp only [opsOfW, hv, Option.isSome_none, Bool.false_eq_true, if_false, refRun, refResults, hstep1, hstep2]
      refine ⟨⟨?_, ?_⟩, by simp [Res.outside]⟩
      · apply collOK_aset rs h.ok
        constructor
        · simp only [Coll.ids, List.map_append, List.map_cons, List.map_nil, recId_full]
          have hni : i ∉ (aget [] c rs : Coll).ids := by
            intro hm
            have : (aget [] c rs : Coll).ids.contains i = true := by simpa using hm
            rw [hc] at this; cases this
          exact List.nodup_append.mpr ⟨hok.nodup, by simp, by
            intro a ha b' hb; simp at hb; subst hb; intro e; subst e; exact hni ha⟩
        · intro d hd
          simp only [List.mem_append, List.mem_singleton] at hd
          rcases hd with e | e
          · exact hok.ids d e
          · subst e; rw [recId_full]; simp [full, dget]
      · intro c' j
        rw [aget_aset]
        by_cases e : c' = c
        · subst e
          simp only [if_true, lookup_append _ _ _ (recId_full i b) hnone, applyV, true_and]
          split
          · rfl
          · exact h.look _ _
        · simp [e, applyV, h.look]
  | del c i =>
    have hok := h.ok c
    have hstep : Ref.step rs [] (.remove c (byId i))
        = (aset c ((aget [] c rs : Coll).filter (fun d => !(recId d == i))) rs,
           .count (countTrue ((aget [] c rs : Coll).map (fun d => recId d == i)))) := by
      simp [Ref.step, filtOk_byId, matchAll_byId _ hok.ids]
      exact congrArg (fun x => aset c x rs) (selectBy_map_eq_filter (aget [] c rs : Coll) _)
    simp only [opsOfW, refRun, refResults, hstep]
    refine ⟨⟨?_, ?_⟩, by simp [Res.outside]⟩
    · apply collOK_aset rs h.ok
      refine ⟨?_, fun d hd => hok.ids d (List.mem_filter.mp hd).1⟩
      exact (List.filter_sublist.map recId).nodup hok.nodup
    · intro c' j
      rw [aget_aset]
      by_cases e : c' = c
      · subst e
        simp only [if_true, lookup_filter, applyV, true_and]
        split
        · rfl
        · exact h.look _ _
      · simp [e, applyV, h.look]

theorem refRun_append (rs : RefState) (a b : List Op) : refRun rs (a ++ b) = refRun (refRun rs a) b := by
  induction a generalizing rs with
  | nil => rfl
  | cons x t ih => simp [refRun, ih]

theorem refResults_append (rs : RefState) (a b : List Op) :
    refResults rs (a ++ b) = refResults rs a ++ refResults (refRun rs a) b := by
  induction a generalizing rs with
  | nil => rfl
  | cons x t ih => simp [refRun, refResults, ih]

/-- **abstraction function**: after the traffic of any list of writes the reference store holds exactly the view -/
theorem tracks_traffic (ws : List W) : ∀ (rs : RefState) (V : View), Tracks rs V →
    Tracks (refRun rs (traffic V ws)) (ws.foldl applyV V) ∧ ∀ r ∈ refResults rs (traffic V ws), r.outside = false := by
  induction ws with
  | nil => intro rs V h; exact ⟨h, by simp [traffic, refResults]⟩
  | cons w t ih =>
    intro rs V h
    obtain ⟨h1, h2⟩ := tracks_write rs V h w
    obtain ⟨h3, h4⟩ := ih _ _ h1
    simp only [traffic, refRun_append, refResults_append, List.foldl_cons]
    refine ⟨h3, ?_⟩
    intro r hr
    rcases List.mem_append.mp hr with hr | hr
    · exact h2 r hr
    · exact h4 r hr

theorem tracks_init : Tracks [] (fun _ _ => none) :=
  ⟨fun _ => ⟨by simp [aget, Coll.ids], by simp [aget]⟩, fun _ _ => by simp [aget, lookup]⟩

/-! ## Transfer to a driver that agrees with the reference store -/

/-- the reference store's answer does not depend on the name offered for a generated id -/
def NameFree (op : Op) : Prop := ∀ rs n, Ref.step rs n op = Ref.step rs [] op

theorem nameFree_opsOfW (V : View) (w : W) : ∀ op ∈ opsOfW V w, NameFree op := by
  intro op hop rs n
  cases w with
  | put c i b =>
    have hid : dget kId (full i b) = some (.str i) := by simp [full, dget]
    simp only [opsOfW] at hop
    split at hop
    · simp only [List.mem_singleton] at hop; subst hop; rfl
    · simp only [List.mem_cons, List.mem_nil_iff, or_false] at hop
      rcases hop with rfl | rfl
      · rfl
      · simp [Ref.step, hid]
  | del c i => simp only [opsOfW, List.mem_singleton] at hop; subst hop; rfl

theorem nameFree_traffic (ws : List W) : ∀ V, ∀ op ∈ traffic V ws, NameFree op := by
  induction ws with
  | nil => intro V op h; simp [traffic] at h
  | cons w t ih =>
    intro V op h
    simp only [traffic, List.mem_append] at h
    rcases h with h | h
    · exact nameFree_opsOfW V w op h
    · exact ih _ op h

theorem nameFree_readOp (c i : Str) : NameFree (readOp c i) := fun _ _ => rfl

section driver
variable {σ : Type} (drv : σ → Op → σ × Res)

def drvRun (s : σ) : List Op → σ
  | [] => s
  | op :: t => drvRun (drv s op).1 t

def drvResults (s : σ) : List Op → List Res
  | [] => []
  | op :: t => (drv s op).2 :: drvResults (drv s op).1 t

theorem drvResults_append (s : σ) (a b : List Op) :
    drvResults drv s (a ++ b) = drvResults drv s a ++ drvResults drv (drvRun drv s a) b := by
  induction a generalizing s with
  | nil => rfl
  | cons x t ih => simp [drvRun, drvResults, ih]

/-- along name-free operations none of which the reference store rejects as outside the contract, strong agreement
means: every answer of the driver is the reference store's (up to `norm`) -/
theorem answers_of_agree (norm : Res → Res) : ∀ (ops : List Op) (s : σ) (rs : RefState),
    (∀ op ∈ ops, NameFree op) → AgreeStrongBy norm ops (runWith drv s rs ops) →
    (∀ r ∈ refResults rs ops, r.outside = false) → drvResults drv s ops = (refResults rs ops).map norm := by
  intro ops
  induction ops with
  | nil => intro _ _ _ _ _; rfl
  | cons op t ih =>
    intro s rs hnf hag hout
    have e : ∀ n, Ref.step rs n op = Ref.step rs [] op := hnf op (by simp) rs
    simp only [runWith, AgreeStrongBy] at hag
    rw [e _] at hag
    obtain ⟨_, h2, h3⟩ := hag
    have ho : (Ref.step rs [] op).2.outside = false := hout _ (by simp [refResults])
    simp only [drvResults, refResults, List.map_cons, h2 ho]
    congr 1
    exact ih _ _ (fun o h => hnf o (by simp [h])) (h3 (Or.inl ho)) (fun r hr => hout r (by simp [refResults, hr]))

/-- **Transfer**: for a driver that strongly agrees with the reference store on the operations `ops ++ [readOp c i]`
(started empty), the driver's answer to `persist.get(c, i)` after the traffic of the writes `ws` is the record the
view holds (up to `norm`). -/
theorem driver_answers (norm : Res → Res) (s0 : σ) (ws : List W) (c i : Str)
    (hag : AgreeStrongBy norm (traffic (fun _ _ => none) ws ++ [readOp c i])
      (runWith drv s0 [] (traffic (fun _ _ => none) ws ++ [readOp c i]))) :
    (drv (drvRun drv s0 (traffic (fun _ _ => none) ws)) (readOp c i)).2
      = norm (.recs ((ws.foldl applyV (fun _ _ => none)) c i).toList) := by
  obtain ⟨ht, hout⟩ := tracks_traffic ws [] _ tracks_init
  have hread := ref_read _ _ ht c i
  have hnf : ∀ op ∈ traffic (fun _ _ => none) ws ++ [readOp c i], NameFree op := by
    intro op h
    rcases List.mem_append.mp h with h | h
    · exact nameFree_traffic ws _ op h
    · simp only [List.mem_singleton] at h; subst h; exact nameFree_readOp c i
  have hall := answers_of_agree drv norm _ s0 [] hnf hag (by
    intro r hr
    rw [refResults_append] at hr
    rcases List.mem_append.mp hr with hr | hr
    · exact hout r hr
    · simp only [refResults, hread, List.mem_singleton] at hr; subst hr; rfl)
  rw [drvResults_append, refResults_append, List.map_append] at hall
  have hlen : (drvResults drv s0 (traffic (fun _ _ => none) ws)).length
      = ((refResults [] (traffic (fun _ _ => none) ws)).map norm).length := by
    have := congrArg List.length hall
    simp only [List.length_append, List.length_map, drvResults, refResults, List.length_cons, List.length_nil] at this ⊢
    omega
  have h2 := (List.append_inj hall hlen).2
  simp only [drvResults, refResults, hread, List.map_cons, List.map_nil, List.cons.injEq, and_true] at h2
  exact h2

end driver

end QtVerif.IntegrationStore
