import QtVerif.Proofs.ParseFix
/-! Scanner-level rejection reasons for single faults in a call with fine arguments (missing closing parenthesis,
something after the closing parenthesis, blank argument). Helper lemmas for C03. -/
set_option linter.unusedSimpArgs false
namespace QtVerif.Parse
open QtVerif.Syntax

/-- A scanner error is the error of `parse` for a text that is dispatched to `Function.parse`. -/
theorem parse_of_scan_err (env : Env) {core ws1 ws2 : List Char} (h1 : AllSpace ws1) (h2 : AllSpace ws2)
    (ht : Tight core) (hs : headSpecial core = false) (hp : hasParen core = true) (k : ErrKind)
    (hscan : ∀ p, ∃ er, scan p core = .error er ∧ er.kind = k) :
    outcomeKind (parse env (ws1 ++ core ++ ws2)) = .error k := by
  show outcomeKind (parseFuel env _ 1 _) = _
  rw [parseFuel_succ, trim_wrap h1 h2 ht, hs, hp]
  simp only [Bool.false_eq_true, if_false, if_true, parseCall, trim_tight ht]
  obtain ⟨er, he, hk⟩ := hscan (1 + lead (ws1 ++ core ++ ws2) + lead core)
  rw [he]
  simp [outcomeKind, hk]

/-- State of the scanner after `head ( t₁ , … , tₙ` (no closing parenthesis yet). -/
theorem scan_prefix (pos : Nat) (hd : List Char) (ts : List (List Char)) (hh : ∀ c ∈ hd, c ≠ '(' ∧ c ≠ ')')
    (hb : ∀ t ∈ ts, Bal false t ∧ trim t ≠ []) (rest : List Char) :
    ∃ i as cur sargs, scanLoop pos {} (hd ++ '(' :: joinC ts ++ rest) =
        scanLoop pos ⟨i, some hd.length, none, 1, hd, as, cur, sargs⟩ rest ∧
      i = hd.length + 1 + (joinC ts).length ∧ (ts = [] → cur = []) ∧
      (∀ hne : ts ≠ [], cur = ts.getLast hne) := by
  have e1 := scan_name hd hh pos 0 [] 0 [] [] ('(' :: joinC ts ++ rest)
  simp only [List.nil_append, Nat.zero_add] at e1
  have e1' : scanLoop pos {} (hd ++ '(' :: joinC ts ++ rest) =
      scanLoop pos ⟨hd.length + 1, some hd.length, none, 1, hd, hd.length + 1, [], []⟩ (joinC ts ++ rest) := by
    have : (hd ++ '(' :: joinC ts ++ rest) = hd ++ ('(' :: joinC ts ++ rest) := by simp
    rw [this]
    show scanLoop pos ⟨0, none, none, 0, [], 0, [], []⟩ _ = _
    rw [e1, List.cons_append, scanLoop_step (step_open0 pos _ hd 0 [] [])]
  by_cases hne : ts = []
  · subst hne
    exact ⟨_, _, [], [], by simpa [joinC] using e1', by simp [joinC], fun _ => rfl, fun h => absurd rfl h⟩
  · obtain ⟨as', sargs', h1, -⟩ := scan_args ts hne hb pos (hd.length + 1) hd.length hd (hd.length + 1) [] rest
    exact ⟨_, as', ts.getLast hne, sargs', by rw [e1', h1], rfl, fun h => absurd h hne, fun _ => rfl⟩

/-- **unexpected end**: the closing parenthesis of a call with fine arguments is missing. -/
theorem scan_missing_close (pos : Nat) (hd : List Char) (ts : List (List Char)) (hh : ∀ c ∈ hd, c ≠ '(' ∧ c ≠ ')')
    (hb : ∀ t ∈ ts, Bal false t ∧ trim t ≠ []) :
    ∃ er, scan pos (hd ++ '(' :: joinC ts) = .error er ∧ er.kind = .unexpectedEnd := by
  obtain ⟨i, as, cur, sargs, h, -⟩ := scan_prefix pos hd ts hh hb []
  simp only [List.append_nil] at h
  refine ⟨{ kind := .unexpectedEnd }, ?_, rfl⟩
  unfold scan
  rw [h]
  simp [scanLoop, finish]

/-- whitespace after the closing parenthesis is skipped -/
theorem scan_after_ws (pos : Nat) {ws : List Char} (hws : AllSpace ws) :
    ∀ (i ps pe : Nat) (name : List Char) (as : Nat) (cur : List Char) (sargs : List (List Char × Nat))
      (rest : List Char),
    scanLoop pos ⟨i, some ps, some pe, 0, name, as, cur, sargs⟩ (ws ++ rest) =
    scanLoop pos ⟨i + ws.length, some ps, some pe, 0, name, as, cur, sargs⟩ rest := by
  induction ws with
  | nil => intros; simp
  | cons c w ih =>
    intro i ps pe name as cur sargs rest
    have hc : isSpace c = true := hws c List.mem_cons_self
    have hsp := space_not_special hc
    have hn := noPC_of_not_special hsp
    have e1 : (c == '(') = false := by simpa using hn.1
    have e2 : (c == ')') = false := by simpa using hn.2.1
    have hstep : step pos ⟨i, some ps, some pe, 0, name, as, cur, sargs⟩ c =
        .ok ⟨i + 1, some ps, some pe, 0, name, as, cur, sargs⟩ := by
      simp [step, e1, e2, hc]
    rw [List.cons_append, scanLoop_step hstep, ih (fun d hd => hws d (List.mem_cons_of_mem _ hd))]
    congr 2
    simp; omega

/-- **unbalanced parentheses / unexpected character**: something follows the closing parenthesis of a call with
fine arguments: a `)` is reported as unbalanced, any other non-blank character as unexpected. -/
theorem scan_trailing (pos : Nat) (hd : List Char) (ts : List (List Char)) (hh : ∀ c ∈ hd, c ≠ '(' ∧ c ≠ ')')
    (hb : ∀ t ∈ ts, Bal false t ∧ trim t ≠ []) {ws : List Char} (hws : AllSpace ws) (c : Char) (rest : List Char)
    (hc : isSpace c = false) :
    ∃ er, scan pos (hd ++ '(' :: joinC ts ++ ')' :: ws ++ c :: rest) = .error er ∧
      er.kind = (if c = ')' then .unbalanced else .unexpectedChar) := by
  obtain ⟨i, as, cur, sargs, h, -⟩ := scan_prefix pos hd ts hh hb (')' :: ws ++ c :: rest)
  have e : hd ++ '(' :: joinC ts ++ ')' :: ws ++ c :: rest = hd ++ '(' :: joinC ts ++ (')' :: ws ++ c :: rest) := by
    simp
  unfold scan
  rw [e, h, List.cons_append, scanLoop_step (step_close1 pos _ _ hd _ _ _), scan_after_ws pos hws]
  by_cases hcp : c = ')'
  · subst hcp
    refine ⟨{ kind := .unbalanced, pos := pos + (i + 1 + ws.length) }, ?_, by simp⟩
    simp [scanLoop, step]
  · by_cases hco : c = '('
    · subst hco
      refine ⟨{ kind := .unexpectedChar, pos := pos + (i + 1 + ws.length), tok := ['('] }, ?_, by simp⟩
      simp [scanLoop, step]
    · have e1 : (c == '(') = false := by simpa using hco
      have e2 : (c == ')') = false := by simpa using hcp
      refine ⟨{ kind := .unexpectedChar, pos := pos + (i + 1 + ws.length), tok := [c] }, ?_, by simp [hcp]⟩
      simp [scanLoop, step, e1, e2, hc]

theorem pre_bal {ts : List (List Char)} (hb : ∀ t ∈ ts, Bal false t ∧ trim t ≠ []) :
    ∀ (pos i ps : Nat) (name : List Char) (as : Nat) (sargs : List (List Char × Nat)) (rest : List Char),
    ∃ as' sargs', scanLoop pos ⟨i, some ps, none, 1, name, as, [], sargs⟩ (pre ts ++ rest) =
      scanLoop pos ⟨i + (pre ts).length, some ps, none, 1, name, as', [], sargs'⟩ rest := by
  induction ts with
  | nil => intro pos i ps name as sargs rest; exact ⟨as, sargs, by simp [pre]⟩
  | cons t r ih =>
    intro pos i ps name as sargs rest
    have ht := hb t List.mem_cons_self
    obtain ⟨as', sargs', h⟩ := ih (fun x hx => hb x (List.mem_cons_of_mem _ hx)) pos (i + t.length + 1) ps name
      (i + t.length + 1) (sargs ++ [(t, as)]) rest
    refine ⟨as', sargs', ?_⟩
    have e0 := scan_bal ht.1 pos i ps 0 name as [] sargs (',' :: pre r ++ rest) (by intro h; cases h)
    simp only [pre, List.append_assoc, List.cons_append, List.nil_append] at e0 ⊢
    rw [e0, scanLoop_step (step_comma1 pos _ ps name as t sargs ht.2), h]
    congr 2
    simp; omega

/-- **unexpected character**: an argument of a call is blank (`F(a, , b)`, `F(a, )`, `F( )`): the comma or
parenthesis that ends the blank argument is reported. -/
theorem scan_blank_arg (pos : Nat) (hd : List Char) (ts : List (List Char)) (hh : ∀ c ∈ hd, c ≠ '(' ∧ c ≠ ')')
    (hb : ∀ t ∈ ts, Bal false t ∧ trim t ≠ []) {blank : List Char} (hbl : AllSpace blank) (rest : List Char)
    (c : Char) (hc : c = ',' ∨ (c = ')' ∧ rest = [] ∧ (ts ≠ [] ∨ blank ≠ []))) :
    ∃ er, scan pos (hd ++ '(' :: pre ts ++ blank ++ c :: rest) = .error er ∧ er.kind = .unexpectedChar := by
  have e1 := scan_name hd hh pos 0 [] 0 [] [] ('(' :: pre ts ++ blank ++ c :: rest)
  simp only [List.nil_append, Nat.zero_add] at e1
  have e1' : scanLoop pos {} (hd ++ '(' :: pre ts ++ blank ++ c :: rest) =
      scanLoop pos ⟨hd.length + 1, some hd.length, none, 1, hd, hd.length + 1, [], []⟩
        (pre ts ++ (blank ++ c :: rest)) := by
    have : (hd ++ '(' :: pre ts ++ blank ++ c :: rest) = hd ++ ('(' :: pre ts ++ blank ++ c :: rest) := by simp
    rw [this]
    show scanLoop pos ⟨0, none, none, 0, [], 0, [], []⟩ _ = _
    rw [e1]
    simp only [List.cons_append, List.append_assoc]
    rw [scanLoop_step (step_open0 pos _ hd 0 [] [])]
  obtain ⟨as', sargs', h2⟩ := pre_bal hb pos (hd.length + 1) hd.length hd (hd.length + 1) [] (blank ++ c :: rest)
  have h3 := scan_bal (bal_allSpace false hbl) pos (hd.length + 1 + (pre ts).length) hd.length 0 hd as' [] sargs'
    (c :: rest) (by intro h; cases h)
  have htb : trim blank = [] := by
    have := trim_wrap (core := []) hbl allSpace_nil tight_nil
    simpa using this
  unfold scan
  rw [e1', h2, h3]
  simp only [List.nil_append]
  rcases hc with rfl | ⟨rfl, rfl, hne⟩
  · refine ⟨{ kind := .unexpectedChar, pos := pos + as' + blank.length, tok := [','] }, ?_, rfl⟩
    simp [scanLoop, step, htb]
  · refine ⟨{ kind := .unexpectedChar, pos := pos + as' + blank.length, tok := [')'] }, ?_, rfl⟩
    rw [scanLoop_step (step_close1 pos _ _ hd _ _ _)]
    have hlen : (pre ts).length + blank.length ≥ 1 := by
      rcases hne with h | h
      · cases ts with
        | nil => exact absurd rfl h
        | cons a r => simp [pre]; omega
      · cases blank with
        | nil => exact absurd rfl h
        | cons a r => simp; omega
    have h5 : ¬ (hd.length > hd.length + 1 + (pre ts).length + blank.length) := by omega
    have h6 : hd.length + 1 + (pre ts).length + blank.length - hd.length > 1 := by omega
    simp [scanLoop, finish, h5, h6, htb]


/-- the head `NAME ws` of a call text: what the dispatch of `parse` sees -/
theorem callhead_facts {fname ws : List Char} (hn : NameText fname) (hws : AllSpace ws) (hfw : fname = [] → ws = [])
    (x : List Char) :
    (∀ c ∈ fname ++ ws, c ≠ '(' ∧ c ≠ ')') ∧ headSpecial (fname ++ ws ++ '(' :: x) = false ∧
    hasParen (fname ++ ws ++ '(' :: x) = true := by
  refine ⟨?_, ?_, by simp [hasParen]⟩
  · intro c hc
    have : isSpecial c = false := by
      rcases List.mem_append.mp hc with h | h
      · exact nameChar_not_special (hn c h)
      · exact space_not_special (hws c h)
    exact ⟨(noPC_of_not_special this).1, (noPC_of_not_special this).2.1⟩
  · cases fname with
    | nil => rw [hfw rfl]; rfl
    | cons a r =>
      have := nameChar_not_special (hn a List.mem_cons_self)
      simp only [isSpecial, Bool.or_eq_false_iff] at this
      simp [headSpecial, this]

theorem args_fine (env : Env) {args : List Expr} {ts : List (List Char)}
    (h : All2 (fun e t => Derives env e t) args ts) : ∀ t ∈ ts, Bal false t ∧ trim t ≠ [] := by
  intro t ht
  obtain ⟨a, -, hd⟩ := forall2_right_mem h t ht
  exact ⟨derives_bal env (t.length + 1) a t (Nat.lt_succ_self _) hd, derives_trim env hd⟩

end QtVerif.Parse
