import QtVerif.Proofs.ParseNoCrash
/-! Nesting depth (declarative, by counting parentheses), the depth reader `walk` used in the proofs, and the forward
simulation of the scanning loop of `Function.parse` along it, with the exact error (reason, position, token) for each
shape of text. Helper lemmas for C03 (`reason_complete_and_sound`). -/
set_option linter.unusedSimpArgs false
namespace QtVerif.Parse
open QtVerif.Syntax

/-! ### nesting depth -/

/-- Nesting depth after reading `p`: opening minus closing parentheses. -/
def depth (p : List Char) : Int := (p.count '(' : Int) - (p.count ')' : Int)

/-- `w` can be read inside a call's parentheses without ever closing them (`d + depth q ≥ 0` for every prefix) and
without a comma at the call's own level (`d` = number of parentheses already open inside the argument). -/
def OpenAt (d : Nat) (w : List Char) : Prop :=
  (∀ q, q <+: w → 0 ≤ (d : Int) + depth q) ∧ (∀ q, q ++ [','] <+: w → 1 ≤ (d : Int) + depth q)

/-- An unfinished argument text: never closes the call, no comma at the call's level. -/
def Open (w : List Char) : Prop := OpenAt 0 w

/-- A complete argument text: parentheses matched, no comma outside parentheses. -/
def Seg (t : List Char) : Prop := OpenAt 0 t ∧ depth t = 0

/-- depth reader used in the proofs: `walk d a = some d'` iff `a` can be read from inner depth `d`, ending at `d'` -/
def walk : Nat → List Char → Option Nat
  | d, [] => some d
  | d, c :: w =>
    if c = '(' then walk (d + 1) w
    else if c = ')' then (match d with | 0 => none | d' + 1 => walk d' w)
    else if c = ',' then (match d with | 0 => none | _ + 1 => walk d w)
    else walk d w

theorem depth_nil : depth [] = 0 := by simp [depth]
theorem depth_cons (c : Char) (w : List Char) :
    depth (c :: w) = (if c = '(' then 1 else if c = ')' then -1 else 0) + depth w := by
  by_cases h1 : c = '('
  · subst h1; simp [depth]; omega
  · by_cases h2 : c = ')'
    · subst h2; simp [depth]; omega
    · have e1 : ('(' == c) = false := by simpa using fun h => h1 h.symm
      have e2 : (')' == c) = false := by simpa using fun h => h2 h.symm
      simp [depth, h1, h2, List.count_cons, e1, e2]

theorem depth_append (a b : List Char) : depth (a ++ b) = depth a + depth b := by
  simp [depth, List.count_append]; omega

theorem prefix_cons_iff (c : Char) (w q : List Char) : q <+: c :: w ↔ q = [] ∨ ∃ q', q = c :: q' ∧ q' <+: w := by
  cases q with
  | nil => simp
  | cons a q' =>
    simp only [List.cons_prefix_cons, reduceCtorEq, false_or]
    constructor
    · rintro ⟨rfl, h⟩; exact ⟨q', rfl, h⟩
    · rintro ⟨q'', h, hp⟩; cases h; exact ⟨rfl, hp⟩

theorem walk_iff : ∀ (a : List Char) (d d' : Nat),
    walk d a = some d' ↔ ((d : Int) + depth a = d' ∧ OpenAt d a) := by
  intro a
  induction a with
  | nil =>
    intro d d'
    simp only [walk, Option.some.injEq, depth_nil, OpenAt]
    constructor
    · rintro rfl
      refine ⟨by omega, ?_, ?_⟩
      · intro q hq; have := List.prefix_nil.mp hq; subst this; simp [depth_nil]
      · intro q hq; have := List.prefix_nil.mp hq; simp at this
    · rintro ⟨h, -⟩; omega
  | cons c w ih =>
    intro d d'
    have hopen : ∀ (δ : Int) (e : Nat), (e : Int) = d + δ →
        (if c = '(' then (1:Int) else if c = ')' then -1 else 0) = δ → (c = ',' → 1 ≤ d) →
        (OpenAt d (c :: w) ↔ OpenAt e w) := by
      intro δ e he hδ hcomma
      simp only [OpenAt]
      constructor
      · rintro ⟨h1, h2⟩
        constructor
        · intro q hq
          have := h1 (c :: q) (by simpa using hq)
          rw [depth_cons, hδ] at this; omega
        · intro q hq
          have := h2 (c :: q) (by simpa using hq)
          rw [depth_cons, hδ] at this; omega
      · rintro ⟨h1, h2⟩
        constructor
        · intro q hq
          rcases (prefix_cons_iff c w q).mp hq with rfl | ⟨q', rfl, hq'⟩
          · simp [depth_nil]
          · have := h1 q' hq'
            rw [depth_cons, hδ]; omega
        · intro q hq
          cases q with
          | nil =>
            simp at hq
            have := hcomma hq.symm
            simp [depth_nil]; omega
          | cons a q' =>
            simp only [List.cons_append, List.cons_prefix_cons] at hq
            obtain ⟨rfl, hq'⟩ := hq
            have := h2 q' hq'
            rw [depth_cons, hδ]; omega
    by_cases h1 : c = '('
    · subst h1
      simp only [walk, if_true]
      rw [ih (d + 1) d', depth_cons]
      simp only [if_true]
      rw [hopen 1 (d + 1) (by omega) (by simp) (by intro h; cases h)]
      constructor <;> rintro ⟨h, ho⟩ <;> exact ⟨by omega, ho⟩
    · by_cases h2 : c = ')'
      · subst h2
        have hne : ¬ (')' = '(') := by decide
        simp only [walk, hne, if_false, if_true]
        cases d with
        | zero =>
          simp only [reduceCtorEq, false_iff]
          rintro ⟨-, ho, -⟩
          have := ho [')'] (by simp)
          rw [depth_cons, depth_nil] at this; simp at this
        | succ d0 =>
          simp only
          rw [ih d0 d', depth_cons]
          simp only [hne, if_false, if_true]
          rw [hopen (-1) d0 (by omega) (by simp) (by intro h; cases h)]
          constructor <;> rintro ⟨h, ho⟩ <;> exact ⟨by omega, ho⟩
      · by_cases h3 : c = ','
        · subst h3
          have hne1 : ¬ (',' = '(') := by decide
          have hne2 : ¬ (',' = ')') := by decide
          simp only [walk, hne1, hne2, if_false, if_true]
          cases d with
          | zero =>
            simp only [reduceCtorEq, false_iff]
            rintro ⟨-, -, ho⟩
            have := ho [] (by simp)
            simp [depth_nil] at this
          | succ d0 =>
            simp only
            rw [ih (d0 + 1) d', depth_cons]
            simp only [hne1, hne2, if_false]
            rw [hopen 0 (d0 + 1) (by omega) (by simp) (by intro; omega)]
            constructor <;> rintro ⟨h, ho⟩ <;> exact ⟨by omega, ho⟩
        · simp only [walk, h1, h2, h3, if_false]
          rw [ih d d', depth_cons]
          simp only [h1, h2, if_false]
          rw [hopen 0 d (by omega) (by simp [h1, h2]) (by intro h; exact absurd h h3)]
          constructor <;> rintro ⟨h, ho⟩ <;> exact ⟨by omega, ho⟩

theorem seg_iff_walk (t : List Char) : Seg t ↔ walk 0 t = some 0 := by
  rw [walk_iff]; simp only [Seg]; constructor
  · rintro ⟨h1, h2⟩; exact ⟨by simp [h2], h1⟩
  · rintro ⟨h1, h2⟩; exact ⟨h2, by simpa using h1⟩

theorem open_iff_walk (w : List Char) : Open w ↔ ∃ d, walk 0 w = some d := by
  constructor
  · intro h
    have hnn : 0 ≤ depth w := by simpa using h.1 w (List.prefix_refl w)
    refine ⟨(depth w).toNat, (walk_iff w 0 _).mpr ⟨?_, h⟩⟩
    simp; omega
  · rintro ⟨d, h⟩; exact ((walk_iff w 0 d).mp h).2

theorem walk_append : ∀ (a b : List Char) (d : Nat), walk d (a ++ b) = (walk d a).bind (fun d' => walk d' b) := by
  intro a
  induction a with
  | nil => intro b d; simp [walk]
  | cons c w ih =>
    intro b d
    simp only [List.cons_append, walk]
    by_cases h1 : c = '('
    · simp [h1, ih]
    · by_cases h2 : c = ')'
      · cases d <;> simp [h1, h2, ih]
      · by_cases h3 : c = ','
        · cases d <;> simp [h1, h2, h3, ih]
        · simp [h1, h2, h3, ih]

/-- a fine argument text: complete and not blank -/
def ArgText (t : List Char) : Prop := Seg t ∧ trim t ≠ []

/-! ### forward simulation of the scanning loop along a depth reading -/

theorem scan_walk : ∀ (a : List Char) (d d' : Nat), walk d a = some d' →
    ∀ (pos i ps : Nat) (name : List Char) (as : Nat) (cur : List Char) (sargs : List (List Char × Nat))
      (rest : List Char),
    scanLoop pos ⟨i, some ps, none, d + 1, name, as, cur, sargs⟩ (a ++ rest) =
    scanLoop pos ⟨i + a.length, some ps, none, d' + 1, name, as, cur ++ a, sargs⟩ rest := by
  intro a
  induction a with
  | nil => intro d d' h; simp [walk] at h; subst h; intros; simp
  | cons c w ih =>
    intro d d' h pos i ps name as cur sargs rest
    simp only [walk] at h
    by_cases h1 : c = '('
    · subst h1
      simp only [if_true] at h
      rw [List.cons_append, scanLoop_step (step_inside_open pos i ps d name as cur sargs),
        ih (d + 1) d' h]
      congr 2
      · simp; omega
      · simp
    · by_cases h2 : c = ')'
      · subst h2
        simp only [h1, if_false, if_true] at h
        cases d with
        | zero => simp at h
        | succ d0 =>
          simp only at h
          rw [List.cons_append, scanLoop_step (step_inside_close pos i ps d0 name as cur sargs), ih d0 d' h]
          congr 2
          · simp; omega
          · simp
      · by_cases h3 : c = ','
        · subst h3
          simp only [h1, h2, if_false, if_true] at h
          cases d with
          | zero => simp at h
          | succ d0 =>
            simp only at h
            rw [List.cons_append, scanLoop_step (step_inside_plain pos i ps (d0 + 1) name as cur sargs ','
              (by decide) (by decide) (Or.inr (by omega))), ih (d0 + 1) d' h]
            congr 2
            · simp; omega
            · simp
        · simp only [h1, h2, h3, if_false] at h
          rw [List.cons_append, scanLoop_step (step_inside_plain pos i ps d name as cur sargs c h1 h2 (Or.inl h3)),
            ih d d' h]
          congr 2
          · simp; omega
          · simp

/-- the argument texts with the offsets at which they start (`spos` of the code), `b` = offset of the first -/
def offs : Nat → List (List Char) → List (List Char × Nat)
  | _, [] => []
  | b, t :: r => (t, b) :: offs (b + t.length + 1) r

theorem offs_map_fst (b : Nat) (ts : List (List Char)) : (offs b ts).map Prod.fst = ts := by
  induction ts generalizing b with
  | nil => rfl
  | cons t r ih => simp [offs, ih]

theorem offs_length (b : Nat) (ts : List (List Char)) : (offs b ts).length = ts.length := by
  have := congrArg List.length (offs_map_fst b ts); simpa using this

theorem pre_length_cons (t : List Char) (r : List (List Char)) : (pre (t :: r)).length = t.length + 1 + (pre r).length := by
  simp [pre]; omega

theorem offs_append (b : Nat) (l m : List (List Char)) :
    offs b (l ++ m) = offs b l ++ offs (b + (pre l).length) m := by
  induction l generalizing b with
  | nil => simp [offs, pre]
  | cons t r ih =>
    simp only [List.cons_append, offs, ih, pre_length_cons]
    congr 3; omega

/-- Scanning `t₁ , … , tₖ ,` (every text followed by its comma) at the call's level. -/
theorem pre_walk {ts : List (List Char)} (hb : ∀ t ∈ ts, ArgText t) :
    ∀ (pos i ps : Nat) (name : List Char) (sargs : List (List Char × Nat)) (rest : List Char),
    scanLoop pos ⟨i, some ps, none, 1, name, i, [], sargs⟩ (pre ts ++ rest) =
      scanLoop pos ⟨i + (pre ts).length, some ps, none, 1, name, i + (pre ts).length, [], sargs ++ offs i ts⟩ rest := by
  induction ts with
  | nil => intro pos i ps name sargs rest; simp [pre, offs]
  | cons t r ih =>
    intro pos i ps name sargs rest
    have ht := hb t List.mem_cons_self
    have h := ih (fun x hx => hb x (List.mem_cons_of_mem _ hx)) pos (i + t.length + 1) ps name
      (sargs ++ [(t, i)]) rest
    have e0 := scan_walk t 0 0 ((seg_iff_walk t).mp ht.1) pos i ps name i [] sargs (',' :: pre r ++ rest)
    simp only [pre, List.append_assoc, List.cons_append, List.nil_append] at e0 ⊢
    rw [e0, scanLoop_step (step_comma1 pos _ ps name i t sargs ht.2), h]
    congr 2
    · simp; omega
    · simp; omega
    · simp [offs]

/-- State of the scanner after `head ( t₁ , … , tₖ ,`. -/
theorem scan_head_pre (pos : Nat) (hd : List Char) (ts : List (List Char)) (hh : ∀ c ∈ hd, c ≠ '(' ∧ c ≠ ')')
    (hb : ∀ t ∈ ts, ArgText t) (rest : List Char) :
    scanLoop pos {} (hd ++ '(' :: pre ts ++ rest) =
      scanLoop pos ⟨hd.length + 1 + (pre ts).length, some hd.length, none, 1, hd, hd.length + 1 + (pre ts).length, [],
        offs (hd.length + 1) ts⟩ rest := by
  have e1 := scan_name hd hh pos 0 [] 0 [] [] ('(' :: pre ts ++ rest)
  simp only [List.nil_append, Nat.zero_add] at e1
  have h2 := pre_walk hb pos (hd.length + 1) hd.length hd [] rest
  have : (hd ++ '(' :: pre ts ++ rest) = hd ++ ('(' :: pre ts ++ rest) := by simp
  rw [this]
  show scanLoop pos ⟨0, none, none, 0, [], 0, [], []⟩ _ = _
  rw [e1]
  simp only [List.cons_append]
  rw [scanLoop_step (step_open0 pos _ hd 0 [] []), h2]
  simp

def NoParen (hd : List Char) : Prop := ∀ c ∈ hd, c ≠ '(' ∧ c ≠ ')'

theorem trim_allSpace {ws : List Char} (h : AllSpace ws) : trim ws = [] := by
  have := trim_wrap (core := []) h allSpace_nil tight_nil
  simpa using this

theorem allSpace_of_trim {ws : List Char} (h : trim ws = []) : AllSpace ws := by
  obtain ⟨w1, w2, h1, h2, hs, -⟩ := trim_decomp ws
  rw [h] at hs; rw [hs]
  exact allSpace_append (allSpace_append h1 allSpace_nil) h2

theorem seg_allSpace {ws : List Char} (h : AllSpace ws) : walk 0 ws = some 0 := by
  induction ws with
  | nil => rfl
  | cons c r ih =>
    have hc := noPC_of_not_special (space_not_special (h c List.mem_cons_self))
    simp only [walk, hc.1, hc.2.1, hc.2.2, if_false]
    exact ih (fun d hd => h d (List.mem_cons_of_mem _ hd))

theorem scan_after_ws_end (pos : Nat) {ws : List Char} (hws : AllSpace ws) (i ps pe : Nat) (name : List Char)
    (as : Nat) (cur : List Char) (sargs : List (List Char × Nat)) :
    scanLoop pos ⟨i, some ps, some pe, 0, name, as, cur, sargs⟩ ws =
      .ok ⟨i + ws.length, some ps, some pe, 0, name, as, cur, sargs⟩ := by
  have := scan_after_ws pos hws i ps pe name as cur sargs []
  simpa [scanLoop] using this

/-- `)` before any `(` -/
theorem scanF_closeFirst (pos : Nat) (hd rest : List Char) (hh : NoParen hd) :
    scan pos (hd ++ ')' :: rest) = .error { kind := .unbalanced, pos := pos + hd.length } := by
  have e1 := scan_name hd hh pos 0 [] 0 [] [] (')' :: rest)
  simp only [List.nil_append, Nat.zero_add] at e1
  unfold scan
  show (match scanLoop pos ⟨0, none, none, 0, [], 0, [], []⟩ _ with | .error e => _ | .ok st => _) = _
  rw [e1]
  simp [scanLoop, step]

/-- a blank argument ended by a comma -/
theorem scanF_blankComma (pos : Nat) (hd : List Char) (ts : List (List Char)) (blank rest : List Char)
    (hh : NoParen hd) (hb : ∀ t ∈ ts, ArgText t) (hbl : AllSpace blank) :
    scan pos (hd ++ '(' :: pre ts ++ blank ++ ',' :: rest) =
      .error { kind := .unexpectedChar, pos := pos + (hd.length + 1 + (pre ts).length + blank.length), tok := [','] } := by
  have e : hd ++ '(' :: pre ts ++ blank ++ ',' :: rest = hd ++ '(' :: pre ts ++ (blank ++ ',' :: rest) := by simp
  unfold scan
  rw [e, scan_head_pre pos hd ts hh hb, scan_walk blank 0 0 (seg_allSpace hbl)]
  simp [scanLoop, step, trim_allSpace hbl, Nat.add_assoc]

/-- the call is never closed -/
theorem scanF_unterminated (pos : Nat) (hd : List Char) (ts : List (List Char)) (w : List Char)
    (hh : NoParen hd) (hb : ∀ t ∈ ts, ArgText t) (hw : Open w) :
    scan pos (hd ++ '(' :: pre ts ++ w) = .error { kind := .unexpectedEnd } := by
  obtain ⟨d, hd'⟩ := (open_iff_walk w).mp hw
  have e : hd ++ '(' :: pre ts ++ w = hd ++ '(' :: pre ts ++ (w ++ []) := by simp
  unfold scan
  rw [e, scan_head_pre pos hd ts hh hb, scan_walk w 0 d hd']
  simp [scanLoop, finish]

/-- something follows the closing parenthesis -/
theorem scanF_afterClose (pos : Nat) (hd : List Char) (ts : List (List Char)) (cur ws : List Char) (c : Char)
    (rest : List Char) (hh : NoParen hd) (hb : ∀ t ∈ ts, ArgText t) (hcur : Seg cur) (hws : AllSpace ws)
    (hc : isSpace c = false) :
    scan pos (hd ++ '(' :: pre ts ++ cur ++ ')' :: ws ++ c :: rest) =
      .error (if c = ')' then
          { kind := .unbalanced, pos := pos + (hd.length + 1 + (pre ts).length + cur.length + 1 + ws.length) }
        else { kind := .unexpectedChar, pos := pos + (hd.length + 1 + (pre ts).length + cur.length + 1 + ws.length),
               tok := [c] }) := by
  have e : hd ++ '(' :: pre ts ++ cur ++ ')' :: ws ++ c :: rest =
      hd ++ '(' :: pre ts ++ (cur ++ (')' :: (ws ++ c :: rest))) := by simp
  unfold scan
  rw [e, scan_head_pre pos hd ts hh hb, scan_walk cur 0 0 ((seg_iff_walk cur).mp hcur),
    scanLoop_step (step_close1 pos _ _ hd _ _ _), scan_after_ws pos hws]
  by_cases hcp : c = ')'
  · subst hcp; simp [scanLoop, step, Nat.add_assoc]
  · by_cases hco : c = '('
    · subst hco; simp [scanLoop, step, Nat.add_assoc]
    · have e1 : (c == '(') = false := by simpa using hco
      have e2 : (c == ')') = false := by simpa using hcp
      simp [scanLoop, step, e1, e2, hc, hcp, Nat.add_assoc]

/-- a blank last argument (or blank between the parentheses of a call without arguments) -/
theorem scanF_blankClose (pos : Nat) (hd : List Char) (ts : List (List Char)) (blank tail : List Char)
    (hh : NoParen hd) (hb : ∀ t ∈ ts, ArgText t) (hbl : AllSpace blank) (hne : ts ≠ [] ∨ blank ≠ [])
    (htail : AllSpace tail) :
    scan pos (hd ++ '(' :: pre ts ++ blank ++ ')' :: tail) =
      .error { kind := .unexpectedChar, pos := pos + (hd.length + 1 + (pre ts).length + blank.length), tok := [')'] } := by
  have e : hd ++ '(' :: pre ts ++ blank ++ ')' :: tail = hd ++ '(' :: pre ts ++ (blank ++ ')' :: tail) := by
    simp
  unfold scan
  rw [e, scan_head_pre pos hd ts hh hb, scan_walk blank 0 0 (seg_allSpace hbl),
    scanLoop_step (step_close1 pos _ _ hd _ _ _), scan_after_ws_end pos htail]
  have hlen : (pre ts).length + blank.length ≥ 1 := by
    rcases hne with h | h
    · cases ts with
      | nil => exact absurd rfl h
      | cons a r => simp [pre]; omega
    · cases blank with
      | nil => exact absurd rfl h
      | cons a r => simp; omega
  have h5 : ¬ (hd.length > hd.length + 1 + (pre ts).length + blank.length) := by omega
  have h6 : hd.length + 1 + (pre ts).length + blank.length - hd.length > 1 := by omega
  simp [scanLoop, finish, trim_allSpace hbl, Nat.add_assoc]
  rw [if_neg (by omega), if_pos (by omega)]

/-- a well-shaped call: the scanner returns the head and the argument texts with their offsets -/
theorem scanF_ok (pos : Nat) (hd : List Char) (ts : List (List Char)) (tail : List Char) (hh : NoParen hd)
    (hb : ∀ t ∈ ts, ArgText t) (htail : AllSpace tail) :
    scan pos (hd ++ '(' :: joinC ts ++ ')' :: tail) = .ok (hd, offs (hd.length + 1) ts) := by
  rcases List.eq_nil_or_concat ts with rfl | ⟨init, last, rfl⟩
  · have := scan_head_pre pos hd [] hh (by intro t ht; cases ht) (')' :: tail)
    simp only [pre, List.append_nil, List.length_nil, Nat.add_zero] at this
    unfold scan
    simp only [joinC, List.append_nil]
    rw [this, scanLoop_step (step_close1 pos _ _ hd _ _ _), scan_after_ws_end pos htail]
    simp [scanLoop, finish, offs]
  · rw [List.concat_eq_append] at hb ⊢
    have hinit : ∀ t ∈ init, ArgText t := fun t ht => hb t (List.mem_append_left _ ht)
    have hlast : ArgText last := hb last (by simp)
    have e : hd ++ '(' :: joinC (init ++ [last]) ++ ')' :: tail =
        hd ++ '(' :: pre init ++ (last ++ ')' :: tail) := by
      rw [joinC_snoc]; simp
    unfold scan
    rw [e, scan_head_pre pos hd init hh hinit, scan_walk last 0 0 ((seg_iff_walk last).mp hlast.1),
      scanLoop_step (step_close1 pos _ _ hd _ _ _), scan_after_ws_end pos htail]
    have hl1 : last.length ≥ 1 := by
      cases last with
      | nil => exact absurd rfl hlast.2
      | cons _ _ => simp
    have h5 : ¬ (hd.length > hd.length + 1 + (pre init).length + last.length) := by omega
    have h6 : hd.length + 1 + (pre init).length + last.length - hd.length > 1 := by omega
    simp [scanLoop, finish, hlast.2, offs_append, offs, Nat.add_assoc]
    rw [if_neg (by omega), if_pos (by omega)]

end QtVerif.Parse
