import QtVerif.Proofs.EvalLazy
import QtVerif.Proofs.EvalRat
/-!
C02 helper lemmas over the exact rational carrier `exactRat` (a lawful ordered field): DIV is exact, AVG of two
numbers lies between them, two-point LUTLI is the linear interpolation and lies between the end-points.
-/
set_option linter.unusedSimpArgs false
namespace QtVerif.Eval
open QtVerif.Syntax QtVerif.Num
attribute [local instance] exactRat

theorem rat_div_exact (a b : Rat) (now : Int) (hb : b ≠ 0) :
    ∃ q : Rat, applyFn true now "DIV" [.f a, .f b] = .val (.f q) ∧ q * b = a := by
  refine ⟨a / b, ?_, by grind⟩
  show fnDiv [Val.f a, Val.f b] = _
  simp [fnDiv, truthy, PyFloat.beq, PyFloat.zero, PyFloat.div, hb, vdiv, Val.int?, toFloat, ofExcept]

theorem rat_avg2_between (a b : Rat) (now : Int) :
    ∃ m : Rat, applyFn true now "AVG" [.f a, .f b] = .val (.f m) ∧ min a b ≤ m ∧ m ≤ max a b := by
  refine ⟨(a + b) / 2, ?_, by grind, by grind⟩
  show fnAvg [Val.f a, Val.f b] = _
  simp [fnAvg, pySum, sumStep, sumDone, Val.int?, vadd, arith, toFloat, applyComp, vdiv, ofExcept,
    PyFloat.beq, PyFloat.zero, PyFloat.div, PyFloat.add, PyFloat.sub, PyFloat.ofInt, PyFloat.le, PyFloat.abs, PyFloat.isFinite]
  grind

theorem rat_lutli2_between (x x1 y1 x2 y2 : Rat) (now : Int) (h12 : x1 < x2) (h1 : x1 ≤ x) (h2 : x ≤ x2) :
    ∃ y : Rat, applyFn true now "LUTLI" [.f x, .f x1, .f y1, .f x2, .f y2] = .val (.f y) ∧
      y = y1 + (y2 - y1) * (x - x1) / (x2 - x1) ∧ min y1 y2 ≤ y ∧ y ≤ max y1 y2 := by
  refine ⟨y1 + (y2 - y1) * (x - x1) / (x2 - x1), ?_, rfl, ?_, ?_⟩
  · show fnLutli [Val.f x, Val.f x1, Val.f y1, Val.f x2, Val.f y2] = _
    have a1 : ¬ x2 < x1 := by grind
    have a2 : ¬ x < x1 := by grind
    have a3 : ¬ x2 < x := by grind
    have a4 : ¬ x1 = x2 := by grind
    have a5 : ¬ x2 - x1 = 0 := by grind
    simp [fnLutli, pairUp, lutli, sortPts, insertPt, vlt, Val.num, PyFloat.lt, a1, a2, lutliGo, vgt, a3, veq, PyFloat.beq, a4,
      interp, vsub, vmul, vadd, arith, Val.int?, toFloat, PyFloat.sub, PyFloat.mul, PyFloat.add, truthy, PyFloat.zero, a5, vdiv,
      PyFloat.div, ofExcept]
  all_goals
    have hw : 0 < x2 - x1 := by grind
    have hi : 0 < (x2 - x1)⁻¹ := Rat.inv_pos.mpr hw
    have hi' : 0 ≤ (x2 - x1)⁻¹ := Rat.le_of_lt hi
    have hc : (x2 - x1) * (x2 - x1)⁻¹ = 1 := Rat.mul_inv_cancel _ (by grind)
    have hs : 0 ≤ (x - x1) * (x2 - x1)⁻¹ := Rat.mul_nonneg (by grind) hi'
    have hu : 0 ≤ (x2 - x) * (x2 - x1)⁻¹ := Rat.mul_nonneg (by grind) hi'
    have hc' : (y2 - y1) * ((x2 - x1) * (x2 - x1)⁻¹) = y2 - y1 := by rw [hc, Rat.mul_one]
    rw [Rat.div_def]
    by_cases h : y1 ≤ y2
    · have p1 : 0 ≤ (y2 - y1) * ((x - x1) * (x2 - x1)⁻¹) := Rat.mul_nonneg (by grind) hs
      have p2 : 0 ≤ (y2 - y1) * ((x2 - x) * (x2 - x1)⁻¹) := Rat.mul_nonneg (by grind) hu
      grind
    · have p1 : 0 ≤ (y1 - y2) * ((x - x1) * (x2 - x1)⁻¹) := Rat.mul_nonneg (by grind) hs
      have p2 : 0 ≤ (y1 - y2) * ((x2 - x) * (x2 - x1)⁻¹) := Rat.mul_nonneg (by grind) hu
      grind

end QtVerif.Eval
