import QtVerif.Model.JsonFile
/-!
Helper lemmas for C08 (JSON file driver crash consistency). The property theorems are in `Props/C08.lean`.

The argument: `Inv c cfg fs m` ("the directory `fs` durably holds the content `m`") is
  * established by the empty directory with the empty store,
  * implies `load = ok m`,
  * preserved — with `m` unchanged — by every crash point of a repaired `_save` before its last step, and turned into
    `Inv … d` by the last step (`os.replace(temp, file)`), whatever the directory looked like before (clean, or left
    behind by an earlier crash: data file missing with the backup holding the content, stale temp file of any content).
-/
namespace QtVerif.JsonFile
variable {D : Type}

theorem Codec.Lawful.ser_ne_nil {c : Codec D} (h : c.Lawful) (d : D) : c.ser d ≠ [] := by
  intro e
  have := h.roundtrip d
  rw [e, h.parseNil] at this
  cases this

/-- The directory `fs` durably holds `m`: the data file is the complete serialisation of `m`; or it is missing and
the backup is (use_backup only: the window between the two `os.replace` calls of an interrupted save); or nothing was
ever saved. The temp file is unconstrained (stale, partial, anything). -/
def Inv (c : Codec D) (cfg : Cfg) (fs : Fs) (m : D) : Prop :=
  fs .data = some (c.ser m)
  ∨ (fs .data = none ∧ cfg.useBackup = true ∧ fs .backup = some (c.ser m))
  ∨ (fs .data = none ∧ (cfg.useBackup = true → fs .backup = none) ∧ m = c.empty)

theorem blank_inv (c : Codec D) (cfg : Cfg) : Inv c cfg Fs.blank c.empty := by
  right; right; simp [Fs.blank]

theorem load_of_inv {c : Codec D} (hc : c.Lawful) (ub : Bool) (fs : Fs) (m : D)
    (h : Inv c ⟨true, ub⟩ fs m) : load c ⟨true, ub⟩ fs = .ok m := by
  rcases h with h | ⟨h1, h2, h3⟩ | ⟨h1, h2, h3⟩
  · have hne := hc.ser_ne_nil m
    simp [load, h, hne, hc.roundtrip]
  · simp at h2
    simp [load, h1, h2, h3, readBackup, hc.roundtrip]
  · cases ub
    · simp [load, h1, h3]
    · simp at h2
      simp [load, h1, h2, h3]

/-- Every crash point of a repaired save, from every directory that durably holds `m`: no step is refused by the OS;
before the last step the directory still holds `m`; after it, it holds `d` in the data file itself. -/
theorem crash_inv {c : Codec D} (ub : Bool) (fs : Fs) (m d : D) (k j : Nat)
    (h : Inv c ⟨true, ub⟩ fs m) :
    ∃ fs', crash (saveSteps c ⟨true, ub⟩ fs d) k j fs = .ok fs' ∧
      ((k < (saveSteps c ⟨true, ub⟩ fs d).length ∧ Inv c ⟨true, ub⟩ fs' m) ∨
       ((saveSteps c ⟨true, ub⟩ fs d).length ≤ k ∧ Inv c ⟨true, ub⟩ fs' d ∧ fs' .data = some (c.ser d))) := by
  rcases h with h | ⟨h1, h2, h3⟩ | ⟨h1, h2, h3⟩
  · cases ub
    · rcases k with _|_|_|_|k <;>
        simp [saveSteps, crash, runSteps, Step.apply, Fs.set, Inv, h]
    · rcases k with _|_|_|_|_|k <;>
        simp [saveSteps, crash, runSteps, Step.apply, Fs.set, Inv, h]
  · simp at h2
    subst h2
    rcases k with _|_|_|_|k <;>
        simp [saveSteps, crash, runSteps, Step.apply, Fs.set, Inv, h1, h3]
  · cases ub
    · rcases k with _|_|_|_|k <;>
        simp [saveSteps, crash, runSteps, Step.apply, Fs.set, Inv, h1, h3]
    · simp at h2
      rcases k with _|_|_|_|k <;>
        simp [saveSteps, crash, runSteps, Step.apply, Fs.set, Inv, h1, h2, h3]

/-- In a crash state the data file is absent or a complete document — never empty, never partial. -/
theorem inv_data_whole {c : Codec D} {cfg : Cfg} {fs : Fs} {m : D} (h : Inv c cfg fs m) :
    fs .data = none ∨ fs .data = some (c.ser m) := by
  rcases h with h | ⟨h, _⟩ | ⟨h, _⟩
  · exact .inr h
  · exact .inl h
  · exact .inl h

/-- Running all the steps = crashing after the last one. -/
theorem crash_all (steps : List Step) (j : Nat) (fs : Fs) : crash steps steps.length j fs = runSteps fs steps := by
  simp [crash]
  cases runSteps fs steps <;> rfl

/-- The model computes the `os.path.exists(file_path)` probe on the directory `_save` starts from, the repaired code
evaluates it after the temp file is written: same answer, writing the temp file does not touch the data file. -/
theorem exists_probe_commutes (fs fs1 : Fs) (bs : Bytes)
    (h : runSteps fs [.create .temp, .write .temp bs, .close .temp] = .ok fs1) :
    fs1 .data = fs .data ∧ fs1 .backup = fs .backup := by
  simp [runSteps, Step.apply, Fs.set] at h
  subst h
  exact ⟨rfl, rfl⟩

/-- A completed repaired save leaves the new content in the data file and (use_backup) the previous data file, when
there was one, in the backup. -/
theorem save_result {c : Codec D} (ub : Bool) (fs : Fs) (d : D) :
    ∃ fs', runSteps fs (saveSteps c ⟨true, ub⟩ fs d) = .ok fs' ∧ fs' .data = some (c.ser d) ∧
      (∀ x, ub = true → fs .data = some x → fs' .backup = some x) ∧
      ((ub = false ∨ fs .data = none) → fs' .backup = fs .backup) := by
  cases ub <;> cases h : fs .data <;>
    simp [saveSteps, runSteps, Step.apply, Fs.set, h]

/-- The state invariant of a running driver process. -/
def Sys.Ok (c : Codec D) (cfg : Cfg) (s : Sys D) : Prop := Inv c cfg s.fs s.mem

theorem boot_of_inv {c : Codec D} (hc : c.Lawful) (ub : Bool) (fs : Fs) (m : D) (h : Inv c ⟨true, ub⟩ fs m) :
    boot c ⟨true, ub⟩ fs = .ok ⟨fs, m⟩ := by
  simp [boot, load_of_inv hc ub fs m h]

theorem step_ok {c : Codec D} (hc : c.Lawful) (ub : Bool) (s : Sys D) (e : Ev D) (h : s.Ok c ⟨true, ub⟩) :
    ∃ s', s.step c ⟨true, ub⟩ e = .ok s' ∧ SpecStep s.mem e s'.mem ∧ s'.Ok c ⟨true, ub⟩ := by
  cases e with
  | op f =>
    obtain ⟨fs', h1, h2⟩ := crash_inv ub s.fs s.mem (f s.mem) (saveSteps c ⟨true, ub⟩ s.fs (f s.mem)).length 0 h
    rw [crash_all] at h1
    rcases h2 with ⟨h2, _⟩ | ⟨_, h2, _⟩
    · omega
    · exact ⟨⟨fs', f s.mem⟩, by simp [Sys.step, h1], .op _ _, h2⟩
  | crashOp f k j =>
    obtain ⟨fs', h1, h2⟩ := crash_inv ub s.fs s.mem (f s.mem) k j h
    rcases h2 with ⟨_, h2⟩ | ⟨_, h2, _⟩
    · exact ⟨⟨fs', s.mem⟩, by simp [Sys.step, h1, boot_of_inv hc ub fs' _ h2], .crashPre _ _ _ _, h2⟩
    · exact ⟨⟨fs', f s.mem⟩, by simp [Sys.step, h1, boot_of_inv hc ub fs' _ h2], .crashPost _ _ _ _, h2⟩
  | restart =>
    exact ⟨s, by simp [Sys.step, boot_of_inv hc ub s.fs _ h], .restart _, h⟩

/-- The crash event in detail: which side of the commit point gives which content, and the shape of the files. -/
theorem crash_step_detail {c : Codec D} (hc : c.Lawful) (ub : Bool) (s : Sys D) (f : D → D) (k j : Nat)
    (h : s.Ok c ⟨true, ub⟩) :
    ∃ s', s.step c ⟨true, ub⟩ (.crashOp f k j) = .ok s' ∧ s'.Ok c ⟨true, ub⟩ ∧
      (k < (saveSteps c ⟨true, ub⟩ s.fs (f s.mem)).length → s'.mem = s.mem) ∧
      ((saveSteps c ⟨true, ub⟩ s.fs (f s.mem)).length ≤ k → s'.mem = f s.mem) := by
  obtain ⟨fs', h1, h2⟩ := crash_inv ub s.fs s.mem (f s.mem) k j h
  rcases h2 with ⟨hk, h2⟩ | ⟨hk, h2, _⟩
  · exact ⟨⟨fs', s.mem⟩, by simp [Sys.step, h1, boot_of_inv hc ub fs' _ h2], h2, fun _ => rfl, fun _ => by omega⟩
  · exact ⟨⟨fs', f s.mem⟩, by simp [Sys.step, h1, boot_of_inv hc ub fs' _ h2], h2, fun _ => by omega, fun _ => rfl⟩

theorem run_ok {c : Codec D} (hc : c.Lawful) (ub : Bool) (es : List (Ev D)) :
    ∀ s : Sys D, s.Ok c ⟨true, ub⟩ →
      ∃ s', s.run c ⟨true, ub⟩ es = .ok s' ∧ SpecRun s.mem es s'.mem ∧ s'.Ok c ⟨true, ub⟩ := by
  induction es with
  | nil => intro s h; exact ⟨s, rfl, .nil _, h⟩
  | cons e es ih =>
    intro s h
    obtain ⟨s1, h1, h2, h3⟩ := step_ok hc ub s e h
    obtain ⟨s2, g1, g2, g3⟩ := ih s1 h3
    exact ⟨s2, by simp [Sys.run, h1, g1], .cons h2 g2, g3⟩

theorem run_append (c : Codec D) (cfg : Cfg) (es es' : List (Ev D)) :
    ∀ s : Sys D, s.run c cfg (es ++ es') =
      (match s.run c cfg es with | .ok s' => s'.run c cfg es' | .error x => .error x) := by
  induction es with
  | nil => intro s; rfl
  | cons e es ih =>
    intro s
    simp only [List.cons_append, Sys.run]
    cases s.step c cfg e with
    | ok s' => exact ih s'
    | error x => rfl

theorem life_append (c : Codec D) (cfg : Cfg) (h t : List (Ev D)) :
    life c cfg (h ++ t) = (match life c cfg h with | .ok s => s.run c cfg t | .error x => .error x) := by
  unfold life
  cases boot c cfg Fs.blank with
  | ok s => exact run_append c cfg h t s
  | error x => rfl

theorem life_ok {c : Codec D} (hc : c.Lawful) (ub : Bool) (h : List (Ev D)) :
    ∃ s, life c ⟨true, ub⟩ h = .ok s ∧ SpecRun c.empty h s.mem ∧ s.Ok c ⟨true, ub⟩ := by
  have hb := boot_of_inv hc ub Fs.blank c.empty (blank_inv c _)
  obtain ⟨s, h1, h2, h3⟩ := run_ok hc ub h ⟨Fs.blank, c.empty⟩ (blank_inv c _)
  exact ⟨s, by simp [life, hb, h1], h2, h3⟩

/-! ### Inversions of the reference runs (used to read the allowed outcomes off `SpecRun`) -/

theorem specStep_op {m m' : D} {f : D → D} (h : SpecStep m (.op f) m') : m' = f m := by
  cases h; rfl

theorem specStep_crash {m m' : D} {f : D → D} {k j : Nat} (h : SpecStep m (.crashOp f k j) m') :
    m' = m ∨ m' = f m := by
  cases h
  · exact .inl rfl
  · exact .inr rfl

theorem specRun_restarts (m m' : D) (n : Nat) (h : SpecRun m (List.replicate n (Ev.restart)) m') : m' = m := by
  induction n generalizing m with
  | zero => cases h; rfl
  | succ n ih =>
    rw [List.replicate_succ] at h
    cases h with
    | cons h1 h2 => cases h1; exact ih _ h2

theorem specRun_op_crash (m m' : D) (f g : D → D) (k j : Nat)
    (h : SpecRun m [.op f, .crashOp g k j] m') : m' = f m ∨ m' = g (f m) := by
  cases h with
  | cons h1 h2 =>
    cases h1
    cases h2 with
    | cons h3 h4 =>
      cases h4
      cases h3
      · exact .inl rfl
      · exact .inr rfl

/-! ### The concrete codec is lawful -/

theorem docBody_ones_zero (n : Nat) : docBody (List.replicate n 1 ++ [0]) = some n := by
  induction n with
  | zero => simp [docBody]
  | succ n ih =>
    cases n with
    | zero => simp [docBody]
    | succ n =>
      rw [List.replicate_succ, List.cons_append]
      rw [List.replicate_succ, List.cons_append] at ih ⊢
      simp [docBody] at ih ⊢
      exact ih

theorem docBody_ones (n : Nat) : docBody (List.replicate n 1) = none := by
  induction n with
  | zero => simp [docBody]
  | succ n ih =>
    cases n with
    | zero => simp [docBody]
    | succ n =>
      rw [List.replicate_succ] at ih ⊢
      rw [List.replicate_succ]
      simp [docBody] at ih ⊢
      exact ih

theorem take_ones_zero (n k : Nat) (h : k ≤ n) : (List.replicate n 1 ++ [0]).take k = List.replicate k 1 := by
  rw [List.take_append_of_le_length (by simpa using h)]
  simp [List.take_replicate, Nat.min_eq_left h]

theorem docCodec_lawful : docCodec.Lawful where
  roundtrip d := by
    simp [docCodec, docBody_ones_zero]
  prefixFree d n hn := by
    cases n with
    | zero => simp [docCodec]
    | succ n =>
      simp [docCodec] at hn ⊢
      rw [take_ones_zero _ _ (by omega), docBody_ones]
  parseNil := rfl

/-- three documents for the counter-example histories and the non-vacuity examples of Props/C08.lean -/
def Witness.d1 : Doc := ⟨1, 5⟩
def Witness.d2 : Doc := ⟨2, 7⟩
def Witness.d3 : Doc := ⟨3, 4⟩

/-- content seen by the process at the end of a life, or the fault that ended it -/
def memOf : Except Fault (Sys D) → Except Fault D
  | .ok s => .ok s.mem
  | .error e => .error e

/-! ### Batches of operations issued concurrently (event-loop atomicity)

The hub is one asyncio program; several coroutines use the one driver. As long as a modifying operation contains no
suspension point between its first mutation of `self._data` and the end of its `_save`, the event loop runs the
operations of a batch one whole operation at a time, in some order: the concurrent execution IS a serial history
`σ.map Ev.op`. That is the atomicity assumption under which the crash theorems speak about the real hub; the harness
checks it on the real driver (concurrent batches on a large collection, crash points across the whole execution). -/

/-- the content after running whole operations one after the other -/
def applyAll (σ : List (D → D)) (m : D) : D := σ.foldl (fun a f => f a) m

/-- `x` is a whole-operation state of the batch `ops` started on content `m`: some of the operations, each of them
completely, in some order. -/
def WholeOpState (ops : List (D → D)) (m x : D) : Prop :=
  ∃ τ rest, (τ ++ rest).Perm ops ∧ x = applyAll τ m

theorem specRun_ops (σ : List (D → D)) : ∀ m m' : D, SpecRun m (σ.map Ev.op) m' → m' = applyAll σ m := by
  induction σ with
  | nil => intro m m' h; cases h; rfl
  | cons f σ ih =>
    intro m m' h
    cases h with
    | cons h1 h2 =>
      have := specStep_op h1
      subst this
      exact ih _ _ h2

theorem applyAll_append (σ : List (D → D)) (g : D → D) (m : D) : applyAll (σ ++ [g]) m = g (applyAll σ m) := by
  simp [applyAll, List.foldl_append]

theorem ops_then_crash {c : Codec D} (hc : c.Lawful) (ub : Bool) (h : List (Ev D)) (σ : List (D → D)) (g : D → D)
    (k j : Nat) :
    ∃ s s', life c ⟨true, ub⟩ h = .ok s ∧
      life c ⟨true, ub⟩ (h ++ (σ.map Ev.op ++ [.crashOp g k j])) = .ok s' ∧
      (s'.mem = applyAll σ s.mem ∨ s'.mem = applyAll (σ ++ [g]) s.mem) := by
  obtain ⟨s, h1, _, h3⟩ := life_ok hc ub h
  obtain ⟨s1, g1, g2, g3⟩ := run_ok hc ub (σ.map Ev.op) s h3
  obtain ⟨s2, k1, k2, _⟩ := step_ok hc ub s1 (.crashOp g k j) g3
  have e1 := specRun_ops σ _ _ g2
  refine ⟨s, s2, h1, ?_, ?_⟩
  · simp [life_append, h1, run_append, g1, Sys.run, k1]
  · rw [applyAll_append, ← e1]
    exact specStep_crash k2

/-- the two halves of a non-atomic operation (`f2 ∘ f1`, suspended in between) and a concurrent operation `g` -/
def Witness.f1 (d : Doc) : Doc := ⟨d.id + 1, d.extra⟩
def Witness.f2 (d : Doc) : Doc := ⟨d.id + 10, d.extra⟩
def Witness.g (d : Doc) : Doc := ⟨d.id + 100, d.extra⟩

theorem half_applied_not_whole :
    ¬ WholeOpState [Witness.f2 ∘ Witness.f1, Witness.g] (⟨0, 0⟩ : Doc) ⟨101, 0⟩ := by
  rintro ⟨τ, rest, hp, hx⟩
  have hl := hp.length_eq
  have hm : ∀ a ∈ τ, a = Witness.f2 ∘ Witness.f1 ∨ a = Witness.g := fun a ha => by
    have : a ∈ τ ++ rest := List.mem_append_left _ ha
    simpa using (hp.mem_iff.mp this)
  match τ, hm, hl, hx with
  | [], _, _, hx => simp [applyAll] at hx
  | [a], hm, _, hx =>
    rcases hm a (by simp) with e | e <;> subst e <;> simp [applyAll, Witness.f1, Witness.f2, Witness.g] at hx
  | [a, b], hm, _, hx =>
    rcases hm a (by simp) with e | e <;> rcases hm b (by simp) with e' | e' <;> subst e <;> subst e' <;>
      simp [applyAll, Witness.f1, Witness.f2, Witness.g] at hx
  | _ :: _ :: _ :: _, _, hl, _ => simp at hl

end QtVerif.JsonFile
