import QtVerif.Model.Parse
/-!
C03 helper: `deps` (the model of `get_deps()`) is determined by the expression's own tree — the ids of the ports whose
value it reads and the own dependencies of the functions it calls — and by nothing else.
-/
namespace QtVerif.Parse
open QtVerif.Syntax

mutual
/-- Names of the functions called anywhere in the tree. -/
def callNames : Expr → List String
  | .call n args => n :: callNamesArgs args
  | _ => []
def callNamesArgs : List Expr → List String
  | [] => []
  | a :: rest => callNames a ++ callNamesArgs rest
end

/-- `d` is `$id` for one of the port ids `ids`, or an own dependency (registry `DEPS`) of one of the functions `names`. -/
def TreeDep (env : Env) (ids : List String) (names : List String) (d : String) : Prop :=
  (∃ id ∈ ids, d = "$" ++ id) ∨ (∃ n ∈ names, d ∈ fnDeps env n)

mutual
theorem mem_deps_iff (env : Env) (selfId d : String) : (e : Expr) →
    (d ∈ deps env selfId e ↔ TreeDep env (e.portValueIds selfId) (callNames e) d)
  | .lit _ => by simp [deps, TreeDep, Expr.portValueIds, callNames]
  | .portVal id => by simp [deps, TreeDep, Expr.portValueIds, callNames]
  | .selfVal => by simp [deps, TreeDep, Expr.portValueIds, callNames]
  | .portRef _ => by simp [deps, TreeDep, Expr.portValueIds, callNames]
  | .selfRef => by simp [deps, TreeDep, Expr.portValueIds, callNames]
  | .call n args => by
      have ih := mem_depsArgs_iff env selfId d args
      simp only [deps, Expr.portValueIds, callNames, List.mem_append, ih, TreeDep, List.mem_cons]
      constructor
      · rintro (h | h | ⟨m, hm, hd⟩)
        · exact .inr ⟨n, .inl rfl, h⟩
        · exact .inl h
        · exact .inr ⟨m, .inr hm, hd⟩
      · rintro (h | ⟨m, rfl | hm, hd⟩)
        · exact .inr (.inl h)
        · exact .inl hd
        · exact .inr (.inr ⟨m, hm, hd⟩)
theorem mem_depsArgs_iff (env : Env) (selfId d : String) : (args : List Expr) →
    (d ∈ depsArgs env selfId args ↔ TreeDep env (argsPortValueIds selfId args) (callNamesArgs args) d)
  | [] => by simp [depsArgs, TreeDep, argsPortValueIds, callNamesArgs]
  | a :: rest => by
      have h1 := mem_deps_iff env selfId d a
      have h2 := mem_depsArgs_iff env selfId d rest
      simp only [depsArgs, argsPortValueIds, callNamesArgs, List.mem_append, h1, h2, TreeDep]
      constructor
      · rintro ((⟨i, hi, e⟩ | ⟨m, hm, hd⟩) | (⟨i, hi, e⟩ | ⟨m, hm, hd⟩))
        · exact .inl ⟨i, .inl hi, e⟩
        · exact .inr ⟨m, .inl hm, hd⟩
        · exact .inl ⟨i, .inr hi, e⟩
        · exact .inr ⟨m, .inr hm, hd⟩
      · rintro (⟨i, hi | hi, e⟩ | ⟨m, hm | hm, hd⟩)
        · exact .inl (.inl ⟨i, hi, e⟩)
        · exact .inr (.inl ⟨i, hi, e⟩)
        · exact .inl (.inr ⟨m, hm, hd⟩)
        · exact .inr (.inr ⟨m, hm, hd⟩)
end

end QtVerif.Parse
